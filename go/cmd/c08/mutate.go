// Seeds and mutation operators for the C08 search stream.
package main

import (
	"bytes"
	"fmt"
	"math/rand"
	"regexp"
	"strconv"
	"strings"
)

var objRe = regexp.MustCompile(`(?s)(?:^|[\r\n])(\d+) (\d+) obj\b(.*?)endobj`)
var rootRe = regexp.MustCompile(`/Root\s+(\d+)\s+\d+\s+R`)
var trailerExtraRe = regexp.MustCompile(`/(Info|ID|Encrypt)\s*(\d+\s+\d+\s+R|\[[^\]]*\])`)

// parseDoc splits a classic (uncompressed object) PDF into numbered object bodies.
func parseDoc(b []byte) *doc {
	d := newDoc()
	for _, m := range objRe.FindAllSubmatch(b, -1) {
		n, _ := strconv.Atoi(string(m[1]))
		d.objs[n] = strings.Trim(string(m[3]), "\r\n")
	}
	if m := rootRe.FindAllSubmatch(b, -1); len(m) > 0 {
		d.root, _ = strconv.Atoi(string(m[len(m)-1][1]))
	}
	tail := b
	if i := bytes.LastIndex(b, []byte("trailer")); i >= 0 {
		tail = b[i:]
	}
	for _, m := range trailerExtraRe.FindAllSubmatch(tail, -1) {
		d.trailer += "/" + string(m[1]) + " " + string(m[2])
	}
	if len(d.objs) == 0 {
		return nil
	}
	return d
}

var hugeNums = []string{"-1", "0", "1", "2", "255", "65535", "65536", "2147483647", "2147483648", "4294967295", "4294967296",
	"999999999999", "9223372036854775807", "9223372036854775808", "-9223372036854775808", "-2147483649", "99999999999999999999999",
	"1e308", "-0", "0.5", "00000000000000000001", "+7", "1 0 R", "null", "[]", "<<>>", "(1)", "/N", "true"}

var numKeyRe = regexp.MustCompile(`/(Length1|Length2|Length|Size|N|First|Count|Prev|Columns|Predictor|Colors|BitsPerComponent|Width|Height|Rotate|K|Rows|EarlyChange|DL|XRefStm|V|R|P|StructParents|StructParent|Flags|F|Ff|Q|MaxLen|FirstChar|LastChar|O|E|T|H|L)(\s*)(-?\d+)\b`)
var arrKeyRe = regexp.MustCompile(`/(W|Index|MediaBox|CropBox|Kids|Decode|Domain|Range|Matrix|BBox|Rect|Limits|Nums|Names|Fields|ID|Annots|Contents|Filter|DecodeParms|Widths|D)(\s*)\[([^\[\]]*)\]`)
var refRe = regexp.MustCompile(`\b(\d+) (\d+) R\b`)
var filterRe = regexp.MustCompile(`/(FlateDecode|LZWDecode|ASCII85Decode|ASCIIHexDecode|DCTDecode|RunLengthDecode|CCITTFaxDecode|JBIG2Decode|JPXDecode|Crypt)\b`)
var filters = []string{"FlateDecode", "LZWDecode", "ASCII85Decode", "ASCIIHexDecode", "DCTDecode", "RunLengthDecode", "CCITTFaxDecode", "JBIG2Decode", "JPXDecode", "Crypt", "Foo"}
var refKeyRe = regexp.MustCompile(`/(Kids|Parent|First|Last|Next|Prev|Pages|Outlines|Names|Dests|K|P|Pg|N|V|T|F|A|D|Resources|Contents|Encoding|FontDescriptor|DescendantFonts|ToUnicode|Length|Extends|SMask|Mask|XObject|Font|AcroForm|Fields|StructTreeRoot|ParentTree|OpenAction|Threads|Annots|Popup|IRT|AP|Root|Info|Encrypt|Metadata|OCProperties|Filter|DecodeParms)(\s*)(\d+) (\d+) R\b`)

func pickStr(r *rand.Rand, l []string) string { return l[r.Intn(len(l))] }

// splitStream separates an object body into its dict part and its stream part (incl. keywords).
func splitStream(body string) (string, string) {
	if i := strings.Index(body, "stream"); i >= 0 && strings.Contains(body[i:], "endstream") {
		return body[:i], body[i:]
	}
	return body, ""
}

// replaceNth replaces the n-th match (n random) of re in s using f on the submatch indexes.
func replaceRand(r *rand.Rand, re *regexp.Regexp, s string, f func(m []string) string) (string, bool) {
	locs := re.FindAllStringSubmatchIndex(s, -1)
	if len(locs) == 0 {
		return s, false
	}
	loc := locs[r.Intn(len(locs))]
	var m []string
	for i := 0; i+1 < len(loc); i += 2 {
		if loc[i] < 0 {
			m = append(m, "")
		} else {
			m = append(m, s[loc[i]:loc[i+1]])
		}
	}
	return s[:loc[0]] + f(m) + s[loc[1]:], true
}

// mutateDoc applies one structure-aware operator to a random object; returns its name.
func mutateDoc(r *rand.Rand, d *doc, deep int) string {
	nums := d.nums()
	if len(nums) == 0 {
		return "none"
	}
	pick := func() int { return nums[r.Intn(len(nums))] }
	// prefer non-stream-heavy objects for dict level operators
	try := func(re *regexp.Regexp, f func(m []string) string) bool {
		for k := 0; k < 30; k++ {
			n := pick()
			dict, st := splitStream(d.objs[n])
			if s, ok := replaceRand(r, re, dict, f); ok {
				d.objs[n] = s + st
				return true
			}
		}
		return false
	}
	switch op := r.Intn(16); op {
	case 0: // number perturbation
		if try(numKeyRe, func(m []string) string { return "/" + m[1] + " " + pickStr(r, hugeNums) }) {
			return "num"
		}
	case 1: // array entry perturbation
		if try(arrKeyRe, func(m []string) string {
			el := strings.Fields(m[3])
			switch r.Intn(5) {
			case 0:
				el = nil
			case 1:
				if len(el) > 0 {
					el[r.Intn(len(el))] = pickStr(r, hugeNums)
				}
			case 2:
				el = append(el, el...)
				el = append(el, el...)
			case 3:
				if len(el) > 1 {
					el = el[:len(el)-1]
				}
			case 4:
				el = append(el, pickStr(r, hugeNums))
			}
			return "/" + m[1] + "[" + strings.Join(el, " ") + "]"
		}) {
			return "arr"
		}
	case 2, 3, 4: // reference rewiring on a structural key -> cycles
		if try(refKeyRe, func(m []string) string {
			t := pick()
			if r.Intn(4) == 0 {
				t = 0
			}
			return "/" + m[1] + " " + strconv.Itoa(t) + " " + m[4] + " R"
		}) {
			return "rewire-key"
		}
	case 5: // any reference rewiring
		if try(refRe, func(m []string) string {
			return strconv.Itoa(pick()) + " " + pickStr(r, []string{"0", "0", "0", "1", "65535", "99999999999"}) + " R"
		}) {
			return "rewire"
		}
	case 6: // self reference: point a structural key of object n at n
		for k := 0; k < 30; k++ {
			n := pick()
			dict, st := splitStream(d.objs[n])
			if s, ok := replaceRand(r, refKeyRe, dict, func(m []string) string {
				return "/" + m[1] + " " + strconv.Itoa(n) + " 0 R"
			}); ok {
				d.objs[n] = s + st
				return "rewire-self"
			}
		}
	case 7: // object deletion
		delete(d.objs, pick())
		return "delete"
	case 8: // type swap
		n := pick()
		dict, st := splitStream(d.objs[n])
		t := strings.TrimSpace(dict)
		switch {
		case strings.HasPrefix(t, "<<") && strings.HasSuffix(t, ">>"):
			switch r.Intn(3) {
			case 0:
				d.objs[n] = "[" + t[2:len(t)-2] + "]" + st
			case 1:
				d.objs[n] = pickStr(r, hugeNums) + st
			case 2:
				d.objs[n] = "[" + t + "]" + st
			}
		case strings.HasPrefix(t, "["):
			d.objs[n] = "<<" + t[1:len(t)-1] + ">>" + st
		default:
			d.objs[n] = "<</X " + t + ">>" + st
		}
		return "typeswap"
	case 9: // object swap
		a, b := pick(), pick()
		d.objs[a], d.objs[b] = d.objs[b], d.objs[a]
		return "swap"
	case 10: // deep nesting inside a dict value
		n := pick()
		dict, st := splitStream(d.objs[n])
		k := []int{99, 100, 101, 102, 1000, deep}[r.Intn(6)]
		open, cl := "[", "]"
		if r.Intn(2) == 0 {
			open, cl = "<</A", ">>"
		}
		t := strings.TrimSpace(dict)
		if strings.HasSuffix(t, ">>") {
			d.objs[n] = t[:len(t)-2] + "/Zz " + nest(open, cl, k, "0") + ">>" + st
		} else {
			d.objs[n] = nest(open, cl, k, t) + st
		}
		return "deepnest"
	case 11: // filter garbage
		if try(filterRe, func(m []string) string { return "/" + pickStr(r, filters) }) {
			return "filter"
		}
	case 12: // stream data corruption / truncation (keeps /Length)
		for k := 0; k < 30; k++ {
			n := pick()
			dict, st := splitStream(d.objs[n])
			if st == "" || len(st) < 20 {
				continue
			}
			bs := []byte(st)
			lo, hi := 7, len(bs)-10
			if hi <= lo {
				continue
			}
			switch r.Intn(3) {
			case 0:
				for i := 0; i < 1+r.Intn(8); i++ {
					bs[lo+r.Intn(hi-lo)] = byte(r.Intn(256))
				}
			case 1:
				cut := lo + r.Intn(hi-lo)
				bs = append(bs[:cut:cut], []byte("\nendstream")...)
			case 2:
				at := lo + r.Intn(hi-lo)
				ins := bytes.Repeat([]byte{byte(r.Intn(256))}, 1+r.Intn(4000))
				bs = append(bs[:at:at], append(ins, bs[at:]...)...)
			}
			d.objs[n] = dict + string(bs)
			return "streamdata"
		}
	case 13: // duplicate a dict key with a garbage value / drop a key
		n := pick()
		dict, st := splitStream(d.objs[n])
		keyRe := regexp.MustCompile(`/[A-Za-z0-9]+`)
		if s, ok := replaceRand(r, keyRe, dict, func(m []string) string {
			switch r.Intn(3) {
			case 0:
				return m[0] + " " + pickStr(r, hugeNums) + " " + m[0]
			case 1:
				return "/Zq"
			}
			return m[0] + "#00"
		}); ok {
			d.objs[n] = s + st
			return "key"
		}
	case 14: // decode parms garbage
		n := pick()
		dict, st := splitStream(d.objs[n])
		t := strings.TrimSpace(dict)
		if st != "" && strings.HasSuffix(t, ">>") {
			dp := fmt.Sprintf("/DecodeParms<</Predictor %s/Columns %s/Colors %s/BitsPerComponent %s/EarlyChange %s/K %s>>",
				pickStr(r, []string{"1", "2", "10", "12", "15", "16", "-1", "99"}), pickStr(r, hugeNums), pickStr(r, hugeNums),
				pickStr(r, []string{"1", "2", "4", "8", "16", "0", "-8", "32", "64"}), pickStr(r, hugeNums), pickStr(r, hugeNums))
			d.objs[n] = t[:len(t)-2] + dp + ">>" + st
			return "decodeparms"
		}
	case 15: // trailer garbage
		d.trailer += pickStr(r, []string{"/Prev 0", "/Prev -1", "/Prev 9", "/XRefStm 9", "/XRefStm 0", "/Encrypt 1 0 R", "/Encrypt<<>>", "/Encrypt<</Filter/Standard/V 5/R 6/Length 256/O()/U()/P -1>>/ID[()()]",
			"/ID[<>]", "/ID 5", "/Info 1 0 R", "/Size 0", "/Size -1", "/Size 99999999999", "/Root 0 0 R", "/Root 99 0 R"})
		return "trailer"
	}
	// fallback
	n := pick()
	d.objs[n] = pickStr(r, hugeNums)
	return "replace"
}

// mutateBytes applies a byte-level operator.
func mutateBytes(r *rand.Rand, b []byte) ([]byte, string) {
	b = append([]byte(nil), b...)
	if len(b) < 64 {
		return b, "tiny"
	}
	switch r.Intn(7) {
	case 0:
		for i := 0; i < 1+r.Intn(6); i++ {
			b[r.Intn(len(b))] = byte(r.Intn(256))
		}
		return b, "byteflip"
	case 1: // flips in the last 1.5 kB (xref table / trailer)
		lo := len(b) - 1500
		if lo < 0 {
			lo = 0
		}
		for i := 0; i < 1+r.Intn(4); i++ {
			p := lo + r.Intn(len(b)-lo)
			b[p] = "0123456789nf <>/[]R\n"[r.Intn(20)]
		}
		return b, "tailflip"
	case 2:
		return b[:r.Intn(len(b))], "truncate"
	case 3:
		cut := r.Intn(len(b))
		return append(b[:cut:cut], []byte("\nstartxref\n0\n%%EOF\n")...), "truncate-eof"
	case 4: // in-place number perturbation (same width, keeps offsets)
		locs := numKeyRe.FindAllSubmatchIndex(b, -1)
		if len(locs) > 0 {
			loc := locs[r.Intn(len(locs))]
			s, e := loc[6], loc[7]
			for i := s; i < e; i++ {
				b[i] = "0123456789"[r.Intn(10)]
			}
			if r.Intn(3) == 0 {
				b[s] = '-'
			}
			return b, "num-inplace"
		}
	case 5: // in-place reference rewiring (same width)
		locs := refRe.FindAllSubmatchIndex(b, -1)
		objs := objRe.FindAllSubmatch(b, 200)
		if len(locs) > 0 && len(objs) > 0 {
			loc := locs[r.Intn(len(locs))]
			s, e := loc[2], loc[3]
			t := string(objs[r.Intn(len(objs))][1])
			if len(t) <= e-s {
				t = strings.Repeat("0", e-s-len(t)) + t
				copy(b[s:e], t)
				return b, "rewire-inplace"
			}
		}
	case 6: // xref table row corruption
		if i := bytes.LastIndex(b, []byte("\nxref")); i >= 0 {
			rows := regexp.MustCompile(`\d{10} \d{5} [nf]`).FindAllIndex(b[i:], -1)
			if len(rows) > 0 {
				row := rows[r.Intn(len(rows))]
				s := i + row[0]
				switch r.Intn(3) {
				case 0:
					if b[s+17] == 'n' {
						b[s+17] = 'f'
					} else {
						b[s+17] = 'n'
					}
				case 1:
					for k := 0; k < 10; k++ {
						b[s+k] = "0123456789"[r.Intn(10)]
					}
				case 2:
					copy(b[s:s+10], "0000000000")
				}
				return b, "xrefrow"
			}
		}
	}
	b[r.Intn(len(b))] ^= 1 << uint(r.Intn(8))
	return b, "bitflip"
}
