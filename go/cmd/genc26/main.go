// genc26 regenerates coq/C26/Generated.v from the pdfcpu source (go/ast only, no
// pdfcpu import). It understands exactly the following pieces and FAILS (exit 1)
// on anything else:
//
//		-config <model/configuration.go>
//		    the const block `NAME CommandMode = iota` + following names  (pure iota,
//		    no expressions, no blanks): every constant becomes `Definition CM_NAME : Z := n.`
//		    and `all_modes` lists them in order.
//		-crypto <pdfcpu/crypto.go>
//		    var perm = map[model.CommandMode]struct{ f1, f2 int }{ model.X: {a, b}, ... }
//		    (positional or keyed integer-literal elements; field names must be exactly
//		    extract, modify in some order; duplicate keys are rejected)
//		    -> `perm_table : list (Z * (Z * Z))` as (mode, (extract, modify)) in source order;
//		    func maskExtract / maskModify of the fixed shape
//		        p, ok := perm[mode]
//		        if !ok || p.FIELD == 0 { return 0 }
//		        if secHandlerRev CMP LIT { return LIT }
//		        return LIT
//		    -> Gallina definitions of the same name (FIELD, CMP and the literals are
//		    taken from the source, so swapping a field or changing a mask shows up).
//		-read <pdfcpu/read.go>
//		    func needsOwnerAndUserPassword(cmd) { return cmd == model.A || cmd == model.B ... }
//		    -> Gallina boolean definition.
//
//	  -api <pkg/api>, -cli <pkg/cli>
//	      every non-test file: each assignment `<x>.Cmd = E` (and, in pkg/cli, each `Command{Mode: E}`) where E is
//	      model.X, a call of a same-package helper that only returns model constants, or a local variable only
//	      assigned such values (anything else fails; `cmd.Conf.Cmd = cmd.Mode` is accepted in cli.Dispatch only)
//	      -> api_entry_modes / cli_command_modes (function -> constants); var dispatchTable -> cli_dispatch.
//
// Semantics assigned: Go int values are Z (the masks are small non-negative
// literals and the revision is compared, never computed with, so no wrap-around
// can occur); map lookup = first match in the association list (keys are unique).
package main

import (
	"flag"
	"fmt"
	"go/ast"
	"go/parser"
	"go/token"
	"os"
	"path/filepath"
	"sort"
	"strconv"
	"strings"
)

func die(format string, a ...any) {
	fmt.Fprintf(os.Stderr, "genc26: "+format+"\n", a...)
	os.Exit(1)
}

var fset = token.NewFileSet()

func parse(path string) *ast.File {
	f, err := parser.ParseFile(fset, path, nil, 0)
	if err != nil {
		die("parse %s: %v", path, err)
	}
	return f
}

func pos(n ast.Node) string {
	p := fset.Position(n.Pos())
	return fmt.Sprintf("%s:%d", filepath.Base(p.Filename), p.Line)
}

func intLit(e ast.Expr) (int64, bool) {
	neg := false
	if u, ok := e.(*ast.UnaryExpr); ok && u.Op == token.SUB {
		neg = true
		e = u.X
	}
	if p, ok := e.(*ast.ParenExpr); ok {
		e = p.X
	}
	b, ok := e.(*ast.BasicLit)
	if !ok || b.Kind != token.INT {
		return 0, false
	}
	v, err := strconv.ParseInt(strings.ReplaceAll(b.Value, "_", ""), 0, 64)
	if err != nil {
		return 0, false
	}
	if neg {
		v = -v
	}
	return v, true
}

// ---------------------------------------------------------------- CommandMode constants

func commandModes(f *ast.File) []string {
	var names []string
	found := false
	for _, d := range f.Decls {
		g, ok := d.(*ast.GenDecl)
		if !ok || g.Tok != token.CONST {
			continue
		}
		if len(g.Specs) == 0 {
			continue
		}
		first := g.Specs[0].(*ast.ValueSpec)
		id, ok := first.Type.(*ast.Ident)
		if !ok || id.Name != "CommandMode" {
			// any other const block must not define CommandMode constants
			for _, s := range g.Specs {
				vs := s.(*ast.ValueSpec)
				if t, ok := vs.Type.(*ast.Ident); ok && t.Name == "CommandMode" {
					die("%s: CommandMode constant outside the iota block", pos(vs))
				}
			}
			continue
		}
		if found {
			die("%s: second CommandMode const block", pos(g))
		}
		found = true
		if len(first.Values) != 1 {
			die("%s: expected `= iota`", pos(first))
		}
		if v, ok := first.Values[0].(*ast.Ident); !ok || v.Name != "iota" {
			die("%s: expected `= iota`", pos(first))
		}
		for i, s := range g.Specs {
			vs := s.(*ast.ValueSpec)
			if len(vs.Names) != 1 {
				die("%s: one name per line expected", pos(vs))
			}
			if i > 0 && (vs.Type != nil || len(vs.Values) != 0) {
				die("%s: only implicit iota repetition is understood", pos(vs))
			}
			n := vs.Names[0].Name
			if n == "_" {
				die("%s: blank identifier in CommandMode block", pos(vs))
			}
			names = append(names, n)
		}
	}
	if !found {
		die("no `CommandMode = iota` const block found")
	}
	return names
}

// ---------------------------------------------------------------- perm table

type row struct {
	mode            string
	extract, modify int64
}

func modeSel(e ast.Expr, known map[string]int) (string, bool) {
	s, ok := e.(*ast.SelectorExpr)
	if !ok {
		return "", false
	}
	p, ok := s.X.(*ast.Ident)
	if !ok || p.Name != "model" {
		return "", false
	}
	if _, ok := known[s.Sel.Name]; !ok {
		return "", false
	}
	return s.Sel.Name, true
}

func permTable(f *ast.File, known map[string]int) []row {
	var lit *ast.CompositeLit
	for _, d := range f.Decls {
		g, ok := d.(*ast.GenDecl)
		if !ok || g.Tok != token.VAR {
			continue
		}
		for _, s := range g.Specs {
			vs := s.(*ast.ValueSpec)
			for i, n := range vs.Names {
				if n.Name != "perm" {
					continue
				}
				if lit != nil {
					die("%s: second declaration of perm", pos(vs))
				}
				if len(vs.Values) != len(vs.Names) {
					die("%s: perm without initialiser", pos(vs))
				}
				c, ok := vs.Values[i].(*ast.CompositeLit)
				if !ok {
					die("%s: perm is not a composite literal", pos(vs))
				}
				lit = c
			}
		}
	}
	if lit == nil {
		die("var perm not found")
	}
	mt, ok := lit.Type.(*ast.MapType)
	if !ok {
		die("%s: perm is not a map literal", pos(lit))
	}
	if k, ok := mt.Key.(*ast.SelectorExpr); !ok || k.Sel.Name != "CommandMode" {
		die("%s: perm key type is not model.CommandMode", pos(mt))
	}
	st, ok := mt.Value.(*ast.StructType)
	if !ok {
		die("%s: perm value type is not a struct", pos(mt))
	}
	var fields []string
	for _, fl := range st.Fields.List {
		if t, ok := fl.Type.(*ast.Ident); !ok || t.Name != "int" {
			die("%s: perm struct field is not int", pos(fl))
		}
		for _, n := range fl.Names {
			fields = append(fields, n.Name)
		}
	}
	if !(len(fields) == 2 && (fields[0] == "extract" && fields[1] == "modify" || fields[0] == "modify" && fields[1] == "extract")) {
		die("%s: perm struct fields are %v, expected extract, modify", pos(st), fields)
	}
	seen := map[string]bool{}
	var rows []row
	for _, el := range lit.Elts {
		kv, ok := el.(*ast.KeyValueExpr)
		if !ok {
			die("%s: map element without key", pos(el))
		}
		m, ok := modeSel(kv.Key, known)
		if !ok {
			die("%s: key is not a known model.<CommandMode constant>", pos(kv.Key))
		}
		if seen[m] {
			die("%s: duplicate key %s", pos(kv.Key), m)
		}
		seen[m] = true
		v, ok := kv.Value.(*ast.CompositeLit)
		if !ok || v.Type != nil {
			die("%s: value of %s is not an untyped {..} literal", pos(kv.Value), m)
		}
		vals := map[string]int64{"extract": 0, "modify": 0}
		if len(v.Elts) > 0 {
			if _, keyed := v.Elts[0].(*ast.KeyValueExpr); keyed {
				for _, e := range v.Elts {
					kk, ok := e.(*ast.KeyValueExpr)
					if !ok {
						die("%s: mixed keyed/positional literal", pos(e))
					}
					id, ok := kk.Key.(*ast.Ident)
					if !ok || (id.Name != "extract" && id.Name != "modify") {
						die("%s: unknown field", pos(kk))
					}
					n, ok := intLit(kk.Value)
					if !ok {
						die("%s: not an integer literal", pos(kk.Value))
					}
					vals[id.Name] = n
				}
			} else {
				if len(v.Elts) != 2 {
					die("%s: positional literal for %s needs 2 elements", pos(v), m)
				}
				for i, e := range v.Elts {
					n, ok := intLit(e)
					if !ok {
						die("%s: not an integer literal", pos(e))
					}
					vals[fields[i]] = n
				}
			}
		}
		rows = append(rows, row{m, vals["extract"], vals["modify"]})
	}
	return rows
}

// ---------------------------------------------------------------- mask functions

func findFunc(f *ast.File, name string) *ast.FuncDecl {
	var r *ast.FuncDecl
	for _, d := range f.Decls {
		fd, ok := d.(*ast.FuncDecl)
		if ok && fd.Recv == nil && fd.Name.Name == name {
			if r != nil {
				die("two functions %s", name)
			}
			r = fd
		}
	}
	if r == nil {
		die("func %s not found", name)
	}
	return r
}

func paramNames(fd *ast.FuncDecl) []string {
	var ps []string
	for _, fl := range fd.Type.Params.List {
		for _, n := range fl.Names {
			ps = append(ps, n.Name)
		}
	}
	return ps
}

func isIdent(e ast.Expr, name string) bool {
	id, ok := e.(*ast.Ident)
	return ok && id.Name == name
}

func singleReturnLit(b *ast.BlockStmt) (int64, bool) {
	if len(b.List) != 1 {
		return 0, false
	}
	r, ok := b.List[0].(*ast.ReturnStmt)
	if !ok || len(r.Results) != 1 {
		return 0, false
	}
	return intLit(r.Results[0])
}

var cmpOps = map[token.Token]string{
	token.GEQ: ">=?", token.GTR: ">?", token.LEQ: "<=?", token.LSS: "<?", token.EQL: "=?",
}

func zlit(v int64) string {
	if v < 0 {
		return fmt.Sprintf("(%d)", v)
	}
	return fmt.Sprintf("%d", v)
}

func maskFunc(f *ast.File, name string) string {
	fd := findFunc(f, name)
	ps := paramNames(fd)
	if len(ps) != 2 {
		die("%s: %s must have two parameters", pos(fd), name)
	}
	mode, rev := ps[0], ps[1]
	if fd.Type.Results == nil || len(fd.Type.Results.List) != 1 || !isIdent(fd.Type.Results.List[0].Type, "int") {
		die("%s: %s must return int", pos(fd), name)
	}
	b := fd.Body.List
	if len(b) != 4 {
		die("%s: %s: body has %d statements, the understood shape has 4", pos(fd), name, len(b))
	}
	// p, ok := perm[mode]
	as, ok := b[0].(*ast.AssignStmt)
	if !ok || as.Tok != token.DEFINE || len(as.Lhs) != 2 || len(as.Rhs) != 1 {
		die("%s: %s: expected `p, ok := perm[mode]`", pos(b[0]), name)
	}
	pv, ok1 := as.Lhs[0].(*ast.Ident)
	okv, ok2 := as.Lhs[1].(*ast.Ident)
	ix, ok3 := as.Rhs[0].(*ast.IndexExpr)
	if !ok1 || !ok2 || !ok3 || !isIdent(ix.X, "perm") || !isIdent(ix.Index, mode) {
		die("%s: %s: expected `p, ok := perm[%s]`", pos(b[0]), name, mode)
	}
	// if !ok || p.F == 0 { return 0 }
	if1, ok := b[1].(*ast.IfStmt)
	if !ok || if1.Init != nil || if1.Else != nil {
		die("%s: %s: expected plain if", pos(b[1]), name)
	}
	or, ok := if1.Cond.(*ast.BinaryExpr)
	if !ok || or.Op != token.LOR {
		die("%s: %s: expected `!ok || p.F == 0`", pos(if1.Cond), name)
	}
	not, ok := or.X.(*ast.UnaryExpr)
	if !ok || not.Op != token.NOT || !isIdent(not.X, okv.Name) {
		die("%s: %s: expected `!%s`", pos(or.X), name, okv.Name)
	}
	eq, ok := or.Y.(*ast.BinaryExpr)
	if !ok || eq.Op != token.EQL {
		die("%s: %s: expected `p.F == 0`", pos(or.Y), name)
	}
	sel, ok := eq.X.(*ast.SelectorExpr)
	if !ok || !isIdent(sel.X, pv.Name) || (sel.Sel.Name != "extract" && sel.Sel.Name != "modify") {
		die("%s: %s: expected `%s.extract` or `%s.modify`", pos(eq.X), name, pv.Name, pv.Name)
	}
	zero, ok := intLit(eq.Y)
	if !ok {
		die("%s: %s: expected integer literal", pos(eq.Y), name)
	}
	ret0, ok := singleReturnLit(if1.Body)
	if !ok {
		die("%s: %s: expected `return <int literal>`", pos(if1.Body), name)
	}
	// if secHandlerRev CMP LIT { return LIT }
	if2, ok := b[2].(*ast.IfStmt)
	if !ok || if2.Init != nil || if2.Else != nil {
		die("%s: %s: expected plain if", pos(b[2]), name)
	}
	cmp, ok := if2.Cond.(*ast.BinaryExpr)
	if !ok || !isIdent(cmp.X, rev) {
		die("%s: %s: expected `%s <cmp> <int literal>`", pos(if2.Cond), name, rev)
	}
	op, ok := cmpOps[cmp.Op]
	if !ok {
		die("%s: %s: comparison operator %s not understood", pos(cmp), name, cmp.Op)
	}
	thr, ok := intLit(cmp.Y)
	if !ok {
		die("%s: %s: expected integer literal", pos(cmp.Y), name)
	}
	ret1, ok := singleReturnLit(if2.Body)
	if !ok {
		die("%s: %s: expected `return <int literal>`", pos(if2.Body), name)
	}
	r, ok := b[3].(*ast.ReturnStmt)
	if !ok || len(r.Results) != 1 {
		die("%s: %s: expected final return", pos(b[3]), name)
	}
	ret2, ok := intLit(r.Results[0])
	if !ok {
		die("%s: %s: expected `return <int literal>`", pos(b[3]), name)
	}
	proj := "fst"
	if sel.Sel.Name == "modify" {
		proj = "snd"
	}
	var sb strings.Builder
	fmt.Fprintf(&sb, "(* %s *)\n", pos(fd))
	fmt.Fprintf(&sb, "Definition %s (mode secHandlerRev : Z) : Z :=\n", name)
	fmt.Fprintf(&sb, "  match perm_lookup perm_table mode with\n")
	fmt.Fprintf(&sb, "  | None => %s\n", zlit(ret0))
	fmt.Fprintf(&sb, "  | Some p =>\n")
	fmt.Fprintf(&sb, "      if (%s p =? %s) then %s           (* p.%s == %d *)\n", proj, zlit(zero), zlit(ret0), sel.Sel.Name, zero)
	fmt.Fprintf(&sb, "      else if (secHandlerRev %s %s) then %s\n", op, zlit(thr), zlit(ret1))
	fmt.Fprintf(&sb, "      else %s\n", zlit(ret2))
	fmt.Fprintf(&sb, "  end.\n")
	return sb.String()
}

// ---------------------------------------------------------------- needsOwnerAndUserPassword

// orChain parses `X == model.A || X == model.B ...` where isSubject recognises X.
func orChain(e ast.Expr, fn string, isSubject func(ast.Expr) bool, known map[string]int) []string {
	var modes []string
	var walk func(e ast.Expr)
	walk = func(e ast.Expr) {
		if p, ok := e.(*ast.ParenExpr); ok {
			walk(p.X)
			return
		}
		be, ok := e.(*ast.BinaryExpr)
		if !ok {
			die("%s: %s: expression not understood", pos(e), fn)
		}
		switch be.Op {
		case token.LOR:
			walk(be.X)
			walk(be.Y)
		case token.EQL:
			if !isSubject(be.X) {
				die("%s: %s: left operand of == is not the command", pos(be), fn)
			}
			m, ok := modeSel(be.Y, known)
			if !ok {
				die("%s: %s: expected a known model.<CommandMode constant>", pos(be.Y), fn)
			}
			modes = append(modes, m)
		default:
			die("%s: %s: operator %s not understood", pos(be), fn, be.Op)
		}
	}
	walk(e)
	return modes
}

func gallinaOr(modes []string) string {
	var parts []string
	for _, m := range modes {
		parts = append(parts, fmt.Sprintf("(cmd =? CM_%s)", m))
	}
	return strings.Join(parts, " || ")
}

func mentions(n ast.Node, name string) bool {
	found := false
	ast.Inspect(n, func(x ast.Node) bool {
		if id, ok := x.(*ast.Ident); ok && id.Name == name {
			found = true
		}
		return !found
	})
	return found
}

// rejectsEncrypted: in checkForEncryption, the single top-level
//
//	if ctx.Cmd == model.A || ... { return <something mentioning ErrEncrypted> }
func rejectsEncrypted(f *ast.File, known map[string]int) string {
	fd := findFunc(f, "checkForEncryption")
	var hit *ast.IfStmt
	ast.Inspect(fd.Body, func(x ast.Node) bool {
		is, ok := x.(*ast.IfStmt)
		if !ok {
			return true
		}
		if len(is.Body.List) == 1 {
			if r, ok := is.Body.List[0].(*ast.ReturnStmt); ok && mentions(r, "ErrEncrypted") {
				if hit != nil {
					die("%s: checkForEncryption: second ErrEncrypted return", pos(is))
				}
				hit = is
			}
		}
		return true
	})
	if hit == nil {
		die("%s: checkForEncryption: no `if ... { return ...ErrEncrypted }` found", pos(fd))
	}
	if hit.Init != nil || hit.Else != nil {
		die("%s: checkForEncryption: plain if expected", pos(hit))
	}
	top := false
	for _, st := range fd.Body.List {
		if st == ast.Stmt(hit) {
			top = true
		}
	}
	if !top {
		die("%s: checkForEncryption: the ErrEncrypted test is not a top-level statement", pos(hit))
	}
	isCmd := func(e ast.Expr) bool {
		s, ok := e.(*ast.SelectorExpr)
		return ok && isIdent(s.X, "ctx") && s.Sel.Name == "Cmd"
	}
	modes := orChain(hit.Cond, "checkForEncryption", isCmd, known)
	return fmt.Sprintf("(* %s (checkForEncryption: commands refused on every encrypted file, ErrEncrypted) *)\nDefinition rejectsEncrypted (cmd : Z) : bool :=\n  %s.\n", pos(hit), gallinaOr(modes))
}

func needsBoth(f *ast.File, known map[string]int) string {
	fd := findFunc(f, "needsOwnerAndUserPassword")
	ps := paramNames(fd)
	if len(ps) != 1 {
		die("%s: needsOwnerAndUserPassword must have one parameter", pos(fd))
	}
	if len(fd.Body.List) != 1 {
		die("%s: needsOwnerAndUserPassword: single return expected", pos(fd))
	}
	r, ok := fd.Body.List[0].(*ast.ReturnStmt)
	if !ok || len(r.Results) != 1 {
		die("%s: needsOwnerAndUserPassword: single return expected", pos(fd))
	}
	modes := orChain(r.Results[0], "needsOwnerAndUserPassword", func(e ast.Expr) bool { return isIdent(e, ps[0]) }, known)
	return fmt.Sprintf("(* %s *)\nDefinition needsOwnerAndUserPassword (cmd : Z) : bool :=\n  %s.\n", pos(fd), gallinaOr(modes))
}

// credentialsGuard: handlePermissions must have exactly the shape
//
//	ok, err := validatePermissions(ctx)
//	if err != nil { return ... }
//	if !ok { return ...errInvalidPermissions... }
//	if GUARD { return nil }
//	if !hasNeededPermissions(ctx.Cmd, ctx.E) { return ErrPermissionDenied }
//	return nil
//
// where GUARD is built from ctx.OwnerPW == "" / ctx.UserPW == "" (or != "") with && || ! and
// parentheses ONLY: the passwords are compared raw. Any call (strings.TrimSpace, len, ...) or other
// operand is an unknown shape and fails.
func credentialsGuard(f *ast.File) string {
	fd := findFunc(f, "handlePermissions")
	ps := paramNames(fd)
	if len(ps) != 1 || ps[0] != "ctx" {
		die("%s: handlePermissions: single parameter ctx expected", pos(fd))
	}
	b := fd.Body.List
	if len(b) != 6 {
		die("%s: handlePermissions: body has %d statements, the understood shape has 6", pos(fd), len(b))
	}
	isNil := func(e ast.Expr) bool { return isIdent(e, "nil") }
	plainIf := func(st ast.Stmt) *ast.IfStmt {
		is, ok := st.(*ast.IfStmt)
		if !ok || is.Init != nil || is.Else != nil || len(is.Body.List) != 1 {
			die("%s: handlePermissions: plain `if c { return x }` expected", pos(st))
		}
		if r, ok := is.Body.List[0].(*ast.ReturnStmt); !ok || len(r.Results) != 1 {
			die("%s: handlePermissions: `return x` expected", pos(is.Body))
		}
		return is
	}
	ret := func(is *ast.IfStmt) ast.Expr { return is.Body.List[0].(*ast.ReturnStmt).Results[0] }
	// 0: ok, err := validatePermissions(ctx)
	as, ok := b[0].(*ast.AssignStmt)
	if !ok || as.Tok != token.DEFINE || len(as.Lhs) != 2 || len(as.Rhs) != 1 || !isIdent(as.Lhs[0], "ok") || !isIdent(as.Lhs[1], "err") {
		die("%s: handlePermissions: expected `ok, err := validatePermissions(ctx)`", pos(b[0]))
	}
	if c, ok := as.Rhs[0].(*ast.CallExpr); !ok || !isIdent(c.Fun, "validatePermissions") || len(c.Args) != 1 || !isIdent(c.Args[0], "ctx") {
		die("%s: handlePermissions: expected `ok, err := validatePermissions(ctx)`", pos(b[0]))
	}
	// 1: if err != nil { return ... }
	i1 := plainIf(b[1])
	if c, ok := i1.Cond.(*ast.BinaryExpr); !ok || c.Op != token.NEQ || !isIdent(c.X, "err") || !isNil(c.Y) || isNil(ret(i1)) {
		die("%s: handlePermissions: expected `if err != nil { return <error> }`", pos(i1))
	}
	// 2: if !ok { return ...errInvalidPermissions... }
	i2 := plainIf(b[2])
	if c, ok := i2.Cond.(*ast.UnaryExpr); !ok || c.Op != token.NOT || !isIdent(c.X, "ok") || !mentions(ret(i2), "errInvalidPermissions") {
		die("%s: handlePermissions: expected `if !ok { return ...errInvalidPermissions }`", pos(i2))
	}
	// 3: if GUARD { return nil }
	i3 := plainIf(b[3])
	if !isNil(ret(i3)) {
		die("%s: handlePermissions: the credentials guard must `return nil`", pos(i3))
	}
	// 4: if !hasNeededPermissions(ctx.Cmd, ctx.E) { return ErrPermissionDenied }
	i4 := plainIf(b[4])
	isCtxSel := func(e ast.Expr, field string) bool {
		s, ok := e.(*ast.SelectorExpr)
		return ok && isIdent(s.X, "ctx") && s.Sel.Name == field
	}
	okShape := false
	if n, ok := i4.Cond.(*ast.UnaryExpr); ok && n.Op == token.NOT {
		if c, ok := n.X.(*ast.CallExpr); ok && isIdent(c.Fun, "hasNeededPermissions") && len(c.Args) == 2 && isCtxSel(c.Args[0], "Cmd") && isCtxSel(c.Args[1], "E") {
			okShape = isIdent(ret(i4), "ErrPermissionDenied")
		}
	}
	if !okShape {
		die("%s: handlePermissions: expected `if !hasNeededPermissions(ctx.Cmd, ctx.E) { return ErrPermissionDenied }`", pos(i4))
	}
	// 5: return nil
	if r, ok := b[5].(*ast.ReturnStmt); !ok || len(r.Results) != 1 || !isNil(r.Results[0]) {
		die("%s: handlePermissions: final `return nil` expected", pos(b[5]))
	}
	var tr func(e ast.Expr) string
	tr = func(e ast.Expr) string {
		switch x := e.(type) {
		case *ast.ParenExpr:
			return "(" + tr(x.X) + ")"
		case *ast.UnaryExpr:
			if x.Op == token.NOT {
				return "negb (" + tr(x.X) + ")"
			}
		case *ast.BinaryExpr:
			switch x.Op {
			case token.LAND:
				return "(" + tr(x.X) + " && " + tr(x.Y) + ")"
			case token.LOR:
				return "(" + tr(x.X) + " || " + tr(x.Y) + ")"
			case token.EQL, token.NEQ:
				var v string
				switch {
				case isCtxSel(x.X, "OwnerPW"):
					v = "opw"
				case isCtxSel(x.X, "UserPW"):
					v = "upw"
				default:
					die("%s: handlePermissions guard: left operand must be ctx.OwnerPW or ctx.UserPW (raw string)", pos(x.X))
				}
				if l, ok := x.Y.(*ast.BasicLit); !ok || l.Kind != token.STRING || l.Value != `""` {
					die("%s: handlePermissions guard: right operand must be the literal \"\"", pos(x.Y))
				}
				if x.Op == token.EQL {
					return "pw_empty " + v
				}
				return "negb (pw_empty " + v + ")"
			}
		}
		die("%s: handlePermissions guard: expression not understood (only raw ctx.OwnerPW/ctx.UserPW ==/!= \"\" with && || !)", pos(e))
		return ""
	}
	g := tr(i3.Cond)
	return fmt.Sprintf("(* %s (handlePermissions: `if <guard> { return nil }` -- no credentials supplied, the permission test is skipped) *)\n"+
		"Definition noCredentialsSupplied (opw upw : list N) : bool :=\n  %s.\n", pos(i3), g)
}

// ownerGuard: validateOwnerPasswordAES256 / validateOwnerPasswordAES256Rev6 must START with
//
//	if len(ctx.OwnerPW) == 0 { return false, nil }        (or ctx.OwnerPW == "")
//
// i.e. no owner password supplied => the owner is not authenticated, whatever /O says. A function
// without this first statement is an unknown shape and fails.
func ownerGuard(f *ast.File, name string) string {
	fd := findFunc(f, name)
	ps := paramNames(fd)
	if len(ps) != 1 || ps[0] != "ctx" {
		die("%s: %s: single parameter ctx expected", pos(fd), name)
	}
	if len(fd.Body.List) == 0 {
		die("%s: %s: empty body", pos(fd), name)
	}
	is, ok := fd.Body.List[0].(*ast.IfStmt)
	if !ok || is.Init != nil || is.Else != nil || len(is.Body.List) != 1 {
		die("%s: %s: the first statement must be `if len(ctx.OwnerPW) == 0 { return false, nil }`", pos(fd.Body.List[0]), name)
	}
	isOwnerPW := func(e ast.Expr) bool {
		s, ok := e.(*ast.SelectorExpr)
		return ok && isIdent(s.X, "ctx") && s.Sel.Name == "OwnerPW"
	}
	condOK := false
	if c, ok := is.Cond.(*ast.BinaryExpr); ok && c.Op == token.EQL {
		if call, ok := c.X.(*ast.CallExpr); ok && isIdent(call.Fun, "len") && len(call.Args) == 1 && isOwnerPW(call.Args[0]) {
			if v, ok := intLit(c.Y); ok && v == 0 {
				condOK = true
			}
		}
		if l, ok := c.Y.(*ast.BasicLit); ok && isOwnerPW(c.X) && l.Kind == token.STRING && l.Value == `""` {
			condOK = true
		}
	}
	r, ok := is.Body.List[0].(*ast.ReturnStmt)
	if !condOK || !ok || len(r.Results) != 2 || !isIdent(r.Results[0], "false") || !isIdent(r.Results[1], "nil") {
		die("%s: %s: the first statement must be `if len(ctx.OwnerPW) == 0 { return false, nil }`", pos(is), name)
	}
	return fmt.Sprintf("(* %s (%s starts with `if len(ctx.OwnerPW) == 0 { return false, nil }`: without a supplied owner\n   password the owner is not authenticated, whatever /O contains) *)\nDefinition %s_noOwnerPW (opw : list N) : bool := pw_empty opw.\n", pos(is), name, name)
}

// ---------------------------------------------------------------- entry points -> command mode

// pkgFiles parses every non-test .go file of dir.
func pkgFiles(dir string) []*ast.File {
	ents, err := os.ReadDir(dir)
	if err != nil {
		die("%v", err)
	}
	var fs []*ast.File
	for _, e := range ents {
		n := e.Name()
		if e.IsDir() || !strings.HasSuffix(n, ".go") || strings.HasSuffix(n, "_test.go") {
			continue
		}
		fs = append(fs, parse(filepath.Join(dir, n)))
	}
	if len(fs) == 0 {
		die("%s: no Go files", dir)
	}
	return fs
}

type modeSet map[string]bool

func (m modeSet) sorted(known map[string]int) []string {
	var l []string
	for k := range m {
		l = append(l, k)
	}
	sort.Slice(l, func(i, j int) bool { return known[l[i]] < known[l[j]] })
	return l
}

// constReturns: a helper function all of whose return statements return model.<CommandMode constant>
// (body made of if statements and returns only), e.g. addAttachmentsCommandMode.
func constReturns(fd *ast.FuncDecl, known map[string]int) (modeSet, bool) {
	out := modeSet{}
	ok := true
	var walk func(list []ast.Stmt)
	walk = func(list []ast.Stmt) {
		for _, st := range list {
			switch x := st.(type) {
			case *ast.ReturnStmt:
				if len(x.Results) != 1 {
					ok = false
					return
				}
				m, isMode := modeSel(x.Results[0], known)
				if !isMode {
					ok = false
					return
				}
				out[m] = true
			case *ast.IfStmt:
				if x.Init != nil {
					ok = false
					return
				}
				walk(x.Body.List)
				if x.Else != nil {
					if b, isBlock := x.Else.(*ast.BlockStmt); isBlock {
						walk(b.List)
					} else {
						ok = false
					}
				}
			default:
				ok = false
			}
		}
	}
	walk(fd.Body.List)
	return out, ok && len(out) > 0
}

// resolveModes: the set of CommandMode constants an expression can denote inside fd: model.X, a call of a
// constReturns helper of the same package, or a local variable that is only ever assigned such expressions.
func resolveModes(e ast.Expr, fd *ast.FuncDecl, funcs map[string]*ast.FuncDecl, known map[string]int, depth int) modeSet {
	if depth > 3 {
		die("%s: command mode expression too deep", pos(e))
	}
	if m, ok := modeSel(e, known); ok {
		return modeSet{m: true}
	}
	if c, ok := e.(*ast.CallExpr); ok {
		if id, ok := c.Fun.(*ast.Ident); ok {
			if h, ok := funcs[id.Name]; ok {
				if ms, ok := constReturns(h, known); ok {
					return ms
				}
			}
		}
		die("%s: command mode computed by a call that is not a constant-returning helper", pos(e))
	}
	if id, ok := e.(*ast.Ident); ok {
		out := modeSet{}
		n := 0
		ast.Inspect(fd.Body, func(x ast.Node) bool {
			as, ok := x.(*ast.AssignStmt)
			if !ok {
				return true
			}
			for i, l := range as.Lhs {
				if isIdent(l, id.Name) {
					if len(as.Lhs) != len(as.Rhs) {
						die("%s: multi-value assignment to %s", pos(as), id.Name)
					}
					for k := range resolveModes(as.Rhs[i], fd, funcs, known, depth+1) {
						out[k] = true
					}
					n++
				}
			}
			return true
		})
		if n == 0 {
			die("%s: command mode taken from %s, which is not a local variable assigned constants", pos(e), id.Name)
		}
		return out
	}
	die("%s: command mode expression not understood", pos(e))
	return nil
}

func funcName(fd *ast.FuncDecl) string {
	if fd.Recv != nil {
		die("%s: method %s assigns a command mode (only plain functions are understood)", pos(fd), fd.Name.Name)
	}
	return fd.Name.Name
}

func zlist(ms []string) string {
	var l []string
	for _, m := range ms {
		l = append(l, "CM_"+m)
	}
	return "[" + strings.Join(l, "; ") + "]"
}

// entryModes: for every function of the package, the constants assigned to `<x>.Cmd` (api) and, for cli, also the
// constants given to the Mode field of a Command literal. passThrough: `cmd.Conf.Cmd = cmd.Mode` is accepted in
// exactly that function (cli.Dispatch).
func entryModes(files []*ast.File, known map[string]int, passThrough string) (cmds, modes map[string]modeSet) {
	funcs := map[string]*ast.FuncDecl{}
	for _, f := range files {
		for _, d := range f.Decls {
			if fd, ok := d.(*ast.FuncDecl); ok && fd.Recv == nil && fd.Body != nil {
				funcs[fd.Name.Name] = fd
			}
		}
	}
	cmds, modes = map[string]modeSet{}, map[string]modeSet{}
	for _, f := range files {
		for _, d := range f.Decls {
			fd, ok := d.(*ast.FuncDecl)
			if !ok || fd.Body == nil {
				continue
			}
			ast.Inspect(fd.Body, func(x ast.Node) bool {
				switch n := x.(type) {
				case *ast.FuncLit:
					// closures are walked too (same function name)
					return true
				case *ast.AssignStmt:
					for i, l := range n.Lhs {
						sel, ok := l.(*ast.SelectorExpr)
						if !ok || sel.Sel.Name != "Cmd" {
							continue
						}
						if len(n.Lhs) != len(n.Rhs) {
							die("%s: multi-value assignment to .Cmd", pos(n))
						}
						name := funcName(fd)
						if rs, ok := n.Rhs[i].(*ast.SelectorExpr); ok && rs.Sel.Name == "Mode" && isIdent(rs.X, "cmd") {
							if name != passThrough {
								die("%s: %s copies cmd.Mode into .Cmd; only %s may do that", pos(n), name, passThrough)
							}
							continue
						}
						if cmds[name] == nil {
							cmds[name] = modeSet{}
						}
						for k := range resolveModes(n.Rhs[i], fd, funcs, known, 0) {
							cmds[name][k] = true
						}
					}
				case *ast.CompositeLit:
					isCommand := false
					switch t := n.Type.(type) {
					case *ast.Ident:
						isCommand = t.Name == "Command"
					}
					if !isCommand {
						return true
					}
					for _, el := range n.Elts {
						kv, ok := el.(*ast.KeyValueExpr)
						if !ok || !isIdent(kv.Key, "Mode") {
							continue
						}
						name := funcName(fd)
						if modes[name] == nil {
							modes[name] = modeSet{}
						}
						for k := range resolveModes(kv.Value, fd, funcs, known, 0) {
							modes[name][k] = true
						}
					}
				}
				return true
			})
		}
	}
	return
}

func sortedKeys(m map[string]modeSet) []string {
	var l []string
	for k := range m {
		l = append(l, k)
	}
	sort.Strings(l)
	return l
}

func apiTable(dir string, known map[string]int) string {
	cmds, _ := entryModes(pkgFiles(dir), known, "")
	if len(cmds) == 0 {
		die("%s: no function assigns a command mode", dir)
	}
	var sb strings.Builder
	sb.WriteString("(* pkg/api: every function that assigns `<conf>.Cmd`, with the CommandMode constants it can assign\n   (sorted by function name) *)\n")
	sb.WriteString("Definition api_entry_modes : list (string * list Z) :=\n  [")
	for i, n := range sortedKeys(cmds) {
		if i > 0 {
			sb.WriteString(";\n   ")
		}
		fmt.Fprintf(&sb, "(%q%%string, %s)", n, zlist(cmds[n].sorted(known)))
	}
	sb.WriteString("].\n\n(* the same table without the names (for the extracted model: Coq strings are not extracted) *)\n")
	sb.WriteString("Definition api_entry_mode_lists : list (list Z) :=\n  [")
	for i, n := range sortedKeys(cmds) {
		if i > 0 {
			sb.WriteString("; ")
			if i%4 == 0 {
				sb.WriteString("\n   ")
			}
		}
		sb.WriteString(zlist(cmds[n].sorted(known)))
	}
	sb.WriteString("].\n")
	return sb.String()
}

func cliTables(dir string, known map[string]int) string {
	files := pkgFiles(dir)
	cmds, modes := entryModes(files, known, "Dispatch")
	var sb strings.Builder
	sb.WriteString("(* pkg/cli: every function that assigns `<conf>.Cmd` and/or builds a Command{Mode: ...}:\n   (function, (constants assigned to .Cmd, constants given to Mode)), sorted by function name *)\n")
	sb.WriteString("Definition cli_command_modes : list (string * (list Z * list Z)) :=\n  [")
	names := map[string]modeSet{}
	for k := range cmds {
		names[k] = nil
	}
	for k := range modes {
		names[k] = nil
	}
	for i, n := range sortedKeys(names) {
		if i > 0 {
			sb.WriteString(";\n   ")
		}
		fmt.Fprintf(&sb, "(%q%%string, (%s, %s))", n, zlist(cmds[n].sorted(known)), zlist(modes[n].sorted(known)))
	}
	sb.WriteString("].\n\n")
	// dispatchTable
	var lit *ast.CompositeLit
	for _, f := range files {
		for _, d := range f.Decls {
			g, ok := d.(*ast.GenDecl)
			if !ok || g.Tok != token.VAR {
				continue
			}
			for _, sp := range g.Specs {
				vs := sp.(*ast.ValueSpec)
				for i, n := range vs.Names {
					if n.Name == "dispatchTable" {
						c, ok := vs.Values[i].(*ast.CompositeLit)
						if !ok || lit != nil {
							die("%s: dispatchTable is not a single composite literal", pos(vs))
						}
						lit = c
					}
				}
			}
		}
	}
	if lit == nil {
		die("%s: var dispatchTable not found", dir)
	}
	sb.WriteString("(* pkg/cli/dispatch.go: var dispatchTable (command mode -> handler), source order *)\n")
	sb.WriteString("Definition cli_dispatch : list (Z * string) :=\n  [")
	seen := map[string]bool{}
	for i, el := range lit.Elts {
		kv, ok := el.(*ast.KeyValueExpr)
		if !ok {
			die("%s: dispatchTable element without key", pos(el))
		}
		m, ok := modeSel(kv.Key, known)
		if !ok || seen[m] {
			die("%s: dispatchTable key is not a fresh model.<CommandMode constant>", pos(kv.Key))
		}
		seen[m] = true
		h, ok := kv.Value.(*ast.Ident)
		if !ok {
			die("%s: dispatchTable handler is not a function name", pos(kv.Value))
		}
		if i > 0 {
			sb.WriteString(";\n   ")
		}
		fmt.Fprintf(&sb, "(CM_%s, %q%%string)", m, h.Name)
	}
	sb.WriteString("].\n")
	return sb.String()
}

func main() {
	out := flag.String("out", "", "output .v file")
	config := flag.String("config", "", "path of pkg/pdfcpu/model/configuration.go")
	crypto := flag.String("crypto", "", "path of pkg/pdfcpu/crypto.go")
	read := flag.String("read", "", "path of pkg/pdfcpu/read.go")
	apiDir := flag.String("api", "", "path of pkg/api")
	cliDir := flag.String("cli", "", "path of pkg/cli")
	flag.Parse()
	if *out == "" || *config == "" || *crypto == "" || *read == "" || *apiDir == "" || *cliDir == "" || flag.NArg() != 0 {
		die("usage: genc26 -config <configuration.go> -crypto <crypto.go> -read <read.go> -api <pkg/api> -cli <pkg/cli> -out <Generated.v>")
	}
	names := commandModes(parse(*config))
	known := map[string]int{}
	for i, n := range names {
		if _, dup := known[n]; dup {
			die("duplicate CommandMode constant %s", n)
		}
		known[n] = i
	}
	cf := parse(*crypto)
	rows := permTable(cf, known)
	mE := maskFunc(cf, "maskExtract")
	mM := maskFunc(cf, "maskModify")
	rf := parse(*read)
	nb := needsBoth(rf, known)
	re := rejectsEncrypted(rf, known)
	cg := credentialsGuard(rf)
	at := apiTable(*apiDir, known)
	ct := cliTables(*cliDir, known)
	og := ownerGuard(cf, "validateOwnerPasswordAES256") + "\n" + ownerGuard(cf, "validateOwnerPasswordAES256Rev6")

	var sb strings.Builder
	sb.WriteString("(* GENERATED by /verif/go/cmd/genc26 from pkg/pdfcpu/model/configuration.go, pkg/pdfcpu/crypto.go and\n   pkg/pdfcpu/read.go on every run of ./check C26. Do not edit. *)\n")
	sb.WriteString("From Coq Require Import ZArith NArith List Bool String.\nImport ListNotations.\nOpen Scope Z_scope.\n\n")
	sb.WriteString("(* a Go string is the list of its bytes; s == \"\" (equivalently len(s) == 0) *)\nDefinition pw_empty (s : list N) : bool := match s with [] => true | _ :: _ => false end.\n\n")
	sb.WriteString("(* model.CommandMode constants (iota order) *)\n")
	for i, n := range names {
		fmt.Fprintf(&sb, "Definition CM_%s : Z := %d.\n", n, i)
	}
	sb.WriteString("\nDefinition all_modes : list Z :=\n  [")
	for i, n := range names {
		if i > 0 {
			if i%6 == 0 {
				sb.WriteString(";\n   ")
			} else {
				sb.WriteString("; ")
			}
		}
		sb.WriteString("CM_" + n)
	}
	sb.WriteString("].\n\n")
	sb.WriteString("(* crypto.go: var perm — (mode, (extract, modify)) in source order *)\n")
	sb.WriteString("Definition perm_table : list (Z * (Z * Z)) :=\n  [")
	for i, r := range rows {
		if i > 0 {
			sb.WriteString(";\n   ")
		}
		fmt.Fprintf(&sb, "(CM_%s, (%s, %s))", r.mode, zlit(r.extract), zlit(r.modify))
	}
	sb.WriteString("].\n\n")
	sb.WriteString("(* Go map lookup `p, ok := perm[mode]` (keys are unique: checked by the generator and by the Go compiler) *)\n")
	sb.WriteString("Fixpoint perm_lookup (l : list (Z * (Z * Z))) (mode : Z) : option (Z * Z) :=\n  match l with\n  | [] => None\n  | (k, v) :: tl => if (k =? mode) then Some v else perm_lookup tl mode\n  end.\n\n")
	sb.WriteString(mE + "\n" + mM + "\n" + nb + "\n" + re + "\n" + cg + "\n" + og + "\n" + at + "\n" + ct)
	if err := os.WriteFile(*out, []byte(sb.String()), 0o644); err != nil {
		die("%v", err)
	}
}
