package main

import (
	"errors"
	"fmt"
	"io"
	"os"

	"github.com/pdfcpu/pdfcpu/pkg/pdfcpu"
	"verif/vh"
)

// The write path of pkg/pdfcpu over the REAL createStagedFile / finishStagedFile / writeReader
// (verif exports), with faults at the injectable points: the temp creation as a whole, every write,
// the close of the staging file, the close of the input, replace and remove.  The stat/chmod inside
// createStagedFile use the os package directly and cannot be faulted: their call indices are skipped.
// Compared with the model: control result + final directory.
type pdfCase struct {
	fault  int
	key    string // flag: WriteContext (deferred finish, completion flag); err: the same keyed on err only; none: writeReader / CopyFile
	input  int    // 0 or the source file (CopyFile shape)
	path   int
	init   []fsEntry
	chunks [][]byte
	fin    string
}

func (c pdfCase) args() []string {
	return []string{faultArg(c.fault), c.key, idArg(c.input), idArg(c.path), fsArg(c.init), chunksArg(c.chunks), c.fin}
}

// the staging file as the helpers see it: fault-aware Write and Close
type stagedW struct {
	e *env
	f *os.File
}

func (s *stagedW) Write(b []byte) (int, error) {
	if err := s.e.write(s.f, b); err != nil {
		return 0, err
	}
	return len(b), nil
}
func (s *stagedW) Close() error { return s.e.closeFile(s.f) }
func (s *stagedW) Name() string { return s.f.Name() }

// a reader that hands out one chunk per Read and then ends with EOF / an error / a panic
type chunkReader struct {
	chunks [][]byte
	fin    string
}

func (r *chunkReader) Read(p []byte) (int, error) {
	if len(r.chunks) == 0 {
		switch r.fin {
		case "err":
			return 0, errors.New("reader failed")
		case "panic":
			panic("injected panic in reader")
		}
		return 0, io.EOF
	}
	n := copy(p, r.chunks[0])
	r.chunks = r.chunks[1:]
	return n, nil
}

func (e *env) exists(p string) bool {
	_, err := os.Lstat(p)
	return err == nil
}

func (e *env) createTemp(path string) (pdfcpu.VerifNamedWriteCloser, error) {
	if e.fault() {
		e.rec("mktemp", "T", errIO)
		return nil, errIO
	}
	existed := e.exists(path)
	f, err := pdfcpu.VerifCreateStagedFile(path)
	e.rec("mktemp", "T", err)
	// the stat (and the chmod when the destination exists) inside createStagedFile
	e.n++
	e.trace = append(e.trace, "stat(-)")
	if existed {
		e.n++
		e.trace = append(e.trace, "chmod(-)")
	}
	if err != nil {
		return nil, err
	}
	return &stagedW{e, f}, nil
}

func (e *env) replace(a, b string) error { return e.ops().Replace(a, b) }
func (e *env) remove(a string) error     { return e.ops().Remove(a) }

func pdfSkeleton(e *env, c pdfCase) (err error) {
	path := e.path(c.path)
	switch {
	case c.key == "none" && c.input == 0:
		// pdfcpu.writeReader itself
		return pdfcpu.VerifWriteReader(path, &chunkReader{c.chunks, c.fin}, e.createTemp, e.replace, e.remove)
	case c.key == "none":
		// CopyFile(src, dest, true), replicated around the real createStagedFile / finishStagedFile
		from, oerr := e.openRd(e.path(c.input))
		if oerr != nil {
			return oerr
		}
		e.n += 2 // from.Stat(), os.Stat(dest)
		e.trace = append(e.trace, "stat(-)", "stat(-)")
		to, cerr := e.createTemp(path)
		if cerr != nil {
			return errors.Join(cerr, e.closeFile(from))
		}
		_, copyErr := io.Copy(to, &chunkReader{c.chunks, c.fin})
		closeInput := func() error { return e.closeFile(from) }
		return pdfcpu.VerifFinishStagedFile(path, to, copyErr, closeInput, e.replace, e.remove)
	default:
		// WriteContext (write.go): completed := false; file := createStagedFile(fileName);
		//   defer func() { writeErr := err; if !completed && writeErr == nil { writeErr = errWriteAborted };
		//                  err = finishWriteFile(file, fileName, writeErr) }();  body;  completed = true
		// key "err" is the same skeleton without the completion flag (the abstract err-keyed skeleton).
		completed := false
		to, cerr := e.createTemp(path)
		if cerr != nil {
			return cerr
		}
		defer func() {
			writeErr := err
			if c.key == "flag" && !completed && writeErr == nil {
				writeErr = errors.New("write aborted")
			}
			err = pdfcpu.VerifFinishStagedFile(path, to, writeErr, nil, e.replace, e.remove)
		}()
		if _, err = io.Copy(to, &chunkReader{c.chunks, c.fin}); err != nil {
			return err
		}
		completed = true
		return nil
	}
}

func runPdfCase(r *vh.Run, n int, c pdfCase) int {
	dir := mkdir(r, "p", n)
	defer os.RemoveAll(dir)
	populate(dir, c.init)
	before := snapshot(dir)
	e := &env{dir: dir, faultAt: c.fault}
	ctl := "ok"
	func() {
		defer func() {
			if p := recover(); p != nil {
				ctl = "panic"
			}
		}()
		if err := pdfSkeleton(e, c); err != nil {
			ctl = "err"
		}
	}()
	closeLeaked()
	after := snapshot(dir)
	// a fault index that falls on the stat/chmod inside createStagedFile was not injected: no case
	if c.fault >= 0 && c.fault < len(e.trace) && (e.trace[c.fault] == "stat(-)" || e.trace[c.fault] == "chmod(-)") {
		return e.n
	}
	r.Case("pdf", c.args(), ctl+"|"+after)
	oneCause := c.fault < 0 || c.fin == "ok"
	if oneCause && (c.fin != "panic" || c.key == "flag") {
		if ctl != "ok" && after != before {
			r.OracleFail("pdf-staged-not-restored", map[string]any{"part": "pdf-staged", "case": c.args(), "trace": e.trace},
				fmt.Sprintf("result=%s before=%s after=%s", ctl, before, after))
		} else {
			r.OracleOK()
		}
	}
	return e.n
}

func partPdfStaged(r *vh.Run) {
	rb := func(n int) []byte {
		b := make([]byte, n)
		r.Rand.Read(b)
		return b
	}
	type rel struct {
		name  string
		input int
		path  int
		init  []fsEntry
	}
	rels := []rel{
		{"new", 0, 3, []fsEntry{{5, 0o600, rb(3)}}},
		{"existing", 0, 3, []fsEntry{{3, 0o600, rb(6)}, {5, 0o644, rb(2)}}},
		{"existing-0755", 0, 3, []fsEntry{{3, 0o755, rb(6)}}},
		{"copy-new", 2, 3, []fsEntry{{2, 0o644, rb(4)}}},
		{"copy-existing", 2, 3, []fsEntry{{2, 0o644, rb(4)}, {3, 0o640, rb(6)}}},
		{"copy-missing-src", 2, 3, []fsEntry{{3, 0o640, rb(6)}}},
	}
	bodies := [][][]byte{nil, {rb(3)}, {rb(2), rb(1), rb(4)}}
	n := 0
	for _, rl := range rels {
		for _, chunks := range bodies {
			for _, key := range []string{"flag", "err", "none"} {
				if key != "none" && rl.input != 0 {
					continue
				}
				for _, fin := range []string{"ok", "err", "panic"} {
					base := pdfCase{-1, key, rl.input, rl.path, rl.init, chunks, fin}
					n++
					calls := runPdfCase(r, n, base)
					r.Count("pdfrel:" + rl.name)
					if fin != "ok" && !r.Thorough() {
						continue
					}
					for i := 0; i <= calls; i++ {
						c := base
						c.fault = i
						n++
						runPdfCase(r, n, c)
					}
				}
			}
		}
	}
}
