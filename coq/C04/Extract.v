From Coq Require Import Extraction ExtrOcamlBasic.
From PV Require Import Lib.ExtBase C04.Model C04.Generated C04.Lookup.
Extraction "model.ml" ext_base_z ext_base_n ext_base_nat ext_base_res ext_base_list
  ensureOutputFileAvailable ensureOutputDirEmpty ensureOutputDirOrFileAvailable
  decide_idx guarded_idx table_len.
