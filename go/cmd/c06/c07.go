// C07 mode: recorded operation traces of the real font installers (operation tables, and strace on the
// production table) are replayed over the power-loss model
//
//	K  by the extracted Coq checks (check_trace / durable_after) and
//	O  by an independent Go implementation that enumerates every crash point and every admissible loss.
package main

import (
	"encoding/binary"
	"fmt"
	"os"
	"path/filepath"
	"sort"
	"strings"

	"github.com/pdfcpu/pdfcpu/pkg/font"
	"verif/vh"
)

// ---------- model paths ----------

type mpath struct {
	dir  string // hex components joined by '.'
	name string // "" for a directory
}

func (p mpath) String() string {
	if p.name == "" {
		return "D:" + p.dir
	}
	return "F:" + p.dir + ":" + p.name
}

type mev struct {
	op   string
	p, q mpath
	res  string
	data []byte
}

func (e mev) String() string {
	return fmt.Sprintf("%s,%s,%s,%s,%x", e.op, e.p, e.q, e.res, e.data)
}

func (r *rec) mdir(p string) string {
	rel, err := filepath.Rel(r.base, p)
	if err != nil || strings.HasPrefix(rel, "..") {
		return "ffff"
	}
	parts := strings.Split(rel, string(filepath.Separator))
	cur := r.base
	out := make([]string, len(parts))
	for i, c := range parts {
		cur = filepath.Join(cur, c)
		if k, ok := r.tdirs[cur]; ok {
			out[i] = fmt.Sprintf("%x", 0x100+k)
		} else {
			out[i] = c
		}
	}
	return strings.Join(out, ".")
}

func (r *rec) mfile(p string) mpath {
	d := r.mdir(filepath.Dir(p))
	if k, ok := r.tfiles[p]; ok {
		return mpath{d, fmt.Sprintf("%x", 0x100+k)}
	}
	return mpath{d, stripName(filepath.Base(p))}
}

func (r *rec) mtrace() []mev {
	var out []mev
	for _, e := range r.evs {
		m := mev{op: e.Op, res: e.Res, data: e.Data}
		switch e.Op {
		case "mkdirtemp":
			m.q = mpath{r.mdir(e.Q), ""}
			m.p = m.q
			if e.Res == "ok" {
				m.p = mpath{r.mdir(e.P), ""}
			}
		case "createtemp":
			m.q = mpath{r.mdir(e.Q), ""}
			m.p = m.q
			if e.Res == "ok" {
				m.p = r.mfile(e.P)
				m.q = m.p
			}
		case "syncdir", "removeall":
			m.p = mpath{r.mdir(e.P), ""}
			m.q = m.p
		case "rename":
			m.p, m.q = r.mfile(e.P), r.mfile(e.Q)
		default:
			m.p = r.mfile(e.P)
			m.q = m.p
		}
		out = append(out, m)
	}
	return out
}

func traceWire(tr []mev) string {
	s := make([]string, len(tr))
	for i, e := range tr {
		s[i] = e.String()
	}
	return strings.Join(s, ";")
}

// ---------- independent power-loss simulation ----------

type dinode struct {
	vol []byte
	dur int
}
type deop struct {
	link bool
	name string
	ino  int
}
type ddir struct {
	dur  map[string]int
	pend []deop
}
type dsim struct {
	inos map[int]*dinode
	dirs map[string]*ddir
	next int
}

func newSim(init map[string]map[string][]byte) *dsim {
	s := &dsim{inos: map[int]*dinode{}, dirs: map[string]*ddir{}, next: 1}
	for d, fs := range init {
		dd := &ddir{dur: map[string]int{}}
		s.dirs[d] = dd
		for n, b := range fs {
			s.inos[s.next] = &dinode{vol: append([]byte(nil), b...), dur: len(b)}
			dd.dur[n] = s.next
			s.next++
		}
	}
	return s
}

func applyOps(base map[string]int, ops []deop) map[string]int {
	m := map[string]int{}
	for k, v := range base {
		m[k] = v
	}
	for _, o := range ops {
		if o.link {
			m[o.name] = o.ino
		} else {
			delete(m, o.name)
		}
	}
	return m
}

func (s *dsim) resolve(p mpath) (int, bool) {
	dd := s.dirs[p.dir]
	if dd == nil {
		return 0, false
	}
	i, ok := applyOps(dd.dur, dd.pend)[p.name]
	return i, ok
}

func underDir(d, x string) bool { return x == d || strings.HasPrefix(x, d+".") }

func (s *dsim) step(e mev) {
	ok := e.res == "ok"
	switch e.op {
	case "mkdirtemp":
		if ok {
			s.dirs[e.p.dir] = &ddir{dur: map[string]int{}}
		}
	case "createtemp":
		if ok {
			if dd := s.dirs[e.p.dir]; dd != nil {
				s.inos[s.next] = &dinode{}
				dd.pend = append(dd.pend, deop{true, e.p.name, s.next})
				s.next++
			}
		}
	case "encode":
		if i, found := s.resolve(e.p); found {
			s.inos[i].vol = append(s.inos[i].vol, e.data...)
		}
	case "sync":
		if i, found := s.resolve(e.p); found && ok {
			s.inos[i].dur = len(s.inos[i].vol)
		}
	case "rename":
		if !ok {
			return
		}
		i, found := s.resolve(e.p)
		if !found {
			return
		}
		if d2 := s.dirs[e.q.dir]; d2 != nil {
			d2.pend = append(d2.pend, deop{true, e.q.name, i})
		}
		if d1 := s.dirs[e.p.dir]; d1 != nil {
			d1.pend = append(d1.pend, deop{false, e.p.name, 0})
		}
	case "remove":
		if dd := s.dirs[e.p.dir]; dd != nil && ok {
			dd.pend = append(dd.pend, deop{false, e.p.name, 0})
		}
	case "removeall":
		if ok {
			for d := range s.dirs {
				if underDir(e.p.dir, d) {
					delete(s.dirs, d)
				}
			}
		}
	case "syncdir":
		if dd := s.dirs[e.p.dir]; dd != nil && ok {
			dd.dur = applyOps(dd.dur, dd.pend)
			dd.pend = nil
		}
	}
}

func isFontName(n string) bool {
	var v int
	fmt.Sscanf(n, "%x", &v)
	return v <= 0xff
}

// crashOK enumerates every admissible power loss of the font directory F in the current state.
func (s *dsim) crashOK(F string, old, new map[string][]byte) (bool, string) {
	dd := s.dirs[F]
	if dd == nil {
		return true, ""
	}
	for k := 0; k <= len(dd.pend); k++ {
		ents := applyOps(dd.dur, dd.pend[:k])
		for n, i := range ents {
			if !isFontName(n) {
				continue
			}
			ino := s.inos[i]
			for j := ino.dur; j <= len(ino.vol); j++ {
				b := string(ino.vol[:j])
				o, hasO := old[n]
				nw, hasN := new[n]
				if !(hasO && b == string(o)) && !(hasN && b == string(nw)) {
					return false, fmt.Sprintf("name %s after %d pending entry operations holds %d of %d bytes", n, k, j, len(ino.vol))
				}
			}
		}
	}
	return true, ""
}

func (s *dsim) durable(F, n string, data []byte) bool {
	dd := s.dirs[F]
	if dd == nil {
		return false
	}
	for k := 0; k <= len(dd.pend); k++ {
		i, ok := applyOps(dd.dur, dd.pend[:k])[n]
		if !ok {
			return false
		}
		ino := s.inos[i]
		for j := ino.dur; j <= len(ino.vol); j++ {
			if string(ino.vol[:j]) != string(data) {
				return false
			}
		}
		if ino.dur > len(ino.vol) {
			return false
		}
	}
	return true
}

func wireListing(init map[string]map[string][]byte) string {
	var ds []string
	for d, fs := range init {
		var l []string
		for n, b := range fs {
			l = append(l, fmt.Sprintf("%s:%x", n, b))
		}
		sort.Strings(l)
		ds = append(ds, d+"="+strings.Join(l, ","))
	}
	sort.Strings(ds)
	return strings.Join(ds, ";")
}
func wireReps(m map[string][]byte) string {
	var l []string
	for n, b := range m {
		l = append(l, fmt.Sprintf("%s:%x", n, b))
	}
	sort.Strings(l)
	return strings.Join(l, ",")
}

// judge replays one recorded trace: K against the extracted checks, O by enumeration.
func judge(r *vh.Run, fam string, input map[string]any, tr []mev, init map[string]map[string][]byte,
	old, new map[string][]byte, success bool, installed []string) {
	sim := newSim(init)
	good := true
	if ok, why := sim.crashOK("1", old, new); !ok {
		panic("harness: initial state violates the trichotomy: " + why)
	}
	for c, e := range tr {
		sim.step(e)
		if ok, why := sim.crashOK("1", old, new); !ok && good {
			good = false
			input["crash_point"] = c + 1
			input["family"] = fam
			r.OracleFail("c07:"+fam+":powerloss-exposes-incomplete-font", input, fmt.Sprintf("after event %d (%s): %s", c+1, e, why))
		}
	}
	if good {
		r.OracleOK()
	}
	res := "ok"
	if !good {
		res = "bad"
	}
	r.Case("chk", []string{"1", "ff", wireReps(old), wireReps(new), wireListing(init), traceWire(tr)}, res)
	if success {
		for _, n := range installed {
			d := sim.durable("1", n, new[n])
			if !d {
				input["family"] = fam
				r.OracleFail("c07:"+fam+":not-durable-after-success", input, "installation returned success but a power loss can lose or truncate font "+n)
			} else {
				r.OracleOK()
			}
			r.Case("dur", []string{"1", wireListing(init), traceWire(tr), n, fmt.Sprintf("%x", new[n])}, vh.Bool(d))
		}
	}
}

func runC07(r *vh.Run) {
	// A. single font written straight into the font directory (font.InstallTrueTypeFont / InstallFontFromBytes path)
	for _, pre := range []bool{false, true} {
		for _, trunc := range []int{0, 1} {
			pre, trunc := pre, trunc
			sweep(r.Thorough(), func(f1, f2 int) int {
				base := newBase()
				F := filepath.Join(base, "1")
				init := map[string]map[string][]byte{"1": {"3f": {0xee}}}
				old := map[string][]byte{"3f": {0xee}}
				wfile(filepath.Join(F, nm(0x3f)+".gob"), []byte{0xee}, 0o644)
				if pre {
					wfile(filepath.Join(F, nm(0x10)+".gob"), oldTok(0x10), 0o644)
					init["1"]["10"] = oldTok(0x10)
					old["10"] = oldTok(0x10)
				}
				rc := newRec(base, f1, f2)
				rc.trunc = trunc
				rc.curData = newTok(0x10)
				err := font.VerifWriteGob(filepath.Join(F, nm(0x10)+".gob"), proto.VerifRename(nm(0x10)), rc.gobOps())
				judge(r, "writeGob", map[string]any{"pre": pre, "f1": f1, "f2": f2, "trunc": trunc}, rc.mtrace(), init, old,
					map[string][]byte{"10": newTok(0x10)}, err == nil, []string{"10"})
				r.Count("class:gob")
				return rc.cnt
			})
		}
	}
	// B. collections: staging by writeGob, then commitCollectionFonts
	shapes := [][]memberSpec{
		{{0x10, true}},
		{{0x10, true}, {0x11, true}},
		{{0x10, true}, {0, false}},
		{{0x10, true}, {0x11, true}, {0x12, true}},
	}
	if r.Thorough() {
		shapes = append(shapes, []memberSpec{{0x10, true}, {0x11, true}, {0x12, true}, {0x13, true}}, []memberSpec{{0x10, true}, {0x10, true}})
	}
	hdr := make([]byte, 28)
	copy(hdr, "ttcf")
	binary.BigEndian.PutUint32(hdr[4:], 0x00010000)
	binary.BigEndian.PutUint32(hdr[8:], 1)
	binary.BigEndian.PutUint32(hdr[12:], 16)
	for si, shape := range shapes {
		for _, mask := range []int{0, 1, 7} {
			shape, mask := shape, mask
			sweep(r.Thorough() && len(shape) <= 2, func(f1, f2 int) int {
				base := newBase()
				F := filepath.Join(base, "1")
				src := filepath.Join(base, "src.ttc")
				wfile(src, hdr, 0o644)
				init := map[string]map[string][]byte{"1": {"3f": {0xee}}}
				old := map[string][]byte{"3f": {0xee}}
				new := map[string][]byte{}
				wfile(filepath.Join(F, nm(0x3f)+".gob"), []byte{0xee}, 0o644)
				var installed []string
				for i, m := range shape {
					if !m.valid {
						continue
					}
					n := fmt.Sprintf("%x", m.p)
					if _, dup := new[n]; dup {
						continue
					}
					new[n] = newTok(m.p)
					installed = append(installed, n)
					if mask>>i&1 == 1 {
						wfile(filepath.Join(F, nm(m.p)+".gob"), oldTok(m.p), 0o644)
						init["1"][n] = oldTok(m.p)
						old[n] = oldTok(m.p)
					}
				}
				rc := newRec(base, f1, f2)
				ops := rc.collOps()
				ops.StageMembers = func(_ *os.File, stagingDir, _ string, _ int64, _ uint32, _ int64) ([]font.InstallResult, error) {
					var res []font.InstallResult
					done := map[int]bool{}
					for i, m := range shape {
						if !m.valid {
							return nil, fmt.Errorf("member %d: parse tables: invalid", i+1)
						}
						if done[m.p] {
							return nil, fmt.Errorf("member %d: %w", i+1, font.ErrDuplicatePostScriptName)
						}
						done[m.p] = true
						rc.curData = newTok(m.p)
						if err := font.VerifWriteGob(filepath.Join(stagingDir, nm(m.p)+".gob"), proto.VerifRename(nm(m.p)), rc.gobOps()); err != nil {
							return nil, err
						}
						res = append(res, font.InstallResult{PostScriptName: nm(m.p), Member: i + 1})
					}
					return res, nil
				}
				_, err := font.VerifInstallCollection(F, src, ops)
				judge(r, "collection", map[string]any{"shape": si, "preexisting_mask": mask, "f1": f1, "f2": f2}, rc.mtrace(), init, old, new, err == nil, installed)
				r.Count(fmt.Sprintf("class:collection-shape%d", si))
				return rc.cnt
			})
		}
	}
	// C. commitCollectionFonts on an already flushed staging directory
	for n := 1; n <= r.Pick(2, 3); n++ {
		for mask := 0; mask < 1<<n; mask++ {
			n, mask := n, mask
			sweep(false, func(f1, f2 int) int {
				base := newBase()
				F := filepath.Join(base, "1")
				S := filepath.Join(F, "2")
				must(os.Mkdir(S, 0o755))
				init := map[string]map[string][]byte{"1": {}, "1.2": {}}
				old := map[string][]byte{}
				new := map[string][]byte{}
				var results []font.InstallResult
				var installed []string
				for i := 0; i < n; i++ {
					p := 0x10 + i
					nn := fmt.Sprintf("%x", p)
					wfile(filepath.Join(S, nm(p)+".gob"), newTok(p), 0o644)
					init["1.2"][nn] = newTok(p)
					new[nn] = newTok(p)
					installed = append(installed, nn)
					if mask>>i&1 == 1 {
						wfile(filepath.Join(F, nm(p)+".gob"), oldTok(p), 0o644)
						init["1"][nn] = oldTok(p)
						old[nn] = oldTok(p)
					}
					results = append(results, font.InstallResult{PostScriptName: nm(p)})
				}
				rc := newRec(base, f1, f2)
				err := font.VerifCommitCollectionFonts(F, S, results, rc.collOps())
				judge(r, "commit", map[string]any{"n": n, "preexisting_mask": mask, "f1": f1, "f2": f2}, rc.mtrace(), init, old, new, err == nil, installed)
				r.Count("class:commit")
				return rc.cnt
			})
		}
	}
	straceC07(r)
}
