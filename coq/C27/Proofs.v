(* C27 — lemmas: a change inside the signed ranges changes the signed data. *)
From Coq Require Import ZArith NArith List Bool Lia.
From PV Require Import Lib.GoInt Lib.GoIntFacts C28.Generated C28.Model C28.Proofs C27.Model.
Import ListNotations.
Open Scope Z_scope.

Lemma nth_firstn_lt {A} (l : list A) n i d : (i < n)%nat -> nth i (firstn n l) d = nth i l d.
Proof.
  revert n i. induction l as [|x t IH]; intros n i H.
  - rewrite firstn_nil. reflexivity.
  - destruct n as [|n]; [lia|]. destruct i as [|i]; simpl; [reflexivity|]. apply IH. lia.
Qed.

Lemma nth_skipn_add {A} (l : list A) n i d : nth i (skipn n l) d = nth (n + i) l d.
Proof.
  revert l. induction n as [|n IH]; intros l; simpl; [reflexivity|].
  destruct l as [|x t]; simpl.
  - destruct i; reflexivity.
  - apply IH.
Qed.

Lemma nth_slice f off size k :
  0 <= off -> 0 <= k < size ->
  nth (Z.to_nat k) (slice f off size) 0%N = byteAt f (off + k).
Proof.
  intros Ho Hk. rewrite slice_spec, nth_firstn_lt by lia. rewrite nth_skipn_add.
  unfold byteAt. f_equal. lia.
Qed.

Lemma length_slice0 f l1 : 0 <= l1 -> (l1 = 0 \/ l1 <= lenZ f) -> length (slice f 0 l1) = Z.to_nat l1.
Proof.
  intros H0 [->|H].
  - rewrite slice_zero. reflexivity.
  - apply length_slice; lia.
Qed.

(* the heart of C27: for ALL files of equal length, ALL byte ranges, ALL offsets *)
Lemma covered_byte_changes_signed_data f f' arr d d' i :
  int64s arr -> lenZ f = lenZ f' ->
  bytesForByteRange f arr = Ok d -> bytesForByteRange f' arr = Ok d' ->
  inSigned arr i -> byteAt f i <> byteAt f' i -> d <> d'.
Proof.
  intros HI Hlen B B' Hin Hne Heq.
  apply bytesForByteRange_ok in B; [|exact HI]. apply bytesForByteRange_ok in B'; [|exact HI].
  destruct B as (l1 & o2 & l2 & -> & P1 & P2 & P3 & P4 & P5 & ->).
  destruct B' as (l1' & o2' & l2' & E & _ & _ & _ & P4' & P5' & ->).
  injection E as <- <- <-. simpl in Hin.
  pose proof (length_slice0 f l1 P1 P4) as L. pose proof (length_slice0 f' l1 P1 P4') as L'.
  apply Hne. destruct Hin as [Hin|Hin].
  - (* first range *)
    assert (N1 : nth (Z.to_nat i) (slice f 0 l1 ++ slice f o2 l2) 0%N = byteAt f i).
    { rewrite app_nth1 by lia. rewrite nth_slice by lia. f_equal. }
    assert (N2 : nth (Z.to_nat i) (slice f' 0 l1 ++ slice f' o2 l2) 0%N = byteAt f' i).
    { rewrite app_nth1 by lia. rewrite nth_slice by lia. f_equal. }
    rewrite <- N1, <- N2, Heq. reflexivity.
  - (* second range *)
    set (k := i - o2).
    assert (N1 : nth (Z.to_nat l1 + Z.to_nat k) (slice f 0 l1 ++ slice f o2 l2) 0%N = byteAt f i).
    { rewrite app_nth2 by lia. rewrite L.
      replace (Z.to_nat l1 + Z.to_nat k - Z.to_nat l1)%nat with (Z.to_nat k) by lia.
      rewrite nth_slice by (unfold k; lia). f_equal. unfold k. lia. }
    assert (N2 : nth (Z.to_nat l1 + Z.to_nat k) (slice f' 0 l1 ++ slice f' o2 l2) 0%N = byteAt f' i).
    { rewrite app_nth2 by lia. rewrite L'.
      replace (Z.to_nat l1 + Z.to_nat k - Z.to_nat l1)%nat with (Z.to_nat k) by lia.
      rewrite nth_slice by (unfold k; lia). f_equal. unfold k. lia. }
    rewrite <- N1, <- N2, Heq. reflexivity.
Qed.

Lemma signedData_bytes f arr c d :
  signedData f arr c = Ok d -> bytesForByteRange f arr = Ok d.
Proof.
  unfold signedData. destruct arr as [|a [|b [|c0 [|d0 [|e t]]]]]; try discriminate.
  destruct (byteRangeValues [a; b; c0; d0]) as [v|]; [|discriminate].
  destruct (validateByteRange v); [|discriminate].
  destruct (validateContentsGap f c v); [|discriminate]. trivial.
Qed.

Lemma signedData_changes f f' arr c c' d d' i :
  int64s arr -> lenZ f = lenZ f' ->
  signedData f arr c = Ok d -> signedData f' arr c' = Ok d' ->
  inSigned arr i -> byteAt f i <> byteAt f' i -> d <> d'.
Proof.
  intros HI Hl S S'. apply signedData_bytes in S. apply signedData_bytes in S'.
  now apply covered_byte_changes_signed_data with (f := f) (f' := f') (arr := arr).
Qed.

Section Digest.
  Variable digest : list N -> list N.     (* external: SHA-1/SHA-256/... *)

  (* both the original and the tampered file are accepted against the same protected digest
     ==> the hash function collides on two different inputs *)
  Lemma valid_after_tamper_implies_collision f f' arr c c' sd i :
    int64s arr -> lenZ f = lenZ f' ->
    inSigned arr i -> byteAt f i <> byteAt f' i ->
    accepts digest f arr c sd -> accepts digest f' arr c' sd ->
    exists x y, x <> y /\ digest x = digest y.
  Proof.
    intros HI Hl Hin Hne (d & S & D) (d' & S' & D').
    exists d, d'. split.
    - now apply (signedData_changes f f' arr c c' d d' i).
    - congruence.
  Qed.

  (* contrapositive reading: without a collision the tampered file is not accepted *)
  Lemma tampered_not_accepted_without_collision f f' arr c c' sd i :
    (forall x y, digest x = digest y -> x = y) ->
    int64s arr -> lenZ f = lenZ f' ->
    inSigned arr i -> byteAt f i <> byteAt f' i ->
    accepts digest f arr c sd -> ~ accepts digest f' arr c' sd.
  Proof.
    intros Hinj HI Hl Hin Hne A A'.
    destruct (valid_after_tamper_implies_collision f f' arr c c' sd i HI Hl Hin Hne A A')
      as (x & y & Hxy & Hd).
    apply Hxy. now apply Hinj.
  Qed.
End Digest.

(* ---------- edits inside the excluded gap ---------- *)
(* interior of a gap token: without its first and last byte *)
Definition interior (g : list N) : list N := removelast (tl g).

Lemma interior_token inner : interior (60%N :: inner ++ [62%N]) = inner.
Proof. unfold interior. simpl. apply removelast_last. Qed.

(* if the gap is accepted, its hex digits ARE the /Contents value the CMS blob is decoded from *)
Lemma gap_match_determines_hex g c :
  contentsGapMatches g c = true -> hexnorm (interior g) = map toUpperHex c.
Proof.
  intros H. apply contentsGapMatches_spec in H. destruct H as (inner & -> & Hn).
  now rewrite interior_token.
Qed.

(* an edit inside the gap that changes its hex digits either makes the gap check fail or goes
   together with a different /Contents value (a different CMS blob for the crypto to judge) *)
Lemma gap_edit_breaks_match_or_changes_blob g g' c c' :
  hexnorm (interior g) <> hexnorm (interior g') ->
  contentsGapMatches g c = true ->
  contentsGapMatches g' c' = false \/ map toUpperHex c <> map toUpperHex c'.
Proof.
  intros Hne Hg. destruct (contentsGapMatches g' c') eqn:E; [right|now left].
  apply gap_match_determines_hex in Hg. apply gap_match_determines_hex in E. congruence.
Qed.

(* against an unchanged /Contents value, only white-space / letter-case edits of the gap survive *)
Lemma gap_edit_same_contents g g' c :
  contentsGapMatches g c = true -> contentsGapMatches g' c = true ->
  hexnorm (interior g) = hexnorm (interior g').
Proof.
  intros H H'. apply gap_match_determines_hex in H. apply gap_match_determines_hex in H'. congruence.
Qed.

(* ---------- which data is hashed ---------- *)
Lemma hashed_data_is_byte_range_data cmsContent data :
  hashedData (dataToVerify cmsContent data) = data.
Proof. unfold dataToVerify. destruct (isNil cmsContent); reflexivity. Qed.

(* "unmodified" ==> a digest of the ByteRange bytes was compared and matched, in each of the
   four combinations (encapsulated?, signed attributes?) *)
Lemma p7_unmodified_hashes_byte_range attrOK sha1eq hasAttrs sigAttrsOK sigContentOK cmsContent data :
  p7Verdict attrOK sha1eq hasAttrs sigAttrsOK sigContentOK cmsContent data = TFalse ->
  (cmsContent = [] /\ hasAttrs = true /\ sigAttrsOK = true /\ attrOK data = true) \/
  (cmsContent <> [] /\ hasAttrs = true /\ sigAttrsOK = true /\
     sha1eq data cmsContent = true /\ attrOK cmsContent = true) \/
  (cmsContent <> [] /\ hasAttrs = false /\ sigContentOK cmsContent = true /\
     sha1eq data cmsContent = true).
Proof.
  unfold p7Verdict, p7Digest, dataToVerify, signatureContent.
  destruct cmsContent as [|x t]; simpl.
  - destruct hasAttrs; simpl.
    + destruct sigAttrsOK; simpl; [|discriminate].
      destruct (attrOK data); simpl; [|discriminate]. intros _. left. repeat split.
    + destruct (sigContentOK data); simpl; discriminate.
  - destruct hasAttrs; simpl.
    + destruct sigAttrsOK; simpl; [|discriminate].
      destruct (attrOK (x :: t)); simpl; [|discriminate].
      destruct (sha1eq data (x :: t)); [|discriminate].
      intros _. right. left. repeat split; discriminate.
    + destruct (sigContentOK (x :: t)); simpl; [|discriminate].
      destruct (sha1eq data (x :: t)); [|discriminate].
      intros _. right. right. repeat split; discriminate.
Qed.

Lemma p7_unmodified_digest_of_byte_range_compared attrOK sha1eq hasAttrs sigAttrsOK sigContentOK cmsContent data :
  p7Verdict attrOK sha1eq hasAttrs sigAttrsOK sigContentOK cmsContent data = TFalse ->
  attrOK data = true \/ sha1eq data cmsContent = true.
Proof.
  intros H. apply p7_unmodified_hashes_byte_range in H.
  destruct H as [(_ & _ & _ & H)|[(_ & _ & _ & H & _)|(_ & _ & _ & H)]]; [now left|now right|now right].
Qed.

(* the no-attributes detached combination is never reported unmodified *)
Lemma p7_detached_without_attributes_never_unmodified attrOK sha1eq sigAttrsOK sigContentOK data :
  p7Verdict attrOK sha1eq false sigAttrsOK sigContentOK [] data <> TFalse.
Proof.
  intros H. apply p7_unmodified_hashes_byte_range in H.
  destruct H as [(_ & H & _)|[(H & _)|(H & _)]]; [discriminate|now apply H|now apply H].
Qed.

Lemma p1_unmodified_signature_over_byte_range sigMatches data :
  p1Verdict sigMatches data = TFalse -> sigMatches data = true.
Proof. unfold p1Verdict. destruct (sigMatches data); [reflexivity|discriminate]. Qed.

Lemma eqbList_eq a b : eqbList a b = true -> a = b.
Proof.
  revert b. induction a as [|x a IH]; intros [|y b]; simpl; try discriminate; [reflexivity|].
  intros H. apply andb_true_iff in H. destruct H as [H1 H2]. apply N.eqb_eq in H1. subst.
  f_equal. now apply IH.
Qed.

(* forged eContent: the CMS carries the originally signed bytes D as content.  Whatever the
   ByteRange bytes of the forged file are, "unmodified" would need SHA1(bytes) = D, impossible
   when D is not 20 bytes long. *)
Lemma forged_econtent_not_unmodified (sha1 : list N -> list N) attrOK hasAttrs sigAttrsOK sigContentOK D data' :
  (forall x, length (sha1 x) = 20%nat) -> length D <> 20%nat -> D <> [] ->
  p7Verdict attrOK (fun d c => eqbList (sha1 d) c) hasAttrs sigAttrsOK sigContentOK D data' <> TFalse.
Proof.
  intros Hlen HD Hne A. apply p7_unmodified_hashes_byte_range in A.
  assert (E : eqbList (sha1 data') D = true).
  { destruct A as [(E & _)|[(_ & _ & _ & E & _)|(_ & _ & _ & E)]]; [contradiction|exact E|exact E]. }
  apply eqbList_eq in E. apply HD. rewrite <- E. apply Hlen.
Qed.

Lemma docModified_false_inv verdict fsize f arr contents increment dts sf :
  docModified verdict fsize f arr contents increment dts sf = TFalse ->
  exists data, signedData f arr contents = Ok data /\ verdict data = TFalse.
Proof.
  unfold docModified. destruct (negb (boundaryOK fsize arr increment dts sf)); [discriminate|].
  destruct (signedData f arr contents) as [d|]; [|discriminate].
  unfold applyHistorical. intros H. exists d. split; [reflexivity|].
  destruct ((increment <=? 0) || dts); [exact H|]. destruct (verdict d); try discriminate; reflexivity.
Qed.

Lemma forged_econtent_document_not_unmodified (sha1 : list N -> list N) attrOK hasAttrs sigAttrsOK sigContentOK D
    fsize f arr contents increment dts sf :
  (forall x, length (sha1 x) = 20%nat) -> length D <> 20%nat -> D <> [] ->
  docModified (p7Verdict attrOK (fun d c => eqbList (sha1 d) c) hasAttrs sigAttrsOK sigContentOK D)
              fsize f arr contents increment dts sf <> TFalse.
Proof.
  intros Hlen HD Hne A. apply docModified_false_inv in A. destruct A as (data & _ & A).
  revert A. now apply forged_econtent_not_unmodified.
Qed.

(* detached CMS (no eContent): "unmodified" means the digest of signedData(file, ByteRange)
   itself is the signed messageDigest *)
Lemma detached_unmodified_hashes_signed_data attrOK sha1eq hasAttrs sigAttrsOK sigContentOK fsize f arr contents increment dts sf :
  docModified (p7Verdict attrOK sha1eq hasAttrs sigAttrsOK sigContentOK []) fsize f arr contents increment dts sf = TFalse ->
  exists data, signedData f arr contents = Ok data /\ attrOK data = true.
Proof.
  intros A. apply docModified_false_inv in A. destruct A as (data & S & A).
  exists data. split; [exact S|]. apply p7_unmodified_hashes_byte_range in A.
  destruct A as [(_ & _ & _ & E)|[(E & _)|(E & _)]]; [exact E|congruence|congruence].
Qed.

(* any SubFilter handler based on p7Verdict / p1Verdict: unmodified ==> a digest of
   signedData(file, ByteRange) was compared *)
Lemma p7_document_unmodified_digest_compared attrOK sha1eq hasAttrs sigAttrsOK sigContentOK cmsContent
    fsize f arr contents increment dts sf :
  docModified (p7Verdict attrOK sha1eq hasAttrs sigAttrsOK sigContentOK cmsContent)
              fsize f arr contents increment dts sf = TFalse ->
  exists data, signedData f arr contents = Ok data /\
               (attrOK data = true \/ sha1eq data cmsContent = true).
Proof.
  intros A. apply docModified_false_inv in A. destruct A as (data & S & A).
  exists data. split; [exact S|]. revert A. apply p7_unmodified_digest_of_byte_range_compared.
Qed.

Lemma p1_document_unmodified_signature_over_byte_range sigMatches fsize f arr contents increment dts sf :
  docModified (p1Verdict sigMatches) fsize f arr contents increment dts sf = TFalse ->
  exists data, signedData f arr contents = Ok data /\ sigMatches data = true.
Proof.
  intros A. apply docModified_false_inv in A. destruct A as (data & S & A).
  exists data. split; [exact S|]. now apply p1_unmodified_signature_over_byte_range.
Qed.

(* ---------- several signers ---------- *)
Lemma processed_all {A} auth (l : list A) : processedSigners auth true l = l.
Proof. unfold processedSigners. rewrite andb_false_r. reflexivity. Qed.

Lemma all_valid_iff_every_signer_verified auth signers :
  p7StatusOf auth true signers = StValid <->
  signers <> [] /\ forall s, In s signers -> signerComplete s = true.
Proof.
  unfold p7StatusOf. rewrite processed_all. split.
  - destruct (existsb signerFails signers) eqn:E; [discriminate|].
    destruct (negb (isNil signers) && forallb signerComplete signers) eqn:F; [|discriminate].
    intros _. apply andb_true_iff in F. destruct F as [F1 F2]. split.
    + destruct signers; [discriminate|discriminate].
    + now apply forallb_forall.
  - intros [Hne Hall].
    assert (F : forallb signerComplete signers = true) by now apply forallb_forall.
    assert (E : existsb signerFails signers = false).
    { destruct (existsb signerFails signers) eqn:E; [|reflexivity].
      apply existsb_exists in E. destruct E as (s & Hin & Hf).
      specialize (Hall s Hin). unfold signerComplete in Hall. unfold signerFails in Hf.
      destruct (sigAuth s), (digestOK s); simpl in *; discriminate. }
    rewrite E, F. destruct signers; [contradiction|reflexivity].
Qed.

Lemma all_tampered_signer_invalid auth signers s :
  In s signers -> signerFails s = true -> p7StatusOf auth true signers = StInvalid.
Proof.
  intros Hin Hf. unfold p7StatusOf. rewrite processed_all.
  assert (E : existsb signerFails signers = true) by (apply existsb_exists; exists s; now split).
  now rewrite E.
Qed.
