package main

// In-memory renumbering of a read context (for corpus documents): one object of the document
// (catalog, page tree root, first page, info dict) is moved to a very large object number and
// every reference is patched, so that the writer sees sparse numbering.

import (
	"context"
	"fmt"

	"github.com/pdfcpu/pdfcpu/pkg/pdfcpu/model"
	"github.com/pdfcpu/pdfcpu/pkg/pdfcpu/types"
)

var sparseNumbers = []int{65535, 65536, 70000, 1 << 24, 1<<24 + 1}
var sparseKinds = []string{"catalog", "pages", "page", "font", "content", "info", "free", "several"}

func patchRefs(o types.Object, from, to int) types.Object {
	switch o := o.(type) {
	case types.IndirectRef:
		if o.ObjectNumber.Value() == from {
			return *types.NewIndirectRef(to, o.GenerationNumber.Value())
		}
		return o
	case types.Dict:
		for k, v := range o {
			o[k] = patchRefs(v, from, to)
		}
		return o
	case types.Array:
		for i, v := range o {
			o[i] = patchRefs(v, from, to)
		}
		return o
	case types.StreamDict:
		for k, v := range o.Dict {
			o.Dict[k] = patchRefs(v, from, to)
		}
		return o
	}
	return o
}

// sparseCtx moves one object to number `to`. which: 0 catalog, 1 page tree root, 2 first page, 3 info.
func sparseCtx(ctx *model.Context, which, to int) (desc string, err error) {
	defer func() {
		if e := recover(); e != nil {
			err = fmt.Errorf("sparseCtx: %v", e)
		}
	}()
	from := 0
	switch which % 4 {
	case 0:
		from = ctx.Root.ObjectNumber.Value()
	case 1:
		d, e := ctx.Catalog()
		if e != nil {
			return "", e
		}
		if ir := d.IndirectRefEntry("Pages"); ir != nil {
			from = ir.ObjectNumber.Value()
		}
	case 2:
		ir, e := ctx.PageDictIndRef(1)
		if e != nil || ir == nil {
			return "", fmt.Errorf("no first page")
		}
		from = ir.ObjectNumber.Value()
	case 3:
		if ctx.Info == nil {
			return "", fmt.Errorf("no info")
		}
		from = ctx.Info.ObjectNumber.Value()
	}
	e, ok := ctx.Table[from]
	if from == 0 || !ok || e == nil || e.Free {
		return "", fmt.Errorf("nothing to move")
	}
	if _, taken := ctx.Table[to]; taken {
		return "", fmt.Errorf("number taken")
	}
	// decode every lazy member first: references inside them must be patched too
	for _, x := range ctx.Table {
		if x == nil || x.Free {
			continue
		}
		if l, ok := x.Object.(types.LazyObjectStreamObject); ok {
			o, err := l.DecodedObject(context.TODO())
			if err != nil {
				return "", err
			}
			x.Object = o
		}
	}
	ctx.Table[to] = e
	delete(ctx.Table, from)
	for _, x := range ctx.Table {
		if x != nil && !x.Free {
			x.Object = patchRefs(x.Object, from, to)
		}
	}
	if ctx.Root.ObjectNumber.Value() == from {
		ctx.Root = types.NewIndirectRef(to, 0)
	}
	if ctx.Info != nil && ctx.Info.ObjectNumber.Value() == from {
		ctx.Info = types.NewIndirectRef(to, 0)
	}
	if *ctx.Size <= to {
		*ctx.Size = to + 1
	}
	return fmt.Sprintf("obj %d -> %d", from, to), nil
}
