package main

// Crypto matrix (C21): for each algorithm (RC4-40, RC4-128, AES-40, AES-128, AES-256) a generated
// document is encrypted, then the user password, the owner password and the permissions are
// changed (one after the other and on fresh copies), the document is decrypted, and every other
// operation of the matrix runs on the ENCRYPTED input with its credentials; every output is
// validated (relaxed) with the credentials it must have after the operation.

import (
	"encoding/hex"
	"fmt"
	"io"
	"strings"

	"github.com/pdfcpu/pdfcpu/pkg/api"
	"github.com/pdfcpu/pdfcpu/pkg/pdfcpu/model"
	"verif/vh"
)

type alg struct {
	name string
	aes  bool
	bits int
}

func (a alg) conf(upw, opw string) *model.Configuration {
	var c *model.Configuration
	if a.aes {
		c = model.NewAESConfiguration(upw, opw, a.bits)
	} else {
		c = model.NewRC4Configuration(upw, opw, a.bits)
	}
	c.ValidationMode = model.ValidationRelaxed
	return c
}

func cryptoMatrix(r *vh.Run, e *env, opsList []op) {
	algs := []alg{{"rc4-40", false, 40}, {"rc4-128", false, 128}, {"aes-40", true, 40}, {"aes-128", true, 128}, {"aes-256", true, 256}}
	defer func() { curUPW, curOPW = "", "" }()
	nDocs := r.Pick(1, 4)
	for di := 0; di < nDocs; di++ {
		var doc []byte
		for doc == nil {
			d, _ := genDoc(r.Rand, genOpts{forcePages: 1 + r.Rand.Intn(3)})
			if validate(d, "", "") == nil {
				doc = d
			}
		}
		for _, a := range algs {
			curUPW, curOPW = "", ""
			input := func(opName, params string) map[string]any {
				return map[string]any{"doc": fmt.Sprintf("crypto-%d-%s", di, a.name), "desc": "encrypted with " + a.name + " upw=u opw=o, then " + opName, "operation": opName, "params": params, "pdf": hex.EncodeToString(doc)}
			}
			c0 := a.conf("u", "o")
			c0.Permissions = []model.PermissionFlags{model.PermissionsNone, model.PermissionsAll, model.PermissionsPrint}[r.Rand.Intn(3)]
			encRes, err := rw(doc, func(rs io.ReadSeeker, w io.Writer) error { return api.Encrypt(rs, w, c0) })
			if err != nil {
				r.Count("crypto-op-error:encrypt:" + a.name)
				continue
			}
			enc := encRes.outs[0]
			check := func(name, params string, out []byte, upw, opw string, werr error) bool {
				if werr != nil {
					if strings.HasPrefix(werr.Error(), "PANIC") {
						r.OracleFail("panic:"+name, input(name, params), werr.Error())
					} else {
						r.Count("crypto-op-error:" + name + ":" + a.name)
					}
					return false
				}
				if len(out) == 0 {
					return false
				}
				r.Count("crypto:" + name + ":" + a.name)
				if verr := validate(out, upw, opw); verr != nil {
					cls := "invalid-output:" + name + ":" + a.name
					if name == "enc+cut" && strings.Contains(verr.Error(), "missing required resource subdict") {
						cls = "invalid-output:cut" // the known defect of Cut/Poster/NDown, encryption plays no part
					}
					r.OracleFail(cls, input(name, params), fmt.Sprintf("validated with upw=%q opw=%q: %v", upw, opw, verr))
					return false
				}
				r.OracleOK()
				return true
			}
			if !check("encrypt", "", enc, "u", "o", nil) {
				continue
			}
			step := func(in []byte, f func(rs io.ReadSeeker, w io.Writer) error) ([]byte, error) {
				res, err := rw(in, f)
				if err != nil {
					return nil, err
				}
				return res.outs[0], nil
			}
			// single changes on fresh copies
			o1, err := step(enc, func(rs io.ReadSeeker, w io.Writer) error { return api.ChangeUserPassword(rs, w, "u", "u2", a.conf("u", "o")) })
			check("changeupw", "u->u2", o1, "u2", "o", err)
			o2, err := step(enc, func(rs io.ReadSeeker, w io.Writer) error { return api.ChangeOwnerPassword(rs, w, "o", "o2", a.conf("u", "o")) })
			check("changeopw", "o->o2", o2, "u", "o2", err)
			cp := a.conf("u", "o")
			cp.Permissions = []model.PermissionFlags{model.PermissionsAll, model.PermissionsNone, model.PermissionsPrint}[r.Rand.Intn(3)]
			o3, err := step(enc, func(rs io.ReadSeeker, w io.Writer) error { return api.SetPermissions(rs, w, cp) })
			check("setperm", fmt.Sprintf("perm=%d", cp.Permissions), o3, "u", "o", err)
			o4, err := step(enc, func(rs io.ReadSeeker, w io.Writer) error { return api.Decrypt(rs, w, a.conf("u", "o")) })
			check("decrypt", "", o4, "", "", err)
			// chained: upw, then opw, then permissions, then decrypt
			if o1 != nil {
				c1, err := step(o1, func(rs io.ReadSeeker, w io.Writer) error { return api.ChangeOwnerPassword(rs, w, "o", "o3", a.conf("u2", "o")) })
				if check("changeupw-changeopw", "", c1, "u2", "o3", err) {
					cq := a.conf("u2", "o3")
					cq.Permissions = model.PermissionsPrint
					c2, err := step(c1, func(rs io.ReadSeeker, w io.Writer) error { return api.SetPermissions(rs, w, cq) })
					if check("changeupw-changeopw-setperm", "", c2, "u2", "o3", err) {
						c3, err := step(c2, func(rs io.ReadSeeker, w io.Writer) error { return api.Decrypt(rs, w, a.conf("u2", "o3")) })
						check("changeupw-changeopw-setperm-decrypt", "", c3, "", "", err)
					}
				}
			}
			// every other operation on the encrypted input, with its credentials
			curUPW, curOPW = "u", "o"
			n := 0
			if t, ids, _, err := pageTree(enc); err == nil && t != nil {
				n = len(ids)
			}
			if n == 0 {
				n = 1
			}
			for _, o := range opsList {
				if strings.HasPrefix(o.name, "encrypt") || o.name == "merge" || o.name == "merge-zip" || o.name == "watermark-pdf" {
					continue // encrypt again / second plain input
				}
				if !r.Thorough() && r.Rand.Intn(3) != 0 {
					continue
				}
				var res *opResult
				var params string
				err := guard(func() error {
					var e2 error
					res, params, e2 = o.run(r.Rand, enc, n, e)
					return e2
				})
				if err != nil || res == nil {
					check("enc+"+o.name, params, nil, "", "", err)
					continue
				}
				for _, out := range res.outs {
					up, op := res.upw, res.opw
					if up == "" && op == "" {
						up, op = "u", "o" // the output of an operation on an encrypted input stays encrypted
					}
					check("enc+"+o.name, params, out, up, op, nil)
				}
			}
			curUPW, curOPW = "", ""
		}
	}
}
