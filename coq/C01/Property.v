(* C01 — A failed or aborted operation never damages or leaves behind files.
   Property theorems only; each is closed by an exact lemma and followed by Print Assumptions. *)
From stdpp Require Import gmap.
From Coq Require Import NArith.
From PV Require Import C01.FS C01.FSFacts C01.Model C01.Proofs.

(* staged_fault_safe for the api skeleton (every single-output *File function of pkg/api:
   open inputs, openStagedOutput, deferred cleanup/commit, body).
   For every temp-name supply that returns unused names, every initial filesystem m0, every path
   relation (inF / outF / what exists in m0), every body (any list of write chunks) and exactly
   one cause of failure (one injected fault at any call index with a succeeding body, or a body ending
   in Err/Panic with no injected fault; Panic only for flag-keyed skeletons):
   if the run does not return Ok then every path has the same contents and mode as before and the
   set of paths is the same — unless the output is a new file, inputs are open, and the single
   fault hit the close of an input inside commit (then the complete new output is kept). *)
Theorem api_staged_fault_safe_partial : forall fresh,
  (forall m, m !! fresh m = None) ->
  forall pl fin, one_cause pl fin ->
  forall k ins inF outF chunks m0 tr, (k = KFlag \/ fin <> CPanic) ->
  forall r w', api_file pl fresh k ins inF outF chunks fin (W m0 0 tr) = (r, w') -> r <> COk ->
  unchanged m0 (wfs w') \/
  (fin = COk /\ pl <> nofault /\ kept_new_output m0 ins inF outF (wfs w')).
Proof. exact api_staged_fault_safe_partial_proof. Qed.
Print Assumptions api_staged_fault_safe_partial.

(* full strength whenever no input is held open (MergeCreateFile) or the output is not a new file
   (in place / existing output) *)
Theorem api_staged_fault_safe : forall fresh,
  (forall m, m !! fresh m = None) ->
  forall pl fin, one_cause pl fin ->
  forall k ins inF outF chunks m0 tr, (k = KFlag \/ fin <> CPanic) ->
  (ins = [] \/ forall o, outF = Some o -> opt_eqb inF outF = false -> is_Some (m0 !! o)) ->
  forall r w', api_file pl fresh k ins inF outF chunks fin (W m0 0 tr) = (r, w') -> r <> COk ->
  unchanged m0 (wfs w').
Proof. exact api_staged_fault_safe_proof. Qed.
Print Assumptions api_staged_fault_safe.

Theorem api_close_input_fault_keeps_new_output_refuted :
  exists n r w', api_file (single n) fresh_path KFlag [1%positive] (Some 1%positive) (Some 2%positive) [[1%N]] COk
                   (W {[ 1%positive := File [5%N] mode_new ]} 0 []) = (r, w') /\
    r = CErr /\ wfs w' !! 2%positive = Some (File [1%N] mode_new).
Proof. exact api_close_input_fault_keeps_new_output_refuted_proof. Qed.
Print Assumptions api_close_input_fault_keeps_new_output_refuted.

Theorem flag_keyed_panic_safe : forall fresh,
  (forall m, m !! fresh m = None) ->
  forall ins inF outF chunks m0 tr r w',
  api_file nofault fresh KFlag ins inF outF chunks CPanic (W m0 0 tr) = (r, w') ->
  r <> COk /\ unchanged m0 (wfs w').
Proof. exact flag_keyed_panic_safe_proof. Qed.
Print Assumptions flag_keyed_panic_safe.

Theorem err_keyed_panic_refuted :
  exists r w', api_file nofault fresh_path KErr [] None (Some 2%positive) [[1%N]] CPanic (W refute_m0 0 []) = (r, w') /\
    r = CPanic /\
    refute_m0 !! 2%positive = Some (File [7%N; 7%N] mode_new) /\
    wfs w' !! 2%positive = Some (File [1%N] mode_new) /\
    ~ unchanged refute_m0 (wfs w').
Proof. exact err_keyed_panic_refuted_proof. Qed.
Print Assumptions err_keyed_panic_refuted.

(* non-vacuity: the temp-name supply used for extraction satisfies the hypothesis; both causes exist *)
Example C01_nonvacuous :
  (forall m, m !! fresh_path m = None) /\ one_cause nofault CPanic /\ one_cause (single 3) COk.
Proof. split; [exact fresh_path_spec|]. split; [left; reflexivity|right; split; [reflexivity|exists 3; reflexivity]]. Qed.
