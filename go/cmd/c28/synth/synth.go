// Package synth builds small signed PDF byte strings for the C27/C28 harnesses:
// a one-page document with a /Sig form field, a /Contents placeholder, a computed
// (or deliberately manipulated) /ByteRange and a detached CMS made with pdfcpu's
// own pkcs7 package over a throw-away RSA key and self-signed certificate.
package synth

import (
	"bytes"
	"crypto"
	"crypto/rand"
	"crypto/rsa"
	"crypto/sha1"
	"crypto/sha256"
	"crypto/sha512"
	"crypto/x509"
	"crypto/x509/pkix"
	"encoding/hex"
	"encoding/pem"
	"os"
	"path/filepath"
	"fmt"
	"math/big"
	"regexp"
	"sort"
	"strings"
	"time"

	"github.com/pdfcpu/pdfcpu/pkg/pdfcpu"
	"github.com/pdfcpu/pdfcpu/pkg/pdfcpu/model"
	"github.com/pdfcpu/pdfcpu/pkg/pdfcpu/pkcs7"
)

type Signer struct {
	Key  *rsa.PrivateKey
	Cert *x509.Certificate
}

func NewSigner() (*Signer, error) { return NewSignerNamed("verif throw-away signer", 0x2728) }

// NewSignerNamed makes a signer with its own common name and serial number (several signers of one
// CMS must be distinguishable by issuer and serial).
func NewSignerNamed(cn string, serial int64) (*Signer, error) {
	key, err := rsa.GenerateKey(rand.Reader, 2048)
	if err != nil {
		return nil, err
	}
	tmpl := &x509.Certificate{
		SerialNumber:          big.NewInt(serial),
		Subject:               pkix.Name{CommonName: cn, Organization: []string{"verif"}},
		NotBefore:             time.Now().Add(-24 * time.Hour),
		NotAfter:              time.Now().Add(24 * time.Hour),
		KeyUsage:              x509.KeyUsageDigitalSignature | x509.KeyUsageCertSign,
		BasicConstraintsValid: true,
		IsCA:                  true,
	}
	der, err := x509.CreateCertificate(rand.Reader, tmpl, tmpl, &key.PublicKey, key)
	if err != nil {
		return nil, err
	}
	cert, err := x509.ParseCertificate(der)
	if err != nil {
		return nil, err
	}
	return &Signer{Key: key, Cert: cert}, nil
}

// InstallTrust writes the signer certificate as PEM into dir and makes dir pdfcpu's
// trusted certificate directory for this process.
func (s *Signer) InstallTrust(dir string) error {
	if err := os.MkdirAll(dir, 0o755); err != nil {
		return err
	}
	var buf bytes.Buffer
	if err := pem.Encode(&buf, &pem.Block{Type: "CERTIFICATE", Bytes: s.Cert.Raw}); err != nil {
		return err
	}
	if err := os.WriteFile(filepath.Join(dir, fmt.Sprintf("verif-signer-%s.pem", s.Cert.SerialNumber.Text(16))), buf.Bytes(), 0o644); err != nil {
		return err
	}
	model.TrustedCertDir = dir
	pdfcpu.InvalidateCertificatePool()
	return nil
}

// CMS returns a detached SignedData over the SHA-256 digest of data.
func (s *Signer) CMS(data []byte) ([]byte, error) {
	d := sha256.Sum256(data)
	sd, err := pkcs7.NewSignedData()
	if err != nil {
		return nil, err
	}
	if err := sd.AddSigner(s.Cert, s.Key, d[:], pkcs7.OIDDigestAlgorithmSHA256, pkcs7.SignerInfoConfig{}); err != nil {
		return nil, err
	}
	return sd.Finish()
}

// Doc is a synthesised document. GapStart is the offset of '<' of /Contents,
// GapEnd the offset just behind '>'.
type Doc struct {
	Bytes     []byte
	ByteRange []int64 // as written into the file
	GapStart  int
	GapEnd    int
	BRStart   int // offset of '[' of the /ByteRange array
	BRWidth   int // width reserved for the array text
	Hex       string // the hex digits between '<' and '>' (upper case as written)
	SubFilter string
	DictStart int      // offsets of the signature dictionary object ("6 0 obj" ... "endobj\n")
	DictEnd   int
	Digest    [32]byte // SHA-256 the CMS protects (of Lenient(bytes at signing time, ByteRange))
}

type Options struct {
	Payload   []byte // page content stream bytes (any)
	ExtraObjs int    // additional dummy objects after the signature dictionary
	SubFilter string // default adbe.pkcs7.detached
	// Range decides the /ByteRange from (gapStart, gapEnd, fileLen); nil = the covering one.
	Range func(gs, ge, n int64) []int64
	// PadHex adds that many '0' digits behind the CMS hex inside <...> (even numbers keep bytes aligned).
	PadHex int
	// GapEdit rewrites the bytes "<hex>" AFTER signing (whitespace, case...); it must keep the length.
	Lower bool // write the hex digits in lower case
	// FixedCMS, when set, is written into /Contents as is (nothing is signed): used for forged
	// documents that re-use somebody else's CMS.
	FixedCMS []byte
	// MakeCMS, when set, produces the /Contents blob for the bytes selected by the /ByteRange
	// (default: Signer.CMS, a detached SHA-256 SignedData with signed attributes). Its output
	// length must not depend on its input.
	MakeCMS func(data []byte) ([]byte, error)
	// ExtraSigEntries is inserted verbatim into the signature dictionary (e.g. "/Cert <...>").
	ExtraSigEntries string
	// SigAfter places the signature dictionary as the last object (behind the page objects).
}

const brWidth = 64

// Lenient returns what a signer would hash for ranges r over b: the in-file part of
// [r0,r0+r1) followed by the in-file part of [r2,r2+r3) (nothing for nonsense values).
func Lenient(b []byte, r []int64) []byte {
	var out []byte
	for i := 0; i+1 < len(r) && i < 4; i += 2 {
		off, n := r[i], r[i+1]
		if off < 0 || n <= 0 || off >= int64(len(b)) {
			continue
		}
		end := off + n
		if end < off || end > int64(len(b)) {
			end = int64(len(b))
		}
		out = append(out, b[off:end]...)
	}
	return out
}

func brText(r []int64) string {
	ss := make([]string, len(r))
	for i, v := range r {
		ss[i] = fmt.Sprintf("%d", v)
	}
	return "[" + strings.Join(ss, " ") + "]"
}

// Build creates the signed document.
func Build(s *Signer, o Options) (*Doc, error) {
	if o.SubFilter == "" {
		o.SubFilter = "adbe.pkcs7.detached"
	}
	mk := s.CMS
	if o.MakeCMS != nil {
		mk = o.MakeCMS
	}
	probe, err := mk([]byte("probe"))
	if err != nil {
		return nil, err
	}
	hexLen := 2*len(probe) + o.PadHex
	if o.FixedCMS != nil {
		hexLen = 2*len(o.FixedCMS) + o.PadHex
	}

	var buf bytes.Buffer
	offs := map[int]int{}
	obj := func(n int, body string) {
		offs[n] = buf.Len()
		fmt.Fprintf(&buf, "%d 0 obj\n%s\nendobj\n", n, body)
	}
	buf.WriteString("%PDF-1.7\n%\xe2\xe3\xcf\xd3\n")
	obj(1, "<< /Type /Catalog /Pages 2 0 R /AcroForm << /Fields [5 0 R] /SigFlags 3 >> >>")
	obj(2, "<< /Type /Pages /Kids [3 0 R] /Count 1 >>")
	obj(3, "<< /Type /Page /Parent 2 0 R /MediaBox [0 0 200 200] /Contents 4 0 R /Annots [5 0 R] /Resources << >> >>")
	offs[4] = buf.Len()
	fmt.Fprintf(&buf, "4 0 obj\n<< /Length %d >>\nstream\n", len(o.Payload))
	buf.Write(o.Payload)
	buf.WriteString("\nendstream\nendobj\n")
	obj(5, "<< /Type /Annot /Subtype /Widget /FT /Sig /T (Signature1) /Rect [0 0 0 0] /F 132 /P 3 0 R /V 6 0 R >>")
	offs[6] = buf.Len()
	fmt.Fprintf(&buf, "6 0 obj\n<< /Type /Sig /Filter /Adobe.PPKLite /SubFilter /%s %s /ByteRange ", o.SubFilter, o.ExtraSigEntries)
	brStart := buf.Len()
	buf.WriteString(strings.Repeat(" ", brWidth))
	buf.WriteString(" /Contents ")
	gapStart := buf.Len()
	buf.WriteString("<" + strings.Repeat("0", hexLen) + ">")
	gapEnd := buf.Len()
	buf.WriteString(" /M (D:20260101000000Z) >>\nendobj\n")
	dictEnd := buf.Len()
	n := 7
	for i := 0; i < o.ExtraObjs; i++ {
		obj(n, fmt.Sprintf("<< /Verif %d >>", i))
		n++
	}
	xref := buf.Len()
	fmt.Fprintf(&buf, "xref\n0 %d\n0000000000 65535 f \n", n)
	for i := 1; i < n; i++ {
		fmt.Fprintf(&buf, "%010d 00000 n \n", offs[i])
	}
	fmt.Fprintf(&buf, "trailer\n<< /Size %d /Root 1 0 R >>\nstartxref\n%d\n%%%%EOF\n", n, xref)

	b := buf.Bytes()
	var r []int64
	if o.Range != nil {
		r = o.Range(int64(gapStart), int64(gapEnd), int64(len(b)))
	} else {
		r = []int64{0, int64(gapStart), int64(gapEnd), int64(len(b) - gapEnd)}
	}
	txt := brText(r)
	if len(txt) > brWidth {
		return nil, fmt.Errorf("ByteRange text too wide: %s", txt)
	}
	copy(b[brStart:], txt)
	dg := sha256.Sum256(Lenient(b, r))
	var cms []byte
	if o.FixedCMS != nil {
		cms = o.FixedCMS
	} else {
		cms, err = mk(Lenient(b, r))
		if err != nil {
			return nil, err
		}
		if len(cms) != len(probe) {
			return nil, fmt.Errorf("CMS size changed: %d vs %d", len(cms), len(probe))
		}
	}
	hx := strings.ToUpper(hex.EncodeToString(cms)) + strings.Repeat("0", o.PadHex)
	if o.Lower {
		hx = strings.ToLower(hx)
	}
	copy(b[gapStart+1:], hx)
	return &Doc{Bytes: b, ByteRange: r, GapStart: gapStart, GapEnd: gapEnd, BRStart: brStart, BRWidth: brWidth,
		Hex: hx, SubFilter: o.SubFilter, Digest: dg, DictStart: offs[6], DictEnd: dictEnd}, nil
}

// Increment appends a syntactically valid incremental update (one new object, an xref
// section with /Prev, a trailer) to a document produced by Build.
func Increment(b []byte, note string) []byte {
	prev := bytes.LastIndex(b, []byte("startxref\n"))
	var prevOff, size int
	fmt.Sscanf(string(b[prev+len("startxref\n"):]), "%d", &prevOff)
	ti := bytes.LastIndex(b, []byte("/Size "))
	fmt.Sscanf(string(b[ti+len("/Size "):]), "%d", &size)
	var buf bytes.Buffer
	buf.Write(b)
	off := buf.Len()
	fmt.Fprintf(&buf, "%d 0 obj\n<< /VerifIncrement (%s) >>\nendobj\n", size, note)
	xref := buf.Len()
	fmt.Fprintf(&buf, "xref\n%d 1\n%010d 00000 n \n", size, off)
	fmt.Fprintf(&buf, "trailer\n<< /Size %d /Root 1 0 R /Prev %d >>\nstartxref\n%d\n%%%%EOF\n", size+1, prevOff, xref)
	return buf.Bytes()
}

// ---- DER surgery: attach eContent to an existing SignedData without any key ----

type tlv struct {
	tag  byte
	body []byte
	raw  []byte
}

func readTLV(b []byte) (t tlv, rest []byte, err error) {
	if len(b) < 2 {
		return t, nil, fmt.Errorf("der: short")
	}
	t.tag = b[0]
	n := int(b[1])
	h := 2
	if n == 0x80 {
		return t, nil, fmt.Errorf("der: indefinite length")
	}
	if n > 0x80 {
		k := n & 0x7f
		if k > 4 || len(b) < 2+k {
			return t, nil, fmt.Errorf("der: bad length")
		}
		n = 0
		for i := 0; i < k; i++ {
			n = n<<8 | int(b[2+i])
		}
		h = 2 + k
	}
	if len(b) < h+n {
		return t, nil, fmt.Errorf("der: truncated")
	}
	t.body = b[h : h+n]
	t.raw = b[:h+n]
	return t, b[h+n:], nil
}

func encTLV(tag byte, body []byte) []byte {
	n := len(body)
	out := []byte{tag}
	switch {
	case n < 0x80:
		out = append(out, byte(n))
	case n < 1<<8:
		out = append(out, 0x81, byte(n))
	case n < 1<<16:
		out = append(out, 0x82, byte(n>>8), byte(n))
	case n < 1<<24:
		out = append(out, 0x83, byte(n>>16), byte(n>>8), byte(n))
	default:
		out = append(out, 0x84, byte(n>>24), byte(n>>16), byte(n>>8), byte(n))
	}
	return append(out, body...)
}

// InjectContent returns cms (a ContentInfo/SignedData, trailing padding ignored) with content
// attached as eContent; everything else (certificates, signer infos, signature) is untouched.
func InjectContent(cms, content []byte) ([]byte, error) {
	outer, _, err := readTLV(cms)
	if err != nil || outer.tag != 0x30 {
		return nil, fmt.Errorf("der: outer: %v", err)
	}
	oid, rest, err := readTLV(outer.body)
	if err != nil || oid.tag != 0x06 {
		return nil, fmt.Errorf("der: content type: %v", err)
	}
	ctx0, _, err := readTLV(rest)
	if err != nil || ctx0.tag != 0xa0 {
		return nil, fmt.Errorf("der: [0]: %v", err)
	}
	sd, _, err := readTLV(ctx0.body)
	if err != nil || sd.tag != 0x30 {
		return nil, fmt.Errorf("der: SignedData: %v", err)
	}
	ver, r1, err := readTLV(sd.body)
	if err != nil {
		return nil, err
	}
	algs, r2, err := readTLV(r1)
	if err != nil {
		return nil, err
	}
	eci, r3, err := readTLV(r2)
	if err != nil || eci.tag != 0x30 {
		return nil, fmt.Errorf("der: encapContentInfo: %v", err)
	}
	eoid, _, err := readTLV(eci.body)
	if err != nil || eoid.tag != 0x06 {
		return nil, fmt.Errorf("der: eContentType: %v", err)
	}
	newEci := encTLV(0x30, append(append([]byte{}, eoid.raw...), encTLV(0xa0, encTLV(0x04, content))...))
	body := append(append(append([]byte{}, ver.raw...), algs.raw...), newEci...)
	body = append(body, r3...)
	newSd := encTLV(0x30, body)
	return encTLV(0x30, append(append([]byte{}, oid.raw...), encTLV(0xa0, newSd)...)), nil
}

var (
	reRoot = regexp.MustCompile(`/Root\s+\d+\s+\d+\s+R`)
	reSize = regexp.MustCompile(`/Size\s+(\d+)`)
	reSXR  = regexp.MustCompile(`startxref\s+(\d+)`)
)

// ObjBody returns the text between "n 0 obj" and "endobj" of the newest definition of object n
// that is written in clear in b ("" if none).
func ObjBody(b []byte, n int) string {
	re := regexp.MustCompile(fmt.Sprintf(`(?:^|[\r\n ])%d\s+0\s+obj`, n))
	locs := re.FindAllIndex(b, -1)
	if len(locs) == 0 {
		return ""
	}
	st := locs[len(locs)-1][1]
	e := bytes.Index(b[st:], []byte("endobj"))
	if e < 0 {
		return ""
	}
	return strings.TrimSpace(string(b[st : st+e]))
}

// IncrementObjs appends ONE well-formed incremental update that (re)defines the given objects:
// the objects, a classic xref section with one subsection per object, and a trailer carrying
// /Size, the previous /Root and /Prev.  Works behind classic xref tables and xref streams.
func IncrementObjs(b []byte, objs map[int]string) ([]byte, error) {
	root := reRoot.FindAll(b, -1)
	sizes := reSize.FindAllSubmatch(b, -1)
	sx := reSXR.FindAllSubmatch(b, -1)
	if len(root) == 0 || len(sizes) == 0 || len(sx) == 0 {
		return nil, fmt.Errorf("increment: no trailer information")
	}
	size := 0
	for _, m := range sizes {
		var v int
		fmt.Sscanf(string(m[1]), "%d", &v)
		if v > size {
			size = v
		}
	}
	var prev int
	fmt.Sscanf(string(sx[len(sx)-1][1]), "%d", &prev)
	nums := make([]int, 0, len(objs))
	for n := range objs {
		nums = append(nums, n)
		if n+1 > size {
			size = n + 1
		}
	}
	sort.Ints(nums)
	var buf bytes.Buffer
	buf.Write(b)
	if len(b) > 0 && b[len(b)-1] != '\n' {
		buf.WriteByte('\n')
	}
	offs := map[int]int{}
	for _, n := range nums {
		offs[n] = buf.Len()
		fmt.Fprintf(&buf, "%d 0 obj\n%s\nendobj\n", n, objs[n])
	}
	xref := buf.Len()
	buf.WriteString("xref\n")
	for _, n := range nums {
		fmt.Fprintf(&buf, "%d 1\n%010d 00000 n \n", n, offs[n])
	}
	fmt.Fprintf(&buf, "trailer\n<< /Size %d %s /Prev %d >>\nstartxref\n%d\n%%%%EOF\n", size, root[len(root)-1], prev, xref)
	return buf.Bytes(), nil
}

// StripAttrs rewrites the (single) SignerInfo of cms without signed attributes: the RSA
// PKCS#1 v1.5 / SHA-256 signature is made directly over content.
func (s *Signer) StripAttrs(cms, content []byte) ([]byte, error) {
	outer, _, err := readTLV(cms)
	if err != nil {
		return nil, err
	}
	oid, rest, err := readTLV(outer.body)
	if err != nil {
		return nil, err
	}
	ctx0, _, err := readTLV(rest)
	if err != nil {
		return nil, err
	}
	sd, _, err := readTLV(ctx0.body)
	if err != nil {
		return nil, err
	}
	var body []byte
	rem := sd.body
	for len(rem) > 0 {
		t, r2, err := readTLV(rem)
		if err != nil {
			return nil, err
		}
		rem = r2
		if t.tag != 0x31 || len(rem) > 0 { // only the last SET is signerInfos
			body = append(body, t.raw...)
			continue
		}
		si, _, err := readTLV(t.body)
		if err != nil || si.tag != 0x30 {
			return nil, fmt.Errorf("der: signerInfo: %v", err)
		}
		d := sha256.Sum256(content)
		sig, err := rsa.SignPKCS1v15(rand.Reader, s.Key, crypto.SHA256, d[:])
		if err != nil {
			return nil, err
		}
		var nsi []byte
		r3 := si.body
		for len(r3) > 0 {
			c, r4, err := readTLV(r3)
			if err != nil {
				return nil, err
			}
			r3 = r4
			switch c.tag {
			case 0xa0: // signed attributes: dropped
			case 0x04:
				nsi = append(nsi, encTLV(0x04, sig)...)
			default:
				nsi = append(nsi, c.raw...)
			}
		}
		body = append(body, encTLV(0x31, encTLV(0x30, nsi))...)
	}
	return encTLV(0x30, append(append([]byte{}, oid.raw...), encTLV(0xa0, encTLV(0x30, body))...)), nil
}

// P1Contents is the /Contents of an adbe.x509.rsa_sha1 signature: a DER OCTET STRING holding
// the PKCS#1 v1.5 signature over SHA-1(data).
func (s *Signer) P1Contents(data []byte) ([]byte, error) {
	h := sha1.Sum(data)
	sig, err := rsa.SignPKCS1v15(rand.Reader, s.Key, crypto.SHA1, h[:])
	if err != nil {
		return nil, err
	}
	return encTLV(0x04, sig), nil
}

// CertEntry is the /Cert entry for adbe.x509.rsa_sha1.
func (s *Signer) CertEntry() string {
	return "/Cert <" + strings.ToUpper(hex.EncodeToString(s.Cert.Raw)) + ">"
}

// MultiCMS returns a detached SignedData over data with one SignerInfo per signer; algs[i] is
// "sha256", "sha384" or "sha512".
func MultiCMS(signers []*Signer, algs []string, data []byte) ([]byte, error) {
	sd, err := pkcs7.NewSignedData()
	if err != nil {
		return nil, err
	}
	for i, s := range signers {
		var d []byte
		oid := pkcs7.OIDDigestAlgorithmSHA256
		switch algs[i] {
		case "sha384":
			x := sha512.Sum384(data)
			d, oid = x[:], pkcs7.OIDDigestAlgorithmSHA384
		case "sha512":
			x := sha512.Sum512(data)
			d, oid = x[:], pkcs7.OIDDigestAlgorithmSHA512
		default:
			x := sha256.Sum256(data)
			d = x[:]
		}
		if err := sd.AddSigner(s.Cert, s.Key, d, oid, pkcs7.SignerInfoConfig{}); err != nil {
			return nil, err
		}
	}
	return sd.Finish()
}
