(* C08 — Malformed input never crashes, overflows the stack or hangs.
   Executable models of the GUARDS that make recursion/iteration over attacker-controlled
   structure terminate.  No proofs here.

   1. recursion.go: CheckRecursionDepth                      -> eff_depth / depth_exceeded
   2. recursion.go: PageTreeVisit.Enter/Leave, and
      xreftable.go: processPageTreeForPageNumberDepth (the walk behind XRefTable.PageNumber)
                                                             -> enter / leave / walk / page_number
   3. read.go: buildXRefTableStartingAt (the xref /Prev chain loop with its `offs` set)
                                                             -> prev_loop
   4. validate/outlineTree.go: scanAndFixOutlineItems (sibling list with its `visited` set)
                                                             -> sibling_scan
   5. generic depth-guarded descent (validate/nameTree.go validateNameTreeDepthWithViolations,
      validate/outlineTree.go validateOutlineTreeDepth, numberTree, structTree, ... all have the
      shape `if err := CheckRecursionDepth(name, depth); ...; for kids { f(kid, depth+1) }`)
                                                             -> guarded_descent
   The parser (parse.go) is in ParseModel.v.

   Object numbers are N, Go ints are Z, nat only for fuel. *)
From Coq Require Import NArith ZArith List Bool.
Import ListNotations.
Open Scope N_scope.

(* ------------------------------------------------------------------ 1. depth guard *)

(* recursion.go:CheckRecursionDepth — maxDepth <= 0 means DefaultResourceLimits().MaxRecursionDepth = 100 *)
Definition default_max_depth : Z := 100%Z.
Definition eff_depth (maxd : Z) : Z := if (maxd <=? 0)%Z then default_max_depth else maxd.
(* `if depth > maxDepth { return err }` *)
Definition depth_exceeded (maxd depth : Z) : bool := (eff_depth maxd <? depth)%Z.

(* ------------------------------------------------------------------ 2. page tree walk *)

(* What an entry of a /Kids array is, as far as the walk looks at it. *)
Inductive kid := KNull | KRef (n : N) | KBad (* any object that is not an indirect reference *).
(* /Type of a page node dict *)
Inductive ntype := TPages | TPage | TOther | TNone (* no /Type *).
(* What an object number dereferences to. Absent from the table (or a free entry) = nil object. *)
Inductive node := NNotDict | NDict (t : ntype) (kids : list kid).
(* the xref table: a Go map; the first binding wins in this association list *)
Definition graph := list (N * node).

Fixpoint lookup (g : graph) (n : N) : option node :=
  match g with
  | [] => None
  | (k, v) :: t => if k =? n then Some v else lookup t n
  end.

Definition mem (n : N) (l : list N) : bool := existsb (N.eqb n) l.

Inductive werr := ECycle | EDup | EDepth | EOther.

(* PageTreeVisit.Enter on the two Go maps (ancestors, seen), each a list of its true keys *)
Definition enter (n : N) (anc seen : list N) : werr + (list N * list N) :=
  if n =? 0 then inr (anc, seen)
  else if mem n anc then inl ECycle
  else if mem n seen then inl EDup
  else inr (n :: anc, n :: seen).

(* PageTreeVisit.Leave: delete(v.ancestors, objNr) *)
Definition leave (n : N) (anc : list N) : list N :=
  if n =? 0 then anc else filter (fun x => negb (x =? n)) anc.

(* result of processPageTreeForPageNumberDepth:
   WNone seen count = (0, nil) with the visit state and *pageCount afterwards,
   WFound nr = (nr, nil) with nr > 0 (returned straight up through every level) *)
Inductive wres := WNone (seen : list N) (count : Z) | WFound (nr : Z) | WErr (e : werr) | WOOF.

(* the `for _, o := range d.ArrayEntry("Kids")` loop; rec = the recursive call for a /Pages kid *)
Fixpoint kids_loop (rec : N -> list N -> Z -> wres) (g : graph) (target : Z)
                   (ks : list kid) (seen : list N) (count : Z) : wres :=
  match ks with
  | [] => WNone seen count
  | KNull :: ks' => kids_loop rec g target ks' seen count            (* if o == nil { continue } *)
  | KBad :: _ => WErr EOther                                         (* corrupt page node dict *)
  | KRef n :: ks' =>
    match lookup g n with                                            (* dereferencePageNodeDictType *)
    | None => WErr EOther                                            (* missing page node dict *)
    | Some NNotDict => WErr EOther                                   (* ErrExpectedDict *)
    | Some (NDict TNone _) => WErr EOther                            (* missing dict type *)
    | Some (NDict TPages _) =>
      match rec n seen count with
      | WNone seen' count' => kids_loop rec g target ks' seen' count'
      | r => r                                                       (* error, or pageNr > 0 *)
      end
    | Some (NDict TPage _) =>
      let c := (count + 1)%Z in
      if (Z.of_N n =? target)%Z then WFound c else kids_loop rec g target ks' seen c
    | Some (NDict TOther _) => kids_loop rec g target ks' seen count (* switch without default *)
    end
  end.

(* xreftable.go:processPageTreeForPageNumberDepth(root, pageCount, pageObjNr, depth, visit).
   [anc] is threaded functionally: `defer visit.Leave(objNr)` gives the caller back exactly the
   set it had (Proofs.leave_enter), and every non-WNone result returns through all levels. *)
Fixpoint walk (fuel : nat) (g : graph) (maxd target depth : Z) (root : N)
              (anc seen : list N) (count : Z) : wres :=
  match fuel with
  | O => WOOF
  | S f =>
    if depth_exceeded maxd depth then WErr EDepth else
    match lookup g root with
    | Some NNotDict => WErr EOther                                   (* DereferenceDict error *)
    | dn =>
      let kids := match dn with Some (NDict _ ks) => ks | _ => [] end in   (* nil dict: no Kids *)
      match enter root anc seen with
      | inl e => WErr e
      | inr (anc1, seen1) =>
        kids_loop (fun k s c => walk f g maxd target (depth + 1) k anc1 s c) g target kids seen1 count
      end
    end
  end.

(* fuel that Property.page_tree_walk_terminates proves sufficient: |objects|+1 (enough whenever
   object 0 is free) or the effective depth limit + 2 (enough on every table), whichever is larger *)
Definition walk_fuel (g : graph) (maxd : Z) : nat :=
  Nat.max (S (length g)) (Z.to_nat (eff_depth maxd + 2)).

(* XRefTable.PageNumber(pageObjNr) with the catalog's /Pages reference [root] *)
Definition page_number (g : graph) (maxd target : Z) (root : N) : wres :=
  walk (walk_fuel g maxd) g maxd target 0 root [] [] 0.

(* ------------------------------------------------------------------ 3. xref /Prev chain *)

(* what reading the xref section (table or stream, tryXRefSection + parseXRefStreamOrRepair) at an
   offset yields: an error (also: repaired -> the loop returns), no /Prev, or the /Prev offset *)
Inductive step := SErr | SEnd | SNext (off : Z).
Inductive cres := CDone (sections : list Z) (* offsets whose section was read, newest first *)
                | CCycle (sections : list Z) (* `if offs[*offset] { return nil }` *)
                | CErr | COOF.

Definition memz (z : Z) (l : list Z) : bool := existsb (Z.eqb z) l.

(* read.go:buildXRefTableStartingAt `for offset != nil`: next = section reader, alt = offsetLastXRefSection
   (ctx, FileSize-offset) used when an offset repeats; offs = the map offs *)
Fixpoint prev_loop (fuel : nat) (next : Z -> step) (alt : Z -> option Z) (offs : list Z) (off : Z) : cres :=
  match fuel with
  | O => COOF
  | S f =>
    let sel : cres + Z :=
      if memz off offs then
        match alt off with
        | None => inl CErr
        | Some off' => if memz off' offs then inl (CCycle offs) else inr off'
        end
      else inr off in
    match sel with
    | inl r => r
    | inr off1 =>
      let offs1 := off1 :: offs in
      match next off1 with
      | SErr => CErr
      | SEnd => CDone offs1
      | SNext p => prev_loop f next alt offs1 p
      end
    end
  end.

(* finite tables for the extracted model *)
Fixpoint tab_next (t : list (Z * step)) (z : Z) : step :=
  match t with [] => SErr | (k, v) :: r => if (k =? z)%Z then v else tab_next r z end.
Fixpoint tab_alt (t : list (Z * Z)) (z : Z) : option Z :=
  match t with [] => None | (k, v) :: r => if (k =? z)%Z then Some v else tab_alt r z end.
Definition prev_chain (tn : list (Z * step)) (ta : list (Z * Z)) (start : Z) : cres :=
  prev_loop (S (length tn)) (tab_next tn) (tab_alt ta) [] start.

(* ------------------------------------------------------------------ 4. outline sibling list *)

(* validate/outlineTree.go:scanAndFixOutlineItems, control flow only:
   item n: None = DereferenceDict error or empty dict (handleCorruptDict), Some nx = its /Next.
   SCircular = handleCircular reached; SDup n = handleDuplicate reached at n (seen in another list) *)
Inductive sres := SOk (seen : list N) | SCircular | SDup (n : N) | SCorrupt | SOOF.
Fixpoint sibling_scan (fuel : nat) (item : N -> option (option N)) (visited seen : list N) (cur : option N) : sres :=
  match fuel with
  | O => SOOF
  | S f =>
    match cur with
    | None => SOk seen
    | Some n =>
      if mem n visited then SCircular else
      match item n with
      | None => SCorrupt
      | Some nx => if mem n seen then SDup n else sibling_scan f item (n :: visited) (n :: seen) nx
      end
    end
  end.
Fixpoint tab_item (t : list (N * option N)) (n : N) : option (option N) :=
  match t with [] => None | (k, v) :: r => if k =? n then Some v else tab_item r n end.
Definition sibling_list (t : list (N * option N)) (seen : list N) (first : option N) : sres :=
  sibling_scan (S (S (length t))) (tab_item t) [] seen first.

(* ------------------------------------------------------------------ 5. depth-guarded descent *)

(* A rose tree of arbitrary (possibly huge) nesting stands for the call tree that an unguarded
   traversal of the input would make; guarded_descent is the traversal with
   `if err := CheckRecursionDepth(name, depth)` in front and `depth+1` for every kid.
   Result: (deepest depth value any call was made with, false if the guard fired). *)
Inductive rose := Rose (kids : list rose).
Definition descent_loop (rec : rose -> Z * bool) : list rose -> Z -> Z * bool :=
  fix loop (ks : list rose) (mx : Z) : Z * bool :=
    match ks with
    | [] => (mx, true)
    | k :: ks' =>
      let '(m, ok) := rec k in
      if ok then loop ks' (Z.max mx m) else (Z.max mx m, false)      (* error: return at once *)
    end.
Fixpoint guarded_descent (maxd depth : Z) (t : rose) : Z * bool :=
  if depth_exceeded maxd depth then (depth, false) else
  match t with
  | Rose ks => descent_loop (guarded_descent maxd (depth + 1)%Z) ks depth
  end.

(* ------------------------------------------------------------------ 6. object stream index *)

(* types/streamdict.go:ObjectStreamDict.IndexedObject:
   `if osd.ObjArray == nil || index < 0 || index >= len(osd.ObjArray) { return nil, err }` *)
Definition indexed_ok (arr_nil : bool) (len index : Z) : bool :=
  negb (arr_nil || (index <? 0)%Z || (len <=? index)%Z).

(* read.go:extractXRefTableEntriesFromXRefStream bufToInt64: `i <<= 8; i |= int64(b)` over the field's
   bytes, in int64 (wraps: an 8 byte field with the top bit set is negative) *)
Definition wrap64 (z : Z) : Z := ((z + 9223372036854775808) mod 18446744073709551616 - 9223372036854775808)%Z.
Definition buf_to_int64 (buf : list N) : Z :=
  fold_left (fun i b => wrap64 (Z.lor (wrap64 (i * 256)) (Z.of_N b))) buf 0%Z.

(* ------------------------------------------------------------------ 7. BER length / end-of-contents *)

(* Every slice access of pkcs7/ber.go:readLength and isIndefiniteTermination goes through [getb] /
   [slice]; an access outside [0, len) (a Go index/slice panic) is the result LOOB / IOOB.
   Bytes are N below 256 (anything else is outside the model). *)
Definition getb (ber : list N) (i : Z) : option N :=
  if (i <? 0)%Z then None else nth_error ber (Z.to_nat i).
(* ber[lo : lo+cnt] *)
Definition slice (ber : list N) (lo cnt : Z) : option (list N) :=
  if (lo <? 0)%Z || (cnt <? 0)%Z || (Z.of_nat (length ber) <? lo + cnt)%Z then None
  else Some (firstn (Z.to_nat cnt) (skipn (Z.to_nat lo) ber)).

Inductive lres := LOk (len : Z) (indefinite : bool) (next : Z) | LErr | LOOB.

(* pkcs7/ber.go:readLength(ber, offset) *)
Definition read_length (ber : list N) (offset : Z) : lres :=
  let n := Z.of_nat (length ber) in
  if (offset <? 0)%Z || (n <=? offset)%Z then LErr else           (* length offset outside BER data *)
  match getb ber offset with
  | None => LOOB
  | Some first =>
    let off1 := (offset + 1)%Z in
    if first =? 128 then LOk 0 true off1
    else if first <? 128 then LOk (Z.of_N first) false off1
    else
      let count := Z.of_N (N.land first 127) in
      if (4 <? count)%Z then LErr                                    (* more than four octets *)
      else if (n - off1 <? count)%Z then LErr                        (* length octets exceed available data *)
      else
        match getb ber off1 with                                     (* ber[offset] == 0 *)
        | None => LOOB
        | Some b0 =>
          if b0 =? 0 then LErr                                       (* leading zero *)
          else if (count =? 4)%Z && (127 <? b0) then LErr            (* exceeds supported range *)
          else
            match slice ber off1 count with                          (* range ber[offset : offset+count] *)
            | None => LOOB
            | Some bs => LOk (fold_left (fun l b => (l * 256 + Z.of_N b)%Z) bs 0%Z) false (off1 + count)%Z
            end
        end
  end.

Inductive ires := IOk (terminated : bool) | IErr | IOOB.

(* pkcs7/ber.go:isIndefiniteTermination(ber, offset) *)
Definition is_indef_term (ber : list N) (offset : Z) : ires :=
  let n := Z.of_nat (length ber) in
  if (offset <? 0)%Z || (n <? offset)%Z || (n - offset <? 2)%Z then IErr else
  match getb ber offset, getb ber (offset + 1) with
  | Some a, Some b => IOk ((a =? 0) && (b =? 0))
  | _, _ => IOOB
  end.

(* ------------------------------------------------------------------ 8. detectMarker *)

(* strings.Index(s, p): position of the first occurrence, -1 if there is none *)
Fixpoint prefixb (p s : list N) : bool :=
  match p, s with
  | [], _ => true
  | a :: p', b :: s' => (a =? b) && prefixb p' s'
  | _ :: _, [] => false
  end.
Fixpoint index_from (p s : list N) (i : Z) : Z :=
  if prefixb p s then i else
  match s with
  | [] => (-1)%Z
  | _ :: t => index_from p t (i + 1)%Z
  end.
Definition str_index (p s : list N) : Z := index_from p s 0%Z.

(* parse.go:isMarkerTerminated(rune(b)) for a byte b: 0 or unicode.IsSpace of the Latin-1 code point *)
Definition is_marker_term (b : N) : bool :=
  (b =? 0) || (b =? 9) || (b =? 10) || (b =? 11) || (b =? 12) || (b =? 13) || (b =? 32) || (b =? 133) || (b =? 160).

Definition m_endobj : list N := [101; 110; 100; 111; 98; 106].
Definition m_stream : list N := [115; 116; 114; 101; 97; 109].
Definition m_xref : list N := [120; 114; 101; 102].

Inductive dres := DRes (ind : Z) | DOOB | DOOF.

(* the `for !isMarkerTerminated(rune(line[off]))` loop of parse.go:detectMarker.
   guarded = the look-ahead behind "xref" is only read when it lies inside the line
   (`j >= 0 && j+4 < len(line)`); guarded = false is the code as it was: `if j >= 0 { r := rune(line[j+4])` *)
Fixpoint dm_loop (fuel : nat) (guarded is_endobj : bool) (marker line : list N) (off ind : Z) : dres :=
  match fuel with
  | O => DOOF
  | S f =>
    match getb line off with
    | None => DOOB
    | Some c =>
      if is_marker_term c then DRes ind else
      let line1 := skipn (Z.to_nat off) line in
      let look : option dres :=                                       (* Some r = return r *)
        if is_endobj then
          let j := str_index m_xref line1 in
          if (0 <=? j)%Z && (negb guarded || (j + 4 <? Z.of_nat (length line1))%Z) then
            match getb line1 (j + 4) with
            | None => Some DOOB
            | Some r => if is_marker_term r then Some (DRes ind) else None
            end
          else None
        else None in
      match look with
      | Some r => r
      | None =>
        let i := str_index marker line1 in
        if (i <? 0)%Z then DRes (-1)
        else if (Z.of_nat (length line1) <=? i + Z.of_nat (length marker))%Z then DRes (-1)
        else let off1 := (i + Z.of_nat (length marker))%Z in
             dm_loop f guarded is_endobj marker line1 off1 (ind + off1)%Z
      end
    end
  end.

(* parse.go:detectMarker(line, marker) for marker = "endobj" (is_endobj) or "stream" *)
Definition detect_marker (guarded is_endobj : bool) (line : list N) : dres :=
  let marker := if is_endobj then m_endobj else m_stream in
  let i := str_index marker line in
  if (i <? 0)%Z then DRes i
  else if (Z.of_nat (length line) <=? i + Z.of_nat (length marker))%Z then DRes (-1)
  else dm_loop (S (length line)) guarded is_endobj marker line (i + Z.of_nat (length marker))%Z i.

(* ------------------------------------------------------------------ 9. Flate predictor parameters *)

(* safemath.AddInt / MultiplyInt (C42 proves them exact): ok iff both operands >= 0 and the result fits int64 *)
Definition max_int : Z := 9223372036854775807%Z.
Definition safe_add (a b : Z) : option Z :=
  if (a <? 0)%Z || (b <? 0)%Z || (max_int <? a + b)%Z then None else Some (a + b)%Z.
Definition safe_mul (a b : Z) : option Z :=
  if (a <? 0)%Z || (b <? 0)%Z || (max_int <? a * b)%Z then None else Some (a * b)%Z.

(* filter/flateDecode.go:flate.parameters — an absent entry is None *)
Definition flate_parameters (colors bpc columns : option Z) : option (Z * Z * Z) :=
  match (match colors with None => Some 1%Z | Some c => if (c <=? 0)%Z then None else Some c end) with
  | None => None
  | Some c =>
    match (match bpc with None => Some 8%Z
                        | Some b => if (b =? 1)%Z || (b =? 2)%Z || (b =? 4)%Z || (b =? 8)%Z || (b =? 16)%Z then Some b else None end) with
    | None => None
    | Some b =>
      match (match columns with None => Some 1%Z | Some k => if (k <=? 0)%Z then None else Some k end) with
      | None => None
      | Some k => Some (c, b, k)
      end
    end
  end.

(* validatePredictor: TIFF (2) or PNG 10..15 *)
Definition valid_predictor (p : Z) : bool := (p =? 2)%Z || ((10 <=? p)%Z && (p <=? 15)%Z).

(* predictorRowParams(predictor, colors, bpc, columns) -> (rowSize, rowLen, bytesPerPixel) *)
Definition predictor_row_params (predictor colors bpc columns : Z) : option (Z * Z * Z) :=
  match safe_mul bpc colors with None => None | Some bits =>
  match safe_add bits 7 with None => None | Some bitsr =>
  let bpp := (bitsr / 8)%Z in
  match safe_mul bits columns with None => None | Some rowbits =>
  match safe_add rowbits 7 with None => None | Some rowbitsr =>
  let row_size := (rowbitsr / 8)%Z in
  if (predictor =? 2)%Z then Some (row_size, row_size, bpp)
  else match safe_add row_size 1 with None => None | Some rl => Some (row_size, rl, bpp) end
  end end end end.

Inductive ppres := PPass (* no predictor: passThru *) | PPRows (colors row_size row_len bpp : Z) | PPErr.

(* the parameter part of flate.decodePostProcess *)
Definition post_process_params (predictor colors bpc columns : option Z) : ppres :=
  match predictor with
  | None => PPass
  | Some p =>
    if (p =? 1)%Z then PPass
    else if negb (valid_predictor p) then PPErr
    else match flate_parameters colors bpc columns with
         | None => PPErr
         | Some (c, b, k) =>
           match predictor_row_params p c b k with
           | None => PPErr
           | Some (rs, rl, bpp) => PPRows c rs rl bpp
           end
         end
  end.

(* ------------------------------------------------------------------ 10. cmap format 4 layout *)

(* font/install.go:prepareCMapFormat4 on a subtable of [avail] bytes whose header says format, declared
   length and segCountX2 (all uint16): None = ErrInvalidFontData, Some (size, segCount, endOff, startOff,
   deltaOff, rangeOff) *)
Definition c4_end_off : Z := 14%Z.
Definition c4_start_off (n : Z) : Z := (c4_end_off + 2 * n + 2)%Z.       (* endOff + 2*segCount + 2 *)
Definition c4_delta_off (n : Z) : Z := (c4_start_off n + 2 * n)%Z.        (* startOff + 2*segCount *)
Definition c4_range_off (n : Z) : Z := (c4_delta_off n + 2 * n)%Z.        (* deltaOff + 2*segCount *)
Definition cmap4_layout (avail format declared segx2 : Z) : option (Z * Z * Z * Z * Z * Z) :=
  if (avail <? 16)%Z then None
  else if negb (format =? 4)%Z then None
  else if (declared <? 16)%Z then None
  else if (avail <? declared)%Z then None
  else if (segx2 =? 0)%Z || negb (segx2 mod 2 =? 0)%Z then None
  else if (declared <? c4_range_off (segx2 / 2) + 2 * (segx2 / 2))%Z then None   (* requireSize(rangeOff+2*segCount) *)
  else Some (declared, (segx2 / 2)%Z, c4_end_off, c4_start_off (segx2 / 2), c4_delta_off (segx2 / 2), c4_range_off (segx2 / 2)).
