(* C34: the property statements as lemmas (Property.v restates them and closes each with `exact`). *)
From PV Require Import Lib.GoInt C34.Generated C34.Model C34.ProofsBase C34.ProofsOrder C34.ProofsNup.
From Coq Require Import Permutation Lia.
Open Scope Z_scope.

Lemma ordering_is_permutation_lemma : forall IW N bt bd ls tf folio pages,
  accepted N bt -> fits IW (slice_len pages + 2 * N) ->
  exists slots, getBookletOrdering IW N bt bd ls tf false folio pages = Ok slots /\
    Permutation (map fst slots) (pages ++ repeat 0 (Z.to_nat (Z.of_nat (length slots) - slice_len pages))).
Proof.
  intros IW N bt bd ls tf folio pages Ha Hf.
  destruct (ordering_plain IW N bt bd ls tf folio pages Ha Hf) as (slots & H1 & H2 & H3).
  exists slots. split; [exact H1|]. rewrite H2. exact H3.
Qed.

Lemma slots_whole_sheets_lemma : forall IW N bt bd ls tf folio pages,
  accepted N bt -> fits IW (slice_len pages + 2 * N) ->
  exists slots, getBookletOrdering IW N bt bd ls tf false folio pages = Ok slots /\
    Z.of_nat (length slots) mod (2 * N) = 0 /\
    0 <= Z.of_nat (length slots) - slice_len pages < 2 * N.
Proof.
  intros IW N bt bd ls tf folio pages Ha Hf.
  destruct (ordering_plain IW N bt bd ls tf folio pages Ha Hf) as (slots & H1 & H2 & H3).
  exists slots. split; [exact H1|]. rewrite H2.
  destruct Ha as (HN & _).
  destruct (padTo_spec (slice_len pages) (2 * N) (slice_len_nonneg pages) ltac:(lia)) as (Hm & Hr).
  split; [exact Hm|lia].
Qed.

Lemma each_page_exactly_once_lemma : forall IW N bt bd ls tf folio pages,
  accepted N bt -> fits IW (slice_len pages + 2 * N) -> NoDup pages -> ~ In 0 pages ->
  exists slots, getBookletOrdering IW N bt bd ls tf false folio pages = Ok slots /\
    (forall p, In p pages -> count_occ Z.eq_dec (map fst slots) p = 1%nat) /\
    (forall p, p <> 0 -> ~ In p pages -> count_occ Z.eq_dec (map fst slots) p = 0%nat) /\
    Z.of_nat (count_occ Z.eq_dec (map fst slots) 0) = Z.of_nat (length slots) - slice_len pages.
Proof.
  intros IW N bt bd ls tf folio pages Ha Hf Hnd H0.
  destruct (ordering_plain IW N bt bd ls tf folio pages Ha Hf) as (slots & H1 & H2 & H3).
  exists slots. split; [exact H1|].
  destruct (once_each _ _ _ H3 Hnd H0) as (Ha1 & Ha2 & Ha3).
  split; [exact Ha1|]. split; [exact Ha3|]. rewrite Ha2, H2.
  destruct Ha as (HN & _).
  destruct (padTo_spec (slice_len pages) (2 * N) (slice_len_nonneg pages) ltac:(lia)) as (Hm & Hr). lia.
Qed.

Lemma multifolio_partial_lemma : forall IW N bt bd ls tf folio pages,
  accepted N bt -> 1 <= folio -> (4 * folio) mod (2 * N) = 0 -> 1 <= slice_len pages ->
  fits IW (slice_len pages + 2 * N) ->
  exists slots, getBookletOrdering IW N bt bd ls tf true folio pages = Ok slots /\
    Permutation (map fst slots) (pages ++ repeat 0 (Z.to_nat (Z.of_nat (length slots) - slice_len pages))) /\
    Z.of_nat (length slots) mod (2 * N) = 0 /\
    0 <= Z.of_nat (length slots) - slice_len pages < 2 * N.
Proof.
  intros IW N bt bd ls tf folio pages Ha Hfo Hg Hk Hf.
  destruct (ordering_multifolio IW N bt bd ls tf folio pages Ha Hfo Hg Hk Hf) as (slots & H1 & H2 & H3).
  exists slots. split; [exact H1|]. rewrite H2. split; [exact H3|].
  destruct Ha as (HN & _).
  destruct (padTo_spec (slice_len pages) (2 * N) (slice_len_nonneg pages) ltac:(lia)) as (Hm & Hr).
  split; [exact Hm|lia].
Qed.

Lemma multifolio_refuted_lemma : exists N bt bd ls tf folio pages,
  accepted N bt /\ 1 <= folio /\ 1 <= slice_len pages /\ fits 64 (slice_len pages + 2 * N) /\
  getBookletOrdering 64 N bt bd ls tf true folio pages = Err.
Proof.
  exists 4, 0, 0, false, false, 1, [1;2;3;4;5;6;7;8;9].
  split; [unfold accepted; lia|]. split; [lia|]. split; [vm_compute; congruence|].
  split; [unfold fits, maxS; vm_compute; repeat split; congruence|]. exact multifolio_panics.
Qed.

Lemma nup_in_order_lemma : forall IW N sorted, 0 < N ->
  exists blanks, nupSlots IW N sorted = sorted ++ repeat 0 (Z.to_nat blanks) /\
    0 <= blanks < N /\ (slice_len sorted + blanks) mod N = 0.
Proof.
  intros IW N sorted HN. exists (padTo (slice_len sorted) N - slice_len sorted).
  split; [apply nupSlots_spec; exact HN|].
  destruct (padTo_spec (slice_len sorted) N (slice_len_nonneg sorted) HN) as (Hm & Hr).
  split; [lia|]. replace (slice_len sorted + (padTo (slice_len sorted) N - slice_len sorted)) with (padTo (slice_len sorted) N) by lia.
  exact Hm.
Qed.

Lemma nup_pages_lemma : forall N sorted, 0 < N -> 1 <= slice_len sorted ->
  nupOutputPages N sorted = (slice_len sorted + N - 1) / N.
Proof. exact nupOutputPages_spec. Qed.

