(* C37 — Form export and fill round-trip.  Executable model, NO proofs.

   Hand-transcribed from
     /repo/pkg/pdfcpu/form/export.go   (extract*, exportTx/exportCh/exportBtn, resolveOption)
     /repo/pkg/pdfcpu/form/fill.go     (FillDetails, fillTextField, fillDateField, fillCheckBox,
                                        fillRadioButtonGroup, fillComboBox, fillListBox, updateListBoxValues,
                                        fillWidgetAnnots, FillForm)
     /repo/pkg/pdfcpu/form/form.go     (parseOptions, extractStringSlice, parseStringLiteralArray, getV/getDV,
                                        lockFormField, unlockFormField)
     /repo/pkg/api/form.go             (validOptionValue, validate*Values, validatedFillForm, FillForm)

   A PDF form is a list of field states [pfield]: exactly the entries of the field dictionary that the two
   functions read or write (V, DV, Opt, Ff-ReadOnly/Multiline/MultiSelect, MaxLen, the date format of the
   AA/F JavaScript action, the appearance state names of check boxes and radio buttons).  The JSON document
   is a list of [jfield].  Strings are lists of Unicode code points.
   Not modelled (level: partial): appearance streams (Ensure*AP), /I, kid /AS, fonts, pages, the field tree
   (fields are flat: a terminal field, or a radio group / check box parent with widget kids). *)
From Coq Require Import ZArith NArith List Bool Decimal DecimalN.
From PV Require Import Lib.GoInt.
Import ListNotations.
Open Scope Z_scope.

Definition str := list N.

Fixpoint str_eqb (a b : str) : bool :=
  match a, b with
  | [], [] => true
  | x :: a', y :: b' => N.eqb x y && str_eqb a' b'
  | _, _ => false
  end.

(* types.EqualSlices *)
Fixpoint strs_eqb (a b : list str) : bool :=
  match a, b with
  | [], [] => true
  | x :: a', y :: b' => str_eqb x y && strs_eqb a' b'
  | _, _ => false
  end.

(* types.MemberOf *)
Fixpoint mem (s : str) (l : list str) : bool :=
  match l with [] => false | x :: t => str_eqb x s || mem s t end.

Definition is_nil {A} (l : list A) : bool := match l with [] => true | _ => false end.

(* unicode.IsSpace *)
Definition is_space (r : N) : bool :=
  (((9 <=? r) && (r <=? 13)) || (r =? 32) || (r =? 133) || (r =? 160) || (r =? 5760)
   || ((8192 <=? r) && (r <=? 8202)) || (r =? 8232) || (r =? 8233) || (r =? 8239) || (r =? 8287)
   || (r =? 12288))%N.

Fixpoint trim_left (s : str) : str :=
  match s with
  | [] => []
  | r :: t => if is_space r then trim_left t else s
  end.
Definition trim_right (s : str) : str := rev (trim_left (rev s)).
(* strings.TrimSpace *)
Definition trim_space (s : str) : str := trim_right (trim_left s).

(* ---- decimal: strconv.Itoa (non-negative) and strconv.Atoi ---- *)
Fixpoint uint_digits (u : Decimal.uint) : str :=
  match u with
  | Nil => []
  | D0 u => 48%N :: uint_digits u | D1 u => 49%N :: uint_digits u | D2 u => 50%N :: uint_digits u
  | D3 u => 51%N :: uint_digits u | D4 u => 52%N :: uint_digits u | D5 u => 53%N :: uint_digits u
  | D6 u => 54%N :: uint_digits u | D7 u => 55%N :: uint_digits u | D8 u => 56%N :: uint_digits u
  | D9 u => 57%N :: uint_digits u
  end.
Definition itoa (n : N) : str := uint_digits (N.to_uint n).

Fixpoint digits_uint (s : str) : option Decimal.uint :=
  match s with
  | [] => Some Nil
  | c :: t =>
    match digits_uint t with
    | None => None
    | Some u =>
      if (c =? 48)%N then Some (D0 u) else if (c =? 49)%N then Some (D1 u) else if (c =? 50)%N then Some (D2 u)
      else if (c =? 51)%N then Some (D3 u) else if (c =? 52)%N then Some (D4 u) else if (c =? 53)%N then Some (D5 u)
      else if (c =? 54)%N then Some (D6 u) else if (c =? 55)%N then Some (D7 u) else if (c =? 56)%N then Some (D8 u)
      else if (c =? 57)%N then Some (D9 u) else None
    end
  end.

Definition unsigned_dec (s : str) : option Z :=
  match s with
  | [] => None
  | _ => match digits_uint s with None => None | Some u => Some (Z.of_N (N.of_uint u)) end
  end.

(* strconv.Atoi: optional sign, at least one digit, int64 range *)
Definition atoi (s : str) : option Z :=
  let r := match s with
           | [] => None
           | c :: t => if (c =? 45)%N then option_map Z.opp (unsigned_dec t)
                       else if (c =? 43)%N then unsigned_dec t
                       else unsigned_dec s
           end in
  match r with
  | Some z => if (z <=? 9223372036854775807) && (-9223372036854775808 <=? z) then Some z else None
  | None => None
  end.

Fixpoint index_of (s : str) (l : list str) (i : N) : option N :=
  match l with
  | [] => None
  | x :: t => if str_eqb x s then Some i else index_of s t (i + 1)%N
  end.

(* ---- constants ---- *)
Definition sOff : str := [79; 102; 102]%N.
Definition sYes : str := [89; 101; 115]%N.

(* ---- PDF side ---- *)
Inductive cbas := ASNone | ASYes (yes : str) | ASErr.       (* /AS absent | CalcCheckBoxASNames yes name | its error *)
Inductive lbv := LNone | LStr (s : str) | LArr (l : list str).  (* /V of a list box: absent | string | array *)

Inductive pfield :=
| PTx (id name : str) (locked multiline : bool) (maxlen : Z) (jsfmt : option str) (v dv : option str)
| PCb (id name : str) (locked : bool) (v dv : option str) (asn : cbas)
| PRb (id name : str) (locked : bool) (rawopts : list str) (kids : list (option str)) (v dv : option str)
| PCo (id name : str) (locked : bool) (rawopts : list str) (v dv : option str)
| PLb (id name : str) (locked multi : bool) (rawopts : list str) (v dv : lbv).

Definition pid (f : pfield) : str :=
  match f with PTx i _ _ _ _ _ _ _ => i | PCb i _ _ _ _ _ => i | PRb i _ _ _ _ _ _ => i
             | PCo i _ _ _ _ _ => i | PLb i _ _ _ _ _ _ => i end.
Definition pname (f : pfield) : str :=
  match f with PTx _ n _ _ _ _ _ _ => n | PCb _ n _ _ _ _ => n | PRb _ n _ _ _ _ _ => n
             | PCo _ n _ _ _ _ => n | PLb _ n _ _ _ _ _ => n end.
Definition plocked (f : pfield) : bool :=
  match f with PTx _ _ l _ _ _ _ _ => l | PCb _ _ l _ _ _ => l | PRb _ _ l _ _ _ _ => l
             | PCo _ _ l _ _ _ => l | PLb _ _ l _ _ _ _ => l end.

(* ---- JSON side ---- *)
Inductive kind := KTx | KDt | KCb | KRb | KCo | KLb.
Definition kind_eqb (a b : kind) : bool :=
  match a, b with
  | KTx, KTx | KDt, KDt | KCb, KCb | KRb, KRb | KCo, KCo | KLb, KLb => true
  | _, _ => false
  end.

Inductive jfield :=
| JTx (id name dflt value : str) (maxlen : Z) (multiline locked : bool)
| JDt (id name fmt dflt value : str) (locked : bool)
| JCb (id name : str) (dflt value locked : bool)
| JRb (id name : str) (opts : list str) (dflt value : str) (locked : bool)
| JCo (id name : str) (editable : bool) (opts : list str) (dflt value : str) (locked : bool)
| JLb (id name : str) (multi : bool) (opts dflts values : list str) (locked : bool).

Definition jkind (e : jfield) : kind :=
  match e with JTx _ _ _ _ _ _ _ => KTx | JDt _ _ _ _ _ _ => KDt | JCb _ _ _ _ _ => KCb
             | JRb _ _ _ _ _ _ => KRb | JCo _ _ _ _ _ _ _ => KCo | JLb _ _ _ _ _ _ _ => KLb end.
Definition jid (e : jfield) : str :=
  match e with JTx i _ _ _ _ _ _ => i | JDt i _ _ _ _ _ => i | JCb i _ _ _ _ => i
             | JRb i _ _ _ _ _ => i | JCo i _ _ _ _ _ _ => i | JLb i _ _ _ _ _ _ => i end.
Definition jname (e : jfield) : str :=
  match e with JTx _ n _ _ _ _ _ => n | JDt _ n _ _ _ _ => n | JCb _ n _ _ _ => n
             | JRb _ n _ _ _ _ => n | JCo _ n _ _ _ _ _ => n | JLb _ n _ _ _ _ _ => n end.
Definition jlocked (e : jfield) : bool :=
  match e with JTx _ _ _ _ _ _ l => l | JDt _ _ _ _ _ l => l | JCb _ _ _ _ l => l
             | JRb _ _ _ _ _ l => l | JCo _ _ _ _ _ _ l => l | JLb _ _ _ _ _ _ l => l end.

(* the value a JSON entry carries, type-independently *)
Inductive jval := VStr (s : str) | VBool (b : bool) | VList (l : list str).
Definition jvalue (e : jfield) : jval :=
  match e with
  | JTx _ _ _ v _ _ _ => VStr v | JDt _ _ _ _ v _ => VStr v | JCb _ _ _ v _ => VBool v
  | JRb _ _ _ _ v _ => VStr v | JCo _ _ _ _ _ v _ => VStr v | JLb _ _ _ _ _ vs _ => VList vs
  end.
Definition jvalue_str (e : jfield) : str := match jvalue e with VStr s => s | _ => [] end.
Definition jvalue_bool (e : jfield) : bool := match jvalue e with VBool b => b | _ => false end.
Definition jvalue_list (e : jfield) : list str := match jvalue e with VList l => l | _ => [] end.

(* Form.textFieldValueAndLock & co.: first entry of the field type's list with ID == id || Name == name *)
Definition jmatch (k : kind) (id name : str) (e : jfield) : bool :=
  kind_eqb (jkind e) k && (str_eqb (jid e) id || str_eqb (jname e) name).
Definition lookup (k : kind) (id name : str) (j : list jfield) : option jfield := find (jmatch k id name) j.

Definition ostr (o : option str) : str := match o with Some s => s | None => [] end.

(* form.go extractStringSlice / parseOptions: trimmed, empty entries dropped *)
Definition parse_options (raw : list str) : list str :=
  filter (fun s => negb (is_nil s)) (map trim_space raw).

(* form.go parseStringLiteralArray *)
Definition parse_sla (v : lbv) : list str :=
  match v with LNone => [] | LStr s => [s] | LArr l => parse_options l end.

(* export.go extractRadioButtonGroupOptions (kid = its single non-Off appearance state) *)
Fixpoint kid_options (kids : list (option str)) (acc : list str) : list str :=
  match kids with
  | [] => acc
  | None :: t => kid_options t acc
  | Some k :: t => if str_eqb k sOff || mem k acc then kid_options t acc else kid_options t (acc ++ [k])
  end.
Definition rb_options (rawopts : list str) (kids : list (option str)) : list str * bool :=
  let o := parse_options rawopts in
  if is_nil o then (kid_options kids [], false) else (o, true).

(* export.go resolveOption *)
Definition resolve_option (n : str) (opts : list str) (explicit : bool) : res str :=
  if negb (is_nil opts) && explicit then
    match atoi n with
    | None => Err
    | Some j => if (j <? 0) || (j >=? Z.of_nat (length opts)) then Err
                else Ok (nth (Z.to_nat j) opts [])
    end
  else Ok n.

(* export.go extractCheckBox: cb.Value = len(n) > 0 && n != "Off" *)
Definition cb_on (v : option str) : bool :=
  match v with Some n => negb (is_nil n) && negb (str_eqb n sOff) | None => false end.

Section WithDateDetection.
(* primitives.DateFormatForDate(s): the Ext of the first date format s parses under, if any *)
Variable datefmt : str -> option str.

(* export.go extractDateFormat *)
Definition tx_format (jsfmt v dv : option str) : option str :=
  match jsfmt with
  | Some f => Some f
  | None =>
    match (match dv with Some s => datefmt s | None => None end) with
    | Some f => Some f
    | None => match v with Some s => datefmt s | None => None end
    end
  end.

(* export.go exportTx/extractTextField/extractDateField, exportBtn/…, exportCh/… *)
Definition export_field (f : pfield) : res jfield :=
  match f with
  | PTx id name locked ml maxlen jsfmt v dv =>
    match tx_format jsfmt v dv with
    | Some fmt => Ok (JDt id name fmt (ostr dv) (ostr v) locked)
    | None => Ok (JTx id name (ostr dv) (ostr v) maxlen ml locked)
    end
  | PCb id name locked v dv _ =>
    Ok (JCb id name (match dv with Some n => negb (str_eqb n sOff) | None => false end) (cb_on v) locked)
  | PRb id name locked rawopts kids v dv =>
    let (opts, explicit) := rb_options rawopts kids in
    match (match dv with Some s => resolve_option s opts explicit | None => Ok [] end) with
    | Err => Err
    | Ok d =>
      match (match v with Some s => resolve_option s opts explicit | None => Ok [] end) with
      | Err => Err
      | Ok n => Ok (JRb id name opts d (if str_eqb n sOff then [] else n) locked)
      end
    end
  | PCo id name locked rawopts v dv =>
    Ok (JCo id name false (parse_options rawopts) (trim_space (ostr dv)) (trim_space (ostr v)) locked)
  | PLb id name locked multi rawopts v dv =>
    let one x := match x with LStr s => [trim_space s] | _ => [] end in
    if multi then Ok (JLb id name multi (parse_options rawopts) (parse_sla dv) (parse_sla v) locked)
    else Ok (JLb id name multi (parse_options rawopts) (one dv) (one v) locked)
  end.

Fixpoint export_form (fs : list pfield) : res (list jfield) :=
  match fs with
  | [] => Ok []
  | f :: t =>
    match export_field f with
    | Err => Err
    | Ok e => match export_form t with Err => Err | Ok r => Ok (e :: r) end
    end
  end.

(* ---- fill ---- *)
(* result: (something changed — the *ok flag, new field state) *)

(* fill.go fillTx -> fillDateField / fillTextField *)
Definition fill_tx (j : list jfield) id name locked ml maxlen jsfmt v dv : res (bool * pfield) :=
  let k := match tx_format jsfmt v dv with Some _ => KDt | None => KTx end in
  match lookup k id name j with
  | None => Ok (false, PTx id name locked ml maxlen jsfmt v dv)
  | Some e =>
    let lock := jlocked e in
    let c1 := xorb locked lock in
    let vNew := jvalue_str e in
    if str_eqb vNew (ostr v) then Ok (c1, PTx id name lock ml maxlen jsfmt v dv)
    else Ok (true, PTx id name lock ml maxlen jsfmt (Some vNew) dv)
  end.

(* fill.go fillCheckBox *)
Definition fill_cb (j : list jfield) id name locked v dv asn : res (bool * pfield) :=
  match lookup KCb id name j with
  | None => Ok (false, PCb id name locked v dv asn)
  | Some e =>
    let lock := jlocked e in
    let c1 := xorb locked lock in
    let vNew := jvalue_bool e in
    if Bool.eqb vNew (cb_on v) then Ok (c1, PCb id name lock v dv asn)
    else
      match asn with
      | ASNone => Ok (true, PCb id name lock (Some (if vNew then sYes else sOff)) dv asn)
      | ASYes y => Ok (true, PCb id name lock (Some (if vNew then y else sOff)) dv asn)
      | ASErr => Err
      end
  end.

(* fill.go fillBtn -> fillRadioButtonGroup *)
Definition fill_rb (j : list jfield) id name locked rawopts kids v dv : res (bool * pfield) :=
  match lookup KRb id name j with
  | None => Ok (false, PRb id name locked rawopts kids v dv)
  | Some e =>
    let lock := jlocked e in
    let c1 := xorb locked lock in
    let opts := parse_options rawopts in
    let v0 := jvalue_str e in
    let vNew := match index_of v0 opts 0%N with Some i => itoa i | None => v0 end in
    let vOld := match v with Some n => if str_eqb n sOff then [] else n | None => [] end in
    if str_eqb vNew vOld then Ok (c1, PRb id name lock rawopts kids v dv)
    else Ok (true, PRb id name lock rawopts kids (Some vNew) dv)
  end.

(* fill.go fillCh -> fillComboBox *)
Definition fill_co (j : list jfield) id name locked rawopts v dv : res (bool * pfield) :=
  match lookup KCo id name j with
  | None => Ok (false, PCo id name locked rawopts v dv)
  | Some e =>
    let lock := jlocked e in
    let c1 := xorb locked lock in
    let opts := parse_options rawopts in
    let vNew := jvalue_str e in
    if str_eqb vNew (ostr v) then Ok (c1, PCo id name lock rawopts v dv)
    else if mem vNew opts then Ok (true, PCo id name lock rawopts (Some vNew) dv)
    else Ok (true, PCo id name lock rawopts None dv)
  end.

(* fill.go fillCh -> fillListBox / updateListBoxValues *)
Definition fill_lb (j : list jfield) id name (locked multi : bool) rawopts (v dv : lbv) : res (bool * pfield) :=
  match lookup KLb id name j with
  | None => Ok (false, PLb id name locked multi rawopts v dv)
  | Some e =>
    let lock := jlocked e in
    let opts := parse_options rawopts in
    let vNew := jvalue_list e in
    let vOld := if multi then parse_sla v else match v with LStr s => [s] | _ => [] end in
    if locked then Ok (negb lock, PLb id name lock multi rawopts v dv)   (* early return: values untouched *)
    else if strs_eqb vOld vNew then Ok (lock, PLb id name lock multi rawopts v dv)
    else if multi then
      Ok (true, PLb id name lock multi rawopts (if is_nil vNew then LNone else LArr vNew) dv)
    else
      match vNew with
      | [] => Ok (true, PLb id name lock multi rawopts LNone dv)   (* deselect: /I and /V deleted *)
      | x :: _ => Ok (true, PLb id name lock multi rawopts (if mem x opts then LStr x else LNone) dv)
      end
  end.

Definition fill_field (j : list jfield) (f : pfield) : res (bool * pfield) :=
  match f with
  | PTx id name locked ml maxlen jsfmt v dv => fill_tx j id name locked ml maxlen jsfmt v dv
  | PCb id name locked v dv asn => fill_cb j id name locked v dv asn
  | PRb id name locked rawopts kids v dv => fill_rb j id name locked rawopts kids v dv
  | PCo id name locked rawopts v dv => fill_co j id name locked rawopts v dv
  | PLb id name locked multi rawopts v dv => fill_lb j id name locked multi rawopts v dv
  end.

(* fill.go FillForm / fillWidgetAnnots: every field once, first error aborts *)
Fixpoint fill_form (j : list jfield) (fs : list pfield) : res (bool * list pfield) :=
  match fs with
  | [] => Ok (false, [])
  | f :: t =>
    match fill_field j f with
    | Err => Err
    | Ok (c, f') =>
      match fill_form j t with
      | Err => Err
      | Ok (c', t') => Ok (c || c', f' :: t')
      end
    end
  end.

(* api/form.go validOptionValue *)
Definition valid_option_value (v : str) (opts : list str) : bool :=
  mem v opts ||
  match atoi v with Some i => (0 <=? i) && (i <? Z.of_nat (length opts)) | None => false end.

(* api/form.go validateRadioButtonGroupValues / validateComboBoxValues / validateListBoxValues *)
Definition validate_field (e : jfield) : bool :=
  match e with
  | JRb _ _ opts _ value _ => is_nil value || is_nil opts || valid_option_value value opts
  | JCo _ _ editable opts _ value _ => is_nil value || editable || is_nil opts || valid_option_value value opts
  | JLb _ _ _ opts _ values _ => forallb (fun v => is_nil opts || valid_option_value v opts) values
  | _ => true
  end.

(* api.FillForm: validatedFillForm, then form.FillForm; ok = false is ErrNoFormFieldsAffected (nothing written) *)
Definition api_fill (fs : list pfield) (j : list jfield) : res (bool * list pfield) :=
  if forallb validate_field j then fill_form j fs else Err.

End WithDateDetection.
