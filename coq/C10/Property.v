(* C10 — Cancelling a read stops it promptly with the cancellation error.
   Property theorems only.  The model (C10/Model.v) is the control skeleton of
   pdfcpu.ReadWithContext with respect to the polls of the Go context; a context is
   any function from poll index to the error returned (mono = the contract of
   context.Context.Err).  A shape describes one input document (how many xref
   sections, objects, dictionary keys, object streams ...) — all theorems hold
   for every shape, i.e. the bounds do not depend on the size of the input. *)
From Coq Require Import NArith List.
From PV Require Import Lib.GoInt C10.Model C10.Proofs C10.ProofsRead.
Import ListNotations.
Open Scope N_scope.

(* An already-cancelled context: the read makes exactly one poll, returns the context's
   error and no document — unless the input is rejected before the first poll
   (header / startxref), in which case that input error is returned; never a document. *)
Theorem C10_precancelled_fails : forall s poll e, s_sections s <> [] -> poll 0 = Some e ->
  read poll s = if s_prefail s then (InErr, st0) else (CtxErr e, mkst 1 1).
Proof. exact precancelled_fails. Qed.
Print Assumptions C10_precancelled_fails.

(* Cancelling at any time: the read either finishes — and then no poll ever saw the
   cancellation — or returns the context's error (an input error only from the pre-checks).
   s_entries <> []: the xref table always has entry 0. *)
Theorem C10_cancel_any_time : forall s poll e, mono poll ->
  (forall i e', poll i = Some e' -> e' = e) -> s_entries s <> [] ->
  forall o st, read poll s = (o, st) ->
  (o = Done /\ late st = 0) \/ o = CtxErr e \/ (o = InErr /\ s_prefail s = true).
Proof. exact cancel_any_time. Qed.
Print Assumptions C10_cancel_any_time.

(* FULL statement wanted: forall s, late polls <= stage_bound (work after the cancellation
   became visible is bounded by the number of enclosing stages, not by the input).
   It is REFUTED for relaxed reads whose xref chain has an xref stream (below); proved for
   every other shape. *)
Theorem C10_late_polls_bounded_partial : forall s poll, mono poll -> repair_swallows s = false ->
  late (snd (read poll s)) <= stage_bound.
Proof. exact late_polls_bounded_partial. Qed.
Print Assumptions C10_late_polls_bounded_partial.

(* Defect (read.go parseXRefStreamOrRepair + processObject): for every n there is a document
   and a cancellation point after which the read still makes more than n polls that all see
   the cancelled context: the context error starts the xref repair, which swallows it once
   per object of the file. *)
Theorem C10_late_polls_refuted : forall e n, exists s k,
  repair_swallows s = true /\ mono (flip_at (Some k) e) /\
  N.of_nat n < late (snd (read (flip_at (Some k) e) s)).
Proof. exact late_polls_refuted. Qed.
Print Assumptions C10_late_polls_refuted.

(* non-vacuity *)
Example C10_nonvacuous :
  let s := mkshape true false false [STable 3] [] 0 [mkos (mkfo 0 2 0 false) 4]
                   [EFree; EParse (mkfo 1 3 1 false); ECached] in
  mono (flip_at (Some 7) 9) /\ repair_swallows s = false /\
  read (flip_at None 9) s = (Done, mkst 23 0) /\
  read (flip_at (Some 16) 9) s = (CtxErr 9, mkst 19 3) /\
  read (flip_at (Some 0) 9) s = (CtxErr 9, mkst 1 1).
Proof. split; [apply flip_at_mono|]. vm_compute. repeat split. Qed.
