(* C11 — Any PDF object pdfcpu writes parses back to the same object.
   Property theorems only; each is closed by an exact lemma and followed by Print Assumptions.

   Vocabulary (Model.v): obj = null | bool | int | real (sign, mantissa, 10^e) | name | literal string
   (raw content) | hex string | reference | array | dict (key-ordered entry list of a Go map);
   print_S = the PDFString printers of pkg/pdfcpu/types; print_A = appendPDFObject of
   writeObjects_pdf.go; parse_top maxDepth level = model.ParseObjectContext (strict, then relaxed),
   fuelled by 2*len+2; wf = the property's domain (ints and reference numbers in int64, finite reals
   at 12 fractional digits, names without NUL, literal strings whose last parenthesis closes the
   first (what types.Escape produces), hex strings made of hex digits, dict keys distinct names);
   norm = what is read back (hex strings upper-cased and padded to even length, dict entries with a
   null value dropped); residue = the blank that the writer puts behind the empty name "/ " stays
   unread; follow = the text behind the object starts a new token and cannot turn a written
   integer into "n g R". *)
From Coq Require Import NArith ZArith List Bool.
From PV Require Import Lib.GoInt C11.Model C11.Proofs.
Import ListNotations.
Open Scope N_scope.

(* For every well-formed object tree within the parser's depth limit, at any nesting level, in strict
   mode or after the relaxed retry, whatever follows it (subject to [follow]): the text written by the
   PDFString printers parses back to the normalised object and leaves exactly the continuation. *)
Theorem C11_parse_print_roundtrip : forall o maxd level rest,
  wf o = true -> (level + depth o <= eff_depth maxd)%Z -> follow rest = true ->
  parse_top maxd level (print_S o ++ rest) = POk (norm o) (residue o ++ rest).
Proof. exact roundtrip_S. Qed.
Print Assumptions C11_parse_print_roundtrip.

(* The same for the object-writer path (appendPDFObject). *)
Theorem C11_parse_append_roundtrip : forall o maxd level rest,
  wf o = true -> (level + depth o <= eff_depth maxd)%Z -> follow rest = true ->
  parse_top maxd level (print_A o ++ rest) = POk (norm o) (residue o ++ rest).
Proof. exact roundtrip_A. Qed.
Print Assumptions C11_parse_append_roundtrip.

(* [follow] holds at the end of the buffer and in front of any of / < ( [ ] > *)
Theorem C11_follow_simple : forall rest,
  match rest with [] => True | c :: _ => in_set set_num2 c = true end -> follow rest = true.
Proof. exact follow_simple. Qed.
Print Assumptions C11_follow_simple.

(* What types.Escape returns is always a well-formed literal string content. *)
Theorem C11_escape_output_wf : forall s, wf (OStr (escape s)) = true.
Proof. exact escape_output_wf. Qed.
Print Assumptions C11_escape_output_wf.

(* The finiteness bound in wf is needed: a decimal at the float64 overflow threshold reads back as null. *)
Theorem C11_real_bound_needed :
  parse_top 0 0 (print_S (OReal false (Z.to_N f64_over * pow12) (-12))) = POk ONull [].
Proof. exact real_bound_needed. Qed.
Print Assumptions C11_real_bound_needed.

(* NOT proved here (tested by the harness only): parser_total (parse_top never runs out of fuel on
   arbitrary bytes; the glue would print OUT-OF-FUEL and the correspondence check would fail) and
   depth_bounded. *)

(* non-vacuity: a tree with every kind, nested, satisfies the hypotheses; the normalisations are visible *)
Definition ex_tree : obj :=
  ODict [ ([65], OArr [OInt 1; OInt 0; OName [82]; ORef 1 0; OInt (-5); OReal true 500000000000 (-12); OName []; ONull]);
          ([66; 32], OStr [40; 92; 41; 41]);
          ([67], OHex [97; 98; 99]);
          ([68], ONull);
          ([], ODict [([35], OBool true)]) ].
Example C11_nonvacuous :
  wf ex_tree = true /\ (0 + depth ex_tree <=? eff_depth 0)%Z = true /\ follow [] = true /\ follow [93] = true
  /\ print_S ex_tree =
     [60;60;47;65;91;49;32;48;47;82;32;49;32;48;32;82;32;45;53;32;45;48;46;53;48;48;48;48;48;48;48;48;48;48;48;47;32;32;110;117;108;108;93;
      47;66;35;50;48;40;40;92;41;41;41;47;67;60;97;98;99;62;47;68;32;110;117;108;108;47;60;60;47;35;50;51;32;116;114;117;101;62;62;62;62]
  /\ norm ex_tree =
     ODict [ ([65], OArr [OInt 1; OInt 0; OName [82]; ORef 1 0; OInt (-5); OReal true 500000000000 (-12); OName []; ONull]);
             ([66; 32], OStr [40; 92; 41; 41]); ([67], OHex [65; 66; 67; 48]); ([], ODict [([35], OBool true)]) ]
  /\ parse_top 0 0 (print_S ex_tree) = POk (norm ex_tree) []
  /\ wf (OStr [40]) = false /\ wf (OName [0]) = false /\ wf (OHex [103]) = false
  /\ follow [32; 48; 32; 82] = false /\ parse_top 0 0 ([49] ++ [32; 48; 32; 82]) = POk (ORef 1 0) [].
Proof. vm_compute. repeat split; reflexivity. Qed.
