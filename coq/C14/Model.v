(* C14 — model of pkg/pdfcpu/types/date.go: DateString and the strict DateTime
   (relaxed = false).  Hand-written, executable, NO proofs.

   Conventions.  A Go string is a list of bytes (N).  Go ints are Z (the 64-bit
   wrap-around is not modelled: every integer that occurs is either bounded by
   the Atoi range check or a small product of such values; time-zone fields
   whose magnitude exceeds 2^31 are outside the model).
   A time.Time is modelled by the civil record it was built from
   (year, month, day, hour, minute, second, zone offset in seconds east of UTC);
   the time package (civil <-> instant, FixedZone, Zone) is trusted.  The only
   piece of package time that is modelled concretely is the day-of-month
   validation `time.Date(y, m+1, 0, ...).Day()` (days_in_month below) and, for
   the correspondence harness only, the civil -> Unix-seconds map (unix_of). *)
From Coq Require Import ZArith NArith List Bool.
From PV Require Import Lib.GoInt.
Import ListNotations.
Open Scope Z_scope.

(* coff is what `_, tz := t.Zone()` returns: the offset in effect AT THE INSTANT t in t's Location.
   For FixedZone/UTC it is a constant of the Location; for time.Local (or any zone with DST or
   historical changes) it is a function of the instant AND the location.  DateString must read it
   per call at t (see DateStringAt below); the harness supplies it from an independent zone lookup. *)
Record civil := Civil { cy : Z; cmo : Z; cd : Z; ch : Z; cmi : Z; cs : Z; coff : Z }.

(* byte constants *)
Definition b_D : N := 68%N.      (* 'D' *)
Definition b_colon : N := 58%N.  (* ':' *)
Definition b_plus : N := 43%N.   (* '+' *)
Definition b_minus : N := 45%N.  (* '-' *)
Definition b_Z : N := 90%N.      (* 'Z' *)
Definition b_apos : N := 39%N.   (* '\'' *)
Definition b_sp : N := 32%N.     (* ' ' *)
Definition b_0 : N := 48%N.      (* '0' *)

(* ------------------------------------------------------------------ *)
(* fmt.Sprintf("%0Wd", x)                                              *)

Definition digit_char (d : Z) : N := Z.to_N (48 + d).

(* decimal digits of x >= 0, most significant first; fuel = max number of digits *)
Fixpoint digits_fuel (fuel : nat) (x : Z) : list N :=
  match fuel with
  | O => []
  | S f => if x <? 10 then [digit_char x]
           else digits_fuel f (x / 10) ++ [digit_char (x mod 10)]
  end.
(* 20 > number of decimal digits of any 64-bit integer *)
Definition digits (x : Z) : list N := digits_fuel 20 x.

(* fmt: %0Wd — zero padding to width W, the sign counts towards the width *)
Definition fmt0 (w : nat) (x : Z) : list N :=
  if x <? 0 then
    let ds := digits (- x) in b_minus :: repeat b_0 ((w - 1) - length ds) ++ ds
  else
    let ds := digits x in repeat b_0 (w - length ds) ++ ds.

(* date.go: DateString.
   _, tz := t.Zone(); tzm := tz / 60 (Go division truncates: Z.quot);
   sign/abs; Sprintf("D:%04d%02d%02d%02d%02d%02d%s%02d'%02d'", ..., sign, tzm/60, tzm%60) *)
Definition DateString (t : civil) : list N :=
  let tz := coff t in
  let tzm0 := Z.quot tz 60 in
  let sign := if tzm0 <? 0 then b_minus else b_plus in
  let tzm := if tzm0 <? 0 then - tzm0 else tzm0 in
  [b_D; b_colon] ++ fmt0 4 (cy t) ++ fmt0 2 (cmo t) ++ fmt0 2 (cd t)
    ++ fmt0 2 (ch t) ++ fmt0 2 (cmi t) ++ fmt0 2 (cs t)
    ++ [sign] ++ fmt0 2 (Z.quot tzm 60) ++ [b_apos] ++ fmt0 2 (Z.rem tzm 60) ++ [b_apos].

(* ------------------------------------------------------------------ *)
(* strconv.Atoi: optional sign, at least one decimal digit, value in int64 *)

Definition char_digit (b : N) : option Z :=
  if (48 <=? b)%N && (b <=? 57)%N then Some (Z.of_N b - 48) else None.

Fixpoint atoi_digits (acc : Z) (l : list N) : option Z :=
  match l with
  | [] => Some acc
  | b :: r => match char_digit b with
              | Some d => atoi_digits (acc * 10 + d) r
              | None => None
              end
  end.

Definition atoi_body (neg : bool) (r : list N) : option Z :=
  match r with
  | [] => None
  | _ => match atoi_digits 0 r with
         | Some v => let v' := if neg then - v else v in
                     if (minS 64 <=? v') && (v' <=? maxS 64) then Some v' else None
         | None => None
         end
  end.

Definition atoi (l : list N) : option Z :=
  match l with
  | [] => None
  | b :: r => if (b =? b_minus)%N then atoi_body true r
              else if (b =? b_plus)%N then atoi_body false r
              else atoi_body false l
  end.

(* ------------------------------------------------------------------ *)
(* string helpers *)

Definition slice (a b : nat) (l : list N) : list N := firstn (b - a) (skipn a l).  (* s[a:b] *)
Definition is_nil (l : list N) : bool := match l with [] => true | _ => false end.

Fixpoint has_prefix (p l : list N) : bool :=
  match p, l with
  | [], _ => true
  | a :: p', b :: l' => (a =? b)%N && has_prefix p' l'
  | _ :: _, [] => false
  end.
Definition trim_prefix (p l : list N) : list N :=
  if has_prefix p l then skipn (length p) l else l.

(* strings.TrimRight(s, "\x00") *)
Fixpoint trim_right0 (l : list N) : list N :=
  match l with
  | [] => []
  | b :: r => let r' := trim_right0 r in
              if is_nil r' && (b =? 0)%N then [] else b :: r'
  end.

(* strings.Split(s, sep) for a one-byte separator: never empty *)
Fixpoint split_on (sep : N) (l : list N) : list (list N) :=
  match l with
  | [] => [[]]
  | b :: r => if (b =? sep)%N then [] :: split_on sep r
              else match split_on sep r with
                   | [] => [[b]]           (* unreachable *)
                   | h :: t => (b :: h) :: t
                   end
  end.

(* ------------------------------------------------------------------ *)
(* date.go: prevalidateDate(s, false) *)

Inductive pre := PreUtf16 | PreFail | PreOk (s : list N).

Definition prevalidate_strict (s : list N) : pre :=
  if has_prefix [254%N; 255%N] s then PreUtf16   (* IsStringUTF16BE: DecodeUTF16String is outside this model *)
  else
    let s := trim_prefix [239%N; 187%N; 191%N] s in
    let s := trim_right0 s in
    if (length s <? 6)%nat then PreFail
    else if has_prefix [b_D; b_colon] s then PreOk (skipn 2 s) else PreFail.

(* (value, finished, ok) of the field parsers *)
Inductive step := Fail | Fin (v : Z) | More (v : Z).

Definition len_step (n k : nat) (v : Z) : step :=
  if (n =? k)%nat then Fin v else if (n =? S k)%nat then Fail else More v.

(* parseYear *)
Definition parseYear (s : list N) : step :=
  match atoi (slice 0 4 s) with
  | None => Fail
  | Some y => len_step (length s) 4 y
  end.

(* parseMonth *)
Definition parseMonth (s : list N) : step :=
  match atoi (slice 4 6 s) with
  | None => Fail
  | Some m => if (m <? 1) || (12 <? m) then Fail else len_step (length s) 6 m
  end.

(* isLeap of package time *)
Definition is_leap (y : Z) : bool :=
  (y mod 4 =? 0) && (negb (y mod 100 =? 0) || (y mod 400 =? 0)).

(* time.Date(y, time.Month(m+1), 0, 0,0,0,0, UTC).Day() for 1 <= m <= 12 *)
Definition days_in_month (y m : Z) : Z :=
  if m =? 2 then (if is_leap y then 29 else 28)
  else if (m =? 4) || (m =? 6) || (m =? 9) || (m =? 11) then 30
  else 31.

(* parseDay *)
Definition parseDay (s : list N) (y m : Z) : step :=
  match atoi (slice 6 8 s) with
  | None => Fail
  | Some d => if (d <? 1) || (31 <? d) then Fail
              else if days_in_month y m <? d then Fail
              else len_step (length s) 8 d
  end.

(* parseHour: only h > 23 is rejected *)
Definition parseHour (s : list N) : step :=
  match atoi (slice 8 10 s) with
  | None => Fail
  | Some h => if 23 <? h then Fail else len_step (length s) 10 h
  end.

(* parseMinute *)
Definition parseMinute (s : list N) : step :=
  match atoi (slice 10 12 s) with
  | None => Fail
  | Some mi => if 59 <? mi then Fail else len_step (length s) 12 mi
  end.

Definition timezoneSeparator (c : N) : bool :=
  (c =? b_plus)%N || (c =? b_minus)%N || (c =? b_Z)%N.

(* parseSecond: (sec, finished, off, ok) *)
Inductive sstep := SFail | SFin (v : Z) | SMore (v : Z) (off : nat).

Definition parseSecond (s : list N) : sstep :=
  let short := timezoneSeparator (nth 13 s 0%N) in
  let second := if short then slice 12 13 s else slice 12 14 s in
  let off := if short then 13%nat else 14%nat in
  match atoi second with
  | None => SFail
  | Some sec => if 59 <? sec then SFail
                else if (length s =? 14)%nat then SFin sec else SMore sec off
  end.

(* parseTimezoneHours *)
Definition parseTimezoneHours (s : list N) (o : N) : option Z :=
  match atoi s with
  | None => None
  | Some tzh0 => let tzh := Z.rem tzh0 24 in
                 if (o =? b_Z)%N && negb (tzh =? 0) then None else Some tzh
  end.

(* parseTimezoneMinutes *)
Definition parseTimezoneMinutes (s : list N) (o : N) : option Z :=
  match atoi s with
  | None => None
  | Some tzm => if 59 <? tzm then None
                else if (o =? b_Z)%N && negb (tzm =? 0) then None else Some tzm
  end.

(* parseTimezone(s, off, false): Some (h, m) or None *)
Definition parseTimezone (s : list N) (off : nat) : option (Z * Z) :=
  let o := nth off s 0%N in
  if negb (timezoneSeparator o) || (length s =? S off)%nat then None   (* relaxed = false *)
  else
    let s1 := skipn (S off) s in
    if is_nil s1 then Some (0, 0)              (* emptyTimeZone(t, false): t == "" (both tests) *)
    else
      let s2 := match s1 with b :: r => if (b =? b_minus)%N then r else s1 | [] => s1 end in
      let s3 := map (fun b => if (b =? b_sp)%N then b_0 else b) s2 in
      match split_on b_apos s3 with
      | [] => None
      | a :: rest =>
        let neg := (o =? b_minus)%N in
        match parseTimezoneHours a o with
        | None => None
        | Some tzh0 =>
          let tzh := if neg then tzh0 * -1 else tzh0 in
          let minutes b :=
            match parseTimezoneMinutes b o with
            | None => None
            | Some tzm0 => Some (tzh, if neg then tzm0 * -1 else tzm0)
            end in
          match rest with
          | [] => Some (tzh, 0)
          | [b] => if is_nil b then Some (tzh, 0) else minutes b
          | b :: _ => minutes b
          end
        end
      end.

(* DateTime(s, false).  The result is the civil record handed to time.Date
   (UTC, i.e. offset 0, for the short forms, which are built by AddDate/Add).
   DUtf16: the input carries a UTF-16BE BOM (outside the model).
   digestPopularOutOfSpecDates (tried when the year is not a number) is modelled
   as failing: inputs matching one of its four time.Parse layouts are outside
   the model. *)
Inductive dres := DUtf16 | DErr | DOk (t : civil).

Definition DateTime (s0 : list N) : dres :=
  match prevalidate_strict s0 with
  | PreUtf16 => DUtf16
  | PreFail => DErr
  | PreOk s =>
    match parseYear s with
    | Fail => DErr
    | Fin y => DOk (Civil y 1 1 0 0 0 0)
    | More y =>
    match parseMonth s with
    | Fail => DErr
    | Fin m => DOk (Civil y m 1 0 0 0 0)
    | More m =>
    match parseDay s y m with
    | Fail => DErr
    | Fin d => DOk (Civil y m d 0 0 0 0)
    | More d =>
    match parseHour s with
    | Fail => DErr
    | Fin h => DOk (Civil y m d h 0 0 0)
    | More h =>
    match parseMinute s with
    | Fail => DErr
    | Fin mi => DOk (Civil y m d h mi 0 0)
    | More mi =>
    match parseSecond s with
    | SFail => DErr
    | SFin sec => DOk (Civil y m d h mi sec 0)
    | SMore sec off =>
    match parseTimezone s off with
    | None => DErr
    | Some (tzh, tzm) => DOk (Civil y m d h mi sec (tzh * 60 * 60 + tzm * 60))
    end end end end end end end
  end.

(* ------------------------------------------------------------------ *)
(* Harness-only: civil -> Unix seconds (proleptic Gregorian; month in 1..12,
   other fields arbitrary, normalised linearly as time.Date does).  Not used
   by any theorem; validated against package time by the correspondence run. *)
Definition days_from_civil (y m d : Z) : Z :=
  let y' := if m <=? 2 then y - 1 else y in
  let era := y' / 400 in
  let yoe := y' - era * 400 in
  let mp := if 2 <? m then m - 3 else m + 9 in
  let doy := (153 * mp + 2) / 5 + d - 1 in
  let doe := yoe * 365 + yoe / 4 - yoe / 100 + doy in
  era * 146097 + doe - 719468.

Definition unix_of (t : civil) : Z :=
  days_from_civil (cy t) (cmo t) (cd t) * 86400 + ch t * 3600 + cmi t * 60 + cs t - coff t.

(* ------------------------------------------------------------------ *)
(* Specification-side recogniser of the full ISO 32000-1 date form
   D:YYYYMMDDHHmmSSOHH'mm' (O in + - ; all fields in range, day valid for the
   month).  Independent of the parser above: fixed positions, digits only. *)
Definition dig (b : N) : option Z := char_digit b.
Definition num2 (a b : N) : option Z :=
  match dig a, dig b with Some x, Some y => Some (10 * x + y) | _, _ => None end.
Definition in_rng (lo hi : Z) (o : option Z) : bool :=
  match o with Some v => (lo <=? v) && (v <=? hi) | None => false end.

Definition iso_full_b (l : list N) : bool :=
  match l with
  | [p0; p1; y3; y2; y1; y0; m1; m0; d1; d0; h1; h0; i1; i0; s1; s0; sg; z1; z0; a1; w1; w0; a2] =>
    (p0 =? b_D)%N && (p1 =? b_colon)%N &&
    match num2 y3 y2, num2 y1 y0, num2 m1 m0, num2 d1 d0 with
    | Some yh, Some yl, Some m, Some d =>
        (1 <=? m) && (m <=? 12) && (1 <=? d) && (d <=? days_in_month (100 * yh + yl) m)
    | _, _, _, _ => false
    end &&
    in_rng 0 23 (num2 h1 h0) && in_rng 0 59 (num2 i1 i0) && in_rng 0 59 (num2 s1 s0) &&
    ((sg =? b_plus)%N || (sg =? b_minus)%N) &&
    in_rng 0 23 (num2 z1 z0) && (a1 =? b_apos)%N && in_rng 0 59 (num2 w1 w0) && (a2 =? b_apos)%N
  | _ => false
  end.

(* ------------------------------------------------------------------ *)
(* Specification vocabulary of the property (used by the theorem statements) *)

(* what package time guarantees for the civil fields of any time.Time *)
Definition valid_civil (t : civil) : Prop :=
  1 <= cmo t <= 12 /\ 1 <= cd t <= days_in_month (cy t) (cmo t) /\
  0 <= ch t <= 23 /\ 0 <= cmi t <= 59 /\ 0 <= cs t <= 59.

(* the quantifier of C14: year 0..9999, offset a whole number of minutes, |offset| < 24h *)
Definition in_scope (t : civil) : Prop :=
  0 <= cy t <= 9999 /\ valid_civil t /\ Z.rem (coff t) 60 = 0 /\ -86400 < coff t < 86400.

(* two / four decimal digits, zero padded *)
Definition dec2 (x : Z) : list N := [digit_char (x / 10); digit_char (x mod 10)].
Definition dec4 (x : Z) : list N :=
  [digit_char (x / 1000); digit_char (x / 100 mod 10); digit_char (x / 10 mod 10); digit_char (x mod 10)].

(* D:YYYYMMDDHHmmSSOHH'mm' *)
Definition iso_string (y mo d h mi s : Z) (sg : N) (zh zm : Z) : list N :=
  [b_D; b_colon] ++ dec4 y ++ dec2 mo ++ dec2 d ++ dec2 h ++ dec2 mi ++ dec2 s
    ++ [sg] ++ dec2 zh ++ [b_apos] ++ dec2 zm ++ [b_apos].

(* the offset (seconds east of UTC) denoted by sign byte, zone hours, zone minutes *)
Definition signed_off (sg : N) (zh zm : Z) : Z :=
  if (sg =? b_minus)%N then - (zh * 3600 + zm * 60) else zh * 3600 + zm * 60.

(* ------------------------------------------------------------------ *)
(* A time.Time as (instant, location).  Package time is a parameter: zone_offset l u is the offset
   in effect in location l at the instant u (Unix seconds) — t.Zone(); civil_fields u off is the civil
   reading of instant u at offset off — t.Year() ... t.Second().  DateString evaluates the offset
   AT u, in l: not at process start, not at any other instant. *)
Section Located.
  Variable Loc : Type.
  Variable zone_offset : Loc -> Z -> Z.
  Variable civil_fields : Z -> Z -> civil.
  Definition civil_at (l : Loc) (u : Z) : civil := civil_fields u (zone_offset l u).
  Definition DateStringAt (l : Loc) (u : Z) : list N := DateString (civil_at l u).
End Located.
