(* C38: page level — remove (add ct) is ct up to white space and one q/Q pair; detection. *)
From Coq Require Import List NArith Bool Lia.
From PV Require Import C38.Model C38.ProofsIndex C38.ProofsRemove.
Import ListNotations.
Open Scope N_scope.

(* ---- the statement's equivalence: equal up to white space and one enclosing q ... Q ---- *)
Definition is_ws (b : N) : bool := (b =? 32) || (b =? 10) || (b =? 13) || (b =? 9) || (b =? 12) || (b =? 0).
Definition all_ws (w : bytes) : Prop := forallb is_ws w = true.

(* new = ws orig ws   or   new = ws q ws+ orig ws+ Q ws : the original bytes survive verbatim and contiguously *)
Definition wrap_equiv (orig new : bytes) : Prop :=
  exists w1 w2, all_ws w1 /\ all_ws w2 /\
    (new = w1 ++ orig ++ w2 \/
     exists w3 w4, all_ws w3 /\ all_ws w4 /\ w3 <> [] /\ w4 <> [] /\
       new = w1 ++ [113] ++ w3 ++ orig ++ w4 ++ [81] ++ w2).

Definition s_sp2 : bytes := [32; 32].

(* the watermark bytes pdfcpu writes for matrix text mtx and resource names GS<x>, Fm<y> *)
Definition wmbb (mtx x y : bytes) : bytes := wm_content mtx (id_gs ++ x) (id_fm ++ y).

(* the page content after add + remove, as computed by the code *)
Definition expected_after (onTop : bool) (ct : contents) : contents :=
  let one c := if onTop then s_q_open ++ c ++ s_q_close ++ s_sp2 else s_sp2 ++ c in
  match ct with
  | CNone => CStream s_sp2
  | CStream c => CStream (one c)
  | CArray [] => CArray []
  | CArray [c] => CArray [one c]
  | CArray (c :: rest) =>
      if onTop then CArray ((s_q_open ++ c) :: rest ++ [s_q_close ++ s_sp2])
      else CArray ((s_sp2 ++ c) :: rest ++ [[]])
  end.

Definition nonempty_page (ct : contents) : bool :=
  match ct with CArray [] => false | _ => true end.

(* ---- building blocks ---- *)
Lemma noocc_of_clean c : negb (containsb marker c) = true -> noocc marker c.
Proof. intros H. apply containsb_false. apply negb_true_iff. exact H. Qed.

Lemma sf_open w : starts_free marker s_q_open w.
Proof. apply starts_free_marker_class. reflexivity. Qed.

Lemma sf_wrap c tail z : noocc marker c -> forallb (ne 47) tail = true ->
  starts_free marker (s_q_open ++ c ++ s_q_close ++ tail) z.
Proof.
  intros Hc Ht. apply starts_free_app; [apply sf_open|]. apply starts_free_app.
  - rewrite <- app_assoc. apply starts_free_marker_clean. exact Hc.
  - apply starts_free_marker_class. rewrite forallb_app. rewrite Ht. reflexivity.
Qed.

Lemma noocc_wrap c tail : noocc marker c -> forallb (ne 47) tail = true ->
  noocc marker (s_q_open ++ c ++ s_q_close ++ tail).
Proof.
  intros Hc Ht. apply noocc_app; [apply sf_open|]. apply noocc_app.
  - apply starts_free_marker_clean. exact Hc.
  - apply noocc_marker_class. rewrite forallb_app. rewrite Ht. reflexivity.
Qed.

Lemma noocc_pre u c : forallb (ne 47) u = true -> noocc marker c -> noocc marker (u ++ c).
Proof. intros Hu Hc. apply noocc_app; [apply starts_free_marker_class; exact Hu|exact Hc]. Qed.

Section Page.
  Variables mtx x y : bytes.
  Hypothesis Hok : wm_ok mtx x y = true.
  Let gs := id_gs ++ x.
  Let xo := id_fm ++ y.
  Let wm := wmbb mtx x y.

  Definition okres (c : bytes) : option rm_result :=
    Some {| rm_found := true; rm_content := c; rm_gs := [gs]; rm_fm := [xo] |}.

  (* stamp on a single / last stream *)
  Lemma rm_ontop_last c : noocc marker c ->
    remove_artifacts (patch_first true None wm c true) = okres (s_q_open ++ c ++ s_q_close ++ s_sp2).
  Proof.
    intros Hc. unfold patch_first, rot_bytes, wm, wmbb, wm_content. cbn [app].
    replace ((s_q_open ++ c) ++ s_q_close ++ s_sp ++ marker ++ wm_body mtx (id_gs ++ x) (id_fm ++ y) ++ emc ++ s_sp)
      with ((s_q_open ++ c ++ s_q_close ++ s_sp) ++ marker ++ wm_body mtx (id_gs ++ x) (id_fm ++ y) ++ emc ++ s_sp)
      by (repeat rewrite <- app_assoc; reflexivity).
    replace (s_q_open ++ c ++ s_q_close ++ s_sp2) with ((s_q_open ++ c ++ s_q_close ++ s_sp) ++ s_sp)
      by (repeat rewrite <- app_assoc; reflexivity).
    apply (remove_artifacts_block mtx x y Hok).
    - intros z. apply sf_wrap; [exact Hc|reflexivity].
    - repeat rewrite <- app_assoc. apply noocc_wrap; [exact Hc|reflexivity].
  Qed.

  (* watermark (background) in front of a stream *)
  Lemma rm_background c : noocc marker c ->
    remove_artifacts (patch_first false None wm c true) = okres (s_sp2 ++ c)
    /\ remove_artifacts (patch_first false None wm c false) = okres (s_sp2 ++ c).
  Proof.
    intros Hc. unfold patch_first, wm, wmbb, wm_content.
    assert (H : remove_artifacts ((s_sp ++ marker ++ wm_body mtx (id_gs ++ x) (id_fm ++ y) ++ emc ++ s_sp) ++ c)
                = okres (s_sp2 ++ c)).
    { replace ((s_sp ++ marker ++ wm_body mtx (id_gs ++ x) (id_fm ++ y) ++ emc ++ s_sp) ++ c)
        with (s_sp ++ marker ++ wm_body mtx (id_gs ++ x) (id_fm ++ y) ++ emc ++ (s_sp ++ c))
        by (repeat rewrite <- app_assoc; reflexivity).
      change (s_sp2 ++ c) with (s_sp ++ s_sp ++ c).
      apply (remove_artifacts_block mtx x y Hok).
      - intros z. apply starts_free_marker_class. reflexivity.
      - apply noocc_pre; [reflexivity|]. apply noocc_pre; [reflexivity|exact Hc]. }
    split; exact H.
  Qed.

  (* a page without content: the watermark is the whole stream *)
  Lemma rm_alone : remove_artifacts wm = okres s_sp2.
  Proof.
    unfold wm, wmbb, wm_content. change s_sp2 with (s_sp ++ s_sp).
    apply (remove_artifacts_block mtx x y Hok).
    - intros z. apply starts_free_marker_class. reflexivity.
    - apply noocc_marker_class. reflexivity.
  Qed.

  (* the stream appended to an array for a stamp *)
  Lemma rm_new_ontop : remove_artifacts (new_stream true None wm) = okres (s_q_close ++ s_sp2).
  Proof.
    unfold new_stream, wm, wmbb, wm_content.
    replace (s_q_close ++ s_sp ++ marker ++ wm_body mtx (id_gs ++ x) (id_fm ++ y) ++ emc ++ s_sp)
      with ((s_q_close ++ s_sp) ++ marker ++ wm_body mtx (id_gs ++ x) (id_fm ++ y) ++ emc ++ s_sp)
      by (repeat rewrite <- app_assoc; reflexivity).
    change (s_q_close ++ s_sp2) with ((s_q_close ++ s_sp) ++ s_sp).
    apply (remove_artifacts_block mtx x y Hok).
    - intros z. apply starts_free_marker_class. reflexivity.
    - apply noocc_marker_class. reflexivity.
  Qed.

  Lemma rm_first_ontop c : noocc marker c ->
    remove_artifacts (patch_first true None wm c false)
    = Some {| rm_found := false; rm_content := s_q_open ++ c; rm_gs := []; rm_fm := [] |}.
  Proof.
    intros Hc. unfold patch_first, rot_bytes. cbn [app]. apply remove_artifacts_clean.
    apply noocc_pre; [reflexivity|exact Hc].
  Qed.

  Lemma rm_new_background :
    remove_artifacts (new_stream false None wm)
    = Some {| rm_found := false; rm_content := []; rm_gs := []; rm_fm := [] |}.
  Proof. reflexivity. Qed.

  Lemma split_last_snoc (m : list bytes) l : split_last (m ++ [l]) = Some (m, l).
  Proof. unfold split_last. rewrite rev_app_distr. simpl. rewrite rev_involutive. reflexivity. Qed.

  Lemma split_last_in (a m : list bytes) l : split_last a = Some (m, l) -> a = m ++ [l].
  Proof.
    unfold split_last. intros H. destruct (rev a) as [|l' m'] eqn:Hr; [discriminate|]. inversion H; subst.
    rewrite <- (rev_involutive a), Hr. reflexivity.
  Qed.

  (* ---- the round trip on one page, exactly ---- *)
  Lemma page_roundtrip onTop ct : clean_page ct = true ->
    remove_page (add_page onTop None wm ct)
    = if nonempty_page ct then POk true (expected_after onTop ct) [gs] [xo]
      else POk false (CArray []) [] [].
  Proof.
    intros Hcl. destruct ct as [|c|a].
    - simpl. rewrite rm_alone. reflexivity.
    - simpl in Hcl. apply andb_true_iff in Hcl. destruct Hcl as [Hc _]. apply noocc_of_clean in Hc.
      destruct onTop; cbn [add_page remove_page nonempty_page expected_after].
      + rewrite (rm_ontop_last c Hc). reflexivity.
      + rewrite (proj1 (rm_background c Hc)). reflexivity.
    - destruct a as [|c rest]; [reflexivity|].
      simpl in Hcl. apply andb_true_iff in Hcl. destruct Hcl as [Hc _]. apply noocc_of_clean in Hc.
      destruct rest as [|c1 rest].
      + destruct onTop; cbn [add_page remove_page nonempty_page expected_after].
        * rewrite (rm_ontop_last c Hc). reflexivity.
        * rewrite (proj1 (rm_background c Hc)). reflexivity.
      + cbn [add_page nonempty_page expected_after].
        assert (Hrem : forall f l, remove_page (CArray (f :: (c1 :: rest) ++ [l])) =
                 match remove_artifacts f with
                 | None => PFuel
                 | Some r0 => match remove_artifacts l with
                              | None => PFuel
                              | Some r1 => POk (rm_found r0 || rm_found r1) (CArray (rm_content r0 :: (c1 :: rest) ++ [rm_content r1]))
                                             (rm_gs r0 ++ rm_gs r1) (rm_fm r0 ++ rm_fm r1)
                              end
                 end).
        { intros f l. cbn [remove_page app].
          destruct (remove_artifacts f) as [r0|]; [|reflexivity].
          change (c1 :: rest ++ [l]) with ((c1 :: rest) ++ [l]).
          rewrite split_last_snoc. reflexivity. }
        rewrite Hrem. destruct onTop.
        * rewrite (rm_first_ontop c Hc), rm_new_ontop. reflexivity.
        * rewrite (proj2 (rm_background c Hc)), rm_new_background. reflexivity.
  Qed.

  (* ---- page_bytes (expected_after ct) ~ page_bytes ct ---- *)
  Lemma join_cons_app (u c : bytes) (rest : list bytes) : join_streams ((u ++ c) :: rest) = u ++ join_streams (c :: rest).
  Proof. destruct rest; simpl; [reflexivity|]. rewrite <- app_assoc. reflexivity. Qed.

  Lemma join_snoc (a : list bytes) l : a <> [] -> join_streams (a ++ [l]) = join_streams a ++ 10 :: l.
  Proof.
    induction a as [|c a IH]; intros Hne; [contradiction|].
    destruct a as [|c' a]; [reflexivity|].
    change (join_streams ((c :: c' :: a) ++ [l])) with (c ++ 10 :: join_streams ((c' :: a) ++ [l])).
    rewrite IH by discriminate.
    change (join_streams (c :: c' :: a)) with (c ++ 10 :: join_streams (c' :: a)).
    rewrite <- app_assoc. reflexivity.
  Qed.

  Lemma equiv_one (onTop : bool) (c : bytes) :
    wrap_equiv c (if onTop then s_q_open ++ c ++ s_q_close ++ s_sp2 else s_sp2 ++ c).
  Proof.
    destruct onTop.
    - exists [32], [32; 32; 32]. split; [reflexivity|]. split; [reflexivity|]. right.
      exists [32], [32]. repeat split; try reflexivity; try discriminate.
      all: try (unfold s_q_open, s_q_close, s_sp2; repeat rewrite <- app_assoc; reflexivity).
    - exists s_sp2, []. split; [reflexivity|]. split; [reflexivity|]. left. rewrite app_nil_r. reflexivity.
  Qed.

  Lemma page_equiv onTop ct : wrap_equiv (page_bytes ct) (page_bytes (expected_after onTop ct)).
  Proof.
    destruct ct as [|c|a].
    - exists s_sp2, []. split; [reflexivity|]. split; [reflexivity|]. left. reflexivity.
    - apply equiv_one.
    - destruct a as [|c rest].
      + exists [], []. split; [reflexivity|]. split; [reflexivity|]. left. reflexivity.
      + destruct rest as [|c1 rest]; [apply equiv_one|].
        remember (c1 :: rest) as r eqn:Hr.
        assert (Hj : forall u l, page_bytes (CArray ((u ++ c) :: r ++ [l])) = u ++ join_streams (c :: r) ++ 10 :: l).
        { intros u l. cbn [page_bytes]. rewrite join_cons_app.
          change (c :: r ++ [l]) with ((c :: r) ++ [l]). rewrite join_snoc by discriminate. reflexivity. }
        unfold expected_after. rewrite Hr. rewrite <- Hr. destruct onTop.
        * rewrite Hj. cbn [page_bytes].
          exists [32], [32; 32; 32]. split; [reflexivity|]. split; [reflexivity|]. right.
          exists [32], [10; 32]. repeat split; try reflexivity; try discriminate.
          all: try (unfold s_q_open, s_q_close, s_sp2; repeat rewrite <- app_assoc; reflexivity).
        * change ([] : bytes) with ([] ++ [] : bytes) at 1. rewrite Hj. cbn [page_bytes].
          exists s_sp2, [10]. split; [reflexivity|]. split; [reflexivity|]. left. reflexivity.
  Qed.

  (* ---- detection ---- *)
  Lemma detect_wm_in a b : detect_artifacts (a ++ wm ++ b) = true.
  Proof.
    unfold detect_artifacts, wm, wmbb, wm_content.
    replace (a ++ (s_sp ++ marker ++ wm_body mtx (id_gs ++ x) (id_fm ++ y) ++ emc ++ s_sp) ++ b)
      with ((a ++ s_sp) ++ marker ++ (wm_body mtx (id_gs ++ x) (id_fm ++ y) ++ emc ++ s_sp ++ b))
      by (repeat rewrite <- app_assoc; reflexivity).
    apply containsb_occ.
  Qed.

  Lemma detect_one onTop c : detect_artifacts (patch_first onTop None wm c true) = true.
  Proof.
    destruct onTop; unfold patch_first, rot_bytes; cbn [app].
    - replace ((s_q_open ++ c) ++ s_q_close ++ wm) with ((s_q_open ++ c ++ s_q_close) ++ wm ++ [])
        by (rewrite app_nil_r; repeat rewrite <- app_assoc; reflexivity).
      apply detect_wm_in.
    - apply (detect_wm_in [] c).
  Qed.

  (* a page that received a watermark is detected, whatever its previous content *)
  Lemma detect_added onTop ct : nonempty_page ct = true -> detect_page (add_page onTop None wm ct) = true.
  Proof.
    intros Hne. destruct ct as [|c|a].
    - simpl. rewrite <- (app_nil_r wm). apply (detect_wm_in [] []).
    - apply detect_one.
    - destruct a as [|c rest]; [discriminate|]. destruct rest as [|c1 rest].
      + apply detect_one.
      + cbn [add_page].
        assert (Hd : forall f l, detect_page (CArray (f :: (c1 :: rest) ++ [l])) = detect_artifacts f || detect_artifacts l).
        { intros f l. cbn [detect_page app]. change (c1 :: rest ++ [l]) with ((c1 :: rest) ++ [l]).
          rewrite split_last_snoc. reflexivity. }
        rewrite Hd. destruct onTop.
        * unfold new_stream. rewrite <- (app_nil_r wm). rewrite (detect_wm_in s_q_close []). apply orb_true_r.
        * unfold patch_first. pose proof (detect_wm_in [] c) as Hw. cbn [app] in Hw. rewrite Hw. reflexivity.
  Qed.

  Lemma detect_clean ct : clean_page ct = true -> detect_page ct = false.
  Proof.
    intros Hcl. destruct ct as [|c|a]; [reflexivity| |].
    - simpl in Hcl. apply andb_true_iff in Hcl. destruct Hcl as [Hc _]. apply negb_true_iff in Hc. exact Hc.
    - destruct a as [|c rest]; [reflexivity|]. unfold clean_page, streams_of in Hcl.
      rewrite forallb_forall in Hcl.
      assert (Hc : detect_artifacts c = false).
      { apply negb_true_iff. apply Hcl. left. reflexivity. }
      destruct rest as [|c1 rest]; [exact Hc|]. cbn [detect_page]. rewrite Hc. simpl orb.
      destruct (split_last (c1 :: rest)) as [[m l]|] eqn:Hs; [|reflexivity].
      apply split_last_in in Hs. apply negb_true_iff. apply Hcl. right. rewrite Hs. apply in_or_app. right. left. reflexivity.
  Qed.

  (* nothing of the watermark is left in any stream *)
  Lemma after_clean onTop ct : clean_page ct = true -> clean_page (expected_after onTop ct) = true.
  Proof.
    intros Hcl. unfold clean_page in *. rewrite forallb_forall in *.
    assert (Hn : forall c, In c (streams_of ct) -> noocc marker c).
    { intros c Hin. apply noocc_of_clean. apply Hcl. exact Hin. }
    assert (Hone : forall c, noocc marker c ->
              negb (containsb marker (if onTop then s_q_open ++ c ++ s_q_close ++ s_sp2 else s_sp2 ++ c)) = true).
    { intros c Hc. apply negb_true_iff. apply containsb_false. destruct onTop.
      - apply noocc_wrap; [exact Hc|reflexivity].
      - apply noocc_pre; [reflexivity|exact Hc]. }
    intros s Hs. destruct ct as [|c|a].
    - simpl in Hs. destruct Hs as [<-|[]]. reflexivity.
    - simpl in Hs. destruct Hs as [<-|[]]. apply Hone. apply Hn. left. reflexivity.
    - destruct a as [|c rest]; [destruct Hs|]. destruct rest as [|c1 rest].
      + simpl in Hs. destruct Hs as [<-|[]]. apply Hone. apply Hn. left. reflexivity.
      + remember (c1 :: rest) as r eqn:Hr. unfold expected_after in Hs. rewrite Hr in Hs. rewrite <- Hr in Hs.
        destruct onTop; cbn [streams_of] in Hs; destruct Hs as [<-|Hs].
        * apply negb_true_iff. apply containsb_false. apply noocc_pre; [reflexivity|]. apply Hn. left. reflexivity.
        * apply in_app_or in Hs. destruct Hs as [Hs|[<-|[]]]; [|reflexivity].
          apply Hcl. right. exact Hs.
        * apply negb_true_iff. apply containsb_false. apply noocc_pre; [reflexivity|]. apply Hn. left. reflexivity.
        * apply in_app_or in Hs. destruct Hs as [Hs|[<-|[]]]; [|reflexivity].
          apply Hcl. right. exact Hs.
  Qed.

  (* removing from a clean page changes nothing and reports "not found" *)
  Lemma remove_clean_page ct : clean_page ct = true -> ct <> CNone -> remove_page ct = POk false ct [] [].
  Proof.
    intros Hcl Hne. unfold clean_page in Hcl. rewrite forallb_forall in Hcl.
    assert (Hn : forall c, In c (streams_of ct) ->
              remove_artifacts c = Some {| rm_found := false; rm_content := c; rm_gs := []; rm_fm := [] |}).
    { intros c Hin. apply remove_artifacts_clean. apply noocc_of_clean. apply Hcl. exact Hin. }
    destruct ct as [|c|a]; [contradiction| |].
    - simpl. rewrite Hn by (left; reflexivity). reflexivity.
    - destruct a as [|c rest]; [reflexivity|]. destruct rest as [|c1 rest].
      + simpl. rewrite Hn by (left; reflexivity). reflexivity.
      + cbn [remove_page]. rewrite Hn by (left; reflexivity).
        destruct (split_last (c1 :: rest)) as [[m l]|] eqn:Hs.
        * pose proof (split_last_in _ _ _ Hs) as Heq. rewrite Hn.
          -- cbn. rewrite <- Heq. reflexivity.
          -- right. rewrite Heq. apply in_or_app. right. left. reflexivity.
        * unfold split_last in Hs. destruct (rev (c1 :: rest)) eqn:Hr; [|discriminate].
          apply (f_equal (@rev bytes)) in Hr. rewrite rev_involutive in Hr. discriminate.
  Qed.
End Page.
