(* C20 glue: object graphs on the wire.
   obj   := n | T | F | i<hex> | r<hexbytes> | /<hexbytes> | s<hexbytes> | h<hexbytes>
          | R<hexnr>.<hexgen> | [ obj* ] | < (k<hexbytes> obj)* > | S < ... > (- | =<hexbytes>)
   graph := (#<hexnr> obj)*
   tokens are separated by single spaces. *)
open Model
open Common

let rest s = String.sub s 1 (String.length s - 1)

let rec parse_obj (toks : string list) : obj * string list =
  match toks with
  | [] -> failwith "eof"
  | t :: r ->
    if t = "n" then (ONull, r)
    else if t = "T" then (OBool true, r)
    else if t = "F" then (OBool false, r)
    else if t = "[" then parse_arr r []
    else if t = "<" then (let (d, r') = parse_dict r [] in (ODict d, r'))
    else if t = "S" then
      (match r with
       | "<" :: r1 ->
         let (d, r2) = parse_dict r1 [] in
         (match r2 with
          | "-" :: r3 -> (OStream (d, None), r3)
          | raw :: r3 when String.length raw > 0 && raw.[0] = '=' -> (OStream (d, Some (bytes_of_hex (rest raw))), r3)
          | _ -> failwith "stream raw")
       | _ -> failwith "stream")
    else match t.[0] with
      | 'i' -> (OInt (z_of_hex (rest t)), r)
      | 'r' -> (OFloat (bytes_of_hex (rest t)), r)
      | '/' -> (OName (bytes_of_hex (rest t)), r)
      | 's' -> (OStr (bytes_of_hex (rest t)), r)
      | 'h' -> (OHex (bytes_of_hex (rest t)), r)
      | 'R' -> (match String.split_on_char '.' (rest t) with
                | [a; b] -> (ORef (z_of_hex a, z_of_hex b), r)
                | _ -> failwith "ref")
      | _ -> failwith ("bad token " ^ t)
and parse_arr toks acc =
  match toks with
  | "]" :: r -> (OArr (List.rev acc), r)
  | _ -> let (o, r) = parse_obj toks in parse_arr r (o :: acc)
and parse_dict toks acc =
  match toks with
  | ">" :: r -> (List.rev acc, r)
  | k :: r when String.length k > 0 && k.[0] = 'k' ->
    let (o, r') = parse_obj r in parse_dict r' ((bytes_of_hex (rest k), o) :: acc)
  | _ -> failwith "dict"

let toks s = List.filter (fun x -> x <> "") (String.split_on_char ' ' s)

let obj_of_string s =
  match parse_obj (toks s) with (o, []) -> o | _ -> failwith "trailing tokens"

let graph_of_string s : z -> obj =
  let rec go ts acc = match ts with
    | [] -> acc
    | t :: r when String.length t > 0 && t.[0] = '#' ->
      let (o, r') = parse_obj r in go r' ((int_of_z (z_of_hex (rest t)), o) :: acc)
    | _ -> failwith "graph" in
  let l = go (toks s) [] in
  fun nr -> (try List.assoc (int_of_z nr) l with Not_found -> ONull)

let cmp_set = function
  | CT -> ["T"] | CF -> ["F"] | CE -> ["E"] | CFE -> ["F"; "E"] | CFuel -> ["fuel"]

let dispatch fn args = match fn, args with
  | "EqualObjects", [g; o1; o2; pairs; observed; limit] ->
    let lim = z_of_hex limit in
    let r = equalObjects (enoughFuel lim) lim (graph_of_string g) (obj_of_string o1) (obj_of_string o2) (zlist_of_string pairs) in
    let m = cmp_set r in
    let obs = List.filter (fun x -> x <> "") (String.split_on_char ',' observed) in
    if obs <> [] && List.for_all (fun x -> List.mem x m) obs then "consistent"
    else "MISMATCH model=" ^ String.concat "," m ^ " observed=" ^ observed
  | "Unfold", [g; o1; o2; n] ->
    let gr = graph_of_string g in
    str_of_bool (simb (nat_of_int (int_of_z (z_of_hex n))) gr (obj_of_string o1) gr (obj_of_string o2))
  | "ContentDup", [g; cached; nw; observed; limit] ->
    let lim = z_of_hex limit in
    let r = contentStreamDup (enoughFuel lim) lim (graph_of_string g) (obj_of_string cached) (obj_of_string nw) in
    let m = cmp_set r in
    let obs = List.filter (fun x -> x <> "") (String.split_on_char ',' observed) in
    if obs <> [] && List.for_all (fun x -> List.mem x m) obs then "consistent"
    else "MISMATCH model=" ^ String.concat "," m ^ " observed=" ^ observed
  | "Consolidate", [shared; pages] ->
    (* shared: name=objnr,... (hex name, hex nr); pages: used names per page, ';' separated *)
    let split c x = List.filter (fun y -> y <> "") (String.split_on_char c x) in
    let d = List.map (fun kv -> match String.split_on_char '=' kv with
        | [k; v] -> (bytes_of_hex k, z_of_hex v) | _ -> failwith "kv") (split ',' shared) in
    let id = z_of_int 5 in
    let st = fun i -> if int_of_z i = 5 then d else [] in
    let pgs = List.map (fun u -> (id, List.map bytes_of_hex (split ',' u))) (String.split_on_char ';' pages) in
    let (st', ds) = consolidateCloned st pgs in
    let show d = String.concat "," (List.map (fun (k, v) -> hex_of_bytes k ^ "=" ^ hex_of_z v) d) in
    show (st' id) ^ "|" ^ String.concat ";" (List.map show ds)
  | "FormDedup", [g; forms; limit] ->
    let (a, b) = formDedupCounts (z_of_hex limit) (graph_of_string g) (zlist_of_string forms) in
    string_of_int (int_of_nat a) ^ "," ^ string_of_int (int_of_nat b)
  | "UsedNames", [c] ->
    (match used_names (bytes_of_hex c) with
     | SErr -> "err"
     | SUnsupported -> "unsupported"
     | SFuel -> "fuel"
     | SOk l ->
       let cat = function CFont -> "Font" | CXObject -> "XObject" | CExtGState -> "ExtGState"
                        | CColorSpace -> "ColorSpace" | CPattern -> "Pattern" | CShading -> "Shading"
                        | CProperties -> "Properties" in
       let items = List.sort_uniq compare (List.map (fun (c, n) -> cat c ^ ":" ^ hex_of_bytes n) l) in
       "ok:" ^ String.concat "," items)
  | "RemoveEmpty", [lens] ->
    let ls = List.filter (fun x -> x <> "") (String.split_on_char ',' lens) in
    let mk n = List.init (int_of_string n) (fun _ -> n_of_int 113) in
    String.concat "," (List.map (fun c -> string_of_int (List.length c)) (removeEmpty (List.map mk ls)))
  | "Strip", [s] -> hex_of_bytes (strip (bytes_of_hex s))
  | _ -> failwith ("unknown function " ^ fn)
let () = main dispatch
