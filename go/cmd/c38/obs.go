// Observation of page content streams in a PDF (decoded), through pdfcpu's reader.
package main

import (
	"bytes"
	"fmt"

	"github.com/pdfcpu/pdfcpu/pkg/api"
	"github.com/pdfcpu/pdfcpu/pkg/pdfcpu/model"
	"github.com/pdfcpu/pdfcpu/pkg/pdfcpu/types"
)

type pageObs struct {
	Kind    int // 0 none, 1 single stream, 2 array
	Streams [][]byte
	OwnRes  bool
	GS, XO  []string // keys of the page's own ExtGState / XObject resource dicts
	Annots  int
}

func newConf() *model.Configuration {
	c := model.NewDefaultConfiguration()
	c.ValidationMode = model.ValidationRelaxed
	return c
}

func decodeStream(ctx *model.Context, o types.Object) ([]byte, error) {
	sd, _, err := ctx.DereferenceStreamDict(o)
	if err != nil {
		return nil, err
	}
	if sd == nil {
		return nil, fmt.Errorf("nil stream")
	}
	if err := sd.Decode(); err != nil {
		return nil, err
	}
	return append([]byte{}, sd.Content...), nil
}

func dictKeys(ctx *model.Context, d types.Dict, key string) []string {
	o, ok := d.Find(key)
	if !ok {
		return nil
	}
	dd, err := ctx.DereferenceDict(o)
	if err != nil || dd == nil {
		return nil
	}
	var ks []string
	for k := range dd {
		ks = append(ks, k)
	}
	return ks
}

func observe(pdf []byte) ([]pageObs, error) {
	ctx, err := api.ReadContext(bytes.NewReader(pdf), newConf())
	if err != nil {
		return nil, err
	}
	if err := ctx.EnsurePageCount(); err != nil {
		return nil, err
	}
	var out []pageObs
	for p := 1; p <= ctx.PageCount; p++ {
		d, _, _, err := ctx.PageDict(p, false)
		if err != nil {
			return nil, err
		}
		var po pageObs
		if o, ok := d.Find("Resources"); ok {
			po.OwnRes = true
			if rd, err := ctx.DereferenceDict(o); err == nil && rd != nil {
				po.GS = dictKeys(ctx, rd, "ExtGState")
				po.XO = dictKeys(ctx, rd, "XObject")
			}
		}
		if o, ok := d.Find("Annots"); ok {
			if a, err := ctx.DereferenceArray(o); err == nil {
				po.Annots = len(a)
			}
		}
		o, found := d.Find("Contents")
		if found && o != nil {
			o, err = ctx.Dereference(o)
			if err != nil {
				return nil, err
			}
			switch o := o.(type) {
			case types.StreamDict:
				po.Kind = 1
				c, err := decodeStream(ctx, o)
				if err != nil {
					return nil, err
				}
				po.Streams = [][]byte{c}
			case types.Array:
				po.Kind = 2
				for _, e := range o {
					c, err := decodeStream(ctx, e)
					if err != nil {
						return nil, err
					}
					po.Streams = append(po.Streams, c)
				}
			default:
				return nil, fmt.Errorf("page %d: Contents is %T", p, o)
			}
		}
		out = append(out, po)
	}
	return out, nil
}
