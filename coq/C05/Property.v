(* C05 — Extracted files never escape the output directory or clobber each other.
   Property theorems only; each is closed by an exact lemma and followed by Print Assumptions.
   Model: C05/Model.v (hand transcription of sanitize/path.go, api/attach.go and the name
   compositions of api/extract.go, split.go, form.go, font/install.go; Go's UTF-8 decoding,
   unicode tables and path/filepath Clean/Join/Dir/Base are modelled and tied by the harness).

   name_ok n  (Proofs.v)  :=  n is non-empty; every byte b of n satisfies 0x20 <= b < 0x100 and is
     none of  / \ DEL and the seven specials (so: no separator, no NUL, no C0 control byte); the
     first and the last byte are neither ' ' nor '.'  (hence n is not "." or "..").
   goodRune r  :=  r is not < 0x20, not a special, not unicode.IsControl (C0, DEL, C1), not '/' or '\'.
   insideDir d p (Proofs2.v) := p = filepath.Join(d, n) for a name_ok n, Clean p = p,
     filepath.Dir p = Clean d and filepath.Base p = n. *)
From PV Require Import Lib.GoInt C05.Model C05.Proofs C05.Proofs2.
Import ListNotations.
Open Scope N_scope.

(* For EVERY byte string s: whatever sanitize.Path accepts is a harmless single component, and it
   is the UTF-8 encoding of code points none of which is a control, separator or special. *)
Theorem C05_path_is_single_component : forall s n, Path s = Ok n ->
  name_ok n /\ exists rs, n = encode rs /\ Forall goodRune rs.
Proof. exact Path_ok. Qed.
Print Assumptions C05_path_is_single_component.

(* ... and a string containing a NUL byte is rejected outright. *)
Theorem C05_path_rejects_NUL : forall s, In 0 s -> Path s = Err.
Proof. exact Path_rejects_NUL. Qed.
Print Assumptions C05_path_rejects_NUL.

(* Joining such a name to ANY directory string d (absolute, relative, unclean, empty) yields
   Clean(d) + "/" + n (just n below "." and "/" + n below "/"), which is clean, whose Dir is
   Clean(d) and whose Base is n: the file is created directly inside the directory. *)
Theorem C05_name_stays_in_dir : forall d n, name_ok n ->
  let p := join2 d n in
  p = match cleanStack d with
      | [] => if isRooted d then SL :: n else n
      | _ => clean d ++ SL :: n
      end
  /\ clean p = p /\ dirOf p = clean d /\ baseOf p = n.
Proof. exact name_stays_in_dir. Qed.
Print Assumptions C05_name_stays_in_dir.

(* PathOr-style callers (sanitizeFilenamePart): safe whenever the fallback literal is, and the
   composed output names of the image/font writers, bookmark split parts, multi-fill outputs,
   attachment fallbacks and installed font files are all harmless single components. *)
Theorem C05_fallback_is_safe :
  (forall s fb, name_ok fb -> name_ok (PathOr s fb)) /\
  (forall i s, name_ok (attachmentName i s)) /\
  (forall a digs b c, Forall byte_ok digs -> name_ok (imageFileName a digs b c)) /\
  (forall a b c, name_ok (fontFileName a b c)) /\
  (forall i t, name_ok (bookmarkFileName i t)) /\
  (forall req digs, digs <> [] -> Forall digit digs -> name_ok (multiFillCSVName req digs)) /\
  (forall ps n, gobFileName ps = Ok n -> name_ok n) /\
  (forall a b d1 d2, Forall byte_ok d1 -> Forall byte_ok d2 -> name_ok (metadataFileName a b d1 d2)).
Proof.
  exact (conj PathOr_ok (conj attachmentName_ok (conj imageFileName_ok (conj fontFileName_ok
        (conj bookmarkFileName_ok (conj multiFillCSVName_ok (conj gobFileName_ok metadataFileName_ok))))))).
Qed.
Print Assumptions C05_fallback_is_safe.

(* Split along bookmarks (writePageSpansSplitAlongBookmarks), for any list of bookmark titles
   (arbitrary byte strings of any length), any output directory and any set of failing writes:
   every part written is Join(outDir, name) with name = sanitize.Path(title) + ".pdf" (or
   bookmark_N.pdf when the title is rejected) -- the title is sanitised as a whole BEFORE anything
   else happens to it -- and is a direct child of Clean(outDir); the parts written are a prefix of
   that list (all of it on success), and no failing path is written. *)
Theorem C05_bookmark_split_stays_in_dir : forall fails d titles,
  let r := splitAlongBookmarks fails d titles in
  Forall (insideDir d) (fst r) /\
  fst r = firstn (length (fst r)) (bookmarkPathsFrom d 0 titles) /\
  (snd r = true -> fst r = bookmarkPathsFrom d 0 titles) /\
  Forall (fun p => fails p = false) (fst r).
Proof. exact splitAlongBookmarks_inside. Qed.
Print Assumptions C05_bookmark_split_stays_in_dir.

(* writeAttachments over an abstract file system (set of existing paths, O_EXCL create), for any
   number of attachments with arbitrary names, any directory, any token, any initial contents, and
   ANY predicate failsOther telling for which reservation markers the O_EXCL create fails with an
   error other than EEXIST (name too long, permission, ...):
   - if the reservation phase ends with ANY error (status 1 = collision / marker exists,
     status 2 = other error), no output file was written and the file system is exactly as
     before (all earlier reservations rolled back);
   - otherwise (status 0) every marker could be created, all output paths are pairwise distinct
     and each lies directly inside the directory;
   - a failing marker is never skipped: status 2 is reported whenever the loop reaches one. *)
Theorem C05_collision_before_write : forall failsOther fs d names tok fs' written st,
  writeAttachments failsOther fs d names tok = (fs', written, st) ->
  (st <> 0 -> written = [] /\ fs' = fs) /\
  (st = 0 -> written = attachmentOutputPaths d names /\ NoDup written /\ Forall (insideDir d) written
             /\ Forall (fun p => failsOther (attachmentReservationPath p tok) = false) written) /\
  (st = 0 \/ st = 1 \/ st = 2) /\
  (st = 2 -> exists p, In p (attachmentOutputPaths d names) /\ failsOther (attachmentReservationPath p tok) = true).
Proof. exact collision_before_write. Qed.
Print Assumptions C05_collision_before_write.

(* non-vacuity: hostile inputs go through both branches *)
Example C05_nonvacuous :
  (* "../../etc/passwd" -> "etc_passwd" *)
  Path [0x2E;0x2E;0x2F;0x2E;0x2E;0x2F;0x65;0x74;0x63;0x2F;0x70;0x61;0x73;0x73;0x77;0x64]
    = Ok [0x65;0x74;0x63;0x5F;0x70;0x61;0x73;0x73;0x77;0x64]
  (* "C:\nul" -> "_nul";  ".." and "a<NUL>" are rejected *)
  /\ Path [0x43;0x3A;0x5C;0x6E;0x75;0x6C] = Ok [0x5F;0x6E;0x75;0x6C]
  /\ Path [0x2E;0x2E] = Err /\ Path [0x61;0x00] = Err
  (* invalid UTF-8 0xFF becomes U+FFFD *)
  /\ Path [0xFF] = Ok [0xEF;0xBF;0xBD]
  (* "a/b" and "a_b" collide: nothing written, file system untouched; "a","b" succeed *)
  /\ writeAttachments nameTooLong [[0x2F;0x6F;0x2F;0x6B]] [0x2F;0x6F] [[0x61;0x2F;0x62]; [0x61;0x5F;0x62]] [0x74]
     = ([[0x2F;0x6F;0x2F;0x6B]], [], 1)
  /\ snd (writeAttachments nameTooLong [] [0x2F;0x6F] [[0x61]; [0x62]] [0x74]) = 0
  (* a 240-byte name: the output name fits NAME_MAX, its marker does not: status 2, nothing written *)
  /\ writeAttachments nameTooLong [] [0x2F;0x6F] [[0x62]; repeat 0x61 240; repeat 0x61 240] [0x74] = ([], [], 2)
  (* a 312-byte bookmark title "../../pwned_AAA...": sanitised as a whole, too long to stage: nothing written *)
  /\ splitAlongBookmarks stagedTooLong [0x2F;0x6F] [[0x2E;0x2E;0x2F;0x2E;0x2E;0x2F;0x70;0x77;0x6E;0x5F] ++ repeat 0x41 302] = ([], false)
  /\ splitAlongBookmarks stagedTooLong [0x2F;0x6F] [[0x2E;0x2E;0x2F;0x78]; []]
     = ([[0x2F;0x6F;0x2F;0x78;0x2E;0x70;0x64;0x66]; [0x2F;0x6F;0x2F;0x62;0x6F;0x6F;0x6B;0x6D;0x61;0x72;0x6B;0x5F;0x32;0x2E;0x70;0x64;0x66]], true)
  /\ nameTooLong (0x2F :: repeat 0x61 255) = false /\ nameTooLong (0x2F :: repeat 0x61 256) = true
  /\ join2 [0x2F;0x6F;0x2F;0x2E;0x2E;0x2F;0x70] [0x61] = [0x2F;0x70;0x2F;0x61].
Proof. vm_compute. repeat split; reflexivity. Qed.
