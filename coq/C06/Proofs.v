(* C06 — lemmas about the commit / rollback loops shared by font.commitCollectionFonts,
   api.commitStagedFontsWithOperations and api.publishCheatSheets. *)
From stdpp Require Import gmap.
From Coq Require Import NArith Lia.
From PV Require Import C01.FS C01.FSFacts C06.Model.

(* ---------- errors ---------- *)
Lemma ejoin_None_l e : ejoin None e = e.
Proof. destruct e; reflexivity. Qed.
Lemma ejoin_None_r e : ejoin e None = e.
Proof. destruct e; reflexivity. Qed.
Lemma ejoin_None a b : ejoin a b = None <-> a = None /\ b = None.
Proof. destruct a, b; cbn; split; try tauto; try (intros [? ?]; congruence); intros ?; discriminate. Qed.
Lemma ejoin_In a b e x : ejoin a b = Some e -> (forall m, b = Some m -> In x m) -> b <> None -> In x e.
Proof.
  destruct a as [ma|], b as [mb|]; cbn; intros He Hb Hn; try congruence.
  - injection He as <-. apply in_or_app. right. apply Hb. reflexivity.
  - injection He as <-. apply Hb. reflexivity.
Qed.

(* ---------- three directories of a tree ---------- *)
Section View.
Variables F S B : dir.
Hypothesis HFS : F <> S.
Hypothesis HFB : F <> B.
Hypothesis HSB : S <> B.
Variable t0 : tree.

Definition tview (t : tree) (cF cS cB : dcontent) : Prop :=
  t !! F = Some cF /\ t !! S = Some cS /\ t !! B = Some cB /\
  (forall x, x <> F -> x <> S -> x <> B -> t !! x = t0 !! x).

Ltac view_solve :=
  repeat split; try (intros x Hx1 Hx2 Hx3);
  repeat (first [ rewrite lookup_insert | rewrite lookup_insert_ne by congruence ]); auto.

Lemma rename_FB t cF cS cB n f :
  tview t cF cS cB -> cF !! n = Some f ->
  exists t', rename_tree F n B n t = Some t' /\ tview t' (delete n cF) cS (<[n := f]> cB).
Proof.
  intros (HF & HS & HB & Hfr) Hn. eexists. split.
  - unfold rename_tree. rewrite HF, Hn. cbv zeta. rewrite lookup_insert_ne by congruence. rewrite HB. reflexivity.
  - view_solve.
Qed.
Lemma rename_SF t cF cS cB n f :
  tview t cF cS cB -> cS !! n = Some f ->
  exists t', rename_tree S n F n t = Some t' /\ tview t' (<[n := f]> cF) (delete n cS) cB.
Proof.
  intros (HF & HS & HB & Hfr) Hn. eexists. split.
  - unfold rename_tree. rewrite HS, Hn. cbv zeta. rewrite lookup_insert_ne by congruence. rewrite HF. reflexivity.
  - view_solve.
Qed.
Lemma rename_BF t cF cS cB n f :
  tview t cF cS cB -> cB !! n = Some f ->
  exists t', rename_tree B n F n t = Some t' /\ tview t' (<[n := f]> cF) cS (delete n cB).
Proof.
  intros (HF & HS & HB & Hfr) Hn. eexists. split.
  - unfold rename_tree. rewrite HB, Hn. cbv zeta. rewrite lookup_insert_ne by congruence. rewrite HF. reflexivity.
  - view_solve.
Qed.
Lemma remove_F t cF cS cB n :
  tview t cF cS cB -> tview (<[F := delete n cF]> t) (delete n cF) cS cB.
Proof. intros (HF & HS & HB & Hfr). view_solve. Qed.
End View.

(* ---------- the primitives under a plan ---------- *)
Section Prims.
Variable pl : plan.

Lemma sync_dir_spec d w :
  wt (dworld_of (sync_dir pl d w)) = wt w /\ dcnt (dworld_of (sync_dir pl d w)) = S (dcnt w) /\
  (is_Some (wt w !! d) -> pl (dcnt w) = false -> out_err (sync_dir pl d w) = None) /\
  (out_err (sync_dir pl d w) <> None -> is_Some (wt w !! d) -> pl (dcnt w) = true) /\
  (forall m, out_err (sync_dir pl d w) = Some m -> In (PDir d) m).
Proof.
  unfold sync_dir, dcall, dcallm. destruct (pl (dcnt w)) eqn:Hp; cbn.
  - repeat split; try congruence. intros m [= <-]. left. reflexivity.
  - destruct (wt w !! d) eqn:Hd; cbn; repeat split; try congruence.
    + intros _ [x Hx]. discriminate.
    + intros [x Hx]. discriminate.
    + intros m [= <-]. left. reflexivity.
Qed.

(* syncCollectionDirectories: the tree is untouched; an error needs a fault (the directories exist) and
   names a directory of the list *)
Lemma sync_dirs_spec ds : forall seen w,
  (forall d, In d ds -> is_Some (wt w !! d)) ->
  wt (snd (sync_dirs pl seen ds w)) = wt w /\
  dcnt w <= dcnt (snd (sync_dirs pl seen ds w)) /\
  (quiet pl (dcnt w) -> fst (sync_dirs pl seen ds w) = None) /\
  (fst (sync_dirs pl seen ds w) <> None ->
     exists j, dcnt w <= j < dcnt (snd (sync_dirs pl seen ds w)) /\ pl j = true).
Proof.
  induction ds as [|d ds IH]; intros seen w Hex; cbn [sync_dirs].
  - cbn. repeat split; try lia; try congruence.
  - destruct (bool_decide (d ∈ seen)).
    + apply IH. intros d' Hd'. apply Hex. right. exact Hd'.
    + destruct (sync_dir_spec d w) as (Ht & Hc & Hq & Hf & _).
      specialize (IH (d :: seen) (dworld_of (sync_dir pl d w))).
      destruct (sync_dirs pl (d :: seen) ds (dworld_of (sync_dir pl d w))) as [e w'] eqn:E.
      cbn [fst snd] in *. destruct IH as (I1 & I2 & I3 & I4).
      { intros d' Hd'. rewrite Ht. apply Hex. right. exact Hd'. }
      rewrite Ht in I1. rewrite Hc in I2, I3, I4.
      split; [exact I1|]. split; [lia|]. split.
      * intros Hq'. rewrite Hq; [|apply Hex; left; reflexivity|apply quiet_here; exact Hq'].
        cbn. apply I3. eapply quiet_mono; [exact Hq'|lia].
      * intros Hne. destruct (out_err (sync_dir pl d w)) eqn:Eo.
        -- exists (dcnt w). split; [lia|]. apply Hf; [congruence|apply Hex; left; reflexivity].
        -- cbn in Hne. destruct (I4 Hne) as (j & Hj & Hpj). exists j. split; [lia|exact Hpj].
Qed.
End Prims.
