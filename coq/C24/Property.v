(* C24 — Encryption parameters interoperate with the ISO 32000 algorithms.  Property theorems only.
   Code model: C24/Model.v (transcribed from pkg/pdfcpu/crypto.go); specification model: C24/Spec.v (transcribed
   from ISO 32000-1 Algorithms 2-7 and ISO 32000-2 Algorithms 2.A, 2.B, 8-13); shared primitives: C24/Prims.v. *)
From Coq Require Import NArith ZArith List Bool.
Import ListNotations.
From PV Require Import C24.Prims C24.Model C24.Spec C24.Proofs C24.ProofsAES.
Open Scope N_scope.

(* R 2,3,4 — for every password (any length, any bytes), O entry, P, file identifier, key length, EncryptMetadata: *)

(* the file key pdfcpu uses (encKey) is the one of Algorithm 2 *)
Theorem C24_code_eq_spec_key : forall userpw e, rev234 (eR e) ->
  c_encKey userpw e = alg2 userpw (eO e) (eP e) (eID e) (eR e) (eL e) (eEmd e).
Proof. exact encKey_eq. Qed.
Print Assumptions C24_code_eq_spec_key.

(* the O entry pdfcpu writes (o) is the one of Algorithm 3, for every pair of passwords incl. the empty owner password *)
Theorem C24_code_eq_spec_O : forall ownerpw userpw r l, 2 <= r ->
  c_o ownerpw userpw r l = alg3 ownerpw userpw r l.
Proof. exact o_eq. Qed.
Print Assumptions C24_code_eq_spec_O.

(* the U entry pdfcpu writes (u) is the one of Algorithm 4 (R2), resp. the 16 bytes of Algorithm 5 followed by 16
   bytes of (arbitrary, here zero) padding (R 3,4); the key returned with it is the one of Algorithm 2 *)
Theorem C24_code_eq_spec_U : forall userpw e,
  let key := alg2 userpw (eO e) (eP e) (eID e) (eR e) (eL e) (eEmd e) in
  (eR e = 2 -> c_u userpw e = (alg4 key, key)) /\
  (eR e = 3 \/ eR e = 4 -> c_u userpw e = (alg5_16 key (eID e) ++ zeros 16, key) /\ length (alg5_16 key (eID e)) = 16%nat).
Proof.
  intros userpw e key. split.
  - intros H. subst key. rewrite H. apply u_eq_r2. exact H.
  - intros H. split; [apply u_eq_r34; exact H | apply length_alg5_16].
Qed.
Print Assumptions C24_code_eq_spec_U.

(* pdfcpu accepts a user password exactly when Algorithm 6 does, and derives the same key - for every U entry, well
   formed or not *)
Theorem C24_accepts_iff_spec_user : forall userpw e, rev234 (eR e) ->
  c_validate_user_rc4 userpw e = alg6 userpw (eO e) (eU e) (eP e) (eID e) (eR e) (eL e) (eEmd e).
Proof. exact validate_user_eq. Qed.
Print Assumptions C24_accepts_iff_spec_user.

(* pdfcpu accepts an owner password exactly when Algorithm 7 does (an empty owner slot falls back to the user slot as in
   Algorithm 3 step a) *)
Theorem C24_accepts_iff_spec_owner : forall ownerpw userpw e, rev234 (eR e) ->
  c_validate_owner_rc4 ownerpw userpw e
  = alg7 ownerpw userpw (eO e) (eU e) (eP e) (eID e) (eR e) (eL e) (eEmd e).
Proof. exact validate_owner_eq. Qed.
Print Assumptions C24_accepts_iff_spec_owner.

(* R 5,6 — SHA-256/384/512, AES (CBC without padding, single-block ECB), the reader's password preparation
   (processInput) and SASLprep are parameters; prims_ok: the digests have their lengths and AES-CBC outputs bytes. *)

(* hashRev6 is Algorithm 2.B (same rounds, same stopping rule, for every input), and the 300 rounds of fuel both
   models carry are never exhausted: Algorithm 2.B stops at round 287 at the latest *)
Theorem C24_code_eq_spec_hash2B : forall sha256 sha384 sha512 cbc, prims_ok sha256 sha384 sha512 cbc ->
  forall input pw u,
  c_hashRev6 sha256 sha384 sha512 cbc input pw u = alg2B sha256 sha384 sha512 cbc input pw u
  /\ alg2B sha256 sha384 sha512 cbc input pw u <> None.
Proof.
  intros sha256 sha384 sha512 cbc (H1 & H2 & H3 & H4) input pw u. split.
  - eapply hashRev6_eq; section_args.
  - eapply alg2B_total; section_args.
Qed.
Print Assumptions C24_code_eq_spec_hash2B.

(* pdfcpu accepts a user password exactly when Algorithm 11 does, and recovers the same file key (2.A step e).
   FULL STATEMENT: without the hypothesis prep pw = saslprep pw.  It does not hold for pdfcpu's processInput (a PRECIS
   identifier profile, not SASLprep): C24_accepts_iff_spec_user_aes_refuted, finding aes256-password-prep-not-saslprep. *)
Theorem C24_accepts_iff_spec_user_aes_partial : forall sha256 sha384 sha512 cbc_enc cbc_dec prep saslprep,
  prims_ok sha256 sha384 sha512 cbc_enc -> forall pw e,
  prep pw = saslprep pw -> (eR e = 6 -> length (eUE e) = 32%nat) ->
  c_validate_user_aes sha256 sha384 sha512 cbc_enc cbc_dec prep pw e
  = spec_validate_user sha256 sha384 sha512 cbc_enc cbc_dec saslprep (eR e) pw (eU e) (eUE e).
Proof.
  intros sha256 sha384 sha512 cbc_enc cbc_dec prep saslprep (H1 & H2 & H3 & H4) pw e. intros Hp Hl. eapply validate_user_aes_eq; section_args.
Qed.
Print Assumptions C24_accepts_iff_spec_user_aes_partial.

(* ... an owner password exactly when Algorithm 12 does (2.A step d) - for non-empty owner passwords.
   FULL STATEMENT: also for the empty owner password and without prep pw = saslprep pw; both fail
   (C24_accepts_iff_spec_owner_aes_empty_refuted: validateOwnerPasswordAES256* return false for an empty password
   without looking at the document). *)
Theorem C24_accepts_iff_spec_owner_aes_partial : forall sha256 sha384 sha512 cbc_enc cbc_dec prep saslprep,
  prims_ok sha256 sha384 sha512 cbc_enc -> forall pw e,
  pw <> [] -> prep pw = saslprep pw ->
  c_validate_owner_aes sha256 sha384 sha512 cbc_enc cbc_dec prep pw e
  = spec_validate_owner sha256 sha384 sha512 cbc_enc cbc_dec saslprep (eR e) pw (eO e) (eOE e) (eU e).
Proof.
  intros sha256 sha384 sha512 cbc_enc cbc_dec prep saslprep (H1 & H2 & H3 & H4) pw e. intros Hne Hp. eapply validate_owner_aes_eq; section_args.
Qed.
Print Assumptions C24_accepts_iff_spec_owner_aes_partial.

(* the U, O, UE, OE entries pdfcpu writes (calcOAndUAES256 / Rev6, random salts and file key made explicit) are those of
   Algorithms 8 and 9 - for every password (any length, normalised or not) on which pdfcpu's preparation agrees with
   SASLprep; when the preparation fails nothing is written.  (Since pdfcpu dd3e7ff0 the writer prepares and truncates;
   before, the statement needed "SASLprep leaves the password alone and it is at most 127 bytes".)
   FULL STATEMENT: without the hypotheses prep upw = saslprep upw, prep opw = saslprep opw.  processInput is a PRECIS
   identifier profile, which is not SASLprep (C24_code_eq_spec_OU_aes_refuted, finding aes256-password-prep-not-saslprep). *)
Theorem C24_code_eq_spec_OU_aes_partial : forall sha256 sha384 sha512 cbc_enc prep saslprep,
  prims_ok sha256 sha384 sha512 cbc_enc -> forall r upw opw vsu ksu vso kso fk,
  prep upw = saslprep upw -> prep opw = saslprep opw ->
  length vsu = 8%nat -> length ksu = 8%nat -> length vso = 8%nat -> length kso = 8%nat ->
  c_calc_ou_aes sha256 sha384 sha512 cbc_enc prep r upw opw (vsu ++ ksu) (vso ++ kso) fk
  = spec_calc sha256 sha384 sha512 cbc_enc saslprep r upw opw vsu ksu vso kso fk.
Proof.
  intros sha256 sha384 sha512 cbc_enc prep saslprep (H1 & H2 & H3 & H4) r upw opw vsu ksu vso kso fk.
  intros. eapply calc_eq; section_args.
Qed.
Print Assumptions C24_code_eq_spec_OU_aes_partial.

(* Full strength relative to the preparation: read the standard's "SASLprep" as the function pdfcpu uses on both sides
   (one parameter prep, nothing assumed about it - no idempotence, every side prepares the raw input once).  Then for
   EVERY password - longer than 127 bytes, not normalised, rejected - the entries written are those of Algorithms 8/9
   and a password is accepted exactly when Algorithms 11 / 12 accept it, with the same file key. *)
Theorem C24_code_eq_spec_aes_modulo_prep : forall sha256 sha384 sha512 cbc_enc cbc_dec prep,
  prims_ok sha256 sha384 sha512 cbc_enc ->
  (forall r upw opw vsu ksu vso kso fk,
     length vsu = 8%nat -> length ksu = 8%nat -> length vso = 8%nat -> length kso = 8%nat ->
     c_calc_ou_aes sha256 sha384 sha512 cbc_enc prep r upw opw (vsu ++ ksu) (vso ++ kso) fk
     = spec_calc sha256 sha384 sha512 cbc_enc prep r upw opw vsu ksu vso kso fk) /\
  (forall pw e, (eR e = 6 -> length (eUE e) = 32%nat) ->
     c_validate_user_aes sha256 sha384 sha512 cbc_enc cbc_dec prep pw e
     = spec_validate_user sha256 sha384 sha512 cbc_enc cbc_dec prep (eR e) pw (eU e) (eUE e)) /\
  (forall pw e, pw <> [] ->
     c_validate_owner_aes sha256 sha384 sha512 cbc_enc cbc_dec prep pw e
     = spec_validate_owner sha256 sha384 sha512 cbc_enc cbc_dec prep (eR e) pw (eO e) (eOE e) (eU e)).
Proof.
  intros sha256 sha384 sha512 cbc_enc cbc_dec prep (H1 & H2 & H3 & H4). split; [|split].
  - intros. eapply calc_eq; first [reflexivity | section_args].
  - intros pw e Hl. eapply validate_user_aes_eq; first [reflexivity | section_args].
  - intros pw e Hne. eapply validate_owner_aes_eq; first [reflexivity | section_args].
Qed.
Print Assumptions C24_code_eq_spec_aes_modulo_prep.

(* the Perms entry pdfcpu writes is the one of Algorithm 10 (with zero bytes as the four "random" bytes), and
   validatePermissions accepts exactly when Algorithm 13 does - for every P that fits in 32 bits *)
Theorem C24_code_eq_spec_perms : forall (ecb_enc ecb_dec : bytes -> bytes -> bytes) p emd fk e,
  (p_in_range p -> c_write_perms ecb_enc p emd fk = Some (alg10 ecb_enc p emd (zeros 4) fk)) /\
  (p_in_range (eP e) ->
     (c_validate_perms ecb_dec e fk = VOk <-> alg13 ecb_dec (ePerms e) fk (eP e) (eEmd e) = true)
     /\ c_validate_perms ecb_dec e fk <> VErr).
Proof.
  intros ecb_enc ecb_dec p emd fk e. split; intros Hp; [eapply write_perms_eq|eapply validate_perms_eq]; section_args.
Qed.
Print Assumptions C24_code_eq_spec_perms.

(* R 5,6: the password bytes are the first 127 bytes of the PREPARED password (2.A steps a then b), on the writing
   side (c_prepared_password = preparedPasswordAES256) and on the reading side: the validation functions depend on
   the password only through these bytes (the owner one also on its being non-empty). *)
Theorem C24_password_bytes_prepare_then_truncate : forall sha256 sha384 sha512 cbc_enc cbc_dec prep,
  (forall pw, c_prepared_password prep pw = option_map (firstn 127) (prep pw)) /\
  (forall pw1 pw2 e, c_prepared_password prep pw1 = c_prepared_password prep pw2 ->
     c_validate_user_aes sha256 sha384 sha512 cbc_enc cbc_dec prep pw1 e
     = c_validate_user_aes sha256 sha384 sha512 cbc_enc cbc_dec prep pw2 e) /\
  (forall pw1 pw2 e, pw1 <> [] -> pw2 <> [] -> c_prepared_password prep pw1 = c_prepared_password prep pw2 ->
     c_validate_owner_aes sha256 sha384 sha512 cbc_enc cbc_dec prep pw1 e
     = c_validate_owner_aes sha256 sha384 sha512 cbc_enc cbc_dec prep pw2 e).
Proof.
  intros. split; [|split].
  - intros pw. apply prepared_password_eq.
  - intros pw1 pw2 e. apply validate_user_aes_bytes.
  - intros pw1 pw2 e. apply validate_owner_aes_bytes.
Qed.
Print Assumptions C24_password_bytes_prepare_then_truncate.

(* The order matters: "truncate the raw input to 127 bytes, then prepare" is a different function (a normalisation that
   shortens, 128 raw bytes), and a model built on it rejects a password the code model - and Algorithm 11 - accepts. *)
Theorem C24_truncate_before_prepare_refuted : exists sha256 sha384 sha512 cbc_enc cbc_dec prep raw e,
  prims_ok sha256 sha384 sha512 cbc_enc /\
  option_map (firstn 127) (prep raw) <> prep (firstn 127 raw) /\
  fst (c_validate_user_aes sha256 sha384 sha512 cbc_enc cbc_dec prep raw e) = VOk /\
  fst (spec_validate_user sha256 sha384 sha512 cbc_enc cbc_dec prep (eR e) raw (eU e) (eUE e)) = VOk /\
  fst (c_validate_user_aes sha256 sha384 sha512 cbc_enc cbc_dec (fun x => prep (firstn 127 x)) raw e) = VNo.
Proof.
  exists (toy_hash 31), (toy_hash 47), (toy_hash 63), toy_cbc, toy_cbc, (fun x => Some (toy_norm x)), toy_long, toy_enc_long.
  split; [exact toy_prims_ok|]. split; [exact order_witness|].
  destruct order_decision_witness as [H1 H2]. split; [exact H1|]. split; [|exact H2].
  vm_compute. reflexivity.
Qed.
Print Assumptions C24_truncate_before_prepare_refuted.

(* the hypotheses of the _partial theorems cannot be dropped (whatever the primitives: shown with toy primitives that
   satisfy prims_ok): *)
Theorem C24_code_eq_spec_OU_aes_refuted : exists sha256 sha384 sha512 cbc_enc prep saslprep upw opw vsu ksu vso kso fk,
  prims_ok sha256 sha384 sha512 cbc_enc /\ saslprep upw = Some upw /\ prep opw = saslprep opw /\
  c_calc_ou_aes sha256 sha384 sha512 cbc_enc prep 5 upw opw (vsu ++ ksu) (vso ++ kso) fk = None /\
  spec_calc sha256 sha384 sha512 cbc_enc saslprep 5 upw opw vsu ksu vso kso fk <> None.
Proof.
  exists (toy_hash 31), (toy_hash 47), (toy_hash 63), toy_cbc,
    (fun x => if existsb (N.eqb 32) x then None else Some x), (fun x => Some x),
    [109; 121; 32; 112; 97; 115; 115], [111], salt_a, salt_b, salt_a, salt_b, (repeat 7 32).
  split; [exact toy_prims_ok|]. split; [reflexivity|]. split; [reflexivity|]. exact calc_prep_witness.
Qed.
Print Assumptions C24_code_eq_spec_OU_aes_refuted.

Theorem C24_accepts_iff_spec_user_aes_refuted : exists sha256 sha384 sha512 cbc_enc cbc_dec prep saslprep pw e,
  prims_ok sha256 sha384 sha512 cbc_enc /\ saslprep pw = Some pw /\
  fst (spec_validate_user sha256 sha384 sha512 cbc_enc cbc_dec saslprep (eR e) pw (eU e) (eUE e)) = VOk /\
  fst (c_validate_user_aes sha256 sha384 sha512 cbc_enc cbc_dec prep pw e) = VErr.
Proof.
  exists (toy_hash 31), (toy_hash 47), (toy_hash 63), toy_cbc, toy_cbc,
    (fun x => if existsb (N.eqb 32) x then None else Some x), (fun x => Some x),
    [109; 121; 32; 112; 97; 115; 115], (toy_enc_user [109; 121; 32; 112; 97; 115; 115]).
  split; [exact toy_prims_ok|]. exact prep_witness.
Qed.
Print Assumptions C24_accepts_iff_spec_user_aes_refuted.

Theorem C24_accepts_iff_spec_owner_aes_empty_refuted : exists sha256 sha384 sha512 cbc_enc cbc_dec saslprep e,
  prims_ok sha256 sha384 sha512 cbc_enc /\ saslprep [] = Some [] /\
  fst (spec_validate_owner sha256 sha384 sha512 cbc_enc cbc_dec saslprep (eR e) [] (eO e) (eOE e) (eU e)) = VOk /\
  fst (c_validate_owner_aes sha256 sha384 sha512 cbc_enc cbc_dec saslprep [] e) = VNo.
Proof.
  exists (toy_hash 31), (toy_hash 47), (toy_hash 63), toy_cbc, toy_cbc, (fun x => Some x), toy_enc_owner_empty.
  split; [exact toy_prims_ok|]. split; [reflexivity|]. exact empty_owner_witness.
Qed.
Print Assumptions C24_accepts_iff_spec_owner_aes_empty_refuted.

(* non-vacuity: the two models compute, and agree, on a concrete R4 / AES-128 dictionary; the right passwords are accepted *)
Example C24_nonvacuous :
  let upw := [117; 115; 114] in let opw := [111; 119; 110] in
  let o := c_o opw upw 4 128 in
  let e0 := mkEnc o [] [] [] [] 128 (-3901)%Z 4 true [1; 2; 3; 4; 5; 6; 7; 8; 9; 10; 11; 12; 13; 14; 15; 16] in
  let e := mkEnc o (fst (c_u upw e0)) [] [] [] 128 (-3901)%Z 4 true (eID e0) in
  rev234 (eR e) /\ o = alg3 opw upw 4 128 /\
  fst (c_validate_user_rc4 upw e) = true /\ fst (c_validate_owner_rc4 opw [] e) = true /\
  fst (c_validate_user_rc4 opw e) = false /\ fst (c_validate_owner_rc4 upw [] e) = false.
Proof. vm_compute. repeat split; auto. Qed.

(* non-vacuity for R5 after dd3e7ff0 (toy primitives): a 130-byte password and a password the preparation rewrites are
   written by the code model and then accepted by it *)
Example C24_nonvacuous_aes :
  let prep := fun x : bytes => Some (map (fun b => if b =? 170 then 97 else b) x) in
  forall pw, pw = repeat 120 130 \/ pw = [170; 98] ->
  match c_calc_ou_aes (toy_hash 31) (toy_hash 47) (toy_hash 63) toy_cbc prep 5 pw [111] (salt_a ++ salt_b) (salt_a ++ salt_b) (repeat 7 32) with
  | Some (u, o, ue, oe) =>
    fst (c_validate_user_aes (toy_hash 31) (toy_hash 47) (toy_hash 63) toy_cbc toy_cbc prep pw
           (mkEnc o u oe ue [] 256 0%Z 5 true [])) = VOk
  | None => False
  end.
Proof. exact calc_long_witness. Qed.
