// Font entry point: structured TrueType mutations (crafted cmap format 4 / 12 subtables, every table's
// directory offset/length and leading header fields shifted by -4..+4 and set to 0/max, collections),
// run through font.InstallFontFromBytes(Quiet) / InstallTrueTypeFont / InstallTrueTypeCollection in child
// processes; K on prepareCMapFormat4's bounds computation.
package main

import (
	"encoding/binary"
	"fmt"
	"math/rand"
	"os"
	"path/filepath"

	"github.com/pdfcpu/pdfcpu/pkg/font"
	"verif/vh"
)

var fontOps = []string{"font"}

// ------------------------------------------------------------------ K: cmap format 4 layout

func kCMap4(r *vh.Run) {
	for avail := 0; avail <= 52; avail++ {
		for _, format := range []int{4, 0, 12} {
			for _, declared := range []int{0, 14, 15, 16, 17, 20, 22, 23, 24, 25, 30, 31, 32, 33, 40, 48, 52, 53, 0xffff} {
				for _, segx2 := range []int{0, 1, 2, 3, 4, 5, 6, 8, 10, 0xfffe, 0xffff} {
					if format != 4 && (declared%8 != 0 || segx2 > 4) {
						continue
					}
					data := make([]byte, avail)
					put := func(off, v int) {
						if off+2 <= len(data) {
							binary.BigEndian.PutUint16(data[off:], uint16(v))
						}
					}
					put(0, format)
					put(2, declared)
					put(6, segx2)
					res := func() (res string) {
						defer func() {
							if e := recover(); e != nil {
								res = "panic"
								r.OracleFail("panic:font.prepareCMapFormat4", map[string]any{"hex": vh.Hex(data)}, fmt.Sprint(e))
							}
						}()
						size, n, e, st, d, rg, err := font.VerifCMapFormat4Layout(data)
						if err != nil {
							return "err"
						}
						// the property itself: all four arrays inside the settled size, inside the data
						if size > len(data) || rg+2*n > size || n < 1 {
							r.OracleFail("cmap4-layout-out-of-bounds", map[string]any{"hex": vh.Hex(data)}, fmt.Sprint(size, n, e, st, d, rg))
						}
						return fmt.Sprintf("ok:%x:%x:%x:%x:%x:%x", size, n, e, st, d, rg)
					}()
					if res != "panic" {
						r.OracleOK()
					}
					if avail >= 8 { // below 8 bytes the header fields are not all there: the model takes them as arguments
						r.Case("cmap4_layout", []string{vh.Int(int64(avail)), vh.Int(int64(format)), vh.Int(int64(declared)), vh.Int(int64(segx2))}, res)
					}
				}
			}
		}
	}
}

// ------------------------------------------------------------------ sfnt helpers

type sfntTable struct {
	tag         string
	dirOff      int // offset of the 16 byte directory record
	off, length int
}

func sfntTables(b []byte) []sfntTable {
	if len(b) < 12 {
		return nil
	}
	n := int(binary.BigEndian.Uint16(b[4:]))
	var out []sfntTable
	for i := 0; i < n && 12+16*i+16 <= len(b); i++ {
		d := 12 + 16*i
		out = append(out, sfntTable{string(b[d : d+4]), d, int(binary.BigEndian.Uint32(b[d+8:])), int(binary.BigEndian.Uint32(b[d+12:]))})
	}
	return out
}

func findTable(ts []sfntTable, tag string) *sfntTable {
	for i := range ts {
		if ts[i].tag == tag {
			return &ts[i]
		}
	}
	return nil
}

// withCMap returns the font with its cmap table replaced by the given bytes (appended, directory patched).
func withCMap(base []byte, cmap []byte) []byte {
	b := append([]byte(nil), base...)
	for len(b)%4 != 0 {
		b = append(b, 0)
	}
	t := findTable(sfntTables(b), "cmap")
	if t == nil {
		return b
	}
	binary.BigEndian.PutUint32(b[t.dirOff+8:], uint32(len(b)))
	binary.BigEndian.PutUint32(b[t.dirOff+12:], uint32(len(cmap)))
	b = append(b, cmap...)
	for len(b)%4 != 0 {
		b = append(b, 0)
	}
	return b
}

func u16(v int) []byte { return []byte{byte(v >> 8), byte(v)} }
func u32(v int) []byte { return []byte{byte(v >> 24), byte(v >> 16), byte(v >> 8), byte(v)} }

type seg4 struct{ start, end, delta, rangeOff int }

// cmapWith4 builds a cmap table with one encoding record and a format 4 subtable; declared < 0 and
// segx2 < 0 mean "the true value"; cut = number of bytes of the subtable actually present (-1 = all).
func cmapWith4(platform, encoding int, segs []seg4, glyphs []int, declared, segx2, cut int) []byte {
	n := len(segs)
	var st []byte
	full := 16 + 8*n + 2*len(glyphs)
	if declared < 0 {
		declared = full
	}
	if segx2 < 0 {
		segx2 = 2 * n
	}
	st = append(st, u16(4)...)
	st = append(st, u16(declared)...)
	st = append(st, u16(0)...)
	st = append(st, u16(segx2)...)
	st = append(st, u16(2)...)
	st = append(st, u16(0)...)
	st = append(st, u16(0)...)
	for _, s := range segs {
		st = append(st, u16(s.end)...)
	}
	st = append(st, u16(0)...)
	for _, s := range segs {
		st = append(st, u16(s.start)...)
	}
	for _, s := range segs {
		st = append(st, u16(s.delta)...)
	}
	for _, s := range segs {
		st = append(st, u16(s.rangeOff)...)
	}
	for _, g := range glyphs {
		st = append(st, u16(g)...)
	}
	if cut >= 0 && cut < len(st) {
		st = st[:cut]
	}
	c := append(u16(0), u16(1)...)
	c = append(c, u16(platform)...)
	c = append(c, u16(encoding)...)
	c = append(c, u32(12)...)
	return append(c, st...)
}

func cmapWith12(groups [][3]int, length, nGroups, cut int) []byte {
	var st []byte
	full := 16 + 12*len(groups)
	if length < 0 {
		length = full
	}
	if nGroups < 0 {
		nGroups = len(groups)
	}
	st = append(st, u16(12)...)
	st = append(st, u16(0)...)
	st = append(st, u32(length)...)
	st = append(st, u32(0)...)
	st = append(st, u32(nGroups)...)
	for _, g := range groups {
		st = append(st, u32(g[0])...)
		st = append(st, u32(g[1])...)
		st = append(st, u32(g[2])...)
	}
	if cut >= 0 && cut < len(st) {
		st = st[:cut]
	}
	c := append(u16(0), u16(1)...)
	c = append(c, u16(3)...)
	c = append(c, u16(10)...)
	c = append(c, u32(12)...)
	return append(c, st...)
}

type fdoc struct {
	name string
	data []byte
}

func fontDocs(r *rand.Rand, base []byte, nGeneric int, all bool) []fdoc {
	var out []fdoc
	add := func(name string, b []byte) { out = append(out, fdoc{name, b}) }
	add("font-orig", base)
	// ---- cmap format 4: segment lists x declared length x segCountX2 x idRangeOffset x truncation
	segLists := map[string][]seg4{
		"A":        {{65, 65, 1 - 65, 0}},
		"A+end":    {{65, 65, 1 - 65 + 65536, 0}, {0xffff, 0xffff, 1, 0}},
		"A-C+end":  {{65, 67, 1 - 65 + 65536, 0}, {0xffff, 0xffff, 1, 0}},
		"A,a+end":  {{65, 66, 0xffc0, 0}, {97, 98, 0xffa0, 0}, {0xffff, 0xffff, 1, 0}},
		"end-only": {{0xffff, 0xffff, 1, 0}},
	}
	for sn, segs := range segLists {
		n := len(segs)
		full := 16 + 8*n
		for _, pe := range [][2]int{{3, 1}, {0, 3}} {
			for declared := 0; declared <= full+4; declared++ {
				if declared > 2 && declared < 12 {
					continue
				}
				add(fmt.Sprintf("font-c4-%s-p%d.%d-len%d", sn, pe[0], pe[1], declared), withCMap(base, cmapWith4(pe[0], pe[1], segs, nil, declared, -1, -1)))
				if pe[0] == 3 {
					// the same with the data really ending there
					add(fmt.Sprintf("font-c4-%s-len%d-cut", sn, declared), withCMap(base, cmapWith4(3, 1, segs, nil, declared, -1, declared)))
				}
			}
			add(fmt.Sprintf("font-c4-%s-p%d.%d-lenmax", sn, pe[0], pe[1]), withCMap(base, cmapWith4(pe[0], pe[1], segs, nil, 0xffff, -1, -1)))
		}
		for _, sx := range []int{0, 1, 2, 3, 2*n - 2, 2*n - 1, 2*n + 1, 2*n + 2, 2*n + 4, 0x7ffe, 0xfffe, 0xffff} {
			if sx < 0 {
				continue
			}
			add(fmt.Sprintf("font-c4-%s-segx2-%d", sn, sx), withCMap(base, cmapWith4(3, 1, segs, nil, -1, sx, -1)))
		}
		for _, ro := range []int{2, 4, 6, 2 * n, 2*n + 2, 0x7ffe, 0xfffe, 0xffff, 1} {
			for _, gl := range [][]int{nil, {1}, {1, 2, 3}, {0xffff}} {
				s2 := append([]seg4(nil), segs...)
				s2[0].rangeOff = ro
				add(fmt.Sprintf("font-c4-%s-rangeoff%d-g%d", sn, ro, len(gl)), withCMap(base, cmapWith4(3, 1, s2, gl, -1, -1, -1)))
				add(fmt.Sprintf("font-c4-%s-rangeoff%d-g%d-lenshort", sn, ro, len(gl)), withCMap(base, cmapWith4(3, 1, s2, gl, 16+8*n, -1, -1)))
			}
		}
		for cut := 0; cut <= full+1; cut += 1 {
			add(fmt.Sprintf("font-c4-%s-cut%d", sn, cut), withCMap(base, cmapWith4(3, 1, segs, nil, -1, -1, cut)))
		}
	}
	// ---- cmap format 12
	groups := [][3]int{{65, 67, 1}, {0x1f600, 0x1f601, 4}}
	for _, d := range []int{-4, -3, -2, -1, 1, 2, 3, 4, 12, -12} {
		add(fmt.Sprintf("font-c12-len%+d", d), withCMap(base, cmapWith12(groups, 16+24+d, -1, -1)))
		add(fmt.Sprintf("font-c12-cut%+d", d), withCMap(base, cmapWith12(groups, -1, -1, 16+24+d)))
	}
	for _, v := range []int{0, 1, 15, 16, 0x7fffffff, 0xffffffff} {
		add(fmt.Sprintf("font-c12-len=%d", v), withCMap(base, cmapWith12(groups, v, -1, -1)))
		add(fmt.Sprintf("font-c12-ngroups=%d", v), withCMap(base, cmapWith12(groups, -1, v, -1)))
	}
	add("font-c12-ok", withCMap(base, cmapWith12(groups, -1, -1, -1)))
	add("font-c12-group-reversed", withCMap(base, cmapWith12([][3]int{{67, 65, 1}}, -1, -1, -1)))
	add("font-c12-group-huge", withCMap(base, cmapWith12([][3]int{{0, 0xffffffff, 1}}, -1, -1, -1)))
	// ---- every table: directory offset / length, and the leading uint16 / uint32 header fields
	ts := sfntTables(base)
	var generic []fdoc
	for _, tag := range []string{"cmap", "head", "hhea", "hmtx", "maxp", "name", "OS/2", "post", "loca", "glyf"} {
		t := findTable(ts, tag)
		if t == nil {
			continue
		}
		for fi, fld := range []int{t.dirOff + 8, t.dirOff + 12} {
			v := int(binary.BigEndian.Uint32(base[fld:]))
			for _, nv := range []int{v - 4, v - 3, v - 2, v - 1, v + 1, v + 2, v + 3, v + 4, 0, 0xffffffff, len(base), len(base) - 1} {
				if nv < 0 {
					continue
				}
				b := append([]byte(nil), base...)
				binary.BigEndian.PutUint32(b[fld:], uint32(nv))
				add(fmt.Sprintf("font-dir-%s-%s=%d", tag, []string{"off", "len"}[fi], nv), b)
			}
		}
		lim := 64
		if t.length < lim {
			lim = t.length
		}
		for o := 0; o+2 <= lim; o += 2 {
			v := int(binary.BigEndian.Uint16(base[t.off+o:]))
			for _, nv := range []int{v - 4, v - 2, v - 1, v + 1, v + 2, v + 4, 0, 0xffff, 0x7fff, 0x8000} {
				if nv < 0 || nv > 0xffff || nv == v {
					continue
				}
				b := append([]byte(nil), base...)
				binary.BigEndian.PutUint16(b[t.off+o:], uint16(nv))
				generic = append(generic, fdoc{fmt.Sprintf("font-fld-%s+%d=%d", tag, o, nv), b})
			}
		}
	}
	// the cmap subtables of the base font: length / count fields
	if t := findTable(ts, "cmap"); t != nil && t.off+4 <= len(base) {
		nrec := int(binary.BigEndian.Uint16(base[t.off+2:]))
		for i := 0; i < nrec && i < 8; i++ {
			rec := t.off + 4 + 8*i
			if rec+8 > len(base) {
				break
			}
			so := t.off + int(binary.BigEndian.Uint32(base[rec+4:]))
			for _, d := range []int{-4, -2, -1, 1, 2, 4} {
				b := append([]byte(nil), base...)
				binary.BigEndian.PutUint32(b[rec+4:], uint32(int(binary.BigEndian.Uint32(base[rec+4:]))+d))
				add(fmt.Sprintf("font-cmaprec%d-off%+d", i, d), b)
			}
			if so+16 > len(base) {
				continue
			}
			for _, o := range []int{2, 4, 6, 12, 14} {
				v := int(binary.BigEndian.Uint16(base[so+o:]))
				for _, nv := range []int{v - 4, v - 2, v - 1, v + 1, v + 2, v + 4, 0, 0xffff, 16, 14} {
					if nv < 0 || nv > 0xffff {
						continue
					}
					b := append([]byte(nil), base...)
					binary.BigEndian.PutUint16(b[so+o:], uint16(nv))
					add(fmt.Sprintf("font-cmapsub%d+%d=%d", i, o, nv), b)
				}
			}
		}
	}
	if all {
		out = append(out, generic...)
	} else {
		for i := 0; i < nGeneric && len(generic) > 0; i++ {
			out = append(out, generic[r.Intn(len(generic))])
		}
	}
	// ---- collections
	ttc := func(numFonts int, offs []int, shift int) []byte {
		hdr := append([]byte("ttcf"), u32(0x00010000)...)
		hdr = append(hdr, u32(numFonts)...)
		for _, o := range offs {
			hdr = append(hdr, u32(o)...)
		}
		b := append([]byte(nil), base...)
		for _, t := range sfntTables(b) {
			binary.BigEndian.PutUint32(b[t.dirOff+8:], uint32(t.off+shift))
		}
		return append(hdr, b...)
	}
	add("font-ttc-ok", ttc(1, []int{16}, 16))
	for _, nf := range []int{0, 2, 3, 0x7fffffff, 0xffffffff} {
		add(fmt.Sprintf("font-ttc-numfonts=%d", nf), ttc(nf, []int{16}, 16))
	}
	for _, o := range []int{0, 4, 12, 15, 17, 20, len(base), len(base) + 16, len(base) + 15, 0xffffffff} {
		add(fmt.Sprintf("font-ttc-off=%d", o), ttc(1, []int{o}, 16))
	}
	add("font-ttc-two-same", ttc(2, []int{20, 20}, 20))
	add("font-ttc-header-only", ttc(1, []int{16}, 16)[:16])
	add("font-ttc-cut", ttc(1, []int{16}, 16)[:200])
	return out
}

func fontJobs(r *vh.Run, repo string, addJob func(name string, data []byte, ops []string, recipe, expect string)) {
	base, err := os.ReadFile(filepath.Join(repo, "pkg/testdata/fonts/Roboto-Regular.ttf"))
	if err != nil || len(base) < 1000 {
		base, err = os.ReadFile(filepath.Join(repo, "pkg/pdfcpu/model/resources/Roboto-Regular.ttf"))
	}
	if err != nil || len(base) < 1000 {
		r.Count("font:no-base-font")
		return
	}
	for _, g := range fontDocs(r.Rand, base, r.Pick(300, 0), r.Thorough()) {
		addJob(g.name, g.data, fontOps, "fontDocs: "+g.name+" (base Roboto-Regular.ttf)", "")
		r.Count("input:font")
	}
}
