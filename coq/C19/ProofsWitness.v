(* C19 — machine-checked witnesses: the writer loses objects (genuine defects of pdfcpu),
   a document on which it loses nothing, and the key-list facts over C19.Generated. *)
From Coq Require Import List ZArith NArith Bool.
From PV Require Import C19.Generated C19.Model C19.Spec C19.ProofsClosed.
Import ListNotations.

Definition kCatalog : bytes := [67;97;116;97;108;111;103]%N.
Definition kLength : bytes := [76;101;110;103;116;104]%N.
Definition kTitle : bytes := [84;105;116;108;101]%N.
Definition kMetadata : bytes := [77;101;116;97;100;97;116;97]%N.

(* 1: catalog /Type /Pages 2 + extra   2: pages /Kids [3] /Count 1   3: page /Parent 2 /Contents 4
   4: stream   5: info /Title (x)       6: a dict that refers to 7      7: << >> *)
Definition page3 : obj :=
  ODict [(kType, OName kPage); (kParent, ORef 2); (kContents, ORef 4);
         (kMediaBox, OArr [OInt 0; OInt 0; OInt 100; OInt 100])].
Definition doc (extra : list (bytes * obj)) (fl6 : eflag) : graph :=
  [(1%N, (FValid, ODict ([(kType, OName kCatalog); (kPages, ORef 2)] ++ extra)));
   (2%N, (FValid, ODict [(kType, OName kPages); (kKids, OArr [ORef 3]); (kCount, OInt 1)]));
   (3%N, (FValid, page3));
   (4%N, (FValid, OStream [(kLength, OInt 3)] [1;2;3]%N));
   (5%N, (FValid, ODict [(kTitle, OAtom 3 [120]%N)]));
   (6%N, (fl6, ODict [(kFoo, ORef 7)]));
   (7%N, (FValid, ODict []))].

Definition run (g : graph) : wres := write_model g 101 (fuel_for g) false 1%N (Some 5%N).
Definition survivors (r : wres) : list N :=
  match r with WOk s => map fst s | _ => [] end.
Definition dangling_of (r : wres) : list N :=
  match r with WOk s => dangling s | _ => [99%N] end.

(* a listed catalog entry: everything reachable survives, nothing dangles *)
Lemma witness_listed : dangling_of (run (doc [(kMetadata, ORef 6)] FValid)) = [] /\
                       survivors (run (doc [(kMetadata, ORef 6)] FValid)) = [5;7;6;2;4;3;1]%N.
Proof. vm_compute. split; reflexivity. Qed.

(* the same object under the catalog entry /DSS (ISO 32000-2): dropped, the reference dangles *)
Lemma witness_unlisted_catalog : dangling_of (run (doc [(kDSS, ORef 6)] FValid)) = [6%N].
Proof. vm_compute. reflexivity. Qed.

(* a page entry the writer does not list (page-level /OutputIntents, ISO 32000-2) *)
Definition doc_page_oi : graph :=
  [(1%N, (FValid, ODict [(kType, OName kCatalog); (kPages, ORef 2)]));
   (2%N, (FValid, ODict [(kType, OName kPages); (kKids, OArr [ORef 3]); (kCount, OInt 1)]));
   (3%N, (FValid, ODict [(kType, OName kPage); (kParent, ORef 2); (kOutputIntents, OArr [ORef 6])]));
   (6%N, (FValid, ODict []))].
Lemma witness_unlisted_page :
  dangling_of (write_model doc_page_oi 101 (fuel_for doc_page_oi) false 1%N None) = [6%N].
Proof. vm_compute. reflexivity. Qed.

(* an object stream member that validation never decoded is written like any other object *)
Lemma witness_undecoded_member : dangling_of (run (doc [(kMetadata, ORef 6)] FInvalid)) = [].
Proof. vm_compute. reflexivity. Qed.

(* the key lists regenerated from write.go / writePages.go cover ISO 32000-1 ... *)
Lemma listed_keys_cover_iso32000_1 :
  forallb (fun k => memk k (root_keys_pre ++ root_keys_post)) iso32000_1_catalog_keys = true /\
  forallb (fun k => memk k page_keys) iso32000_1_page_keys = true /\
  forallb (fun k => memk k pages_keys) iso32000_1_pages_keys = true.
Proof. vm_compute. repeat split; reflexivity. Qed.

(* ... but not the ISO 32000-2 additions *)
Lemma pdf20_keys_not_listed :
  memk kDSS (root_keys_pre ++ root_keys_post) = false /\
  memk kAF (root_keys_pre ++ root_keys_post) = false /\
  memk kDPartRoot (root_keys_pre ++ root_keys_post) = false /\
  memk kOutputIntents page_keys = false /\ memk kAF page_keys = false /\ memk kDPart page_keys = false.
Proof. vm_compute. repeat split; reflexivity. Qed.
