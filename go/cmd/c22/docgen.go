// Synthetic documents with unique high-entropy ASCII markers in every kind of location.
package main

import (
	"bytes"
	"compress/zlib"
	"encoding/hex"
	"fmt"
	"math/rand"
	"strings"
)

type marker struct {
	Loc      string // location kind
	Text     string // the marker itself (ASCII, high entropy)
	Sig      bool   // lives in a signature /Contents value (allowed to stay in clear)
	Identity bool   // lives in a stream whose only filter is /Crypt with the Identity crypt filter (not enciphered by definition)
}

// filter pipelines with a crypt filter; enc encodes the payload for the pipeline (the Identity crypt filter is a no-op)
type cryptVariant struct {
	Name    string
	Filters string // /Filter value
	Parms   string // /DecodeParms value with the Identity crypt filter named explicitly ("" = none)
	Sole    bool
	Named   bool // the DecodeParms variant names a non-Identity crypt filter (/StdCF): such a stream is to be enciphered
	enc     func([]byte) []byte
}

func zl(b []byte) []byte {
	var buf bytes.Buffer
	w := zlib.NewWriter(&buf)
	w.Write(b)
	w.Close()
	return buf.Bytes()
}

func hexEnc(b []byte) []byte { return []byte(strings.ToUpper(hex.EncodeToString(b)) + ">") }

var cryptVariants = []cryptVariant{
	{"crypt", "[/Crypt]", "[<< /Type /CryptFilterDecodeParms /Name /Identity >>]", true, false, func(b []byte) []byte { return b }},
	{"crypt-stdcf", "[/Crypt]", "[<< /Type /CryptFilterDecodeParms /Name /StdCF >>]", true, true, func(b []byte) []byte { return b }},
	{"crypt-flate", "[/Crypt /FlateDecode]", "[<< /Name /Identity >> null]", false, false, zl},
	{"flate-crypt", "[/FlateDecode /Crypt]", "[null << /Name /Identity >>]", false, false, zl},
	{"crypt-hex-flate", "[/Crypt /ASCIIHexDecode /FlateDecode]", "[<< /Name /Identity >> null null]", false, false, func(b []byte) []byte { return hexEnc(zl(b)) }},
}


type genDoc struct {
	Name    string
	Bytes   []byte
	Markers []marker
}

const mkAlphabet = "ABCDEFGHIJKLMNOPQRSTUVWXYZabcdefghijklmnopqrstuvwxyz0123456789"

func newMarker(rnd *rand.Rand, loc string) marker {
	var sb strings.Builder
	sb.WriteString("MK")
	for i := 0; i < 22; i++ {
		sb.WriteByte(mkAlphabet[rnd.Intn(len(mkAlphabet))])
	}
	return marker{Loc: loc, Text: sb.String()}
}

type docOpts struct {
	Sig       bool // add a signature field + signature dictionary
	Private   bool // add private (non-standard) keys pointing to string-carrying objects
	ExtraStrs [][]byte // extra byte strings placed in a private array (boundary lengths etc.)
	Twice     bool     // objects reachable twice on the write path: first page listed twice in /Kids, one annotation and one resource dict shared by two pages, inline (direct) annotation dicts with strings in the page dict
	Crypt     string   // streams with crypt filters on: "embedded", "xobject", "content", "metadata" (comma separated)
	Pages     int
}

// buildDoc writes a small classic-xref PDF 1.7.
func buildDoc(rnd *rand.Rand, name string, o docOpts) genDoc {
	g := genDoc{Name: name}
	mk := func(loc string) string {
		m := newMarker(rnd, loc)
		g.Markers = append(g.Markers, m)
		return m.Text
	}
	hx := func(s string) string { return "<" + strings.ToUpper(hex.EncodeToString([]byte(s))) + ">" }
	if o.Pages < 1 {
		o.Pages = 1
	}
	objs := map[int]string{}
	next := 20
	alloc := func() int { next++; return next }

	// fixed numbers
	const (
		catalog = 1
		pages   = 2
		info    = 5
		priv    = 6
		font    = 8
		fspec   = 9
		efile   = 10
		field   = 11
		meta    = 13
		sigfld  = 14
		sigdict = 15
		outl    = 16
		outl1   = 17
		privstr = 18
		privhex = 19
	)
	// ---- streams with crypt filters ----
	want := func(k string) bool { return strings.Contains(","+o.Crypt+",", ","+k+",") }
	streamObj := func(dictEntries string, v cryptVariant, withParms bool, payload []byte) int {
		n := alloc()
		data := v.enc(payload)
		parms := ""
		if withParms {
			parms = " /DecodeParms " + v.Parms
		}
		objs[n] = fmt.Sprintf("<< %s /Filter %s%s /Length %d >>\nstream\n%s\nendstream", dictEntries, v.Filters, parms, len(data), data)
		return n
	}
	mkCrypt := func(kind string, v cryptVariant, withParms bool) string {
		loc := fmt.Sprintf("cryptfilter-%s-%s", kind, v.Name)
		if withParms {
			loc += "-parms"
		}
		m := newMarker(rnd, loc)
		m.Identity = v.Sole && !(v.Named && withParms)
		g.Markers = append(g.Markers, m)
		return m.Text
	}
	var extraNames, extraXObj, extraContents string
	for _, v := range cryptVariants {
		for _, wp := range []bool{false, true} {
			if want("embedded") {
				payload := []byte("attachment " + mkCrypt("embedded", v, wp) + " end\n")
				ef := streamObj(fmt.Sprintf("/Type /EmbeddedFile /Params << /Size %d >>", len(payload)), v, wp, payload)
				fs := alloc()
				objs[fs] = fmt.Sprintf("<< /Type /Filespec /F (c%d.txt) /UF (c%d.txt) /EF << /F %d 0 R >> >>", fs, fs, ef)
				extraNames += fmt.Sprintf(" (ZC%03d) %d 0 R", fs, fs)
			}
			if want("xobject") || want("metadata") {
				md := ""
				if want("metadata") {
					x := []byte(fmt.Sprintf("<?xpacket begin=\"\" id=\"W5M0MpCehiHzreSzNTczkc9d\"?>\n<x:xmpmeta xmlns:x=\"adobe:ns:meta/\"><rdf:RDF xmlns:rdf=\"http://www.w3.org/1999/02/22-rdf-syntax-ns#\"><rdf:Description rdf:about=\"\" xmlns:dc=\"http://purl.org/dc/elements/1.1/\"><dc:title><rdf:Alt><rdf:li xml:lang=\"x-default\">%s</rdf:li></rdf:Alt></dc:title></rdf:Description></rdf:RDF></x:xmpmeta>\n<?xpacket end=\"w\"?>\n", mkCrypt("metadata", v, wp)))
					md = fmt.Sprintf(" /Metadata %d 0 R", streamObj("/Type /Metadata /Subtype /XML", v, wp, x))
				}
				payload := []byte("q 1 0 0 1 0 0 cm Q\n")
				if want("xobject") {
					payload = []byte("q 1 0 0 1 0 0 cm Q\n%" + mkCrypt("xobject", v, wp) + "\n")
				}
				xo := streamObj("/Type /XObject /Subtype /Form /BBox [0 0 10 10]"+md, v, wp, payload)
				extraXObj += fmt.Sprintf(" /XC%d %d 0 R", xo, xo)
			}
			if want("content") {
				c := streamObj("", v, wp, []byte("q Q\n%"+mkCrypt("content", v, wp)+"\n"))
				extraContents += fmt.Sprintf(" %d 0 R", c)
			}
		}
	}
	sharedAnnot, sharedRes := 0, 0
	if o.Twice {
		sharedAnnot, sharedRes = alloc(), alloc()
		objs[sharedAnnot] = fmt.Sprintf("<< /Type /Annot /Subtype /Text /Rect [300 300 320 320] /Contents (%s) /T (%s) >>", mk("shared-annot-contents"), mk("shared-annot-T"))
		objs[sharedRes] = fmt.Sprintf("<< /Font << /F1 %d 0 R >> /Properties << /MC0 << /VerifTitle (%s) /VerifArr [(%s)] >> >> >>", font, mk("shared-resources-string"), mk("shared-resources-array-string"))
	}
	var kids []string
	var firstPage int
	for p := 0; p < o.Pages; p++ {
		pg, ct, an := alloc(), alloc(), alloc()
		if p == 0 {
			firstPage = pg
		}
		kids = append(kids, fmt.Sprintf("%d 0 R", pg))
		if o.Twice && p == 0 {
			kids = append(kids, fmt.Sprintf("%d 0 R", pg)) // the same page object a second time
		}
		content := fmt.Sprintf("BT /F1 12 Tf 50 700 Td (%s) Tj ET\n", mk("page-content-stream"))
		objs[ct] = fmt.Sprintf("<< /Length %d >>\nstream\n%sendstream", len(content), content)
		annots := fmt.Sprintf("%d 0 R", an)
		if p == 0 {
			annots += fmt.Sprintf(" %d 0 R", field)
			if o.Sig {
				annots += fmt.Sprintf(" %d 0 R", sigfld)
			}
		}
		resources := fmt.Sprintf("<< /Font << /F1 %d 0 R >>%s >>", font, "%XRES%")
		if o.Twice {
			// direct annotation dictionaries with strings inside the page dict itself, a shared indirect one, shared resources
			annots += fmt.Sprintf(" %d 0 R << /Type /Annot /Subtype /Text /Rect [10 10 30 30] /Contents (%s) /T (%s) /NM <%s> >>",
				sharedAnnot, mk("page-inline-annot-contents"), mk("page-inline-annot-T"), hex.EncodeToString([]byte(mk("page-inline-annot-NM-hex"))))
			resources = fmt.Sprintf("%d 0 R", sharedRes)
		}
		privEntries := ""
		if o.Twice {
			privEntries = fmt.Sprintf(" /LastModified (D:20240101120000Z) /PZ 1 /Tabs /S /VerifPageStr (%s)", mk("page-direct-string"))
		}
		if o.Private && p == 0 {
			privEntries = fmt.Sprintf(" /PieceInfo << /Verif << /LastModified (D:20200101000000Z) /Private << /Inline (%s) /Ref %d 0 R >> >> >>",
				mk("pieceinfo-direct-string"), priv)
		}
		contents, xres := fmt.Sprintf("%d 0 R", ct), ""
		if p == 0 && extraContents != "" {
			contents = fmt.Sprintf("[%d 0 R%s]", ct, extraContents)
		}
		if p == 0 && extraXObj != "" {
			xres = " /XObject <<" + extraXObj + " >>"
		}
		objs[pg] = fmt.Sprintf("<< /Type /Page /Parent %d 0 R /MediaBox [0 0 612 792] /Contents %s /Resources %s /Annots [%s]%s >>",
			pages, contents, strings.Replace(resources, "%XRES%", xres, 1), annots, privEntries)
		annPriv := ""
		if o.Private && p == 0 {
			annPriv = fmt.Sprintf(" /VerifPriv %d 0 R /VerifPrivStr %d 0 R /VerifPrivHex %d 0 R", priv, privstr, privhex)
		}
		var ex strings.Builder
		for _, b := range o.ExtraStrs {
			ex.WriteString(" <" + hex.EncodeToString(b) + "> " + litString(b))
		}
		objs[an] = fmt.Sprintf("<< /Type /Annot /Subtype /Text /Rect [100 100 120 120] /Contents (%s) /T %s /NM (%s) /P %d 0 R%s /VerifExtra [%s ] /VerifDirect << /S (%s) /A [(%s)] >> >>",
			mk("annot-contents"), hx(mk("annot-T-hex")), mk("annot-NM"), pg, annPriv, ex.String(), mk("annot-direct-dict-string"), mk("annot-direct-array-string"))
	}
	af := fmt.Sprintf("%d 0 R", field)
	tsfld, tsdict := 0, 0
	if o.Sig {
		tsfld, tsdict = alloc(), alloc()
		af += fmt.Sprintf(" %d 0 R %d 0 R", sigfld, tsfld)
	}
	sigflags := ""
	if o.Sig {
		sigflags = " /SigFlags 3"
	}
	objs[catalog] = fmt.Sprintf("<< /Type /Catalog /Pages %d 0 R /Metadata %d 0 R /Outlines %d 0 R /Names << /EmbeddedFiles << /Names [(%s) %d 0 R%s] >> >> /AcroForm << /Fields [%s] /DA (/F1 0 Tf 0 g)%s /DR << /Font << /F1 %d 0 R >> >> >> >>",
		pages, meta, outl, mk("nametree-key"), fspec, extraNames, af, sigflags, font)
	objs[pages] = fmt.Sprintf("<< /Type /Pages /Count %d /Kids [%s] >>", len(kids), strings.Join(kids, " "))
	objs[info] = fmt.Sprintf("<< /Title (%s) /Author %s /Subject (%s) /VerifCustom (%s) >>",
		mk("info-title"), hx(mk("info-author-hex")), mk("info-subject"), mk("info-custom-key"))
	var extra strings.Builder
	for _, b := range o.ExtraStrs {
		extra.WriteString(" <" + hex.EncodeToString(b) + ">")
		extra.WriteString(" " + litString(b))
	}
	objs[priv] = fmt.Sprintf("<< /Note (%s) /Arr [(%s) [%s << /Deep (%s) /Deeper [[(%s)]] >>]] /Extra [%s ] >>",
		mk("private-dict-string"), mk("private-array-string"), hx(mk("private-nested-hex")), mk("private-nested-dict-string"), mk("private-deep-array-string"), extra.String())
	objs[privstr] = fmt.Sprintf("(%s)", mk("private-indirect-string-object"))
	objs[privhex] = hx(mk("private-indirect-hex-object"))
	objs[font] = "<< /Type /Font /Subtype /Type1 /BaseFont /Helvetica /Encoding /WinAnsiEncoding >>"
	objs[fspec] = fmt.Sprintf("<< /Type /Filespec /F (%s.txt) /UF (%s.txt) /Desc (%s) /EF << /F %d 0 R >> >>",
		mk("filespec-F"), mk("filespec-UF"), mk("filespec-Desc"), efile)
	ef := fmt.Sprintf("attachment payload %s end\n", mk("embedded-file-stream"))
	objs[efile] = fmt.Sprintf("<< /Type /EmbeddedFile /Length %d /Params << /Size %d /VerifNote (%s) >> /VerifHex %s >>\nstream\n%sendstream", len(ef), len(ef), mk("stream-dict-nested-string"), hx(mk("stream-dict-hex")), ef)
	objs[field] = fmt.Sprintf("<< /Type /Annot /Subtype /Widget /FT /Tx /T (%s) /TU (%s) /V (%s) /DV (%s) /Rect [200 200 300 220] /DA (/F1 0 Tf 0 g) /P %d 0 R /F 4 >>",
		mk("field-T"), mk("field-TU"), mk("field-V"), mk("field-DV"), firstPage)
	xmp := fmt.Sprintf("<?xpacket begin=\"\" id=\"W5M0MpCehiHzreSzNTczkc9d\"?>\n<x:xmpmeta xmlns:x=\"adobe:ns:meta/\"><rdf:RDF xmlns:rdf=\"http://www.w3.org/1999/02/22-rdf-syntax-ns#\"><rdf:Description rdf:about=\"\" xmlns:dc=\"http://purl.org/dc/elements/1.1/\"><dc:title><rdf:Alt><rdf:li xml:lang=\"x-default\">%s</rdf:li></rdf:Alt></dc:title></rdf:Description></rdf:RDF></x:xmpmeta>\n<?xpacket end=\"w\"?>\n", mk("xmp-metadata-stream"))
	objs[meta] = fmt.Sprintf("<< /Type /Metadata /Subtype /XML /Length %d >>\nstream\n%sendstream", len(xmp), xmp)
	objs[outl] = fmt.Sprintf("<< /Type /Outlines /First %d 0 R /Last %d 0 R /Count 1 >>", outl1, outl1)
	objs[outl1] = fmt.Sprintf("<< /Title (%s) /Parent %d 0 R /Dest [%d 0 R /Fit] >>", mk("outline-title"), outl, firstPage)
	if o.Sig {
		sm := newMarker(rnd, "signature-contents")
		sm.Sig = true
		g.Markers = append(g.Markers, sm)
		// the signature value carries the marker bytes inside a hex string, padded
		sigBytes := append([]byte(sm.Text), bytes.Repeat([]byte{0}, 40)...)
		objs[sigfld] = fmt.Sprintf("<< /Type /Annot /Subtype /Widget /FT /Sig /T (%s) /V %d 0 R /Rect [0 0 0 0] /P %d 0 R /F 132 >>",
			mk("sigfield-T"), sigdict, firstPage)
		objs[sigdict] = fmt.Sprintf("<< /Type /Sig /Filter /Adobe.PPKLite /SubFilter /adbe.pkcs7.detached /ByteRange [0 0 0 0] /Contents <%s> /Reason (%s) /Name (%s) /Location (%s) /M (D:20240101120000Z) >>",
			hex.EncodeToString(sigBytes), mk("sig-Reason"), mk("sig-Name"), mk("sig-Location"))
		// a document time stamp: /Type /DocTimeStamp, the second kind of dictionary whose /Contents is exempt
		tm := newMarker(rnd, "doctimestamp-contents")
		tm.Sig = true
		g.Markers = append(g.Markers, tm)
		tsBytes := append([]byte(tm.Text), bytes.Repeat([]byte{0x30, 0x82, 0x01}, 11)...)
		objs[tsfld] = fmt.Sprintf("<< /Type /Annot /Subtype /Widget /FT /Sig /T (%s) /V %d 0 R /Rect [0 0 0 0] /P %d 0 R /F 132 >>",
			mk("tsfield-T"), tsdict, firstPage)
		objs[tsdict] = fmt.Sprintf("<< /Type /DocTimeStamp /Filter /Adobe.PPKLite /SubFilter /ETSI.RFC3161 /ByteRange [0 0 0 0] /Contents <%s> >>",
			hex.EncodeToString(tsBytes))
	}

	var buf bytes.Buffer
	buf.WriteString("%PDF-1.7\n%\xe2\xe3\xcf\xd3\n")
	max := next
	offs := make([]int, max+1)
	for n := 1; n <= max; n++ {
		s, ok := objs[n]
		if !ok {
			continue
		}
		offs[n] = buf.Len()
		fmt.Fprintf(&buf, "%d 0 obj\n%s\nendobj\n", n, s)
	}
	xref := buf.Len()
	fmt.Fprintf(&buf, "xref\n0 %d\n", max+1)
	buf.WriteString("0000000000 65535 f \n")
	for n := 1; n <= max; n++ {
		if offs[n] == 0 {
			buf.WriteString("0000000000 00000 f \n")
		} else {
			fmt.Fprintf(&buf, "%010d 00000 n \n", offs[n])
		}
	}
	id := hex.EncodeToString([]byte(newMarker(rnd, "").Text[:16]))
	fmt.Fprintf(&buf, "trailer\n<< /Size %d /Root %d 0 R /Info %d 0 R /ID [<%s> <%s>] >>\nstartxref\n%d\n%%%%EOF\n", max+1, catalog, info, id, id, xref)
	g.Bytes = buf.Bytes()
	return g
}

// litString writes b as a PDF literal string with octal escapes for everything unusual.
func litString(b []byte) string {
	var sb strings.Builder
	sb.WriteByte('(')
	for _, c := range b {
		switch {
		case c == '(' || c == ')' || c == '\\':
			sb.WriteByte('\\')
			sb.WriteByte(c)
		case c < 32 || c > 126:
			fmt.Fprintf(&sb, "\\%03o", c)
		default:
			sb.WriteByte(c)
		}
	}
	sb.WriteByte(')')
	return sb.String()
}
