#!/bin/sh
# Re-run every claimed check on /repo (sequentially) and print one verdict line per property.
cd /verif
TIER=${1:-quick}
for p in $(python3 -c "import json;print(' '.join(json.load(open('props/ready.json'))))"); do
  ./check $p --tier $TIER 2>&1 | grep -E "^(OK|FAIL|VIOLATION)" | cut -c1-200
done
