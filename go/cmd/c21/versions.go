package main

// Version matrix (C21): inputs with every combination of header version 1.0-1.7 and catalog
// /Version (absent, 1.0-1.7, 2.0), operations that add version-gated features, and after every
// write: (O) relaxed validation, (O) the effective version of the output (catalog /Version if
// present, else header) is not lower than the since-version of any feature found in it,
// (K) header and catalog version of the output are what the model write_versions predicts.

import (
	"bytes"
	"encoding/hex"
	"fmt"
	"io"
	"math/rand"
	"regexp"

	"github.com/pdfcpu/pdfcpu/pkg/api"
	"github.com/pdfcpu/pdfcpu/pkg/pdfcpu/color"
	"github.com/pdfcpu/pdfcpu/pkg/pdfcpu/model"
	"github.com/pdfcpu/pdfcpu/pkg/pdfcpu/types"
	"verif/vh"
)

var headerRe = regexp.MustCompile(`^%PDF-(\d)\.(\d)`)

func verNum(s string) int {
	if len(s) == 3 && s[1] == '.' {
		return int(s[0]-'0')*10 + int(s[2]-'0')
	}
	return -1
}

// outputVersions: header version, catalog /Version (-1: none), and the highest since-version of
// the version-gated features present, with the feature's name.
func outputVersions(out []byte, upw, opw string) (header, root, need int, feature string, err error) {
	root = -1
	m := headerRe.FindSubmatch(out)
	if m == nil {
		return 0, 0, 0, "", fmt.Errorf("no header")
	}
	header = int(m[1][0]-'0')*10 + int(m[2][0]-'0')
	err = guard(func() error {
		c := newConf()
		c.UserPW, c.OwnerPW = upw, opw
		ctx, e := api.ReadContext(bytes.NewReader(out), c)
		if e != nil {
			return e
		}
		cat, e := ctx.Catalog()
		if e != nil {
			return e
		}
		if v := cat.NameEntry("Version"); v != nil {
			root = verNum(*v)
		}
		req := func(v int, name string) {
			if v > need {
				need, feature = v, name
			}
		}
		if ctx.Read.UsingObjectStreams {
			req(15, "object streams")
		}
		if ctx.Read.UsingXRefStreams {
			req(15, "xref streams")
		}
		if _, ok := cat["Collection"]; ok {
			req(17, "catalog /Collection")
		}
		if _, ok := cat["OCProperties"]; ok {
			req(15, "catalog /OCProperties")
		}
		if pm, ok := cat["PageMode"].(types.Name); ok {
			switch pm {
			case "UseOC":
				req(15, "PageMode UseOC")
			case "UseAttachments":
				req(16, "PageMode UseAttachments")
			}
		}
		if pl, ok := cat["PageLayout"].(types.Name); ok && (pl == "TwoPageLeft" || pl == "TwoPageRight") {
			req(15, "PageLayout "+string(pl))
		}
		if ctx.Encrypt != nil {
			if ed, _ := ctx.DereferenceDict(*ctx.Encrypt); ed != nil {
				if v := ed.IntEntry("V"); v != nil {
					if *v == 4 {
						req(15, "encryption V4 (crypt filters)")
					}
					if *v >= 5 {
						req(17, "encryption V5 (AES-256)")
					}
				}
			}
		}
		for _, e := range ctx.Table {
			if e == nil || e.Free {
				continue
			}
			d, ok := e.Object.(types.Dict)
			if !ok {
				continue
			}
			st, _ := d["Subtype"].(types.Name)
			if _, isAnnot := d["Rect"]; isAnnot {
				if _, ok := d["BE"]; ok && (st == "Square" || st == "Circle" || st == "Polygon" || st == "FreeText") {
					req(15, string(st)+" /BE")
				}
				if _, ok := d["LLO"]; ok && st == "Line" {
					req(17, "Line /LLO")
				}
				if _, ok := d["LLE"]; ok && st == "Line" {
					req(16, "Line /LLE")
				}
				if _, ok := d["IT"]; ok {
					req(16, string(st)+" /IT")
				}
			}
			if t, _ := d["Type"].(types.Name); t == "Page" {
				if _, ok := d["UserUnit"]; ok {
					req(16, "page /UserUnit")
				}
				if _, ok := d["Tabs"]; ok {
					req(15, "page /Tabs")
				}
			}
			if t, _ := d["Type"].(types.Name); t == "ExtGState" {
				if _, ok := d["ca"]; ok {
					req(14, "ExtGState /ca")
				}
			}
		}
		return nil
	})
	return
}

func squareCloudy() model.AnnotationRenderer {
	return model.NewSquareAnnotation(*types.NewRectangle(30, 30, 90, 90), 0, "cloudy square", "IDsq", "", 0, &color.Gray, "T", nil, nil, "", "",
		&color.Blue, 0, 0, 0, 0, 1, model.BSSolid, true, 1)
}

func lineAnn(llo float64, intent *model.LineIntent) model.AnnotationRenderer {
	le := model.LEOpenArrow
	return model.NewLineAnnotation(*types.NewRectangle(30, 30, 110, 110), 0, "line", "IDln", "", 0, &color.DarkGray, "T", nil, nil, "", "",
		types.NewPoint(40, 40), types.NewPoint(100, 100), &le, &le, 20, llo, 5, intent, nil, false, false, 0, 0, nil, 1, model.BSSolid)
}

func versionOps(opsList []op, modern []byte) []op {
	byName := map[string]op{}
	for _, o := range opsList {
		byName[o.name] = o
	}
	annot := func(name string, mk func() model.AnnotationRenderer) op {
		return op{name, func(r *rand.Rand, doc []byte, n int, e *env) (*opResult, string, error) {
			res, err := rw(doc, func(rs io.ReadSeeker, w io.Writer) error { return api.AddAnnotations(rs, w, nil, mk(), newConf()) })
			return res, "", err
		}}
	}
	l := []op{
		annot("annot-square-cloudy", squareCloudy),
		annot("annot-line-llo", func() model.AnnotationRenderer { return lineAnn(7, nil) }),
		annot("annot-line-intent", func() model.AnnotationRenderer { it := model.IntentLineArrow; return lineAnn(0, &it) }),
		{"merge-modern", func(r *rand.Rand, doc []byte, n int, e *env) (*opResult, string, error) {
			var w bytes.Buffer
			first := r.Intn(2) == 0
			rsc := []io.ReadSeeker{bytes.NewReader(doc), bytes.NewReader(modern)}
			if first {
				rsc[0], rsc[1] = rsc[1], rsc[0]
			}
			if err := api.MergeRaw(rsc, &w, r.Intn(2) == 0, newConf()); err != nil {
				return nil, "", err
			}
			return one(&w), fmt.Sprintf("modern-first=%v", first), nil
		}},
		{"merge-zip-modern", func(r *rand.Rand, doc []byte, n int, e *env) (*opResult, string, error) {
			var w bytes.Buffer
			if err := api.MergeCreateZip(bytes.NewReader(doc), bytes.NewReader(modern), &w, newConf()); err != nil {
				return nil, "", err
			}
			return one(&w), "", nil
		}},
	}
	for _, name := range []string{"watermark-text", "watermark-pdf", "encrypt", "optimize", "attachments-add", "viewerprefs", "pagelayout",
		"pagemode", "resize", "zoom", "rotate", "bookmarks-add", "insertpages", "boxes-add", "nup", "collect"} {
		l = append(l, byName[name])
	}
	return l
}

func versionMatrix(r *vh.Run, e *env, opsList []op) {
	headers := []string{"1.0", "1.1", "1.2", "1.3", "1.4", "1.5", "1.6", "1.7"}
	roots := []string{"-", "1.0", "1.1", "1.2", "1.3", "1.4", "1.5", "1.6", "1.7", "2.0"}
	// a modern document: header 1.7, a cloudy square annotation (BE, since 1.5)
	var modern []byte
	for modern == nil {
		d, _ := genDoc(r.Rand, genOpts{header: "1.7", rootVer: "-", forcePages: 2})
		if validate(d, "", "") != nil {
			continue
		}
		if res, err := rw(d, func(rs io.ReadSeeker, w io.Writer) error { return api.AddAnnotations(rs, w, nil, squareCloudy(), newConf()) }); err == nil && validate(res.outs[0], "", "") == nil {
			modern = res.outs[0]
		}
	}
	vops := versionOps(opsList, modern)
	step := r.Pick(7, 1) // quick: every 7th combination (11-12 of 80, all headers and catalog versions over the seeds)
	k := int(r.Seed % int64(step))
	if k < 0 {
		k = 0
	}
	for hi, h := range headers {
		for ri, rv := range roots {
			if (hi*len(roots)+ri)%step != k {
				continue
			}
			doc, di := genDoc(r.Rand, genOpts{header: h, rootVer: rv, forcePages: 1 + r.Rand.Intn(3)})
			if validate(doc, "", "") != nil {
				r.Count("versions:input-invalid")
				continue
			}
			r.Count("versions:input header=" + h)
			r.Count("versions:input root=" + rv)
			strictIn := validateStrict(doc, "", "") == nil
			nOps := r.Pick(8, len(vops))
			for j := 0; j < nOps; j++ {
				o := vops[(j+hi+ri)%len(vops)]
				if r.Thorough() {
					o = vops[j]
				}
				var res *opResult
				var params string
				err := guard(func() error {
					var e2 error
					res, params, e2 = o.run(r.Rand, doc, 3, e)
					return e2
				})
				input := map[string]any{"doc": fmt.Sprintf("ver-h%s-r%s", h, rv), "desc": fmt.Sprint(di.desc), "pdf": hex.EncodeToString(doc)}
				if err != nil {
					if len(err.Error()) > 5 && err.Error()[:5] == "PANIC" {
						input["operation"], input["params"] = o.name, params
						r.OracleFail("panic:"+o.name, input, err.Error())
					} else {
						r.Count("versions-op-error:" + o.name)
					}
					continue
				}
				checkOutputs(r, o.name, params, input, res, strictIn)
				for _, out := range res.outs {
					if len(out) == 0 {
						continue
					}
					oh, or, need, feat, err := outputVersions(out, res.upw, res.opw)
					if err != nil {
						continue
					}
					eff := oh
					if or >= 0 {
						eff = or
					}
					in2 := map[string]any{"doc": input["doc"], "desc": input["desc"], "pdf": input["pdf"], "operation": o.name, "params": params}
					if eff < need {
						r.OracleFail("output-version-too-low:"+o.name, in2, fmt.Sprintf("output header %d, catalog /Version %d: effective version %d is lower than %d required by %s", oh, or, eff, need, feat))
					} else {
						r.OracleOK()
					}
					// K: what WriteContext does with the versions (inputs that are not PDF 2.0)
					inEff := verNum(h)
					rArg := "-"
					if rv != "-" {
						inEff = verNum(rv)
						rArg = vh.Int(int64(verNum(rv)))
					}
					if inEff != 20 {
						orS := "-"
						if or >= 0 {
							orS = vh.Int(int64(or))
						}
						r.Case("versions", []string{"false", vh.Int(int64(verNum(h))), rArg}, "header="+vh.Int(int64(oh))+" root="+orS)
					}
				}
			}
		}
	}
}
