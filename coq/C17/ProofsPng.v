(* C17 — the PNG row filters of processRow / filterPaeth against RFC 2083, one row. *)
From Coq Require Import ZArith NArith List Bool Lia ZifyBool ZifyNat ZifyN Arith.
From PV Require Import Lib.GoInt C17.Model C17.Spec C17.ProofsBase.
Import ListNotations.
Open Scope Z_scope.

Lemma Inv_lt R cd0 i cd k : Inv R cd0 i cd -> (k < i)%nat -> (k < length R)%nat -> get cd k = get R k.
Proof.
  intros [_ Hk] Hki Hkn. rewrite (Hk k Hkn).
  replace (k <? i)%nat with true by (symmetry; apply Nat.ltb_lt; lia). reflexivity.
Qed.

Lemma Inv_ge R cd0 i cd k : Inv R cd0 i cd -> (i <= k)%nat -> (k < length R)%nat -> get cd k = get cd0 k.
Proof.
  intros [_ Hk] Hki Hkn. rewrite (Hk k Hkn).
  replace (k <? i)%nat with false by (symmetry; apply Nat.ltb_ge; lia). reflexivity.
Qed.

Lemma before_lt l x bpp : (x < bpp)%nat -> before l x bpp = 0%N.
Proof. intros H. unfold before. now replace (x <? bpp)%nat with true by (symmetry; apply Nat.ltb_lt; lia). Qed.

Lemma before_ge l x bpp : (bpp <= x)%nat -> before l x bpp = get l (x - bpp).
Proof. intros H. unfold before, get. now replace (x <? bpp)%nat with false by (symmetry; apply Nat.ltb_ge; lia). Qed.

Lemma mod256_small a : (a < 256)%N -> ((a + 0) mod 256 = a)%N.
Proof. intros H. rewrite N.add_0_r. apply N.mod_small. exact H. Qed.

(* the inlined selection of filterPaeth on ints holding bytes *)
Lemma paeth_inline_eq (A B C : N) : (A < 256)%N -> (B < 256)%N -> (C < 256)%N ->
  (let a := Z.of_N A in let b := Z.of_N B in let c := Z.of_N C in
   let pa := b - c in let pb := a - c in
   let pc := go_abs (pa + pb) in let pa := go_abs pa in let pb := go_abs pb in
   if (pa <=? pb) && (pa <=? pc) then a else if pb <=? pc then b else c)
  = Z.of_N (PaethPredictor A B C).
Proof.
  intros HA HB HC. cbv zeta. unfold PaethPredictor. cbv zeta.
  assert (H29 : 2 ^ 29 = 536870912) by reflexivity.
  destruct (paeth_select_eq (Z.of_N A) (Z.of_N B) (Z.of_N C)) as (E1 & E2 & E3); try lia.
  rewrite E1, E2, E3.
  destruct (_ && _); [reflexivity|]. destruct (_ <=? _); reflexivity.
Qed.

Lemma land255 (P F : N) : Z.land (Z.of_N P + Z.of_N F) 255 = Z.of_N ((F + P) mod 256)%N.
Proof.
  change 255 with (Z.ones 8). rewrite Z.land_ones by lia.
  rewrite N2Z.inj_mod. rewrite N2Z.inj_add. f_equal. lia.
Qed.


Section Row.
  Variable bpp : nat.
  Variables filt prior : list N.
  Hypothesis Hbpp : (1 <= bpp)%nat.
  Hypothesis Hlen : length prior = length filt.
  Hypothesis Hwf : wf filt.
  Hypothesis Hwp : wf prior.

  Let R (ft : N) := unfilter_row ft bpp filt prior.

  Lemma R_len ft : length (R ft) = length filt.
  Proof. apply unfilter_row_length. Qed.

  (* type 0 *)
  Lemma none_ok : filt = R 0.
  Proof.
    apply list_eq_get; [now rewrite R_len|]. intros k Hk.
    unfold R. rewrite unfilter_row_get by assumption. simpl.
    symmetry. apply mod256_small. now apply wf_get.
  Qed.

  (* type 1 *)
  Lemma sub_start k : (k < bpp)%nat -> (k < length (R 1))%nat -> get filt k = get (R 1) k.
  Proof.
    intros Hkb Hk. rewrite R_len in Hk. unfold R. rewrite unfilter_row_get by assumption.
    rewrite before_lt by exact Hkb. simpl. symmetry. apply mod256_small. now apply wf_get.
  Qed.

  Lemma sub_ok : pngSub filt bpp = R 1.
  Proof.
    unfold pngSub. destruct (le_lt_dec bpp (length filt)) as [Hle|Hgt].
    - apply (Inv_final (R 1) filt (bpp + (length filt - bpp))); [rewrite R_len; lia|].
      apply (fold_upd_inv (fun cd i => add8 (get cd i) (get cd (i - bpp)))).
      + rewrite R_len. lia.
      + apply Inv_start; [now rewrite R_len|]. exact sub_start.
      + intros i cd' Hi Hinv. pose proof (R_len 1) as HR.
        rewrite (Inv_ge _ _ _ _ i Hinv) by lia.
        rewrite (Inv_lt _ _ _ _ (i - bpp) Hinv) by lia.
        unfold R at 2. rewrite unfilter_row_get by (try assumption; lia).
        rewrite before_ge by lia. reflexivity.
    - replace (length filt - bpp)%nat with 0%nat by lia. simpl.
      apply (Inv_final (R 1) filt bpp); [rewrite R_len; lia|].
      apply Inv_start; [now rewrite R_len|]. exact sub_start.
  Qed.

  (* type 2 *)
  Lemma up_ok : pngUp filt prior = R 2.
  Proof.
    unfold pngUp. rewrite Hlen.
    apply (Inv_final (R 2) filt (0 + length filt)); [rewrite R_len; lia|].
    apply (fold_upd_inv (fun cd i => add8 (get cd i) (get prior i))).
    - rewrite R_len. lia.
    - apply Inv_start; [now rewrite R_len|]. intros k Hk. lia.
    - intros i cd' Hi Hinv. pose proof (R_len 2) as HR.
      rewrite (Inv_ge _ _ _ _ i Hinv) by lia.
      unfold R. rewrite unfilter_row_get by (try assumption; lia). reflexivity.
  Qed.

  (* type 3 *)
  Lemma average_ok : (bpp <= length filt)%nat -> pngAverage filt prior bpp = R 3.
  Proof.
    intros Hle. unfold pngAverage. cbv zeta. pose proof (R_len 3) as HR.
    apply (Inv_final (R 3) filt (bpp + (length filt - bpp))); [lia|].
    apply (fold_upd_inv (fun cd i => add8 (get cd i) (((get cd (i - bpp) + get prior i) / 2) mod 256)%N)).
    - lia.
    - change bpp with (0 + bpp)%nat at 1.
      apply (fold_upd_inv (fun cd i => add8 (get cd i) (get prior i / 2)%N)).
      + lia.
      + apply Inv_start; [now rewrite R_len|]. intros k Hk. lia.
      + intros i cd' Hi Hinv.
        rewrite (Inv_ge _ _ _ _ i Hinv) by lia.
        unfold R. rewrite unfilter_row_get by (try assumption; lia).
        rewrite before_lt by lia. reflexivity.
    - intros i cd' Hi Hinv.
      rewrite (Inv_ge _ _ _ _ i Hinv) by lia.
      rewrite (Inv_lt _ _ _ _ (i - bpp) Hinv) by lia.
      unfold R at 2. rewrite unfilter_row_get by (try assumption; lia).
      rewrite before_ge by lia. unfold add8, predict.
      rewrite N.add_mod_idemp_r by lia. reflexivity.
  Qed.

  Local Open Scope nat_scope.
  (* ---------- type 4: filterPaeth walks the row one residue class (mod bpp) at a time ---------- *)
  (* bytes already reconstructed when the outer loop is at i and the inner loop at j *)
  Definition doneP (i j k : nat) : bool :=
    (k mod bpp <? i)%nat || ((k mod bpp =? i)%nat && (k <? j)%nat).

  Definition PInv (i j : nat) (cd : list N) : Prop :=
    length cd = length filt /\
    forall k, (k < length filt)%nat -> get cd k = if doneP i j k then get (R 4) k else get filt k.

  Lemma mod_close j k : j mod bpp = k mod bpp -> (j <= k < j + bpp)%nat -> k = j.
  Proof.
    intros Hm Hr.
    pose proof (Nat.div_mod j bpp ltac:(lia)) as Hj.
    pose proof (Nat.div_mod k bpp ltac:(lia)) as Hk.
    rewrite Hm in Hj.
    assert (Hq : (k / bpp = j / bpp)%nat) by nia.
    rewrite Hq in Hk. lia.
  Qed.

  Lemma doneP_class_end i j k : (length filt <= j)%nat -> (k < length filt)%nat ->
    doneP i j k = doneP (S i) (S i) k.
  Proof.
    intros Hj Hk. unfold doneP.
    pose proof (Nat.mod_le k bpp ltac:(lia)) as Hle.
    destruct (k mod bpp <? i)%nat eqn:E1, (k mod bpp =? i)%nat eqn:E2, (k <? j)%nat eqn:E3,
             (k mod bpp <? S i)%nat eqn:E4, (k mod bpp =? S i)%nat eqn:E5, (k <? S i)%nat eqn:E6;
      simpl; try reflexivity; exfalso;
      repeat match goal with
             | H : (_ <? _)%nat = true |- _ => apply Nat.ltb_lt in H
             | H : (_ <? _)%nat = false |- _ => apply Nat.ltb_ge in H
             | H : (_ =? _)%nat = true |- _ => apply Nat.eqb_eq in H
             | H : (_ =? _)%nat = false |- _ => apply Nat.eqb_neq in H
             end; lia.
  Qed.

  Lemma doneP_step i j k : j mod bpp = i ->
    doneP i (j + bpp) k = if (k =? j)%nat then true else doneP i j k.
  Proof.
    intros Hj. unfold doneP. destruct (k =? j)%nat eqn:Ekj.
    - apply Nat.eqb_eq in Ekj. subst k. rewrite Hj, Nat.eqb_refl.
      replace (j <? j + bpp)%nat with true by (symmetry; apply Nat.ltb_lt; lia).
      now rewrite orb_true_r.
    - apply Nat.eqb_neq in Ekj.
      destruct (k mod bpp =? i)%nat eqn:E2; [|reflexivity].
      apply Nat.eqb_eq in E2.
      destruct (k <? j + bpp)%nat eqn:E3, (k <? j)%nat eqn:E4; try reflexivity; exfalso.
      + apply Nat.ltb_lt in E3. apply Nat.ltb_ge in E4.
        apply Ekj. apply mod_close; [congruence|lia].
      + apply Nat.ltb_ge in E3. apply Nat.ltb_lt in E4. lia.
  Qed.

  Lemma doneP_self i j : j mod bpp = i -> doneP i j j = false.
  Proof.
    intros Hj. unfold doneP. rewrite Hj, Nat.ltb_irrefl, Nat.ltb_irrefl. now rewrite andb_false_r.
  Qed.

  Lemma paeth_inner_ok i : (i < bpp)%nat ->
    forall fuel j a c cd,
      j mod bpp = i -> (length filt <= j + fuel)%nat -> PInv i j cd ->
      a = Z.of_N (before (R 4) j bpp) -> c = Z.of_N (before prior j bpp) ->
      exists cd', paeth_inner fuel bpp j a c prior cd = Some cd' /\ PInv (S i) (S i) cd'.
  Proof.
    intros Hi. induction fuel as [|fuel IH]; intros j a c cd Hj Hfuel Hinv Ha Hc.
    - exists cd. destruct Hinv as [Hl Hk]. simpl.
      replace (j <? length cd)%nat with false by (symmetry; apply Nat.ltb_ge; lia).
      split; [reflexivity|]. split; [exact Hl|].
      intros k Hkn. rewrite (Hk k Hkn). rewrite (doneP_class_end i j k) by lia. reflexivity.
    - destruct Hinv as [Hl Hk]. simpl.
      destruct (j <? length cd)%nat eqn:Ej.
      + apply Nat.ltb_lt in Ej. rewrite Hl in Ej.
        assert (Hcdj : get cd j = get filt j).
        { rewrite (Hk j Ej). now rewrite doneP_self. }
        assert (Hb1 : (before (R 4) j bpp < 256)%N).
        { unfold before. destruct (j <? bpp)%nat; [lia|]. apply (wf_get (R 4)). apply unfilter_row_wf. }
        assert (Hb2 : (get prior j < 256)%N) by now apply wf_get.
        assert (Hb3 : (before prior j bpp < 256)%N).
        { unfold before. destruct (j <? bpp)%nat; [lia|]. now apply (wf_get prior). }
        subst a c.
        pose proof (paeth_inline_eq _ _ _ Hb1 Hb2 Hb3) as Hsel. cbv zeta in Hsel.
        rewrite Hsel. rewrite Hcdj. rewrite land255. rewrite N2Z.id.
        assert (HRj : get (R 4) j = ((get filt j + PaethPredictor (before (R 4) j bpp) (get prior j) (before prior j bpp)) mod 256)%N).
        { unfold R. rewrite unfilter_row_get by assumption. reflexivity. }
        rewrite <- HRj.
        apply IH.
        * replace (j + bpp)%nat with (j + 1 * bpp)%nat by lia. rewrite Nat.mod_add by lia. exact Hj.
        * lia.
        * split; [now rewrite upd_length|]. intros k Hkn.
          rewrite doneP_step by exact Hj.
          destruct (k =? j)%nat eqn:Ekj.
          -- apply Nat.eqb_eq in Ekj. subst k. apply get_upd_eq. lia.
          -- apply Nat.eqb_neq in Ekj. rewrite get_upd_neq by lia. apply Hk. exact Hkn.
        * rewrite before_ge by lia. now replace (j + bpp - bpp)%nat with j by lia.
        * rewrite before_ge by lia. now replace (j + bpp - bpp)%nat with j by lia.
      + exists cd. apply Nat.ltb_ge in Ej. rewrite Hl in Ej.
        split; [reflexivity|]. split; [exact Hl|].
        intros k Hkn. rewrite (Hk k Hkn). rewrite (doneP_class_end i j k) by lia. reflexivity.
  Qed.

  Lemma paeth_outer_ok : forall cnt i cd, (i + cnt = bpp)%nat -> PInv i i cd ->
    exists cd', fold_left (fun acc i => match acc with
                                        | None => None
                                        | Some cd => paeth_inner (length cd) bpp i 0%Z 0%Z prior cd
                                        end) (seq i cnt) (Some cd) = Some cd' /\ PInv bpp bpp cd'.
  Proof.
    induction cnt as [|cnt IH]; intros i cd Hic Hinv.
    - exists cd. simpl. replace bpp with i by lia. now split.
    - simpl. destruct (paeth_inner_ok i ltac:(lia) (length cd) i 0%Z 0%Z cd) as (cd1 & E1 & Hinv1).
      + apply Nat.mod_small. lia.
      + destruct Hinv as [Hl _]. lia.
      + exact Hinv.
      + now rewrite before_lt by lia.
      + now rewrite before_lt by lia.
      + rewrite E1. apply IH; [lia|exact Hinv1].
  Qed.

  Lemma paeth_ok : filterPaeth filt prior bpp = Some (R 4).
  Proof.
    unfold filterPaeth.
    destruct (paeth_outer_ok bpp 0 filt ltac:(lia)) as (cd' & E & [Hl Hk]).
    - split; [reflexivity|]. intros k Hkn. unfold doneP.
      assert (H1 : (k mod bpp <? 0) = false) by (apply Nat.ltb_ge; lia).
      assert (H2 : (k <? 0) = false) by (apply Nat.ltb_ge; lia).
      rewrite H1, H2, andb_false_r. reflexivity.
    - rewrite E. f_equal. apply list_eq_get; [now rewrite R_len|].
      intros k Hkn. rewrite Hl in Hkn. rewrite (Hk k Hkn). unfold doneP.
      replace (k mod bpp <? bpp)%nat with true; [reflexivity|].
      symmetry. apply Nat.ltb_lt. apply Nat.mod_upper_bound. lia.
  Qed.
End Row.
Local Close Scope nat_scope.

(* processRow on a PNG row  ft :: filt  with the previous buffer pr *)
Lemma processRow_png pr ft filt p colors bppZ :
  p <> 2 -> 1 <= bppZ -> (Z.to_nat bppZ <= length filt)%nat ->
  length pr = S (length filt) -> wf filt -> wf pr ->
  processRow pr (ft :: filt) p colors bppZ =
  if (ft <=? 4)%N then Some (unfilter_row ft (Z.to_nat bppZ) filt (tl pr)) else None.
Proof.
  intros Hp Hb Hble Hlen Hwf Hwp. unfold processRow.
  replace (p =? 2) with false by (symmetry; apply Z.eqb_neq; exact Hp).
  cbv zeta. change (get (ft :: filt) 0) with ft. change (tl (ft :: filt)) with filt.
  assert (Hbn : (1 <= Z.to_nat bppZ)%nat) by lia.
  assert (Hlt : length (tl pr) = length filt) by (destruct pr; simpl in *; lia).
  assert (Hwt : wf (tl pr)) by now apply wf_tl.
  destruct (ft =? 0)%N eqn:E0.
  { apply N.eqb_eq in E0. subst ft. simpl. f_equal. now apply none_ok. }
  destruct (ft =? 1)%N eqn:E1.
  { apply N.eqb_eq in E1. subst ft. simpl. f_equal. now apply sub_ok. }
  destruct (ft =? 2)%N eqn:E2.
  { apply N.eqb_eq in E2. subst ft. simpl. f_equal. now apply up_ok. }
  destruct (ft =? 3)%N eqn:E3.
  { apply N.eqb_eq in E3. subst ft. simpl. f_equal. now apply average_ok. }
  destruct (ft =? 4)%N eqn:E4.
  { apply N.eqb_eq in E4. subst ft. simpl. now apply paeth_ok. }
  apply N.eqb_neq in E0, E1, E2, E3, E4.
  replace (ft <=? 4)%N with false by (symmetry; apply N.leb_gt; lia). reflexivity.
Qed.
