(* C36 — executable model of pdfcpu's bookmark import (AddBookmarks / createOutlineItemDictDepth /
   bmDict) and export (Bookmarks / bookmarksForOutlineItem), pkg/pdfcpu/bookmark.go, together with
   the destination name tree they go through (pkg/pdfcpu/model/nameTree.go: Add in rename mode, Value).
   Hand-transcribed; NO proofs in this file.

   Bookmark forests.  Go's []Bookmark with Kids is presented in first-child / next-sibling form:
     Node title page bold italic colour kids rest  ~  Bookmark{...,Kids: kids} :: rest
   (Nil ~ empty slice; JSON `kids,omitempty` makes empty and absent Kids the same thing).
   Titles are byte lists (Go string, UTF-8).  Text encoding/decoding of /Title (EscapedUTF16String,
   model.Text) is the identity here (that is property C13).  Colours are three opaque integers
   (float32 bit patterns; writing/parsing PDF reals is outside this model).

   Outline object graph.  Objects are numbered (N); an outline item dict keeps what the code
   reads or writes: /Title /Dest /First /Last /Next /Prev /Parent /Count /C /F.  A destination array
   [pageRef /Fit] is ODest p, p the page number (PageDict / PageNumber of the page tree abstracted:
   the ref of page p resolves back to p). *)
From Coq Require Import List NArith ZArith Bool.
Import ListNotations.
Open Scope Z_scope.

(* ------------------------------------------------------------------ *)
(* name tree (keys = Go strings, values = object numbers)               *)
Definition key := list N.
Definition entry := (key * N)%type.

Fixpoint kltb (a b : key) : bool :=           (* Go: a < b on strings *)
  match a, b with
  | [], [] => false
  | [], _ :: _ => true
  | _ :: _, [] => false
  | x :: a', y :: b' => if N.ltb x y then true else if N.ltb y x then false else kltb a' b'
  end.
Fixpoint keqb (a b : key) : bool :=
  match a, b with
  | [], [] => true
  | x :: a', y :: b' => N.eqb x y && keqb a' b'
  | _, _ => false
  end.
Definition kleb (k s : key) : bool := keqb k s || kltb k s.   (* keyLessOrEqual *)

Inductive node :=
| Leaf (names : list entry) (kmin kmax : key)
| Inner (kids : list node) (kmin kmax : key).
Definition nmin n := match n with Leaf _ a _ | Inner _ a _ => a end.
Definition nmax n := match n with Leaf _ _ b | Inner _ _ b => b end.
Definition within (n : node) (k : key) : bool := kleb (nmin n) k && kleb k (nmax n). (* withinLimits *)
Definition empty_tree : node := Leaf [] [] [].

(* Node.Value *)
Fixpoint leaf_value (ns : list entry) (k : key) : option N :=
  match ns with
  | [] => None
  | (k', v) :: r => if kltb k' k then leaf_value r k else if keqb k' k then Some v else None
  end.
Fixpoint tvalue (n : node) (k : key) {struct n} : option N :=
  if negb (within n k) then None else
  match n with
  | Leaf ns _ _ => leaf_value ns k
  | Inner kids _ _ =>
      (fix go (l : list node) : option N :=
         match l with
         | [] => None
         | c :: r => if within c k then tvalue c k else go r
         end) kids
  end.

(* insertIntoLeaf: None = errNameTreeDuplicateKey; Some (names', atEnd) *)
Fixpoint ins (ns : list entry) (k : key) (v : N) : option (list entry * bool) :=
  match ns with
  | [] => Some ([(k, v)], true)
  | (k', v') :: r =>
      if kltb k' k then
        match ins r k v with
        | Some (l, e) => Some ((k', v') :: l, e)
        | None => None
        end
      else if keqb k' k then None
      else Some ((k, v) :: (k', v') :: r, false)
  end.
(* insertUniqueIntoLeaf with a NameMap containing kOrig (bmDict passes {title: [d]}): on a duplicate the
   key gets "\x01" appended, the referring dict's /Dest is rewritten (updateNameRefDicts) and the insert
   is retried IN THE SAME LEAF.  Fuel S(length ns) always suffices (each retry meets a different entry). *)
Fixpoint ins_unique (fuel : nat) (ns : list entry) (k : key) (v : N) : option (list entry * bool * key) :=
  match ins ns k v with
  | Some (l, e) => Some (l, e, k)
  | None => match fuel with
            | O => None
            | S f => ins_unique f ns (k ++ [1%N]) v
            end
  end.

Definition maxEntries : nat := 3.
Definition key_at (ns : list entry) (i : nat) : key := fst (nth i ns ([], 0%N)).
Definition split_check (ns : list entry) (a b : key) : node :=
  if Nat.eqb (length ns) (S maxEntries) then
    let c := S maxEntries in
    let h := Nat.div c 2 in
    Inner [Leaf (firstn h ns) (key_at ns 0) (key_at ns (h - 1));
           Leaf (skipn h ns) (key_at ns h) (key_at ns (c - 1))] a b
  else Leaf ns a b.
(* Node.HandleLeaf; also returns the key finally used *)
Definition handle_leaf (ns : list entry) (a b : key) (k : key) (v : N) : node * key :=
  match ns with
  | [] => (Leaf [(k, v)] k k, k)
  | _ =>
      if kltb k a then (split_check ((k, v) :: ns) k b, k)
      else if kltb b k then (split_check (ns ++ [(k, v)]) a k, k)
      else match ins_unique (S (length ns)) ns k v with
           | None => (Leaf ns a b, k)
           | Some (ns', atend, k') => (split_check ns' a (if atend then k' else b), k')
           end
  end.
(* Node.Add + updateNameTreeLimits *)
Fixpoint tadd (n : node) (k : key) (v : N) {struct n} : node * key :=
  match n with
  | Leaf ns a b => handle_leaf ns a b k v
  | Inner kids a b =>
      let '(kids', k') :=
        (fix go (l : list node) : list node * key :=
           match l with
           | [] => ([], k)
           | c :: r =>
               match r with
               | [] => let '(c', k') := tadd c k v in ([c'], k')
               | _ => if kltb k (nmin c) || within c k
                      then let '(c', k') := tadd c k v in (c' :: r, k')
                      else let '(r', k') := go r in (c :: r', k')
               end
           end) kids in
      (Inner kids' (nmin (hd n kids')) (nmax (last kids' n)), k')
  end.

(* ------------------------------------------------------------------ *)
(* bookmark forests                                                     *)
Definition col := (Z * Z * Z)%type.
Inductive forest :=
| Nil
| Node (title : list N) (page : Z) (bold italic : bool) (color : option col) (kids rest : forest).

Definition is_nil (f : forest) : bool := match f with Nil => true | _ => false end.

Fixpoint count (f : forest) : nat :=
  match f with Nil => O | Node _ _ _ _ _ k r => S (count k + count r) end.

(* ------------------------------------------------------------------ *)
(* outline object graph                                                 *)
Inductive dest := DNone | DName (k : key) | DPage (p : Z).
Inductive fref := FNone | FRef (n : N) | FBad.      (* /First: absent, indirect ref, anything else *)
Record item := mkItem {
  i_title : option (list N);    (* decoded /Title text; None: absent or not a text string *)
  i_dest : dest;
  i_first : fref;
  i_last : option N;
  i_next : option N;
  i_prev : option N;
  i_parent : option N;
  i_count : option Z;
  i_color : option col;         (* /C array of length 3 *)
  i_flags : option Z            (* /F *)
}.
Inductive obj := OItem (it : item) | ODest (page : Z).
Definition graph := list (N * obj).

Fixpoint lookup (g : graph) (id : N) : option obj :=
  match g with
  | [] => None
  | (i, o) :: r => if N.eqb i id then Some o else lookup r id
  end.

Definition empty_item : item := mkItem None DNone FNone None None None None None None None.

(* ------------------------------------------------------------------ *)
(* import: AddBookmarks                                                 *)
Inductive ierr := EInvalid | EPageNotFound | EDepthI.

(* the checks of createOutlineItemDictDepth / invalidBookmark / bmDict (ctx.PageDict), in the order
   the code meets them.  prev = page the next bookmark is compared with: the parent's page for the
   first kid (parentPageNr), the previous sibling's page otherwise, None for the first top-level one. *)
Fixpoint check (pc maxd depth : Z) (prev : option Z) (f : forest) : option ierr :=
  match f with
  | Nil => None
  | Node _ p _ _ _ kids rest =>
      if (match prev with Some q => p <? q | None => false end) then Some EInvalid else
      if (p <? 1) || (pc <? p) then Some EPageNotFound else
      match (match kids with
             | Nil => None                                             (* len(bm.Kids) > 0 *)
             | _ => if depth + 1 >? maxd then Some EDepthI else check pc maxd (depth + 1) (Some p) kids
             end) with
      | Some e => Some e
      | None => check pc maxd depth (Some p) rest
      end
  end.

(* Bookmark.Style *)
Definition style (bo it : bool) : Z := (if bo then 2 else 0) + (if it then 1 else 0).

(* createOutlineItemDictDepth + bmDict, object numbers handed out sequentially by IndRefForNewObject:
   dest array n, item dict n+1, then the kids, then the next sibling.  Returns the new objects, the
   next free number, the name tree and the object number of the last item of this sibling list. *)
Fixpoint build (f : forest) (parent : N) (prev : option N) (n : N) (T : node)
  : graph * N * node * option N :=
  match f with
  | Nil => ([], n, T, prev)
  | Node t p bo it c kids rest =>
      let '(T1, k) := tadd T t n in                          (* ctx.Names["Dests"].Add(title, destRef, {title:[d]}) *)
      let me := (n + 1)%N in
      let '(ek, n1, T2, lastk) := build kids me None (n + 2)%N T1 in
      let '(er, n2, T3, lst) := build rest parent (Some me) n1 T2 in
      let itm := mkItem (Some t) (DName k)
                   (if is_nil kids then FNone else FRef (n + 3)%N)
                   lastk
                   (if is_nil rest then None else Some (n1 + 1)%N)
                   prev (Some parent)
                   (if is_nil kids then None else Some (Z.of_nat (count kids)))   (* visc is always 0 *)
                   c
                   (if style bo it >? 0 then Some (style bo it) else None) in
      ((n, ODest p) :: (me, OItem itm) :: ek ++ er, n2, T3, lst)
  end.

Inductive ires := IOk (g : graph) (first : option N) (T : node) | IErr (e : ierr).

(* AddBookmarks on a document with pc pages and no /Dests name tree; `base` = object number of the
   new /Outlines dict. *)
Definition to_outline (pc maxd : Z) (base : N) (f : forest) : ires :=
  if is_nil f then IErr EInvalid else
  if 0 >? maxd then IErr EDepthI else
  match check pc maxd 0 None f with
  | Some e => IErr e
  | None => let '(g, _, T, _) := build f base None (base + 1)%N empty_tree in
            IOk g (Some (base + 2)%N) T
  end.

(* ------------------------------------------------------------------ *)
(* export: Bookmarks / bookmarksForOutlineItem                          *)
Inductive rerr := ECycle | EDeref | EDest | EFirst | EDepth.
Inductive rres (A : Type) := ROk (a : A) | RErr (e : rerr) | RFuel.
Arguments ROk {A}. Arguments RErr {A}. Arguments RFuel {A}.

Definition mem (id : N) (l : list N) : bool := existsb (N.eqb id) l.
(* outlineItemTitle *)
Definition strip (t : list N) : list N := filter (fun b => N.leb 32 b) t.

(* PageNrFromDestination (ValidationRelaxed: an unresolvable name gives page 0) *)
Definition page_of (g : graph) (R : key -> option N) (d : dest) : option Z :=
  match d with
  | DNone => None
  | DPage p => Some p
  | DName k => match R k with
               | None => Some 0
               | Some r => match lookup g r with
                           | Some (ODest p) => Some p
                           | _ => None
                           end
               end
  end.

(* One call handles the sibling loop (`for ir := item; ir != nil; ir = d.IndirectRefEntry("Next")`)
   and the recursion into /First; `vis` is the visited map of checkBookmarkCycle, threaded through.
   fuel bounds the nesting of model calls; RFuel = exhausted (proved impossible for fuel > |g|). *)
Fixpoint read_items (fuel : nat) (g : graph) (R : key -> option N) (maxd : Z)
                    (ir : option N) (depth : Z) (vis : list N) : rres (forest * list N) :=
  match ir with
  | None => ROk (Nil, vis)
  | Some id =>
    match fuel with
    | O => RFuel
    | S f =>
      if mem id vis then RErr ECycle else                     (* checkBookmarkCycle *)
      let vis1 := id :: vis in
      match (match lookup g id with
             | None => Some empty_item                        (* free/missing object: nil dict *)
             | Some (OItem it) => Some it
             | Some (ODest _) => None                         (* DereferenceDict: not a dict *)
             end) with
      | None => RErr EDeref
      | Some it =>
        let t := strip (match i_title it with Some t => t | None => [] end) in
        match t with
        | [] => read_items f g R maxd (i_next it) depth vis1  (* title == "": continue *)
        | _ =>
          match i_dest it with
          | DNone => read_items f g R maxd (i_next it) depth vis1   (* no destination: continue *)
          | d =>
            match page_of g R d with
            | None => RErr EDest
            | Some p =>
              let bo := match i_flags it with Some fl => Z.land fl 2 >? 0 | None => false end in
              let itl := match i_flags it with Some fl => Z.land fl 1 >? 0 | None => false end in
              match (match i_first it with
                     | FNone => ROk (Nil, vis1)
                     | FBad => RErr EFirst
                     | FRef c => if depth + 1 >? maxd then RErr EDepth
                                 else read_items f g R maxd (Some c) (depth + 1) vis1
                     end) with
              | ROk (kids, vis2) =>
                  match read_items f g R maxd (i_next it) depth vis2 with
                  | ROk (rest, vis3) => ROk (Node t p bo itl (i_color it) kids rest, vis3)
                  | RErr e => RErr e
                  | RFuel => RFuel
                  end
              | RErr e => RErr e
              | RFuel => RFuel
              end
            end
          end
        end
      end
    end
  end.

Definition from_outline (maxd : Z) (g : graph) (T : node) (first : option N) : rres forest :=
  if 0 >? maxd then RErr EDepth else
  match read_items (S (length g)) g (tvalue T) maxd first 0 [] with
  | ROk (f, _) => ROk f
  | RErr e => RErr e
  | RFuel => RFuel
  end.

(* every item's /Dest name resolves, in the final name tree, to the destination array created for
   that very item (object number one below the item's) *)
Definition dests_resolve (g : graph) (T : node) : bool :=
  forallb (fun e : N * obj =>
    match snd e with
    | OItem it => match i_dest it with
                  | DName k => match tvalue T k with
                               | Some d => N.eqb d (fst e - 1)
                               | None => false
                               end
                  | _ => false
                  end
    | ODest _ => true
    end) g.

(* titles as an export produces them: non-empty, no byte below 32 *)
Fixpoint titles_clean (f : forest) : bool :=
  match f with
  | Nil => true
  | Node t _ _ _ _ k r =>
      negb (match t with [] => true | _ => false end) && forallb (fun b => N.leb 32 b) t
      && titles_clean k && titles_clean r
  end.

(* import followed by export *)
Inductive rtres := RTImportErr (e : ierr) | RTRead (r : rres forest) (resolves : bool).
Definition roundtrip (pc maxd : Z) (base : N) (f : forest) : rtres :=
  match to_outline pc maxd base f with
  | IErr e => RTImportErr e
  | IOk g first T => RTRead (from_outline maxd g T first) (dests_resolve g T)
  end.
