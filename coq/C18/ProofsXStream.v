(* C18 — cross-reference STREAM rows: the writer's choice of /W (max of /Size and the xref stream's
   offset for column 2) makes every field exactly as wide as declared, so the strict row decoder reads
   back exactly the rows that were written. *)
From Coq Require Import ZArith NArith List Bool Lia ZifyBool ZifyNat ZifyN.
From PV Require Import C18.Model C18.ProofsBase C18.ProofsXref C18.ProofsLayout.
Import ListNotations.
Open Scope N_scope.

Lemma be_bytes_length fuel : forall k acc, length (be_bytes fuel k acc) = (byte_count fuel k + length acc)%nat.
Proof.
  induction fuel as [|f IH]; intros k acc; cbn [be_bytes byte_count]; [reflexivity|].
  destruct (k =? 0); [reflexivity|]. rewrite IH. cbn [length]. lia.
Qed.

Lemma byte_count_le fuel : forall k w, k < 256 ^ N.of_nat w -> (byte_count fuel k <= w)%nat.
Proof.
  induction fuel as [|f IH]; intros k w Hk; cbn [byte_count]; [lia|].
  destruct (N.eqb_spec k 0) as [|Hk0]; [lia|].
  destruct w as [|w]; [cbn in Hk; lia|].
  assert (k / 256 < 256 ^ N.of_nat w).
  { rewrite Nat2N.inj_succ, N.pow_succ_r' in Hk. apply N.div_lt_upper_bound; lia. }
  specialize (IH _ _ H). lia.
Qed.

Lemma byte_count_bound fuel : forall k, k < 256 ^ N.of_nat fuel -> k < 256 ^ N.of_nat (byte_count fuel k).
Proof.
  induction fuel as [|f IH]; intros k Hk; cbn [byte_count]; [exact Hk|].
  destruct (N.eqb_spec k 0) as [->|Hk0]; [cbn; lia|].
  assert (H : k / 256 < 256 ^ N.of_nat f).
  { rewrite Nat2N.inj_succ, N.pow_succ_r' in Hk. apply N.div_lt_upper_bound; lia. }
  specialize (IH _ H). rewrite Nat2N.inj_succ, N.pow_succ_r'.
  pose proof (N.div_mod k 256). pose proof (N.mod_upper_bound k 256). lia.
Qed.

(* no overflow: a value that fits the declared width is written with exactly that width *)
Lemma int64ToBuf_exact v w : v < 2 ^ 64 -> v < 256 ^ N.of_nat w -> length (int64ToBuf v w) = w.
Proof.
  intros H64 Hw. unfold int64ToBuf. rewrite app_length, repeat_length, be_bytes_length. cbn [length].
  pose proof (byte_count_le 8 v w Hw). lia.
Qed.

(* and conversely a value that does NOT fit is written wider than declared (the defect the width
   computation must exclude) *)
Lemma int64ToBuf_overflow v w : v < 2 ^ 64 -> 256 ^ N.of_nat w <= v -> (w < length (int64ToBuf v w))%nat.
Proof.
  intros H64 Hw. unfold int64ToBuf. rewrite app_length, repeat_length, be_bytes_length. cbn [length].
  assert (Hb : v < 256 ^ N.of_nat (byte_count 8 v)) by (apply byte_count_bound; exact H64).
  assert (w < byte_count 8 v)%nat; [|lia].
  destruct (Nat.lt_ge_cases w (byte_count 8 v)) as [|Hge]; [assumption|].
  assert (256 ^ N.of_nat (byte_count 8 v) <= 256 ^ N.of_nat w) by (apply N.pow_le_mono_r; lia). lia.
Qed.

Lemma take_bytes_app l rest : Forall (fun b => b < 256) l -> take_bytes (length l) (l ++ rest) = Some (l, rest).
Proof.
  intros H. induction H as [|b l Hb _ IH]; cbn; [reflexivity|].
  destruct (N.ltb_spec b 256) as [_|]; [|lia]. rewrite IH. reflexivity.
Qed.

Lemma take_bytes_buf v w rest : v < 2 ^ 64 -> v < 256 ^ N.of_nat w ->
  take_bytes w (int64ToBuf v w ++ rest) = Some (int64ToBuf v w, rest) /\ be_value (int64ToBuf v w) = v.
Proof.
  intros H64 Hw. destruct (int64ToBuf_roundtrip v w H64) as (Hv & _ & Hb).
  split; [|exact Hv]. rewrite <- (int64ToBuf_exact v w H64 Hw) at 1. apply take_bytes_app. exact Hb.
Qed.

(* the bound under which the writer's /W is right *)
Definition w2_base (size offset : N) : N := if size <? offset then offset else size.
Definition row_ok (size offset : N) (r : xrow) : Prop :=
  x_typ r < 256 /\ x_a r <= w2_base size offset /\ x_b r < 65536.

Lemma w2_fits size offset v : w2_base size offset < 2 ^ 64 -> v <= w2_base size offset ->
  v < 2 ^ 64 /\ v < 256 ^ N.of_nat (w2_width size offset).
Proof.
  intros Hm Hv. split; [lia|]. unfold w2_width. fold (w2_base size offset).
  pose proof (byte_count_bound 8 (w2_base size offset) Hm). lia.
Qed.

Lemma decode_row_bytes size offset r rest : w2_base size offset < 2 ^ 64 -> row_ok size offset r ->
  decode_row 1 (w2_width size offset) 2 (row_bytes (w2_width size offset) r ++ rest) = Some (r, rest) /\
  length (row_bytes (w2_width size offset) r) = (1 + w2_width size offset + 2)%nat.
Proof.
  intros Hm (Ht & Ha & Hb). destruct (w2_fits size offset (x_a r) Hm Ha) as [Ha64 Haw].
  assert (Ht64 : x_typ r < 2 ^ 64) by (cbn; lia). assert (Hb64 : x_b r < 2 ^ 64) by (cbn; lia).
  assert (Htw : x_typ r < 256 ^ N.of_nat 1) by (cbn; lia). assert (Hbw : x_b r < 256 ^ N.of_nat 2) by (cbn; lia).
  split.
  - unfold row_bytes, decode_row. repeat rewrite <- app_assoc.
    destruct (take_bytes_buf (x_typ r) 1 (int64ToBuf (x_a r) (w2_width size offset) ++ int64ToBuf (x_b r) 2 ++ rest) Ht64 Htw) as [T1 V1].
    rewrite T1. cbn [bind].
    destruct (take_bytes_buf (x_a r) (w2_width size offset) (int64ToBuf (x_b r) 2 ++ rest) Ha64 Haw) as [T2 V2].
    rewrite T2. cbn [bind].
    destruct (take_bytes_buf (x_b r) 2 rest Hb64 Hbw) as [T3 V3].
    rewrite T3. cbn [bind]. rewrite V1, V2, V3. destruct r; reflexivity.
  - unfold row_bytes. rewrite !app_length, !int64ToBuf_exact by assumption. lia.
Qed.

Fixpoint number (s : N) (rows : list xrow) : list (N * xrow) :=
  match rows with [] => [] | r :: t => (s, r) :: number (N.succ s) t end.

Lemma decode_rows_content size offset : w2_base size offset < 2 ^ 64 -> forall rows fuel start rest,
  Forall (row_ok size offset) rows -> (length rows <= length fuel)%nat ->
  decode_rows fuel 1 (w2_width size offset) 2 (lenN rows) start
              (concat (map (row_bytes (w2_width size offset)) rows) ++ rest) = Some (number start rows, rest).
Proof.
  intros Hm. induction rows as [|r rows IH]; intros fuel start rest Hok Hf.
  - destruct fuel; reflexivity.
  - destruct fuel as [|f0 fuel]; [cbn in Hf; lia|].
    inversion Hok as [|? ? Hr Hrs]; subst.
    cbn [lenN map concat number]. rewrite <- app_assoc. cbn [decode_rows].
    destruct (N.eqb_spec (N.succ (lenN rows)) 0) as [E|_]; [lia|].
    rewrite (proj1 (decode_row_bytes size offset r _ Hm Hr)). cbn [bind]. rewrite N.pred_succ.
    rewrite IH; [reflexivity|exact Hrs|cbn in Hf; lia].
Qed.

Lemma content_length size offset : w2_base size offset < 2 ^ 64 -> forall rows,
  Forall (row_ok size offset) rows ->
  length (xref_stream_content size offset rows) = (length rows * (1 + w2_width size offset + 2))%nat.
Proof.
  intros Hm rows H. unfold xref_stream_content. induction H as [|r rows Hr _ IH]; [reflexivity|].
  cbn [map concat length]. rewrite app_length, IH, (proj2 (decode_row_bytes size offset r [] Hm Hr)). lia.
Qed.

(* the rows of the written cross-reference stream occupy exactly rows x (W0+W1+W2) bytes and the strict
   decoder (exact field widths, exact row count, nothing left over) returns them unchanged *)
Theorem xref_stream_rows_exact size offset start rows :
  w2_base size offset < 2 ^ 64 -> Forall (row_ok size offset) rows ->
  length (xref_stream_content size offset rows) = (length rows * (1 + w2_width size offset + 2))%nat /\
  decode_index 1 (w2_width size offset) 2 [(start, lenN rows)] (xref_stream_content size offset rows)
    = Some (number start rows).
Proof.
  intros Hm Hok. split; [apply content_length; assumption|].
  unfold xref_stream_content, decode_index.
  pose proof (decode_rows_content size offset Hm rows
                (concat (map (row_bytes (w2_width size offset)) rows) ++ []) start [] Hok) as H.
  rewrite app_nil_r in H. rewrite H; [cbn [bind]; rewrite app_nil_r; reflexivity|].
  rewrite <- (app_nil_r (concat _)). apply concat_map_length.
  intros x. unfold row_bytes. rewrite !app_length. unfold int64ToBuf at 3. rewrite app_length, repeat_length, be_bytes_length.
  cbn [length]. lia.
Qed.
