(* C12 — String escaping and name encoding are lossless.
   Property theorems only; each is closed by an exact lemma and followed by Print Assumptions.
   Model: C12/Model.v (hand transcription of pkg/pdfcpu/types/string.go and of the
   literal-string scanner in pkg/pdfcpu/model/parse.go). *)
From Coq Require Import NArith ZArith List Bool.
From PV Require Import Lib.GoInt C12.Model C12.Proofs.
Import ListNotations.
Open Scope N_scope.

(* For EVERY byte string (indeed every list of numbers): unescaping the escaped form
   succeeds and yields the original bytes. *)
Theorem C12_unescape_escape : forall s : bytes, Unescape (Escape s) = Ok s.
Proof. exact unescape_escape. Qed.
Print Assumptions C12_unescape_escape.

(* In the escaped form every '(' , ')' and '\' is escaped: reading left to right with
   "backslash escapes the next byte", no parenthesis is met unescaped and the text does
   not end inside an escape. *)
Theorem C12_escape_parens_escaped : forall s : bytes, parensEscaped false (Escape s) = true.
Proof. exact escape_parens_escaped. Qed.
Print Assumptions C12_escape_parens_escaped.

(* Hence the written literal "(" Escape s ")" is balanced for the parser: the scanner
   balancedParenthesesPrefix stops exactly at the closing parenthesis, whatever follows,
   parseStringLiteral returns the escaped text and the untouched rest, and unescaping
   it gives back s. *)
Theorem C12_literal_roundtrip : forall (s rest : bytes),
  parseStringLiteral (40 :: Escape s ++ 41 :: rest) = Ok (Escape s, rest)
  /\ Unescape (Escape s) = Ok s.
Proof. exact literal_roundtrip. Qed.
Print Assumptions C12_literal_roundtrip.

(* Unescape never fails: its only error ("illegal \ in octal code sequence") is unreachable. *)
Theorem C12_unescape_total : forall l : bytes, exists b, Unescape l = Ok b.
Proof. exact unescape_total. Qed.
Print Assumptions C12_unescape_total.

(* For every byte string without NUL: decoding the encoded name yields the original. *)
Theorem C12_decode_encode_name : forall s : bytes,
  bytes_ok s = true -> ~ In 0 s -> DecodeName (EncodeName s) = DOk s.
Proof. exact decode_encode_name. Qed.
Print Assumptions C12_decode_encode_name.

(* The NUL exclusion is necessary: with a NUL byte the round trip reports the NUL error
   (EncodeName writes #00, DecodeName rejects it). *)
Theorem C12_decode_encode_name_nul : forall s : bytes,
  bytes_ok s = true -> In 0 s -> DecodeName (EncodeName s) = DErr ENul.
Proof. exact decode_encode_name_nul. Qed.
Print Assumptions C12_decode_encode_name_nul.

(* The encoded form consists of regular printable characters other than delimiters and
   '#', and of '#' followed by two hex digits (nameWF); in particular every byte of it is
   printable (0x21..0x7E) and not a delimiter. *)
Theorem C12_encode_name_charset : forall s : bytes, bytes_ok s = true ->
  nameWF (EncodeName s) = true
  /\ Forall (fun c => 33 <= c <= 126 /\ isDelimiter c = false) (EncodeName s).
Proof. exact encode_name_charset_full. Qed.
Print Assumptions C12_encode_name_charset.

(* non-vacuity and spot checks (tests, not theorems): CR LF, backslash + digits,
   octal-looking text, parentheses, NUL, '#', high bytes *)
Example C12_nonvacuous :
  bytes_ok [92; 48; 49; 50; 13; 10; 40; 41; 255] = true
  /\ Escape [92; 48; 13; 10; 40] = [92; 92; 48; 92; 114; 92; 110; 92; 40]
  /\ Unescape [92; 49; 50; 51; 92; 13; 10; 92; 56; 92; 53] = Ok [83; 56; 5]
  /\ parensEscaped false [92; 92; 40] = false
  /\ parseStringLiteral [40; 40; 92; 41; 41; 41; 65] = Ok ([40; 92; 41; 41], [65])
  /\ EncodeName [65; 35; 32; 47; 255] = [65; 35; 50; 51; 35; 50; 48; 35; 50; 102; 35; 102; 102]
  /\ DecodeName [65; 35; 50; 70; 66] = DOk [65; 47; 66]
  /\ DecodeName [35; 48; 48] = DErr ENul /\ DecodeName [35; 52] = DErr EShort
  /\ DecodeName [35; 52; 71] = DErr EHex
  /\ nameWF [65; 35; 71; 48] = false /\ nameWF [65; 32] = false
  /\ ~ In 0 [1; 2; 255].
Proof. vm_compute. repeat split; try congruence. intros [H|[H|[H|[]]]]; discriminate. Qed.
