(* C01 — proofs about the pkg/pdfcpu write path (createStagedFile / finishStagedFile / writeNewFile). *)
From stdpp Require Import gmap.
From Coq Require Import NArith Lia.
From PV Require Import C01.FS C01.FSFacts C01.Model C01.Proofs.

Section PdfProofs.
Variable pl : plan.
Variable fresh : gmap positive file -> positive.
Hypothesis fresh_spec : forall m, m !! fresh m = None.
Hypothesis Hamo : amo pl.

Lemma create_staged_file_spec path w :
  match create_staged_file pl fresh path w with
  | Fail _ w' => wfs w' = wfs w /\ wcnt w <= wcnt w'
  | Done t w' => staged_inv (wfs w) t (wfs w') /\ wcnt w <= wcnt w'
  end.
Proof.
  unfold create_staged_file.
  destruct (create_temp_cases pl fresh fresh_spec mode_new w) as [(e & w1 & -> & Hf1 & Hc1)|(w1 & -> & Hf1 & Hc1 & Hinv1)];
    cbv beta iota zeta.
  { split; [exact Hf1|lia]. }
  destruct (stat_cases pl path w1) as [(e & w2 & -> & Hf2 & Hc2)|(fi & w2 & -> & Hf2 & Hc2 & _)];
    cbv beta iota zeta.
  { split; [rewrite Hf2; exact Hinv1|lia]. }
  assert (Hinv2 : staged_inv (wfs w) (fresh (wfs w)) (wfs w2)) by (rewrite Hf2; exact Hinv1).
  destruct (chmod_cases pl (wfs w) (fresh (wfs w)) (fmode fi) w2 Hinv2) as [(w3 & -> & Hf3 & Hc3 & Hp3)|(w3 & -> & Hinv3 & Hc3)];
    cbv beta iota zeta.
  - pose proof (amo_quiet _ _ Hamo Hp3) as Hq.
    destruct (close_fs pl (fresh (wfs w)) w3) as [Hf4 Hc4].
    split.
    + apply remove_quiet_restores.
      * rewrite Hc4, Hc3. eapply quiet_mono; [exact Hq|lia].
      * rewrite Hf4, Hf3. exact Hinv2.
    + rewrite remove_cnt, Hc4. lia.
  - split; [exact Hinv3|lia].
Qed.

Lemma finish_staged_file_spec m0 path t writeErr input w r w' :
  staged_inv m0 t (wfs w) ->
  (writeErr = true -> quiet pl (wcnt w)) ->
  finish_staged_file pl path t writeErr input w = (r, w') -> r <> COk -> wfs w' = m0.
Proof.
  intros Hinv Hwq. unfold finish_staged_file, remove_file.
  destruct (close_cases pl t w) as [(w1 & -> & Hf1 & Hc1 & Hp1)|(w1 & -> & Hf1 & Hc1)]; cbn [world_of failed].
  - (* closing the staging file was faulted *)
    pose proof (amo_quiet _ _ Hamo Hp1) as Hq.
    destruct input as [i|].
    + destruct (close_fs pl i w1) as [Hf2 Hc2]. cbv beta iota zeta. rewrite orb_true_r. cbn [orb].
      intros [= <- <-] _. apply remove_quiet_restores.
      * rewrite Hc2, Hc1. eapply quiet_mono; [exact Hq|lia].
      * rewrite Hf2, Hf1. exact Hinv.
    + cbv beta iota zeta. rewrite orb_true_r. cbn [orb].
      intros [= <- <-] _. apply remove_quiet_restores.
      * rewrite Hc1. exact Hq.
      * rewrite Hf1. exact Hinv.
  - rewrite orb_false_r.
    assert (Hinv1 : staged_inv m0 t (wfs w1)) by (rewrite Hf1; exact Hinv).
    destruct input as [i|].
    + destruct (close_cases pl i w1) as [(w2 & -> & Hf2 & Hc2 & Hp2)|(w2 & -> & Hf2 & Hc2)]; cbn [world_of failed].
      * rewrite orb_true_r. intros [= <- <-] _. apply remove_quiet_restores.
        -- rewrite Hc2. eapply amo_quiet; [exact Hamo|exact Hp2].
        -- rewrite Hf2. exact Hinv1.
      * rewrite orb_false_r. destruct writeErr.
        -- intros [= <- <-] _. apply remove_quiet_restores.
           ++ eapply quiet_mono; [apply Hwq; reflexivity|lia].
           ++ rewrite Hf2. exact Hinv1.
        -- assert (Hinv2 : staged_inv m0 t (wfs w2)) by (rewrite Hf2; exact Hinv1).
           destruct (rename_cases pl m0 t path w2 Hinv2) as [(w3 & -> & Hf3 & Hc3 & Hp3)|(f & w3 & -> & _)];
             cbv beta iota zeta.
           ++ intros [= <- <-] _. apply remove_quiet_restores.
              ** rewrite Hc3. eapply amo_quiet; [exact Hamo|exact Hp3].
              ** rewrite Hf3. exact Hinv2.
           ++ intros [= <- <-] Hr. congruence.
    + rewrite orb_false_r. destruct writeErr.
      * intros [= <- <-] _. apply remove_quiet_restores.
        -- eapply quiet_mono; [apply Hwq; reflexivity|lia].
        -- exact Hinv1.
      * destruct (rename_cases pl m0 t path w1 Hinv1) as [(w3 & -> & Hf3 & Hc3 & Hp3)|(f & w3 & -> & _)];
          cbv beta iota zeta.
        -- intros [= <- <-] _. apply remove_quiet_restores.
           ++ rewrite Hc3. eapply amo_quiet; [exact Hamo|exact Hp3].
           ++ rewrite Hf3. exact Hinv1.
        -- intros [= <- <-] Hr. congruence.
Qed.

Lemma pdf_core k input path chunks fin w w1 r w' :
  wfs w1 = wfs w -> wcnt w <= wcnt w1 ->
  (fin = COk \/ quiet pl (wcnt w)) ->
  safe_for k fin ->
  match create_staged_file pl fresh path w1 with
  | Fail _ w => (CErr, match input with Some i => world_of (close pl i w) | None => w end)
  | Done t w =>
      with_defer (body pl t chunks fin)
                 (fun r w => match decide k r with
                             | ACommit => finish_staged_file pl path t false input w
                             | ACleanup => finish_staged_file pl path t true input w
                             | ANothing => (r, w)
                             | ACommitKeep => (r, snd (finish_staged_file pl path t false input w))
                             end) w
  end = (r, w') -> r <> COk -> wfs w' = wfs w.
Proof.
  intros Hfo Hco Hcause Hkey. pose proof (safe_for_not_always k fin Hkey) as Hna.
  pose proof (create_staged_file_spec path w1) as Hopen.
  destruct (create_staged_file pl fresh path w1) as [t w2|e w2].
  2: { destruct Hopen as (Hf2 & Hc2). intros [= <- <-] _.
       destruct input as [i|]; [destruct (close_fs pl i w2) as [Hf3 _]; congruence|congruence]. }
  destruct Hopen as (Hinv2 & Hc2). rewrite Hfo in Hinv2.
  unfold with_defer.
  pose proof (body_spec pl (wfs w) t chunks fin w2 Hinv2) as (Hinv3 & Hc3 & Hres).
  destruct (body pl t chunks fin w2) as [rb w3]. cbn [fst snd] in *.
  assert (Hcases : (rb = COk /\ fin = COk) \/ (decide k rb = ACleanup /\ quiet pl (wcnt w3))).
  { destruct Hres as [Hfin|(Herr & j & Hj & Hpj)].
    - subst rb. destruct Hcause as [->|Hq]; [left; split; reflexivity|].
      destruct fin; [left; split; reflexivity| |].
      + right. split; [destruct k; first [reflexivity|exfalso; apply Hna; reflexivity]|]. eapply quiet_mono; [exact Hq|lia].
      + right. split; [destruct Hkey as [->|[_ Hne]]; [reflexivity|congruence]|]. eapply quiet_mono; [exact Hq|lia].
    - subst rb. right. split; [destruct k; first [reflexivity|exfalso; apply Hna; reflexivity]|]. eapply amo_quiet_lt; [exact Hamo|exact Hpj|lia]. }
  destruct Hcases as [[-> ->]|[Hcm Hq]].
  - replace (decide k COk) with ACommit by (destruct k; first [reflexivity|exfalso; apply Hna; reflexivity]).
    destruct (finish_staged_file pl path t false input w3) as [rc w4] eqn:Hfin.
    intros [= <- <-] Hr.
    eapply (finish_staged_file_spec (wfs w) path t false input w3 rc w4 Hinv3); [discriminate|exact Hfin|exact Hr].
  - rewrite Hcm.
    destruct (finish_staged_file pl path t true input w3) as [rc w4] eqn:Hfin.
    assert (Hrc : rc <> COk).
    { unfold finish_staged_file in Hfin. cbn [orb] in Hfin.
      destruct input as [i|]; cbv beta iota zeta in Hfin; injection Hfin as <- _; discriminate. }
    intros [= <- <-] _.
    eapply (finish_staged_file_spec (wfs w) path t true input w3 rc w4 Hinv3); [intros _; exact Hq|exact Hfin|exact Hrc].
Qed.

Lemma pdf_staged_safe_gen k input path chunks fin w r w' :
  (fin = COk \/ quiet pl (wcnt w)) ->
  safe_for k fin ->
  pdf_staged pl fresh k input path chunks fin w = (r, w') -> r <> COk -> wfs w' = wfs w.
Proof.
  intros Hcause Hkey. unfold pdf_staged. destruct input as [i|].
  - destruct (open_rd_cases pl i w) as [(e & w1 & -> & Hf1 & Hc1)|(w1 & -> & Hf1 & Hc1)]; cbv beta iota zeta.
    + intros [= <- <-] _. exact Hf1.
    + destruct (stat_fs pl i w1) as [Hf2 Hc2]. destruct (stat_fs pl path (world_of (stat pl i w1))) as [Hf3 Hc3].
      apply (pdf_core k (Some i) path chunks fin w); [congruence|lia|exact Hcause|exact Hkey].
  - apply (pdf_core k None path chunks fin w); [reflexivity|lia|exact Hcause|exact Hkey].
Qed.

(* writeNewFile: the reserved new file is removed again on every error return *)
Lemma write_new_file_safe_gen path chunks fin w r w' :
  (fin = COk \/ quiet pl (wcnt w)) -> fin <> CPanic ->
  write_new_file pl path chunks fin w = (r, w') -> r <> COk -> wfs w' = wfs w.
Proof.
  intros Hcause Hnp. unfold write_new_file.
  destruct (open_excl_cases pl path w) as [(e & w1 & -> & Hf1 & Hc1)|(w1 & -> & Hc1 & Hinv1)]; cbv beta iota zeta.
  { destruct e; intros [= <- <-] Hr; congruence. }
  unfold with_defer.
  pose proof (body_spec pl (wfs w) path chunks fin w1 Hinv1) as (Hinv3 & Hc3 & Hres).
  destruct (body pl path chunks fin w1) as [rb w3]. cbn [fst snd] in *.
  assert (Hcases : (rb = COk /\ fin = COk) \/ (rb = CErr /\ quiet pl (wcnt w3))).
  { destruct Hres as [Hfin|(Herr & j & Hj & Hpj)].
    - subst rb. destruct Hcause as [->|Hq]; [left; split; reflexivity|].
      destruct fin; [left; split; reflexivity| |congruence].
      right. split; [reflexivity|]. eapply quiet_mono; [exact Hq|lia].
    - subst rb. right. split; [reflexivity|]. eapply amo_quiet_lt; [exact Hamo|exact Hpj|lia]. }
  destruct Hcases as [[-> ->]|[-> Hq]].
  - destruct (close_cases pl path w3) as [(w4 & -> & Hf4 & Hc4 & Hp4)|(w4 & -> & Hf4 & Hc4)]; cbn [world_of failed].
    + intros [= <- <-] _. apply remove_quiet_restores.
      * rewrite Hc4. eapply amo_quiet; [exact Hamo|exact Hp4].
      * rewrite Hf4. exact Hinv3.
    + intros [= <- <-] Hr. congruence.
  - destruct (close_fs pl path w3) as [Hf4 Hc4].
    assert (Hgoal : wfs (world_of (remove pl path (world_of (close pl path w3)))) = wfs w).
    { apply remove_quiet_restores; [rewrite Hc4; eapply quiet_mono; [exact Hq|lia]|rewrite Hf4; exact Hinv3]. }
    destruct (failed (close pl path w3)); intros [= <- <-] _; exact Hgoal.
Qed.
End PdfProofs.

(* ---------- closed statements ---------- *)
Lemma pdf_staged_fault_safe_proof fresh :
  (forall m, m !! fresh m = None) ->
  forall pl fin, one_cause pl fin ->
  forall k input path chunks m0 tr, safe_for k fin ->
  forall r w', pdf_staged pl fresh k input path chunks fin (W m0 0 tr) = (r, w') -> r <> COk ->
  unchanged m0 (wfs w').
Proof.
  intros Hfresh pl fin Hcause k input path chunks m0 tr Hkey r w' Hrun Hr.
  destruct (one_cause_amo pl fin Hcause) as [Hamo Hq]. apply eq_unchanged.
  exact (pdf_staged_safe_gen pl fresh Hfresh Hamo k input path chunks fin (W m0 0 tr) r w' Hq Hkey Hrun Hr).
Qed.

Lemma write_new_file_fault_safe_proof :
  forall pl fin, one_cause pl fin -> fin <> CPanic ->
  forall path chunks m0 tr r w', write_new_file pl path chunks fin (W m0 0 tr) = (r, w') -> r <> COk ->
  unchanged m0 (wfs w').
Proof.
  intros pl fin Hcause Hnp path chunks m0 tr r w' Hrun Hr.
  destruct (one_cause_amo pl fin Hcause) as [Hamo Hq]. apply eq_unchanged.
  exact (write_new_file_safe_gen pl Hamo path chunks fin (W m0 0 tr) r w' Hq Hnp Hrun Hr).
Qed.

(* pdfcpu.WriteContext as it is now (write.go): deferred finishWriteFile, nil error only when the body
   returned nil AND `completed` was set = the flag-keyed instance of pdf_staged: safe for every ending *)
Lemma write_context_fault_safe_proof fresh :
  (forall m, m !! fresh m = None) ->
  forall pl fin, one_cause pl fin ->
  forall path chunks m0 tr r w',
  pdf_staged pl fresh KFlag None path chunks fin (W m0 0 tr) = (r, w') -> r <> COk ->
  unchanged m0 (wfs w').
Proof.
  intros Hfresh pl fin Hcause path chunks m0 tr r w' Hrun Hr.
  exact (pdf_staged_fault_safe_proof fresh Hfresh pl fin Hcause KFlag None path chunks m0 tr (or_introl eq_refl) r w' Hrun Hr).
Qed.

(* the abstract err-keyed skeleton (WriteContext before the fix): a panicking body publishes the partial file *)
Lemma write_context_panic_refuted_proof :
  exists r w', pdf_staged nofault fresh_path KErr None 2%positive [[1%N]] CPanic (W refute_m0 0 []) = (r, w') /\
    r = CPanic /\ wfs w' !! 2%positive = Some (File [1%N] mode_new) /\ ~ unchanged refute_m0 (wfs w').
Proof.
  eexists _, _. split; [vm_compute; reflexivity|]. split; [reflexivity|]. split; [vm_compute; reflexivity|].
  intros [Hsame _]. specialize (Hsame 2%positive). vm_compute in Hsame. discriminate Hsame.
Qed.

(* writeReader / CopyFile / WriteContextFile (no defer): a panicking body leaves the staging file *)
Lemma nodefer_panic_leaks_refuted_proof :
  exists r w' t, pdf_staged nofault fresh_path KNone None 2%positive [[1%N]] CPanic (W refute_m0 0 []) = (r, w') /\
    r = CPanic /\ refute_m0 !! t = None /\ wfs w' !! t = Some (File [1%N] mode_new).
Proof.
  eexists _, _, 3%positive. split; [vm_compute; reflexivity|]. split; [reflexivity|]. split; vm_compute; reflexivity.
Qed.

(* the abstract shadowed-err skeleton (the deferred finish reads a local, always-nil err; WriteContext
   before fix ab14e02e): a body that merely RETURNS an error already publishes the partial file over the
   existing output, and the function still returns that error *)
Lemma shadowed_err_commits_on_error_refuted_proof :
  exists r w', pdf_staged nofault fresh_path KAlways None 2%positive [[1%N]] CErr (W refute_m0 0 []) = (r, w') /\
    r = CErr /\ wfs w' !! 2%positive = Some (File [1%N] mode_new) /\ ~ unchanged refute_m0 (wfs w').
Proof.
  eexists _, _. split; [vm_compute; reflexivity|]. split; [reflexivity|]. split; [vm_compute; reflexivity|].
  intros [Hsame _]. specialize (Hsame 2%positive). vm_compute in Hsame. discriminate Hsame.
Qed.

Lemma fresh_hi_spec (m : gmap positive file) : m !! fresh_hi m = None.
Proof. apply fresh_path_above. unfold fresh_hi. apply Pos.le_max_r. Qed.
