(* C18 — the writer's offset bookkeeping is exact, and the strict checker accepts every layout. *)
From Coq Require Import ZArith NArith List Bool Lia ZifyBool ZifyNat ZifyN Sorting.Permutation.
From PV Require Import C18.Model C18.ProofsBase C18.ProofsXref.
Import ListNotations.
Open Scope N_scope.

Local Opaque dec pad0.

(* ------------------------------------------------------------------ offset bookkeeping *)

(* an in-use entry x locates its object in f *)
Definition locates_g (e : eolk) (f : list N) (x : ent) (g : N) : Prop :=
  e_free x = false /\ exists rest, dropN (e_a x) f = obj_header e (e_nr x) g ++ rest.
Definition locates (e : eolk) (f : list N) (x : ent) : Prop := locates_g e f x (e_b x).
(* what the writer records for object o: number, the TABLE generation, and an offset that is the position
   of "<nr> <header generation> obj" *)
Definition recorded (e : eolk) (f : list N) (o : obj) (x : ent) : Prop :=
  e_nr x = o_nr o /\ e_b x = o_xgen o /\ locates_g e f x (o_gen o).
Definition gens_agree (os : list obj) : bool := forallb (fun o => o_xgen o =? o_gen o) os.

Lemma recorded_locates e f os tbl : Forall2 (recorded e f) os tbl -> gens_agree os = true -> Forall (locates e f) tbl.
Proof.
  induction 1 as [|o x os tbl (Hn & Hb & Hl) _ IH]; intros G; [constructor|].
  cbn in G. apply andb_true_iff in G. destruct G as [G1 G2]. apply N.eqb_eq in G1.
  constructor; [|apply IH; exact G2]. unfold locates. rewrite Hb, G1. exact Hl.
Qed.

(* THE invariant: the separately kept counter equals the number of bytes emitted so far, hence every
   offset recorded by SetWriteOffset is the position of that object's "n g obj". *)
Lemma write_objs_inv e : forall os off pre post bytes off' tbl,
  write_objs e off os = (bytes, off', tbl) -> off = lenN pre ->
  off' = lenN (pre ++ bytes) /\
  Forall2 (recorded e (pre ++ bytes ++ post)) os tbl /\
  Forall (fun x => e_a x <= off') tbl /\ off <= off'.
Proof.
  induction os as [|o r IH]; intros off pre post bytes off' tbl H Hoff; cbn [write_objs] in H.
  - inversion H; subst. rewrite app_nil_r. repeat split; try constructor. lia.
  - destruct (write_objs e (off + (lenN (obj_header e (o_nr o) (o_gen o)) + lenN (o_body o) + lenN (obj_trailer e))) r)
      as [[b o'] t] eqn:E.
    inversion H; subst bytes off' tbl. clear H.
    set (h := obj_header e (o_nr o) (o_gen o)) in *.
    set (tr := obj_trailer e) in *.
    specialize (IH _ (pre ++ h ++ o_body o ++ tr) post _ _ _ E).
    destruct IH as (IH1 & IH2 & IH3 & IH4).
    { rewrite !lenN_app. lia. }
    assert (EQ : forall z, (pre ++ h ++ o_body o ++ tr) ++ b ++ z = pre ++ (h ++ o_body o ++ tr ++ b) ++ z).
    { intros z. repeat rewrite <- app_assoc. reflexivity. }
    repeat split.
    + rewrite IH1. f_equal. repeat rewrite <- app_assoc. reflexivity.
    + constructor.
      * split; [reflexivity|]. split; [reflexivity|]. split; [reflexivity|].
        cbn [e_a e_nr e_b]. exists (o_body o ++ tr ++ b ++ post).
        rewrite Hoff, dropN_app. repeat rewrite <- app_assoc. reflexivity.
      * rewrite <- EQ. exact IH2.
    + constructor; [cbn [e_a]; lia|exact IH3].
    + lia.
Qed.

(* ------------------------------------------------------------------ the end of the file *)

Lemma nonempty_match {A B} (l : list A) (a b : B) : l <> [] ->
  match l with [] => a | _ :: _ => b end = b.
Proof. destruct l; [contradiction|reflexivity]. Qed.

Lemma rev_nonempty {A} (l : list A) : l <> [] -> rev l <> [].
Proof. intros H E. apply H. rewrite <- (rev_involutive l), E. reflexivity. Qed.

Lemma nondigit_rev_eol e r : nondigit_head (rev (eolb e) ++ r).
Proof. destruct e; reflexivity. Qed.

Lemma parse_tail_ok A e S X :
  parse_tail_rev (rev (A ++ s_size ++ dec S ++ s_dictclose ++ eolb e ++ s_startxref ++ eolb e ++
                       dec X ++ eolb e ++ s_eof ++ eolb e)) = Some (X, S).
Proof.
  repeat rewrite rev_app_distr. repeat rewrite <- app_assoc.
  unfold parse_tail_rev.
  rewrite strip_eol_rev_app by (cbn; discriminate). cbn [bind].
  rewrite strip_app. cbn [bind].
  rewrite strip_eol_rev_app by (apply digits_head_not; [apply digits_rev, dec_digits|apply rev_nonempty, dec_nonempty|reflexivity]).
  cbn [bind].
  rewrite take_digits_app by (try apply nondigit_rev_eol; apply digits_rev, dec_digits).
  rewrite nonempty_match by (apply rev_nonempty, dec_nonempty).
  rewrite strip_eol_rev_app by (cbn; discriminate). cbn [bind].
  rewrite strip_app. cbn [bind].
  rewrite strip_eol_rev_app by (cbn; discriminate). cbn [bind].
  rewrite strip_app. cbn [bind].
  rewrite take_digits_app by (try reflexivity; apply digits_rev, dec_digits).
  rewrite nonempty_match by (apply rev_nonempty, dec_nonempty).
  rewrite strip_app. cbn [bind].
  rewrite !rev_involutive, !dec_value. reflexivity.
Qed.

(* ------------------------------------------------------------------ the table at the startxref offset *)

Lemma parse_xref_ok pre e ents tpre size off :
  off = lenN pre -> strictly_increasing ents -> Forall bounded ents ->
  parse_xref_at (pre ++ xref_section e ents tpre size off) off = Some ents.
Proof.
  intros Hoff Hinc Hb. unfold parse_xref_at. rewrite Hoff, dropN_app. unfold xref_section.
  rewrite strip_app. cbn [bind].
  rewrite strip_eol_app by apply table_head_not_lf. cbn [bind].
  rewrite parse_sections_table by assumption. cbn [bind].
  rewrite strip_eol_app by (cbn; discriminate). cbn [bind].
  rewrite strip_app. reflexivity.
Qed.

(* ------------------------------------------------------------------ in-use entries locate their objects *)

Lemma is_eol_start_eol e r : is_eol_start (eolb e ++ r) = true.
Proof. destruct e; reflexivity. Qed.

Lemma locates_entry e f x : e_free x = true \/ locates e f x -> entry_locates f x = true.
Proof.
  unfold entry_locates. intros [Hf|[Hf (rest & H)]]; rewrite Hf; [reflexivity|].
  rewrite H. unfold obj_header.
  replace ((dec (e_nr x) ++ [32] ++ dec (e_b x) ++ s_obj ++ eolb e) ++ rest)
    with ((dec (e_nr x) ++ [32] ++ dec (e_b x) ++ s_obj) ++ eolb e ++ rest)
    by (repeat rewrite <- app_assoc; reflexivity).
  rewrite strip_app. apply is_eol_start_eol.
Qed.

Lemma entry_locates_sound f x : entry_locates f x = true -> e_free x = false ->
  exists r, dropN (e_a x) f = dec (e_nr x) ++ [32] ++ dec (e_b x) ++ s_obj ++ r /\ is_eol_start r = true.
Proof.
  unfold entry_locates. intros H Hf. rewrite Hf in H.
  destruct (strip _ _) as [r|] eqn:E; [|discriminate].
  exists r. split; [|exact H]. apply strip_sound in E. rewrite E. repeat rewrite <- app_assoc. reflexivity.
Qed.

(* ------------------------------------------------------------------ header *)

Lemma header_ok_layout e vmaj vmin rest : vmaj < 10 -> vmin < 10 ->
  header_ok (header_bytes e vmaj vmin ++ rest) = true.
Proof.
  intros H1 H2. unfold header_ok, header_bytes. repeat rewrite <- app_assoc. rewrite strip_app.
  assert (D1 : is_digit (48 + vmaj) = true) by (apply is_digit_spec; lia).
  assert (D2 : is_digit (48 + vmin) = true) by (apply is_digit_spec; lia).
  destruct e; cbn [app eolb]; rewrite D1, D2; reflexivity.
Qed.

(* ------------------------------------------------------------------ well-formed inputs *)

Record wf (i : input) : Prop := {
  wf_vmaj : i_vmaj i < 10;
  wf_vmin : i_vmin i < 10;
  (* the entries taken from the xref table's free objects are free entries *)
  wf_frees : forallb e_free (i_frees i) = true;
  (* each object's table generation equals the generation printed in its "n g obj" line *)
  wf_gens : gens_agree (i_objs i) = true;
  (* "%010d" / "%05d" do not overflow their fields: the file is shorter than 10^10 bytes, free links
     and generation numbers are below 10^10 resp. 10^5 *)
  wf_bounded : Forall bounded (xents i);
  (* the cross-reference contents (independent of any offset): object 0 is the first entry and free,
     object numbers are distinct (strictly increasing once sorted), /Size is the highest number + 1,
     the free entries form a chain from object 0 (generation 65535) *)
  wf_table : table_ok (i_size i) 0 (xents i) = true
}.

Lemma table_ok_increasing size maxc ents : table_ok size maxc ents = true -> strictly_increasing ents.
Proof.
  unfold table_ok. destruct ents as [|h r]; [discriminate|]. intros H.
  apply andb_true_iff in H. destruct H as [H _]. apply andb_true_iff in H. destruct H as [H _].
  apply andb_true_iff in H. destruct H as [H Hinc]. apply andb_true_iff in H. destruct H as [H0 _].
  apply N.eqb_eq in H0. cbn. rewrite H0. exact Hinc.
Qed.

Lemma body_of_spec i bytes off tbl post : body_of i = (bytes, off, tbl) ->
  off = lenN bytes /\ Forall2 (recorded (i_eol i) (bytes ++ post)) (i_objs i) tbl /\
  exists b0, bytes = header_bytes (i_eol i) (i_vmaj i) (i_vmin i) ++ b0.
Proof.
  unfold body_of. intros H.
  destruct (write_objs (i_eol i) (lenN (header_bytes (i_eol i) (i_vmaj i) (i_vmin i))) (i_objs i)) as [[b o] t] eqn:E.
  pose proof (f_equal (fun p => fst (fst p)) H) as Hb. pose proof (f_equal (fun p => snd (fst p)) H) as Ho.
  pose proof (f_equal snd H) as Ht. cbn [fst snd] in Hb, Ho, Ht. subst bytes off tbl. clear H.
  destruct (write_objs_inv _ _ _ (header_bytes (i_eol i) (i_vmaj i) (i_vmin i)) post _ _ _ E eq_refl) as (H1 & H2 & _).
  repeat split; [exact H1| |exists b; reflexivity].
  rewrite <- app_assoc. exact H2.
Qed.

Lemma xents_in i bytes off tbl x : body_of i = (bytes, off, tbl) ->
  In x (xents i) -> In x (i_frees i) \/ In x tbl.
Proof.
  intros H Hin. unfold xents in Hin. rewrite H in Hin.
  apply in_app_or. eapply Permutation_in; [|exact Hin].
  apply Permutation_sym, EntSort.Permuted_sort.
Qed.

(* MAIN: the strict checker accepts the layout of every well-formed input *)
Theorem layout_checks i : wf i -> check_file (layout i) = true.
Proof.
  intros W. unfold layout.
  destruct (body_of i) as [[bytes off] tbl] eqn:Eb.
  set (xs := xref_section (i_eol i) (xents i) (i_tpre i) (i_size i) off).
  destruct (body_of_spec i bytes off tbl xs Eb) as (Hoff & Hloc & (b0 & Hb0)).
  unfold check_file.
  assert (Hh : header_ok (bytes ++ xs) = true).
  { rewrite Hb0, <- app_assoc. apply header_ok_layout; apply W. }
  rewrite Hh. cbn [andb].
  rewrite <- rev_alt.
  assert (Ht : parse_tail_rev (rev (bytes ++ xs)) = Some (off, i_size i)).
  { unfold xs, xref_section.
    replace (bytes ++ s_xref ++ eolb (i_eol i) ++ concat (map (print_run (i_eol i)) (runs (xents i))) ++
             s_trailer ++ eolb (i_eol i) ++ s_dictopen ++ i_tpre i ++ s_size ++ dec (i_size i) ++ s_dictclose ++
             eolb (i_eol i) ++ s_startxref ++ eolb (i_eol i) ++ dec off ++ eolb (i_eol i) ++ s_eof ++ eolb (i_eol i))
      with ((bytes ++ s_xref ++ eolb (i_eol i) ++ concat (map (print_run (i_eol i)) (runs (xents i))) ++
             s_trailer ++ eolb (i_eol i) ++ s_dictopen ++ i_tpre i) ++ s_size ++ dec (i_size i) ++ s_dictclose ++
             eolb (i_eol i) ++ s_startxref ++ eolb (i_eol i) ++ dec off ++ eolb (i_eol i) ++ s_eof ++ eolb (i_eol i))
      by (repeat rewrite <- app_assoc; reflexivity).
    apply parse_tail_ok. }
  rewrite Ht.
  assert (Hx : parse_xref_at (bytes ++ xs) off = Some (xents i)).
  { unfold xs. apply parse_xref_ok; [exact Hoff|eapply table_ok_increasing; apply W|apply W]. }
  rewrite Hx. unfold check_rows. rewrite (wf_table i W). cbn [andb].
  apply forallb_forall. intros x Hin. apply (locates_entry (i_eol i)).
  destruct (xents_in i bytes off tbl x Eb Hin) as [Hf|Hu].
  - left. pose proof (wf_frees i W) as Hfr. rewrite forallb_forall in Hfr. apply Hfr. exact Hf.
  - right. pose proof (recorded_locates _ _ _ _ Hloc (wf_gens i W)) as Hl.
    rewrite Forall_forall in Hl. apply Hl. exact Hu.
Qed.

Lemma size_is_max_plus_one i : wf i -> i_size i = N.succ (last_nr 0 (xents i)).
Proof.
  intros W. pose proof (wf_table i W) as H. unfold table_ok in H.
  destruct (xents i) as [|h r]; [discriminate|].
  apply andb_true_iff in H. destruct H as [H _]. apply andb_true_iff in H. destruct H as [_ H].
  apply N.eqb_eq in H. rewrite H, N.max_0_r. reflexivity.
Qed.

(* ------------------------------------------------------------------ what acceptance means *)

Theorem check_file_sound f : check_file f = true ->
  exists x size ents,
    parse_tail_rev (rev f) = Some (x, size) /\            (* startxref value and trailer /Size, read from the end *)
    parse_xref_at f x = Some ents /\                      (* a syntactically exact table at that offset *)
    size = N.succ (last_nr 0 ents) /\                     (* /Size = highest object number + 1 *)
    strictly_increasing ents /\
    chain_ok ents = true /\                               (* free list *)
    forall y, In y ents -> e_free y = false ->            (* every in-use entry locates its object exactly *)
      exists r, dropN (e_a y) f = dec (e_nr y) ++ [32] ++ dec (e_b y) ++ s_obj ++ r /\ is_eol_start r = true.
Proof.
  unfold check_file. intros H. apply andb_true_iff in H. destruct H as [_ H].
  rewrite <- rev_alt in H.
  destruct (parse_tail_rev (rev f)) as [[x size]|] eqn:Et; [|discriminate].
  destruct (parse_xref_at f x) as [ents|] eqn:Ex; [|discriminate].
  unfold check_rows in H. apply andb_true_iff in H. destruct H as [Ht Hl].
  exists x, size, ents. repeat split.
  - exact Ex.
  - unfold table_ok in Ht. destruct ents as [|h r]; [discriminate|].
    apply andb_true_iff in Ht. destruct Ht as [Ht _]. apply andb_true_iff in Ht. destruct Ht as [_ Hs].
    apply N.eqb_eq in Hs. rewrite Hs, N.max_0_r. reflexivity.
  - eapply table_ok_increasing. exact Ht.
  - unfold table_ok in Ht. destruct ents as [|h r]; [discriminate|].
    apply andb_true_iff in Ht. destruct Ht as [_ Ht]. exact Ht.
  - intros y Hy Hf. rewrite forallb_forall in Hl. apply entry_locates_sound; [apply Hl; exact Hy|exact Hf].
Qed.

(* ------------------------------------------------------------------ unconditional exactness of the bookkeeping *)

(* no hypothesis on the input at all: every offset recorded for a written object is the position of
   its "n g obj" line in the finished file, and the startxref value is the position of "xref" *)
Theorem offsets_exact i :
  let '(bytes, off, tbl) := body_of i in
  off = lenN bytes /\
  Forall2 (recorded (i_eol i) (layout i)) (i_objs i) tbl /\
  dropN off (layout i) = xref_section (i_eol i) (xents i) (i_tpre i) (i_size i) off.
Proof.
  destruct (body_of i) as [[bytes off] tbl] eqn:Eb.
  destruct (body_of_spec i bytes off tbl (xref_section (i_eol i) (xents i) (i_tpre i) (i_size i) off) Eb)
    as (Hoff & Hloc & _).
  unfold layout. rewrite Eb. repeat split; [exact Hoff|exact Hloc|].
  rewrite Hoff at 1. apply dropN_app.
Qed.

(* ------------------------------------------------------------------ xref stream rows: int64ToBuf *)

Definition beA (a : N) (l : list N) : N := fold_left (fun a d => 256 * a + d) l a.

Lemma beA_app a x y : beA a (x ++ y) = beA (beA a x) y.
Proof. unfold beA. apply fold_left_app. Qed.

Lemma be_bytes_spec fuel : forall k acc, k < 256 ^ N.of_nat fuel ->
  exists ds, be_bytes fuel k acc = ds ++ acc /\ Forall (fun b => b < 256) ds /\
             (forall a, beA a ds = a * 256 ^ lenN ds + k).
Proof.
  induction fuel as [|f IH]; intros k acc Hk.
  - exists []. cbn in Hk. assert (k = 0) by lia. subst k. cbn. repeat split; [constructor|]. intros a. lia.
  - cbn [be_bytes]. destruct (N.eqb_spec k 0) as [->|Hk0].
    + exists []. repeat split; [constructor|]. intros a. cbn. lia.
    + assert (Hk' : k / 256 < 256 ^ N.of_nat f).
      { rewrite Nat2N.inj_succ, N.pow_succ_r' in Hk. apply N.div_lt_upper_bound; lia. }
      destruct (IH (k / 256) (k mod 256 :: acc) Hk') as (ds & E & Hb & Hv).
      exists (ds ++ [k mod 256]). repeat split.
      * rewrite E, <- app_assoc. reflexivity.
      * apply Forall_app. split; [exact Hb|]. repeat constructor. apply N.mod_upper_bound. lia.
      * intros a. rewrite beA_app, Hv. unfold beA at 1. cbn [fold_left].
        rewrite lenN_app. cbn [lenN]. change (0 + 1) with 1. rewrite N.add_1_r, N.pow_succ_r'.
        pose proof (N.div_mod k 256). lia.
Qed.

Lemma beA_zeros m : beA 0 (repeat 0 m) = 0.
Proof. induction m as [|m IH]; cbn; [reflexivity|]. exact IH. Qed.

(* every row field decodes to the number that was written, for every int64 value and every width *)
Theorem int64ToBuf_roundtrip i w : i < 2 ^ 64 ->
  be_value (int64ToBuf i w) = i /\ (w <= length (int64ToBuf i w))%nat /\ Forall (fun b => b < 256) (int64ToBuf i w).
Proof.
  intros Hi. unfold int64ToBuf, be_value.
  destruct (be_bytes_spec 8 i []) as (ds & E & Hb & Hv); [exact Hi|].
  rewrite E, app_nil_r. repeat split.
  - change (fold_left (fun a d => 256 * a + d) (repeat 0 (w - length ds) ++ ds) 0) with (beA 0 (repeat 0 (w - length ds) ++ ds)).
    rewrite beA_app, beA_zeros, Hv. lia.
  - rewrite app_length, repeat_length. lia.
  - apply Forall_app. split; [|exact Hb]. clear. induction (w - length ds)%nat; cbn; constructor; [lia|assumption].
Qed.

(* ------------------------------------------------------------------ the header must carry the entry's generation *)

(* if the object at an entry's offset has header generation g and the strict check of that entry passes,
   the entry's generation is g *)
Lemma entry_locates_gen e f x g : locates_g e f x g -> entry_locates f x = true -> e_b x = g.
Proof.
  intros [Hf (rest & Hd)] Hl. destruct (entry_locates_sound f x Hl Hf) as (r & Hd' & _).
  rewrite Hd in Hd'. unfold obj_header in Hd'. repeat rewrite <- app_assoc in Hd'.
  apply app_inv_head in Hd'. apply app_inv_head in Hd'.
  assert (T1 : take_digits (dec g ++ s_obj ++ eolb e ++ rest) = (dec g, s_obj ++ eolb e ++ rest))
    by (apply take_digits_app; [apply dec_digits|reflexivity]).
  assert (T2 : take_digits (dec (e_b x) ++ s_obj ++ r) = (dec (e_b x), s_obj ++ r))
    by (apply take_digits_app; [apply dec_digits|reflexivity]).
  rewrite Hd' in T1. rewrite T1 in T2. injection T2 as T2 _.
  rewrite <- (dec_value g), <- (dec_value (e_b x)), T2. reflexivity.
Qed.

(* for EVERY input: an object whose xref entry passes the strict check was written with a header that
   carries the entry's generation (so a writer that prints any other generation in the header -- e.g. always
   0 when rewriting objects of an increment -- is rejected as soon as an entry has another generation) *)
Theorem header_carries_entry_generation i :
  let '(_, _, tbl) := body_of i in
  Forall2 (fun o x => entry_locates (layout i) x = true -> o_xgen o = o_gen o) (i_objs i) tbl.
Proof.
  pose proof (offsets_exact i) as H. destruct (body_of i) as [[bytes off] tbl]. destruct H as (_ & H & _).
  induction H as [|o x os t (Hn & Hb & Hl) _ IH]; constructor; [|exact IH].
  intros Hc. rewrite <- Hb. eapply entry_locates_gen; eassumption.
Qed.
