(* C24 glue: code model (functions c_...) and specification model (functions alg...) of the RC4 and MD5 based algorithms, R 2,3,4. *)
open Model
open Common

let enc o u p id r l emd =
  { eO = bytes_of_hex o; eU = bytes_of_hex u; eOE = []; eUE = []; ePerms = []; eL = n_of_hex l; eP = z_of_hex p;
    eR = n_of_hex r; eEmd = bool_of_str emd; eID = bytes_of_hex id }

let ok_key (ok, key) = str_of_bool ok ^ "|" ^ hex_of_bytes key

let dispatch fn args = match fn, args with
  | "md5", [m] -> hex_of_bytes (md5 (bytes_of_hex m))
  | "rc4", [k; d] -> hex_of_bytes (rc4 (bytes_of_hex k) (bytes_of_hex d))
  | "encKey", [pw; o; p; id; r; l; emd] -> hex_of_bytes (c_encKey (bytes_of_hex pw) (enc o "" p id r l emd))
  | "s_alg2", [pw; o; p; id; r; l; emd] ->
    hex_of_bytes (alg2 (bytes_of_hex pw) (bytes_of_hex o) (z_of_hex p) (bytes_of_hex id) (n_of_hex r) (n_of_hex l) (bool_of_str emd))
  | "key", [opw; upw; r; l] -> hex_of_bytes (c_key (bytes_of_hex opw) (bytes_of_hex upw) (n_of_hex r) (n_of_hex l))
  | "o", [opw; upw; r; l] -> hex_of_bytes (c_o (bytes_of_hex opw) (bytes_of_hex upw) (n_of_hex r) (n_of_hex l))
  | "s_alg3", [opw; upw; r; l] -> hex_of_bytes (alg3 (bytes_of_hex opw) (bytes_of_hex upw) (n_of_hex r) (n_of_hex l))
  | "u", [pw; o; p; id; r; l; emd] ->
    let (u, key) = c_u (bytes_of_hex pw) (enc o "" p id r l emd) in hex_of_bytes u ^ "|" ^ hex_of_bytes key
  | "s_alg45", [pw; o; p; id; r; l; emd] ->
    let key = alg2 (bytes_of_hex pw) (bytes_of_hex o) (z_of_hex p) (bytes_of_hex id) (n_of_hex r) (n_of_hex l) (bool_of_str emd) in
    if int_of_n (n_of_hex r) = 2 then hex_of_bytes (alg4 key) else hex_of_bytes (alg5_16 key (bytes_of_hex id))
  | "vuser", [pw; o; u; p; id; r; l; emd] -> ok_key (c_validate_user_rc4 (bytes_of_hex pw) (enc o u p id r l emd))
  | "s_alg6", [pw; o; u; p; id; r; l; emd] ->
    ok_key (alg6 (bytes_of_hex pw) (bytes_of_hex o) (bytes_of_hex u) (z_of_hex p) (bytes_of_hex id) (n_of_hex r) (n_of_hex l) (bool_of_str emd))
  | "vowner", [opw; upw; o; u; p; id; r; l; emd] ->
    ok_key (c_validate_owner_rc4 (bytes_of_hex opw) (bytes_of_hex upw) (enc o u p id r l emd))
  | "s_alg7", [opw; upw; o; u; p; id; r; l; emd] ->
    ok_key (alg7 (bytes_of_hex opw) (bytes_of_hex upw) (bytes_of_hex o) (bytes_of_hex u) (z_of_hex p) (bytes_of_hex id) (n_of_hex r) (n_of_hex l) (bool_of_str emd))
  | _ -> failwith ("unknown function " ^ fn)
let () = main dispatch
