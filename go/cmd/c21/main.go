// Harness for C21 — every output produced from a valid input validates.
//
// O (oracle, on the implementation): every document-transforming operation of pkg/api that can be
// driven from a reader (optimize, rotate, trim, collect, remove/insert pages, n-up, grid, booklet,
// resize, zoom, crop, boxes add/remove, watermark/stamp add/remove, attachments add/remove,
// keywords and properties add/remove, encrypt/decrypt/change passwords/permissions, merge, split,
// bookmarks add/remove, annotations remove, page layout/mode set/reset, viewer preferences,
// cut/poster/ndown) is applied with random valid parameters to generated documents and corpus
// documents that pass api.Validate in relaxed mode; when the operation succeeds, api.Validate
// (relaxed) must accept each output.  Failure class: invalid-output:<operation> (known narrow
// class: property-name-with-hash).
//
// K (correspondence): for plain write (optimize), trim, remove pages, collect and insert pages the
// page tree of the input (shape + page identifiers /VerifId) goes to the extracted model
// (coq/C21/Model.v select / extract / insert_blank); the predicted page identifier sequence and
// root /Count are compared with the real output (and the model's result must satisfy tree_ok).
package main

import (
	"bytes"
	"encoding/hex"
	"fmt"
	"io"
	"math/rand"
	"os"
	"path/filepath"
	"sort"
	"strings"

	"github.com/pdfcpu/pdfcpu/pkg/api"
	"github.com/pdfcpu/pdfcpu/pkg/pdfcpu"
	"github.com/pdfcpu/pdfcpu/pkg/pdfcpu/model"
	"github.com/pdfcpu/pdfcpu/pkg/pdfcpu/types"
	"verif/vh"
)

func guard(f func() error) (err error) {
	defer func() {
		if e := recover(); e != nil {
			err = fmt.Errorf("PANIC: %v", e)
		}
	}()
	return f()
}

// credentials of the input the operations currently run on (crypto matrix: encrypted inputs)
var curUPW, curOPW string

func newConf() *model.Configuration {
	c := model.NewDefaultConfiguration()
	c.ValidationMode = model.ValidationRelaxed
	c.UserPW, c.OwnerPW = curUPW, curOPW
	return c
}

func validate(b []byte, upw, opw string) error {
	return guard(func() error {
		c := newConf()
		c.UserPW, c.OwnerPW = upw, opw
		return api.Validate(bytes.NewReader(b), c)
	})
}

func validateStrict(b []byte, upw, opw string) error {
	return guard(func() error {
		c := model.NewDefaultConfiguration()
		c.ValidationMode = model.ValidationStrict
		c.UserPW, c.OwnerPW = upw, opw
		return api.Validate(bytes.NewReader(b), c)
	})
}

type opResult struct {
	outs     [][]byte
	upw, opw string
}

type op struct {
	name string
	run  func(r *rand.Rand, doc []byte, nPages int, env *env) (*opResult, string, error)
}

type env struct {
	tmp   string
	other []byte // a second valid document (merge, pdf watermark)
}

func sel(r *rand.Rand, n int) ([]string, []int) {
	if n <= 0 {
		return nil, nil
	}
	var s []string
	var l []int
	for i := 1; i <= n; i++ {
		if r.Intn(2) == 0 {
			s = append(s, fmt.Sprint(i))
			l = append(l, i)
		}
	}
	if len(l) == 0 {
		k := 1 + r.Intn(n)
		s, l = []string{fmt.Sprint(k)}, []int{k}
	}
	return s, l
}

func selSyntax(r *rand.Rand, n int) []string {
	switch r.Intn(6) {
	case 0:
		return nil // all pages
	case 1:
		return []string{"even"}
	case 2:
		return []string{"odd"}
	case 3:
		return []string{fmt.Sprintf("1-%d", 1+r.Intn(n))}
	case 4:
		return []string{"l"}
	default:
		s, _ := sel(r, n)
		return s
	}
}


func one(b *bytes.Buffer) *opResult { return &opResult{outs: [][]byte{b.Bytes()}} }

func rw(doc []byte, f func(rs io.ReadSeeker, w io.Writer) error) (*opResult, error) {
	var w bytes.Buffer
	err := guard(func() error { return f(bytes.NewReader(doc), &w) })
	if err != nil {
		return nil, err
	}
	return one(&w), nil
}

func readDir(dir string) [][]byte {
	var outs [][]byte
	m, _ := filepath.Glob(filepath.Join(dir, "*.pdf"))
	sort.Strings(m)
	for _, f := range m {
		if b, err := os.ReadFile(f); err == nil {
			outs = append(outs, b)
		}
	}
	return outs
}

func ops() []op {
	return []op{
		{"optimize", func(r *rand.Rand, doc []byte, n int, e *env) (*opResult, string, error) {
			c := newConf()
			c.OptimizeDuplicateContentStreams = r.Intn(2) == 0
			c.WriteObjectStream = r.Intn(2) == 0
			c.WriteXRefStream = c.WriteObjectStream || r.Intn(2) == 0
			res, err := rw(doc, func(rs io.ReadSeeker, w io.Writer) error { return api.Optimize(rs, w, c) })
			return res, fmt.Sprintf("dupcontent=%v objstm=%v xrefstm=%v", c.OptimizeDuplicateContentStreams, c.WriteObjectStream, c.WriteXRefStream), err
		}},
		{"rotate", func(r *rand.Rand, doc []byte, n int, e *env) (*opResult, string, error) {
			rot := []int{90, 180, 270, -90, -180, -270}[r.Intn(6)]
			s := selSyntax(r, n)
			res, err := rw(doc, func(rs io.ReadSeeker, w io.Writer) error { return api.Rotate(rs, w, rot, s, newConf()) })
			return res, fmt.Sprintf("rot=%d sel=%v", rot, s), err
		}},
		{"trim", func(r *rand.Rand, doc []byte, n int, e *env) (*opResult, string, error) {
			s := selSyntax(r, n)
			if s == nil {
				s = []string{"1"}
			}
			res, err := rw(doc, func(rs io.ReadSeeker, w io.Writer) error { return api.Trim(rs, w, s, newConf()) })
			return res, fmt.Sprintf("sel=%v", s), err
		}},
		{"collect", func(r *rand.Rand, doc []byte, n int, e *env) (*opResult, string, error) {
			var s []string
			for i := 0; i < 1+r.Intn(5); i++ {
				s = append(s, fmt.Sprint(1+r.Intn(n)))
			}
			res, err := rw(doc, func(rs io.ReadSeeker, w io.Writer) error { return api.Collect(rs, w, s, newConf()) })
			return res, fmt.Sprintf("sel=%v", s), err
		}},
		{"removepages", func(r *rand.Rand, doc []byte, n int, e *env) (*opResult, string, error) {
			if n < 2 {
				return nil, "", fmt.Errorf("skip")
			}
			s, l := sel(r, n)
			if len(l) == n {
				s = s[:len(s)-1]
			}
			res, err := rw(doc, func(rs io.ReadSeeker, w io.Writer) error { return api.RemovePages(rs, w, s, newConf()) })
			return res, fmt.Sprintf("sel=%v", s), err
		}},
		{"insertpages", func(r *rand.Rand, doc []byte, n int, e *env) (*opResult, string, error) {
			s := selSyntax(r, n)
			before := r.Intn(2) == 0
			var pc *pdfcpu.PageConfiguration
			if r.Intn(2) == 0 {
				pc, _ = pdfcpu.ParsePageConfiguration(pick(r, "f:A5", "f:A4L", "d:100 200", "f:Letter"), types.POINTS)
			}
			res, err := rw(doc, func(rs io.ReadSeeker, w io.Writer) error { return api.InsertPages(rs, w, s, before, pc, newConf()) })
			return res, fmt.Sprintf("sel=%v before=%v pc=%v", s, before, pc != nil), err
		}},
		{"nup", func(r *rand.Rand, doc []byte, n int, e *env) (*opResult, string, error) {
			v := []int{2, 3, 4, 8, 9, 12, 16}[r.Intn(7)]
			desc := pick(r, "", "f:A4", "f:A3L, bo:off", "ma:10, o:dr", "d:400 600, guides:on", "o:ld, m:5")
			nup, err := api.PDFNUpConfig(v, desc, newConf())
			if err != nil {
				return nil, "", err
			}
			s := selSyntax(r, n)
			res, err := rw(doc, func(rs io.ReadSeeker, w io.Writer) error { return api.NUp(rs, w, nil, s, nup, newConf()) })
			return res, fmt.Sprintf("n=%d desc=%q sel=%v", v, desc, s), err
		}},
		{"grid", func(r *rand.Rand, doc []byte, n int, e *env) (*opResult, string, error) {
			rows, cols := 1+r.Intn(3), 1+r.Intn(3)
			desc := pick(r, "", "bo:off", "ma:10", "o:dl")
			nup, err := api.PDFGridConfig(rows, cols, desc, newConf())
			if err != nil {
				return nil, "", err
			}
			res, err := rw(doc, func(rs io.ReadSeeker, w io.Writer) error { return api.Grid(rs, w, nil, nil, nup, newConf()) })
			return res, fmt.Sprintf("grid=%dx%d desc=%q", rows, cols, desc), err
		}},
		{"booklet", func(r *rand.Rand, doc []byte, n int, e *env) (*opResult, string, error) {
			v := []int{2, 4, 6, 8}[r.Intn(4)]
			desc := pick(r, "", "f:A4", "btype:booklet", "binding:short", "multifolio:on", "g:on", "btype:bookletadvanced", "btype:perfectbound")
			nup, err := api.PDFBookletConfig(v, desc, newConf())
			if err != nil {
				return nil, "", err
			}
			res, err := rw(doc, func(rs io.ReadSeeker, w io.Writer) error { return api.Booklet(rs, w, nil, nil, nup, newConf()) })
			return res, fmt.Sprintf("n=%d desc=%q", v, desc), err
		}},
		{"resize", func(r *rand.Rand, doc []byte, n int, e *env) (*opResult, string, error) {
			desc := pick(r, "scale:0.5", "sc:2", "form:A4", "f:A3L", "dim:300 400", "dim:400 300, enforce:true", "f:A5, bgcol:#FF0000")
			rc, err := pdfcpu.ParseResizeConfig(desc, types.POINTS)
			if err != nil {
				return nil, "", err
			}
			s := selSyntax(r, n)
			res, err := rw(doc, func(rs io.ReadSeeker, w io.Writer) error { return api.Resize(rs, w, s, rc, newConf()) })
			return res, fmt.Sprintf("desc=%q sel=%v", desc, s), err
		}},
		{"zoom", func(r *rand.Rand, doc []byte, n int, e *env) (*opResult, string, error) {
			desc := pick(r, "factor:0.5", "factor:2", "hmargin:10", "vmargin:-20", "factor:0.8, border:true", "hmargin:30, bgcol:#00FF00")
			z, err := pdfcpu.ParseZoomConfig(desc, types.POINTS)
			if err != nil {
				return nil, "", err
			}
			s := selSyntax(r, n)
			res, err := rw(doc, func(rs io.ReadSeeker, w io.Writer) error { return api.Zoom(rs, w, s, z, newConf()) })
			return res, fmt.Sprintf("desc=%q sel=%v", desc, s), err
		}},
		{"crop", func(r *rand.Rand, doc []byte, n int, e *env) (*opResult, string, error) {
			desc := pick(r, "[0 0 100 100]", "10", "10 20", "0.1 0.2 rel", "dim:100 100, pos:c", "5 5 5 5")
			b, err := model.ParseBox(desc, types.POINTS)
			if err != nil {
				return nil, "", err
			}
			s := selSyntax(r, n)
			res, err := rw(doc, func(rs io.ReadSeeker, w io.Writer) error { return api.Crop(rs, w, s, b, newConf()) })
			return res, fmt.Sprintf("desc=%q sel=%v", desc, s), err
		}},
		{"boxes-add", func(r *rand.Rand, doc []byte, n int, e *env) (*opResult, string, error) {
			desc := pick(r, "crop:[10 10 100 100]", "trim:10", "crop:[0 0 150 150], trim:crop, art:5", "bleed:[5 5 120 120]", "media:[0 0 300 400]", "crop:10, bleed:crop")
			pb, err := model.ParsePageBoundaries(desc, types.POINTS)
			if err != nil {
				return nil, "", err
			}
			s := selSyntax(r, n)
			res, err := rw(doc, func(rs io.ReadSeeker, w io.Writer) error { return api.AddBoxes(rs, w, s, pb, newConf()) })
			return res, fmt.Sprintf("desc=%q sel=%v", desc, s), err
		}},
		{"boxes-remove", func(r *rand.Rand, doc []byte, n int, e *env) (*opResult, string, error) {
			desc := pick(r, "crop", "trim", "crop, trim", "bleed, art", "crop, trim, bleed, art")
			pb, err := model.ParseBoxList(desc)
			if err != nil {
				return nil, "", err
			}
			s := selSyntax(r, n)
			res, err := rw(doc, func(rs io.ReadSeeker, w io.Writer) error { return api.RemoveBoxes(rs, w, s, pb, newConf()) })
			return res, fmt.Sprintf("desc=%q sel=%v", desc, s), err
		}},
		{"watermark-text", func(r *rand.Rand, doc []byte, n int, e *env) (*opResult, string, error) {
			desc := pick(r, "", "rot:45, scale:0.5", "pos:tl, points:24, op:0.5", "scale:1 abs, rot:0, fillc:#FF0000", "pos:bc, off:0 10, mode:1", "font:Courier, points:12, border:5, bgcol:#EEEEEE")
			onTop := r.Intn(2) == 0
			text := pick(r, "Draft", "Multi\\nLine", "(paren) \\\\ text", "Page %p of %P", "Ünïcödé")
			wm, err := api.TextWatermark(text, desc, onTop, false, types.POINTS)
			if err != nil {
				return nil, "", err
			}
			s := selSyntax(r, n)
			res, err := rw(doc, func(rs io.ReadSeeker, w io.Writer) error { return api.AddWatermarks(rs, w, s, wm, newConf()) })
			return res, fmt.Sprintf("text=%q desc=%q onTop=%v sel=%v", text, desc, onTop, s), err
		}},
		{"watermark-pdf", func(r *rand.Rand, doc []byte, n int, e *env) (*opResult, string, error) {
			desc := pick(r, "", "rot:0, scale:0.3", "pos:br, scale:0.2 rel")
			onTop := r.Intn(2) == 0
			wm, err := api.PDFWatermarkForReadSeeker(bytes.NewReader(e.other), 1, desc, onTop, false, types.POINTS)
			if err != nil {
				return nil, "", err
			}
			res, err := rw(doc, func(rs io.ReadSeeker, w io.Writer) error { return api.AddWatermarks(rs, w, nil, wm, newConf()) })
			return res, fmt.Sprintf("desc=%q onTop=%v", desc, onTop), err
		}},
		{"watermark-add-remove", func(r *rand.Rand, doc []byte, n int, e *env) (*opResult, string, error) {
			wm, err := api.TextWatermark("Stamp", pick(r, "", "rot:30", "pos:tr, scale:0.3"), r.Intn(2) == 0, false, types.POINTS)
			if err != nil {
				return nil, "", err
			}
			s := selSyntax(r, n)
			res, err := rw(doc, func(rs io.ReadSeeker, w io.Writer) error { return api.AddWatermarks(rs, w, s, wm, newConf()) })
			if err != nil {
				return nil, "", err
			}
			s2 := selSyntax(r, n)
			res2, err := rw(res.outs[0], func(rs io.ReadSeeker, w io.Writer) error { return api.RemoveWatermarks(rs, w, s2, newConf()) })
			return res2, fmt.Sprintf("add sel=%v remove sel=%v", s, s2), err
		}},
		{"attachments-add", func(r *rand.Rand, doc []byte, n int, e *env) (*opResult, string, error) {
			var files []string
			for i := 0; i < 1+r.Intn(3); i++ {
				name := pick(r, "a.txt", "b b.bin", "ü.dat", "c(1).txt", "d#1.txt", "z.pdf") + fmt.Sprint(i)
				f := filepath.Join(e.tmp, name)
				os.WriteFile(f, []byte("attachment "+name), 0o644)
				if r.Intn(2) == 0 {
					f += ", " + pick(r, "a description", "desc (x)", "ünï")
				}
				files = append(files, f)
			}
			coll := r.Intn(2) == 0
			res, err := rw(doc, func(rs io.ReadSeeker, w io.Writer) error { return api.AddAttachments(rs, w, files, coll, newConf()) })
			return res, fmt.Sprintf("files=%d coll=%v", len(files), coll), err
		}},
		{"attachments-add-remove", func(r *rand.Rand, doc []byte, n int, e *env) (*opResult, string, error) {
			f1, f2 := filepath.Join(e.tmp, "one.txt"), filepath.Join(e.tmp, "two.txt")
			os.WriteFile(f1, []byte("one"), 0o644)
			os.WriteFile(f2, []byte("two"), 0o644)
			res, err := rw(doc, func(rs io.ReadSeeker, w io.Writer) error { return api.AddAttachments(rs, w, []string{f1, f2}, false, newConf()) })
			if err != nil {
				return nil, "", err
			}
			var rm []string
			if r.Intn(2) == 0 {
				rm = []string{"one.txt"}
			}
			res2, err := rw(res.outs[0], func(rs io.ReadSeeker, w io.Writer) error { return api.RemoveAttachments(rs, w, rm, newConf()) })
			return res2, fmt.Sprintf("remove=%v", rm), err
		}},
		{"keywords-add", func(r *rand.Rand, doc []byte, n int, e *env) (*opResult, string, error) {
			var kw []string
			for i := 0; i < 1+r.Intn(3); i++ {
				kw = append(kw, pick(r, "alpha", "two words", "ünï", "with,comma", "semi;colon", "(paren)", "back\\slash", ""))
			}
			res, err := rw(doc, func(rs io.ReadSeeker, w io.Writer) error { return api.AddKeywords(rs, w, kw, newConf()) })
			return res, fmt.Sprintf("kw=%q", kw), err
		}},
		{"keywords-remove", func(r *rand.Rand, doc []byte, n int, e *env) (*opResult, string, error) {
			var kw []string
			if r.Intn(2) == 0 {
				kw = []string{pick(r, "alpha", "plain", "x")}
			}
			res, err := rw(doc, func(rs io.ReadSeeker, w io.Writer) error { return api.RemoveKeywords(rs, w, kw, newConf()) })
			return res, fmt.Sprintf("kw=%q", kw), err
		}},
		{"properties-add", func(r *rand.Rand, doc []byte, n int, e *env) (*opResult, string, error) {
			m := map[string]string{}
			for i := 0; i < 1+r.Intn(3); i++ {
				m[pick(r, "Key", "My Key", "Compañy", "A.B", "k(1)", "slash/x", "per%cent", "sp  ace")] = pick(r, "value", "(v)", "ünï", "", "back\\slash", "multi\nline")
			}
			res, err := rw(doc, func(rs io.ReadSeeker, w io.Writer) error { return api.AddProperties(rs, w, m, newConf()) })
			return res, fmt.Sprintf("props=%q", m), err
		}},
		{"properties-add-hash", func(r *rand.Rand, doc []byte, n int, e *env) (*opResult, string, error) {
			m := map[string]string{pick(r, "a#b", "#", "x#41", "##"): "v"}
			res, err := rw(doc, func(rs io.ReadSeeker, w io.Writer) error { return api.AddProperties(rs, w, m, newConf()) })
			return res, fmt.Sprintf("props=%q", m), err
		}},
		{"properties-remove", func(r *rand.Rand, doc []byte, n int, e *env) (*opResult, string, error) {
			var p []string
			if r.Intn(2) == 0 {
				p = []string{pick(r, "Key", "Custom", "Company")}
			}
			res, err := rw(doc, func(rs io.ReadSeeker, w io.Writer) error { return api.RemoveProperties(rs, w, p, newConf()) })
			return res, fmt.Sprintf("props=%q", p), err
		}},
		{"encrypt", func(r *rand.Rand, doc []byte, n int, e *env) (*opResult, string, error) {
			var c *model.Configuration
			kind := pick(r, "aes256", "aes128", "aes40", "rc4-128", "rc4-40")
			switch kind {
			case "aes256":
				c = model.NewAESConfiguration("u", "o", 256)
			case "aes128":
				c = model.NewAESConfiguration("u", "o", 128)
			case "aes40":
				c = model.NewAESConfiguration("u", "o", 40)
			case "rc4-128":
				c = model.NewRC4Configuration("u", "o", 128)
			default:
				c = model.NewRC4Configuration("u", "o", 40)
			}
			c.Permissions = []model.PermissionFlags{model.PermissionsNone, model.PermissionsAll, model.PermissionsPrint}[r.Intn(3)]
			res, err := rw(doc, func(rs io.ReadSeeker, w io.Writer) error { return api.Encrypt(rs, w, c) })
			if res != nil {
				res.upw, res.opw = "u", "o"
			}
			return res, "kind=" + kind, err
		}},
		{"encrypt-decrypt", func(r *rand.Rand, doc []byte, n int, e *env) (*opResult, string, error) {
			c := model.NewAESConfiguration("u", "o", []int{128, 256}[r.Intn(2)])
			res, err := rw(doc, func(rs io.ReadSeeker, w io.Writer) error { return api.Encrypt(rs, w, c) })
			if err != nil {
				return nil, "", err
			}
			c2 := model.NewAESConfiguration("u", "o", 256)
			res2, err := rw(res.outs[0], func(rs io.ReadSeeker, w io.Writer) error { return api.Decrypt(rs, w, c2) })
			return res2, "", err
		}},
		{"encrypt-changepw-perm", func(r *rand.Rand, doc []byte, n int, e *env) (*opResult, string, error) {
			c := model.NewAESConfiguration("u", "o", 256)
			res, err := rw(doc, func(rs io.ReadSeeker, w io.Writer) error { return api.Encrypt(rs, w, c) })
			if err != nil {
				return nil, "", err
			}
			c2 := model.NewAESConfiguration("u", "o", 256)
			res2, err := rw(res.outs[0], func(rs io.ReadSeeker, w io.Writer) error { return api.ChangeUserPassword(rs, w, "u", "u2", c2) })
			if err != nil {
				return nil, "", err
			}
			c3 := model.NewAESConfiguration("u2", "o", 256)
			c3.Permissions = model.PermissionsAll
			res3, err := rw(res2.outs[0], func(rs io.ReadSeeker, w io.Writer) error { return api.SetPermissions(rs, w, c3) })
			if res3 != nil {
				res3.upw, res3.opw = "u2", "o"
			}
			return res3, "", err
		}},
		{"merge", func(r *rand.Rand, doc []byte, n int, e *env) (*opResult, string, error) {
			div := r.Intn(2) == 0
			var w bytes.Buffer
			rsc := []io.ReadSeeker{bytes.NewReader(doc), bytes.NewReader(e.other)}
			if r.Intn(3) == 0 {
				rsc = append(rsc, bytes.NewReader(doc))
			}
			err := guard(func() error { return api.MergeRaw(rsc, &w, div, newConf()) })
			if err != nil {
				return nil, "", err
			}
			return one(&w), fmt.Sprintf("divider=%v n=%d", div, len(rsc)), nil
		}},
		{"merge-zip", func(r *rand.Rand, doc []byte, n int, e *env) (*opResult, string, error) {
			var w bytes.Buffer
			err := guard(func() error {
				return api.MergeCreateZip(bytes.NewReader(doc), bytes.NewReader(e.other), &w, newConf())
			})
			if err != nil {
				return nil, "", err
			}
			return one(&w), "", nil
		}},
		{"split", func(r *rand.Rand, doc []byte, n int, e *env) (*opResult, string, error) {
			span := 1 + r.Intn(3)
			var res opResult
			err := guard(func() error {
				ps, err := api.SplitRaw(bytes.NewReader(doc), span, newConf())
				if err != nil {
					return err
				}
				for _, p := range ps {
					b, err := io.ReadAll(p.Reader)
					if err != nil {
						return err
					}
					res.outs = append(res.outs, b)
				}
				return nil
			})
			if err != nil {
				return nil, "", err
			}
			return &res, fmt.Sprintf("span=%d", span), nil
		}},
		{"bookmarks-add", func(r *rand.Rand, doc []byte, n int, e *env) (*opResult, string, error) {
			var bms []pdfcpu.Bookmark
			p := 1
			for i := 0; i < 1+r.Intn(3) && p <= n; i++ {
				bm := pdfcpu.Bookmark{PageFrom: p, Title: pick(r, "Chapter", "Ünï title", "(paren)", "back\\slash", "")}
				if bm.Title == "" {
					bm.Title = "t"
				}
				if r.Intn(2) == 0 && p < n {
					bm.Kids = []pdfcpu.Bookmark{{PageFrom: p + 1, Title: "kid"}}
				}
				bms = append(bms, bm)
				p += 1 + r.Intn(2)
			}
			replace := r.Intn(2) == 0
			res, err := rw(doc, func(rs io.ReadSeeker, w io.Writer) error { return api.AddBookmarks(rs, w, bms, replace, newConf()) })
			return res, fmt.Sprintf("n=%d replace=%v", len(bms), replace), err
		}},
		{"bookmarks-remove", func(r *rand.Rand, doc []byte, n int, e *env) (*opResult, string, error) {
			res, err := rw(doc, func(rs io.ReadSeeker, w io.Writer) error { return api.RemoveBookmarks(rs, w, newConf()) })
			return res, "", err
		}},
		{"annotations-remove", func(r *rand.Rand, doc []byte, n int, e *env) (*opResult, string, error) {
			s := selSyntax(r, n)
			var ids []string
			if r.Intn(2) == 0 {
				ids = []string{pick(r, "Link", "Text", "Widget")}
			}
			res, err := rw(doc, func(rs io.ReadSeeker, w io.Writer) error { return api.RemoveAnnotations(rs, w, s, ids, nil, newConf()) })
			return res, fmt.Sprintf("sel=%v ids=%v", s, ids), err
		}},
		{"pagelayout", func(r *rand.Rand, doc []byte, n int, e *env) (*opResult, string, error) {
			if r.Intn(4) == 0 {
				res, err := rw(doc, func(rs io.ReadSeeker, w io.Writer) error { return api.ResetPageLayout(rs, w, newConf()) })
				return res, "reset", err
			}
			v := model.PageLayout(r.Intn(6))
			res, err := rw(doc, func(rs io.ReadSeeker, w io.Writer) error { return api.SetPageLayout(rs, w, v, newConf()) })
			return res, fmt.Sprintf("val=%d", v), err
		}},
		{"pagemode", func(r *rand.Rand, doc []byte, n int, e *env) (*opResult, string, error) {
			if r.Intn(4) == 0 {
				res, err := rw(doc, func(rs io.ReadSeeker, w io.Writer) error { return api.ResetPageMode(rs, w, newConf()) })
				return res, "reset", err
			}
			v := model.PageMode(r.Intn(6))
			res, err := rw(doc, func(rs io.ReadSeeker, w io.Writer) error { return api.SetPageMode(rs, w, v, newConf()) })
			return res, fmt.Sprintf("val=%d", v), err
		}},
		{"viewerprefs", func(r *rand.Rand, doc []byte, n int, e *env) (*opResult, string, error) {
			if r.Intn(4) == 0 {
				res, err := rw(doc, func(rs io.ReadSeeker, w io.Writer) error { return api.ResetViewerPreferences(rs, w, newConf()) })
				return res, "reset", err
			}
			js := pick(r, `{"HideToolbar": true}`, `{"HideMenubar": true, "Direction": "R2L"}`, `{"NonFullScreenPageMode": "UseOutlines", "Duplex": "Simplex"}`,
				`{"PrintPageRange": [1, 1], "NumCopies": 2}`, `{"CenterWindow": true, "FitWindow": false, "DisplayDocTitle": true}`, `{"ViewArea": "CropBox", "PrintScaling": "None"}`)
			res, err := rw(doc, func(rs io.ReadSeeker, w io.Writer) error {
				return api.SetViewerPreferencesFromJSONBytes(rs, w, []byte(js), newConf())
			})
			return res, "json=" + js, err
		}},
		{"cut", func(r *rand.Rand, doc []byte, n int, e *env) (*opResult, string, error) {
			dir, _ := os.MkdirTemp(e.tmp, "cut")
			kind := r.Intn(3)
			var err error
			desc := ""
			switch kind {
			case 0:
				desc = pick(r, "hor:.5", "ver:.25 .75", "hor:.33, ver:.5", "hor:.5, margin:10, border:on")
				var c *model.Cut
				if c, err = pdfcpu.ParseCutConfig(desc, types.POINTS); err == nil {
					err = guard(func() error { return api.Cut(bytes.NewReader(doc), dir, "out", selSyntax(r, n), c, newConf()) })
				}
			case 1:
				desc = pick(r, "f:A6", "f:A5L", "dim:200 200", "f:A6, scale:1.5")
				var c *model.Cut
				if c, err = pdfcpu.ParseCutConfigForPoster(desc, types.POINTS); err == nil {
					err = guard(func() error { return api.Poster(bytes.NewReader(doc), dir, "out", selSyntax(r, n), c, newConf()) })
				}
			default:
				nn := []int{2, 3, 4, 6, 8, 9}[r.Intn(6)]
				desc = fmt.Sprintf("n=%d %s", nn, pick(r, "", "margin:5", "border:on"))
				var c *model.Cut
				if c, err = pdfcpu.ParseCutConfigForN(nn, strings.TrimSpace(strings.SplitN(desc, " ", 2)[1]), types.POINTS); err == nil {
					err = guard(func() error { return api.NDown(bytes.NewReader(doc), dir, "out", selSyntax(r, n), nn, c, newConf()) })
				}
			}
			if err != nil {
				return nil, "", err
			}
			return &opResult{outs: readDir(dir)}, fmt.Sprintf("kind=%d desc=%q", kind, desc), nil
		}},
	}
}

// ---------------------------------------------------------------- page tree of a document

type ptree struct {
	leaf bool
	id   int
	kids []*ptree
}

func (t *ptree) wire() string {
	if t.leaf {
		return fmt.Sprintf("L%x", t.id)
	}
	p := []string{"("}
	for _, k := range t.kids {
		p = append(p, k.wire())
	}
	p = append(p, ")")
	return strings.Join(p, " ")
}

func pageTree(b []byte) (t *ptree, ids []int, rootCount int, err error) {
	err = guard(func() error {
		ctx, e := api.ReadContext(bytes.NewReader(b), newConf())
		if e != nil {
			return e
		}
		deref := func(o types.Object) types.Object {
			for i := 0; i < 16; i++ {
				ir, ok := o.(types.IndirectRef)
				if !ok {
					return o
				}
				var err error
				o, err = ctx.Dereference(ir)
				if err != nil {
					return nil
				}
			}
			return nil
		}
		root, _ := deref(*ctx.Root).(types.Dict)
		var walk func(o types.Object, depth int) *ptree
		walk = func(o types.Object, depth int) *ptree {
			if depth > 64 {
				panic("deep")
			}
			d, _ := deref(o).(types.Dict)
			if d == nil {
				return nil
			}
			if ty, _ := d["Type"].(types.Name); ty == "Page" {
				id := 0
				if v, ok := deref(d["VerifId"]).(types.Integer); ok {
					id = int(v)
				}
				ids = append(ids, id)
				return &ptree{leaf: true, id: id}
			}
			n := &ptree{}
			kids, _ := deref(d["Kids"]).(types.Array)
			for _, k := range kids {
				if c := walk(k, depth+1); c != nil {
					n.kids = append(n.kids, c)
				}
			}
			return n
		}
		pages, _ := deref(root["Pages"]).(types.Dict)
		if pages == nil {
			return fmt.Errorf("no page tree")
		}
		rootCount = -1
		if c, ok := deref(pages["Count"]).(types.Integer); ok {
			rootCount = int(c)
		}
		t = walk(root["Pages"], 0)
		return nil
	})
	return
}

func idsText(ids []int, count int) string {
	return vh.Ints(ids) + "|count=" + vh.Int(int64(count))
}

// kCase: model prediction for the page operations
func kCase(r *vh.Run, fn string, in *ptree, selPages []int, before bool, out []byte) {
	_, ids, cnt, err := pageTree(out)
	if err != nil {
		return
	}
	args := []string{in.wire(), vh.Ints(selPages)}
	if fn == "insert" {
		args = append(args, vh.Bool(before))
	}
	r.Case(fn, args, idsText(ids, cnt))
}

func corpusFiles() []string {
	repo := os.Getenv("VERIF_REPO")
	if repo == "" {
		repo = "/repo"
	}
	emptied := map[string]bool{}
	if b, err := os.ReadFile("/root/.vp/EMPTIED_FILES.txt"); err == nil {
		for _, l := range strings.Split(string(b), "\n") {
			emptied[strings.TrimSpace(l)] = true
		}
	}
	var l []string
	for _, dir := range []string{"pkg/testdata", "pkg/testdata/pdf20", "pkg/samples/basic"} {
		m, _ := filepath.Glob(filepath.Join(repo, dir, "*.pdf"))
		for _, f := range m {
			rel, _ := filepath.Rel(repo, f)
			if emptied[rel] {
				continue
			}
			if st, err := os.Stat(f); err != nil || st.Size() == 0 {
				continue
			}
			l = append(l, f)
		}
	}
	sort.Strings(l)
	return l
}

func runOps(r *vh.Run, name, desc string, doc []byte, e *env, opsList []op, nOps int, withK bool) {
	if err := validate(doc, "", ""); err != nil {
		r.Count("doc:input-invalid")
		return
	}
	r.Count("doc:valid-input")
	in, ids, _, err := pageTree(doc)
	if err != nil || len(ids) == 0 {
		r.Count("doc:no-page-tree")
		return
	}
	n := len(ids)
	input := func(opName, params string) map[string]any {
		m := map[string]any{"doc": name, "desc": desc, "operation": opName, "params": params}
		if len(doc) <= 64<<10 {
			m["pdf"] = hex.EncodeToString(doc)
		}
		return m
	}
	for i := 0; i < nOps; i++ {
		o := opsList[r.Rand.Intn(len(opsList))]
		var res *opResult
		var params string
		err := guard(func() error {
			var e2 error
			res, params, e2 = o.run(r.Rand, doc, n, e)
			return e2
		})
		if err != nil {
			if strings.HasPrefix(err.Error(), "PANIC") {
				r.OracleFail("panic:"+o.name, input(o.name, params), err.Error())
			} else {
				r.Count("op-error:" + o.name)
			}
			continue
		}
		r.Count("op:" + o.name)
		bad := ""
		written := 0
		for j, out := range res.outs {
			if len(out) == 0 {
				continue // nothing was written (e.g. "no pages selected")
			}
			written++
			if verr := validate(out, res.upw, res.opw); verr != nil {
				bad = fmt.Sprintf("output %d of %d: %v", j+1, len(res.outs), verr)
				break
			}
		}
		if written == 0 {
			r.Count("op-wrote-nothing:" + o.name)
			continue
		}
		if bad != "" {
			cls := "invalid-output:" + o.name
			if o.name == "properties-add-hash" {
				cls = "property-name-with-hash"
			}
			r.OracleFail(cls, input(o.name, params), bad)
		} else {
			r.OracleOK()
		}
	}
	if !withK {
		return
	}
	// K: page operations with explicit selections
	uniq := true
	seen := map[int]bool{}
	for _, id := range ids {
		if id == 0 || seen[id] {
			uniq = false
		}
		seen[id] = true
	}
	if !uniq {
		return
	}
	s, l := sel(r.Rand, n)
	if out, err := rw(doc, func(rs io.ReadSeeker, w io.Writer) error { return api.Trim(rs, w, s, newConf()) }); err == nil {
		kCase(r, "trim", in, l, false, out.outs[0])
	}
	if n >= 2 {
		s, l = sel(r.Rand, n)
		if len(l) == n {
			s, l = s[:n-1], l[:n-1]
		}
		if out, err := rw(doc, func(rs io.ReadSeeker, w io.Writer) error { return api.RemovePages(rs, w, s, newConf()) }); err == nil {
			kCase(r, "remove", in, l, false, out.outs[0])
		}
	}
	{
		var cs []string
		var cl []int
		for i := 0; i < 1+r.Rand.Intn(6); i++ {
			k := 1 + r.Rand.Intn(n)
			cs, cl = append(cs, fmt.Sprint(k)), append(cl, k)
		}
		if out, err := rw(doc, func(rs io.ReadSeeker, w io.Writer) error { return api.Collect(rs, w, cs, newConf()) }); err == nil {
			kCase(r, "collect", in, cl, false, out.outs[0])
		}
	}
	s, l = sel(r.Rand, n)
	before := r.Rand.Intn(2) == 0
	if out, err := rw(doc, func(rs io.ReadSeeker, w io.Writer) error { return api.InsertPages(rs, w, s, before, nil, newConf()) }); err == nil {
		kCase(r, "insert", in, l, before, out.outs[0])
	}
	c := newConf()
	if out, err := rw(doc, func(rs io.ReadSeeker, w io.Writer) error { return api.Optimize(rs, w, c) }); err == nil {
		kCase(r, "write", in, nil, false, out.outs[0])
	}
}

// ---------------------------------------------------------------- page-tree matrix

// checkOutputs validates every output relaxed, and strict when every input passed strict.
func trunc(s string) string {
	if len(s) > 240 {
		return s[:240] + "..."
	}
	return s
}

func checkOutputs(r *vh.Run, opName, params string, input map[string]any, res *opResult, strictIn bool) {
	input["operation"], input["params"] = opName, params
	r.Count("matrix:" + opName)
	written := 0
	for j, out := range res.outs {
		if len(out) == 0 {
			continue
		}
		written++
		if err := validate(out, res.upw, res.opw); err != nil {
			cls := "invalid-output:" + opName
			if strings.HasPrefix(opName, "merge-zip") && strings.Contains(err.Error(), "missing required resource subdict") {
				// XRefTable.AppendPages writes the inherited Rotate and MediaBox into the surplus
				// pages it re-parents, not the inherited /Resources
				cls += ":inherited-resources-lost"
			}
			r.OracleFail(cls, input, fmt.Sprintf("output %d of %d (relaxed): %v", j+1, len(res.outs), err))
			return
		}
		if strictIn {
			// The property is stated for relaxed validation. Strict results are recorded in the
			// evidence only: pdfcpu writes every output with a PDF 1.7 header, and strict validation
			// is version dependent (e.g. a standard Type1 font without FirstChar/Widths passes strict
			// in a 1.4 input and fails strict in the 1.7 output of every operation).
			if err := validateStrict(out, res.upw, res.opw); err != nil {
				r.Count("strict-invalid-output:" + opName)
				r.Sample(map[string]any{"strict-invalid-output": opName, "doc": input["doc"], "params": params, "error": trunc(err.Error())})
			} else {
				r.Count("strict-valid-output:" + opName)
			}
		}
	}
	if written > 0 {
		r.OracleOK()
	}
}

// treeMatrix: every operation that rebuilds a page tree, on pairs of documents whose pages
// inherit MediaBox / CropBox / Rotate / Resources from page tree nodes at depth 1-3 (or carry
// them partly themselves), with |b| > |a|, |b| < |a|, |b| = |a|.
func treeMatrix(r *vh.Run, e *env, opsList []op) {
	byName := map[string]op{}
	for _, o := range opsList {
		byName[o.name] = o
	}
	modes := []string{"node", "nodemixed", "node", ""}
	nPairs := r.Pick(9, 60)
	for i := 0; i < nPairs; i++ {
		na := 1 + r.Rand.Intn(4)
		nb := na
		switch i % 3 {
		case 0:
			nb = na + 1 + r.Rand.Intn(4)
		case 1:
			na = nb + 1 + r.Rand.Intn(4)
		}
		oa := genOpts{forcePages: na, depth: 1 + (i/3)%3, inherit: modes[i%len(modes)], strict: true}
		ob := genOpts{forcePages: nb, depth: 1 + (i/9+i)%3, inherit: modes[(i/2)%len(modes)], strict: true}
		a, da := genDoc(r.Rand, oa)
		b, db := genDoc(r.Rand, ob)
		if validate(a, "", "") != nil || validate(b, "", "") != nil {
			r.Count("matrix:input-invalid")
			continue
		}
		strictIn := validateStrict(a, "", "") == nil && validateStrict(b, "", "") == nil
		if strictIn {
			r.Count("matrix:inputs-strict-valid")
		}
		desc := fmt.Sprintf("a: %d pages depth %d inherit %q [%s]; b: %d pages depth %d inherit %q [%s]", na, oa.depth, oa.inherit, strings.Join(da.desc, ","), nb, ob.depth, ob.inherit, strings.Join(db.desc, ","))
		input := func() map[string]any {
			return map[string]any{"doc": fmt.Sprintf("matrix-%d", i), "desc": desc, "pdf": hex.EncodeToString(a), "pdf2": hex.EncodeToString(b)}
		}
		dir, _ := os.MkdirTemp(e.tmp, "mx")
		af, bf := filepath.Join(dir, "a.pdf"), filepath.Join(dir, "b.pdf")
		os.WriteFile(af, a, 0o644)
		os.WriteFile(bf, b, 0o644)
		run := func(name, params string, f func() (*opResult, error)) {
			var res *opResult
			err := guard(func() error {
				var e2 error
				res, e2 = f()
				return e2
			})
			if err != nil {
				if strings.HasPrefix(err.Error(), "PANIC") {
					in := input()
					in["operation"], in["params"] = name, params
					r.OracleFail("panic:"+name, in, err.Error())
				} else {
					r.Count("matrix-op-error:" + name)
				}
				return
			}
			checkOutputs(r, name, params, input(), res, strictIn)
		}
		zip := func(x, y []byte) func() (*opResult, error) {
			return func() (*opResult, error) {
				var w bytes.Buffer
				if err := api.MergeCreateZip(bytes.NewReader(x), bytes.NewReader(y), &w, newConf()); err != nil {
					return nil, err
				}
				return one(&w), nil
			}
		}
		run("merge-zip", "a,b", zip(a, b))
		run("merge-zip", "b,a", zip(b, a))
		run("merge-zip-file", "a,b", func() (*opResult, error) {
			out := filepath.Join(dir, "zip.pdf")
			if err := api.MergeCreateZipFile(af, bf, out, newConf()); err != nil {
				return nil, err
			}
			bb, err := os.ReadFile(out)
			return &opResult{outs: [][]byte{bb}}, err
		})
		div := r.Rand.Intn(2) == 0
		run("merge", fmt.Sprintf("a,b divider=%v", div), func() (*opResult, error) {
			var w bytes.Buffer
			if err := api.MergeRaw([]io.ReadSeeker{bytes.NewReader(a), bytes.NewReader(b)}, &w, div, newConf()); err != nil {
				return nil, err
			}
			return one(&w), nil
		})
		run("merge-create-file", fmt.Sprintf("b,a divider=%v", div), func() (*opResult, error) {
			out := filepath.Join(dir, "create.pdf")
			if err := api.MergeCreateFile([]string{bf, af}, out, div, newConf()); err != nil {
				return nil, err
			}
			bb, err := os.ReadFile(out)
			return &opResult{outs: [][]byte{bb}}, err
		})
		run("merge-append", fmt.Sprintf("a += b divider=%v", div), func() (*opResult, error) {
			out := filepath.Join(dir, "append.pdf")
			os.WriteFile(out, a, 0o644)
			if err := api.MergeAppendFile([]string{bf}, out, div, newConf()); err != nil {
				return nil, err
			}
			bb, err := os.ReadFile(out)
			return &opResult{outs: [][]byte{bb}}, err
		})
		span := 1 + r.Rand.Intn(2)
		run("split-merge", fmt.Sprintf("b span=%d", span), func() (*opResult, error) {
			ps, err := api.SplitRaw(bytes.NewReader(b), span, newConf())
			if err != nil {
				return nil, err
			}
			var rsc []io.ReadSeeker
			res := &opResult{}
			for _, p := range ps {
				bb, err := io.ReadAll(p.Reader)
				if err != nil {
					return nil, err
				}
				res.outs = append(res.outs, bb)
				rsc = append(rsc, bytes.NewReader(bb))
			}
			if len(rsc) < 2 {
				return res, nil
			}
			var w bytes.Buffer
			if err := api.MergeRaw(rsc, &w, false, newConf()); err != nil {
				return nil, err
			}
			res.outs = append(res.outs, w.Bytes())
			return res, nil
		})
		for _, name := range []string{"collect", "insertpages", "removepages", "trim", "nup", "booklet", "grid", "rotate", "resize", "optimize"} {
			o := byName[name]
			for _, d := range []struct {
				doc []byte
				n   int
				tag string
			}{{a, na, "a"}, {b, nb, "b"}} {
				var params string
				d := d
				run(name, d.tag, func() (*opResult, error) {
					res, p, err := o.run(r.Rand, d.doc, d.n, e)
					params = p
					_ = params
					return res, err
				})
			}
		}
	}
}

func main() {
	api.DisableConfigDir()
	r := vh.Start("C21")
	defer r.Finish()
	tmp, err := os.MkdirTemp("", "c21-")
	if err != nil {
		panic(err)
	}
	defer os.RemoveAll(tmp)
	opsList := ops()
	// the second document for merge / pdf watermark
	var other []byte
	for other == nil {
		d, _ := genDoc(r.Rand, genOpts{allowHazards: false})
		if validate(d, "", "") == nil {
			other = d
		}
	}
	e := &env{tmp: tmp, other: other}

	nGen := r.Pick(40, 400)
	for i := 0; i < nGen; i++ {
		doc, di := genDoc(r.Rand, genOpts{allowHazards: false})
		runOps(r, fmt.Sprintf("gen-%d", i), strings.Join(di.desc, ","), doc, e, opsList, r.Pick(8, 20), true)
	}
	treeMatrix(r, e, opsList)
	versionMatrix(r, e, opsList)
	cryptoMatrix(r, e, opsList)

	files := corpusFiles()
	budget := r.Pick(3<<20, 120<<20)
	used := 0
	for _, f := range files {
		b, err := os.ReadFile(f)
		if err != nil || (!r.Thorough() && len(b) > 600<<10) || used+len(b) > budget {
			continue
		}
		used += len(b)
		r.Count("corpus-file")
		runOps(r, filepath.Base(f), "corpus", b, e, opsList, r.Pick(6, 14), false)
	}
}
