// Harness for C26: restricted documents refuse the operations their permissions deny.
//
// Part A (exported real functions, hook file pkg/pdfcpu/verif_export_c26.go):
//
//	every command mode (plus values outside the constant block) x all 256 patterns of the eight
//	Table-22 permission bits (all other bits random) x revisions -> maskExtract, maskModify,
//	hasNeededPermissions, needsOwnerAndUserPassword, handlePermissions (with valid / tampered
//	AES-256 /Perms for R 5 and 6) against the extracted model; oracle = the property evaluated on
//	the implementation with an independent bit computation.
//
// Part B (end to end, public api only): real documents encrypted with user+owner password and
//
//	restrictive permissions, a sample of operations run with user-only / owner / wrong credentials;
//	the observed outcome is compared with the model of checkForEncryption and with the specification.
package main

import (
	"bytes"
	"errors"
	"fmt"
	"io"
	"os"
	"path/filepath"
	"strings"

	"github.com/pdfcpu/pdfcpu/pkg/api"
	"github.com/pdfcpu/pdfcpu/pkg/pdfcpu"
	"github.com/pdfcpu/pdfcpu/pkg/pdfcpu/model"
	"github.com/pdfcpu/pdfcpu/pkg/pdfcpu/types"
	"verif/vh"
)

// ---- the specification, computed independently of crypto.go (ISO 32000-1 Table 22, 1-based bits)

func hasBit(p int, pos uint) bool { return (int64(p)>>(pos-1))&1 == 1 }

func deniesExtract(p, rev int) bool {
	if rev >= 3 {
		return !hasBit(p, 10)
	}
	return !hasBit(p, 5)
}

func deniesModify(p, rev int) bool {
	if rev >= 3 {
		return !hasBit(p, 11)
	}
	return !hasBit(p, 4)
}

func specMustRefuse(k kind, p, rev int) bool {
	switch k {
	case kExtract:
		return deniesExtract(p, rev)
	case kModify:
		return deniesModify(p, rev)
	case kEither:
		return deniesExtract(p, rev) && deniesModify(p, rev)
	}
	return false
}

// rowSatisfies: is the table row (or its absence) an acceptable classification of a command of kind k?
// (Spec.row_satisfies; pdfcpu may be stricter than the specification, never laxer)
func rowSatisfies(k kind, inTable bool, row [2]int) bool {
	switch k {
	case kFree:
		return true
	case kRow:
		return inTable
	case kExtract:
		return inTable && row[0] != 0
	case kModify:
		return inTable && row[1] != 0
	case kEither:
		return inTable && (row[0] != 0 || row[1] != 0)
	}
	return false
}

func kindOf(m model.CommandMode) kind {
	if k, ok := specKind[m]; ok {
		return k
	}
	return kRow
}

func name(m model.CommandMode) string {
	if n, ok := modeNames[m]; ok {
		return n
	}
	return fmt.Sprintf("mode%d", int(m))
}

// the eight permission bits of Table 22
var relevant = []uint{3, 4, 5, 6, 9, 10, 11, 12}

func withPattern(base int32, pat int) int32 {
	v := uint32(base)
	for i, pos := range relevant {
		bit := uint32(1) << (pos - 1)
		if pat>>uint(i)&1 == 1 {
			v |= bit
		} else {
			v &^= bit
		}
	}
	return int32(v)
}

// fail records an oracle failure; at most 25 inputs per class are written out (vh keeps 2000 in total,
// one flooding class must not hide the others), the rest is only counted.
var perClass = map[string]int{}

func fail(r *vh.Run, class string, input any, detail string) {
	perClass[class]++
	if perClass[class] <= 25 {
		r.OracleFail(class, input, detail)
		return
	}
	r.Count("oracle-fail-not-listed:" + class)
}

func main() {
	r := vh.Start("C26")
	defer r.Finish()
	api.DisableConfigDir()

	table := pdfcpu.VerifC26PermTable()
	r.Case("tableSize", nil, fmt.Sprint(len(table)))

	var modes []model.CommandMode
	for m := model.CommandMode(-2); m <= lastMode+4; m++ {
		modes = append(modes, m)
	}
	modes = append(modes, 1000, -1000)

	// Observation for the evidence (first, so that it is among the samples kept): command modes whose kind
	// (tables.go / Spec.v) asks for a right but that proceed on a document denying everything.
	var unclassified []string
	pn := model.PermissionsNone
	pNone := int(int16(pn))
	for _, m := range modes {
		row, inTable := table[m]
		k := kindOf(m)
		if specMustRefuse(k, pNone, 4) && pdfcpu.VerifC26HasNeededPermissions(m, pNone, 4) && !rejectsEncrypted[m] && !rowSatisfies(k, inTable, row) {
			unclassified = append(unclassified, name(m))
		}
	}
	r.Sample(map[string]any{
		"observation": "command modes that change the document or derive documents from its content but have no (sufficient) row in crypto.go:perm: with the user password only they proceed on a document whose P denies the right (e.g. api.Resize on a PermissionsNone document). Outside the fixed statement of C26 (it quantifies over the commands pdfcpu classifies), therefore not an oracle failure; documented by C26_every_mode_classified_partial / _refuted / C26_known_unclassified_are_gaps. Counters: observation:unclassified-mode[-e2e]:<MODE>.",
		"modes":       unclassified,
	})

	partA(r, table, modes)
	ownerAuthCases(r)
	partB(r, table)
}

// ---------------------------------------------------------------- part A

func partA(r *vh.Run, table map[model.CommandMode][2]int, modes []model.CommandMode) {
	revs := []int{2, 3, 4, 5, 6}
	revsWide := []int{-1, 0, 1, 2, 3, 4, 5, 6, 7, 100}
	for _, m := range modes {
		ms := vh.Int(int64(m))
		row, inTable := table[m]
		if inTable {
			r.Case("permRow", []string{ms}, vh.Int(int64(row[0]))+","+vh.Int(int64(row[1])))
			r.Count("class:mode-in-table")
		} else {
			r.Case("permRow", []string{ms}, "none")
			r.Count("class:mode-not-in-table")
		}
		r.Case("needsBoth", []string{ms}, vh.Bool(pdfcpu.VerifC26NeedsOwnerAndUserPassword(m)))
		r.Case("specKind", []string{ms}, string(kindOf(m)))
		for _, rev := range revsWide {
			r.Case("maskExtract", []string{ms, vh.Int(int64(rev))}, vh.Int(int64(pdfcpu.VerifC26MaskExtract(m, rev))))
			r.Case("maskModify", []string{ms, vh.Int(int64(rev))}, vh.Int(int64(pdfcpu.VerifC26MaskModify(m, rev))))
		}
		for _, rev := range revs {
			for pat := 0; pat < 256; pat++ {
				p := int(withPattern(int32(r.Rand.Uint32()), pat))
				if r.Thorough() && pat%16 == 3 {
					// Go int is 64-bit: also values outside the signed 32-bit range (the function does not care)
					p = int(int64(r.Rand.Uint64())&^0xFFFFFFFF | int64(uint32(p)))
				}
				got := pdfcpu.VerifC26HasNeededPermissions(m, p, rev)
				r.Case("hasNeeded", []string{ms, vh.Int(int64(p)), vh.Int(int64(rev))}, vh.Bool(got))
				oracleA(r, m, inTable, row, p, rev, got)
			}
		}
		handlePermissionsCases(r, m)
	}
}

// oracleA evaluates the property on hasNeededPermissions itself.
func oracleA(r *vh.Run, m model.CommandMode, inTable bool, row [2]int, p, rev int, allowed bool) {
	in := map[string]any{"mode": name(m), "modeValue": int(m), "P": p, "R": rev}
	ok := true
	if inTable {
		// the statement of the property: pdfcpu's own classification decides
		needE, needM := row[0] != 0, row[1] != 0
		wantRefused := needE && deniesExtract(p, rev) || needM && deniesModify(p, rev)
		switch {
		case wantRefused && allowed && needE && deniesExtract(p, rev):
			fail(r, "extract-classified-not-refused", in, "extract right denied by P but hasNeededPermissions = true")
			ok = false
		case wantRefused && allowed:
			fail(r, "modify-classified-not-refused", in, "modify right denied by P but hasNeededPermissions = true")
			ok = false
		case !wantRefused && !allowed:
			fail(r, "refused-although-granted", in, "all rights the command is classified for are granted but hasNeededPermissions = false")
			ok = false
		}
	}
	// coverage: what the command does (specification) against the decision -- recorded as an observation
	k := kindOf(m)
	if specMustRefuse(k, p, rev) && allowed && !rejectsEncrypted[m] && !rowSatisfies(k, inTable, row) {
		// OBSERVATION, not a violation: the fixed statement of C26 quantifies over the commands pdfcpu
		// classifies; an unclassified command is outside it (see C26_every_mode_classified_* in Property.v).
		r.Count("observation:unclassified-mode:" + name(m))
	}
	if ok {
		r.OracleOK()
	}
}

func newCtx(m model.CommandMode, p, rev int, upw, opw string) *model.Context {
	ctx, err := model.NewContext(bytes.NewReader(nil), nil)
	if err != nil {
		panic(err)
	}
	ctx.Cmd = m
	ctx.UserPW = upw
	ctx.OwnerPW = opw
	ctx.E = &model.Enc{P: p, R: rev, Emd: true}
	return ctx
}

// interesting: modes for which the full password-class matrix is run
var interesting = map[model.CommandMode]bool{model.TRIM: true, model.EXTRACTIMAGES: true, model.LISTINFO: true, model.RESIZE: true,
	model.SETPERMISSIONS: true, model.ROTATE: true, model.SPLIT: true, model.ADDWATERMARKS: true}

func onePermissionsCase(r *vh.Run, m model.CommandMode, p, rev int, upw, opw string, valid bool) {
	ctx := newCtx(m, p, rev, upw, opw)
	if rev >= 5 {
		ctx.EncKey = make([]byte, 32)
		r.Rand.Read(ctx.EncKey) // the key value is irrelevant to the decision
		ctx.E.Perms = make([]byte, 16)
		if !valid {
			ctx.E.P = int(int32(uint32(p) ^ (1 << uint(r.Rand.Intn(32))))) // /Perms written for another P
		}
		if err := pdfcpu.VerifC26WritePermissions(ctx); err != nil {
			panic(err)
		}
		ctx.E.P = p
	}
	got := pdfcpu.VerifC26HandlePermissions(ctx)
	r.Case("handlePermissions", []string{vh.Bool(valid), hx(opw), hx(upw), vh.Int(int64(m)), vh.Int(int64(p)), vh.Int(int64(rev))}, got)
	// oracle on handlePermissions itself: any non-empty password (blank or not) is a supplied credential,
	// so with consistent /Perms the outcome is "denied" exactly when the classified right is denied
	if valid {
		want := "ok"
		if (upw != "" || opw != "") && !pdfcpu.VerifC26HasNeededPermissions(m, p, rev) {
			want = "denied"
		}
		if got != want {
			class := "credentials-supplied-but-permission-check-skipped"
			if got == "denied" {
				class = "no-credentials-but-denied"
			}
			fail(r, class, map[string]any{"mode": name(m), "P": p, "R": rev, "userPW": upw, "ownerPW": opw, "userPWhex": hx(upw), "ownerPWhex": hx(opw)},
				"handlePermissions = "+got+", expected "+want)
		} else {
			r.OracleOK()
		}
	}
}

func handlePermissionsCases(r *vh.Run, m model.CommandMode) {
	pws := []struct{ upw, opw string }{{"upw", ""}, {"", "opw"}, {"upw", "opw"}, {"", ""},
		{" ", ""}, {"", " "}, {"\t", "\n"}, {"  x", "x  "}}
	four := []uint{4, 5, 10, 11}
	for _, rev := range []int{2, 3, 4, 5, 6} {
		for pat := 0; pat < 16; pat++ {
			v := r.Rand.Uint32()
			for i, pos := range four {
				bit := uint32(1) << (pos - 1)
				if pat>>uint(i)&1 == 1 {
					v |= bit
				} else {
					v &^= bit
				}
			}
			p := int(int32(v))
			for _, pw := range pws {
				onePermissionsCase(r, m, p, rev, pw.upw, pw.opw, true)
				if rev >= 5 {
					onePermissionsCase(r, m, p, rev, pw.upw, pw.opw, false)
				}
			}
			// the whole password-class matrix (user x owner) for a few commands, everything denied / granted
			if interesting[m] && (pat == 0 || pat == 15) && (rev == 2 || rev == 4 || rev == 6 || r.Thorough()) {
				for _, u := range pwStrings {
					for _, o := range pwStrings {
						onePermissionsCase(r, m, p, rev, u, o, true)
					}
				}
			}
		}
	}
}

// ownerAuthCases: validateOwnerPassword (validateOwnerPasswordAES256 / ...Rev6) on encryption dictionaries
// crafted (craft.go) for the document owner password docOwner -- including the EMPTY one -- against the model.
func ownerAuthCases(r *vh.Run) {
	rnd := func(n int) []byte { b := make([]byte, n); r.Rand.Read(b); return b }
	n := r.Pick(2, 8)
	for _, rev := range []int{5, 6} {
		for _, docOwner := range []string{"", "opw", "p\u00e4ssw\u00f6rd"} {
			for i := 0; i < n; i++ {
				fileKey, u := rnd(32), rnd(48)
				o, oe := ownerEntries(rev, []byte(docOwner), u, fileKey, rnd(8), rnd(8))
				for _, supplied := range []string{"", "opw", "nope", "p\u00e4ssw\u00f6rd", "x"} {
					ctx := newCtx(model.LISTINFO, int(int16(-3901)), rev, "", supplied)
					ctx.E.O, ctx.E.OE, ctx.E.U = o, oe, u
					matches := supplied == docOwner
					ok, err := pdfcpu.VerifC26ValidateOwnerPassword(ctx)
					got := vh.Bool(ok)
					if err != nil {
						got = "error:" + err.Error()
					}
					r.Case("validateOwnerPassword", []string{vh.Int(int64(rev)), hx(supplied), vh.Bool(matches)}, got)
					in := map[string]any{"R": rev, "documentOwnerPW": docOwner, "suppliedOwnerPW": supplied}
					switch {
					case supplied == "" && ok:
						fail(r, "owner-authenticated-without-owner-password", in, "validateOwnerPassword = true although no owner password was supplied")
					case supplied != "" && err == nil && ok != matches:
						fail(r, "owner-authentication-wrong", in, "validateOwnerPassword = "+got)
					case ok && matches && !bytes.Equal(ctx.EncKey, fileKey):
						fail(r, "owner-authentication-wrong", in, "file key not recovered")
					default:
						r.OracleOK()
					}
				}
			}
		}
	}
}

// ---------------------------------------------------------------- password classes

// hx: a password on the wire = the hex pairs of its raw bytes
func hx(s string) string { return vh.Hex([]byte(s)) }

var longU = "U" + strings.Repeat("u", 199)
var longO = "O" + strings.Repeat("o", 299)

// pwStrings: raw password values of every class (for the handlePermissions matrix)
var pwStrings = []string{"", "x", "upw", "opw", " ", "  ", "   ", "\t", "\n", "\r\n", " \t\n ", "\u00a0", "\u3000", "  x", "x  ", " x ",
	"a\x00b", "\x00", longU, longO, "p\u00e4ssw\u00f6rd", "\u5bc6\u7801"}

type pwPair struct{ label, upw, opw string }

// pwPairs: (user, owner) password pairs a document is encrypted with, by class. The user password is never empty.
var pwPairs = []pwPair{
	{"user-1-space", " ", "opw"},
	{"user-2-spaces", "  ", "opw"},
	{"user-3-spaces", "   ", "opw"},
	{"user-tab", "\t", "opw"},
	{"user-newline", "\n", "opw"},
	{"user-mixed-whitespace", " \t\n ", "opw"},
	{"user-nbsp", "\u00a0", "opw"},
	{"both-whitespace-only", " ", "  "},
	{"owner-1-space", "upw", " "},
	{"owner-tab-newline", "upw", "\t\n"},
	{"leading-trailing-whitespace", "  x", "y  "},
	{"user-trims-to-owner", " o ", "o"},
	{"owner-trims-to-user", "u", "\tu\n"},
	{"nul-containing", "a\x00b", "c\x00d"},
	{"very-long", longU, longO},
	{"non-ascii", "p\u00e4ssw\u00f6rd", "\u5bc6\u7801"},
}

// ---------------------------------------------------------------- part B (end to end)

type op struct {
	name string
	mode model.CommandMode
	run  func(b []byte, c *model.Configuration, tmp string) error
	// passed: text of an error that is raised only after the document has been opened and the access
	// decision has been taken (the sample document has no form / no signature); counts as "ok".
	passed string
}

func rd(b []byte) io.ReadSeeker { return bytes.NewReader(b) }

func ops() []op {
	sink := func() io.Writer { return &bytes.Buffer{} }
	wm := func() *model.Watermark {
		w, err := api.TextWatermark("C26", "scale:0.5", true, false, types.POINTS)
		if err != nil {
			panic(err)
		}
		return w
	}
	return []op{
		{"validate", model.VALIDATE, func(b []byte, c *model.Configuration, _ string) error { return api.Validate(rd(b), c) }, ""},
		{"info", model.LISTINFO, func(b []byte, c *model.Configuration, _ string) error {
			_, err := api.PDFInfo(rd(b), "x.pdf", nil, false, c)
			return err
		}, ""},
		{"optimize", model.OPTIMIZE, func(b []byte, c *model.Configuration, _ string) error { return api.Optimize(rd(b), sink(), c) }, ""},
		{"split", model.SPLIT, func(b []byte, c *model.Configuration, _ string) error {
			_, err := api.SplitRaw(rd(b), 1, c)
			return err
		}, ""},
		{"extractImages", model.EXTRACTIMAGES, func(b []byte, c *model.Configuration, _ string) error {
			return api.ExtractImages(rd(b), nil, func(model.Image, bool, int) error { return nil }, c)
		}, ""},
		{"extractFonts", model.EXTRACTFONTS, func(b []byte, c *model.Configuration, _ string) error {
			return api.ExtractFonts(rd(b), nil, func(pdfcpu.Font) error { return nil }, c)
		}, ""},
		{"extractPages", model.EXTRACTPAGES, func(b []byte, c *model.Configuration, _ string) error {
			return api.ExtractPages(rd(b), []string{"1"}, func(io.Reader, int) error { return nil }, c)
		}, ""},
		{"extractContent", model.EXTRACTCONTENT, func(b []byte, c *model.Configuration, _ string) error {
			return api.ExtractContent(rd(b), nil, func(io.Reader, int) error { return nil }, c)
		}, ""},
		{"extractMetadata", model.EXTRACTMETADATA, func(b []byte, c *model.Configuration, _ string) error {
			return api.ExtractMetadata(rd(b), func(pdfcpu.Metadata) error { return nil }, c)
		}, ""},
		{"collect", model.COLLECT, func(b []byte, c *model.Configuration, _ string) error {
			return api.Collect(rd(b), sink(), []string{"1"}, c)
		}, ""},
		{"trim", model.TRIM, func(b []byte, c *model.Configuration, _ string) error {
			return api.Trim(rd(b), sink(), []string{"1"}, c)
		}, ""},
		{"listAttachments", model.LISTATTACHMENTS, func(b []byte, c *model.Configuration, _ string) error {
			_, err := api.Attachments(rd(b), c)
			return err
		}, ""},
		{"listPermissions", model.LISTPERMISSIONS, func(b []byte, c *model.Configuration, _ string) error {
			_, err := api.GetPermissions(rd(b), c)
			return err
		}, ""},
		{"addWatermarks", model.ADDWATERMARKS, func(b []byte, c *model.Configuration, _ string) error {
			return api.AddWatermarks(rd(b), sink(), nil, wm(), c)
		}, ""},
		{"insertPages", model.INSERTPAGESBEFORE, func(b []byte, c *model.Configuration, _ string) error {
			return api.InsertPages(rd(b), sink(), []string{"1"}, true, nil, c)
		}, ""},
		{"listKeywords", model.LISTKEYWORDS, func(b []byte, c *model.Configuration, _ string) error { _, err := api.Keywords(rd(b), c); return err }, ""},
		{"addKeywords", model.ADDKEYWORDS, func(b []byte, c *model.Configuration, _ string) error {
			return api.AddKeywords(rd(b), sink(), []string{"c26"}, c)
		}, ""},
		{"listProperties", model.LISTPROPERTIES, func(b []byte, c *model.Configuration, _ string) error { _, err := api.Properties(rd(b), c); return err }, ""},
		{"addProperties", model.ADDPROPERTIES, func(b []byte, c *model.Configuration, _ string) error {
			return api.AddProperties(rd(b), sink(), map[string]string{"c26": "x"}, c)
		}, ""},
		{"crop", model.CROP, func(b []byte, c *model.Configuration, _ string) error {
			box, err := api.Box("[10 10 200 200]", types.POINTS)
			if err != nil {
				panic(err)
			}
			return api.Crop(rd(b), sink(), nil, box, c)
		}, ""},
		{"listBoxes", model.LISTBOXES, func(b []byte, c *model.Configuration, _ string) error { _, err := api.Boxes(rd(b), nil, c); return err }, ""},
		{"listAnnotations", model.LISTANNOTATIONS, func(b []byte, c *model.Configuration, _ string) error {
			_, err := api.Annotations(rd(b), nil, c)
			return err
		}, ""},
		{"rotate", model.ROTATE, func(b []byte, c *model.Configuration, _ string) error { return api.Rotate(rd(b), sink(), 90, nil, c) }, ""},
		{"nup", model.NUP, func(b []byte, c *model.Configuration, _ string) error {
			nup, err := api.PDFNUpConfig(2, "", c)
			if err != nil {
				panic(err)
			}
			return api.NUp(rd(b), sink(), nil, nil, nup, c)
		}, ""},
		{"booklet", model.BOOKLET, func(b []byte, c *model.Configuration, _ string) error {
			nup, err := api.PDFBookletConfig(2, "", c)
			if err != nil {
				panic(err)
			}
			return api.Booklet(rd(b), sink(), nil, nil, nup, c)
		}, ""},
		{"merge", model.MERGECREATE, func(b []byte, c *model.Configuration, _ string) error {
			return api.MergeRaw([]io.ReadSeeker{rd(b), rd(b)}, sink(), false, c)
		}, ""},
		{"listImages", model.LISTIMAGES, func(b []byte, c *model.Configuration, _ string) error {
			_, err := api.Images(rd(b), nil, c)
			return err
		}, ""},
		{"listFormFields", model.LISTFORMFIELDS, func(b []byte, c *model.Configuration, _ string) error { _, err := api.FormFields(rd(b), c); return err }, "no form available"},
		{"listPageLayout", model.LISTPAGELAYOUT, func(b []byte, c *model.Configuration, _ string) error { _, err := api.PageLayout(rd(b), c); return err }, ""},
		{"setPageLayout", model.SETPAGELAYOUT, func(b []byte, c *model.Configuration, _ string) error {
			return api.SetPageLayout(rd(b), sink(), model.PageLayoutSinglePage, c)
		}, ""},
		{"setPageMode", model.SETPAGEMODE, func(b []byte, c *model.Configuration, _ string) error {
			return api.SetPageMode(rd(b), sink(), model.PageModeUseNone, c)
		}, ""},
		{"zoom", model.ZOOM, func(b []byte, c *model.Configuration, _ string) error {
			return api.Zoom(rd(b), sink(), nil, &model.Zoom{Factor: 0.5}, c)
		}, ""},
		{"resize", model.RESIZE, func(b []byte, c *model.Configuration, _ string) error {
			return api.Resize(rd(b), sink(), nil, &model.Resize{Scale: 0.5}, c)
		}, ""},
		{"ndown", model.NDOWN, func(b []byte, c *model.Configuration, tmp string) error {
			cut, err := pdfcpu.ParseCutConfigForN(2, "", types.POINTS)
			if err != nil {
				panic(err)
			}
			return api.NDown(rd(b), tmp, "nd", []string{"1"}, 2, cut, c)
		}, ""},
		{"cut", model.CUT, func(b []byte, c *model.Configuration, tmp string) error {
			cut, err := pdfcpu.ParseCutConfig("hor:.5", types.POINTS)
			if err != nil {
				panic(err)
			}
			return api.Cut(rd(b), tmp, "cut", []string{"1"}, cut, c)
		}, ""},
		{"poster", model.POSTER, func(b []byte, c *model.Configuration, tmp string) error {
			cut, err := pdfcpu.ParseCutConfigForPoster("f:A6", types.POINTS)
			if err != nil {
				panic(err)
			}
			return api.Poster(rd(b), tmp, "poster", []string{"1"}, cut, c)
		}, ""},
		{"create", model.CREATE, func(b []byte, c *model.Configuration, _ string) error {
			js := `{"pages":{"1":{"content":{"text":[{"value":"C26","pos":[100,100],"font":{"name":"Helvetica","size":12}}]}}}}`
			return api.Create(rd(b), strings.NewReader(js), sink(), c)
		}, ""},
		{"removeSignatures", model.REMOVESIGNATURES, func(b []byte, c *model.Configuration, _ string) error {
			return api.RemoveSignatures(rd(b), sink(), c)
		}, "no signatures present"},
		{"decrypt", model.DECRYPT, func(b []byte, c *model.Configuration, _ string) error { return api.Decrypt(rd(b), sink(), c) }, ""},
		{"encrypt", model.ENCRYPT, func(b []byte, c *model.Configuration, _ string) error { return api.Encrypt(rd(b), sink(), c) }, ""},
		{"setPermissions", model.SETPERMISSIONS, func(b []byte, c *model.Configuration, _ string) error {
			c.Permissions = model.PermissionsAll
			return api.SetPermissions(rd(b), sink(), c)
		}, ""},
	}
}

func classify(err error) string {
	switch {
	case err == nil:
		return "ok"
	case errors.Is(err, pdfcpu.ErrPermissionDenied):
		return "denied"
	case errors.Is(err, pdfcpu.ErrWrongPassword):
		return "wrong-password"
	case errors.Is(err, pdfcpu.ErrOwnerPasswordRequired):
		return "owner-required"
	case errors.Is(err, pdfcpu.ErrEncrypted):
		return "encrypted-unsupported"
	case errors.Is(err, pdfcpu.ErrNotEncrypted):
		return "not-encrypted"
	}
	s := err.Error()
	if len(s) > 120 {
		s = s[:120]
	}
	return "error:" + s
}

type encCfg struct {
	label string
	aes   bool
	klen  int
}

type cred struct {
	label    string
	upw, opw string
	// ownerOK: the supplied owner string IS the document's owner password (cryptographically; for a crafted
	// document with an empty owner password the empty string "matches"). Whether that authenticates the owner
	// is for the implementation / model to decide (revision 5, 6: only if a password was supplied at all).
	ownerOK bool
	userOK  bool
}

// ownerSupplied: the specification's notion -- an owner password was supplied and it is the right one.
func (c cred) ownerSupplied() bool { return c.ownerOK && c.opw != "" }

func safeRun(o op, b []byte, c *model.Configuration, tmp string) (res string) {
	defer func() {
		if x := recover(); x != nil {
			res = fmt.Sprintf("panic:%v", x)
		}
	}()
	err := o.run(b, c, tmp)
	if err != nil && o.passed != "" && strings.Contains(err.Error(), o.passed) {
		return "ok"
	}
	return classify(err)
}

func permsOf(klen int) int { return map[int]int{40: 2, 128: 4, 256: 5}[klen] }

// e2eDoc encrypts src with (upw, opw, perm) under cfg and runs the operations with the credentials.
func e2eDoc(r *vh.Run, table map[model.CommandMode][2]int, tmp, doc string, src []byte, cfg encCfg, perm int, pwClass, upw, opw string,
	opsSel []op, creds []cred, keep func(ci int) bool) {
	conf := model.NewDefaultConfiguration()
	conf.UserPW, conf.OwnerPW = upw, opw
	conf.EncryptUsingAES, conf.EncryptKeyLength = cfg.aes, cfg.klen
	conf.Permissions = model.PermissionFlags(perm)
	var buf bytes.Buffer
	if err := api.Encrypt(bytes.NewReader(src), &buf, conf); err != nil {
		if pwClass == "ordinary" {
			panic(fmt.Sprintf("encrypt %s %s %x: %v", doc, cfg.label, perm, err))
		}
		// e.g. SASLprep (AES-256) prohibits control characters: such a document cannot exist
		r.Count("e2e:encrypt-rejects-password:" + pwClass + "/" + cfg.label)
		return
	}
	enc := buf.Bytes()
	// what the file says (read with the owner password)
	rc := model.NewDefaultConfiguration()
	rc.OwnerPW = opw
	ctx, err := api.ReadContext(bytes.NewReader(enc), rc)
	if err != nil {
		// the owner password must always open the document this harness has just encrypted
		in := map[string]any{"doc": doc, "cipher": cfg.label, "permissions": perm, "credentials": "owner-only", "op": "ReadContext", "passwords": pwClass}
		if errors.Is(err, pdfcpu.ErrPermissionDenied) {
			fail(r, "owner-password-denied", in, "the owner password was supplied and reading was refused for permission reasons")
		} else {
			fail(r, "owner-password-cannot-reopen", in, classify(err))
		}
	}
	// P and R as api.Encrypt writes them (newEncryptDict); confirmed from the file when it can be read
	p, rev := int(int16(perm)), permsOf(cfg.klen)
	if err == nil {
		if ctx.E.P != p || ctx.E.R != rev {
			r.Count("e2e:P-or-R-differs-from-expected")
		}
		p, rev = ctx.E.P, ctx.E.R
	}
	runOps(r, table, tmp, doc, enc, cfg, pwClass, p, rev, opsSel, creds, keep)
}

// runOps runs the operations on the encrypted file enc (permissions p, revision rev) with the credentials.
func runOps(r *vh.Run, table map[model.CommandMode][2]int, tmp, doc string, enc []byte, cfg encCfg, pwClass string, p, rev int,
	opsSel []op, creds []cred, keep func(ci int) bool) {
	r.Count(fmt.Sprintf("e2e:R=%d", rev))
	r.Count("e2e:passwords:" + pwClass)
	for _, o := range opsSel {
		for ci, cr := range creds {
			if !keep(ci) {
				continue
			}
			c := model.NewDefaultConfiguration()
			c.UserPW, c.OwnerPW = cr.upw, cr.opw
			got := safeRun(o, enc, c, tmp)
			r.Case("access", []string{"true", vh.Bool(cr.ownerOK), vh.Bool(cr.userOK), "true", hx(cr.opw), hx(cr.upw),
				vh.Int(int64(o.mode)), vh.Int(int64(p)), vh.Int(int64(rev))}, got)
			oracleB(r, table, doc, cfg, pwClass, o, cr, p, rev, got)
		}
	}
}

func partB(r *vh.Run, table map[model.CommandMode][2]int) {
	repo := os.Getenv("VERIF_REPO")
	if repo == "" {
		repo = "/repo"
	}
	tmp, err := os.MkdirTemp("", "c26-e2e-")
	if err != nil {
		panic(err)
	}
	defer os.RemoveAll(tmp)

	samples := []string{"testWithText.pdf"}
	if r.Thorough() {
		samples = append(samples, "zineTest.pdf")
	}
	cfgs := []encCfg{{"rc4-40", false, 40}, {"rc4-128", false, 128}, {"aes-128", true, 128}, {"aes-256", true, 256}}
	none := int(model.PermissionsNone)
	perms := []int{none, int(model.PermissionsAll), none | 0x10, none | 0x08, none | 0x200, none | 0x400, none | 0x10 | 0x200, none | 0x08 | 0x400, int(model.PermissionsPrint)}
	if r.Thorough() {
		for i := 0; i < 16; i++ {
			perms = append(perms, none|(i&1)<<3|(i>>1&1)<<4|(i>>2&1)<<9|(i>>3&1)<<10|r.Rand.Intn(2)<<2|r.Rand.Intn(2)<<5|r.Rand.Intn(2)<<8|r.Rand.Intn(2)<<11)
		}
	}
	creds := []cred{
		{"user-only", "upw", "", false, true},
		{"user+wrong-owner", "upw", "nope", false, true},
		{"owner-only", "", "opw", true, false},
		{"both", "upw", "opw", true, true},
		{"wrong", "nope", "", false, false},
	}
	all := ops()
	// operations run for the password classes
	var few []op
	for _, o := range all {
		switch o.name {
		case "info", "optimize", "split", "extractContent", "trim", "rotate", "addWatermarks", "resize", "decrypt", "setPermissions":
			few = append(few, o)
		}
	}
	for _, s := range samples {
		src, err := os.ReadFile(filepath.Join(repo, "pkg", "testdata", s))
		if err != nil {
			panic(err)
		}
		// unencrypted document: never "denied"
		for _, o := range all {
			c := model.NewDefaultConfiguration()
			c.UserPW = "upw"
			got := safeRun(o, src, c, tmp)
			r.Case("access", []string{"false", "false", "false", "true", hx(""), hx("upw"), vh.Int(int64(o.mode)), "0", "0"}, got)
			if got == "denied" {
				fail(r, "unencrypted-denied", map[string]any{"doc": s, "op": o.name}, "an unencrypted document was refused for permission reasons")
			} else {
				r.OracleOK()
			}
		}
		for _, cfg := range cfgs {
			for pi, perm := range perms {
				if !r.Thorough() && pi >= 2 && (pi+len(cfg.label))%2 == 1 && cfg.klen != 40 {
					continue // quick tier: half of the single-bit permission sets per cipher (all of them for RC4-40 = revision 2)
				}
				pi := pi
				e2eDoc(r, table, tmp, s, src, cfg, perm, "ordinary", "upw", "opw", all, creds,
					func(ci int) bool { return r.Thorough() || ci < 2 || (pi+ci)%3 == 0 })
			}
			// password classes: whitespace-only / padded / trims-to-the-other / NUL / long / non-ASCII, for user and owner;
			// opened with user-only, owner-only, both, none
			for qi, pw := range pwPairs {
				cl := []cred{{"user-only", pw.upw, "", false, true}, {"owner-only", "", pw.opw, true, false},
					{"both", pw.upw, pw.opw, true, true}, {"none", "", "", false, false}}
				pp := []int{none}
				if r.Thorough() {
					pp = []int{none, int(model.PermissionsAll), none | 0x10 | 0x200, none | 0x08 | 0x400}
				} else if qi%2 == 0 {
					pp = []int{none, none | 0x10 | 0x200} // extract granted, modify denied
				}
				for _, perm := range pp {
					e2eDoc(r, table, tmp, s, src, cfg, perm, pw.label, pw.upw, pw.opw, few, cl, func(int) bool { return true })
				}
			}
		}
		craftedDocs(r, table, tmp, s, src, all)
		if s == samples[0] {
			entryMatrix(r, table, tmp, s, src)
		}
	}
}

// craftedDocs: AES-256 documents (revision 5 and 6) with a non-empty user password and an EMPTY owner
// password, all four combinations of the extract / modify bits; the whole operation matrix with user-only,
// none (= empty owner password only) and user + wrong owner. Control: the same crafting with a non-empty
// owner password must open with that owner password (validates the crafting itself).
func craftedDocs(r *vh.Run, table map[model.CommandMode][2]int, tmp, doc string, src []byte, all []op) {
	cfg := encCfg{"aes-256", true, 256}
	none := int(model.PermissionsNone)
	for _, perm := range []int{none, none | 0x10 | 0x200, none | 0x08 | 0x400, none | 0x10 | 0x200 | 0x08 | 0x400} {
		conf := model.NewDefaultConfiguration()
		conf.UserPW, conf.OwnerPW = "upw", "opw"
		conf.EncryptUsingAES, conf.EncryptKeyLength = true, 256
		conf.Permissions = model.PermissionFlags(perm)
		var buf bytes.Buffer
		if err := api.Encrypt(bytes.NewReader(src), &buf, conf); err != nil {
			panic(fmt.Sprintf("encrypt for crafting: %v", err))
		}
		rc := model.NewDefaultConfiguration()
		rc.OwnerPW = "opw"
		ctx, err := api.ReadContext(bytes.NewReader(buf.Bytes()), rc)
		if err != nil || ctx.E.R != 5 || len(ctx.EncKey) != 32 {
			// cannot obtain the file key (e.g. the owner path itself is broken): reported by e2eDoc already
			r.Count("e2e:crafting-skipped")
			continue
		}
		e := ctx.E
		p := e.P
		for _, rev := range []int{5, 6} {
			cfgr := cfg
			cfgr.label = fmt.Sprintf("aes-256-crafted-R%d", rev)
			// control: non-empty owner password, opened with it
			if perm == none {
				ctl := craftAES256(buf.Bytes(), rev, "upw", "own2", e.U, e.UE, e.O, e.OE, ctx.EncKey)
				runOps(r, table, tmp, doc, ctl, cfgr, "crafted-owner-own2", p, rev, all,
					[]cred{{"owner-only", "", "own2", true, false}, {"user-only", "upw", "", false, true}, {"old-owner", "", "opw", false, false}},
					func(int) bool { return true })
			}
			crafted := craftAES256(buf.Bytes(), rev, "upw", "", e.U, e.UE, e.O, e.OE, ctx.EncKey)
			runOps(r, table, tmp, doc, crafted, cfgr, "crafted-empty-owner", p, rev, all,
				[]cred{{"user-only", "upw", "", true, true}, {"none", "", "", true, false}, {"user+wrong-owner", "upw", "nope", false, true}},
				func(int) bool { return true })
		}
	}
}

// entryMatrix: EVERY pkg/api entry point that stores a command mode, with the user password only, on documents
// whose extract and modify bits differ (both directions) for revision 2, 4, 5 and 6.
func entryMatrix(r *vh.Run, table map[model.CommandMode][2]int, tmp, doc string, src []byte) {
	es := entries()
	// the harness's list of entry points and their modes against the table extracted from the source
	names, believed := believedTable(es)
	r.Case("apiEntryCount", nil, fmt.Sprint(len(names)))
	for i, fn := range names {
		r.Case("apiEntry", []string{fmt.Sprint(i)}, vh.Ints(believed[fn]))
	}
	if err := os.WriteFile(filepath.Join(tmp, "attach.txt"), []byte("C26"), 0o644); err != nil {
		panic(err)
	}
	none := int(model.PermissionsNone)
	type target struct {
		cfg  encCfg
		rev  int
		perm int
	}
	var targets []target
	for _, perm := range []int{none | 0x10 | 0x200, none | 0x08 | 0x400} { // extract granted / modify denied, and the converse
		targets = append(targets,
			target{encCfg{"rc4-40", false, 40}, 2, perm}, target{encCfg{"aes-128", true, 128}, 4, perm},
			target{encCfg{"aes-256", true, 256}, 5, perm}, target{encCfg{"aes-256-crafted-R6", true, 256}, 6, perm})
		if r.Thorough() {
			targets = append(targets, target{encCfg{"rc4-128", false, 128}, 4, perm})
		}
	}
	for _, tg := range targets {
		conf := model.NewDefaultConfiguration()
		conf.UserPW, conf.OwnerPW = "upw", "opw"
		conf.EncryptUsingAES, conf.EncryptKeyLength = tg.cfg.aes, tg.cfg.klen
		conf.Permissions = model.PermissionFlags(tg.perm)
		var buf bytes.Buffer
		if err := api.Encrypt(bytes.NewReader(src), &buf, conf); err != nil {
			panic(fmt.Sprintf("encrypt (entry matrix) %s: %v", tg.cfg.label, err))
		}
		enc := buf.Bytes()
		p := int(int16(tg.perm))
		if tg.rev == 6 {
			rc := model.NewDefaultConfiguration()
			rc.OwnerPW = "opw"
			ctx, err := api.ReadContext(bytes.NewReader(enc), rc)
			if err != nil || ctx.E.R != 5 || len(ctx.EncKey) != 32 {
				r.Count("e2e:crafting-skipped")
				continue
			}
			enc = craftAES256(enc, 6, "upw", "opw", ctx.E.U, ctx.E.UE, ctx.E.O, ctx.E.OE, ctx.EncKey)
		}
		e := &env{b: enc, file: filepath.Join(tmp, "in.pdf"), tmp: tmp}
		if err := os.WriteFile(e.file, enc, 0o644); err != nil {
			panic(err)
		}
		r.Count(fmt.Sprintf("e2e:entry-matrix:R=%d", tg.rev))
		call := func(en entry, upw, opw string) (res string) {
			defer func() {
				if x := recover(); x != nil {
					res = fmt.Sprintf("panic:%v", x)
				}
			}()
			c := model.NewDefaultConfiguration()
			c.UserPW, c.OwnerPW = upw, opw
			return classify(en.run(e, c))
		}
		for _, en := range es {
			// the arguments must carry the call to the access decision: a wrong password is answered as such
			// (or the command is refused for every encrypted file / insists on the owner password)
			switch probe := call(en, "nope", ""); probe {
			case "wrong-password", "encrypted-unsupported", "owner-required":
			default:
				r.Count("e2e:entry-point-NOT-reaching-access-decision:" + en.via)
				continue
			}
			baseline := call(en, "upw", "opw") // what the operation does once access is granted
			got := call(en, "upw", "")
			if strings.HasPrefix(baseline, "error:") && got == baseline {
				got = "ok" // proceeds exactly as with the owner password (the sample has no form, signature, ...)
			}
			cr := cred{"user-only", "upw", "", false, true}
			r.Case("access", []string{"true", "false", "true", "true", hx(""), hx("upw"),
				vh.Int(int64(en.mode)), vh.Int(int64(p)), vh.Int(int64(tg.rev))}, got)
			oracleB(r, table, doc, tg.cfg, "entry-matrix", op{name: "api." + en.via, mode: en.mode}, cr, p, tg.rev, got)
			r.Count("e2e:entry-point:" + en.fn)
		}
	}
}

func oracleB(r *vh.Run, table map[model.CommandMode][2]int, doc string, cfg encCfg, pwClass string, o op, cr cred, p, rev int, got string) {
	in := map[string]any{"doc": doc, "cipher": cfg.label, "op": o.name, "mode": name(o.mode), "P": p, "R": rev, "credentials": cr.label,
		"passwords": pwClass, "userPWhex": hx(cr.upw), "ownerPWhex": hx(cr.opw)}
	ok := true
	if strings.HasPrefix(got, "panic:") {
		fail(r, "panic-in-operation", in, got)
		return
	}
	if cr.ownerSupplied() && got == "denied" {
		fail(r, "owner-password-denied", in, "the owner password was supplied and the operation was refused for permission reasons")
		ok = false
	}
	// "owner-required" / "encrypted-unsupported" are refusals of another kind (observed, not assumed)
	if !cr.ownerSupplied() && cr.userOK && got != "owner-required" && got != "encrypted-unsupported" {
		row, inTable := table[o.mode]
		if inTable {
			needE, needM := row[0] != 0, row[1] != 0
			wantRefused := needE && deniesExtract(p, rev) || needM && deniesModify(p, rev)
			switch {
			case wantRefused && got != "denied" && needE && deniesExtract(p, rev):
				fail(r, "extract-classified-not-refused", in, "got "+got)
				ok = false
			case wantRefused && got != "denied":
				fail(r, "modify-classified-not-refused", in, "got "+got)
				ok = false
			case !wantRefused && got != "ok":
				fail(r, "refused-although-granted", in, "got "+got)
				ok = false
			}
		}
		if specMustRefuse(kindOf(o.mode), p, rev) && got == "ok" && !rowSatisfies(kindOf(o.mode), inTable, row) {
			// OBSERVATION only (see oracleA)
			r.Count("observation:unclassified-mode-e2e:" + name(o.mode))
		}
	}
	if ok {
		r.OracleOK()
	}
}
