(* C21 — a structural core of pdfcpu's relaxed validation over the object model of C19
   (page tree shape, /Count, effective MediaBox; typed Info entries; catalog viewer entries;
   sorted name-tree leaves) and graph-level models of the document transformations whose
   outputs are validated: the writer's page-tree rewrite with a page selection (writeKids /
   writePagesDict: trim, remove pages, and the plain write), blank page insertion, setting a
   page attribute (rotate, boxes), Info updates (Producer/ModDate, keywords, properties),
   catalog updates (PageMode, PageLayout), name-tree insertion (attachments, destinations).
   Hand-written; NO proofs. *)
From Coq Require Import List ZArith NArith Bool.
From PV Require Import C19.Model.
Import ListNotations.

(* the page tree with references resolved; a leaf carries an identifier (harness: its page number
   in the input document, 0 for a page created by an operation) *)
Inductive ptree :=
| PLeaf (id : N) (d : dict)
| PNode (d : dict) (kids : list ptree).

Fixpoint leaves (t : ptree) : list (N * dict) :=
  match t with
  | PLeaf id d => [(id, d)]
  | PNode _ kids => flat_map leaves kids
  end.
Definition count (t : ptree) : Z := Z.of_nat (length (leaves t)).
Definition count_list (l : list ptree) : Z := Z.of_nat (length (flat_map leaves l)).

Definition is_some {A : Type} (o : option A) : bool := match o with Some _ => true | None => false end.
Definition type_is (d : dict) (t : bytes) : bool :=
  match dtype d with Some s => beqb s t | None => false end.
(* a MediaBox is inherited or present *)
Definition has_box (inh : bool) (d : dict) : bool := inh || is_some (dfind kMediaBox d).
Definition count_is (d : dict) (c : Z) : bool :=
  match dfind kCount d with Some (OInt z) => Z.eqb z c | _ => false end.

(* validatePagesDict / validatePageDict, structural core: node types, /Count = number of leaves
   below, every leaf has an effective MediaBox *)
Fixpoint tree_ok (inh : bool) (t : ptree) : bool :=
  match t with
  | PLeaf _ d => type_is d kPage && has_box inh d
  | PNode d kids =>
      type_is d kPages && count_is d (count_list kids) &&
      forallb (tree_ok (has_box inh d)) kids
  end.

(* the same without the /Count requirement: what the writer's rewrite needs *)
Fixpoint shape_ok (inh : bool) (t : ptree) : bool :=
  match t with
  | PLeaf _ d => type_is d kPage && has_box inh d
  | PNode d kids => type_is d kPages && forallb (shape_ok (has_box inh d)) kids
  end.

(* writeKids + writePagesDictDepth with ctx.Write.SelectedPages: leaves that are not kept are
   left out of /Kids, inner nodes stay (skip is always false), /Count is recomputed.
   keep = all: the plain write, the only use in pdfcpu as it is (nothing sets SelectedPages;
   trim, remove pages, collect and split go through ExtractPages, modelled below as extract). *)
Fixpoint select (keep : N -> bool) (t : ptree) : ptree :=
  match t with
  | PLeaf id d => PLeaf id d
  | PNode d kids =>
      let kids' := (fix go (l : list ptree) : list ptree :=
                      match l with
                      | [] => []
                      | k :: r =>
                        match k with
                        | PLeaf id _ => if keep id then k :: go r else go r
                        | PNode _ _ => select keep k :: go r
                        end
                      end) kids in
      PNode (dset kCount (OInt (count_list kids')) d) kids'
  end.

(* ExtractPages / AddPages (trim, remove pages, collect, split): a fresh page tree root whose kids
   are the requested pages in the requested order (repetitions allowed), each page dict with its
   effective MediaBox written into it (PageDict consolidates the inherited attributes) *)
Fixpoint eff_leaves (inh : option obj) (t : ptree) : list (N * dict) :=
  match t with
  | PLeaf id d =>
      [(id, match dfind kMediaBox d with
            | Some _ => d
            | None => match inh with Some b => dset kMediaBox b d | None => d end
            end)]
  | PNode d kids => flat_map (eff_leaves (orelse (dfind kMediaBox d) inh)) kids
  end.
Definition find_leaf (id : N) (ls : list (N * dict)) : list ptree :=
  match find (fun p => N.eqb (fst p) id) ls with
  | Some (i, d) => [PLeaf i d]
  | None => []
  end.
Definition extract (sel : list N) (t : ptree) : ptree :=
  let kids := flat_map (fun id => find_leaf id (eff_leaves None t)) sel in
  PNode [(kType, OName kPages); (kCount, OInt (count_list kids))] kids.

(* InsertBlankPages: a new leaf with its own MediaBox before / after every selected leaf, in the
   same /Kids array; counts recomputed on the way up *)
Definition blank_page (box : obj) : dict := [(kType, OName kPage); (kMediaBox, box)].
Fixpoint insert_blank (before : bool) (sel : N -> bool) (box : obj) (t : ptree) : ptree :=
  match t with
  | PLeaf id d => PLeaf id d
  | PNode d kids =>
      let kids' := (fix go (l : list ptree) : list ptree :=
                      match l with
                      | [] => []
                      | k :: r =>
                        match k with
                        | PLeaf id _ =>
                            if sel id then
                              (if before then PLeaf 0 (blank_page box) :: k :: go r
                               else k :: PLeaf 0 (blank_page box) :: go r)
                            else k :: go r
                        | PNode _ _ => insert_blank before sel box k :: go r
                        end
                      end) kids in
      PNode (dset kCount (OInt (count_list kids')) d) kids'
  end.

(* rotate / boxes: set one entry (not /Type, not /MediaBox removal) in the selected leaves *)
Fixpoint set_leaf (sel : N -> bool) (k : bytes) (v : obj) (t : ptree) : ptree :=
  match t with
  | PLeaf id d => if sel id then PLeaf id (dset k v d) else PLeaf id d
  | PNode d kids => PNode d (map (set_leaf sel k v) kids)
  end.

(* ---------- Info dictionary (validateDocumentInfoDict, structural core) ---------- *)
Definition kTitle : bytes := [84;105;116;108;101]%N.
Definition kAuthor : bytes := [65;117;116;104;111;114]%N.
Definition kSubject : bytes := [83;117;98;106;101;99;116]%N.
Definition kKeywords : bytes := [75;101;121;119;111;114;100;115]%N.
Definition kCreator : bytes := [67;114;101;97;116;111;114]%N.
Definition kProducer : bytes := [80;114;111;100;117;99;101;114]%N.
Definition kCreationDate : bytes := [67;114;101;97;116;105;111;110;68;97;116;101]%N.
Definition kModDate : bytes := [77;111;100;68;97;116;101]%N.
Definition kTrapped : bytes := [84;114;97;112;112;101;100]%N.
Definition string_keys : list bytes :=
  [kTitle; kAuthor; kSubject; kKeywords; kCreator; kProducer; kCreationDate; kModDate].
(* OAtom tag 3 = string (literal or hex) *)
Definition is_string (o : obj) : bool := match o with OAtom 3%N _ => true | _ => false end.
Definition is_name (o : obj) : bool := match o with OName _ => true | _ => false end.
(* relaxed validation accepts any other key with a string value (custom properties) *)
Definition info_entry_ok (kv : bytes * obj) : bool :=
  if beqb (fst kv) kTrapped then is_name (snd kv) || is_string (snd kv)
  else is_string (snd kv).
Definition info_ok (d : dict) : bool := forallb info_entry_ok d.

(* ensureInfoDict, AddKeywords, AddProperties: set an entry to a string *)
Definition info_set (k : bytes) (v : bytes) (d : dict) : dict := dset k (OAtom 3%N v) d.
(* RemoveKeywords / RemoveProperties *)
Definition info_del (k : bytes) (d : dict) : dict := ddel k d.

(* ---------- catalog (validateRootObject, structural core) ---------- *)
Definition kPageMode : bytes := [80;97;103;101;77;111;100;101]%N.
Definition kPageLayout : bytes := [80;97;103;101;76;97;121;111;117;116]%N.
Definition kCatalog : bytes := [67;97;116;97;108;111;103]%N.
Definition name_entry_ok (k : bytes) (d : dict) : bool :=
  match dfind k d with None => true | Some o => is_name o end.
Definition is_ref (o : obj) : bool := match o with ORef _ => true | _ => false end.
Definition catalog_ok (d : dict) : bool :=
  type_is d kCatalog && match dfind kPages d with Some o => is_ref o | None => false end &&
  name_entry_ok kPageMode d && name_entry_ok kPageLayout d.
Definition catalog_set_name (k v : bytes) (d : dict) : dict := dset k (OName v) d.

(* ---------- name tree leaf: keys strictly ascending (bytewise) ---------- *)
Fixpoint blt (a b : bytes) : bool :=
  match a, b with
  | [], [] => false
  | [], _ :: _ => true
  | _ :: _, [] => false
  | x :: a', y :: b' => N.ltb x y || (N.eqb x y && blt a' b')
  end.
Fixpoint sorted (l : list (bytes * obj)) : bool :=
  match l with
  | [] => true
  | (k, _) :: r => match r with [] => true | (k', _) :: _ => blt k k' && sorted r end
  end.
(* Node.Add of a leaf: insert or replace *)
Fixpoint nt_insert (k : bytes) (v : obj) (l : list (bytes * obj)) : list (bytes * obj) :=
  match l with
  | [] => [(k, v)]
  | (k', v') :: r =>
      if blt k k' then (k, v) :: (k', v') :: r
      else if beqb k k' then (k, v) :: r
      else (k', v') :: nt_insert k v r
  end.
Fixpoint nt_remove (k : bytes) (l : list (bytes * obj)) : list (bytes * obj) :=
  match l with
  | [] => []
  | (k', v') :: r => if beqb k k' then r else (k', v') :: nt_remove k r
  end.

(* ---------- the PDF version of a written document ---------- *)
(* versions as 10 * major + minor: 10 .. 17, 20.  XRefTable.Version: a catalog /Version takes
   precedence over the header. *)
Definition effective (header : N) (root : option N) : N :=
  match root with Some v => v | None => header end.
(* WriteContext: the header written is 1.7 (2.0 when the document is a PDF 2.0 document) and the
   catalog /Version is always deleted.  ensured = the operation called EnsureVersionForWriting
   (RootVersion := 1.7 in memory: stamps, annotations, resize, zoom, merge ...) *)
Definition write_versions (ensured : bool) (header : N) (root : option N) : N * option N :=
  let eff := if ensured then 17%N else effective header root in
  ((if N.eqb eff 20 then 20 else 17)%N, None).
Definition valid_version (v : N) : bool := (N.leb 10 v && N.leb v 17) || N.eqb v 20.

(* ---------- entry points for the harness: page identifiers after an operation ---------- *)
Definition ids (t : ptree) : list N := map fst (leaves t).
Definition root_count (t : ptree) : Z :=
  match t with PNode d _ => match dfind kCount d with Some (OInt z) => z | _ => (-1)%Z end | _ => (-1)%Z end.
Definition memN' (n : N) (l : list N) : bool := existsb (N.eqb n) l.
Definition op_trim (sel : list N) (t : ptree) : ptree :=
  extract (filter (fun id => memN' id sel) (ids t)) t.
Definition op_remove (sel : list N) (t : ptree) : ptree :=
  extract (filter (fun id => negb (memN' id sel)) (ids t)) t.
Definition op_collect (sel : list N) (t : ptree) : ptree := extract sel t.
Definition op_write (t : ptree) : ptree := select (fun _ => true) t.
Definition op_insert (before : bool) (sel : list N) (t : ptree) : ptree :=
  insert_blank before (fun id => memN' id sel) (OArr [OInt 0; OInt 0; OInt 595; OInt 842]) t.
