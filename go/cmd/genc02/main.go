// genc02 regenerates coq/C02/Generated.v: for every place in pdfcpu that creates a staging file for
// replacing a destination, the directory and the name pattern handed to the temp-file creator, as
// token lists over the destination path (go/ast only, no type checking).
//
//	genc02 -repo /repo -out <file.v>
//
// Sites (file, function, creator callee):
//
//	pkg/api/file.go   openStagedOutputWithOperations  ops.createTempFn(dir, pattern)
//	pkg/cli/io.go     createStreamOutput              os.CreateTemp(dir, pattern)
//	pkg/api/cut.go    writeCutOutputWith              ops.createTemp(dir, pattern)
//	pkg/pdfcpu/io.go  createStagedFile                openStagedFile(dir, prefix)
//
// Each argument is resolved through at most one local `:=` definition and rendered as:
// string literal -> PLit, `a + b` -> concatenation, filepath.Base(x) -> PBase, filepath.Dir(x) -> DDir,
// where x must be the same identifier in Dir and Base (the destination).  Any other expression is
// rendered as POther / DOther, which makes the Coq proof over the table fail.  For the prefix-style
// creator (openStagedFile) the tool checks that the callee builds
// filepath.Join(dir, fmt.Sprintf("%s%x", prefix, suffix)) and opens it with O_CREATE|O_EXCL, and then
// appends "*" to the last literal.  A second table, publish_sites, lists for every function that opens the
// output of a publish protocol (createStreamOutput; openStagedOutputWithOperations; createStagedFile +
// openStagedFile; writeCutOutputWith + cutDestinationMode + createCutTemporaryOutput) every os.Stat / os.Lstat
// call (SStat / SLstat; the injected statFn / stat fields are resolved through defaultFileOperations /
// defaultCutOutputOperations, which must bind them to os.Stat or os.Lstat) and the flag set of every
// OpenFile / openExclusiveFn call ("OTHER" for anything that is not an os.O_* constant).  For createCutTemporaryOutput it checks strings.Replace(pattern, "*", …, 1),
// filepath.Join(dir, name) and O_CREATE|O_EXCL.  A missing function / callee, or a failed check, is an error (exit 1).
package main

import (
	"flag"
	"fmt"
	"go/ast"
	"go/parser"
	"go/printer"
	"go/token"
	"os"
	"path/filepath"
	"strconv"
	"strings"
)

type siteSpec struct {
	file, fn string
	callees  []string // last identifier of the callee
	prefix   bool     // prefix style: the creator appends the random suffix itself
}

var sites = []siteSpec{
	{"pkg/api/file.go", "openStagedOutputWithOperations", []string{"createTempFn"}, false},
	{"pkg/cli/io.go", "createStreamOutput", []string{"CreateTemp"}, false},
	{"pkg/api/cut.go", "writeCutOutputWith", []string{"createTemp"}, false},
	{"pkg/pdfcpu/io.go", "createStagedFile", []string{"openStagedFile"}, true},
}

func die(format string, a ...any) {
	fmt.Fprintf(os.Stderr, "genc02: "+format+"\n", a...)
	os.Exit(1)
}

var fset = token.NewFileSet()

func src(n ast.Node) string {
	var sb strings.Builder
	printer.Fprint(&sb, fset, n)
	return strings.Join(strings.Fields(sb.String()), " ")
}

func findFunc(f *ast.File, name string) *ast.FuncDecl {
	for _, d := range f.Decls {
		if fd, ok := d.(*ast.FuncDecl); ok && fd.Recv == nil && fd.Name.Name == name {
			return fd
		}
	}
	return nil
}

func calleeName(c *ast.CallExpr) string {
	switch f := c.Fun.(type) {
	case *ast.Ident:
		return f.Name
	case *ast.SelectorExpr:
		return f.Sel.Name
	}
	return ""
}

// the single `name := expr` (or `a, name := e1, e2`) definition of an identifier inside fn
func localDef(fn *ast.FuncDecl, name string) ast.Expr {
	var found []ast.Expr
	ast.Inspect(fn.Body, func(n ast.Node) bool {
		as, ok := n.(*ast.AssignStmt)
		if !ok || len(as.Lhs) != len(as.Rhs) {
			return true
		}
		for i, l := range as.Lhs {
			if id, ok := l.(*ast.Ident); ok && id.Name == name {
				found = append(found, as.Rhs[i])
			}
		}
		return true
	})
	if len(found) == 1 {
		return found[0]
	}
	return nil
}

func resolve(fn *ast.FuncDecl, e ast.Expr) ast.Expr {
	if id, ok := e.(*ast.Ident); ok {
		if d := localDef(fn, id.Name); d != nil {
			return d
		}
	}
	return e
}

func isFilepathCall(e ast.Expr, fn string) (ast.Expr, bool) {
	c, ok := e.(*ast.CallExpr)
	if !ok || len(c.Args) != 1 {
		return nil, false
	}
	sel, ok := c.Fun.(*ast.SelectorExpr)
	if !ok || sel.Sel.Name != fn {
		return nil, false
	}
	if x, ok := sel.X.(*ast.Ident); !ok || x.Name != "filepath" {
		return nil, false
	}
	return c.Args[0], true
}

type tok struct {
	kind string // lit, base, other
	lit  string
	arg  string // identifier inside Base(...)
}

func patTokens(e ast.Expr) []tok {
	switch x := e.(type) {
	case *ast.ParenExpr:
		return patTokens(x.X)
	case *ast.BinaryExpr:
		if x.Op == token.ADD {
			return append(patTokens(x.X), patTokens(x.Y)...)
		}
	case *ast.BasicLit:
		if x.Kind == token.STRING {
			s, err := strconv.Unquote(x.Value)
			if err == nil {
				return []tok{{kind: "lit", lit: s}}
			}
		}
	case *ast.CallExpr:
		if a, ok := isFilepathCall(x, "Base"); ok {
			if id, ok := a.(*ast.Ident); ok {
				return []tok{{kind: "base", arg: id.Name}}
			}
		}
	}
	return []tok{{kind: "other", lit: src(e)}}
}

func coqBytes(s string) string {
	var l []string
	for _, b := range []byte(s) {
		l = append(l, strconv.Itoa(int(b)))
	}
	return "[" + strings.Join(l, "; ") + "]%N"
}

func mustContain(fd *ast.FuncDecl, what ...string) {
	body := src(fd.Body)
	for _, w := range what {
		if !strings.Contains(body, w) {
			die("%s: expected to find `%s` in its body", fd.Name.Name, w)
		}
	}
}

func main() {
	repo := flag.String("repo", "/repo", "pdfcpu source tree")
	out := flag.String("out", "", "output .v file")
	flag.Parse()
	if *out == "" {
		die("-out required")
	}
	var sb strings.Builder
	sb.WriteString("(* GENERATED by go/cmd/genc02 from the pdfcpu sources — do not edit. *)\n")
	sb.WriteString("From Coq Require Import NArith List String.\nFrom PV Require Import C02.Model.\nImport ListNotations.\nOpen Scope string_scope.\n\n")
	sb.WriteString("Definition staging_sites : list (string * site) := [\n")
	for i, s := range sites {
		path := filepath.Join(*repo, s.file)
		f, err := parser.ParseFile(fset, path, nil, 0)
		if err != nil {
			die("%v", err)
		}
		fd := findFunc(f, s.fn)
		if fd == nil || fd.Body == nil {
			die("%s: function %s not found", s.file, s.fn)
		}
		var calls []*ast.CallExpr
		ast.Inspect(fd.Body, func(n ast.Node) bool {
			if c, ok := n.(*ast.CallExpr); ok {
				for _, cn := range s.callees {
					if calleeName(c) == cn {
						calls = append(calls, c)
					}
				}
			}
			return true
		})
		if len(calls) != 1 || len(calls[0].Args) != 2 {
			die("%s: %s: expected exactly one call of %v with two arguments, found %d", s.file, s.fn, s.callees, len(calls))
		}
		dirE := resolve(fd, calls[0].Args[0])
		patE := resolve(fd, calls[0].Args[1])
		dirTok, dirArg := "DOther", ""
		if a, ok := isFilepathCall(dirE, "Dir"); ok {
			if id, ok := a.(*ast.Ident); ok {
				dirTok, dirArg = "DDir", id.Name
			}
		}
		toks := patTokens(patE)
		if s.prefix {
			// the creator appends the suffix itself: check its shape, then make the `*` explicit
			callee := findFunc(f, s.callees[0])
			if callee == nil {
				die("%s: function %s not found", s.file, s.callees[0])
			}
			mustContain(callee, `filepath.Join(dir, fmt.Sprintf("%s%x", prefix, suffix))`, "os.O_CREATE", "os.O_EXCL")
			if n := len(toks); n > 0 && toks[n-1].kind == "lit" {
				toks[n-1].lit += "*"
			} else {
				toks = append(toks, tok{kind: "other", lit: "prefix does not end in a literal"})
			}
		}
		if s.fn == "writeCutOutputWith" {
			c := findFunc(f, "createCutTemporaryOutput")
			if c == nil {
				die("%s: function createCutTemporaryOutput not found", s.file)
			}
			mustContain(c, `strings.Replace(pattern, "*", rand.Text(), 1)`, "filepath.Join(dir, name)", "os.O_CREATE", "os.O_EXCL")
			d := findFunc(f, "defaultCutOutputOperations")
			if d == nil {
				die("%s: function defaultCutOutputOperations not found", s.file)
			}
			mustContain(d, "createTemp: createCutTemporaryOutput")
		}
		var ps []string
		for _, t := range toks {
			switch t.kind {
			case "lit":
				ps = append(ps, "PLit "+coqBytes(t.lit))
			case "base":
				if t.arg == dirArg && dirArg != "" {
					ps = append(ps, "PBase")
				} else {
					ps = append(ps, "POther")
				}
			default:
				ps = append(ps, "POther")
			}
		}
		sep := ";"
		if i == len(sites)-1 {
			sep = ""
		}
		fmt.Fprintf(&sb, "  (* %s %s: dir = %s; pattern = %s *)\n", s.file, s.fn, src(dirE), src(patE))
		fmt.Fprintf(&sb, "  (\"%s\", Site %s [%s])%s\n", s.fn, dirTok, strings.Join(ps, "; "), sep)
	}
	sb.WriteString("].\n\n")
	sb.WriteString(publishSites(*repo))
	if err := os.WriteFile(*out, []byte(sb.String()), 0o644); err != nil {
		die("%v", err)
	}
}

// ---------------------------------------------------------------------------------------------

type pubSpec struct {
	name  string
	file  string
	funcs []string
	// field of an operations table that is called instead of os.Stat, the function holding the table literal
	statField, tableFunc string
}

var pubSites = []pubSpec{
	{"createStreamOutput", "pkg/cli/io.go", []string{"createStreamOutput"}, "", ""},
	{"openStagedOutputWithOperations", "pkg/api/file.go", []string{"openStagedOutputWithOperations"}, "statFn", "defaultFileOperations"},
	{"createStagedFile", "pkg/pdfcpu/io.go", []string{"createStagedFile", "openStagedFile"}, "", ""},
	{"writeCutOutputWith", "pkg/api/cut.go", []string{"writeCutOutputWith", "cutDestinationMode", "createCutTemporaryOutput"}, "stat", "defaultCutOutputOperations"},
}

func flagNames(e ast.Expr) []string {
	switch x := e.(type) {
	case *ast.ParenExpr:
		return flagNames(x.X)
	case *ast.BinaryExpr:
		if x.Op == token.OR {
			return append(flagNames(x.X), flagNames(x.Y)...)
		}
	case *ast.SelectorExpr:
		if id, ok := x.X.(*ast.Ident); ok && id.Name == "os" && strings.HasPrefix(x.Sel.Name, "O_") {
			return []string{x.Sel.Name}
		}
	}
	return []string{"OTHER"}
}

// os.Stat / os.Lstat bound to a field of a composite literal inside fn
func tableBinding(f *ast.File, fn, field string) string {
	fd := findFunc(f, fn)
	if fd == nil {
		die("function %s not found", fn)
	}
	res := ""
	ast.Inspect(fd.Body, func(n ast.Node) bool {
		kv, ok := n.(*ast.KeyValueExpr)
		if !ok {
			return true
		}
		if k, ok := kv.Key.(*ast.Ident); ok && k.Name == field {
			res = src(kv.Value)
		}
		return true
	})
	switch res {
	case "os.Stat":
		return "SStat"
	case "os.Lstat":
		return "SLstat"
	}
	die("%s: field %s is bound to `%s`, expected os.Stat or os.Lstat", fn, field, res)
	return ""
}

func publishSites(repo string) string {
	var sb strings.Builder
	sb.WriteString("Definition publish_sites : list (string * pubsite) := [\n")
	for i, ps := range pubSites {
		f, err := parser.ParseFile(fset, filepath.Join(repo, ps.file), nil, 0)
		if err != nil {
			die("%v", err)
		}
		var stats, opens []string
		for _, fn := range ps.funcs {
			fd := findFunc(f, fn)
			if fd == nil || fd.Body == nil {
				die("%s: function %s not found", ps.file, fn)
			}
			ast.Inspect(fd.Body, func(n ast.Node) bool {
				c, ok := n.(*ast.CallExpr)
				if !ok {
					return true
				}
				callee := src(c.Fun)
				switch {
				case callee == "os.Stat":
					stats = append(stats, "SStat")
				case callee == "os.Lstat":
					stats = append(stats, "SLstat")
				case ps.statField != "" && (callee == "ops."+ps.statField || callee == ps.statField):
					stats = append(stats, tableBinding(f, ps.tableFunc, ps.statField))
				case calleeName(c) == "OpenFile" || calleeName(c) == "openExclusiveFn":
					if len(c.Args) < 2 {
						die("%s: %s: OpenFile call without flags", ps.file, fn)
					}
					var q []string
					for _, fl := range flagNames(c.Args[1]) {
						q = append(q, strconv.Quote(fl))
					}
					opens = append(opens, "["+strings.Join(q, "; ")+"]")
				case calleeName(c) == "Open" || calleeName(c) == "Create" || calleeName(c) == "WriteFile" || calleeName(c) == "Truncate":
					if x, ok := c.Fun.(*ast.SelectorExpr); ok {
						if id, ok := x.X.(*ast.Ident); ok && id.Name == "os" {
							opens = append(opens, "["+strconv.Quote("OTHER")+"]")
						}
					}
				}
				return true
			})
		}
		if ps.statField == "stat" {
			// cutDestinationMode: `stat := ops.stat; if stat == nil { stat = os.Stat }; stat(outFile)`
			fd := findFunc(f, "cutDestinationMode")
			mustContain(fd, "stat := ops.stat", "stat = os.Stat", "stat(outFile)")
		}
		sep := ";"
		if i == len(pubSites)-1 {
			sep = ""
		}
		fmt.Fprintf(&sb, "  (* %s: %s *)\n", ps.file, strings.Join(ps.funcs, ", "))
		fmt.Fprintf(&sb, "  (\"%s\", PubSite [%s] [%s])%s\n", ps.name, strings.Join(stats, "; "), strings.Join(opens, "; "), sep)
	}
	sb.WriteString("].\n")
	return sb.String()
}
