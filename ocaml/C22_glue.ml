(* Glue for C22/C23: byte strings are hex; object trees are space separated prefix tokens:
   n | t | f | i<hex> | r<hex> | N<hex> | s<hex> | h<hex> | R<hex>,<hex> | A<count> items.. | D<count> (key<hex> item).. *)
open Model
open Common

let md5 (b : n list) : n list =
  let s = String.init (List.length b) (fun i -> Char.chr (int_of_n (List.nth b i) land 255)) in
  let d = Digest.string s in
  List.init 16 (fun i -> n_of_int (Char.code d.[i]))

(* faster string building for long inputs *)
let md5 (b : n list) : n list =
  let buf = Buffer.create 64 in
  List.iter (fun x -> Buffer.add_char buf (Char.chr (int_of_n x land 255))) b;
  let d = Digest.string (Buffer.contents buf) in
  List.init 16 (fun i -> n_of_int (Char.code d.[i]))

(* block cipher given as a table "in:out,in:out" (hex blocks) *)
let table_fn (t : string) : n list -> n list -> n list =
  let tbl = Hashtbl.create 64 in
  if t <> "" then
    List.iter (fun e -> match String.split_on_char ':' e with
      | [a; b] -> Hashtbl.replace tbl (String.lowercase_ascii a) (bytes_of_hex b)
      | _ -> failwith "bad table") (String.split_on_char ',' t);
  fun _key blk -> match Hashtbl.find_opt tbl (hex_of_bytes blk) with
    | Some v -> v
    | None -> failwith "block-not-in-table"

let ident_fn : n list -> n list -> n list = fun _ b -> b

let res_bytes = function Ok b -> "ok:" ^ hex_of_bytes b | Err -> "err"

(* ---- trees ---- *)
let strip s = String.sub s 1 (String.length s - 1)

let rec parse (toks : string list) : obj * string list =
  match toks with
  | [] -> failwith "eof"
  | t :: rest ->
    (match t.[0] with
     | 'n' -> ONull, rest
     | 't' -> OBool true, rest
     | 'f' -> OBool false, rest
     | 'i' -> OInt (z_of_hex (strip t)), rest
     | 'r' -> OReal (bytes_of_hex (strip t)), rest
     | 'N' -> OName (bytes_of_hex (strip t)), rest
     | 's' -> OStr (bytes_of_hex (strip t)), rest
     | 'h' -> OHex (bytes_of_hex (strip t)), rest
     | 'R' -> (match String.split_on_char ',' (strip t) with
         | [a; b] -> ORef (z_of_hex a, z_of_hex b), rest
         | _ -> failwith "bad ref")
     | 'A' ->
       let n = int_of_string (strip t) in
       let rec go k toks acc = if k = 0 then List.rev acc, toks else
           let o, toks' = parse toks in go (k - 1) toks' (o :: acc) in
       let l, rest' = go n rest [] in OArr l, rest'
     | 'D' ->
       let n = int_of_string (strip t) in
       let l, rest' = parse_entries n rest in ODict l, rest'
     | _ -> failwith ("bad token " ^ t))
and parse_entries n toks =
  let rec go k toks acc = if k = 0 then List.rev acc, toks else
      match toks with
      | key :: toks1 ->
        let o, toks' = parse toks1 in go (k - 1) toks' ((bytes_of_hex (strip key), o) :: acc)
      | [] -> failwith "eof in dict" in
  go n toks []

let toks_of (s : string) = List.filter (fun x -> x <> "") (String.split_on_char ' ' s)
let parse_obj (s : string) : obj = fst (parse (toks_of s))
let parse_dict (s : string) : (n list * obj) list =
  match parse_obj s with ODict d -> d | _ -> failwith "dict expected"

let rec show (o : obj) : string =
  match o with
  | ONull -> "n"
  | OBool true -> "t" | OBool false -> "f"
  | OInt z -> "i" ^ hex_of_z z
  | OReal b -> "r" ^ hex_of_bytes b
  | OName b -> "N" ^ hex_of_bytes b
  | OStr b -> "s" ^ hex_of_bytes b
  | OHex b -> "h" ^ hex_of_bytes b
  | ORef (a, b) -> "R" ^ hex_of_z a ^ "," ^ hex_of_z b
  | OArr l -> String.concat " " (("A" ^ string_of_int (List.length l)) :: List.map show l)
  | ODict d -> show_dict d
and show_dict d =
  String.concat " " (("D" ^ string_of_int (List.length d)) :: List.map (fun (k, v) -> "k" ^ hex_of_bytes k ^ " " ^ show v) d)

let res_obj = function Ok o -> "ok:" ^ show o | Err -> "err"

let cparams_of ~aenc ~adec key aes r obj gen =
  { cp_md5 = md5; cp_aenc = aenc; cp_adec = adec; cp_key = bytes_of_hex key; cp_aes = bool_of_str aes;
    cp_r = z_of_hex r; cp_obj = z_of_hex obj; cp_gen = z_of_hex gen }

let names_of (s : string) : n list list =
  if s = "" then [] else List.map bytes_of_hex (String.split_on_char ',' s)

let show_emitted = function
  | EmTop o -> "top " ^ show o
  | EmTopStream (d, raw) -> "stream " ^ show_dict d ^ " raw=" ^ hex_of_bytes raw
  | EmMember o -> "member " ^ show o

let dispatch fn args = match fn, args with
  | "rc4", [key; data] -> res_bytes (rc4 (bytes_of_hex key) (bytes_of_hex data))
  | "decryptKey", [obj; gen; key; aes] ->
    res_bytes (decryptKey md5 (z_of_hex obj) (z_of_hex gen) (bytes_of_hex key) (bool_of_str aes))
  | "rc4bytes", [data; obj; gen; key; r] ->
    let c = cparams_of ~aenc:ident_fn ~adec:ident_fn key "false" r obj gen in
    res_bytes (encryptBytes c [] (bytes_of_hex data))
  | "rc4stream", [data; obj; gen; key; r] ->
    let c = cparams_of ~aenc:ident_fn ~adec:ident_fn key "false" r obj gen in
    res_bytes (encryptStream c [] (bytes_of_hex data))
  | "aesDecrypt", [ct; table] ->
    (match decryptAES (table_fn table) [] (bytes_of_hex ct) with
     | AOk b -> "ok:" ^ hex_of_bytes b | AShort -> "err:short" | AUnaligned -> "err:unaligned")
  | "aesEncrypt", [pt; iv; table] ->
    "ok:" ^ hex_of_bytes (encryptAES (table_fn table) [] (bytes_of_hex iv) (bytes_of_hex pt))
  (* full string / stream path with AES: per-object key from the model (MD5 via OCaml Digest), block cipher by table *)
  | "aesBytesDec", [ct; obj; gen; key; r; table] ->
    let c = cparams_of ~aenc:ident_fn ~adec:(table_fn table) key "true" r obj gen in
    res_bytes (decryptBytes c (bytes_of_hex ct))
  | "aesStreamDec", [ct; obj; gen; key; r; table] ->
    let c = cparams_of ~aenc:ident_fn ~adec:(table_fn table) key "true" r obj gen in
    res_bytes (decryptStream c (bytes_of_hex ct))
  | "isSig", [tree] -> str_of_bool (is_sig (parse_dict tree))
  | "encryptDeep", [tree; obj; gen; key; r] ->
    let c = cparams_of ~aenc:ident_fn ~adec:ident_fn key "false" r obj gen in
    res_obj (encryptDeep (encryptBytes c []) (parse_obj tree))
  | "decryptDeep", [tree; obj; gen; key; r] ->
    let c = cparams_of ~aenc:ident_fn ~adec:ident_fn key "false" r obj gen in
    res_obj (decryptDeep (decryptBytes c) (parse_obj tree))
  (* writer dispatch (C23): kind = obj | stream | lazy *)
  | "writeIobj", [kind; tree; filters; raw; to_os; obj; gen; key; r; keyed] ->
    let c = cparams_of ~aenc:ident_fn ~adec:ident_fn key "false" r obj gen in
    let io = (match kind with
        | "obj" -> IObj (parse_obj tree)
        | "lazy" -> ILazy (parse_obj tree)
        | "stream" -> IStream (parse_dict tree, names_of filters, bytes_of_hex raw)
        | _ -> failwith "kind") in
    (match write_iobj (bool_of_str keyed) (encryptBytes c []) (encryptStream c []) (bool_of_str to_os) io with
     | Ok e -> "ok:" ^ show_emitted e | Err -> "err")
  (* reader: crypt-filter / empty / unencrypted-metadata decision + stream decryption (RC4) *)
  | "readStream", [tree; filters; raw; emd; obj; gen; key; r] ->
    let c = cparams_of ~aenc:ident_fn ~adec:ident_fn key "false" r obj gen in
    (match read_emitted (decryptBytes c) (decryptStream c) (bool_of_str emd) (names_of filters)
             (EmTopStream (parse_dict tree, bytes_of_hex raw)) with
     | Ok (IStream (_, _, raw')) -> "ok:" ^ hex_of_bytes raw'
     | Ok _ -> "ok:?" | Err -> "err")
  | "permBytes", [p] -> res_bytes (permissionBytes (z_of_hex p))
  | "permsBlock", [p; emd] -> res_bytes (permsBlock (z_of_hex p) (bool_of_str emd))
  | "validatePerms", [block; p; emd] ->
    (match validatePermissions ident_fn [] (bytes_of_hex block) (z_of_hex p) (bool_of_str emd) with
     | Ok b -> "ok:" ^ str_of_bool b | Err -> "err")
  (* passwords R2-R4 *)
  | "pad32", [pw] -> hex_of_bytes (pad32 (bytes_of_hex pw))
  | "encKey", [upw; o; p; id; r; emd; l] ->
    hex_of_bytes (encKey md5 (bytes_of_hex upw) (bytes_of_hex o) (z_of_hex p) (bytes_of_hex id) (z_of_hex r) (bool_of_str emd) (z_of_hex l))
  | "ownerKey", [opw; upw; r; l] -> hex_of_bytes (ownerKey md5 (bytes_of_hex opw) (bytes_of_hex upw) (z_of_hex r) (z_of_hex l))
  | "computeO", [opw; upw; r; l] -> res_bytes (compute_o md5 (bytes_of_hex opw) (bytes_of_hex upw) (z_of_hex r) (z_of_hex l))
  | "computeU", [upw; o; p; id; r; emd; l] ->
    (match compute_u md5 (bytes_of_hex upw) (bytes_of_hex o) (z_of_hex p) (bytes_of_hex id) (z_of_hex r) (bool_of_str emd) (z_of_hex l) with
     | Ok (u, k) -> "ok:" ^ hex_of_bytes u ^ "|" ^ hex_of_bytes k | Err -> "err")
  | "validateUser", [upw; o; u; p; id; r; emd; l] ->
    (match validateUser md5 (bytes_of_hex upw) (bytes_of_hex o) (bytes_of_hex u) (z_of_hex p) (bytes_of_hex id) (z_of_hex r) (bool_of_str emd) (z_of_hex l) with
     | Ok (b, k) -> "ok:" ^ str_of_bool b ^ "|" ^ hex_of_bytes k | Err -> "err")
  | "validateOwner", [opw; upw; o; u; p; id; r; emd; l] ->
    (match validateOwner md5 (bytes_of_hex opw) (bytes_of_hex upw) (bytes_of_hex o) (bytes_of_hex u) (z_of_hex p) (bytes_of_hex id) (z_of_hex r) (bool_of_str emd) (z_of_hex l) with
     | Ok (b, k) -> "ok:" ^ str_of_bool b ^ "|" ^ hex_of_bytes k | Err -> "err")
  | "pReported", [req] -> hex_of_z (p_reported (p_written (z_of_hex req)))
  | _ -> failwith ("unknown function " ^ fn)
let () = main dispatch
