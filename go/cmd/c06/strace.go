// strace streams on the PRODUCTION code path (no operation-table hooks): a child process runs
// font.InstallTrueTypeFontResult / api.InstallFonts / fileutil.SyncDirectory under strace
//   - recording pass: the syscall trace is replayed over the power-loss model;
//   - injection pass: `-e inject=fsync:error=EIO:when=N` fails exactly the fsync of the font directory that
//     follows the publishing rename (N = its per-thread ordinal in the recording pass; the injection is
//     confirmed in the log), open/close succeed.  If the installer still reports success the recorded trace
//     must show the published entry durable; the model predicts an error for a failing fsync_dir step.
package main

import (
	"bufio"
	"errors"
	"fmt"
	"os"
	"os/exec"
	"path/filepath"
	"regexp"
	"strings"

	"github.com/pdfcpu/pdfcpu/pkg/api"
	"github.com/pdfcpu/pdfcpu/pkg/font"
	"verif/vh"
)

// straceChild: kind, args...; exit 0 = the operation reported success, 3 = it reported an error.
func straceChild(a []string) {
	var err error
	switch a[0] {
	case "font":
		_, err = font.InstallTrueTypeFontResult(a[1], a[2])
	case "ttc":
		_, err = font.InstallTrueTypeCollection(a[1], a[2])
	case "ttcres":
		_, err = font.InstallTrueTypeCollectionResults(a[1], a[2])
	case "api":
		font.UserFontDir = a[1]
		err = api.InstallFonts([]string{a[2]})
	case "syncdir":
		err = font.VerifSyncDirectory(a[1])
	default:
		os.Exit(2)
	}
	if err != nil {
		fmt.Fprintln(os.Stderr, err)
		os.Exit(3)
	}
}

var (
	reLine   = regexp.MustCompile(`^(\d+)\s+(.*)$`)
	rePathAt = regexp.MustCompile(`^(mkdirat|openat|unlinkat)\(AT_FDCWD[^,]*, "([^"]+)", ([A-Z_|0-9]+)`)
	reFdCall = regexp.MustCompile(`^(write|fsync|fdatasync|fchmod|close)\(\d+<([^>]+)>`)
	reRen    = regexp.MustCompile(`^renameat2?\(AT_FDCWD[^,]*, "([^"]+)", AT_FDCWD[^,]*, "([^"]+)"`)
)

type sfsync struct {
	tid      string
	path     string
	ordinal  int // per-thread ordinal among fsync calls (1-based)
	ok       bool
	injected bool
	afterPub bool // follows a rename into the font directory
}

type strun struct {
	tr     []mev
	fsyncs []sfsync
	exit   int
	stderr string
}

const straceSet = "trace=openat,write,fsync,fdatasync,fchmod,close,renameat,renameat2,unlinkat,mkdirat"

// straceExec runs the child under strace and converts the syscalls below F into model events.
func straceExec(F string, extra []string, child ...string) (*strun, error) {
	self, err := os.Executable()
	if err != nil {
		return nil, err
	}
	logf := filepath.Join(filepath.Dir(F), fmt.Sprintf("strace-%d.log", baseN))
	baseN++
	args := append([]string{"-f", "-y", "-qq", "-s", "0", "-e", "signal=none", "-e", straceSet}, extra...)
	args = append(args, "-o", logf, self, "--strace-child")
	args = append(args, child...)
	cmd := exec.Command("strace", args...)
	var eb strings.Builder
	cmd.Stderr = &eb
	run := &strun{}
	if err := cmd.Run(); err != nil {
		var ee *exec.ExitError
		if !errors.As(err, &ee) {
			return nil, err
		}
		run.exit = ee.ExitCode()
	}
	run.stderr = eb.String()
	if run.exit != 0 && run.exit != 3 {
		return nil, fmt.Errorf("child exit %d: %s", run.exit, run.stderr)
	}
	f, err := os.Open(logf)
	if err != nil {
		return nil, err
	}
	defer f.Close()
	dirs := map[string]string{F: "1"}
	tmp := map[string]string{}
	wrote := map[string]bool{}
	perTid := map[string]int{}
	published := false
	mp := func(p string) (mpath, bool) {
		d, ok := dirs[filepath.Dir(p)]
		if !ok {
			return mpath{}, false
		}
		if n, ok := tmp[p]; ok {
			return mpath{d, n}, true
		}
		return mpath{d, stripName(filepath.Base(p))}, true
	}
	sc := bufio.NewScanner(f)
	sc.Buffer(make([]byte, 1<<20), 1<<20)
	for sc.Scan() {
		m := reLine.FindStringSubmatch(sc.Text())
		if m == nil {
			continue
		}
		tid, line := m[1], m[2]
		if strings.HasPrefix(line, "<...") {
			continue
		}
		isSync := strings.HasPrefix(line, "fsync(")
		if isSync {
			perTid[tid]++
		}
		failed := strings.Contains(line, "= -1 ")
		res := "ok"
		if failed {
			res = "eio"
		}
		if pm := rePathAt.FindStringSubmatch(line); pm != nil {
			call, p, flags := pm[1], pm[2], pm[3]
			switch call {
			case "mkdirat":
				pd, ok := dirs[filepath.Dir(p)]
				if !ok {
					continue
				}
				e := mev{op: "mkdirtemp", q: mpath{pd, ""}, res: res}
				e.p = e.q
				if !failed {
					dirs[p] = pd + "." + fmt.Sprintf("%x", 0x100+len(dirs))
					e.p = mpath{dirs[p], ""}
				}
				run.tr = append(run.tr, e)
			case "openat":
				if strings.Contains(flags, "O_CREAT") && strings.Contains(flags, "O_EXCL") && !failed {
					if _, ok := dirs[filepath.Dir(p)]; ok {
						tmp[p] = fmt.Sprintf("%x", 0x200+len(tmp))
						q, _ := mp(p)
						run.tr = append(run.tr, mev{op: "createtemp", p: q, q: q, res: "ok"})
					}
				}
			case "unlinkat":
				if strings.Contains(flags, "AT_REMOVEDIR") {
					if d, ok := dirs[p]; ok && !failed {
						run.tr = append(run.tr, mev{op: "removeall", p: mpath{d, ""}, q: mpath{d, ""}, res: "ok"})
					}
				} else if q, ok := mp(p); ok && !failed {
					run.tr = append(run.tr, mev{op: "remove", p: q, q: q, res: "ok"})
				}
			}
			continue
		}
		if rm := reRen.FindStringSubmatch(line); rm != nil {
			a, ok1 := mp(rm[1])
			b, ok2 := mp(rm[2])
			if ok1 && ok2 {
				run.tr = append(run.tr, mev{op: "rename", p: a, q: b, res: res})
				if !failed && b.dir == "1" {
					published = true
				}
			}
			continue
		}
		fm := reFdCall.FindStringSubmatch(line)
		if fm == nil {
			continue
		}
		call, p := fm[1], fm[2]
		if d, isDir := dirs[p]; isDir {
			if call == "fsync" || call == "fdatasync" {
				dp := mpath{d, ""}
				run.tr = append(run.tr, mev{op: "syncdir", p: dp, q: dp, res: res})
				run.fsyncs = append(run.fsyncs, sfsync{tid, p, perTid[tid], !failed, strings.Contains(line, "(INJECTED)"), published})
			}
			continue
		}
		q, ok := mp(p)
		if !ok {
			continue
		}
		switch call {
		case "write":
			e := mev{op: "encode", p: q, q: q, res: res}
			if !wrote[p] { // the whole representation is attributed to the first write
				e.data = tokFor(p)
				wrote[p] = true
			}
			run.tr = append(run.tr, e)
		case "fsync", "fdatasync":
			run.tr = append(run.tr, mev{op: "sync", p: q, q: q, res: res})
			run.fsyncs = append(run.fsyncs, sfsync{tid, p, perTid[tid], !failed, strings.Contains(line, "(INJECTED)"), published})
		case "fchmod":
			run.tr = append(run.tr, mev{op: "chmod", p: q, q: q, res: res})
		case "close":
			run.tr = append(run.tr, mev{op: "close", p: q, q: q, res: "ok"})
		}
	}
	return run, nil
}

// tokFor: the model token of the representation written to a temporary gob file (.n10….gob.tmp-123).
func tokFor(p string) []byte {
	b := strings.TrimPrefix(filepath.Base(p), ".")
	if i := strings.Index(b, ".gob"); i >= 0 {
		b = b[:i]
	}
	var v int
	fmt.Sscanf(stripName(b), "%x", &v)
	return newTok(v)
}

type straceScenario struct {
	kind    string // font | api | ttc | ttcres
	pre     bool
	members []int // nil: a single .ttf with name 0x10; otherwise a synthetic .ttc with these members
}

func (sc straceScenario) names() []int {
	if sc.members == nil {
		return []int{0x10}
	}
	return sc.members
}

// setup makes a fresh font directory and input for one child run.
func (sc straceScenario) setup() (base, F, in string) {
	base = newBase()
	F = filepath.Join(base, "1")
	if sc.members == nil {
		in = filepath.Join(base, "in.ttf")
		wfile(in, patchedRoboto(fontName(0x10)), 0o644)
	} else {
		in = filepath.Join(base, "in.ttc")
		var fonts [][]byte
		for _, p := range sc.members {
			fonts = append(fonts, patchedRoboto(fontName(p)))
		}
		wfile(in, buildTTC(fonts), 0o644)
	}
	if sc.pre {
		for _, p := range sc.names() {
			wfile(filepath.Join(F, fontName(p)+".gob"), oldTok(p), 0o644)
		}
	}
	return
}

func (sc straceScenario) listing() (init map[string]map[string][]byte, old, newRep map[string][]byte, installed []string) {
	init = map[string]map[string][]byte{"1": {}}
	old = map[string][]byte{}
	newRep = map[string][]byte{}
	for _, p := range sc.names() {
		n := fmt.Sprintf("%x", p)
		newRep[n] = newTok(p)
		installed = append(installed, n)
		if sc.pre {
			init["1"][n] = oldTok(p)
			old[n] = oldTok(p)
		}
	}
	return
}

// memberShape: the calls on the file that ends up as F/<name>, followed backwards through its renames to its
// createTemp; a rename is followed by "syncdir" when the directory it moved the file into is fsync'ed before the
// file moves again (same definition as `shape` in ocaml/C07_glue.ml).
func memberShape(tr []mev, target mpath) string {
	cur := target
	seen := map[string]bool{}
	var out []string
	push := func(s ...string) { out = append(append([]string(nil), s...), out...) }
loop:
	for i := len(tr) - 1; i >= 0; i-- {
		e := tr[i]
		if e.res != "ok" {
			continue
		}
		switch {
		case e.op == "syncdir":
			seen[e.p.dir] = true
		case e.op == "rename" && e.q == cur:
			if seen[e.q.dir] {
				push("rename", "syncdir")
			} else {
				push("rename")
			}
			cur = e.p
			seen = map[string]bool{}
		case e.p != cur:
		case e.op == "createtemp":
			push("createtemp")
			break loop
		case e.op == "encode":
			if len(out) == 0 || out[0] != "encode" {
				push("encode")
			}
		case e.op == "chmod" || e.op == "sync":
			push(e.op)
		}
	}
	return strings.Join(out, " ")
}

// shapeCases: K on the per-member syscall shape.
func (sc straceScenario) shapeCases(r *vh.Run, tr []mev) {
	tree := "1="
	if sc.pre {
		var l []string
		for _, p := range sc.names() {
			l = append(l, fmt.Sprintf("%x:1a4:%x", p, oldTok(p)))
		}
		tree += strings.Join(l, ",")
	}
	var ms []string
	for _, p := range sc.names() {
		ms = append(ms, fmt.Sprintf("v:%x:%x:%x", p, p, newTok(p)))
	}
	for _, p := range sc.names() {
		n := fmt.Sprintf("%x", p)
		got := memberShape(tr, mpath{"1", n})
		if sc.kind == "ttc" || sc.kind == "ttcres" {
			// the whole life of the member against the collection model
			r.Case("shape", []string{"collection", "ff", tree, "1", strings.Join(ms, ","), n}, got)
			continue
		}
		// font / api: the per-file protocol (up to the first directory fsync) against the writeGob model
		if i := strings.Index(got, "syncdir"); i >= 0 {
			got = got[:i+len("syncdir")]
		}
		r.Case("shape", []string{"gob", "ff", "1=", "1", n, fmt.Sprintf("%x", newTok(p))}, got)
	}
}

// modelCase: the C06 program model with a failing fsync_dir step at the same place.
func (sc straceScenario) modelCase(inject bool) (fn string, args []string) {
	tree := "1="
	if sc.pre {
		tree = "1=10:1a4:a010"
	}
	f := "-"
	if sc.kind == "font" {
		if inject {
			f = "7" // createTemp encode chmod sync close verify rename | syncDir
		}
		return "goberr", []string{f, "-", "0", "ff", tree, "1", "10", "c010"}
	}
	if inject {
		f = "5" // mkdirTemp mkdirTemp lstat rename syncDir(staging) | syncDir(font dir)
		if sc.pre {
			f = "8" // ... lstat rename(backup) syncDir syncDir rename syncDir(staging) | syncDir(font dir)
		}
	}
	return "fontserr", []string{f, "-", tree, "1", "10:1a4:c010", "", "true", "10", "true"}
}

func haveStrace(r *vh.Run) bool {
	if _, err := exec.LookPath("strace"); err != nil {
		r.Count("strace:unavailable")
		return false
	}
	return true
}

// injectTarget: the first fsync of the font directory after the publishing rename.
func injectTarget(run *strun, F string) (sfsync, bool) {
	for _, s := range run.fsyncs {
		if s.path == F && s.afterPub {
			return s, true
		}
	}
	return sfsync{}, false
}

func straceC07(r *vh.Run) {
	if !haveStrace(r) {
		return
	}
	scs := []straceScenario{{"font", false, nil}, {"font", true, nil}, {"api", false, nil}}
	if r.Thorough() {
		scs = append(scs, straceScenario{"api", true, nil})
	}
	scs = append(scs, straceScenario{"ttc", false, []int{0x10, 0x11}}, straceScenario{"ttcres", true, []int{0x10, 0x11}},
		straceScenario{"api", false, []int{0x10, 0x11}})
	if r.Thorough() {
		scs = append(scs, straceScenario{"ttc", true, []int{0x10, 0x11, 0x12}}, straceScenario{"ttcres", false, []int{0x10}})
	}
	for _, sc := range scs {
		// recording pass
		_, F, in := sc.setup()
		rec, err := straceExec(F, nil, sc.kind, F, in)
		if err != nil || rec.exit != 0 || len(rec.tr) < 4 {
			r.Count("strace:failed")
			r.Sample(map[string]any{"strace_error": fmt.Sprint(err), "scenario": fmt.Sprint(sc)})
			continue
		}
		var kinds []string
		for _, e := range rec.tr {
			if len(kinds) == 0 || kinds[len(kinds)-1] != e.op {
				kinds = append(kinds, e.op)
			}
		}
		r.Sample(map[string]any{"strace_syscall_order_" + sc.kind: strings.Join(kinds, " ")})
		init, old, newRep, installed := sc.listing()
		judge(r, "strace-"+sc.kind, map[string]any{"pre": sc.pre, "members": sc.names()}, rec.tr, init, old, newRep, true, installed)
		sc.shapeCases(r, rec.tr)
		r.Count("class:strace-record")
		if sc.members != nil {
			continue // collections: recording pass only
		}
		fn, args := sc.modelCase(false)
		r.Case(fn, args, "e0")
		tgt, ok := injectTarget(rec, F)
		if !ok {
			r.OracleFail("c07:strace-"+sc.kind+":no-directory-fsync-after-publication", map[string]any{"scenario": fmt.Sprint(sc)},
				"the production path never fsyncs the font directory after the publishing rename")
			continue
		}
		// injection pass: fail exactly that fsync
		_, F2, in2 := sc.setup()
		inj, err := straceExec(F2, []string{"-e", fmt.Sprintf("inject=fsync:error=EIO:when=%d", tgt.ordinal)}, sc.kind, F2, in2)
		if err != nil {
			r.Count("strace:failed")
			continue
		}
		hit := 0
		onDir := false
		for _, s := range inj.fsyncs {
			if s.injected {
				hit++
				onDir = s.path == F2 && s.afterPub
			}
		}
		if hit != 1 || !onDir {
			// the call order moved between the passes: fall back to a path-restricted injection (no full trace)
			r.Count("strace:inject-miss")
			_, F3, in3 := sc.setup()
			fb, err := straceExec(F3, []string{"-P", F3, "-e", "inject=fsync:error=EIO"}, sc.kind, F3, in3)
			if err == nil && fb.exit == 0 {
				r.OracleFail("c07:strace-"+sc.kind+":success-despite-failed-directory-fsync", map[string]any{"scenario": fmt.Sprint(sc), "mode": "-P"},
					"every fsync of the font directory failed (EIO) and the installer reported success")
			} else if err == nil {
				r.OracleOK()
			}
			continue
		}
		init, old, newRep, installed = sc.listing()
		judge(r, "strace-inject-"+sc.kind, map[string]any{"pre": sc.pre, "failed_fsync": "font directory, after the publishing rename"},
			inj.tr, init, old, newRep, inj.exit == 0, installed)
		fn, args = sc.modelCase(true)
		r.Case(fn, args, "e"+b01(inj.exit != 0))
		r.Count("class:strace-inject")
	}
	// fileutil.SyncDirectory itself
	base := newBase()
	D := filepath.Join(base, "1")
	self, _ := os.Executable()
	if out, err := exec.Command(self, "--strace-child", "syncdir", D, "-").CombinedOutput(); err != nil {
		r.OracleFail("c07:syncdirectory:error-on-healthy-directory", map[string]any{"dir": "fresh directory"}, string(out))
	} else {
		r.OracleOK()
	}
	logf := filepath.Join(base, "sd.log")
	cmd := exec.Command("strace", "-f", "-qq", "-e", "signal=none", "-P", D, "-e", "trace=fsync", "-e", "inject=fsync:error=EIO", "-o", logf,
		self, "--strace-child", "syncdir", D, "-")
	out, err := cmd.CombinedOutput()
	lb, _ := os.ReadFile(logf)
	switch {
	case !strings.Contains(string(lb), "(INJECTED)"):
		r.Count("strace:inject-miss")
	case err == nil:
		r.OracleFail("c07:syncdirectory:swallows-fsync-error", map[string]any{"dir": "fresh directory", "injected": "fsync(dir) = EIO, open/close succeed"},
			"fileutil.SyncDirectory returned nil although fsync of the directory failed: "+string(out))
	default:
		r.OracleOK()
		r.Count("class:syncdirectory-inject")
	}
}

// straceC06: all-or-nothing of the production api.InstallFonts / font.InstallTrueTypeFont when the directory
// fsync after the publishing rename fails at syscall level.
func straceC06(r *vh.Run) {
	if !haveStrace(r) {
		return
	}
	for _, sc := range []straceScenario{{"api", false, nil}, {"api", true, nil}, {"font", true, nil}} {
		_, F, in := sc.setup()
		rec, err := straceExec(F, nil, sc.kind, F, in)
		if err != nil || rec.exit != 0 {
			r.Count("strace:failed")
			continue
		}
		tgt, ok := injectTarget(rec, F)
		if !ok {
			r.Count("strace:no-target")
			continue
		}
		base2, F2, in2 := sc.setup()
		rc := newRec(base2)
		rc.canon = gobCanon(rc)
		before := rc.snapshot()
		inj, err := straceExec(F2, []string{"-e", fmt.Sprintf("inject=fsync:error=EIO:when=%d", tgt.ordinal)}, sc.kind, F2, in2)
		if err != nil {
			r.Count("strace:failed")
			continue
		}
		hit := false
		for _, s := range inj.fsyncs {
			hit = hit || (s.injected && s.path == F2)
		}
		if !hit {
			r.Count("strace:inject-miss")
			continue
		}
		for p := range globTemps(F2) {
			rc.tdirs[p] = len(rc.tdirs) + 1
		}
		var cerr error
		if inj.exit != 0 {
			cerr = errors.New(strings.TrimSpace(inj.stderr))
		}
		oracle(r, outcome{fam: "strace-inject-" + sc.kind, input: map[string]any{"pre": sc.pre, "failed": "fsync(font dir) after the publishing rename"},
			err: cerr, causes: 1, wrapper: true, before: before, after: rc.snapshot(),
			want: map[string]string{"10": "1a4:c010"}, rec: rc, pubError: sc.kind == "font"})
		r.Count("class:strace-inject")
	}
}
