(* C24 — CODE model: the standard security handler computations of pdfcpu, transcribed line by line from
   pkg/pdfcpu/crypto.go (encKey, key, o, u, validateUserPassword, validateOwnerPassword, passwordHash*Equal,
   validationSalt, keySalt, hashRev6, validate*AES256*, calcOAndUAES256*, permissionBytes, writePermissions,
   validatePermissions).  MD5 and RC4 are the concrete functions of Prims.v; SHA-2, AES and the password
   preparation of the reader (processInput) are Section variables.  No proofs in this file. *)
From Coq Require Import NArith ZArith List Bool.
Import ListNotations.
From PV Require Import C24.Prims.
Open Scope N_scope.

(* crypto.go: var pad *)
Definition pad : bytes :=
  [0x28; 0xBF; 0x4E; 0x5E; 0x4E; 0x75; 0x8A; 0x41; 0x64; 0x00; 0x4E; 0x56; 0xFF; 0xFA; 0x01; 0x08;
   0x2E; 0x2E; 0x00; 0xB6; 0xD0; 0x68; 0x3E; 0x80; 0x2F; 0x0C; 0xA9; 0xFE; 0x64; 0x53; 0x69; 0x7A].

(* model.Enc *)
Record enc := mkEnc {
  eO : bytes; eU : bytes; eOE : bytes; eUE : bytes; ePerms : bytes;
  eL : N; eP : Z; eR : N; eEmd : bool; eID : bytes
}.

(* if len(pw) >= 32 { pw = pw[:32] } else { pw = append(pw, pad[:32-len(pw)]...) } *)
Definition c_pad_pw (pw : bytes) : bytes :=
  if 32 <=? len pw then take 32 pw else pw ++ take (32 - len pw) pad.

(* var q = uint32(e.P); []byte{byte(q), byte(q >> 8), byte(q >> 16), byte(q >> 24)} *)
Definition c_p_bytes (p : Z) : bytes :=
  let q := Z.to_N (p mod 4294967296)%Z in
  [N.land q 255; N.land (N.shiftr q 8) 255; N.land (N.shiftr q 16) 255; N.land (N.shiftr q 24) 255].

(* for range 50 { h.Reset(); h.Write(key[:n]); key = h.Sum(nil) } *)
Fixpoint c_rehash (count : nat) (n : N) (key : bytes) : bytes :=
  match count with
  | O => key
  | S c => c_rehash c n (md5 (take n key))
  end.

(* func encKey(userpw string, e *model.Enc) *)
Definition c_encKey (userpw : bytes) (e : enc) : bytes :=
  let pw := c_pad_pw userpw in                                                     (* 2a *)
  let h := pw ++ eO e ++ c_p_bytes (eP e) ++ eID e in                              (* 2b-2e *)
  let h := if (eR e =? 4) && negb (eEmd e) then h ++ [0xff; 0xff; 0xff; 0xff] else h in   (* 2f *)
  let key := md5 h in                                                              (* 2g *)
  let key := if 3 <=? eR e then c_rehash 50 (eL e / 8) key else key in             (* 2h *)
  if 3 <=? eR e then take (eL e / 8) key else take 5 key.                          (* 2i *)

(* func key(ownerpw, userpw string, r, l int): in the 3c loop the whole 16-byte digest is hashed again *)
Definition c_key (ownerpw userpw : bytes) (r l : N) : bytes :=
  let pw := if len ownerpw =? 0 then userpw else ownerpw in
  let pw := c_pad_pw pw in
  let key := md5 pw in
  let key := if 3 <=? r then c_rehash 50 16 key else key in
  if 3 <=? r then take (l / 8) key else take 5 key.

(* for j := range keynew { keynew[j] ^= byte(i) } *)
Definition c_xor_key (key : bytes) (i : N) : bytes := map (fun b => N.lxor b i) key.

(* for i := 1; i <= 19; i++ { ... c.XORKeyStream(o, o) } *)
Definition c_rc4_19 (key data : bytes) : bytes :=
  fold_left (fun acc i => rc4 (c_xor_key key i) acc) (map N.of_nat (seq 1 19)) data.

(* func o(ctx): ctx.OwnerPW, ctx.UserPW, e.R, e.L *)
Definition c_o (ownerpw userpw : bytes) (r l : N) : bytes :=
  let key := c_key ownerpw userpw r l in
  let o := c_pad_pw userpw in
  let o := rc4 key o in
  if 3 <=? r then c_rc4_19 key o else o.

(* func u(ctx): returns (u, key) *)
Definition c_u (userpw : bytes) (e : enc) : bytes * bytes :=
  let key := c_encKey userpw e in
  let u :=
    if eR e =? 2 then rc4 key pad
    else if (eR e =? 3) || (eR e =? 4) then c_rc4_19 key (rc4 key (md5 (pad ++ eID e)))
    else [] in
  let u := if len u <? 32 then u ++ take (32 - len u) (zeros 32) else u in
  (u, key).

(* subtle.ConstantTimeCompare(a, b) == 1 *)
Definition c_hash_equal (a b : bytes) : bool := beq a b.
(* passwordHashPrefixEqual(b, prefix) *)
Definition c_hash_prefix_equal (b prefix : bytes) : bool :=
  if len b <? len prefix then false else c_hash_equal (take (len prefix) b) prefix.

(* validateUserPassword for R 2,3,4: (ok, key) *)
Definition c_validate_user_rc4 (userpw : bytes) (e : enc) : bool * bytes :=
  let '(u, key) := c_u userpw e in
  let ok :=
    if eR e =? 2 then c_hash_equal (eU e) u
    else if (eR e =? 3) || (eR e =? 4) then c_hash_prefix_equal (eU e) (take 16 u)
    else false in
  (ok, key).

(* for i := 19; i >= 0; i-- { ... c.XORKeyStream(upw, upw) } *)
Definition c_rc4_19_down (key data : bytes) : bytes :=
  fold_left (fun acc i => rc4 (c_xor_key key i) acc) (rev (map N.of_nat (seq 0 20))) data.

(* validateOwnerPassword for R 2,3,4 *)
Definition c_validate_owner_rc4 (ownerpw userpw : bytes) (e : enc) : bool * bytes :=
  let key := c_key ownerpw userpw (eR e) (eL e) in
  let upw := eO e in
  let upw :=
    if eR e =? 2 then rc4 key upw
    else if (eR e =? 3) || (eR e =? 4) then c_rc4_19_down key upw
    else upw in
  c_validate_user_rc4 upw e.

(* ------------------------------------------------------------------ R 5 / R 6 *)
Definition c_validation_salt (bb : bytes) : bytes := take 8 (drop 32 bb).   (* bb[32:40] *)
Definition c_key_salt (bb : bytes) : bytes := take 8 (drop 40 bb).          (* bb[40:48] *)

(* big-endian value of a byte string: new(big.Int).SetBytes *)
Definition be_value (b : bytes) : N := fold_left (fun acc x => acc * 256 + x) b 0.

(* permissionBytes(p): p must fit in 32 signed bits; low 4 bytes of uint64(p), little endian *)
Definition c_permission_bytes (p : Z) : option bytes :=
  if ((-2147483648 <=? p) && (p <=? 2147483647))%Z then Some (c_p_bytes p) else None.

Inductive vres := VOk | VNo | VErr.

Section SHA_AES.
Variable sha256 sha384 sha512 : bytes -> bytes.
(* cipher.NewCBCEncrypter(aes.NewCipher(key), iv).CryptBlocks: no padding *)
Variable aes_cbc_enc : bytes -> bytes -> bytes -> bytes.   (* key iv data *)
Variable aes_cbc_dec : bytes -> bytes -> bytes -> bytes.
(* cb.Encrypt / cb.Decrypt on one block *)
Variable aes_ecb_enc : bytes -> bytes -> bytes.            (* key block *)
Variable aes_ecb_dec : bytes -> bytes -> bytes.
(* processInput *)
Variable prep : bytes -> option bytes.

Definition zero_iv : bytes := zeros 16.

Fixpoint repeat_bytes (n : nat) (b : bytes) : bytes :=
  match n with O => [] | S n' => b ++ repeat_bytes n' b end.

Definition last_byte (e : bytes) : N := last e 0.

(* one pass of the loop body of hashRev6: (k, e) *)
Definition c_hash6_round (pw u k : bytes) : bytes * bytes :=
  let bb := pw ++ k ++ (if 0 <? len u then u else []) in
  let k1 := repeat_bytes 64 bb in
  let e := aes_cbc_enc (take 16 k) (take 16 (drop 16 k)) k1 in
  let r := be_value (take 16 e) mod 3 in
  let k' := match r with 0 => sha256 e | 1 => sha384 e | _ => sha512 e end in
  (k', e).

(* for ; j < 64 || e[len(e)-1] > byte(j-32); j++ { ... }   fuel runs out => None *)
Fixpoint c_hash6_loop (fuel : nat) (j : N) (pw u k e : bytes) : option bytes :=
  if (j <? 64) || (N.land (j - 32) 255 <? last_byte e) then
    match fuel with
    | O => None
    | S f => let '(k', e') := c_hash6_round pw u k in c_hash6_loop f (j + 1) pw u k' e'
    end
  else Some (take 32 k).

Definition hash6_fuel : nat := 300.

(* func hashRev6(input, pw, U []byte) *)
Definition c_hashRev6 (input pw u : bytes) : option bytes :=
  c_hash6_loop hash6_fuel 0 pw u (sha256 input) [].

(* the hash of revision r: R5 plain SHA-256 (pdfcpu's *AES256 functions), R6 hashRev6 *)
Definition c_hash (r : N) (input pw u : bytes) : option bytes :=
  if r =? 6 then c_hashRev6 input pw u else Some (sha256 input).

Definition c_trunc127 (pw : bytes) : bytes := if 127 <? len pw then take 127 pw else pw.

(* validateUserPasswordAES256 / validateUserPasswordAES256Rev6: (result, file key) *)
Definition c_validate_user_aes (userpw : bytes) (e : enc) : vres * bytes :=
  if (eR e =? 6) && negb (len (eUE e) =? 32) then (VErr, [])
  else
  match prep userpw with
  | None => (VErr, [])
  | Some upw =>
    let upw := c_trunc127 upw in
    match c_hash (eR e) (upw ++ c_validation_salt (eU e)) upw [] with
    | None => (VErr, [])
    | Some s =>
      if negb (c_hash_prefix_equal (eU e) s) then (VNo, [])
      else match c_hash (eR e) (upw ++ c_key_salt (eU e)) upw [] with
           | None => (VErr, [])
           | Some key => (VOk, aes_cbc_dec key zero_iv (eUE e))
           end
    end
  end.

(* validateOwnerPasswordAES256 / validateOwnerPasswordAES256Rev6 *)
Definition c_validate_owner_aes (ownerpw : bytes) (e : enc) : vres * bytes :=
  if len ownerpw =? 0 then (VNo, [])
  else
  match prep ownerpw with
  | None => (VErr, [])
  | Some opw =>
    let opw := c_trunc127 opw in
    match c_hash (eR e) (opw ++ c_validation_salt (eO e) ++ eU e) opw (eU e) with
    | None => (VErr, [])
    | Some s =>
      if negb (c_hash_prefix_equal (eO e) s) then (VNo, [])
      else match c_hash (eR e) (opw ++ c_key_salt (eO e) ++ eU e) opw (eU e) with
           | None => (VErr, [])
           | Some key => (VOk, aes_cbc_dec key zero_iv (eOE e))
           end
    end
  end.

(* preparedPasswordAES256 (since dd3e7ff0): processInput, then truncation to 127 bytes; None = its error *)
Definition c_prepared_password (pw : bytes) : option bytes := option_map c_trunc127 (prep pw).

(* calcOAndUAES256 / calcOAndUAES256Rev6 with the random values made explicit:
   ru, ro = the two 16-byte random strings (validation salt ++ key salt), fk = the random file key.
   upw, err := preparedPasswordAES256(ctx.UserPW) ... opw, err := preparedPasswordAES256(ctx.OwnerPW): an error of the
   preparation or of hashRev6 aborts (None).  Result: (U, O, UE, OE). *)
Definition c_calc_ou_aes (r : N) (userpw ownerpw ru ro fk : bytes) : option (bytes * bytes * bytes * bytes) :=
  let u0 := zeros 32 ++ ru in
  match c_prepared_password userpw with None => None | Some upw =>
  match c_hash r (upw ++ c_validation_salt u0) upw [] with None => None | Some hu =>
  let U := hu ++ ru in
  let o0 := zeros 32 ++ ro in
  match c_prepared_password ownerpw with None => None | Some opw =>
  match c_hash r ((opw ++ c_validation_salt o0) ++ U) opw U with None => None | Some ho =>
  let O := ho ++ ro in
  match c_hash r (upw ++ c_key_salt u0) upw [] with None => None | Some ku =>
  let UE := aes_cbc_enc ku zero_iv fk in
  match c_hash r ((opw ++ c_key_salt o0) ++ U) opw U with None => None | Some ko =>
  let OE := aes_cbc_enc ko zero_iv fk in
  Some (U, O, UE, OE)
  end end end end end end.

(* writePermissions: the 16-byte block before encryption; bytes 12..15 stay zero *)
Definition c_perms_block (p : Z) (emd : bool) : option bytes :=
  match c_permission_bytes p with
  | None => None
  | Some pb => Some (pb ++ [0xFF; 0xFF; 0xFF; 0xFF] ++ [if emd then 84 else 70] ++ [97; 100; 98] ++ zeros 4)
  end.

Definition c_write_perms (p : Z) (emd : bool) (fk : bytes) : option bytes :=
  option_map (aes_ecb_enc fk) (c_perms_block p emd).

(* validatePermissions for R 5/6 *)
Definition c_validate_perms (e : enc) (fk : bytes) : vres :=
  let p := aes_ecb_dec fk (ePerms e) in
  if negb (beq (take 3 (drop 9 p)) [97; 100; 98]) then VNo
  else if negb (nthN p 8 =? 84) && negb (nthN p 8 =? 70) then VNo
  else if negb (Bool.eqb (nthN p 8 =? 84) (eEmd e)) then VNo
  else match c_permission_bytes (eP e) with
       | None => VErr
       | Some expected => if beq (take 4 p) expected then VOk else VNo
       end.

End SHA_AES.
