package main

import (
	"go/ast"
	"go/token"
)

// createStagedFile (pkg/pdfcpu/io.go): the error paths after the staging file exists.
//
//	f, err := openStagedFile(dir, prefix); if err != nil { return nil, err }
//	if fi, err := os.Stat(path); err == nil {
//	    if err := f.Chmod(...); err != nil { name := f.Name(); return nil, errors.Join(err, f.Close(), os.Remove(name)) }
//	}
//	return f, nil
//
// Checked (fail otherwise):
//   - the staging file is the identifier assigned from openStagedFile(...) (call it f);
//   - every return statement after that assignment which does not return f as its first result (an error
//     return) contains both a call f.Close() and a call os.Remove(X), where X is `f.Name()` or an identifier
//     declared in the same block by `X := f.Name()`;
//   - os.Remove is never applied to anything else in this function (in particular never to the
//     destination parameter), and the function has no defer.
//
// Row: FRow "pdfcpu" "createStagedFile" HStagingCtor DRemovesStaging "".
func (g *gen) stagedFileRow() row {
	name := "createStagedFile"
	fn := g.pdf[name]
	if fn == nil {
		fail(name, "not declared in pkg/pdfcpu/io.go")
	}
	fvar := ""
	openIdx := -1
	for i, s := range fn.Body.List {
		if as, ok := s.(*ast.AssignStmt); ok && len(as.Rhs) == 1 {
			if c, ok := as.Rhs[0].(*ast.CallExpr); ok && identCall(c) == "openStagedFile" {
				if id, ok := as.Lhs[0].(*ast.Ident); ok && openIdx < 0 {
					fvar, openIdx = id.Name, i
				} else {
					fail(name, "more than one openStagedFile call / unexpected assignment at %s", g.at(as))
				}
			}
		}
	}
	if openIdx < 0 {
		fail(name, "no top-level `f, err := openStagedFile(...)`")
	}
	isFName := func(e ast.Expr) bool {
		c, ok := e.(*ast.CallExpr)
		return ok && len(c.Args) == 0 && selCall(c, fvar, "Name")
	}
	ast.Inspect(fn.Body, func(n ast.Node) bool {
		if d, ok := n.(*ast.DeferStmt); ok {
			fail(name, "contains a defer at %s", g.at(d))
		}
		return true
	})
	// identifiers bound to f.Name(), per block
	var walk func(list []ast.Stmt, names map[string]bool, afterOpen bool)
	checkRemoves := func(n ast.Node, names map[string]bool) int {
		cnt := 0
		for _, c := range calls(n, false, func(c *ast.CallExpr) bool { return selCall(c, "os", "Remove") }) {
			if len(c.Args) != 1 {
				fail(name, "os.Remove with %d arguments at %s", len(c.Args), g.at(c))
			}
			if id, ok := c.Args[0].(*ast.Ident); ok && names[id.Name] {
				cnt++
				continue
			}
			if isFName(c.Args[0]) {
				cnt++
				continue
			}
			fail(name, "os.Remove at %s is applied to `%s`, which is not the staging file's name (%s.Name() or an identifier bound to it in the same block): an error path must remove the STAGING file, never the destination",
				g.at(c), exprString(g.fset, c.Args[0]), fvar)
		}
		return cnt
	}
	walk = func(list []ast.Stmt, outer map[string]bool, afterOpen bool) {
		names := map[string]bool{}
		for k, v := range outer {
			names[k] = v
		}
		for _, s := range list {
			switch s := s.(type) {
			case *ast.AssignStmt:
				if s.Tok == token.DEFINE && len(s.Lhs) == 1 && len(s.Rhs) == 1 && isFName(s.Rhs[0]) {
					if id, ok := s.Lhs[0].(*ast.Ident); ok {
						names[id.Name] = true
						continue
					}
				}
				for _, l := range s.Lhs {
					if id, ok := l.(*ast.Ident); ok && names[id.Name] {
						fail(name, "%s (bound to %s.Name()) is reassigned at %s", id.Name, fvar, g.at(s))
					}
				}
				checkRemoves(s, names)
			case *ast.ReturnStmt:
				nrm := checkRemoves(s, names)
				if !afterOpen || len(s.Results) == 0 {
					continue
				}
				if isIdent(s.Results[0], fvar) {
					continue // success return
				}
				if nrm == 0 {
					fail(name, "the error return at %s (after the staging file was created) does not remove it with os.Remove(%s.Name())", g.at(s), fvar)
				}
				if !hasCall(s, func(c *ast.CallExpr) bool { return len(c.Args) == 0 && selCall(c, fvar, "Close") }) {
					fail(name, "the error return at %s does not close the staging file", g.at(s))
				}
			case *ast.IfStmt:
				if s.Init != nil {
					checkRemoves(s.Init, names)
				}
				walk(s.Body.List, names, afterOpen)
				if s.Else != nil {
					if b, ok := s.Else.(*ast.BlockStmt); ok {
						walk(b.List, names, afterOpen)
					} else {
						walk([]ast.Stmt{s.Else}, names, afterOpen)
					}
				}
			case *ast.BlockStmt:
				walk(s.List, names, afterOpen)
			case *ast.ExprStmt, *ast.DeclStmt:
				checkRemoves(s, names)
			default:
				fail(name, "statement at %s is not understood", g.at(s))
			}
		}
	}
	// the statement right after the open is its own error check (nothing to remove yet)
	if openIdx+1 >= len(fn.Body.List) {
		fail(name, "nothing follows openStagedFile")
	}
	if ifs, ok := fn.Body.List[openIdx+1].(*ast.IfStmt); !ok || !errNotNil(ifs.Cond) {
		fail(name, "openStagedFile is not followed by `if err != nil { return nil, err }`")
	}
	walk(fn.Body.List[:openIdx+2], nil, false)
	walk(fn.Body.List[openIdx+2:], nil, true)
	if n := len(calls(fn.Body, false, func(c *ast.CallExpr) bool { return selCall(c, "os", "Remove") })); n == 0 {
		fail(name, "has no os.Remove of the staging file on its error path")
	}
	return row{"pdfcpu", name, "HStagingCtor", "DRemovesStaging", ""}
}
