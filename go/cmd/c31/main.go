// Harness for C31: page selections / page collections of pkg/api/selectPages.go.
//
// Correspondence streams (model functions in coq/C31/Model.v, Spec.v):
//
//	parse  s            api.ParsePageSelection            -> err | ok:<tokens>
//	syn    s            reference recogniser of the syntax (this file) vs Spec.in_syntax
//	sel    n toks ens   api.PagesForPageSelection         -> err | ok:nil | ok:k=t,k=f,...
//	rem    n toks       api.RemainingPagesForPageRemoval
//	col    n toks       api.PagesForPageCollection        -> err:token | err:nopage | ok:list
//
// Oracles evaluated on the real functions:
//
//	every selected / collected page is within 1..n;
//	for expressions built from the grammar the result equals the left-to-right term semantics
//	(recomputed here from the structured terms, independently of the Coq model);
//	a string outside the syntax is rejected, a string of the syntax is accepted and split at commas.
package main

import (
	"fmt"
	"os"
	"regexp"
	"sort"
	"strconv"
	"strings"
	"time"

	"github.com/pdfcpu/pdfcpu/pkg/api"
	"verif/vh"
)

// ---------------------------------------------------------------- grammar

type term struct {
	kind string // even odd # -# #- #-# l l-# l-#- -l -l-# #-l #-l-#
	neg  string // "" "!" "n"
	a, b string
}

func (t term) String() string {
	switch t.kind {
	case "even", "odd":
		return t.kind
	}
	var v string
	switch t.kind {
	case "#":
		v = t.a
	case "-#":
		v = "-" + t.a
	case "#-":
		v = t.a + "-"
	case "#-#":
		v = t.a + "-" + t.b
	case "l":
		v = "l"
	case "l-#":
		v = "l-" + t.a
	case "l-#-":
		v = "l-" + t.a + "-"
	case "-l":
		v = "-l"
	case "-l-#":
		v = "-l-" + t.a
	case "#-l":
		v = t.a + "-l"
	case "#-l-#":
		v = t.a + "-l-" + t.b
	}
	return t.neg + v
}

const big20 = "99999999999999999999"

// value of a decimal number; ok=false when it does not fit an int64
func num(s string) (int64, bool) {
	v, err := strconv.ParseInt(s, 10, 64)
	return v, err == nil
}

// reference semantics of a range term: (lo, hi) already intersected with 1..n, and whether
// evaluating the term is an error (a number that has to be read is too large).
func (t term) bounds(n int64) (lo, hi int64, fails bool) {
	a, aok := num(t.a)
	b, bok := num(t.b)
	switch t.kind {
	case "#":
		lo, hi, fails = a, a, !aok
	case "-#":
		lo, hi, fails = 1, a, !aok
	case "#-", "#-l":
		lo, hi, fails = a, n, !aok
	case "#-#":
		lo, hi, fails = a, b, !aok || (a <= n && !bok)
	case "l":
		lo, hi = n, n
	case "l-#":
		lo, hi, fails = n-a, n-a, !aok
	case "l-#-":
		lo, hi, fails = n-a, n, !aok
		if n-a < 1 {
			lo, hi = 1, 0
		}
	case "-l":
		lo, hi = 1, n
	case "-l-#":
		lo, hi, fails = 1, n-a, !aok
	case "#-l-#":
		lo, hi, fails = a, n-b, !aok || (a <= n && !bok)
	}
	if lo < 1 {
		lo = 1
	}
	if hi > n {
		hi = n
	}
	return
}

// reference evaluation of an expression (list of terms): decision per page and collected list
func reference(n int64, e []term) (sel map[int]bool, col []int, fails bool) {
	sel = map[int]bool{}
	col = []int{}
	for _, t := range e {
		switch t.kind {
		case "even", "odd":
			for p := int64(1); p <= n; p++ {
				if (p%2 == 0) == (t.kind == "even") {
					if _, ok := sel[int(p)]; !ok {
						sel[int(p)] = true
					}
					col = append(col, int(p))
				}
			}
			continue
		}
		lo, hi, f := t.bounds(n)
		if f {
			return nil, nil, true
		}
		for p := lo; p <= hi; p++ {
			sel[int(p)] = t.neg == ""
		}
		if t.neg == "" {
			for p := lo; p <= hi; p++ {
				col = append(col, int(p))
			}
		} else {
			k := col[:0:0]
			for _, q := range col {
				if !(lo <= int64(q) && int64(q) <= hi) {
					k = append(k, q)
				}
			}
			col = k
			if col == nil {
				col = []int{}
			}
		}
	}
	return
}

const refTerm = `(?:even|odd|[!n]?(?:-\d+|\d+(?:-(?:\d+)?)?|(?:\d+)?-l(?:-\d+)?|l(?:-\d+-?)?))`

var refRE = regexp.MustCompile(`^` + refTerm + `(?:,` + refTerm + `)*$`)

func refSyntax(s string) bool { return refRE.MatchString(s) }

// ---------------------------------------------------------------- encoding

func encToks(toks []string) string {
	if len(toks) == 0 {
		return "nil"
	}
	h := make([]string, len(toks))
	for i, t := range toks {
		h[i] = vh.Hex([]byte(t))
	}
	return strings.Join(h, ",")
}

func encMap(m map[int]bool) string {
	if m == nil {
		return "ok:nil"
	}
	ks := make([]int, 0, len(m))
	for k := range m {
		ks = append(ks, k)
	}
	sort.Ints(ks)
	p := make([]string, len(ks))
	for i, k := range ks {
		if m[k] {
			p[i] = vh.Int(int64(k)) + "=t"
		} else {
			p[i] = vh.Int(int64(k)) + "=f"
		}
	}
	return "ok:" + strings.Join(p, ",")
}

// ---------------------------------------------------------------- implementation calls (panics are results)

type out struct {
	toks     []string
	parseErr error
	sel      map[int]bool
	selErr   error
	col      []int
	colErr   error
	panicked string
}

// every call of the implementation runs under a watchdog: a change that removes a bound can turn a
// term such as 1-9223372036854775807 into an endless loop; that is reported as a failing input.
func watch(what string, input any, f func() out) out {
	ch := make(chan out, 1)
	go func() {
		var o out
		defer func() {
			if x := recover(); x != nil {
				o.panicked = fmt.Sprint(x)
			}
			ch <- o
		}()
		o = f()
	}()
	select {
	case o := <-ch:
		return o
	case <-time.After(2 * time.Second):
		fail("hang", input, what+" did not return within 2 s")
		r.Finish()
		os.Exit(0)
	}
	return out{}
}

func implParse(s string) out {
	return watch("ParsePageSelection", map[string]any{"expr": s}, func() (o out) {
		o.toks, o.parseErr = api.ParsePageSelection(s)
		return
	})
}

func implSel(n int, toks []string, ens bool) out {
	return watch("PagesForPageSelection", map[string]any{"expr": strings.Join(toks, ","), "pageCount": n}, func() (o out) {
		m, err := api.PagesForPageSelection(n, toks, ens, false)
		o.sel, o.selErr = map[int]bool(m), err
		return
	})
}

func implRem(n int, toks []string) out {
	return watch("RemainingPagesForPageRemoval", map[string]any{"expr": strings.Join(toks, ","), "pageCount": n}, func() (o out) {
		m, err := api.RemainingPagesForPageRemoval(n, toks, false)
		o.sel, o.selErr = map[int]bool(m), err
		return
	})
}

func implCol(n int, toks []string) out {
	return watch("PagesForPageCollection", map[string]any{"expr": strings.Join(toks, ","), "pageCount": n}, func() (o out) {
		o.col, o.colErr = api.PagesForPageCollection(n, toks)
		return
	})
}

func selResult(o out) string {
	if o.panicked != "" {
		return "panic"
	}
	if o.selErr != nil {
		return "err"
	}
	return encMap(o.sel)
}

func colResult(o out) string {
	if o.panicked != "" {
		return "panic"
	}
	if o.colErr != nil {
		if o.colErr.Error() == "no page selected" {
			return "err:nopage"
		}
		return "err:token"
	}
	return "ok:" + vh.Ints(o.col)
}

// a junk token such as -l--99999 makes the real code (and the model) loop over 1..n+99999
func dangerous(toks []string) bool {
	for _, t := range toks {
		if !strings.Contains(t, "--") {
			continue
		}
		run, best := 0, 0
		for i := 0; i < len(t); i++ {
			if t[i] >= '0' && t[i] <= '9' {
				run++
				if run > best {
					best = run
				}
			} else {
				run = 0
			}
		}
		if best >= 4 {
			return true
		}
	}
	return false
}

func equalMaps(a, b map[int]bool) bool {
	if len(a) != len(b) {
		return false
	}
	for k, v := range a {
		w, ok := b[k]
		if !ok || v != w {
			return false
		}
	}
	return true
}

func equalInts(a, b []int) bool {
	if len(a) != len(b) {
		return false
	}
	for i := range a {
		if a[i] != b[i] {
			return false
		}
	}
	return true
}

// ---------------------------------------------------------------- main

var r *vh.Run

// at most 25 failing inputs per class are written (vh keeps the first 2000 lines only and the
// syntax classes are large); the rest is counted.
var perClass = map[string]int{}

func fail(class string, input any, detail string) {
	perClass[class]++
	r.Count("oraclefail:" + class)
	if perClass[class] <= 25 {
		r.OracleFail(class, input, detail)
	}
}

// evaluate tokens on selection and collection, K cases + in-range oracle. Returns whether the
// selection evaluated without error.
func evalToks(s string, n int, toks []string, inSyntax bool, withRem bool) (out, out) {
	sel := implSel(n, toks, false)
	r.Case("sel", []string{vh.Int(int64(n)), encToks(toks), "false"}, selResult(sel))
	col := implCol(n, toks)
	r.Case("col", []string{vh.Int(int64(n)), encToks(toks)}, colResult(col))
	if withRem {
		rem := implRem(n, toks)
		r.Case("rem", []string{vh.Int(int64(n)), encToks(toks)}, selResult(rem))
		bad := false
		for k := range rem.sel {
			if k < 1 || k > n {
				bad = true
			}
		}
		if bad {
			fail(rangeClass(inSyntax), map[string]any{"fn": "RemainingPagesForPageRemoval", "expr": s, "pageCount": n}, "a remaining page is outside 1..pageCount: "+encMap(rem.sel))
		} else {
			r.OracleOK()
		}
	}
	in := map[string]any{"expr": s, "pageCount": n}
	if sel.panicked != "" || col.panicked != "" {
		fail("panic", in, sel.panicked+col.panicked)
		return sel, col
	}
	bad := false
	for k := range sel.sel {
		if k < 1 || k > n {
			bad = true
		}
	}
	for _, k := range col.col {
		if k < 1 || k > n {
			bad = true
		}
	}
	if bad {
		fail(rangeClass(inSyntax), in, "a page outside 1..pageCount: selection "+encMap(sel.sel)+" collection "+vh.Ints(col.col))
	} else {
		r.OracleOK()
	}
	return sel, col
}

func rangeClass(inSyntax bool) string {
	if inSyntax {
		return "page-out-of-range"
	}
	return "page-out-of-range-outside-syntax"
}

// an expression built from the grammar
func doExpr(n int, e []term) {
	parts := make([]string, len(e))
	for i, t := range e {
		parts[i] = t.String()
	}
	s := strings.Join(parts, ",")
	in := map[string]any{"expr": s, "pageCount": n}
	p := implParse(s)
	if p.panicked != "" {
		fail("panic", in, p.panicked)
		return
	}
	if p.parseErr != nil || !equalStrings(p.toks, parts) {
		fail("syntax-rejected-valid", in, fmt.Sprintf("ParsePageSelection gave %q, %v", p.toks, p.parseErr))
		return
	}
	r.OracleOK()
	sel, col := evalToks(s, n, p.toks, true, r.Rand.Intn(4) == 0)
	if sel.panicked != "" || col.panicked != "" {
		return
	}
	wantSel, wantCol, fails := reference(int64(n), e)
	switch {
	case fails != (sel.selErr != nil):
		fail("selection-error-differs-from-term-semantics", in, fmt.Sprintf("error expected=%v got=%v", fails, sel.selErr))
	case !fails && !equalMaps(wantSel, sel.sel):
		fail("selection-differs-from-term-semantics", in, "expected "+encMap(wantSel)+" got "+encMap(sel.sel))
	default:
		r.OracleOK()
	}
	switch {
	case fails || len(wantCol) == 0:
		if col.colErr == nil {
			fail("collection-error-differs-from-term-semantics", in, "expected an error, got "+vh.Ints(col.col))
		} else {
			r.OracleOK()
		}
	case col.colErr != nil || !equalInts(wantCol, col.col):
		fail("collection-differs-from-term-semantics", in, fmt.Sprintf("expected %v got %v, %v", wantCol, col.col, col.colErr))
	default:
		r.OracleOK()
	}
	if fails {
		r.Count("class:expr-number-too-large")
	} else {
		r.Count(fmt.Sprintf("class:expr-%d-terms", len(e)))
	}
}

func equalStrings(a, b []string) bool {
	if len(a) != len(b) {
		return false
	}
	for i := range a {
		if a[i] != b[i] {
			return false
		}
	}
	return true
}

// an arbitrary string: syntax check, and evaluation of whatever ParsePageSelection lets through
func doString(s string, ns []int) {
	p := implParse(s)
	in := map[string]any{"expr": s}
	res := "err"
	if p.panicked != "" {
		res = "panic"
		fail("panic", in, p.panicked)
	} else if p.parseErr == nil {
		res = "ok:" + encToks(p.toks)
	}
	r.Case("parse", []string{vh.Hex([]byte(s))}, res)
	ok := refSyntax(s)
	r.Case("syn", []string{vh.Hex([]byte(s))}, vh.Bool(ok))
	if p.panicked != "" {
		return
	}
	switch {
	case s == "":
		r.Count("class:string-empty")
		if p.parseErr != nil || p.toks != nil {
			fail("empty-selection-not-nil", in, "")
		} else {
			r.OracleOK()
		}
		return
	case ok:
		r.Count("class:string-in-syntax")
		if p.parseErr != nil || !equalStrings(p.toks, strings.Split(s, ",")) {
			fail("syntax-rejected-valid", in, fmt.Sprintf("ParsePageSelection gave %q, %v", p.toks, p.parseErr))
		} else {
			r.OracleOK()
		}
	case p.parseErr != nil:
		r.Count("class:string-rejected")
		r.OracleOK()
		return
	}
	// accepted by ParsePageSelection
	if dangerous(p.toks) {
		r.Count("class:string-skipped-huge-loop")
		if !ok {
			fail("outside-syntax-passes-parse", in, "ParsePageSelection accepted a string outside the syntax (not evaluated by the harness)")
		}
		return
	}
	evaluatedAt := -1
	var evaluatedAs string
	for _, n := range ns {
		sel, _ := evalToks(s, n, p.toks, ok, false)
		if sel.panicked == "" && sel.selErr == nil && evaluatedAt < 0 {
			evaluatedAt, evaluatedAs = n, selResult(sel)
		}
	}
	if !ok {
		if evaluatedAt >= 0 {
			r.Count("class:string-outside-syntax-evaluated")
			fail("outside-syntax-evaluated", map[string]any{"expr": s, "pageCount": evaluatedAt},
				"outside the syntax, yet ParsePageSelection accepted it and PagesForPageSelection returned "+evaluatedAs)
		} else {
			r.Count("class:string-outside-syntax-late-reject")
			fail("outside-syntax-passes-parse", in, "ParsePageSelection accepted a string outside the syntax; only the evaluation rejected it")
		}
	}
}

func numbers(n int) []string {
	seen := map[string]bool{}
	var l []string
	for _, v := range []int{0, 1, 2, n - 1, n, n + 1, 99} {
		if v < 0 {
			continue
		}
		s := strconv.Itoa(v)
		if !seen[s] {
			seen[s] = true
			l = append(l, s)
		}
	}
	return append(l, big20)
}

func terms(nums []string, negs []string) []term {
	var l []term
	for _, neg := range negs {
		l = append(l, term{kind: "l", neg: neg}, term{kind: "-l", neg: neg})
		for _, a := range nums {
			for _, k := range []string{"#", "-#", "#-", "l-#", "l-#-", "-l-#", "#-l"} {
				l = append(l, term{kind: k, neg: neg, a: a})
			}
			for _, b := range nums {
				l = append(l, term{kind: "#-#", neg: neg, a: a, b: b}, term{kind: "#-l-#", neg: neg, a: a, b: b})
			}
		}
	}
	return append(l, term{kind: "even"}, term{kind: "odd"})
}

func main() {
	api.DisableConfigDir()
	r = vh.Start("C31")
	defer r.Finish()

	// ---- 1. expressions of the grammar
	maxN := r.Pick(12, 40)
	exhaustivePairs := map[int]bool{0: true, 1: true, 3: true}
	if r.Thorough() {
		for n := 0; n <= 12; n++ {
			exhaustivePairs[n] = true
		}
	}
	for n := 0; n <= maxN; n++ {
		all := terms(numbers(n), []string{"", "!", "n"})
		for _, t := range all {
			doExpr(n, []term{t})
		}
		// leading zeros, larger numbers
		for _, a := range []string{"00", "01", "007", "9223372036854775807", "9223372036854775808", "18446744073709551616"} {
			for _, t := range terms([]string{a}, []string{"", "!"}) {
				if t.kind != "even" && t.kind != "odd" && t.kind != "l" && t.kind != "-l" {
					doExpr(n, []term{t})
				}
			}
		}
		if exhaustivePairs[n] {
			core := terms([]string{"0", "2", strconv.Itoa(n), strconv.Itoa(n + 1)}, []string{"", "!"})
			for _, t1 := range core {
				for _, t2 := range core {
					doExpr(n, []term{t1, t2})
				}
			}
		}
		pick := func() term { return all[r.Rand.Intn(len(all))] }
		for i := 0; i < r.Pick(1500, 6000); i++ {
			doExpr(n, []term{pick(), pick()})
		}
		for i := 0; i < r.Pick(1500, 8000); i++ {
			doExpr(n, []term{pick(), pick(), pick()})
		}
		for i := 0; i < r.Pick(100, 500); i++ {
			k := 4 + r.Rand.Intn(4)
			e := make([]term, k)
			for j := range e {
				e[j] = pick()
			}
			doExpr(n, e)
		}
		// no tokens at all
		for _, ens := range []bool{false, true} {
			o := implSel(n, nil, ens)
			r.Case("sel", []string{vh.Int(int64(n)), "nil", vh.Bool(ens)}, selResult(o))
		}
		o := implCol(n, nil)
		r.Case("col", []string{vh.Int(int64(n)), "nil"}, colResult(o))
		o = implRem(n, nil)
		r.Case("rem", []string{vh.Int(int64(n)), "nil"}, selResult(o))
	}

	// ---- 2. the syntax check: all short strings over the token alphabet, then random strings
	alphabet := []string{"0", "1", "2", "9", "-", "l", "!", "n", ",", "even", "odd", " ", "+"}
	ns := []int{0, 3}
	var rec func(prefix string, left int)
	rec = func(prefix string, left int) {
		doString(prefix, ns)
		if left == 0 {
			return
		}
		for _, a := range alphabet {
			rec(prefix+a, left-1)
		}
	}
	rec("", r.Pick(4, 5))
	wide := append(append([]string{}, alphabet...), "e", "v", "o", "d", "x", "\n", "l-", "-l", ",", "-", "3", "10")
	for i := 0; i < r.Pick(6000, 60000); i++ {
		k := 1 + r.Rand.Intn(12)
		var b strings.Builder
		for j := 0; j < k; j++ {
			b.WriteString(wide[r.Rand.Intn(len(wide))])
		}
		doString(b.String(), []int{r.Rand.Intn(8)})
	}
	// valid expressions with one byte inserted, deleted or replaced
	all := terms(numbers(5), []string{"", "!", "n"})
	for i := 0; i < r.Pick(6000, 60000); i++ {
		k := 1 + r.Rand.Intn(3)
		parts := make([]string, k)
		for j := range parts {
			parts[j] = all[r.Rand.Intn(len(all))].String()
		}
		s := strings.Join(parts, ",")
		c := wide[r.Rand.Intn(len(wide))]
		pos := r.Rand.Intn(len(s) + 1)
		switch r.Rand.Intn(3) {
		case 0:
			s = s[:pos] + c + s[pos:]
		case 1:
			if pos < len(s) {
				s = s[:pos] + s[pos+1:]
			}
		default:
			if pos < len(s) {
				s = s[:pos] + c + s[pos+1:]
			}
		}
		doString(s, []int{r.Rand.Intn(8)})
	}
}
