(* C02 glue.  Requests from go/cmd/c02:
     trace  <proto> <init> <chunks> <fin> <fault>              -> <ctl>|<mutation skeleton of the trace>|<final directory>
     crash  <proto> <init> <chunks> <fin> <fault> <j> <inflight> <observed directory>
            <fault> = "-" or "mktemp": the call that creates the staging file fails (name too long, …)
            -> match | mismatch:...   (observed must be the model's crash state at a cut after j skeleton
               events, or j+1 when the kill hit a call in flight; also re-checks that the run under
               crash_plan k repeats the first k events of the uninterrupted run)
   Paths are positives in hex; a path that is neither in the initial filesystem nor named in the request is
   the staging file and printed as T.  Skeleton = the trace without open-for-reading, stat and closes of
   files the run did not create; consecutive writes collapsed. *)
open Model
open Common

let pos_of_hex_exn s = match pos_of_hex s with Some p -> p | None -> failwith ("bad path " ^ s)
let opt_path s = if s = "-" then None else Some (pos_of_hex_exn s)
let path_list s = if s = "" || s = "-" then [] else List.map pos_of_hex_exn (String.split_on_char ',' s)
let key_of = function "flag" -> KFlag | "err" -> KErr | "none" -> KNone | s -> failwith ("bad key " ^ s)
let ctl_of = function "ok" -> COk | "err" -> CErr | "panic" -> CPanic | s -> failwith ("bad ctl " ^ s)
let str_of_ctl = function COk -> "ok" | CErr -> "err" | CPanic -> "panic"

let fs_of_string s =
  if s = "" then [] else
  List.map (fun e -> match String.split_on_char ':' e with
    | [p; md; d] -> (pos_of_hex_exn p, { fdata = bytes_of_hex d; fmode = n_of_hex md })
    | _ -> failwith ("bad fs entry " ^ e)) (String.split_on_char ';' s)
let chunks_of_string s =
  if s = "" || s = "-" then [] else List.map (fun c -> if c = "." then [] else bytes_of_hex c) (String.split_on_char ',' s)

(* proto: api:<key>:<ins>:<inF>:<outF> | pdf:<key>:<input>:<path> | cut:<out> | cli:<inF>:<out> *)
let proto_of s = match String.split_on_char ':' s with
  | ["api"; k; ins; inF; outF] -> PApi (key_of k, path_list ins, opt_path inF, opt_path outF)
  | ["pdf"; k; input; path] -> PPdf (key_of k, opt_path input, pos_of_hex_exn path)
  | ["cut"; out] -> PCut (pos_of_hex_exn out)
  | ["cli"; inF; out] -> PCli (opt_path inF, pos_of_hex_exn out)
  | _ -> failwith ("bad proto " ^ s)
let proto_paths = function
  | PApi (_, ins, inF, outF) -> ins @ (match inF with Some p -> [p] | None -> []) @ (match outF with Some p -> [p] | None -> [])
  | PPdf (_, input, path) -> path :: (match input with Some p -> [p] | None -> [])
  | PCut out -> [out]
  | PCli (inF, out) -> out :: (match inF with Some p -> [p] | None -> [])

let name known p = if List.exists (fun q -> q = p) known then hex_of_pos p else "T"
let str_of_res = function None -> "ok" | Some EIO -> "eio" | Some EEXIST -> "eexist" | Some ENOENT -> "enoent"

(* skeleton of a chronological event list *)
let skeleton known evs =
  let created = ref [] in
  let out = ref [] in
  let push s = match !out with x :: _ when x = s && String.length s >= 5 && String.sub s 0 5 = "write" -> () | _ -> out := s :: !out in
  List.iter (fun e ->
    let r = str_of_res e.ev_res in
    match e.ev_op with
    | OpOpenRd | OpStat -> ()
    | OpOpenExcl -> if e.ev_res = None then created := e.ev_p :: !created;
                    push ("openx(" ^ name known e.ev_p ^ ")=" ^ r)
    | OpCreateTemp -> if e.ev_res = None then created := e.ev_p :: !created; push ("mktemp=" ^ r)
    | OpChmod -> push ("chmod(" ^ name known e.ev_p ^ ")=" ^ r)
    | OpWrite -> push ("write(" ^ name known e.ev_p ^ ")=" ^ r)
    | OpClose -> if List.mem e.ev_p !created then push ("close(" ^ name known e.ev_p ^ ")=" ^ r)
    | OpRename -> push ("rename(" ^ name known e.ev_p ^ "," ^ name known e.ev_q ^ ")=" ^ r)
    | OpRemove -> push ("remove(" ^ name known e.ev_p ^ ")=" ^ r)) evs;
  List.rev !out

(* directory: known names with mode and bytes, the staging file as a bare T *)
let str_of_fs known m =
  let l = List.map (fun (p, f) -> if name known p = "T" then "T" else hex_of_pos p ^ ":" ^ hex_of_n f.fmode ^ ":" ^ hex_of_bytes f.fdata) (fs_to_list m) in
  String.concat ";" (List.sort compare l)

let rec firstn n l = if n <= 0 then [] else match l with [] -> [] | x :: r -> x :: firstn (n - 1) r

(* index of the failing call: the first CreateTemp of the uninterrupted run *)
let fault_index fault p init chunks fin =
  if fault = "-" then -1 else
  if fault <> "mktemp" then failwith ("bad fault " ^ fault) else
  let (_, w) = run_c02 None p init chunks fin in
  let rec find i = function
    | [] -> failwith "no CreateTemp call in the trace"
    | e :: r -> if e.ev_op = OpCreateTemp then i else find (i + 1) r in
  find 0 (List.rev w.wtr)
(* plan: call number fi fails, and (cut >= 0) every call numbered >= cut is ineffective *)
let plan fi cut = fun n -> let i = int_of_nat n in i = fi || (cut >= 0 && i >= cut)

let dispatch fn args = match fn, args with
  | "trace", [proto; init; chunks; fin; fault] ->
    let p = proto_of proto and init = fs_of_string init in
    let known = List.map fst init @ proto_paths p in
    let chunks = chunks_of_string chunks and fin = ctl_of fin in
    let fi = fault_index fault p init chunks fin in
    let (r, w) = run_c02_plan (plan fi (-1)) p init chunks fin in
    str_of_ctl r ^ "|" ^ String.concat ";" (skeleton known (List.rev w.wtr)) ^ "|" ^ str_of_fs known w.wfs
  | "crash", [proto; init; chunks; fin; fault; j; inflight; observed] ->
    let p = proto_of proto and init = fs_of_string init in
    let known = List.map fst init @ proto_paths p in
    let chunks = chunks_of_string chunks and fin = ctl_of fin in
    let j = int_of_string j and inflight = (inflight = "1") in
    let fi = fault_index fault p init chunks fin in
    let (_, wfull) = run_c02_plan (plan fi (-1)) p init chunks fin in
    let full = List.rev wfull.wtr in
    let n = List.length full in
    let ok = ref false and prefix_ok = ref true and seen = ref [] in
    for k = 0 to n do
      let c = List.length (skeleton known (firstn k full)) in
      if c = j || (inflight && c = j + 1) then begin
        let (_, wk) = run_c02_plan (plan fi k) p init chunks fin in
        if firstn k (List.rev wk.wtr) <> firstn k full then prefix_ok := false;
        let st = str_of_fs known wk.wfs in
        if not (List.mem st !seen) then seen := st :: !seen;
        if st = observed then ok := true
      end
    done;
    if not !prefix_ok then "prefix-broken"
    else if !ok then "match"
    else "mismatch:model=" ^ String.concat "|" (List.rev !seen)
  | _ -> failwith ("unknown function " ^ fn)
let () = main dispatch
