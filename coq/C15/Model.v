(* C15 — round trip of the stream filters.  The filter and pipeline models are shared with C16
   (coq/C16/Model.v); this file only adds the vocabulary of the round-trip statements. No proofs. *)
From Coq Require Import ZArith NArith List Bool.
From PV Require Import C16.Model.
Import ListNotations.
Open Scope Z_scope.

(* a Go []byte *)
Definition bytes (l : list N) : Prop := Forall (fun b => (b < 256)%N) l.

(* A stage (filter + decode parameters) round-trips: Encode succeeds on every byte string, yields
   bytes, and Decode (unlimited) of the result is the original. *)
Definition stage_rt (s : stage) : Prop :=
  forall x, bytes x -> exists e, s_enc s x = Some e /\ bytes e /\ s_dec s e (-1) (-1) = DOk x.

(* stages built from the external codecs (Go encoding/ascii85, internal/filter/lzw, compress/zlib) *)
Definition a85_stage (a85enc : list N -> list N) (a85open : list N -> rstream) : stage :=
  Build_stage (fun x => Some (a85_encode a85enc x)) (a85_decode_length a85open).

Definition lzw_stage (lzwenc : bool -> list N -> list N) (lzwopen : bool -> list N -> rstream) (pm : parms) : stage :=
  Build_stage (fun x => Some (lzw_encode lzwenc pm x)) (lzw_decode_length lzwopen pm).

Definition flate_stage (zenc : list N -> list N) (zopen : list N -> option rstream) (pm : parms) : stage :=
  Build_stage (fun x => Some (flate_encode zenc pm x)) (flate_decode_length zopen pm).

(* the predictor is absent or PredictorNo *)
Definition no_predictor (pm : parms) : Prop := p_pred pm = None \/ p_pred pm = Some 1.
