(* C17 — executable model of the predictor post-processing of pkg/filter
   (flateDecode.go, paeth.go, lzwDecode.go), transcribed by hand, line by line.
   No proofs in this file.

   Conventions: a Go []byte is a [list N] (every element < 256), a Go int is a Z,
   slice indices are nat.  An in-place update row[i] = v is [upd i v row]; reading
   row[i] is [get row i].  Index-out-of-range panics are not modelled ([get] gives 0,
   [upd] is the identity): Proofs.v shows (row_params_facts) that for the parameters
   the code accepts 1 <= bytesPerPixel <= rowSize, so every index the loops use is in
   range.  A Go error result is [None].  The decode limit checks of C09
   (decodeLimit / ErrDecodeLimitExceeded) are outside this model: it describes
   DecodeLength with maxLen < 0 and an output below the limit. *)
From Coq Require Import ZArith NArith List Bool.
From PV Require Import Lib.GoInt.
Import ListNotations.
Open Scope Z_scope.

(* ---------- byte slices ---------- *)
Definition get (l : list N) (i : nat) : N := nth i l 0%N.

Fixpoint upd (i : nat) (v : N) (l : list N) {struct l} : list N :=
  match l, i with
  | [], _ => []
  | _ :: t, O => v :: t
  | h :: t, S i' => h :: upd i' v t
  end.

(* uint8 addition  x += y *)
Definition add8 (a b : N) : N := ((a + b) mod 256)%N.

(* ---------- pkg/pdfcpu/safemath (int is 64 bit; semantics proved in C42) ---------- *)
Definition maxInt : Z := 2 ^ 63 - 1.
Definition addInt (a b : Z) : res Z :=
  if (a <? 0) || (b <? 0) || (a >? maxInt - b) then Err else Ok (a + b).
Definition mulInt (a b : Z) : res Z :=
  if (a <? 0) || (b <? 0) || (negb (a =? 0) && (b >? maxInt / a)) then Err else Ok (a * b).

(* ---------- paeth.go ---------- *)
(* func abs(x int) int { m := x >> (intSize-1); return (x ^ m) - m }   with intSize = 32 *)
Definition go_abs (x : Z) : Z := let m := Z.shiftr x 31 in Z.lxor x m - m.

(* func paeth(a, b, c uint8) uint8 *)
Definition paeth (a b c : N) : N :=
  let pc := Z.of_N c in
  let pa := Z.of_N b - pc in
  let pb := Z.of_N a - pc in
  let pc := go_abs (pa + pb) in
  let pa := go_abs pa in
  let pb := go_abs pb in
  if (pa <=? pb) && (pa <=? pc) then a
  else if pb <=? pc then b
  else c.

(* inner loop of filterPaeth:  for j := i; j < len(cdat); j += bytesPerPixel { ... }
   with the running ints a, c.  fuel bounds the number of iterations. *)
Fixpoint paeth_inner (fuel : nat) (bpp j : nat) (a c : Z) (pdat cdat : list N) : option (list N) :=
  if (j <? length cdat)%nat then
    match fuel with
    | O => None
    | S f =>
      let b := Z.of_N (get pdat j) in
      let pa := b - c in
      let pb := a - c in
      let pc := go_abs (pa + pb) in
      let pa := go_abs pa in
      let pb := go_abs pb in
      let a1 := if (pa <=? pb) && (pa <=? pc) then a else if pb <=? pc then b else c in
      let a2 := a1 + Z.of_N (get cdat j) in
      let a3 := Z.land a2 255 in
      paeth_inner f bpp (j + bpp) a3 b pdat (upd j (Z.to_N a3) cdat)
    end
  else Some cdat.

(* func filterPaeth(cdat, pdat []byte, bytesPerPixel int):  for i := 0; i < bytesPerPixel; i++ { a, c = 0, 0; inner } *)
Definition filterPaeth (cdat pdat : list N) (bpp : nat) : option (list N) :=
  fold_left (fun acc i => match acc with
                          | None => None
                          | Some cd => paeth_inner (length cd) bpp i 0 0 pdat cd
                          end) (seq 0 bpp) (Some cdat).

(* ---------- flateDecode.go ---------- *)
(* func applyHorDiff(row []byte, colors int):
     for i := 1; i < len(row)/colors; i++ { for j := range colors { row[i*colors+j] += row[(i-1)*colors+j] } } *)
Definition applyHorDiff (row : list N) (colors : nat) : list N :=
  fold_left (fun r i =>
               fold_left (fun r j => upd (i * colors + j) (add8 (get r (i * colors + j)) (get r ((i - 1) * colors + j))) r)
                         (seq 0 colors) r)
            (seq 1 (length row / colors - 1)) row.

(* case PNGSub: for i := bytesPerPixel; i < len(cdat); i++ { cdat[i] += cdat[i-bytesPerPixel] } *)
Definition pngSub (cdat : list N) (bpp : nat) : list N :=
  fold_left (fun cd i => upd i (add8 (get cd i) (get cd (i - bpp))) cd) (seq bpp (length cdat - bpp)) cdat.

(* case PNGUp: for i, p := range pdat { cdat[i] += p } *)
Definition pngUp (cdat pdat : list N) : list N :=
  fold_left (fun cd i => upd i (add8 (get cd i) (get pdat i)) cd) (seq 0 (length pdat)) cdat.

(* case PNGAverage:
     for i := range bytesPerPixel { cdat[i] += pdat[i] / 2 }
     for i := bytesPerPixel; i < len(cdat); i++ { cdat[i] += uint8((int(cdat[i-bytesPerPixel]) + int(pdat[i])) / 2) } *)
Definition pngAverage (cdat pdat : list N) (bpp : nat) : list N :=
  let cd1 := fold_left (fun cd i => upd i (add8 (get cd i) (get pdat i / 2)%N) cd) (seq 0 bpp) cdat in
  fold_left (fun cd i => upd i (add8 (get cd i) (((get cd (i - bpp) + get pdat i) / 2) mod 256)%N) cd)
            (seq bpp (length cdat - bpp)) cd1.

(* func processRow(pr, cr []byte, p, colors, bytesPerPixel int) ([]byte, error)
   The result aliases cr (TIFF) resp. cr[1:] (PNG). *)
Definition processRow (pr cr : list N) (p colors bytesPerPixel : Z) : option (list N) :=
  if p =? 2 then Some (applyHorDiff cr (Z.to_nat colors)) else
  let cdat := tl cr in
  let pdat := tl pr in
  let f := get cr 0 in
  let bpp := Z.to_nat bytesPerPixel in
  if (f =? 0)%N then Some cdat
  else if (f =? 1)%N then Some (pngSub cdat bpp)
  else if (f =? 2)%N then Some (pngUp cdat pdat)
  else if (f =? 3)%N then Some (pngAverage cdat pdat bpp)
  else if (f =? 4)%N then filterPaeth cdat pdat bpp
  else None.

(* func validatePredictor *)
Definition validPredictor (p : Z) : bool := existsb (Z.eqb p) [2; 10; 11; 12; 13; 14; 15].

(* func (f flate) parameters(): defaults and range checks; None = key absent from the parms map *)
Definition parameters (colors bpc columns : option Z) : option (Z * Z * Z) :=
  let colors' := match colors with None => Some 1 | Some c => if c <=? 0 then None else Some c end in
  let bpc' := match bpc with None => Some 8 | Some b => if existsb (Z.eqb b) [1; 2; 4; 8; 16] then Some b else None end in
  let columns' := match columns with None => Some 1 | Some c => if c <=? 0 then None else Some c end in
  match colors', bpc', columns' with
  | Some c, Some b, Some n => Some (c, b, n)
  | _, _, _ => None
  end.

(* func predictorRowParams(predictor, colors, bpc, columns int) (rowSize, rowLen, bytesPerPixel int, err error) *)
Definition predictorRowParams (predictor colors bpc columns : Z) : option (Z * Z * Z) :=
  match mulInt bpc colors with Err => None | Ok bitsPerPixel =>
  match addInt bitsPerPixel 7 with Err => None | Ok bitsPerPixelRounded =>
  let bytesPerPixel := bitsPerPixelRounded / 8 in
  match mulInt bitsPerPixel columns with Err => None | Ok rowBits =>
  match addInt rowBits 7 with Err => None | Ok rowBitsRounded =>
  let rowSize := rowBitsRounded / 8 in
  if negb (predictor =? 2) then
    match addInt rowSize 1 with Err => None | Ok rowLen => Some (rowSize, rowLen, bytesPerPixel) end
  else Some (rowSize, rowSize, bytesPerPixel)
  end end end end.

(* the loop of decodePostProcessRows over an in-memory stream [data]; m = len(cr) = rowLen.
   io.ReadFull(r, cr) reads n = min(m, remaining) bytes; n == 0 is io.EOF (break),
   0 < n < m is io.ErrUnexpectedEOF (returned as error).  [pr] is the buffer that held
   the previous row after its in-place decoding (pr, cr = cr, pr). *)
Fixpoint rowsLoop (fuel m : nat) (p colors bytesPerPixel : Z) (pr data out : list N) : option (list N) :=
  match fuel with
  | O => None
  | S f =>
    let n := Nat.min m (length data) in
    if (n =? 0)%nat then Some out
    else if negb (n =? m)%nat then None
    else
      let cr := firstn m data in
      match processRow pr cr p colors bytesPerPixel with
      | None => None
      | Some d =>
        let cr' := if p =? 2 then d else get cr 0 :: d in
        rowsLoop f m p colors bytesPerPixel cr' (skipn m data) (out ++ d)
      end
  end.

(* func (f flate) decodePostProcess, applied to the inflated stream [data] *)
Definition decode (predictor colors bpc columns : option Z) (data : list N) : option (list N) :=
  match predictor with
  | None => Some data                                   (* passThru *)
  | Some p =>
    if p =? 1 then Some data else
    if negb (validPredictor p) then None else
    match parameters colors bpc columns with
    | None => None
    | Some (colors, bpc, columns) =>
      match predictorRowParams p colors bpc columns with
      | None => None
      | Some (rowSize, rowLen, bytesPerPixel) =>
        let m := Z.to_nat rowLen in
        match rowsLoop (S (length data)) m p colors bytesPerPixel (repeat 0%N m) data [] with
        | None => None
        | Some b => if (0 <? Z.of_nat (length b) mod rowSize) then None else Some b
        end
      end
    end
  end.

(* lzwDecode.go DecodeLength, applied to the LZW-expanded stream:
   p, found := f.parms["Predictor"]; if found && p > 1 { return error } *)
Definition lzwDecodePost (predictor : option Z) (data : list N) : option (list N) :=
  match predictor with
  | Some p => if p >? 1 then None else Some data
  | None => Some data
  end.
