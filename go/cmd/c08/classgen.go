// Generators for whole CLASSES of input behind three red-team findings and the /Prev chain gap:
//   outlineListDocs   — outline sibling lists with duplicates and self/forward/backward /Next /Prev /First /Last
//                       links at every position (validate/outlineTree.go scanAndFixOutlineItems, validateOutlineTreeDepth)
//   nameTreeDocs      — name trees with empty /Kids, empty /Names, null/missing kids at every level, resolved
//                       through named destinations (outline, link annotation, open action), attachments, JavaScript
//   boundaryDocs      — objects whose endobj/stream/endstream/xref/startxref/trailer keywords straddle or end
//                       exactly at the 1 KiB (2x, 4x) read buffer, with and without white space behind them
//   revisionDocs      — 2..4 revisions (xref tables, xref streams, hybrid) with /Prev pointing at every
//                       earlier/later/own section offset, at offsets +-k and 0, first revision shorter/longer than 512 bytes
package main

import (
	"bytes"
	"fmt"
	"math/rand"
	"strings"
)

// ------------------------------------------------------------------ outline sibling lists

type oitem struct{ next, prev, first, last, parent int }

func outlineFromItems(rootFirst, rootLast int, items map[int]*oitem) []byte {
	d := baseDoc()
	d.objs[1] = "<</Type/Catalog/Pages 2 0 R/Outlines 10 0 R>>"
	ref := func(k string, n int) string {
		if n == 0 {
			return ""
		}
		return fmt.Sprintf("/%s %d 0 R", k, n)
	}
	d.objs[10] = "<</Type/Outlines" + ref("First", rootFirst) + ref("Last", rootLast) + fmt.Sprintf("/Count %d>>", len(items))
	for n, it := range items {
		s := fmt.Sprintf("<</Title(t%d)/Dest[3 0 R/Fit]", n) + ref("Parent", it.parent) + ref("Next", it.next) + ref("Prev", it.prev) + ref("First", it.first) + ref("Last", it.last)
		if it.first != 0 {
			s += "/Count 2"
		}
		d.objs[n] = s + ">>"
	}
	return d.bytes()
}

// healthy: top list 11-12-13, children of 11: 14-15-16, children of 15: 17-18.
func healthyOutline() map[int]*oitem {
	return map[int]*oitem{
		11: {next: 12, first: 14, last: 16, parent: 10},
		12: {next: 13, prev: 11, parent: 10},
		13: {prev: 12, parent: 10},
		14: {next: 15, parent: 11},
		15: {next: 16, prev: 14, first: 17, last: 18, parent: 11},
		16: {prev: 15, parent: 11},
		17: {next: 18, parent: 15},
		18: {prev: 17, parent: 15},
	}
}

func outlineListDocs(r *rand.Rand, nRandom int) []gdoc {
	var out []gdoc
	nums := []int{11, 12, 13, 14, 15, 16, 17, 18}
	targets := append([]int{0, 10, 99}, nums...)
	set := func(it *oitem, field string, v int) {
		switch field {
		case "Next":
			it.next = v
		case "Prev":
			it.prev = v
		case "First":
			it.first = v
		case "Last":
			it.last = v
		}
	}
	fields := []string{"Next", "Prev", "First", "Last"}
	out = append(out, gdoc{"ol-healthy", outlineFromItems(11, 13, healthyOutline()), "ok"})
	// one edit: every field of every item to every target
	for _, n := range nums {
		for _, f := range fields {
			for _, t := range targets {
				items := healthyOutline()
				set(items[n], f, t)
				out = append(out, gdoc{fmt.Sprintf("ol-%d.%s=%d", n, f, t), outlineFromItems(11, 13, items), ""})
			}
		}
	}
	// root links
	for _, t := range targets {
		out = append(out, gdoc{fmt.Sprintf("ol-root.First=%d", t), outlineFromItems(t, 13, healthyOutline()), ""})
		out = append(out, gdoc{fmt.Sprintf("ol-root.Last=%d", t), outlineFromItems(11, t, healthyOutline()), ""})
	}
	// a duplicate (a /Next into another list) followed, later in the same list, by a loop: every position pair
	for _, dupAt := range []int{14, 15, 16, 17, 11, 12} {
		for _, dupTo := range []int{12, 13, 11, 15, 17} {
			for _, loopAt := range nums {
				for _, loopTo := range []int{loopAt, 14, 11} {
					if loopAt == dupAt {
						continue
					}
					if r.Intn(3) != 0 && !(loopTo == loopAt) {
						continue
					}
					items := healthyOutline()
					items[dupAt].next = dupTo
					items[loopAt].next = loopTo
					if r.Intn(2) == 0 {
						items[loopAt].prev = dupTo // what firstOfRemainder looks for
					}
					out = append(out, gdoc{fmt.Sprintf("ol-dup%d>%d-loop%d>%d-p%d", dupAt, dupTo, loopAt, loopTo, items[loopAt].prev), outlineFromItems(11, 13, items), ""})
				}
			}
		}
	}
	for i := 0; i < nRandom; i++ {
		items := healthyOutline()
		var names []string
		for k := 0; k < 2+r.Intn(3); k++ {
			n, f, t := nums[r.Intn(len(nums))], fields[r.Intn(4)], targets[r.Intn(len(targets))]
			set(items[n], f, t)
			names = append(names, fmt.Sprintf("%d.%s=%d", n, f, t))
		}
		rf, rl := 11, 13
		if r.Intn(6) == 0 {
			rf = targets[r.Intn(len(targets))]
		}
		if r.Intn(6) == 0 {
			rl = targets[r.Intn(len(targets))]
		}
		out = append(out, gdoc{fmt.Sprintf("ol-rand-%d-%d-%s", rf, rl, strings.Join(names, ",")), outlineFromItems(rf, rl, items), ""})
	}
	return out
}

// ------------------------------------------------------------------ name trees

// node shapes for a kid position
var ntShapes = []string{"leaf", "emptykids", "emptynames", "nokeys", "nullkid", "missing", "nolimits", "inner-empty", "inner-leaf", "notdict"}

func nameTreeDocs(r *rand.Rand, nRandom int) []gdoc {
	var out []gdoc
	// build(tree kind, shapes of the root's kids): the key that is looked up is "x", present in a regular leaf
	build := func(kind string, shapes []string, rootShape string) []byte {
		d := baseDoc()
		val := map[string]string{
			"Dests":         "[3 0 R/Fit]",
			"EmbeddedFiles": "30 0 R",
			"JavaScript":    "31 0 R",
		}[kind]
		d.objs[30] = "<</Type/Filespec/F(a.txt)/UF(a.txt)/EF<</F 32 0 R>>>>"
		d.objs[32] = stream("/Type/EmbeddedFile", "hello")
		d.objs[31] = "<</S/JavaScript/JS(app.alert\\(1\\))>>"
		cat := "<</Type/Catalog/Pages 2 0 R/Names<</" + kind + " 20 0 R>>"
		if kind == "Dests" {
			cat += "/Outlines 10 0 R/OpenAction<</S/GoTo/D(x)>>"
			d.objs[10] = "<</Type/Outlines/First 11 0 R/Last 12 0 R/Count 2>>"
			d.objs[11] = "<</Title(a)/Parent 10 0 R/Dest(x)/Next 12 0 R>>"
			d.objs[12] = "<</Title(b)/Parent 10 0 R/Prev 11 0 R/A<</S/GoTo/D(a)>>>>"
			d.objs[3] = "<</Type/Page/Parent 2 0 R/Contents 4 0 R/Resources<</Font<</F1 5 0 R>>>>/Annots[13 0 R 14 0 R]>>"
			d.objs[13] = "<</Type/Annot/Subtype/Link/Rect[0 0 10 10]/Dest(x)>>"
			d.objs[14] = "<</Type/Annot/Subtype/Link/Rect[0 0 10 10]/A<</S/GoTo/D(zz)>>>>"
		}
		d.objs[1] = cat + ">>"
		var kids []string
		next := 40
		mk := func(shape string, lim string) string {
			nr := next
			next++
			switch shape {
			case "leaf":
				d.objs[nr] = fmt.Sprintf("<</Limits[(%s)(%s)]/Names[(%s)%s]>>", lim, lim, lim, val)
			case "emptykids":
				d.objs[nr] = "<</Kids[]/Limits[(a)(b)]>>"
			case "emptynames":
				d.objs[nr] = "<</Names[]/Limits[(a)(b)]>>"
			case "nokeys":
				d.objs[nr] = "<</Limits[(a)(b)]>>"
			case "nolimits":
				d.objs[nr] = fmt.Sprintf("<</Names[(%s)%s]>>", lim, val)
			case "inner-empty":
				d.objs[nr] = fmt.Sprintf("<</Limits[(a)(b)]/Kids[%d 0 R]>>", next)
				d.objs[next] = "<</Kids[]/Limits[(a)(b)]>>"
				next++
			case "inner-leaf":
				d.objs[nr] = fmt.Sprintf("<</Limits[(%s)(%s)]/Kids[%d 0 R %d 0 R]>>", lim, lim, next, next+1)
				d.objs[next] = "<</Kids[]/Limits[(a)(a)]>>"
				d.objs[next+1] = fmt.Sprintf("<</Limits[(%s)(%s)]/Names[(%s)%s]>>", lim, lim, lim, val)
				next += 2
			case "notdict":
				d.objs[nr] = "[1 2]"
			case "nullkid":
				return "null"
			case "missing":
				return "98 0 R"
			}
			return fmt.Sprintf("%d 0 R", nr)
		}
		keys := []string{"a", "m", "x", "z"}
		for i, s := range shapes {
			k := keys[i%len(keys)]
			if s == "leaf" && i == len(shapes)-1 {
				k = "x"
			}
			kids = append(kids, mk(s, k))
		}
		switch rootShape {
		case "kids":
			d.objs[20] = "<</Kids[" + strings.Join(kids, " ") + "]>>"
		case "emptykids":
			d.objs[20] = "<</Kids[]>>"
		case "emptynames":
			d.objs[20] = "<</Names[]>>"
		case "nokeys":
			d.objs[20] = "<<>>"
		case "both":
			d.objs[20] = "<</Kids[" + strings.Join(kids, " ") + "]/Names[(x)" + val + "]>>"
		}
		return d.bytes()
	}
	kinds := []string{"Dests", "EmbeddedFiles", "JavaScript"}
	for _, kind := range kinds {
		for _, rs := range []string{"emptykids", "emptynames", "nokeys"} {
			out = append(out, gdoc{"nt-" + kind + "-root-" + rs, build(kind, nil, rs), ""})
		}
		// every shape at every position among regular leaves
		for _, s := range ntShapes {
			for pos := 0; pos < 3; pos++ {
				shapes := []string{"leaf", "leaf", "leaf"}
				shapes[pos] = s
				out = append(out, gdoc{fmt.Sprintf("nt-%s-%s-at-%d", kind, s, pos), build(kind, shapes, "kids"), ""})
			}
			out = append(out, gdoc{fmt.Sprintf("nt-%s-only-%s", kind, s), build(kind, []string{s}, "kids"), ""})
			out = append(out, gdoc{fmt.Sprintf("nt-%s-%s-then-x", kind, s), build(kind, []string{s, "leaf"}, "kids"), ""})
			out = append(out, gdoc{fmt.Sprintf("nt-%s-both-%s", kind, s), build(kind, []string{s, "leaf"}, "both"), ""})
		}
	}
	for i := 0; i < nRandom; i++ {
		n := 1 + r.Intn(4)
		shapes := make([]string, n)
		for k := range shapes {
			shapes[k] = ntShapes[r.Intn(len(ntShapes))]
		}
		kind := kinds[r.Intn(3)]
		out = append(out, gdoc{"nt-rand-" + kind + "-" + strings.Join(shapes, "."), build(kind, shapes, []string{"kids", "kids", "kids", "both"}[r.Intn(4)]), ""})
	}
	return out
}

// ------------------------------------------------------------------ keywords at the read buffer boundary

// rawDoc serialises objects where a body starting with "RAW:" is written verbatim (it brings its own
// "n 0 obj" / endobj text).
func rawDoc(objs map[int]string, tail string) []byte {
	d := newDoc()
	for k, v := range objs {
		d.objs[k] = v
	}
	var b bytes.Buffer
	fmt.Fprintf(&b, "%%PDF-1.7\n%%\xe2\xe3\xcf\xd3\n")
	off := map[int]int{}
	for _, n := range d.nums() {
		off[n] = b.Len()
		if strings.HasPrefix(d.objs[n], "RAW:") {
			b.WriteString(d.objs[n][4:])
			continue
		}
		fmt.Fprintf(&b, "%d 0 obj\n%s\nendobj\n", n, d.objs[n])
	}
	xref := b.Len()
	max := d.maxNum()
	fmt.Fprintf(&b, "xref\n0 %d\n0000000000 65535 f \n", max+1)
	for n := 1; n <= max; n++ {
		if o, ok := off[n]; ok {
			fmt.Fprintf(&b, "%010d 00000 n \n", o)
		} else {
			b.WriteString("0000000000 65535 f \n")
		}
	}
	fmt.Fprintf(&b, "trailer\n<</Size %d/Root 1 0 R>>\nstartxref\n%d\n%s%%%%EOF\n", max+1, xref, tail)
	return b.Bytes()
}

func boundaryDocs() []gdoc {
	var out []gdoc
	base := func() map[int]string {
		return map[int]string{
			1: "<</Type/Catalog/Pages 2 0 R>>",
			2: "<</Type/Pages/Kids[3 0 R]/Count 1/MediaBox[0 0 200 200]>>",
			3: "<</Type/Page/Parent 2 0 R>>",
			5: "<</Foo(" + strings.Repeat("x", 5000) + ")>>",
		}
	}
	tails := []string{"endobj", "endobjxref", "endobjstartxref", "endobj xref", "endobjxref ", "endobjx", "endobj5 0 obj", "endobjtrailer", "endobjendobj", "endobjendobjxref",
		"endobjxrefxref", "xref", "startxref", "trailer", "endstream", "streamxref", "endobjstream", "endobjstreamxref"}
	afters := []string{"\n", "", " ", "x", "\r", "\x00", "%"}
	for _, B := range []int{1024, 2048, 4096} {
		for _, tail := range tails {
			for _, delta := range []int{-6, -4, -3, -2, -1, 0, 1, 2, 5} {
				for ai, after := range afters {
					if delta != 0 && ai > 1 {
						continue
					}
					head := "4 0 obj\n<<>>"
					n := B + delta - len(head) - len(tail)
					if n < 0 {
						continue
					}
					o := base()
					o[4] = "RAW:" + head + strings.Repeat(" ", n) + tail + after
					if after != "\n" {
						o[4] += "" // next object follows immediately
					}
					out = append(out, gdoc{fmt.Sprintf("kw-%d%+d-%s-after%q", B, delta, tail, after), rawDoc(o, ""), ""})
				}
			}
		}
		// stream objects: the 'stream' / 'endstream' / 'endobj' keywords at the boundary
		for _, delta := range []int{-7, -6, -3, -1, 0, 1, 2} {
			for _, eol := range []string{"\n", "\r\n", "\r", " ", ""} {
				head := "4 0 obj\n<</Length 5"
				tail := ">>stream"
				n := B + delta - len(head) - len(tail)
				o := base()
				o[4] = "RAW:" + head + strings.Repeat(" ", n) + tail + eol + "hello\nendstream\nendobj\n"
				out = append(out, gdoc{fmt.Sprintf("kw-%d%+d-stream-eol%q", B, delta, eol), rawDoc(o, ""), ""})
				// endstream / endobj ending at the boundary, counted from the object start
				pre := "4 0 obj\n<</Length "
				for _, kw := range []string{"endstream", "endobj"} {
					for _, sep := range []string{"\n", ""} {
						rest := "endstream" + sep + "endobj"
						if kw == "endstream" {
							rest = "endstream"
						}
						dataLen := B + delta - len(pre) - 4 - len(">>\nstream\n") - len("\n") - len(rest)
						if dataLen < 0 {
							continue
						}
						body := fmt.Sprintf("%s%04d>>\nstream\n%s\n", pre, dataLen, strings.Repeat("d", dataLen)) + rest
						if kw == "endstream" {
							body += sep + "endobj"
						}
						o := base()
						o[4] = "RAW:" + body + eol
						out = append(out, gdoc{fmt.Sprintf("kw-%d%+d-%s-sep%q-eol%q", B, delta, kw, sep, eol), rawDoc(o, ""), ""})
					}
				}
			}
		}
		// the end of the file: startxref / trailer / xref relative to the tail buffer
		for _, delta := range []int{-10, -9, -5, -1, 0, 1, 4, 9} {
			out = append(out, gdoc{fmt.Sprintf("kw-tail-%d%+d", B, delta), rawDoc(base(), "%"+strings.Repeat("p", B+delta-20)+"\n"), ""})
		}
	}
	return out
}

// ------------------------------------------------------------------ revisions and /Prev

type revSpec struct {
	kind string // "table" | "stream" | "hybrid"
	prev string // "" | "a<i>" (section i, 1-based) | "a<i>+k" | "a<i>-k" | "zero" | literal digits
}

// revisionDoc builds len(specs) revisions; pad = bytes of comment in front of revision 1.
func revisionDoc(specs []revSpec, pad int) []byte {
	build := func(offs []int) ([]byte, []int) {
		sel := func(p string) string {
			if p == "" {
				return ""
			}
			if p == "zero" {
				return "/Prev 0000000000"
			}
			if p[0] != 'a' {
				return "/Prev " + p
			}
			var i, k int
			sign := 1
			rest := p[1:]
			if j := strings.IndexAny(rest, "+-"); j >= 0 {
				fmt.Sscanf(rest[:j], "%d", &i)
				fmt.Sscanf(rest[j+1:], "%d", &k)
				if rest[j] == '-' {
					sign = -1
				}
			} else {
				fmt.Sscanf(rest, "%d", &i)
			}
			v := 0
			if i >= 1 && i <= len(offs) {
				v = offs[i-1]
			}
			v += sign * k
			if v < 0 {
				v = 0
			}
			return fmt.Sprintf("/Prev %010d", v)
		}
		var b bytes.Buffer
		b.WriteString("%PDF-1.7\n%\xe2\xe3\xcf\xd3\n")
		if pad > 0 {
			b.WriteString("% " + strings.Repeat("p", pad) + "\n")
		}
		var secs []int
		size := 4
		for ri, sp := range specs {
			type ent struct{ nr, off int }
			var ents []ent
			if ri == 0 {
				for nr, body := range map[int]string{1: "<</Type/Catalog/Pages 2 0 R>>", 2: "<</Type/Pages/Kids[3 0 R]/Count 1>>", 3: "<</Type/Page/Parent 2 0 R/MediaBox[0 0 200 200]>>"} {
					_ = nr
					_ = body
				}
				for _, nr := range []int{1, 2, 3} {
					body := map[int]string{1: "<</Type/Catalog/Pages 2 0 R>>", 2: "<</Type/Pages/Kids[3 0 R]/Count 1>>", 3: "<</Type/Page/Parent 2 0 R/MediaBox[0 0 200 200]>>"}[nr]
					ents = append(ents, ent{nr, b.Len()})
					fmt.Fprintf(&b, "%d 0 obj\n%s\nendobj\n", nr, body)
				}
			} else {
				nr := 3 + ri
				ents = append(ents, ent{nr, b.Len()})
				fmt.Fprintf(&b, "%d 0 obj\n<</Producer(rev%d)>>\nendobj\n", nr, ri+1)
				size = nr + 1
			}
			info := ""
			if ri > 0 {
				info = fmt.Sprintf("/Info %d 0 R", 3+ri)
			}
			switch sp.kind {
			case "stream":
				xnr := 20 + ri
				secs = append(secs, b.Len())
				var data bytes.Buffer
				idx := ""
				if ri == 0 {
					data.Write([]byte{0, 0, 0, 0, 0, 0xff, 0xff})
					idx = "0 4 "
				}
				for _, e := range ents {
					data.Write(be(1, 1))
					data.Write(be(e.off, 4))
					data.Write(be(0, 2))
				}
				if ri > 0 {
					idx = fmt.Sprintf("%d 1 ", ents[0].nr)
				}
				data.Write(be(1, 1))
				data.Write(be(b.Len(), 4))
				data.Write(be(0, 2))
				idx += fmt.Sprintf("%d 1", xnr)
				fmt.Fprintf(&b, "%d 0 obj\n<</Type/XRef/Size %d/Index[%s]/W[1 4 2]/Root 1 0 R%s%s/Length %d>>\nstream\n", xnr, xnr+1, idx, info, sel(sp.prev), data.Len())
				b.Write(data.Bytes())
				b.WriteString("\nendstream\nendobj\n")
			default:
				xstm := ""
				if sp.kind == "hybrid" {
					// a small xref stream in front of the table, named by /XRefStm
					xnr := 20 + ri
					xo := b.Len()
					var data bytes.Buffer
					data.Write(be(1, 1))
					data.Write(be(xo, 4))
					data.Write(be(0, 2))
					fmt.Fprintf(&b, "%d 0 obj\n<</Type/XRef/Size %d/Index[%d 1]/W[1 4 2]/Length %d>>\nstream\n", xnr, xnr+1, xnr, data.Len())
					b.Write(data.Bytes())
					b.WriteString("\nendstream\nendobj\n")
					xstm = fmt.Sprintf("/XRefStm %d", xo)
				}
				secs = append(secs, b.Len())
				if ri == 0 {
					b.WriteString("xref\n0 4\n0000000000 65535 f \n")
				} else {
					fmt.Fprintf(&b, "xref\n%d 1\n", ents[0].nr)
				}
				for _, e := range ents {
					fmt.Fprintf(&b, "%010d 00000 n \n", e.off)
				}
				fmt.Fprintf(&b, "trailer\n<</Size %d/Root 1 0 R%s%s%s>>\n", size, info, sel(sp.prev), xstm)
			}
			fmt.Fprintf(&b, "startxref\n%d\n%%%%EOF\n", secs[len(secs)-1])
		}
		return b.Bytes(), secs
	}
	_, offs := build(make([]int, len(specs)))
	// offsets are stable because every /Prev is written with a fixed width
	pdf, _ := build(offs)
	return pdf
}

func revisionDocs(r *rand.Rand, nRandom int) []gdoc {
	var out []gdoc
	prevs := func(n int) []string {
		l := []string{"", "zero", "9999999999", "0000000007"}
		for i := 1; i <= n; i++ {
			a := fmt.Sprintf("a%d", i)
			l = append(l, a, a+"+1", a+"-1", a+"+2", a+"-7", a+"+5")
		}
		return l
	}
	// two revisions: every pair of /Prev values, both kinds, short and long first revision
	for _, kind := range []string{"table", "stream"} {
		for _, pad := range []int{0, 600} {
			ps := prevs(2)
			for _, p1 := range ps {
				for _, p2 := range ps {
					if strings.ContainsAny(p1, "+-") && strings.ContainsAny(p2, "+-") {
						continue
					}
					out = append(out, gdoc{fmt.Sprintf("rev2-%s-pad%d-%s-%s", kind, pad, p1, p2),
						revisionDoc([]revSpec{{kind, p1}, {kind, p2}}, pad), ""})
				}
			}
		}
	}
	// three revisions, exact section offsets only: every triple for tables, long and short
	for _, pad := range []int{0, 600} {
		ps := []string{"", "a1", "a2", "a3"}
		for _, p1 := range ps {
			for _, p2 := range ps {
				for _, p3 := range ps {
					out = append(out, gdoc{fmt.Sprintf("rev3-table-pad%d-%s-%s-%s", pad, p1, p2, p3),
						revisionDoc([]revSpec{{"table", p1}, {"table", p2}, {"table", p3}}, pad), ""})
				}
			}
		}
	}
	kinds := []string{"table", "stream", "hybrid"}
	for i := 0; i < nRandom; i++ {
		n := 2 + r.Intn(3)
		ps := prevs(n)
		specs := make([]revSpec, n)
		var names []string
		for k := range specs {
			specs[k] = revSpec{kinds[r.Intn(3)], ps[r.Intn(len(ps))]}
			if k > 0 && r.Intn(2) == 0 {
				specs[k].prev = fmt.Sprintf("a%d", k) // the regular link
			}
			names = append(names, specs[k].kind[:1]+specs[k].prev)
		}
		pad := []int{0, 300, 480, 520, 600, 1100}[r.Intn(6)]
		out = append(out, gdoc{fmt.Sprintf("rev%d-rand-pad%d-%s", n, pad, strings.Join(names, "_")), revisionDoc(specs, pad), ""})
	}
	return out
}
