open Model
open Common
let w64 = z_of_int 64
let res_bytes r = match r with Ok v -> "ok:" ^ hex_of_bytes v | Err -> "err"
let tri_of_str s = match s with "F" -> TFalse | "T" -> TTrue | _ -> TUnknown
let str_of_tri t = match t with TFalse -> "F" | TTrue -> "T" | TUnknown -> "U"
(* contents: "-" = no /Contents hex literal, otherwise "v" followed by the hex of Value() *)
let sf_of s = match s with "rfc3161" -> SF_RFC3161 | "cades" -> SF_CAdES | "pkcs7" -> SF_PKCS7Detached | _ -> SF_Other
let contents_of s = if s = "-" then None else Some (bytes_of_hex (String.sub s 1 (String.length s - 1)))
let dispatch fn args = match fn, args with
  | "byteRangeEnd", [a; b] -> res_z (byteRangeEnd w64 (z_of_hex a) (z_of_hex b))
  | "validateByteRange", [a; b; c; d] ->
      res_z (validateByteRange (((z_of_hex a, z_of_hex b), z_of_hex c), z_of_hex d))
  | "byteRangeValues", [arr] ->
      (match byteRangeValues (zlist_of_string arr) with
       | Ok (((a, b), c), d) -> "ok:" ^ string_of_zlist [a; b; c; d]
       | Err -> "err")
  | "contentsGapMatches", [gap; c] -> str_of_bool (contentsGapMatches (bytes_of_hex gap) (bytes_of_hex c))
  | "bytesForByteRange", [f; arr] -> res_bytes (bytesForByteRange (bytes_of_hex f) (zlist_of_string arr))
  | "signedData", [f; arr; c] -> res_bytes (signedData (bytes_of_hex f) (zlist_of_string arr) (contents_of c))
  | "boundaryOK", [fsize; arr; incr; dts; sf] ->
      str_of_bool (boundaryOK (z_of_hex fsize) (zlist_of_string arr) (z_of_hex incr) (bool_of_str dts) (sf_of sf))
  | "applyHistorical", [incr; dts; sf; d] ->
      str_of_tri (applyHistorical (z_of_hex incr) (bool_of_str dts) (sf_of sf) (tri_of_str d))
  | "docModified", [v; fsize; f; arr; c; incr; dts; sf] ->
      str_of_tri (docModifiedWith (tri_of_str v) (z_of_hex fsize) (bytes_of_hex f) (zlist_of_string arr)
                    (contents_of c) (z_of_hex incr) (bool_of_str dts) (sf_of sf))
  | "docModifiedP7", [good; goodsig; hasattrs; sha1ok; sigok; cmsc; fsize; f; arr; c; incr; dts] ->
      str_of_tri (docModifiedP7With (bytes_of_hex good) (bytes_of_hex goodsig) (bool_of_str hasattrs) (bool_of_str sha1ok)
                    (bool_of_str sigok) (bytes_of_hex cmsc)
                    (z_of_hex fsize) (bytes_of_hex f) (zlist_of_string arr) (contents_of c) (z_of_hex incr) (bool_of_str dts) SF_Other)
  | "docModifiedP1", [good; fsize; f; arr; c; incr; dts] ->
      str_of_tri (docModifiedP1With (bytes_of_hex good)
                    (z_of_hex fsize) (bytes_of_hex f) (zlist_of_string arr) (contents_of c) (z_of_hex incr) (bool_of_str dts) SF_Other)
  | "p7Status", [auth; all; signers] ->
      (* signers: comma separated triples of 0/1: sigAuth digestOK otherOK *)
      let b c = (c = '1') in
      let l = if signers = "" then [] else
        List.map (fun t -> { sigAuth = b t.[0]; digestOK = b t.[1]; otherOK = b t.[2] }) (String.split_on_char ',' signers) in
      (match p7StatusOf (bool_of_str auth) (bool_of_str all) l with
       | StValid -> "valid" | StInvalid -> "invalid" | StUnknown -> "unknown")
  | _ -> failwith ("unknown function " ^ fn)
let () = main dispatch
