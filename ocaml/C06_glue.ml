(* C06 glue: requests from go/cmd/c06 -> extracted protocol runs -> canonical result string.
   Wire formats
     dir      hex components joined by '.'            e.g. 1.2
     tree     dir=name:mode:hexdata,name:mode:hexdata ; dir= ; ...
     names    hex joined by ','
     fault    '-' or hex call index
   Result:  e<0|1> w<n> m<labels named by the error>|trace|tree
   Directories made by mkdirTemp are labelled t<k>, files made by createTemp T<k>, by order of creation. *)
open Model
open Common

let pos_of_hex_exn s = match pos_of_hex s with Some p -> p | None -> failwith ("bad positive " ^ s)
let split c s = if s = "" then [] else String.split_on_char c s
let dir_of s = List.map pos_of_hex_exn (split '.' s)
let names_of s = List.map pos_of_hex_exn (split ',' s)
let fault s = if s = "-" then None else Some (nat_of_int (int_of_string ("0x" ^ s)))
let file_of e = match String.split_on_char ':' e with
  | [n; md; d] -> (pos_of_hex_exn n, { fdata = bytes_of_hex d; fmode = n_of_hex md })
  | _ -> failwith ("bad file entry " ^ e)
let content_list s = List.map file_of (split ',' s)
let tree_of_string s =
  tree_of_list (List.map (fun e -> match String.index_opt e '=' with
    | Some i -> (dir_of (String.sub e 0 i), content_list (String.sub e (i + 1) (String.length e - i - 1)))
    | None -> failwith ("bad tree entry " ^ e)) (split ';' s))

(* ---- labels ---- *)
type labels = { mutable dirs : (positive list * int) list; mutable files : ((positive list * positive) * int) list }

let rec take k l = if k <= 0 then [] else match l with [] -> [] | x :: r -> x :: take (k - 1) r

let dir_label lb (d : positive list) =
  if d = [] then "src" else
  let n = List.length d in
  String.concat "/" (List.mapi (fun i c ->
    let pre = take (i + 1) d in
    match List.assoc_opt pre lb.dirs with
    | Some k -> "t" ^ string_of_int k
    | None -> if i + 1 = n && false then "" else hex_of_pos c) d)

let file_label lb d n =
  match List.assoc_opt (d, n) lb.files with
  | Some k -> "T" ^ string_of_int k
  | None -> hex_of_pos n

let path_label lb = function
  | PDir d -> dir_label lb d
  | PFile (d, n) -> dir_label lb d ^ "/" ^ file_label lb d n

let str_res op r = match r with
  | None -> "ok"
  | Some EIO -> "eio"
  | Some ENOENT -> (match op with DRemove -> "ok" | _ -> "nat")
  | Some EEXIST -> "nat"

let str_op = function
  | DMkdirTemp -> "mkdirtemp" | DCreateTemp -> "createtemp" | DLstat -> "lstat" | DEncode -> "encode"
  | DChmod -> "chmod" | DSync -> "sync" | DClose -> "close" | DVerify -> "verify" | DRename -> "rename"
  | DRemove -> "remove" | DRemoveAll -> "removeall" | DSyncDir -> "syncdir" | DSave -> "save"

(* walk the trace in order; a temp file that is renamed keeps no label (its new name is a target) *)
let render_trace lb (evs : devent list) =
  String.concat ";" (List.map (fun e ->
    let ok = (e.de_res = None) in
    (match e.de_op, e.de_p with
     | DMkdirTemp, PDir d when ok -> lb.dirs <- (d, List.length lb.dirs + 1) :: lb.dirs
     | DCreateTemp, PFile (d, n) when ok -> lb.files <- ((d, n), List.length lb.files + 1) :: lb.files
     | _ -> ());
    let args = match e.de_op with
      | DMkdirTemp -> if ok then path_label lb e.de_p else "t?"
      | DCreateTemp -> if ok then path_label lb e.de_p else "T?"
      | DRename -> path_label lb e.de_p ^ "," ^ path_label lb e.de_q
      | _ -> path_label lb e.de_p in
    str_op e.de_op ^ "(" ^ args ^ ")=" ^ str_res e.de_op e.de_res) evs)

let render_tree lb t =
  let ds = List.map (fun (d, fl) ->
    let fs = List.sort compare (List.map (fun (n, f) ->
      file_label lb d n ^ ":" ^ hex_of_n f.fmode ^ ":" ^ hex_of_bytes f.fdata) fl) in
    dir_label lb d ^ "=" ^ String.concat "," fs) (tree_to_list t) in
  String.concat ";" (List.sort compare ds)

let mentions lb (e : oerr) =
  match e with
  | None -> ""
  | Some l ->
    let ls = List.filter_map (function
      | PDir d -> (match List.assoc_opt d lb.dirs with Some k -> Some ("t" ^ string_of_int k) | None -> None)
      | PFile (d, n) -> (match List.assoc_opt (d, n) lb.files with Some k -> Some ("T" ^ string_of_int k) | None -> None)) l in
    String.concat "," (List.sort_uniq compare ls)

let b01 b = if b then "1" else "0"

let render (e : oerr) (pub : bool) (nwarn : int) (w : dworld) =
  let lb = { dirs = []; files = [] } in
  let tr = render_trace lb (List.rev w.dtr) in
  let tree = render_tree lb w.wt in
  "e" ^ b01 (e <> None) ^ " w" ^ string_of_int nwarn ^ " m" ^ mentions lb e ^ "|" ^ tr ^ "|" ^ tree

let render_res ((r, w) : res0 * dworld) = render r.r_err r.r_pub (List.length r.r_warn) w

let member_of s = match String.split_on_char ':' s with
  | ["i"] -> MInvalid
  | ["v"; raw; n; d] -> MValid (pos_of_hex_exn raw, pos_of_hex_exn n, bytes_of_hex d)
  | _ -> failwith ("bad member " ^ s)
let imp_of s = match String.split_on_char ':' s with
  | [o; d; v] -> ((pos_of_hex_exn o, bytes_of_hex d), v = "1")
  | _ -> failwith ("bad import " ^ s)
let junk_of s = List.map (fun e -> match String.index_opt e '=' with
    | Some i -> (pos_of_hex_exn (String.sub e 0 i), content_of_list (content_list (String.sub e (i + 1) (String.length e - i - 1))))
    | None -> failwith ("bad junk " ^ e)) (split ';' s)
let variant_of = function "coll" -> VColl | "cheat" -> VCheat | s -> failwith ("bad variant " ^ s)
let natarg s = nat_of_int (int_of_string ("0x" ^ s))

let dispatch fn args = match fn, args with
  | "gob", [f1; f2; kp; bound; init; d; n; data] ->
    let ((e, pub), w) = run_gob (fault f1) (fault f2) (natarg kp) (pos_of_hex_exn bound) (tree_of_string init)
                          (dir_of d) (pos_of_hex_exn n) (bytes_of_hex data) in
    render e pub 0 w
  | "commit", [v; f1; f2; init; f; s; names] ->
    render_res (run_commit (variant_of v) (fault f1) (fault f2) (tree_of_string init) (dir_of f) (dir_of s) (names_of names))
  | "collection", [f1; f2; kp; bound; init; f; ms] ->
    render_res (run_collection (fault f1) (fault f2) (natarg kp) (pos_of_hex_exn bound) (tree_of_string init) (dir_of f)
                  (List.map member_of (split ',' ms)))
  | "decide", [ms] ->
    (match run_decide (List.map member_of (split ',' ms)) with
     | Accept -> "accept"
     | RejInvalid k -> "invalid:" ^ string_of_int (int_of_nat k + 1)
     | RejDup k -> "dup:" ^ string_of_int (int_of_nat k + 1))
  | "fonts", [f1; f2; init; f; sc; junk; sok; names; rok] ->
    render_res (run_fonts (fault f1) (fault f2) (tree_of_string init) (dir_of f) (content_of_list (content_list sc))
                  (junk_of junk) (bool_of_str sok) (names_of names) (bool_of_str rok))
  | "cheat", [f1; f2; init; f; sc; sok; names] ->
    render_res (run_cheat (fault f1) (fault f2) (tree_of_string init) (dir_of f) (content_of_list (content_list sc))
                  (bool_of_str sok) (names_of names))
  | "certs", [f1; f2; bound; init; c; imps] ->
    render_res (run_certs (fault f1) (fault f2) (pos_of_hex_exn bound) (tree_of_string init) (dir_of c)
                  (List.map imp_of (split ',' imps)))
  | _ -> failwith ("unknown function " ^ fn)
let () = main dispatch
