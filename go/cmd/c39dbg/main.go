package main

import (
	"bytes"
	"encoding/json"
	"fmt"
	"os"
	"strconv"
	"strings"

	"github.com/pdfcpu/pdfcpu/pkg/api"
	"github.com/pdfcpu/pdfcpu/pkg/pdfcpu"
	"github.com/pdfcpu/pdfcpu/pkg/pdfcpu/model"
	"github.com/pdfcpu/pdfcpu/pkg/pdfcpu/types"
)

func main() {
	api.DisableConfigDir()
	var ops []string
	b, _ := os.ReadFile("/tmp/c39-ops.json")
	json.Unmarshal(b, &ops)
	t := &model.Node{}
	for _, o := range ops {
		f := strings.SplitN(o, " ", 2)
		if f[0] == "add" {
			g := strings.SplitN(f[1], " ", 2) // rn=.. rest
			rest := g[1]
			i := strings.LastIndex(rest, " ")
			k, err := strconv.Unquote(rest[:i])
			if err != nil {
				panic(err)
			}
			v, _ := strconv.Atoi(rest[i+1:])
			var nm model.NameMap
			if g[0] == "rn=true" {
				nm = model.NameMap{k: nil}
			}
			t.Add(nil, k, types.Integer(v), nm, nil)
		} else {
			k, err := strconv.Unquote(f[1])
			if err != nil {
				panic(err)
			}
			t.Remove(nil, k)
		}
	}
	fmt.Printf("final tree: %q\n", t.String())
	kl, _ := t.KeyList()
	fmt.Printf("keys: %q\n", kl)

	xrt, _ := pdfcpu.CreateDemoXRef()
	rootDict, _ := xrt.Catalog()
	p := model.Page{MediaBox: types.RectForFormat("A4"), Fm: model.FontMap{}, Buf: new(bytes.Buffer)}
	pdfcpu.AddPageTreeWithSamplePage(xrt, rootDict, p)
	ctx := pdfcpu.CreateContext(xrt, model.NewDefaultConfiguration())
	ctx.EnsurePageCount()
	_, pageRef, _, _ := ctx.PageDict(1, false)
	var clone func(n *model.Node) *model.Node
	clone = func(n *model.Node) *model.Node {
		c := &model.Node{Kmin: n.Kmin, Kmax: n.Kmax}
		if len(n.Kids) == 0 {
			n.Process(nil, func(_ *model.XRefTable, k string, o *types.Object) error {
				c.AppendToNames(k, types.Array{*pageRef, types.Name("XYZ"), *o, types.Integer(0), types.Integer(0)})
				return nil
			})
		}
		for _, k := range n.Kids {
			c.Kids = append(c.Kids, clone(k))
		}
		return c
	}
	tree := clone(t)
	ctx.LocateNameTree("Dests", true)
	tree.D = ctx.Names["Dests"].D
	ctx.Names["Dests"] = tree
	var buf bytes.Buffer
	if err := api.WriteContext(ctx, &buf); err != nil {
		fmt.Println("write err", err)
	}
	s := buf.String()
	if i := strings.Index(s, "/Names"); i >= 0 {
		fmt.Println("has /Names in output")
	}
	for _, l := range strings.Split(s, "\n") {
		if strings.Contains(l, "Names") || strings.Contains(l, "Dests") || strings.Contains(l, "Limits") {
			fmt.Println("  ", l)
		}
	}
	conf := model.NewDefaultConfiguration()
	conf.ValidationMode = model.ValidationStrict
	ctx2, err := api.ReadValidateAndOptimize(bytes.NewReader(buf.Bytes()), conf)
	fmt.Println("read err:", err)
	if ctx2 != nil {
		fmt.Println("Names after read:", ctx2.Names, ctx2.Names["Dests"])
	}
}
