// Harness for C05: extracted files never escape the output directory or clobber each other.
//
// K (correspondence): sanitize.Path / PathOr, filepath.Clean/Join/Base/Dir, attachmentOutputPath,
// attachmentReservationPath, writeAttachments (real file system), WriteImageToDisk / WriteFontToDisk,
// multiFillCSVOutputFile, bookmark split names and the unicode tables are run against the
// extracted Gallina model, byte for byte.
// O (oracle): the property itself is evaluated on the real functions with independent means
// (unicode/utf8, path/filepath Rel/Dir/Base, directory listings of a jail directory).
package main

import (
	"bytes"
	"errors"
	"fmt"
	"io/fs"
	"os"
	"path/filepath"
	"sort"
	"strings"
	"syscall"
	"unicode"
	"unicode/utf8"

	"github.com/pdfcpu/pdfcpu/pkg/api"
	"github.com/pdfcpu/pdfcpu/pkg/pdfcpu"
	"github.com/pdfcpu/pdfcpu/pkg/pdfcpu/model"
	"github.com/pdfcpu/pdfcpu/pkg/pdfcpu/sanitize"
	"github.com/pdfcpu/pdfcpu/pkg/pdfcpu/types"
	"verif/vh"
)

const scratch = "/tmp/c05-scratch/run"

var r *vh.Run

var alphabet = []string{
	"/", "\\", ".", " ", "\x00", "\x01", "\x1f", "\t", "\n", "\x7f", "\x80", "\xc0", "\xff", "\xc2", "\xe2\x80",
	"\u0085", "\u00a0", "\u009f", "\u2215", "\uff0f", "\u202e", "\u2028", "\u3000", "\ufffd", "a", "A", "_", ":",
	"*", "<", "|", "?", "\"", "CON", "nul", "com1", "LPT9", "\u0131", "\u017f", "c", "N", "1", "-", "\U0001F600",
	"\xed\xa0\x80", "\xf4\x90\x80\x80", "\xe0\x80\xaf", "\xc0\xaf", "..", "C:", "aux.txt", "\u1680", ">",
}

var devices = map[string]bool{}

func init() {
	for _, d := range []string{"CON", "PRN", "AUX", "NUL"} {
		devices[d] = true
	}
	for i := 1; i <= 9; i++ {
		devices[fmt.Sprintf("COM%d", i)] = true
		devices[fmt.Sprintf("LPT%d", i)] = true
	}
}

// unsafeName is the property's statement about one produced file name, evaluated independently
// of the sanitizer: returns "" if the name is a harmless single path component.
func unsafeName(n string) string {
	switch {
	case n == "":
		return "empty"
	case n == "." || n == "..":
		return "dot"
	case !utf8.ValidString(n):
		return "invalid-utf8"
	case n[0] == ' ' || n[0] == '.':
		return "leading-space-or-dot"
	case n[len(n)-1] == ' ' || n[len(n)-1] == '.':
		return "trailing-space-or-dot"
	}
	for _, c := range n {
		switch {
		case c == '/' || c == '\\':
			return "separator"
		case c == 0:
			return "nul"
		case c < 0x20 || unicode.IsControl(c):
			return "control"
		case strings.ContainsRune(`<>:"|?*`, c):
			return "special"
		}
	}
	stem := n
	if i := strings.IndexByte(stem, '.'); i >= 0 {
		stem = stem[:i]
	}
	if devices[strings.ToUpper(stem)] {
		return "device-name"
	}
	return ""
}

var oracleDirs = []string{"/tmp/out", "/", "out", ".", "../x", "/a/../b/", "", "a//b/."}

// escapes reports whether joining name to dir yields anything but a direct child of dir.
func escapes(dir, name string) string {
	p := filepath.Join(dir, name)
	cd := filepath.Clean(dir)
	if dir == "" {
		cd = "."
	}
	if filepath.Dir(p) != cd {
		return fmt.Sprintf("Dir(%q)=%q want %q", p, filepath.Dir(p), cd)
	}
	if filepath.Base(p) != name {
		return fmt.Sprintf("Base(%q)=%q want %q", p, filepath.Base(p), name)
	}
	rel, err := filepath.Rel(cd, p)
	if err != nil || rel != name {
		return fmt.Sprintf("Rel(%q,%q)=%q,%v", cd, p, rel, err)
	}
	return ""
}

func checkName(class string, input map[string]any, n string) {
	if u := unsafeName(n); u != "" {
		r.OracleFail(class+"-"+u, input, fmt.Sprintf("produced name %q", n))
		return
	}
	for _, d := range oracleDirs {
		if e := escapes(d, n); e != "" {
			r.OracleFail(class+"-escapes-dir", input, e)
			return
		}
	}
	r.OracleOK()
}

func doPath(s string) {
	var got string
	var err error
	func() {
		defer func() {
			if p := recover(); p != nil {
				err = fmt.Errorf("panic: %v", p)
				r.OracleFail("sanitize-path-panic", map[string]any{"s_hex": vh.Hex([]byte(s))}, err.Error())
			}
		}()
		got, err = sanitize.Path(s)
	}()
	res := "err"
	if err == nil {
		res = "ok:" + vh.Hex([]byte(got))
		checkName("sanitize-path", map[string]any{"fn": "sanitize.Path", "s_hex": vh.Hex([]byte(s))}, got)
		r.Count("class:path-ok")
	} else {
		r.Count("class:path-rejected")
	}
	r.Case("Path", []string{vh.Hex([]byte(s))}, res)
}

func randString() string {
	n := 1 + r.Rand.Intn(40)
	var b strings.Builder
	for i := 0; i < n; i++ {
		switch r.Rand.Intn(10) {
		case 0:
			b.WriteByte(byte(r.Rand.Intn(256)))
		case 1:
			b.WriteRune(rune(r.Rand.Intn(0x3100)))
		case 2:
			b.WriteRune(rune(r.Rand.Intn(0x110000)))
		default:
			b.WriteString(alphabet[r.Rand.Intn(len(alphabet))])
		}
	}
	return b.String()
}

func pathCases() {
	doPath("")
	for _, a := range alphabet {
		doPath(a)
		for _, b := range alphabet {
			doPath(a + b)
		}
	}
	if r.Thorough() {
		for _, a := range alphabet {
			for _, b := range alphabet {
				for _, c := range alphabet {
					doPath(a + b + c)
				}
			}
		}
	} else {
		for i := 0; i < 12000; i++ {
			doPath(alphabet[r.Rand.Intn(len(alphabet))] + alphabet[r.Rand.Intn(len(alphabet))] + alphabet[r.Rand.Intn(len(alphabet))])
		}
	}
	// every single byte, every byte after/before a letter, all 2-byte combinations of non-ASCII lead bytes
	for b := 0; b < 256; b++ {
		doPath(string([]byte{byte(b)}))
		doPath(string([]byte{'a', byte(b)}))
		doPath(string([]byte{byte(b), ':', 'x'}))
		doPath(string([]byte{byte(b), 'a', '.'}))
	}
	for i := 0; i < r.Pick(3000, 40000); i++ {
		doPath(randString())
	}
	// Latin-1 and assorted code points one by one, embedded at both ends
	for c := rune(0); c < 0x3100; c++ {
		if !r.Thorough() && c > 0x300 && c%7 != 0 {
			continue
		}
		doPath("x" + string(c) + "." + string(c))
		doPath(string(c) + "y")
	}
	for _, fb := range []string{"file", "image", "img", "fontName", "fontType", "metadata", "form", "poster", "ndown", "cut"} {
		checkName("fallback-literal", map[string]any{"fallback": fb}, fb)
		for i := 0; i < 40; i++ {
			s := randString()
			got := api.VerifC05SanitizeFilenamePart(s, fb)
			r.Case("PathOr", []string{vh.Hex([]byte(s)), vh.Hex([]byte(fb))}, vh.Hex([]byte(got)))
			checkName("sanitize-filename-part", map[string]any{"s_hex": vh.Hex([]byte(s)), "fallback": fb}, got)
		}
	}
}

func unicodeTables() {
	const chunk = 0x800
	for lo := rune(0); lo < 0x110000; lo += chunk {
		var parts []string
		for c := lo; c < lo+chunk; c++ {
			f := 0
			if unicode.IsSpace(c) {
				f |= 1
			}
			if unicode.IsControl(c) {
				f |= 2
			}
			u := unicode.ToUpper(c)
			up := rune(0)
			if u < 0x80 && u != c {
				up = u
			}
			if f != 0 || up != 0 {
				parts = append(parts, fmt.Sprintf("%x:%x:%x", c, f, up))
			}
		}
		r.Case("classRange", []string{vh.Int(int64(lo)), vh.Int(chunk)}, strings.Join(parts, ","))
	}
	// decode/encode against the Go runtime on the adversarial alphabet
	for _, a := range alphabet {
		for _, b := range alphabet {
			s := a + b
			var items, rs []string
			for i, c := range s {
				_, w := utf8.DecodeRuneInString(s[i:])
				items = append(items, fmt.Sprintf("%x:%x", c, w))
				rs = append(rs, fmt.Sprintf("%x", c))
			}
			r.Case("decode", []string{vh.Hex([]byte(s))}, strings.Join(items, ","))
			var sb strings.Builder
			for _, c := range s {
				sb.WriteRune(c)
			}
			r.Case("encode", []string{strings.Join(rs, ",")}, vh.Hex([]byte(sb.String())))
		}
	}
	for _, c := range []rune{0, 0x7f, 0x80, 0x7ff, 0x800, 0xd7ff, 0xd800, 0xdfff, 0xe000, 0xfffd, 0xffff, 0x10000, 0x10ffff, 0x110000, 0x7fffffff} {
		var sb strings.Builder
		sb.WriteRune(c)
		r.Case("encode", []string{fmt.Sprintf("%x", c)}, vh.Hex([]byte(sb.String())))
	}
}

func words(alpha []string, maxLen int) []string {
	out := []string{""}
	prev := []string{""}
	for l := 1; l <= maxLen; l++ {
		var next []string
		for _, p := range prev {
			for _, a := range alpha {
				next = append(next, p+a)
			}
		}
		out = append(out, next...)
		prev = next
	}
	return out
}

func filepathCases() {
	for _, p := range words([]string{"/", ".", "a", "b"}, r.Pick(5, 7)) {
		h := vh.Hex([]byte(p))
		r.Case("clean", []string{h}, vh.Hex([]byte(filepath.Clean(p))))
		r.Case("base", []string{h}, vh.Hex([]byte(filepath.Base(p))))
		r.Case("dir", []string{h}, vh.Hex([]byte(filepath.Dir(p))))
	}
	ws := words([]string{"/", ".", "a"}, r.Pick(3, 4))
	for _, a := range ws {
		for _, b := range ws {
			r.Case("join2", []string{vh.Hex([]byte(a)), vh.Hex([]byte(b))}, vh.Hex([]byte(filepath.Join(a, b))))
		}
	}
	for _, n := range []int64{0, 1, 9, 10, 11, 99, 100, 101, 255, 256, 999, 1000, 65535, 1 << 31, 1<<62 + 12345, 1<<63 - 1} {
		r.Case("dec", []string{vh.Int(n)}, vh.Hex([]byte(fmt.Sprintf("%d", n))))
	}
}

var hostile = []string{
	"a", "a/", "/a", "a_b", "a/b", "a\\b", "..", "", "attachment_1", "attachment_2", "attachment_3", "CON", "_CON",
	"con.txt", "x.", "x", " x", "X", "../../etc/passwd", "..\\..\\x", "C:\\Windows\\x", "C:x", "/etc/passwd", "\x00",
	"a\x00b", "x\ny", "x_y", "x\x01\x02y", "./x", "x/.", ".x", "..x", "x..", "\u202ex", "x\u2215y", "\xff", "\ufffd",
	"\xc0\xaf", "nul", "_nul", "NUL.", "a:b", "a_b_", "a/b/", "...", " ", "x/../y", "y", "//x//", "x\\", "~", "-rf",
	"\u00a0x\u00a0", "x\u0085", "x_", "x*", "x?", "*", "com1.txt.", "lpt9", "\u0131", "file.pdf", "FILE.PDF", "../escaped", "x/../../escaped2", "..\\escaped3", "./../escaped",
}

func pickNames(n int) []string {
	out := make([]string, n)
	for i := range out {
		if r.Rand.Intn(8) == 0 {
			out[i] = randString()
			if len(out[i]) > 60 {
				out[i] = out[i][:60]
			}
		} else {
			out[i] = hostile[r.Rand.Intn(len(hostile))]
		}
	}
	return out
}

func outPathCases() {
	dirs := []string{"/tmp/out", "/", "out", ".", "../x", "/a/../b/", "a//b/.", "/tmp/c05 x/\u00e9"}
	names := append([]string{}, hostile...)
	for _, L := range []int{217, 218, 219, 220, 254, 255, 256, 300} {
		names = append(names, longName(L, 0), longName(L, 1), longName(L, 4))
	}
	for _, d := range dirs {
		for _, n := range names {
			for _, i := range []int{0, 8, 9, 122} {
				if i > 0 && r.Rand.Intn(3) != 0 {
					continue
				}
				p := api.VerifC05AttachmentOutputPath(d, i, n)
				r.Case("outPath", []string{vh.Hex([]byte(d)), vh.Int(int64(i)), vh.Hex([]byte(n))}, vh.Hex([]byte(p)))
				in := map[string]any{"fn": "attachmentOutputPath", "outDir": d, "i": i, "name_hex": vh.Hex([]byte(n))}
				cd := filepath.Clean(d)
				if filepath.Dir(p) != cd {
					r.OracleFail("attachment-output-path-escapes-dir", in, fmt.Sprintf("path %q is not a direct child of %q", p, cd))
				} else {
					checkName("attachment-output-name", in, filepath.Base(p))
				}
				rp := api.VerifC05AttachmentReservationPath(p, "00ff00ff00ff00ff")
				r.Case("resPath", []string{vh.Hex([]byte(p)), vh.Hex([]byte("00ff00ff00ff00ff"))}, vh.Hex([]byte(rp)))
				if filepath.Dir(rp) != cd || !strings.HasPrefix(filepath.Base(rp), "."+filepath.Base(p)) {
					r.OracleFail("attachment-reservation-path-escapes-dir", in, fmt.Sprintf("reservation %q for %q", rp, p))
				} else {
					r.OracleOK()
				}
			}
		}
	}
	// other call sites that compose names
	for i := 0; i < r.Pick(300, 3000); i++ {
		n := pickNames(1)[0]
		d := dirs[r.Rand.Intn(len(dirs))]
		nr := r.Rand.Intn(120)
		p := api.VerifC05MultiFillCSVOutputFile(d, "form", n, nr)
		if n != "" {
			r.Case("csvName", []string{vh.Hex([]byte(n)), vh.Hex([]byte(fmt.Sprintf("%02d", nr)))}, vh.Hex([]byte(filepath.Base(p))))
		}
		in := map[string]any{"fn": "multiFillCSVOutputFile", "outDir": d, "requested_hex": vh.Hex([]byte(n)), "nr": nr}
		childOf("multifill-output", in, d, p)
		p = api.VerifC05MultiFillJSONOutputFile(d, "form", n, nr)
		in["fn"] = "multiFillJSONOutputFile"
		childOf("multifill-output", in, d, p)
		// bookmark-titled split part: sanitize.Path(title) or bookmark_<i+1>, then splitOutPath
		fn, err := sanitize.Path(n)
		if err != nil {
			fn = fmt.Sprintf("bookmark_%d", nr+1)
		}
		p = api.VerifC05SplitOutPath(d, fn, true, 1, 2)
		r.Case("bookmarkFileName", []string{vh.Int(int64(nr)), vh.Hex([]byte(n))}, vh.Hex([]byte(filepath.Base(p))))
		childOf("bookmark-split-output", map[string]any{"fn": "splitOutPath(bookmark)", "outDir": d, "title_hex": vh.Hex([]byte(n))}, d, p)
	}
}

func childOf(class string, in map[string]any, dir, p string) {
	cd := filepath.Clean(dir)
	if filepath.Dir(p) != cd {
		r.OracleFail(class+"-escapes-dir", in, fmt.Sprintf("path %q is not a direct child of %q", p, cd))
		return
	}
	checkName(class+"-name", in, filepath.Base(p))
}

// ---- real file system runs -------------------------------------------------------------

var jailNr int

// newJail makes scratch/<n>/out and returns (jail, out).
func newJail() (string, string) {
	jailNr++
	j := filepath.Join(scratch, fmt.Sprintf("j%d", jailNr))
	o := filepath.Join(j, "out")
	if err := os.MkdirAll(o, 0o755); err != nil {
		panic(err)
	}
	return j, o
}

// listJail returns the files directly in out (full paths, sorted) and every other entry of the jail.
func listJail(jail, out string) (inside []string, outside []string) {
	filepath.WalkDir(jail, func(p string, d fs.DirEntry, err error) error {
		if err != nil || p == jail || p == out {
			return nil
		}
		if filepath.Dir(p) == out && !d.IsDir() {
			inside = append(inside, p)
		} else {
			outside = append(outside, p)
		}
		return nil
	})
	sort.Strings(inside)
	return
}

func hexList(l []string) string {
	h := make([]string, len(l))
	for i, s := range l {
		if s == "" {
			h[i] = "-"
		} else {
			h[i] = vh.Hex([]byte(s))
		}
	}
	return strings.Join(h, ",")
}

// checkExtraction is the end-to-end oracle: nothing outside out, and either an error with an empty
// out directory or exactly one intact file per attachment.
func checkExtraction(class string, in map[string]any, jail, out string, contents []string, err error) (string, []string) {
	inside, outside := listJail(jail, out)
	status := statusOf(err)
	switch {
	case len(outside) > 0:
		r.OracleFail(class+"-escapes-outdir", in, fmt.Sprintf("created outside %q: %q", out, outside))
	case err != nil && len(inside) > 0:
		r.OracleFail(class+"-collision-after-write", in, fmt.Sprintf("error %v but files were written/left: %q", err, inside))
	case err == nil && len(inside) != len(contents):
		r.OracleFail(class+"-clobbered", in, fmt.Sprintf("%d attachments, %d files: %q", len(contents), len(inside), inside))
	case err == nil:
		var got []string
		for _, p := range inside {
			b, _ := os.ReadFile(p)
			got = append(got, string(b))
			if u := unsafeName(filepath.Base(p)); u != "" {
				r.OracleFail(class+"-unsafe-name-"+u, in, fmt.Sprintf("created %q", p))
			}
		}
		want := append([]string{}, contents...)
		sort.Strings(got)
		sort.Strings(want)
		if strings.Join(got, "\x00") != strings.Join(want, "\x00") {
			r.OracleFail(class+"-clobbered", in, "file contents differ from attachment contents")
		} else {
			r.OracleOK()
		}
	default:
		r.OracleOK()
	}
	return status, inside
}

// statusOf canonicalises the error of an extraction: the model predicts ok / collision / error
// (error = a reservation marker could not be created for a reason other than EEXIST; on the test
// file system that is ENAMETOOLONG). Anything else is unexpected and shows up as a disagreement.
func statusOf(err error) string {
	switch {
	case err == nil:
		return "ok"
	case errors.Is(err, api.ErrAttachmentOutputCollision):
		return "collision"
	case errors.Is(err, syscall.ENAMETOOLONG):
		return "error"
	}
	return "unexpected-" + vh.Hex([]byte(err.Error()))
}

// longName returns a name that sanitizes to exactly L bytes; variants 0..2 sanitize to the SAME
// name ("d_BBB...B.bin"), 3 to a different one of the same length, 4 is multi-byte.
func longName(L, variant int) string {
	body := strings.Repeat("B", L-6) + ".bin"
	switch variant {
	case 0:
		return "d_" + body
	case 1:
		return "../d/" + body
	case 2:
		return "d\\" + body
	case 3:
		return "d_" + strings.Repeat("C", L-6) + ".bin"
	}
	s := strings.Repeat("\u00e9", (L-1)/2)
	return s + strings.Repeat("x", L-len(s))
}

// longSets: single names, colliding pairs/triples and non-colliding pairs whose output name or
// reservation marker name (output name + 37 bytes) is around NAME_MAX = 255.
func longSets(direct bool) [][]string {
	var out [][]string
	for L := 255 - 40 - 37; L <= 256; L++ {
		boundary := (L >= 212 && L <= 222) || L >= 250
		if !r.Thorough() && !boundary && L%4 != 0 {
			continue
		}
		out = append(out, []string{longName(L, 0)}, []string{longName(L, 4)},
			[]string{longName(L, 1), longName(L, 0)},
			[]string{"short", longName(L, 0), longName(L, 2), longName(L, 1)},
			[]string{longName(L, 0), longName(L, 3)},
			[]string{longName(L, 3), "a", longName(L-1, 3), longName(L, 1)})
		if direct {
			out = append(out, []string{longName(L, 0), longName(L, 0)}, []string{"a", longName(L, 4), longName(L, 4)})
		}
	}
	return out
}

func writeAttachmentCases() {
	var sets [][]string
	for k := 0; k < r.Pick(250, 2500); k++ {
		names := pickNames(1 + r.Rand.Intn(4))
		if k < len(hostile) {
			names = []string{hostile[k], hostile[(k*7+3)%len(hostile)]}
		}
		sets = append(sets, names)
	}
	sets = append(sets, longSets(true)...)
	for k, names := range sets {
		jail, out := newJail()
		aa := make([]model.Attachment, len(names))
		contents := make([]string, len(names))
		for i, n := range names {
			contents[i] = fmt.Sprintf("content-%d-%d", k, i)
			aa[i] = model.Attachment{Reader: strings.NewReader(contents[i]), ID: fmt.Sprintf("id%d", i), FileName: n}
		}
		var err error
		func() {
			defer func() {
				if p := recover(); p != nil {
					err = fmt.Errorf("panic: %v", p)
				}
			}()
			err = api.VerifC05WriteAttachments(out, aa)
		}()
		in := map[string]any{"fn": "writeAttachments", "names_hex": hexList(names)}
		status, inside := checkExtraction("attachment", in, jail, out, contents, err)
		// the model gets the same out directory; it answers with the final set of paths
		r.Case("writeAttachments", []string{vh.Hex([]byte(out)), hexList(names)}, status+":"+hexList(inside))
		r.Count("class:write-" + strings.SplitN(status, "-", 2)[0])
		if len(names[len(names)-1]) > 150 {
			r.Count("class:write-longname-" + strings.SplitN(status, "-", 2)[0])
		}
		os.RemoveAll(jail)
	}
}

// endToEnd builds PDFs whose embedded-file names are hostile, extracts them with the public API.
func endToEnd() {
	conf := model.NewDefaultConfiguration()
	var sets [][]string
	for k := 0; k < r.Pick(60, 600); k++ {
		names := pickNames(1 + r.Rand.Intn(4))
		if k < len(hostile)/2 {
			names = []string{hostile[2*k], hostile[2*k+1], hostile[(k*5+1)%len(hostile)]}
		}
		sets = append(sets, names)
	}
	sets = append(sets, longSets(false)...)
	for k, names := range sets {
		in := map[string]any{"fn": "api.ExtractAttachments", "ids_hex": hexList(names)}
		ctx, err := pdfcpu.CreateContextWithXRefTable(conf, types.PaperSize["A4"])
		if err != nil {
			panic(err)
		}
		seen := map[string]bool{}
		var contents []string
		for i, n := range names {
			if seen[n] || n == "" {
				continue
			}
			seen[n] = true
			c := fmt.Sprintf("e2e-%d-%d", k, i)
			if err := ctx.AddAttachment(model.Attachment{Reader: strings.NewReader(c), ID: n, FileName: n}, k%2 == 1); err != nil { // odd k: portfolio (collection)
				r.Count("class:e2e-add-rejected")
				continue
			}
			contents = append(contents, c)
		}
		if len(contents) == 0 {
			continue
		}
		var buf bytes.Buffer
		if err := api.WriteContext(ctx, &buf); err != nil {
			r.Count("class:e2e-write-failed")
			continue
		}
		raw, err := api.ExtractAttachmentsRaw(bytes.NewReader(buf.Bytes()), "", nil, conf)
		if err != nil {
			r.Count("class:e2e-read-failed")
			continue
		}
		jail, out := newJail()
		func() {
			defer func() {
				if p := recover(); p != nil {
					err = fmt.Errorf("panic: %v", p)
				}
			}()
			err = api.ExtractAttachments(bytes.NewReader(buf.Bytes()), out, nil, conf)
		}()
		contents = contents[:0]
		var seenNames []string
		for _, a := range raw {
			b := new(bytes.Buffer)
			b.ReadFrom(a)
			contents = append(contents, b.String())
			seenNames = append(seenNames, a.FileName)
		}
		status, inside := checkExtraction("extract-attachments", in, jail, out, contents, err)
		r.Case("writeAttachments", []string{vh.Hex([]byte(out)), hexList(seenNames)}, status+":"+hexList(inside))
		r.Count("class:e2e-" + strings.SplitN(status, "-", 2)[0])
		if len(names[len(names)-1]) > 150 {
			r.Count("class:e2e-longname-" + strings.SplitN(status, "-", 2)[0])
		}
		os.RemoveAll(jail)
	}
}

// image / font writers: the closure writes one file; compare its name with the model, and jail-check.
func writerCases() {
	for k := 0; k < r.Pick(150, 1500); k++ {
		nn := pickNames(3)
		jail, out := newJail()
		page := r.Rand.Intn(500)
		digits := 1 + r.Rand.Intn(4)
		var err error
		isFont := k%2 == 1
		if isFont {
			err = api.WriteFontToDisk(out, nn[0])(pdfcpu.Font{Reader: strings.NewReader("f"), Name: nn[1], Type: nn[2]})
		} else {
			err = api.WriteImageToDisk(out, nn[0])(model.Image{Reader: strings.NewReader("i"), Name: nn[1], FileType: nn[2], PageNr: page}, false, digits)
		}
		inside, outside := listJail(jail, out)
		in := map[string]any{"fn": "WriteImageToDisk/WriteFontToDisk", "font": isFont, "names_hex": hexList(nn)}
		switch {
		case len(outside) > 0:
			r.OracleFail("extract-writer-escapes-outdir", in, fmt.Sprintf("created outside %q: %q", out, outside))
		case err == nil && len(inside) != 1:
			r.OracleFail("extract-writer-no-single-file", in, fmt.Sprintf("files %q", inside))
		case err == nil:
			checkName("extract-writer-name", in, filepath.Base(inside[0]))
		default:
			r.OracleOK()
		}
		res := "error"
		if err == nil && len(inside) == 1 {
			res = vh.Hex([]byte(filepath.Base(inside[0])))
		} else if err != nil {
			res = "error:" + vh.Hex([]byte(err.Error()))
		}
		if isFont {
			r.Case("fontFileName", []string{vh.Hex([]byte(nn[0])), vh.Hex([]byte(nn[1])), vh.Hex([]byte(nn[2]))}, res)
		} else {
			r.Case("imageFileName", []string{vh.Hex([]byte(nn[0])), vh.Hex([]byte(fmt.Sprintf("%0*d", digits, page))), vh.Hex([]byte(nn[1])), vh.Hex([]byte(nn[2]))}, res)
		}
		os.RemoveAll(jail)
	}
}

func main() {
	r = vh.Start("C05")
	defer r.Finish()
	api.DisableConfigDir()
	os.RemoveAll(scratch)
	defer os.RemoveAll(scratch)
	unicodeTables()
	filepathCases()
	pathCases()
	outPathCases()
	writeAttachmentCases()
	writerCases()
	endToEnd()
	splitBookmarkCases()
	imageResourceCases()
	metadataWriterCases()
}
