From Coq Require Import Extraction ExtrOcamlBasic.
From PV Require Import Lib.ExtBase C33.Pages C32.Model.
Extraction "model.ml" ext_base_z ext_base_n ext_base_nat ext_base_res ext_base_list
  pages_of count_of wf_count run spec_run compose_rot.
