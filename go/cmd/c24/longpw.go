// AES-256 passwords around the 127-byte limit: the standard (2.A steps a, b; Algorithms 8, 9, 11, 12) prepares the
// password first and truncates the PREPARED UTF-8 to 127 bytes.  Truncating the raw input before normalisation is
// indistinguishable for short and for long ASCII passwords; it differs for long passwords that normalisation shortens
// (decomposed accents, fullwidth letters, ligatures), lengthens (U+01C6, squared katakana words), or that have a
// multi-byte rune straddling byte 127 of the raw or of the prepared string.
//
// The expected password bytes are computed by an independent route: golang.org/x/text/unicode/norm NFKC directly
// (for a letters-only repertoire SASLprep = NFKC = pdfcpu's PRECIS profile; every unit of the repertoire is
// calibrated against the real processInput on its own, i.e. far below 127 bytes) followed by our own truncation.
// O: pdfcpu's decisions on documents written by the independent writer, and the entries pdfcpu writes, per direction.
// K: the code model (password bytes = firstn 127 (prep raw)) with prep = the independent NFKC, against the real
//    validate*/calcOAndU functions (SHA-2/AES replayed from a tape).
package main

import (
	"bytes"
	"fmt"
	"strings"
	"unicode"
	"unicode/utf8"

	"github.com/pdfcpu/pdfcpu/pkg/pdfcpu"
	"github.com/pdfcpu/pdfcpu/pkg/pdfcpu/model"
	"golang.org/x/text/unicode/norm"
	"verif/vh"
)

// units: self-contained letter sequences; (raw bytes -> NFKC bytes) noted for orientation
var longUnits = []string{
	"a", "b", "k", "z", "Q", // 1 -> 1
	"é", "ü", "ß", "Ω", // 2 -> 2 (precomposed / stable)
	"é", "ü", "Å", // 3 -> 2 decomposed
	"ﬁ", "ﬃ", // ligatures fi (3 -> 2), ffi (3 -> 3)
	"ｆ", "Ｕ", // fullwidth f, U (3 -> 1)
	"ǆ", "ǈ", // dz-caron digraphs (2 -> 3)
	"ſ", // long s (2 -> 1)
	"Ω", "K", // ohm sign (3 -> 2), kelvin sign (3 -> 1)
	"㌀", "㍿", // squared apaato (3 -> 12), squared kabushiki-gaisha (3 -> 12)
	"ｶﾞ", // halfwidth ka + voiced mark (6 -> 3)
	"日", "語", // 3 -> 3
}

func nfkc(s string) string { return norm.NFKC.String(s) }

// the password bytes of the standard for a letters-only password: NFKC, then the first 127 bytes
func wantBytes(s string) []byte { return trunc127([]byte(nfkc(s))) }

func calibratedUnits(r *vh.Run) []string {
	var ok []string
	for _, u := range longUnits {
		p, err := pdfcpu.VerifC24ProcessInput("x" + u + "y")
		if err == nil && string(p) == nfkc("x"+u+"y") {
			ok = append(ok, u)
		} else {
			// every unit is a plain letter sequence: the specified preparation is NFKC, nothing else
			r.OracleFail("aes256-prep-differs-from-nfkc", map[string]any{"password_hex": vh.Hex([]byte("x" + u + "y"))},
				fmt.Sprintf("processInput gives %x (err %v), NFKC gives %x", p, err, nfkc("x"+u+"y")))
		}
	}
	return ok
}

func swapForms(s string) string {
	rep := strings.NewReplacer("é", "é", "é", "é", "ü", "ü", "ü", "ü", "ﬁ", "fi", "ｆ", "f", "Ω", "Ω", "Ω", "Ω")
	return rep.Replace(s)
}

func genLong(r *vh.Run, units []string) string {
	// explicit shapes first, then random compositions with raw and prepared lengths in 120..140
	switch r.Rand.Intn(7) {
	case 0: // a 2-byte rune straddling raw byte 127 (and prepared byte 127)
		return strings.Repeat("a", 126) + "é" + "tail"
	case 1: // straddling only in the prepared string: fullwidth letters shrink 3 -> 1
		return strings.Repeat("ｆ", 20) + strings.Repeat("a", 106) + "日" + "xyz"
	case 2: // raw > 127, prepared <= 127: decomposed accents
		return strings.Repeat("é", 45)
	case 3: // raw <= 127, prepared > 127: growing characters
		return strings.Repeat("ǆ", 50) + "end"
	}
	for try := 0; try < 2000; try++ {
		wantRaw, wantPrep := 120+r.Rand.Intn(21), 120+r.Rand.Intn(21)
		var sb strings.Builder
		for sb.Len() < wantRaw-6 {
			sb.WriteString(units[r.Rand.Intn(len(units))])
		}
		for sb.Len() < wantRaw {
			sb.WriteString("a")
		}
		s := sb.String()
		if n := len(nfkc(s)); n >= 120 && n <= 140 && (try > 1500 || n == wantPrep || n == wantPrep+1 || n == wantPrep-1) {
			return s
		}
	}
	return strings.Repeat("é", 45)
}

type longCand struct {
	name string
	raw  string
}

func longCands(r *vh.Run, d string) []longCand {
	full := nfkc(d)
	cs := []longCand{{"same", d}, {"other-form", swapForms(d)}, {"nfkc-untruncated", full}}
	if len(d) > 127 {
		cs = append(cs, longCand{"raw-cut-127", d[:127]})
	}
	if p := wantBytes(d); utf8.Valid(p) {
		cs = append(cs, longCand{"prepared-form", string(p)})
	}
	// a change behind the 127th prepared byte is invisible, one before it is not
	if len(full) > 130 {
		cs = append(cs, longCand{"differs-after-127", full[:len(wantBytes(d))] + "ZZZ"})
	}
	b := []byte(full)
	for i := 100; i < len(b) && i < 126; i++ {
		if b[i] < 0x80 && (i+1 >= len(b) || b[i+1] < 0x80 || utf8.RuneStart(b[i+1])) {
			c := append([]byte{}, b...)
			c[i] = 'X'
			if c[i] == b[i] {
				c[i] = 'Y'
			}
			cs = append(cs, longCand{"differs-before-127", string(c)})
			break
		}
	}
	if len(cs) < 7 {
		cs = append(cs, longCand{"shorter", full[:len(full)/2]})
	}
	return cs
}

func partLongPW(r *vh.Run) {
	units := calibratedUnits(r)
	if len(units) < 10 {
		return
	}
	for _, rev := range []int{5, 6} {
		n := r.Pick(14, 120)
		if rev == 6 {
			n = r.Pick(5, 40)
		}
		for i := 0; i < n; i++ {
			R := vh.Int(int64(rev))
			dUser, dOwner := genLong(r, units), genLong(r, units)
			pU, pO := wantBytes(dUser), wantBytes(dOwner)
			r.Count(fmt.Sprintf("longpw:raw>127:%v:prep>127:%v", len(dUser) > 127, len(nfkc(dUser)) > 127))
			fk := randBytes(r, 32)
			U, UE := iAlg8(rev, pU, randBytes(r, 8), randBytes(r, 8), fk)
			O, OE := iAlg9(rev, pO, randBytes(r, 8), randBytes(r, 8), U, fk)
			withModel := rev == 5 || (i == 0 && !r.Thorough()) || (i < 4 && r.Thorough())

			// ---- reader: pdfcpu on the independent writer's entries
			for _, owner := range []bool{false, true} {
				d, p := dUser, pU
				if owner {
					d, p = dOwner, pO
				}
				for _, c := range longCands(r, d) {
					valid := utf8.ValidString(c.raw)
					want := valid && bytes.Equal(wantBytes(c.raw), p)
					ctx := &model.Context{Configuration: model.NewDefaultConfiguration(), XRefTable: &model.XRefTable{}}
					ctx.E = &model.Enc{O: O, U: U, OE: OE, UE: UE, L: 256, P: -1, R: rev, V: 5, Emd: true, ID: docID}
					var ok bool
					err := guard(func() (e error) {
						if owner {
							ctx.OwnerPW = c.raw
							ok, e = pdfcpu.VerifC24ValidateOwnerPassword(ctx)
						} else {
							ctx.UserPW = c.raw
							ok, e = pdfcpu.VerifC24ValidateUserPassword(ctx)
						}
						return
					})
					accepted := err == nil && ok
					in := map[string]any{"R": rev, "slot": map[bool]string{false: "user", true: "owner"}[owner], "candidate_kind": c.name,
						"document_password": hx([]byte(d)), "candidate": hx([]byte(c.raw)),
						"raw_len": len(c.raw), "nfkc_len": len(nfkc(c.raw)), "expected_password_bytes": hx(wantBytes(c.raw))}
					switch {
					case want && !accepted:
						r.OracleFail("aes256-prepared-password-rejects-right", in, fmt.Sprintf("Algorithm 11/12 on firstn 127 (NFKC candidate) accepts; pdfcpu ok=%v err=%v", ok, err))
					case !want && accepted:
						r.OracleFail("aes256-prepared-password-accepts-wrong", in, "Algorithm 11/12 on firstn 127 (NFKC candidate) rejects; pdfcpu accepts")
					case accepted && !bytes.Equal(ctx.EncKey, fk):
						r.OracleFail("aes256-prepared-password-rejects-right", in, "accepted with a wrong file key")
					default:
						r.OracleOK()
					}
					r.Count("longpw:" + c.name + ":" + vh.Bool(want))
					if withModel && valid && (rev == 5 || (!owner && (c.name == "same" || c.name == "raw-cut-127" || c.name == "other-form"))) {
						prepArg := hx([]byte(nfkc(c.raw))) // prep of the model = the independent NFKC
						var tp string
						if owner {
							tp = withTape(func() { iAlg12(rev, wantBytes(c.raw), O, OE, U) })
							r.Case("aes_vowner", []string{tp, R, hx([]byte(c.raw)), prepArg, hx(O), hx(OE), hx(U)}, okKey(ok, ctx.EncKey, err != nil))
						} else {
							tp = withTape(func() { iAlg11(rev, wantBytes(c.raw), U, UE) })
							r.Case("aes_vuser", []string{tp, R, hx([]byte(c.raw)), prepArg, hx(U), hx(UE)}, okKey(ok, ctx.EncKey, err != nil))
						}
					}
				}
			}

			// ---- writer: the entries pdfcpu computes for the long passwords
			ctx := newCtx(rev == 6)
			ctx.UserPW, ctx.OwnerPW = dUser, dOwner
			ctx.EncryptUsingAES, ctx.EncryptKeyLength = true, 256
			dd := pdfcpu.VerifC24NewEncryptDict(rev == 6, true, 256, -1)
			var err error
			if ctx.E, err = pdfcpu.VerifC24SupportedEncryption(ctx, dd); err != nil {
				panic(err)
			}
			in := map[string]any{"R": rev, "upw": hx([]byte(dUser)), "opw": hx([]byte(dOwner)), "direction": "pdfcpu writes"}
			if cerr := guard(func() error { return pdfcpu.VerifC24CalcOAndU(ctx, dd) }); cerr != nil {
				r.OracleFail("aes256-prepared-password-writer-mismatch", in, "calcOAndU: "+cerr.Error())
				continue
			}
			e, wfk := ctx.E, append([]byte{}, ctx.EncKey...)
			okU, keyU := iAlg11(rev, pU, e.U, e.UE)
			okO, keyO := iAlg12(rev, pO, e.O, e.OE, e.U)
			if !okU || !okO || !bytes.Equal(keyU, wfk) || !bytes.Equal(keyO, wfk) {
				cl := "aes256-prepared-password-writer-mismatch"
				// writer and reader of pdfcpu disagreeing with each other is the older finding
				if !selfAuth(e, wfk, dUser, false) || !selfAuth(e, wfk, dOwner, true) {
					cl = "aes256-password-over-127-bytes-not-truncated-on-write"
				}
				r.OracleFail(cl, in, fmt.Sprintf("a reader using firstn 127 (NFKC password): user %v owner %v", okU, okO))
			} else {
				r.OracleOK()
			}
			if withModel && rev == 5 {
				ru, ro := e.U[32:48], e.O[32:48]
				tp := withTape(func() {
					u1, _ := iAlg8(rev, pU, ru[:8], ru[8:], wfk)
					iAlg9(rev, pO, ro[:8], ro[8:], u1, wfk)
				})
				r.Case("aes_calc", []string{tp, R, hx([]byte(dUser)), hx([]byte(nfkc(dUser))), hx([]byte(dOwner)), hx([]byte(nfkc(dOwner))), hx(ru), hx(ro), hx(wfk)},
					hx(e.U)+"|"+hx(e.O)+"|"+hx(e.UE)+"|"+hx(e.OE))
			}
		}
	}
}

// ---------------------------------------------------------------- letter case and other near misses, R5/R6

func swapCaseRune(r rune) rune {
	if unicode.IsUpper(r) {
		return unicode.ToLower(r)
	}
	if unicode.IsLower(r) {
		return unicode.ToUpper(r)
	}
	return r
}

type caseVariant struct{ kind, pw string }

func caseVariants(s string) []caseVariant {
	var vs []caseVariant
	add := func(kind, v string) {
		if v != s {
			vs = append(vs, caseVariant{kind, v})
		}
	}
	vs = append(vs, caseVariant{"same", s})
	add("case-swapped-all", strings.Map(swapCaseRune, s))
	add("case-lower", strings.ToLower(s))
	add("case-upper", strings.ToUpper(s))
	rs := []rune(s)
	for i, c := range rs {
		if swapCaseRune(c) != c {
			t := append([]rune{}, rs...)
			t[i] = swapCaseRune(c)
			add("case-swapped-one", string(t))
			break
		}
	}
	add("case-special", strings.NewReplacer("ß", "ss", "ẞ", "ß", "ı", "i", "İ", "i", "I", "ı", "ς", "σ").Replace(s))
	for i, c := range rs {
		if c < 0x80 && unicode.IsLetter(c) {
			t := append([]rune{}, rs...)
			t[i] = c - 'A' + 0xFF21
			add("nfkc-equal-fullwidth", string(t))
			break
		}
	}
	add("char-added", s+"x")
	add("homoglyph", strings.NewReplacer("a", "а", "e", "е", "o", "о", "p", "р", "A", "А", "K", "К", "Α", "A").Replace(s))
	return vs
}

// partCase: the preparation must not identify letters that differ in case (or anything else NFKC keeps apart).
// Judged with NFKC computed directly; K: password bytes and decisions of the code model with that preparation.
func partCase(r *vh.Run) {
	pairs := [][2]string{{"OpenSesame42", "UserPw7"}, {"Straße", "ẞig"}, {"ΑλφαΩμέγα", "Привет"}, {"ＡBCdef", "İstanbulı"}, {"Kelvin", "McIntosh"}, {"opensesame42", "straße"}, {"αλφαωμέγα", "привет"}}
	for _, rev := range []int{5, 6} {
		R := vh.Int(int64(rev))
		for _, pr := range pairs {
			dOwner, dUser := pr[0], pr[1]
			pU, pO := wantBytes(dUser), wantBytes(dOwner)
			fk := randBytes(r, 32)
			U, UE := iAlg8(rev, pU, randBytes(r, 8), randBytes(r, 8), fk)
			O, OE := iAlg9(rev, pO, randBytes(r, 8), randBytes(r, 8), U, fk)
			for _, owner := range []bool{false, true} {
				d, p := dUser, pU
				if owner {
					d, p = dOwner, pO
				}
				for _, c := range caseVariants(d) {
					want := bytes.Equal(wantBytes(c.pw), p)
					ctx := &model.Context{Configuration: model.NewDefaultConfiguration(), XRefTable: &model.XRefTable{}}
					ctx.E = &model.Enc{O: O, U: U, OE: OE, UE: UE, L: 256, P: -1, R: rev, V: 5, Emd: true, ID: docID}
					var ok bool
					err := guard(func() (e error) {
						if owner {
							ctx.OwnerPW = c.pw
							ok, e = pdfcpu.VerifC24ValidateOwnerPassword(ctx)
						} else {
							ctx.UserPW = c.pw
							ok, e = pdfcpu.VerifC24ValidateUserPassword(ctx)
						}
						return
					})
					accepted := err == nil && ok
					in := map[string]any{"R": rev, "slot": map[bool]string{false: "user", true: "owner"}[owner], "candidate_kind": c.kind,
						"document_password": hx([]byte(d)), "candidate": hx([]byte(c.pw)), "expected_password_bytes": hx(wantBytes(c.pw))}
					switch {
					case want && !accepted:
						r.OracleFail("aes256-prepared-password-rejects-right", in, fmt.Sprintf("pdfcpu ok=%v err=%v", ok, err))
					case !want && accepted:
						r.OracleFail("aes256-prepared-password-accepts-wrong", in, "Algorithm 11/12 on NFKC(candidate) rejects; pdfcpu accepts")
					default:
						r.OracleOK()
					}
					r.Count("case:" + c.kind + ":" + vh.Bool(want))
					// K: password bytes, and (R5) the decision of the code model with the independent preparation
					real, perr := pdfcpu.VerifC24ProcessInput(c.pw)
					res := "!"
					if perr == nil {
						res = hx(trunc127(real))
					}
					r.Case("aes_prepared", []string{hx([]byte(c.pw)), hx([]byte(nfkc(c.pw)))}, res)
					if rev == 5 {
						if owner {
							tp := withTape(func() { iAlg12(rev, wantBytes(c.pw), O, OE, U) })
							r.Case("aes_vowner", []string{tp, R, hx([]byte(c.pw)), hx([]byte(nfkc(c.pw))), hx(O), hx(OE), hx(U)}, okKey(ok, ctx.EncKey, err != nil))
						} else {
							tp := withTape(func() { iAlg11(rev, wantBytes(c.pw), U, UE) })
							r.Case("aes_vuser", []string{tp, R, hx([]byte(c.pw)), hx([]byte(nfkc(c.pw))), hx(U), hx(UE)}, okKey(ok, ctx.EncKey, err != nil))
						}
					}
				}
			}
		}
	}
}
