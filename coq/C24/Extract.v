From Coq Require Import Extraction ExtrOcamlBasic.
From PV Require Import Lib.ExtBase C24.Prims C24.Model C24.Spec.
Extraction "model.ml" ext_base_z ext_base_n ext_base_nat ext_base_res ext_base_list
  md5 rc4 c_encKey c_key c_o c_u c_validate_user_rc4 c_validate_owner_rc4
  alg2 alg3_key alg3 alg4 alg5_16 alg6 alg7
  c_hashRev6 c_prepared_password c_validate_user_aes c_validate_owner_aes c_calc_ou_aes c_write_perms c_validate_perms
  alg2B alg8 alg9 alg10 alg11 alg12 alg13.
