(* C32 — Page operations act exactly on the selected pages.
   Property theorems only; each is closed by an exact lemma and followed by Print Assumptions.
   Documents are page TREES (C33/Pages.v); `wpages t` lists the pages in document order with the
   attributes inherited from their ancestors, `pages_of t` what an observer sees (marker, effective
   rotation and boxes), `ids_of t` the markers.  Selections are sets of 1-based page numbers. *)
From Coq Require Import ZArith List Bool.
From PV Require Import Lib.GoInt C33.Pages C33.ProofsSplit C32.Model C32.Proofs C32.ProofsOps.
Import ListNotations.
Open Scope Z_scope.

(* 1. rotate / add boxes / remove boxes / crop: the tree-level operation (PageDict(k) + dict update for
      every selected k) refines the list-level one: exactly the selected positions are rewritten by the
      operation's page function, /Count and the tree shape are unchanged. *)
Theorem C32_update_refines : forall sel pf t,
  wpages (upd_op sel pf t) = upd_list (selb sel) pf 0 (wpages t) /\
  count_of (upd_op sel pf t) = count_of t /\
  (wf_count t = true -> wf_count (upd_op sel pf t) = true) /\
  is_node (upd_op sel pf t) = is_node t.
Proof. exact upd_op_spec. Qed.
Print Assumptions C32_update_refines.

(* 2. ... so page k+1 of the result is the specified new page if selected, and otherwise EXACTLY the old
      page (same marker, rotation and every box); the number of pages does not change. *)
Theorem C32_update_pagewise : forall sel pf t k,
  nth_error (pages_of (upd_op sel pf t)) k =
  option_map (fun w => if selb sel (Z.of_nat k + 1)
                       then wview (pf (fst w) (snd (eff w)), snd w) else wview w)
             (nth_error (wpages t) k).
Proof. exact upd_op_nth. Qed.
Print Assumptions C32_update_pagewise.

Theorem C32_unselected_untouched : forall sel pf t k, selb sel (Z.of_nat k + 1) = false ->
  nth_error (pages_of (upd_op sel pf t)) k = nth_error (pages_of t) k.
Proof. exact upd_op_unselected. Qed.
Print Assumptions C32_unselected_untouched.

(* 3. what the selected pages become.  Rotation: the effective (inherited) rotation composed with delta,
      which is the representative in [0,360) of current+delta modulo 360; nothing else changes. *)
Theorem C32_rotate_page : forall delta d i,
  wview (pf_rotate delta d (snd (eff (d, i))), i) = vf_rotate delta (wview (d, i)).
Proof. exact rotate_view. Qed.
Print Assumptions C32_rotate_page.

Theorem C32_rotate_arith : forall cur delta,
  0 <= compose_rot cur delta < 360 /\ (compose_rot cur delta - (cur + delta)) mod 360 = 0.
Proof. exact compose_rot_spec. Qed.
Print Assumptions C32_rotate_arith.

(* add boxes / crop (explicit rectangles or absolute margins): exactly the requested boxes are replaced;
   Media and Crop definitions are relative to the media box in effect, Trim / Bleed / Art definitions
   are relative to the page's EFFECTIVE CROP BOX if it has one -- whether defined in this call, by an
   earlier operation on the page, or inherited -- and to the media box otherwise (vf_addbox). *)
Theorem C32_addbox_page : forall b d i,
  wview (pf_addbox b d (snd (eff (d, i))), i) = vf_addbox b (wview (d, i)).
Proof. exact addbox_view. Qed.
Print Assumptions C32_addbox_page.

(* the parent-box rule spelled out for a trim box given by margins *)
Theorem C32_addbox_parent_rule : forall ml mr mt mb v,
  v_trim (vf_addbox (mkBoxReq None None (Some (BMarg ml mr mt mb)) None None) v) =
  Some (apply_def (BMarg ml mr mt mb)
          (match v_crop v with Some c => c | None => match v_media v with Some m => m | None => a4 end end)).
Proof. intros. unfold vf_addbox. simpl. destruct (v_crop v); reflexivity. Qed.
Print Assumptions C32_addbox_parent_rule.

(* remove boxes: trim/bleed/art are removed; the crop box is removed or becomes the media box PROVIDED no
   CropBox is inherited from a /Pages node ... *)
Theorem C32_rmbox_page : forall q d i,
  wview (pf_rmbox q d (snd (eff (d, i))), i) =
  let v := wview (d, i) in
  mkV (v_id v) (v_rot v) (v_media v)
      (if r_crop q then match a_crop (pg_attrs d) with
                        | Some _ => a_crop i
                        | None => orelse (v_media v) (a_crop i)
                        end
       else v_crop v)
      (if r_trim q then None else v_trim v) (if r_bleed q then None else v_bleed v)
      (if r_art q then None else v_art v).
Proof. exact rmbox_view. Qed.
Print Assumptions C32_rmbox_page.

Theorem C32_rmbox_crop_partial : forall q d i, r_crop q = true -> a_crop i = None ->
  let v' := wview (pf_rmbox q d (snd (eff (d, i))), i) in v_crop v' = None \/ v_crop v' = v_media v'.
Proof. exact rmbox_crop_no_inherited. Qed.
Print Assumptions C32_rmbox_crop_partial.

(* ... and otherwise it is false: deleting the page's own CropBox lets the inherited one show *)
Theorem C32_rmbox_crop_refuted : exists q d i, r_crop q = true /\
  let v' := wview (pf_rmbox q d (snd (eff (d, i))), i) in v_crop v' <> None /\ v_crop v' <> v_media v'.
Proof. exact rmbox_crop_refuted. Qed.
Print Assumptions C32_rmbox_crop_refuted.

(* 4. insert blank pages: the page list of the result is the old one with exactly one blank page (under
      the same parent, of some size) directly before / after each selected page; all /Count entries of
      the result are right. *)
Theorem C32_insert_refines : forall sel before dim t t', apply_op (OInsert sel before dim) t = Ok t' ->
  ins_rel (selb sel) before 0 (wpages t) (wpages t') /\
  ids_of t' = ins_ids (selb sel) before 0 (ids_of t) /\
  wf_count t' = true.
Proof. exact insert_spec. Qed.
Print Assumptions C32_insert_refines.

(* the old pages are untouched: removing the inserted blank entries gives back the old list *)
Theorem C32_insert_keeps_pages : forall sel before p l l', ins_rel sel before p l l' ->
  exists keep : list bool, length keep = length l' /\
    map snd (filter fst (combine keep l')) = l /\
    Forall (fun kw => fst kw = false -> exists mb, fst (snd kw) = blank_page mb) (combine keep l').
Proof. exact ins_rel_sublist. Qed.
Print Assumptions C32_insert_keeps_pages.

(* 5. remove / trim / collect: the result shows exactly the pages of the operation's page-number list
      (remaining pages in order / selected pages in order / the given list with repetitions): markers
      always, and every attribute (rotation modulo 360, all boxes, inherited ones included) for documents
      whose pages have a MediaBox (xsafe). *)
Theorem C32_extract_ops : forall o t t' nrs,
  wf_count t = true -> op_pages o t = Some nrs -> apply_op o t = Ok t' ->
  nrs <> [] /\ in_range (count_of t) nrs = true /\
  ids_of t' = pick_ids (ids_of t) nrs /\
  pages_of t' = map (fun k => xview (nth (Z.to_nat (k - 1)) (rpages t) dflt)) nrs /\
  (Forall xsafe (rpages t) ->
     npages_of t' = map (fun k => norm_view (nth (Z.to_nat (k - 1)) (pages_of t) vdflt)) nrs) /\
  wf_count t' = true.
Proof. exact extract_op_spec. Qed.
Print Assumptions C32_extract_ops.

(* 6. histories: for ANY sequence of operations the marker sequence of the result is the list-level
      specification folded over the history, and the page tree stays well formed. *)
Theorem C32_history : forall ops t t', wf_count t = true -> is_node t = true -> run ops t = Ok t' ->
  spec_run ops (ids_of t) = Some (ids_of t') /\ wf_count t' = true /\ is_node t' = true.
Proof. exact run_ids. Qed.
Print Assumptions C32_history.

(* 7. sequences of per-page operations (rotate, add boxes, remove boxes, crop, any page function): the
      tree-level run equals the list-level specification folded over the sequence ... *)
Theorem C32_update_sequences : forall us t,
  wpages (run_upd us t) = spec_upd us (wpages t) /\
  count_of (run_upd us t) = count_of t /\
  (wf_count t = true -> wf_count (run_upd us t) = true).
Proof. exact run_upd_spec. Qed.
Print Assumptions C32_update_sequences.

(* ... and for histories of rotate / add boxes / crop steps the observable page list (marker, rotation,
   every box of every page) is the view-level specification folded over the history: in particular a
   crop box set by an EARLIER step is the parent of a trim/bleed/art box defined by a LATER step. *)
Theorem C32_box_history : forall ops t l', vspec_run ops (pages_of t) = Some l' ->
  exists t', run ops t = Ok t' /\ pages_of t' = l' /\ (wf_count t = true -> wf_count t' = true).
Proof. exact vspec_run_ok. Qed.
Print Assumptions C32_box_history.

(* non-vacuity *)
Definition ex_doc : tree :=
  Node (mkAttrs (Some 90) (Some (0,0,300,400)) None false) 3
    [Leaf (mkPage 1 (mkAttrs None None None true) None None None);
     Node (mkAttrs None None None false) 2
       [Leaf (mkPage 2 (mkAttrs (Some 180) (Some (0,0,10,20)) (Some (1,1,9,19)) true) None None None);
        Leaf (mkPage 3 (mkAttrs None None None true) (Some (2,2,8,8)) None None)]].

Example C32_nonvacuous :
  wf_count ex_doc = true /\ is_node ex_doc = true /\
  (exists t', run [ORotate [1; 3] 270; OInsert [2] true None; OCollect [4; 1; 1]; ORemove [2]] ex_doc = Ok t' /\
     ids_of t' = [3; 1] /\ map v_rot (pages_of t') = [0; 0]) /\
  map v_rot (pages_of (upd_op [1; 3] (pf_rotate 270) ex_doc)) = [0; 180; 0] /\
  compose_rot (-90) 90 = 0 /\ compose_rot 270 180 = 90 /\ compose_rot 0 (-90) = 270 /\
  (* crop page 2, then in a later call trim:10 -> the trim box is relative to the crop box *)
  (exists t', run [OCrop [2] (BRect (70, 60, 550, 760));
                   OAddBox [1; 2] (mkBoxReq None None (Some (BMarg 10 10 10 10)) None None)] ex_doc = Ok t' /\
     map v_trim (pages_of t') = [Some (10, 10, 290, 390); Some (80, 70, 540, 750); Some (2, 2, 8, 8)]).
Proof.
  split; [reflexivity|]. split; [reflexivity|]. split.
  { eexists. split; [vm_compute; reflexivity|]. split; reflexivity. }
  repeat split; try reflexivity. eexists. split; vm_compute; reflexivity.
Qed.
