// Harness for C24: the encryption parameters pdfcpu computes are those of the ISO 32000 algorithms.
//
// K  (model tie): the extracted CODE model (coq/C24/Model.v: c_encKey, c_key, c_o, c_u, c_validate_*_rc4) and
//    the extracted SPEC model (coq/C24/Spec.v: alg2, alg3, alg4/5, alg6, alg7) are run on the same random inputs as
//    the real functions (verif_export_c24.go) for R 2,3,4.
// O  (property oracle): an independent implementation of Algorithms 1-7, 1.A, 2.A, 2.B, 8-13 (indep.go, standard
//    library only) is compared with pdfcpu (a) function by function for R 2..6, (b) end to end: files written by
//    api.Encrypt are authenticated and decrypted by the independent reader, files written by the independent
//    writer (pdfio.go) are opened by pdfcpu.
package main

import (
	"bytes"
	"fmt"
	"strings"

	"github.com/pdfcpu/pdfcpu/pkg/api"
	"github.com/pdfcpu/pdfcpu/pkg/pdfcpu"
	"github.com/pdfcpu/pdfcpu/pkg/pdfcpu/model"
	"verif/vh"
)

func guard(f func() error) (err error) {
	defer func() {
		if x := recover(); x != nil {
			err = fmt.Errorf("PANIC: %v", x)
		}
	}()
	return f()
}

func newCtx(v20 bool) *model.Context {
	ctx, err := api.ReadContext(bytes.NewReader(plainPDF(v20)), model.NewDefaultConfiguration())
	if err != nil {
		panic(err)
	}
	return ctx
}

var textPW = []string{"", "a", "own", "usr", "secret", "correct horse", "my pass", "pässwörd", "é", "ª", "ﬁsh", "Á", "x y", "soft­hyphen",
	"日本語パスワード", "0123456789012345678901234567890123456789", "01234567890123456789012345678901"}

func randPW(r *vh.Run) []byte {
	switch r.Rand.Intn(10) {
	case 0:
		return nil
	case 1, 2:
		return []byte(textPW[r.Rand.Intn(len(textPW))])
	case 3: // exactly around the 32-byte boundary
		b := make([]byte, 30+r.Rand.Intn(5))
		r.Rand.Read(b)
		return b
	case 4: // long
		b := make([]byte, 33+r.Rand.Intn(200))
		r.Rand.Read(b)
		return b
	case 5: // ends with a prefix of the padding string
		b := []byte("pw")
		return append(b, padding[:r.Rand.Intn(31)]...)
	default:
		b := make([]byte, 1+r.Rand.Intn(20))
		r.Rand.Read(b)
		return b
	}
}

func randBytes(r *vh.Run, n int) []byte {
	b := make([]byte, n)
	r.Rand.Read(b)
	return b
}

func randP(r *vh.Run) int64 {
	switch r.Rand.Intn(8) {
	case 0:
		return -1
	case 1:
		return int64(int16(-3901)) // PermissionsNone as written by newEncryptDict
	case 2:
		return 0xF0C3
	case 3:
		return -1 << 31
	case 4:
		return 1<<31 - 1
	case 5:
		return int64(r.Rand.Uint64()) // outside 32 bits: only the low 32 bits enter the hash
	default:
		return int64(int32(r.Rand.Uint32()))
	}
}

func hx(b []byte) string { return vh.Hex(b) }

// ---------------------------------------------------------------- R 2,3,4 function level (K + O)

func partRC4(r *vh.Run) {
	n := r.Pick(32, 500)
	for i := 0; i < n; i++ {
		rev := 2 + r.Rand.Intn(3)
		length := 40 + 8*r.Rand.Intn(12)
		if rev == 2 && r.Rand.Intn(3) != 0 {
			length = 40
		}
		if rev >= 3 && r.Rand.Intn(2) == 0 {
			length = 128
		}
		emd := r.Rand.Intn(3) != 0
		opw, upw := randPW(r), randPW(r)
		if r.Rand.Intn(6) == 0 {
			opw = append([]byte{}, upw...)
		}
		p := randP(r)
		id := randBytes(r, []int{16, 16, 16, 0, 5, 32}[r.Rand.Intn(6)])
		R, L, P, EM := vh.Int(int64(rev)), vh.Int(int64(length)), vh.Int(p), vh.Bool(emd)

		ctx := &model.Context{Configuration: model.NewDefaultConfiguration(), XRefTable: &model.XRefTable{}}
		ctx.OwnerPW, ctx.UserPW = string(opw), string(upw)
		ctx.E = &model.Enc{L: length, P: int(p), R: rev, Emd: emd, ID: id, O: randBytes(r, 32)}
		in := map[string]any{"R": rev, "L": length, "P": p, "emd": emd, "opw": hx(opw), "upw": hx(upw), "id": hx(id)}
		check := func(name string, got, want []byte) {
			if !bytes.Equal(got, want) {
				in2 := map[string]any{"fn": name}
				for k, v := range in {
					in2[k] = v
				}
				r.OracleFail("iso-mismatch:"+name, in2, "pdfcpu "+hx(got)+" independent "+hx(want))
			} else {
				r.OracleOK()
			}
		}

		// Algorithm 2 on an arbitrary O
		k := pdfcpu.VerifC24EncKey(string(upw), ctx.E)
		r.Case("encKey", []string{hx(upw), hx(ctx.E.O), P, hx(id), R, L, EM}, hx(k))
		r.Case("s_alg2", []string{hx(upw), hx(ctx.E.O), P, hx(id), R, L, EM}, hx(k))
		check("encKey", k, iAlg2(upw, ctx.E.O, p, id, rev, length, emd))

		// Algorithm 3
		k3 := pdfcpu.VerifC24Key(string(opw), string(upw), rev, length)
		r.Case("key", []string{hx(opw), hx(upw), R, L}, hx(k3))
		check("key", k3, iAlg3Key(opw, upw, rev, length))
		o, err := pdfcpu.VerifC24O(ctx)
		if err != nil {
			r.OracleFail("error:o", in, err.Error())
			continue
		}
		r.Case("o", []string{hx(opw), hx(upw), R, L}, hx(o))
		r.Case("s_alg3", []string{hx(opw), hx(upw), R, L}, hx(o))
		check("o", o, iAlg3(opw, upw, rev, length))

		// Algorithms 4/5 with the real O
		ctx.E.O = o
		u, key, err := pdfcpu.VerifC24U(ctx)
		if err != nil {
			r.OracleFail("error:u", in, err.Error())
			continue
		}
		r.Case("u", []string{hx(upw), hx(o), P, hx(id), R, L, EM}, hx(u)+"|"+hx(key))
		sig := 32
		if rev >= 3 {
			sig = 16
		}
		r.Case("s_alg45", []string{hx(upw), hx(o), P, hx(id), R, L, EM}, hx(u[:sig]))
		check("u", u[:sig], iAlgU(iAlg2(upw, o, p, id, rev, length, emd), id, rev))
		if len(u) != 32 {
			r.OracleFail("iso-mismatch:u-length", in, fmt.Sprint(len(u)))
		}
		ctx.E.U = u

		// Algorithms 6/7: right and wrong candidates, tampered U
		cands := [][]byte{upw, opw, randPW(r), padOrTruncate(upw), append(append([]byte{}, upw...), padding[:3]...)}
		if len(upw) > 32 {
			cands = append(cands, upw[:32])
		}
		if !r.Thorough() { // quick tier: the right user password, the owner password and one variation
			cands = [][]byte{upw, opw, cands[2+r.Rand.Intn(len(cands)-2)]}
		}
		for ci, c := range cands {
			e := *ctx.E
			switch r.Rand.Intn(5) {
			case 0: // tamper inside the significant part
				e.U = append([]byte{}, u...)
				e.U[r.Rand.Intn(sig)] ^= 1 << uint(r.Rand.Intn(8))
			case 1: // tamper in the arbitrary padding of U (R>=3: must not matter)
				e.U = append([]byte{}, u...)
				e.U[16+r.Rand.Intn(16)] ^= 0x5a
			case 2:
				if ci > 1 && r.Rand.Intn(2) == 0 {
					e.U = u[:r.Rand.Intn(33)] // malformed length
				}
			}
			c2 := &model.Context{Configuration: model.NewDefaultConfiguration(), XRefTable: &model.XRefTable{}}
			c2.E = &e
			c2.UserPW = string(c)
			ok, err := pdfcpu.VerifC24ValidateUserPassword(c2)
			res := fmt.Sprintf("%v|%s", ok, hx(c2.EncKey))
			if err != nil {
				res = "err"
			}
			args := []string{hx(c), hx(e.O), hx(e.U), P, hx(id), R, L, EM}
			r.Case("vuser", args, res)
			if r.Thorough() || ci != 1 {
				r.Case("s_alg6", args, res)
			}
			wok, wkey := iAlg6(c, e.O, e.U, p, id, rev, length, emd)
			if err != nil || ok != wok || !bytes.Equal(c2.EncKey, wkey) {
				r.OracleFail("iso-mismatch:validateUserPassword", map[string]any{"in": in, "cand": hx(c), "U": hx(e.U)}, fmt.Sprintf("pdfcpu %s independent %v|%s", res, wok, hx(wkey)))
			} else {
				r.OracleOK()
			}
			r.Count(fmt.Sprintf("vuser:R%d:%v", rev, ok))

			// owner: candidate in the owner slot, a second candidate in the user slot (fallback when owner slot empty)
			c3 := &model.Context{Configuration: model.NewDefaultConfiguration(), XRefTable: &model.XRefTable{}}
			c3.E = &e
			oslot, uslot := c, cands[r.Rand.Intn(len(cands))]
			if r.Rand.Intn(4) == 0 {
				oslot, uslot = nil, c
			}
			c3.OwnerPW, c3.UserPW = string(oslot), string(uslot)
			ok, err = pdfcpu.VerifC24ValidateOwnerPassword(c3)
			res = fmt.Sprintf("%v|%s", ok, hx(c3.EncKey))
			if err != nil {
				res = "err"
			}
			args = []string{hx(oslot), hx(uslot), hx(e.O), hx(e.U), P, hx(id), R, L, EM}
			r.Case("vowner", args, res)
			if r.Thorough() || ci != 0 {
				r.Case("s_alg7", args, res)
			}
			wok, wkey = iAlg7(oslot, uslot, e.O, e.U, p, id, rev, length, emd)
			if err != nil || ok != wok || !bytes.Equal(c3.EncKey, wkey) {
				r.OracleFail("iso-mismatch:validateOwnerPassword", map[string]any{"in": in, "oslot": hx(oslot), "uslot": hx(uslot), "U": hx(e.U)}, fmt.Sprintf("pdfcpu %s independent %v|%s", res, wok, hx(wkey)))
			} else {
				r.OracleOK()
			}
			if c3.UserPW != string(uslot) {
				r.OracleFail("validateOwnerPassword-clobbers-user-slot", in, "")
			}
			r.Count(fmt.Sprintf("vowner:R%d:%v", rev, ok))
		}
	}
}

// ---------------------------------------------------------------- R 5,6 function level (O)

type pwCase struct {
	raw      string
	prepared []byte // SASLprep + truncation (what a conforming implementation hashes)
	ok       bool   // SASLprep accepts
	sasl     string // SASLprep output before truncation
}

func aesPasswords(r *vh.Run) []pwCase {
	var out []pwCase
	add := func(s string) {
		p, ok, sup := saslprep(s)
		if !sup {
			panic("password outside the supported SASLprep repertoire: " + s)
		}
		out = append(out, pwCase{s, trunc127([]byte(p)), ok, p})
	}
	for _, s := range textPW {
		add(s)
	}
	add(strings.Repeat("x", 127))
	add(strings.Repeat("x", 128))
	add(strings.Repeat("y", 200))
	add(strings.Repeat("é", 64)) // 128 bytes: truncation splits nothing (127 = 63 chars + 1 byte)
	add("tab\tinside")           // prohibited (C.2.1)
	const alpha = "abcdefghijklmnopqrstuvwxyzABCDEFGHIJKLMNOPQRSTUVWXYZ0123456789!#$%&()*+,-./:;<=>?@[]^_{|}~"
	for i := 0; i < r.Pick(6, 60); i++ {
		n := 1 + r.Rand.Intn(40)
		b := make([]byte, n)
		for j := range b {
			b[j] = alpha[r.Rand.Intn(len(alpha))]
		}
		add(string(b))
	}
	return out
}

// aesClass names the finding behind a disagreement between pdfcpu and the standard about an AES-256 password.
// selfOK: pdfcpu authenticates the password against what pdfcpu itself wrote for it.  When it does not, the write
// side and the read side of pdfcpu disagree with each other (fixed by pdfcpu dd3e7ff0; the classes stay armed);
// when it does, pdfcpu is consistent and what is left is that its preparation (processInput, a PRECIS identifier
// profile) is not SASLprep.
func aesClass(pw pwCase, selfOK bool) string {
	pp, err := pdfcpu.VerifC24ProcessInput(pw.raw)
	if !selfOK {
		if err != nil || string(pp) != pw.raw {
			return "aes256-password-prep-asymmetric"
		}
		if len(pw.raw) > 127 {
			return "aes256-password-over-127-bytes-not-truncated-on-write"
		}
		return ""
	}
	// the known divergence of the PRECIS identifier profile from SASLprep: U+0020 is disallowed, and so are the
	// characters SASLprep maps (to a space or to nothing) before normalising.  Anything else is not this finding.
	divergent := strings.Contains(pw.raw, " ") || strings.Contains(pw.sasl, " ") || pw.sasl != nfkc(pw.raw)
	if pw.ok && divergent && (err != nil || string(pp) != pw.sasl) {
		return "aes256-password-prep-not-saslprep"
	}
	return ""
}

// selfAuth: does pdfcpu authenticate the raw password against the entries e (file key fk)?
func selfAuth(e *model.Enc, fk []byte, raw string, owner bool) bool {
	c := &model.Context{Configuration: model.NewDefaultConfiguration(), XRefTable: &model.XRefTable{}}
	ec := *e
	c.E = &ec
	var ok bool
	err := guard(func() (er error) {
		if owner {
			c.OwnerPW = raw
			ok, er = pdfcpu.VerifC24ValidateOwnerPassword(c)
		} else {
			c.UserPW = raw
			ok, er = pdfcpu.VerifC24ValidateUserPassword(c)
		}
		return
	})
	return err == nil && ok && bytes.Equal(c.EncKey, fk)
}

func partAES(r *vh.Run) {
	// (a) Algorithm 2.B
	for i := 0; i < r.Pick(40, 600); i++ {
		pw := randBytes(r, r.Rand.Intn(128))
		var ud []byte
		if r.Rand.Intn(2) == 0 {
			ud = randBytes(r, 48)
		}
		input := cat(pw, randBytes(r, 8), ud)
		got, rounds, err := pdfcpu.VerifC24HashRev6(input, pw, ud)
		want, wr := iAlg2B(input, pw, ud)
		if err != nil || !bytes.Equal(got, want) || rounds != wr {
			r.OracleFail("iso-mismatch:hashRev6", map[string]any{"input": hx(input), "pw": hx(pw), "u": hx(ud)}, fmt.Sprintf("pdfcpu %s/%d independent %s/%d err=%v", hx(got), rounds, hx(want), wr, err))
		} else {
			r.OracleOK()
		}
		r.Count(fmt.Sprintf("hashRev6:rounds>64:%v", rounds > 64))
	}
	pws := aesPasswords(r)
	for _, rev := range []int{5, 6} {
		for i, upw := range pws {
			opw := pws[(i*5+3+rev)%len(pws)]
			p := randP(r)
			if r.Rand.Intn(3) != 0 {
				p = int64(int32(p))
			}
			emd := r.Rand.Intn(3) != 0
			in := map[string]any{"R": rev, "upw": hx([]byte(upw.raw)), "opw": hx([]byte(opw.raw)), "P": p, "emd": emd}

			// (b) pdfcpu writes, the independent reader authenticates (api.Encrypt insists on an owner password)
			if int64(int32(p)) == p && opw.raw != "" {
				ctx := newCtx(rev == 6)
				ctx.UserPW, ctx.OwnerPW = upw.raw, opw.raw
				ctx.EncryptUsingAES, ctx.EncryptKeyLength = true, 256
				d := pdfcpu.VerifC24NewEncryptDict(rev == 6, true, 256, int16(p))
				var err error
				if ctx.E, err = pdfcpu.VerifC24SupportedEncryption(ctx, d); err != nil {
					panic(err)
				}
				ctx.E.P, ctx.E.Emd = int(p), emd
				if ctx.E.R != rev {
					panic(fmt.Sprint("unexpected R ", ctx.E.R))
				}
				err = guard(func() error {
					if e := pdfcpu.VerifC24CalcOAndU(ctx, d); e != nil {
						return e
					}
					return pdfcpu.VerifC24WritePermissions(ctx, d)
				})
				if err != nil {
					// refusing a password SASLprep prohibits is right; refusing one it accepts is not
					cl := "error:calcOAndU"
					if strings.Contains(err.Error(), "precis") || strings.Contains(err.Error(), "bidirule") {
						cl = ""
						for _, pw := range []pwCase{upw, opw} {
							if _, perr := pdfcpu.VerifC24ProcessInput(pw.raw); perr != nil && pw.ok {
								if cl = aesClass(pw, true); cl == "" {
									cl = "iso-mismatch:calcOAndU-refuses-password"
								}
							}
						}
					}
					if cl != "" {
						r.OracleFail(cl, in, "calcOAndU: "+err.Error())
					} else {
						r.OracleOK()
					}
				} else {
					e := ctx.E
					fk := ctx.EncKey
					if upw.ok {
						ok, key := iAlg11(rev, upw.prepared, e.U, e.UE)
						wu, wue := iAlg8(rev, upw.prepared, e.U[32:40], e.U[40:48], fk)
						if !ok || !bytes.Equal(key, fk) || !bytes.Equal(wu, e.U) || !bytes.Equal(wue, e.UE) {
							c := aesClass(upw, selfAuth(e, fk, upw.raw, false))
							if c == "" {
								c = "iso-mismatch:calcOAndUAES256:user"
							}
							r.OracleFail(c, in, "U/UE written by pdfcpu are not those of Algorithm 8 for the prepared user password; a conforming reader rejects the password")
						} else {
							r.OracleOK()
						}
					}
					if opw.ok {
						ok, key := iAlg12(rev, opw.prepared, e.O, e.OE, e.U)
						wo, woe := iAlg9(rev, opw.prepared, e.O[32:40], e.O[40:48], e.U, fk)
						if !ok || !bytes.Equal(key, fk) || !bytes.Equal(wo, e.O) || !bytes.Equal(woe, e.OE) {
							c := aesClass(opw, selfAuth(e, fk, opw.raw, true))
							if c == "" {
								c = "iso-mismatch:calcOAndUAES256:owner"
							}
							r.OracleFail(c, in, "O/OE written by pdfcpu are not those of Algorithm 9 for the prepared owner password")
						} else {
							r.OracleOK()
						}
					}
					if !iAlg13(e.Perms, fk, p, emd) {
						r.OracleFail("iso-mismatch:writePermissions", in, hx(e.Perms))
					} else {
						r.OracleOK()
					}
				}
			}

			// (c) the independent writer writes, pdfcpu authenticates
			if !upw.ok || !opw.ok {
				continue
			}
			fk := randBytes(r, 32)
			U, UE := iAlg8(rev, upw.prepared, randBytes(r, 8), randBytes(r, 8), fk)
			O, OE := iAlg9(rev, opw.prepared, randBytes(r, 8), randBytes(r, 8), U, fk)
			perms := iAlg10(p, emd, randBytes(r, 4), fk)
			mk := func() *model.Context {
				c := &model.Context{Configuration: model.NewDefaultConfiguration(), XRefTable: &model.XRefTable{}}
				c.E = &model.Enc{O: O, U: U, OE: OE, UE: UE, Perms: perms, L: 256, P: int(p), R: rev, V: 5, Emd: emd, ID: docID}
				return c
			}
			for _, cand := range []pwCase{upw, opw, pws[r.Rand.Intn(len(pws))]} {
				// user
				c := mk()
				c.UserPW = cand.raw
				var ok bool
				err := guard(func() (e error) { ok, e = pdfcpu.VerifC24ValidateUserPassword(c); return })
				want := cand.ok && bytes.Equal(cand.prepared, upw.prepared)
				in2 := map[string]any{"R": rev, "document_user_pw": hx(upw.prepared), "candidate": hx([]byte(cand.raw)), "slot": "user"}
				accepted := err == nil && ok
				switch {
				case accepted != want, accepted && !bytes.Equal(c.EncKey, fk):
					cl := aesClass(cand, true)
					if cl == "" {
						cl = "iso-mismatch:validateUserPasswordAES256"
					}
					r.OracleFail(cl, in2, fmt.Sprintf("pdfcpu ok=%v err=%v, Algorithm 11 says %v", ok, err, want))
				default:
					r.OracleOK()
				}
				if err == nil && ok {
					pok, perr := pdfcpu.VerifC24ValidatePermissions(c)
					if perr != nil || !pok {
						if int64(int32(p)) == p {
							r.OracleFail("iso-mismatch:validatePermissions", in2, fmt.Sprint(perr))
						}
					} else {
						r.OracleOK()
					}
				}
				// owner
				c = mk()
				c.OwnerPW = cand.raw
				err = guard(func() (e error) { ok, e = pdfcpu.VerifC24ValidateOwnerPassword(c); return })
				want = cand.ok && bytes.Equal(cand.prepared, opw.prepared)
				in2["slot"], in2["document_owner_pw"] = "owner", hx(opw.prepared)
				accepted = err == nil && ok
				switch {
				case cand.raw == "" && want && !accepted:
					r.OracleFail("aes256-empty-owner-password-not-authenticated", in2, "Algorithm 12 authenticates the empty owner password of this document, validateOwnerPasswordAES256* returns false for every empty owner slot")
				case accepted != want, accepted && !bytes.Equal(c.EncKey, fk):
					cl := aesClass(cand, true)
					if cl == "" {
						cl = "iso-mismatch:validateOwnerPasswordAES256"
					}
					r.OracleFail(cl, in2, fmt.Sprintf("pdfcpu ok=%v err=%v, Algorithm 12 says %v", ok, err, want))
				default:
					r.OracleOK()
				}
			}
			// tampered Perms must not validate
			c := mk()
			c.EncKey = fk
			c.E.Perms = append([]byte{}, perms...)
			c.E.Perms[r.Rand.Intn(16)] ^= 1 << uint(r.Rand.Intn(8))
			pok, _ := pdfcpu.VerifC24ValidatePermissions(c)
			if pok != iAlg13(c.E.Perms, fk, p, emd) {
				r.OracleFail("iso-mismatch:validatePermissions", in, "tampered Perms")
			} else {
				r.OracleOK()
			}
		}
	}
}

// ---------------------------------------------------------------- end to end (O)

type alg struct {
	name string
	aes  bool
	klen int
	v20  bool
	rev  int
	v    int
	cm   cryptMethod
}

var algs = []alg{
	{"RC4-40", false, 40, false, 2, 1, cmRC4},
	{"RC4-128", false, 128, false, 4, 4, cmRC4},
	{"AES-128", true, 128, false, 4, 4, cmAESV2},
	{"AES-256", true, 256, false, 5, 5, cmAESV3},
	{"AES-256-PDF2", true, 256, true, 6, 5, cmAESV3},
}

// the bytes a conforming implementation derives from a text password
func conformingBytes(a alg, s string) (b []byte, ok bool, class string) {
	if a.rev >= 5 {
		p, ok, _ := saslprep(s)
		return trunc127([]byte(p)), ok, "" // class: aesClass, once it is known whether pdfcpu is self-consistent
	}
	// PDFDocEncoding: ASCII and U+00A1..U+00FF are encoded as the code point value
	var out []byte
	class = ""
	for _, r := range s {
		switch {
		case r < 0x80 || (r >= 0xA1 && r <= 0xFF):
			out = append(out, byte(r))
		default:
			return nil, false, "" // not used for R<=4 in this harness
		}
		if r >= 0x80 {
			class = "rc4-aes128-password-utf8-not-pdfdocencoding"
		}
	}
	return out, true, class
}

func openWith(doc []byte, opw, upw string) (string, bool) {
	c := model.NewDefaultConfiguration()
	c.OwnerPW, c.UserPW = opw, upw
	c.Cmd = model.LISTINFO
	var ctx *model.Context
	err := guard(func() (e error) { ctx, e = api.ReadValidateAndOptimize(bytes.NewReader(doc), c); return })
	if err != nil {
		return pdfcpu.VerifC24ErrClass(err) + ":" + err.Error(), false
	}
	return "ok", ctx.XRefTable.Title == docTitle && ctx.PageCount == 1
}

func partE2E(r *vh.Run) {
	e2ePW := []string{"", "usr", "own", "secret", "my pass", "é", "ª", "Á", "ﬁsh", "x y", "0123456789012345678901234567890123456789", strings.Repeat("x", 130)}
	perms := []model.PermissionFlags{model.PermissionsNone, model.PermissionsAll, model.PermissionsPrint}
	for _, a := range algs {
		n := r.Pick(14, 90)
		for i := 0; i < n; i++ {
			us, os_ := e2ePW[r.Rand.Intn(len(e2ePW))], e2ePW[1+r.Rand.Intn(len(e2ePW)-1)]
			if i == 0 {
				us, os_ = "", "own"
			}
			if i == 1 {
				us, os_ = "same", "same"
			}
			ub, uok, uclass := conformingBytes(a, us)
			ob, ook, oclass := conformingBytes(a, os_)
			if !uok || !ook {
				continue
			}
			perm := perms[r.Rand.Intn(3)]
			in := map[string]any{"alg": a.name, "upw": hx([]byte(us)), "opw": hx([]byte(os_)), "perm": int(perm)}
			mkCase := func(s string) pwCase { p, ok, _ := saslprep(s); return pwCase{s, trunc127([]byte(p)), ok, p} }
			upc, opc := mkCase(us), mkCase(os_)

			// ---- pdfcpu writes, independent reader opens
			var c *model.Configuration
			if a.aes {
				c = model.NewAESConfiguration(us, os_, a.klen)
			} else {
				c = model.NewRC4Configuration(us, os_, a.klen)
			}
			c.Permissions = perm
			var out bytes.Buffer
			if err := guard(func() error { return api.Encrypt(bytes.NewReader(plainPDF(a.v20)), &out, c) }); err != nil {
				// AES-256: refusing a password SASLprep accepts (both are accepted here) is a preparation that is not SASLprep
				cl := "error:encrypt"
				if a.rev >= 5 && strings.Contains(err.Error(), "password entries:") {
					for _, pc := range []pwCase{upc, opc} {
						if _, perr := pdfcpu.VerifC24ProcessInput(pc.raw); perr != nil {
							if cl = aesClass(pc, true); cl == "" {
								cl = "iso-mismatch:encrypt-refuses-password"
							}
						}
					}
				}
				r.OracleFail(cl, in, err.Error())
			} else {
				ep, err := parseEncryption(out.Bytes())
				if err != nil {
					r.OracleFail("harness:parse", in, err.Error())
				} else {
					if ep.R != a.rev || ep.CM != a.cm {
						r.OracleFail("iso-mismatch:dictionary", in, fmt.Sprintf("R=%d CFM=%d", ep.R, ep.CM))
					}
					auth := func(who string, pw []byte, class string) {
						var ok bool
						var key []byte
						switch {
						case a.rev <= 4 && who == "user":
							ok, key = iAlg6(pw, ep.O, ep.U, ep.P, ep.ID, ep.R, ep.Length, ep.EncMeta)
						case a.rev <= 4:
							ok, key = iAlg7(pw, nil, ep.O, ep.U, ep.P, ep.ID, ep.R, ep.Length, ep.EncMeta)
						case who == "user":
							ok, key = iAlg11(ep.R, pw, ep.U, ep.UE)
						default:
							ok, key = iAlg12(ep.R, pw, ep.O, ep.OE, ep.U)
						}
						in2 := map[string]any{"who": who}
						for k, v := range in {
							in2[k] = v
						}
						switch {
						case !ok:
							if a.rev >= 5 { // does pdfcpu open its own file with this password?
								var self string
								if who == "user" {
									self, _ = openWith(out.Bytes(), "", us)
									class = aesClass(upc, self == "ok")
								} else {
									self, _ = openWith(out.Bytes(), os_, "")
									class = aesClass(opc, self == "ok")
								}
							}
							if class == "" {
								class = "iso-mismatch:e2e-reader-rejects-" + who + "-password"
							}
							r.OracleFail(class, in2, "a conforming reader does not accept the "+who+" password of the file pdfcpu wrote")
						case a.rev >= 5 && !iAlg13(ep.Perms, key, ep.P, ep.EncMeta):
							r.OracleFail("iso-mismatch:e2e-perms", in2, "")
						case !findContent(out.Bytes(), ep, key):
							r.OracleFail("iso-mismatch:e2e-file-key", in2, "the key derived by the standard algorithms does not decrypt the page content")
						default:
							r.OracleOK()
						}
					}
					auth("user", ub, uclass)
					auth("owner", ob, oclass)
					// a wrong password must not authenticate
					if a.rev <= 4 {
						if ok, _ := iAlg6([]byte("wrong"), ep.O, ep.U, ep.P, ep.ID, ep.R, ep.Length, ep.EncMeta); ok {
							r.OracleFail("iso-mismatch:e2e-wrong-accepted", in, "")
						}
					} else if ok, _ := iAlg11(ep.R, []byte("wrong"), ep.U, ep.UE); ok {
						r.OracleFail("iso-mismatch:e2e-wrong-accepted", in, "")
					}
				}
			}

			// ---- independent writer writes, pdfcpu opens
			ep := &encParams{R: a.rev, V: a.v, Length: a.klen, CM: a.cm, P: int64(int32(int16(perm))), EncMeta: true, ID: docID}
			var fk []byte
			if a.rev <= 4 {
				ep.O = iAlg3(ob, ub, a.rev, a.klen)
				fk = iAlg2(ub, ep.O, ep.P, docID, a.rev, a.klen, true)
				ep.U = append(iAlgU(fk, docID, a.rev), make([]byte, 16)...)[:32]
			} else {
				fk = randBytes(r, 32)
				ep.U, ep.UE = iAlg8(a.rev, ub, randBytes(r, 8), randBytes(r, 8), fk)
				ep.O, ep.OE = iAlg9(a.rev, ob, randBytes(r, 8), randBytes(r, 8), ep.U, fk)
				ep.Perms = iAlg10(ep.P, true, randBytes(r, 4), fk)
			}
			doc := buildPDF(a.v20, ep, fk)
			try := func(who, opw, upw, class string, want bool) {
				res, content := openWith(doc, opw, upw)
				in2 := map[string]any{"who": who, "direction": "independent writer -> pdfcpu"}
				for k, v := range in {
					in2[k] = v
				}
				switch {
				case want && (res != "ok" || !content):
					if a.rev >= 5 && who == "user" {
						class = aesClass(upc, true)
					} else if a.rev >= 5 {
						class = aesClass(opc, true)
					}
					if class == "" {
						class = "iso-mismatch:e2e-pdfcpu-rejects-" + who + "-password"
					}
					r.OracleFail(class, in2, res)
				case !want && res == "ok":
					r.OracleFail("iso-mismatch:e2e-pdfcpu-accepts-wrong-password", in2, res)
				default:
					r.OracleOK()
				}
			}
			try("user", "", us, uclass, true)
			if os_ != "" {
				try("owner", os_, "", oclass, true)
			}
			if us != "" {
				try("wrong", "wrong", "wrong", "", false)
			}
			r.Count("e2e:" + a.name)
		}
	}
}

func main() {
	api.DisableConfigDir()
	r := vh.Start("C24")
	defer r.Finish()
	partRC4(r)
	partAES(r)
	partAESModel(r)
	partLongPW(r)
	partCase(r)
	partE2E(r)
}
