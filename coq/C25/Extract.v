From Coq Require Import Extraction ExtrOcamlBasic.
From PV Require Import Lib.ExtBase C25.Model.
Extraction "model.ml" ext_base_z ext_base_n ext_base_nat ext_base_res ext_base_list
  run_report prepared127 step access validate_owner validate_user setup_key outcome_code result_code.
