From PV Require Import Lib.GoInt C14.Model.
