(* C15 glue: encoders / decoders of the concretely modelled filters, pipelines, and the model's own
   round trip (rt_*: decode (encode x) in the model). *)
open Model
open Common

let errs = function
  | ELimit -> "limit" | EEOF -> "eof" | EUnexpEOF -> "unexpeof" | EOther -> "other" | EFuel -> "fuel"
let dres_s = function DOk l -> "ok:" ^ hex_of_bytes l | DErr e -> "err:" ^ errs e
let opt_bytes = function Some l -> "ok:" ^ hex_of_bytes l | None -> "err"
let m1 = z_of_hex "-1"
let stage_of = function
  | "AHx" -> ahx_stage | "RL" -> rl_stage | s -> failwith ("stage " ^ s)
let stages s = if s = "" then [] else List.map stage_of (String.split_on_char ',' s)
let optz s = if s = "" then None else Some (z_of_hex s)

let dispatch fn args = match fn, args with
  | "ahx_decode", [bb] -> dres_s (ahx_decode_length (bytes_of_hex bb) m1 m1)
  | "ahx_encode", [bb] -> "ok:" ^ hex_of_bytes (ahx_encode (bytes_of_hex bb))
  | "rl_decode", [bb] -> dres_s (rl_decode_length (bytes_of_hex bb) m1 m1)
  | "rl_encode", [bb] -> opt_bytes (rl_encode (bytes_of_hex bb))
  | "pipe_decode", [sts; raw] -> dres_s (pipe_decode (stages sts) (bytes_of_hex raw) m1 m1)
  | "pipe_encode", [sts; content] -> opt_bytes (pipe_encode (stages sts) (bytes_of_hex content))
  | "rt_pipe", [sts; content] ->
    (match pipe_encode (stages sts) (bytes_of_hex content) with
     | Some raw -> dres_s (pipe_decode (stages sts) raw m1 m1)
     | None -> "err:encode")
  (* what flate.Decode makes of the bytes that flate.Encode deflated (Encode ignores the predictor) *)
  | "flate_reencode", [x; pred; colors; bpc; cols] ->
    dres_s (flate_post { p_pred = optz pred; p_colors = optz colors; p_bpc = optz bpc; p_cols = optz cols; p_early = None }
              (bytes_of_hex x, REof) m1 m1)
  | _ -> failwith ("unknown function " ^ fn)
let () = main dispatch
