// Harness for C42: safemath.AddInt / MultiplyInt / MultiplyInt64 against the
// translated model, plus the direct oracle (exact big-integer arithmetic).
package main

import (
	"math"
	"math/big"

	"github.com/pdfcpu/pdfcpu/pkg/pdfcpu/safemath"
	"verif/vh"
)

func main() {
	r := vh.Start("C42")
	defer r.Finish()
	var vals []int64
	add := func(v int64) { vals = append(vals, v) }
	for _, c := range []int64{0, 1, 2, 3, 7, 255, 256, 65535, 65536, 1 << 31, 1<<31 - 1, 1 << 32, 1<<32 - 1, 3037000499, 3037000500,
		1 << 62, 1<<62 - 1, math.MaxInt64, math.MaxInt64 - 1, math.MaxInt64 / 2, math.MaxInt64/2 + 1, math.MaxInt64 / 3, math.MaxInt64/3 + 1} {
		add(c)
		add(-c)
		add(-c - 1)
	}
	add(math.MinInt64)
	n := r.Pick(40, 400)
	for i := 0; i < n; i++ {
		add(r.Rand.Int63())
		add(-r.Rand.Int63())
		add(r.Rand.Int63n(1 << 33))
		add(r.Rand.Int63() >> uint(r.Rand.Intn(63)))
	}
	maxI := big.NewInt(math.MaxInt64)
	oracle := func(fn string, a, b int64, v int64, err error, exact *big.Int) {
		want := a >= 0 && b >= 0 && exact.Cmp(maxI) <= 0
		got := err == nil
		if want != got || (got && big.NewInt(v).Cmp(exact) != 0) {
			r.OracleFail(fn, map[string]any{"fn": fn, "a": a, "b": b}, "expected ok="+vh.Bool(want)+" exact="+exact.String())
		} else {
			r.OracleOK()
		}
	}
	for _, a := range vals {
		for _, b := range vals {
			if !r.Thorough() && r.Rand.Intn(4) != 0 && !(small(a) || small(b)) {
				continue
			}
			ba, bb := big.NewInt(a), big.NewInt(b)
			v, err := safemath.AddInt(int(a), int(b))
			r.Case("AddInt", []string{vh.Int(a), vh.Int(b)}, vh.ResInt(int64(v), err))
			oracle("AddInt", a, b, int64(v), err, new(big.Int).Add(ba, bb))
			v, err = safemath.MultiplyInt(int(a), int(b))
			r.Case("MultiplyInt", []string{vh.Int(a), vh.Int(b)}, vh.ResInt(int64(v), err))
			oracle("MultiplyInt", a, b, int64(v), err, new(big.Int).Mul(ba, bb))
			v64, err := safemath.MultiplyInt64(a, b)
			r.Case("MultiplyInt64", []string{vh.Int(a), vh.Int(b)}, vh.ResInt(v64, err))
			oracle("MultiplyInt64", a, b, v64, err, new(big.Int).Mul(ba, bb))
			switch {
			case a < 0 || b < 0:
				r.Count("class:negative-operand")
			case err != nil:
				r.Count("class:overflow")
			default:
				r.Count("class:fits")
			}
		}
	}
}

func small(a int64) bool { return a >= -3 && a <= 3 }
