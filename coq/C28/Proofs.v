(* C28 — lemmas about the signed-byte-range model. *)
From Coq Require Import ZArith NArith List Bool Lia.
From PV Require Import Lib.GoInt Lib.GoIntFacts C28.Generated C28.Model.
Import ListNotations.
Open Scope Z_scope.

(* ---------- list helpers ---------- *)
Lemma lenZ_acc {A} (l : list A) a : fold_left (fun a _ => a + 1) l a = a + Z.of_nat (length l).
Proof.
  revert a. induction l as [|x t IH]; intros a; simpl.
  - lia.
  - rewrite IH. lia.
Qed.

Lemma lenZ_spec {A} (l : list A) : lenZ l = Z.of_nat (length l).
Proof. unfold lenZ. rewrite lenZ_acc. lia. Qed.

Lemma lenZ_nonneg {A} (l : list A) : 0 <= lenZ l.
Proof. rewrite lenZ_spec. lia. Qed.

Lemma takeZ_firstn n l : takeZ n l = firstn (Z.to_nat n) l.
Proof.
  revert n. induction l as [|x t IH]; intros n; simpl.
  - now rewrite firstn_nil.
  - destruct (n <=? 0) eqn:E.
    + replace (Z.to_nat n) with 0%nat by lia. reflexivity.
    + replace (Z.to_nat n) with (S (Z.to_nat (n - 1))) by lia. simpl. now rewrite IH.
Qed.

Lemma dropZ_skipn n l : dropZ n l = skipn (Z.to_nat n) l.
Proof.
  revert n. induction l as [|x t IH]; intros n; simpl.
  - now rewrite skipn_nil.
  - destruct (n <=? 0) eqn:E.
    + replace (Z.to_nat n) with 0%nat by lia. reflexivity.
    + replace (Z.to_nat n) with (S (Z.to_nat (n - 1))) by lia. simpl. now rewrite IH.
Qed.

Lemma slice_spec f off size : slice f off size = firstn (Z.to_nat size) (skipn (Z.to_nat off) f).
Proof. unfold slice. now rewrite takeZ_firstn, dropZ_skipn. Qed.

Lemma slice_zero f off : slice f off 0 = [].
Proof. rewrite slice_spec. reflexivity. Qed.

Lemma length_slice f off size :
  0 <= off -> 0 <= size -> off + size <= lenZ f -> length (slice f off size) = Z.to_nat size.
Proof.
  intros Ho Hs Hl. rewrite lenZ_spec in Hl. rewrite slice_spec, firstn_length, skipn_length. lia.
Qed.

(* ---------- byteRangeEnd (Generated.v) on Go int64 values ---------- *)
Definition i64 (z : Z) : Prop := inS 64 z.

Lemma maxS64 : maxS 64 = 9223372036854775807.
Proof. reflexivity. Qed.
Lemma minS64 : minS 64 = -9223372036854775808.
Proof. reflexivity. Qed.

Lemma byteRangeEnd_ok a b e :
  0 <= a -> 0 <= b -> i64 a -> i64 b ->
  byteRangeEnd IW a b = Ok e -> e = a + b /\ a + b <= maxS 64.
Proof.
  unfold byteRangeEnd, i64, inS, ssubw, saddw. intros Ha Hb [_ Ha2] [_ Hb2].
  rewrite (wrapS_id 64 (maxS 64 - b)) by (unfold inS; rewrite ?maxS64, ?minS64 in *; lia).
  destruct (a >? maxS 64 - b) eqn:E; intros H; [discriminate|].
  injection H as <-.
  rewrite wrapS_id by (unfold inS; rewrite ?maxS64, ?minS64 in *; lia). lia.
Qed.

Lemma byteRangeEnd_complete a b :
  0 <= a -> 0 <= b -> i64 a -> i64 b -> a + b <= maxS 64 ->
  byteRangeEnd IW a b = Ok (a + b).
Proof.
  unfold byteRangeEnd, i64, inS, ssubw, saddw. intros Ha Hb [_ Ha2] [_ Hb2] Hs.
  rewrite (wrapS_id 64 (maxS 64 - b)) by (unfold inS; rewrite ?maxS64, ?minS64 in *; lia).
  destruct (a >? maxS 64 - b) eqn:E; [lia|].
  rewrite wrapS_id by (unfold inS; rewrite ?maxS64, ?minS64 in *; lia). reflexivity.
Qed.

(* ---------- byteRangeValues / validateByteRange ---------- *)
Lemma byteRangeValues_ok arr v :
  byteRangeValues arr = Ok v ->
  exists o1 l1 o2 l2, arr = [o1; l1; o2; l2] /\ v = (o1, l1, o2, l2) /\
                      0 <= o1 /\ 0 <= l1 /\ 0 <= o2 /\ 0 <= l2.
Proof.
  unfold byteRangeValues.
  destruct arr as [|a [|b [|c [|d [|e t]]]]]; try discriminate.
  destruct (a <? 0) eqn:Ea; [discriminate|].
  destruct (b <? 0) eqn:Eb; [discriminate|].
  destruct (c <? 0) eqn:Ec; [discriminate|].
  destruct (d <? 0) eqn:Ed; [discriminate|].
  intros H. injection H as <-. exists a, b, c, d. repeat split; lia.
Qed.

Lemma validateByteRange_ok o1 l1 o2 l2 t :
  0 <= o1 -> 0 <= l1 -> 0 <= o2 -> 0 <= l2 -> i64 o1 -> i64 l1 -> i64 o2 -> i64 l2 ->
  validateByteRange (o1, l1, o2, l2) = Ok t ->
  o1 = 0 /\ l1 <= o2 /\ o2 + l2 <= maxS 64 /\ t = l1 + l2.
Proof.
  intros H1 H2 H3 H4 I1 I2 I3 I4. unfold validateByteRange.
  destruct (o1 =? 0) eqn:E0; simpl; [|discriminate].
  destruct (byteRangeEnd IW o1 l1) as [e1|] eqn:B1; [|discriminate].
  apply byteRangeEnd_ok in B1; try assumption. destruct B1 as [-> B1].
  destruct (o1 + l1 >? o2) eqn:E1; [discriminate|].
  destruct (byteRangeEnd IW o2 l2) as [e2|] eqn:B2; [|discriminate].
  apply byteRangeEnd_ok in B2; try assumption. destruct B2 as [-> B2].
  destruct (byteRangeEnd IW l1 l2) as [e3|] eqn:B3; [|discriminate].
  apply byteRangeEnd_ok in B3; try assumption. destruct B3 as [-> B3].
  destruct (l1 + l2 >? maxInt) eqn:E2; [discriminate|].
  intros H. injection H as <-. repeat split; lia.
Qed.

(* ---------- copyByteRange ---------- *)
Lemma copyByteRange_ok f off size d :
  copyByteRange f off size = Ok d ->
  0 <= off /\ 0 <= size /\ d = slice f off size /\ (size = 0 \/ off + size <= lenZ f).
Proof.
  unfold copyByteRange.
  destruct ((off <? 0) || (size <? 0)) eqn:E; [discriminate|].
  apply orb_false_iff in E. destruct E as [E1 E2].
  destruct (size =? 0) eqn:Es.
  - intros H. injection H as <-. assert (size = 0) by lia. subst size.
    rewrite slice_zero. repeat split; lia.
  - destruct (off + size <=? lenZ f) eqn:El; [|discriminate].
    intros H. injection H as <-. repeat split; lia.
Qed.

(* ---------- contentsGapMatches ---------- *)
Definition nonWs (b : N) : bool := negb (isGapWs b).
Definition hexnorm (l : list N) : list N := map toUpperHex (filter nonWs l).

Lemma gapLoop_spec inner c : gapLoop inner c = true <-> hexnorm inner = map toUpperHex c.
Proof.
  revert c. induction inner as [|b t IH]; intros c; simpl.
  - destruct c; simpl; split; intros H; try reflexivity; try discriminate.
  - unfold hexnorm. simpl. unfold nonWs at 1. destruct (isGapWs b) eqn:W; simpl.
    + apply IH.
    + destruct c as [|x c']; simpl.
      * split; intros H; discriminate.
      * destruct (N.eqb (toUpperHex b) (toUpperHex x)) eqn:E.
        -- apply N.eqb_eq in E. rewrite IH. unfold hexnorm. split; intros H.
           ++ now rewrite E, H.
           ++ now injection H.
        -- apply N.eqb_neq in E. split; intros H; [discriminate|]. injection H as H1 _. contradiction.
Qed.

Lemma removelast_last_split {A} (l : list A) d : l <> [] -> l = removelast l ++ [last l d].
Proof. intros H. now apply app_removelast_last. Qed.

(* the gap matches exactly when it is '<' inner '>' and inner, with white space removed and
   a-f folded to upper case, is the /Contents value (folded the same way) *)
Lemma contentsGapMatches_spec gap c :
  contentsGapMatches gap c = true <->
  exists inner, gap = 60%N :: inner ++ [62%N] /\ hexnorm inner = map toUpperHex c.
Proof.
  unfold contentsGapMatches. destruct gap as [|g0 [|g1 rest]].
  - split; [discriminate|]. intros [inner [H _]]. discriminate.
  - split; [discriminate|]. intros [inner [H _]]. destruct inner; discriminate.
  - set (r := g1 :: rest). assert (Hr : r <> []) by (unfold r; discriminate).
    split.
    + intros H. apply andb_true_iff in H. destruct H as [H H3].
      apply andb_true_iff in H. destruct H as [H1 H2].
      apply N.eqb_eq in H1. apply N.eqb_eq in H2. apply gapLoop_spec in H3.
      exists (removelast r). split; [|exact H3].
      subst g0. f_equal. rewrite <- H2. now apply removelast_last_split.
    + intros [inner [H Hn]]. injection H as -> Hrest.
      fold r in Hrest. rewrite Hrest.
      rewrite last_last, removelast_last. simpl.
      now apply gapLoop_spec.
Qed.

(* ---------- signedData ---------- *)
Definition int64s (arr : list Z) : Prop := Forall i64 arr.

Lemma bytesForByteRange_ok f arr d :
  int64s arr -> bytesForByteRange f arr = Ok d ->
  exists l1 o2 l2, arr = [0; l1; o2; l2] /\ 0 <= l1 /\ l1 <= o2 /\ 0 <= l2 /\
    (l1 = 0 \/ l1 <= lenZ f) /\ (l2 = 0 \/ o2 + l2 <= lenZ f) /\
    d = slice f 0 l1 ++ slice f o2 l2.
Proof.
  intros HI. unfold bytesForByteRange.
  destruct (byteRangeValues arr) as [v|] eqn:BV; [|discriminate].
  apply byteRangeValues_ok in BV. destruct BV as (o1 & l1 & o2 & l2 & -> & -> & P1 & P2 & P3 & P4).
  inversion HI as [|? ? I1 HI1]; subst. inversion HI1 as [|? ? I2 HI2]; subst.
  inversion HI2 as [|? ? I3 HI3]; subst. inversion HI3 as [|? ? I4 _]; subst.
  destruct (validateByteRange (o1, l1, o2, l2)) as [t|] eqn:VB; [|discriminate].
  apply validateByteRange_ok in VB; try assumption. destruct VB as (-> & V1 & V2 & _).
  destruct (copyByteRange f 0 l1) as [d1|] eqn:C1; [|discriminate].
  destruct (copyByteRange f o2 l2) as [d2|] eqn:C2; [|discriminate].
  apply copyByteRange_ok in C1. apply copyByteRange_ok in C2.
  destruct C1 as (_ & _ & -> & C1). destruct C2 as (_ & _ & -> & C2).
  intros H. injection H as <-. exists l1, o2, l2. repeat split; try assumption.
Qed.

Lemma signedData_ok f arr contents d :
  int64s arr -> signedData f arr contents = Ok d ->
  exists l1 o2 l2 c, arr = [0; l1; o2; l2] /\ contents = Some c /\
    0 <= l1 /\ l1 + 2 <= o2 /\ 0 <= l2 /\ o2 <= lenZ f /\ (l2 = 0 \/ o2 + l2 <= lenZ f) /\
    o2 + l2 <= maxS 64 /\
    contentsGapMatches (slice f l1 (o2 - l1)) c = true /\
    d = slice f 0 l1 ++ slice f o2 l2.
Proof.
  intros HI. unfold signedData.
  destruct arr as [|a [|b [|c0 [|d0 [|e t]]]]]; try discriminate.
  destruct (byteRangeValues [a; b; c0; d0]) as [v|] eqn:BV; [|discriminate].
  pose proof BV as BV'. apply byteRangeValues_ok in BV'.
  destruct BV' as (o1 & l1 & o2 & l2 & E & -> & P1 & P2 & P3 & P4).
  injection E as -> -> -> ->.
  inversion HI as [|? ? I1 HI1]; subst. inversion HI1 as [|? ? I2 HI2]; subst.
  inversion HI2 as [|? ? I3 HI3]; subst. inversion HI3 as [|? ? I4 _]; subst.
  destruct (validateByteRange (o1, l1, o2, l2)) as [t|] eqn:VB; [|discriminate].
  pose proof VB as VB'. apply validateByteRange_ok in VB'; try assumption.
  destruct VB' as (-> & V1 & V2 & _).
  destruct (validateContentsGap f contents (0, l1, o2, l2)) eqn:G; [|discriminate].
  intros H. apply bytesForByteRange_ok in H; [|exact HI].
  destruct H as (l1' & o2' & l2' & E & _ & _ & _ & _ & B2 & ->).
  injection E as <- <- <-.
  unfold validateContentsGap in G. destruct contents as [c|]; [|discriminate].
  destruct (byteRangeEnd IW 0 l1) as [e1|] eqn:B1; [|discriminate].
  apply byteRangeEnd_ok in B1; try assumption; try lia. destruct B1 as [-> _].
  change (0 + l1) with l1 in G.
  destruct ((o2 - l1 <? 2) || (o2 - l1 >? lenZ c + 2 + 2 ^ 20)) eqn:S; [discriminate|].
  apply orb_false_iff in S. destruct S as [S1 _].
  destruct (copyByteRange f l1 (o2 - l1)) as [gap|] eqn:CG; [|discriminate].
  apply copyByteRange_ok in CG. destruct CG as (_ & _ & -> & CG).
  exists l1, o2, l2, c. repeat split; try assumption; try lia.
Qed.

(* ---------- revision boundary ---------- *)
Lemma revisionEnd_ok fsize a b off size e :
  i64 off -> i64 size ->
  revisionEnd fsize [a; b; off; size] = Some e -> 0 <= fsize /\ 0 <= off /\ 0 <= size /\ e = off + size.
Proof.
  unfold revisionEnd, i64, inS. intros [_ Io] [_ Is].
  destruct (fsize <? 0) eqn:F; [discriminate|].
  destruct ((off <? 0) || (size <? 0) || (off >? ssubw 64 (maxS 64) size)) eqn:E; [discriminate|].
  apply orb_false_iff in E. destruct E as [E E3]. apply orb_false_iff in E. destruct E as [E1 E2].
  unfold ssubw, saddw in *.
  rewrite (wrapS_id 64 (maxS 64 - size)) in E3 by (unfold inS; rewrite ?maxS64, ?minS64 in *; lia).
  intros H. injection H as <-.
  rewrite wrapS_id by (unfold inS; rewrite ?maxS64, ?minS64 in *; lia). lia.
Qed.

Lemma revisionEnd_some fsize a b off size :
  i64 off -> i64 size -> 0 <= fsize -> 0 <= off -> 0 <= size -> off + size <= maxS 64 ->
  revisionEnd fsize [a; b; off; size] = Some (off + size).
Proof.
  unfold revisionEnd, i64, inS. intros [_ Io] [_ Is] F P1 P2 P3.
  destruct (fsize <? 0) eqn:F'; [lia|].
  unfold ssubw, saddw.
  rewrite (wrapS_id 64 (maxS 64 - size)) by (unfold inS; rewrite ?maxS64, ?minS64 in *; lia).
  rewrite wrapS_id by (unfold inS; rewrite ?maxS64, ?minS64 in *; lia).
  destruct ((off <? 0) || (size <? 0) || (off >? maxS 64 - size)) eqn:E; [|reflexivity].
  apply orb_true_iff in E. destruct E as [E|E]; [apply orb_true_iff in E; destruct E|]; lia.
Qed.

(* ---------- main theorem ---------- *)
Definition covered (l1 o2 l2 i : Z) : Prop := (0 <= i < l1) \/ (l1 <= i < o2) \/ (o2 <= i < o2 + l2).

Lemma unmodified_implies_full_cover verdict f arr contents increment dts sf :
  int64s arr -> 0 <= increment ->
  docModified verdict (lenZ f) f arr contents increment dts sf = TFalse ->
  exists l1 o2 l2 c inner,
    arr = [0; l1; o2; l2] /\ contents = Some c /\
    0 <= l1 /\ l1 + 2 <= o2 /\ 0 <= l2 /\ o2 + l2 = lenZ f /\
    (increment = 0 \/ dts = true) /\
    slice f l1 (o2 - l1) = 60%N :: inner ++ [62%N] /\ hexnorm inner = map toUpperHex c /\
    (forall i, 0 <= i < lenZ f -> covered l1 o2 l2 i).
Proof.
  intros HI Hinc. unfold docModified.
  destruct (boundaryOK (lenZ f) arr increment dts sf) eqn:B; simpl; [|discriminate].
  destruct (signedData f arr contents) as [d|] eqn:S; [|discriminate].
  apply signedData_ok in S; [|exact HI].
  destruct S as (l1 & o2 & l2 & c & -> & -> & P1 & P2 & P3 & P4 & P5 & P6 & G & _).
  intros A. unfold applyHistorical in A.
  assert (Hcur : (increment <=? 0) || dts = true).
  { destruct ((increment <=? 0) || dts) eqn:E; [reflexivity|]. destruct (verdict d); discriminate. }
  assert (Hcur' : increment = 0 \/ dts = true).
  { apply orb_true_iff in Hcur. destruct Hcur as [E|E]; [left; lia|now right]. }
  inversion HI as [|? ? _ HI1]; subst. inversion HI1 as [|? ? I2 HI2]; subst.
  inversion HI2 as [|? ? I3 HI3]; subst. inversion HI3 as [|? ? I4 _]; subst.
  unfold boundaryOK in B.
  rewrite (revisionEnd_some (lenZ f) 0 l1 o2 l2) in B; try assumption; try lia;
    try apply lenZ_nonneg.
  assert (Hc : (increment =? 0) || dts = true).
  { destruct Hcur' as [->| ->]; [reflexivity|apply orb_true_r]. }
  rewrite Hc in B. simpl in B. assert (Hend : o2 + l2 = lenZ f) by lia.
  apply contentsGapMatches_spec in G. destruct G as (inner & G1 & G2).
  exists l1, o2, l2, c, inner. repeat split; try assumption; try lia.
  intros i Hi. unfold covered. lia.
Qed.

(* ---------- one lemma per manipulation (all corollaries, for all files) ---------- *)
Section Manipulations.
  Variable verdict : list N -> tri.
  Variables (f : list N) (contents : option (list N)) (increment : Z) (dts : bool) (sf : subFilter).
  Hypothesis Hinc : 0 <= increment.

  Local Notation DM arr := (docModified verdict (lenZ f) f arr contents increment dts sf).

  Lemma appended_bytes_not_unmodified o1 l1 o2 l2 :
    int64s [o1; l1; o2; l2] -> o2 + l2 < lenZ f -> DM [o1; l1; o2; l2] <> TFalse.
  Proof.
    intros HI Hlt A. apply unmodified_implies_full_cover in A; try assumption.
    destruct A as (l1' & o2' & l2' & c & inner & E & _ & _ & _ & _ & Hend & _).
    injection E as -> -> -> ->. lia.
  Qed.

  Lemma truncated_file_not_unmodified o1 l1 o2 l2 :
    int64s [o1; l1; o2; l2] -> lenZ f < o2 + l2 -> DM [o1; l1; o2; l2] <> TFalse.
  Proof.
    intros HI Hlt A. apply unmodified_implies_full_cover in A; try assumption.
    destruct A as (l1' & o2' & l2' & c & inner & E & _ & _ & _ & _ & Hend & _).
    injection E as -> -> -> ->. lia.
  Qed.

  Lemma later_increment_not_unmodified arr :
    int64s arr -> 0 < increment -> dts = false -> DM arr <> TFalse.
  Proof.
    intros HI Hlt Hd A. apply unmodified_implies_full_cover in A; try assumption.
    destruct A as (l1' & o2' & l2' & c & inner & _ & _ & _ & _ & _ & _ & [H|H] & _); [lia|congruence].
  Qed.

  Lemma shifted_start_not_unmodified o1 l1 o2 l2 :
    int64s [o1; l1; o2; l2] -> o1 <> 0 -> DM [o1; l1; o2; l2] <> TFalse.
  Proof.
    intros HI Hne A. apply unmodified_implies_full_cover in A; try assumption.
    destruct A as (l1' & o2' & l2' & c & inner & E & _). injection E as -> -> -> ->. congruence.
  Qed.

  (* overlapping, out-of-order or swapped ranges: the second range starts before the first ends
     (or so close that no "<>" fits in between) *)
  Lemma overlapping_ranges_not_unmodified o1 l1 o2 l2 :
    int64s [o1; l1; o2; l2] -> o2 < o1 + l1 + 2 -> DM [o1; l1; o2; l2] <> TFalse.
  Proof.
    intros HI Hov A. apply unmodified_implies_full_cover in A; try assumption.
    destruct A as (l1' & o2' & l2' & c & inner & E & _ & _ & Hgap & _). injection E as -> -> -> ->. lia.
  Qed.

  Lemma negative_value_not_unmodified arr :
    int64s arr -> Exists (fun z => z < 0) arr -> DM arr <> TFalse.
  Proof.
    intros HI Hneg A. apply unmodified_implies_full_cover in A; try assumption.
    destruct A as (l1' & o2' & l2' & c & inner & -> & _ & P1 & P2 & P3 & _).
    inversion Hneg as [? ? H|? ? H]; subst; [lia|].
    inversion H as [? ? H1|? ? H1]; subst; [lia|].
    inversion H1 as [? ? H2|? ? H2]; subst; [lia|].
    inversion H2 as [? ? H3|? ? H3]; subst; [lia|]. inversion H3.
  Qed.

  Lemma wrong_arity_not_unmodified arr :
    int64s arr -> length arr <> 4%nat -> DM arr <> TFalse.
  Proof.
    intros HI Hlen A. apply unmodified_implies_full_cover in A; try assumption.
    destruct A as (l1' & o2' & l2' & c & inner & -> & _). apply Hlen. reflexivity.
  Qed.

  Lemma missing_contents_not_unmodified arr :
    int64s arr -> contents = None -> DM arr <> TFalse.
  Proof.
    intros HI Hc A. apply unmodified_implies_full_cover in A; try assumption.
    destruct A as (l1' & o2' & l2' & c & inner & _ & E & _). congruence.
  Qed.

  (* a gap that is not exactly the /Contents token (widened, narrowed, shifted, other bytes) *)
  Lemma gap_mismatch_not_unmodified o1 l1 o2 l2 c :
    int64s [o1; l1; o2; l2] -> contents = Some c ->
    contentsGapMatches (slice f (o1 + l1) (o2 - (o1 + l1))) c = false -> DM [o1; l1; o2; l2] <> TFalse.
  Proof.
    intros HI Hc Hg A. apply unmodified_implies_full_cover in A; try assumption.
    destruct A as (l1' & o2' & l2' & c' & inner & E & Ec & _ & _ & _ & _ & _ & G1 & G2 & _).
    injection E as -> -> -> ->. rewrite Hc in Ec. injection Ec as <-.
    simpl in Hg.
    assert (contentsGapMatches (slice f l1' (o2' - l1')) c = true) as Ht.
    { apply contentsGapMatches_spec. exists inner. split; assumption. }
    congruence.
  Qed.
End Manipulations.

(* ---------- widening / narrowing a matching gap by one byte never matches ---------- *)
Definition isHexDigit (b : N) : bool :=
  (((48 <=? b) && (b <=? 57)) || ((65 <=? b) && (b <=? 70)) || ((97 <=? b) && (b <=? 102)))%N.

Lemma toUpperHex_hex_not_lt b : isHexDigit b = true -> toUpperHex b <> 60%N.
Proof.
  unfold isHexDigit, toUpperHex. intros H.
  destruct ((97 <=? b) && (b <=? 102))%N eqn:E.
  - apply andb_true_iff in E. destruct E as [E1 E2]. apply N.leb_le in E1. apply N.leb_le in E2. lia.
  - rewrite orb_false_r in H. apply orb_true_iff in H.
    destruct H as [H|H]; apply andb_true_iff in H; destruct H as [H1 H2];
      apply N.leb_le in H1; apply N.leb_le in H2; lia.
Qed.

Lemma toUpperHex_60 : toUpperHex 60 = 60%N. Proof. reflexivity. Qed.
Lemma toUpperHex_62 : toUpperHex 62 = 62%N. Proof. reflexivity. Qed.
Lemma nonWs_60 : nonWs 60 = true. Proof. reflexivity. Qed.
Lemma nonWs_62 : nonWs 62 = true. Proof. reflexivity. Qed.

Lemma toUpperHex_hex_not_gt b : isHexDigit b = true -> toUpperHex b <> 62%N.
Proof.
  unfold isHexDigit, toUpperHex. intros H.
  destruct ((97 <=? b) && (b <=? 102))%N eqn:E.
  - apply andb_true_iff in E. destruct E as [E1 E2]. apply N.leb_le in E1. apply N.leb_le in E2. lia.
  - rewrite orb_false_r in H. apply orb_true_iff in H.
    destruct H as [H|H]; apply andb_true_iff in H; destruct H as [H1 H2];
      apply N.leb_le in H1; apply N.leb_le in H2; lia.
Qed.

Lemma hexnorm_app a b : hexnorm (a ++ b) = hexnorm a ++ hexnorm b.
Proof. unfold hexnorm. now rewrite filter_app, map_app. Qed.

(* widened to the left: the byte before '<' joins the gap *)
Lemma widened_left_never_matches g c b :
  forallb isHexDigit c = true -> contentsGapMatches g c = true -> contentsGapMatches (b :: g) c = false.
Proof.
  intros Hc Hg. destruct (contentsGapMatches (b :: g) c) eqn:E; [|reflexivity]. exfalso.
  apply contentsGapMatches_spec in Hg. destruct Hg as (inner & -> & Hn).
  apply contentsGapMatches_spec in E. destruct E as (inner' & E & Hn').
  injection E as -> E.
  destruct inner' as [|x t]; [destruct inner; discriminate|].
  injection E as <- E.
  unfold hexnorm in Hn'. simpl in Hn'. destruct c as [|y c']; [discriminate|].
  simpl in Hn'. injection Hn' as Hy _. simpl in Hc. apply andb_true_iff in Hc. destruct Hc as [Hc _].
  symmetry in Hy. revert Hy. rewrite toUpperHex_60. now apply toUpperHex_hex_not_lt.
Qed.

(* widened to the right: the byte behind '>' joins the gap *)
Lemma widened_right_never_matches g c b :
  forallb isHexDigit c = true -> contentsGapMatches g c = true -> contentsGapMatches (g ++ [b]) c = false.
Proof.
  intros Hc Hg. destruct (contentsGapMatches (g ++ [b]) c) eqn:E; [|reflexivity]. exfalso.
  apply contentsGapMatches_spec in Hg. destruct Hg as (inner & -> & Hn).
  apply contentsGapMatches_spec in E. destruct E as (inner' & E & Hn').
  simpl in E. injection E as E.
  rewrite <- app_assoc in E. simpl in E.
  assert (E' : inner ++ [62%N] = inner' /\ b = 62%N).
  { replace (inner ++ [62%N; b]) with ((inner ++ [62%N]) ++ [b]) in E by (now rewrite <- app_assoc).
    apply app_inj_tail in E. exact E. }
  destruct E' as [<- ->].
  rewrite hexnorm_app in Hn'. unfold hexnorm at 2 in Hn'. simpl in Hn'.
  rewrite Hn in Hn'.
  apply (f_equal (@length N)) in Hn'. rewrite app_length in Hn'. simpl in Hn'. lia.
Qed.

(* narrowed on the left: '<' is left outside the gap (covered by the first range) *)
Lemma narrowed_left_never_matches g c x :
  forallb isHexDigit c = true -> contentsGapMatches (x :: g) c = true -> contentsGapMatches g c = false.
Proof.
  intros Hc Hg. destruct (contentsGapMatches g c) eqn:E; [|reflexivity].
  exfalso. pose proof (widened_left_never_matches g c x Hc E). congruence.
Qed.

(* narrowed on the right: '>' is left outside the gap (covered by the second range) *)
Lemma narrowed_right_never_matches g c x :
  forallb isHexDigit c = true -> contentsGapMatches (g ++ [x]) c = true -> contentsGapMatches g c = false.
Proof.
  intros Hc Hg. destruct (contentsGapMatches g c) eqn:E; [|reflexivity].
  exfalso. pose proof (widened_right_never_matches g c x Hc E). congruence.
Qed.
