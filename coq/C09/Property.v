(* C09 — Configured resource limits bound what an input can make pdfcpu allocate.
   Property theorems only.  All statements quantify over ALL inputs and ALL limit values
   (zero, negative, MaxInt64 included); arithmetic the code performs before a check is
   wrap-explicit in the model, so "no overflow" is part of what is proved. *)
From Coq Require Import ZArith List Bool String.
From PV Require Import Lib.GoInt C09.Model C09.Generated C09.Proofs.
Import ListNotations.
Open Scope Z_scope.

(* decoded output handed back by a filter: at most the effective limit; with a positive
   configured limit below MaxInt64 that is the configured limit, with 0 the package default;
   a NEGATIVE or MaxInt64 configured limit means "no limit" in the code (effLimit = avail). *)
Theorem C09_decoded_le_limit : forall mdb avail maxLen n,
  inS W mdb -> inS W maxLen -> 0 <= avail ->
  copyDecoded mdb avail maxLen = DOk n ->
  0 <= n <= avail /\ n <= effLimit mdb maxLen avail /\
  (maxLen < 0 -> 0 < mdb < maxInt64 -> n <= mdb) /\
  (maxLen < 0 -> mdb = 0 -> n <= DefaultMaxDecodeBytes).
Proof. exact decoded_le_limit. Qed.
Print Assumptions C09_decoded_le_limit.

(* a decoder that would produce more than the limit fails with the limit error, having
   buffered at most limit+1 bytes (and limit+1 does not overflow) *)
Theorem C09_bomb_fails : forall mdb avail, 0 < mdb < maxInt64 -> mdb < avail ->
  copyDecoded mdb avail (-1) = DErrLimit.
Proof. exact bomb_fails. Qed.
Print Assumptions C09_bomb_fails.

Theorem C09_copyDecoded_no_overflow : forall mdb maxLen,
  inS W mdb -> inS W maxLen -> maxLen < 0 ->
  let limit := decodeLimit mdb maxLen in
  0 <= limit -> limit <> maxInt64 -> saddw W limit 1 = limit + 1.
Proof. exact copyDecoded_no_overflow. Qed.
Print Assumptions C09_copyDecoded_no_overflow.

Theorem C09_encoded_le_stream_limit : forall len maxb n,
  streamAlloc len maxb = Ok n -> n = 0 \/ (n = len /\ 0 < n <= maxb).
Proof. exact encoded_le_stream_limit. Qed.
Print Assumptions C09_encoded_le_stream_limit.

(* xref stream expansion: entries <= MaxXRefEntries, make() capacity and every object
   number <= MaxObjectCount, none of start+n, MaxObjectCount-n, MaxXRefEntries-total, total+n wraps *)
Theorem C09_xref_objs_bounded : forall size idx l relaxed tot cap size',
  inS W size -> inS W (MaxObjectCount l) -> inS W (MaxXRefEntries l) ->
  match idx with Some ix => Forall (fun p => inS W (fst p) /\ inS W (snd p)) ix | None => True end ->
  xrefObjects size idx l relaxed = Ok (tot, cap, size') ->
  0 <= tot <= Z.max 0 (MaxXRefEntries l) /\ 1 <= cap <= MaxObjectCount l /\
  cap <= size' <= MaxObjectCount l.
Proof. exact xref_objs_bounded. Qed.
Print Assumptions C09_xref_objs_bounded.

Theorem C09_objstm_bounded : forall n first l, objStreamOK n first l = true ->
  1 <= n <= MaxObjectStreamCount l /\ 0 <= first <= MaxObjectStreamFirst l.
Proof. exact objstm_bounded. Qed.
Print Assumptions C09_objstm_bounded.

(* object streams: the struct built by ObjectStreamDictWithLimits stores the CONFIGURED limit and the
   lazy full decode of the content (LazyObjectStreamObject.GetData) is bounded by exactly that value;
   an object stream inflating beyond it fails with the limit error *)
Theorem C09_objstm_content_bounded : forall n first l mdb o avail k,
  inS W mdb -> 0 <= avail ->
  objectStreamDictWithLimits n first l mdb = Ok o ->
  osdFullDecode o avail = DOk k ->
  0 <= k <= avail /\ k <= effLimit mdb (-1) avail /\
  (0 < mdb < maxInt64 -> k <= mdb) /\ (mdb = 0 -> k <= DefaultMaxDecodeBytes).
Proof. exact objstm_content_bounded. Qed.
Print Assumptions C09_objstm_content_bounded.

Theorem C09_objstm_bomb_fails : forall n first l mdb o avail,
  0 < mdb < maxInt64 -> mdb < avail ->
  objectStreamDictWithLimits n first l mdb = Ok o -> osdFullDecode o avail = DErrLimit.
Proof. exact objstm_bomb_fails. Qed.
Print Assumptions C09_objstm_bomb_fails.

(* ... and in the sources (tables regenerated on every run): every ObjectStreamDict literal sets
   MaxDecodeBytes from a configured limit (or is the write-side constructor), ObjectStreamDictWithLimits
   does, and the only decode site that takes its limit from a struct field is GetData *)
Theorem C09_objstm_limit_plumbed :
  (forall c, In c osd_constructions -> site_ok osd_write_side c = true) /\
  (exists c, In c osd_constructions /\ s_func c = "ObjectStreamDictWithLimits"%string /\ s_kind c = LConfigured) /\
  (forall s, In s decode_sites -> is_field s = true ->
     s_func s = "LazyObjectStreamObject.GetData"%string).
Proof. exact osd_limit_plumbed. Qed.
Print Assumptions C09_objstm_limit_plumbed.

(* FlateDecode predictor stage (decodePostProcess): for EVERY decode mode — full decode (maxLen = -1) and
   partial decode (maxLen >= 0, e.g. the object stream prolog) — the two row buffers and the output row
   are only allocated when a row fits the decode limit in force; the row size is exact (no overflow:
   the products and sums are exact-or-error) *)
Theorem C09_row_buffers_le_limit : forall mdb p c b col maxLen rs rl,
  rowGuard mdb p c b col maxLen = RAlloc rs rl ->
  let limit := decodeLimit mdb (-1) in
  (0 <= limit -> rl <= limit) /\ (0 < mdb -> rl <= mdb) /\ (mdb = 0 -> rl <= DefaultMaxDecodeBytes) /\
  0 <= rs <= rl /\ rl <= rs + 1 /\ rl <= maxInt64.
Proof. exact row_buffers_le_limit. Qed.
Print Assumptions C09_row_buffers_le_limit.

Theorem C09_row_bomb_fails : forall mdb p c b col c' b' col' maxLen rs rl bpp,
  0 < mdb -> p <> 1 -> validPredictor p = true ->
  flateParameters c b col = Ok (c', b', col') ->
  predictorRowParams p c' b' col' = Ok (rs, rl, bpp) -> mdb < rl ->
  rowGuard mdb (Some p) c b col maxLen = RErrLimit.
Proof. exact row_bomb_fails. Qed.
Print Assumptions C09_row_bomb_fails.

(* every partial-decode call site of the sources (decode mode from the regenerated table) is one the
   harness drives a row bomb through *)
Theorem C09_partial_sites_covered : forall s, In s decode_sites -> is_partial s = true ->
  existsb (fun a => same_site a s) partial_sites_covered = true.
Proof. exact partial_sites_all. Qed.
Print Assumptions C09_partial_sites_covered.

(* RunLengthDecode (its own limit counter: written++ per byte, tested with == before every byte):
   for ALL encoded inputs, limits and decode modes the decoder never holds more than the limit in force,
   whether it returns the data, stops at maxLen, or fails; fuel (= input length) always suffices *)
Theorem C09_runlength_le_limit : forall mdb maxLen src,
  let limit := decodeLimit mdb maxLen in
  rlDecode mdb maxLen src <> RLFuel /\
  (0 <= limit -> Z.of_nat (length (rl_out (rlDecode mdb maxLen src))) <= limit).
Proof. exact runlength_le_limit. Qed.
Print Assumptions C09_runlength_le_limit.

(* ASCIIHexDecode: the make([]byte, n) it performs is within the limit (full) / equals maxLen (partial) *)
Theorem C09_ahx_alloc_le_limit : forall mdb digits maxLen n, 0 <= digits ->
  ahxGate mdb digits maxLen = AHAlloc n ->
  0 <= n <= digits / 2 /\ n <= maxInt64 / 2 /\
  (maxLen < 0 -> 0 <= decodeLimit mdb (-1) -> n <= decodeLimit mdb (-1)) /\ (0 <= maxLen -> n = maxLen).
Proof. exact ahx_alloc_le_limit. Qed.
Print Assumptions C09_ahx_alloc_le_limit.

Theorem C09_image_bounded : forall w h l px rb, imageOK w h l = Ok (px, rb) ->
  0 < w /\ 0 < h /\ px = w * h /\ px <= MaxImagePixels l /\ rb = 4 * px /\
  rb <= MaxImageBytes l /\ rb <= maxInt64.
Proof. exact image_bounded. Qed.
Print Assumptions C09_image_bounded.

(* FULL statement wanted: every decode call site of pkg/ passes the configured limit
   (forallb is_configured decode_sites = true).  REFUTED (C09_decode_sites_refuted): StreamDict.Decode()
   hard-wires filter.DefaultMaxDecodeBytes and is called from the frozen list known_sites.
   Proved: every site passes the configured limit OR is in that frozen list, over the table
   regenerated from the sources on every run — a new unbounded site breaks this theorem. *)
Theorem C09_decode_sites_partial : forall s, In s decode_sites -> site_ok known_sites s = true.
Proof. exact decode_sites_all. Qed.
Print Assumptions C09_decode_sites_partial.

Theorem C09_decode_sites_refuted : exists s, In s decode_sites /\ is_configured s = false /\
  site_ok encode_only s = false.
Proof. exact decode_sites_refuted. Qed.
Print Assumptions C09_decode_sites_refuted.

(* observation: a negative configured decode limit switches the limit off *)
Theorem C09_negative_limit_unbounded : forall mdb avail, mdb < 0 -> copyDecoded mdb avail (-1) = DOk avail.
Proof. exact negative_limit_unbounded. Qed.
Print Assumptions C09_negative_limit_unbounded.

Example C09_nonvacuous :
  copyDecoded 65536 200000000 (-1) = DErrLimit /\ copyDecoded 65536 65536 (-1) = DOk 65536 /\
  xrefObjects 10 (Some [(0, 4); (8, 2)]) (mklim 100 5 0 0 0 0) false = Err /\
  xrefObjects 10 (Some [(0, 3); (8, 2)]) (mklim 100 5 0 0 0 0) false = Ok (5, 10, 10) /\
  imageOK 40000 40000 (mklim 0 0 0 0 (2^40) (2^40)) = Ok (1600000000, 6400000000) /\
  rowGuard 1048576 (Some 12) None None (Some 67108864) 16 = RErrLimit /\
  rlDecode 5 (-1) [254; 65; 253; 66]%N = RLErrLimit [65; 65; 65; 66; 66]%N /\
  rlDecode 7 (-1) [254; 65; 253; 66]%N = RLOk [65; 65; 65; 66; 66; 66; 66]%N /\
  rlDecode 7 4 [254; 65; 253; 66]%N = RLOk [65; 65; 65; 66]%N /\
  rowGuard 1048576 (Some 12) None None (Some 1048575) 16 = RAlloc 1048575 1048576.
Proof. vm_compute. repeat split. Qed.
