#!/bin/sh
# usage: lib/integrate.sh Cxx [hookfile ...]   -- commit hook files in /repo (one commit), record them, regenerate MANIFEST
set -e
P=$1; shift
if [ $# -gt 0 ]; then
  cd /repo
  for f in "$@"; do head -1 "$f" | grep -q '^//go:build verif' || { echo "$f lacks build tag"; exit 1; }; done
  git add "$@"
  git commit -qm "verif hook ($P): add-only //go:build verif exports for the $P harness" 
  H=$(git rev-parse --short HEAD)
  cd /verif
  python3 - "$H" <<'PY'
import json,sys,os
p='/verif/props/hooks.json'
d=json.load(open(p)) if os.path.exists(p) else {"source_commits":[]}
d["source_commits"].append(sys.argv[1]); json.dump(d,open(p,'w'),indent=1)
PY
fi
cd /verif; python3 lib/mkmanifest.py
