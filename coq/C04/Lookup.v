(* C04 -- decision of the command in row i of the generated table (no proofs; extracted).
   The extracted code must not mention Coq's `string` (it would shadow OCaml's in common.ml),
   so the string-free projections of the table are computed here, at compile time, from
   Generated.table; Proofs.core_table_is_table states that they are projections of the table. *)
From Coq Require Import String List NArith Bool.
From PV Require Import C04.Model C04.Generated.
Import ListNotations.

Definition core_of (r : row) : list guard := r_guards r.

Definition core_table : list (list guard) := Eval vm_compute in map core_of table.
Definition guarded_flags : list bool := Eval vm_compute in map guarded table.

(* same match as Model.decide_row, on the projection *)
Definition decide_core (gs : list guard) (outDir outFile joined : oname) (force : bool)
           (sDir sFile sJoined : pstate) : decision :=
  match gs with
  | [GFile] => ensureOutputFileAvailable outFile force sFile
  | [GDir] => ensureOutputDirEmpty outDir force sDir
  | [GDirOrFile] => ensureOutputDirOrFileAvailable outDir outFile joined force sDir sJoined
  | _ => Proceed
  end.

Definition decide_idx (i : N) (outDir outFile joined : oname) (force : bool)
           (sDir sFile sJoined : pstate) : option decision :=
  match nth_error core_table (N.to_nat i) with
  | Some gs => Some (decide_core gs outDir outFile joined force sDir sFile sJoined)
  | None => None
  end.

Definition guarded_idx (i : N) : option bool := nth_error guarded_flags (N.to_nat i).

Definition table_len : N := N.of_nat (length core_table).
