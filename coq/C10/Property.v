(* C10 — Cancelling a read stops it promptly with the cancellation error.
   Property theorems only.  The model (C10/Model.v) is the control skeleton of
   pdfcpu.ReadWithContext with respect to the polls of the Go context; a context is
   any function from poll index to the error returned (mono = the contract of
   context.Context.Err).  A shape describes one input document (how many xref
   sections, objects, dictionary keys, object streams ...) — all theorems hold
   for every shape, i.e. the bounds do not depend on the size of the input. *)
From Coq Require Import NArith List.
From PV Require Import Lib.GoInt C10.Model C10.Proofs C10.ProofsRead.
Import ListNotations.
Open Scope N_scope.

(* An already-cancelled context: the read makes exactly one poll, returns the context's
   error and no document — unless the input is rejected before the first poll
   (header / startxref), in which case that input error is returned; never a document. *)
Theorem C10_precancelled_fails : forall s poll e, s_sections s <> [] -> poll 0 = Some e ->
  read poll s = if s_prefail s then (InErr, st0) else (CtxErr e, mkst 1 1).
Proof. exact precancelled_fails. Qed.
Print Assumptions C10_precancelled_fails.

(* Cancelling at any time: the read either finishes — and then no poll ever saw the
   cancellation — or returns the context's error.  The only input error is the one of the
   pre-checks, returned before any poll was made (st = st0).
   s_entries <> []: the xref table always has entry 0. *)
Theorem C10_cancel_any_time : forall s poll e, mono poll ->
  (forall i e', poll i = Some e' -> e' = e) -> s_entries s <> [] ->
  forall o st, read poll s = (o, st) ->
  (o = Done /\ late st = 0) \/ o = CtxErr e \/ (o = InErr /\ s_prefail s = true /\ st = st0).
Proof. exact cancel_any_time. Qed.
Print Assumptions C10_cancel_any_time.

(* Also for documents WITH input errors (any program p, q, r): where the reader decides between
   giving up and falling back (relaxed re-parse, xref repair, skipping a malformed object), a
   cancelled context makes it return the context's error, whatever error was pending
   (pdfcpu adbdecb6; before, the pending input error was returned: harness class
   cancel-at-probe-returns-input-error). *)
Theorem C10_probe_returns_context_error : forall poll p q r s o s1 e,
  run poll p s = (o, s1) -> o <> Done -> poll (polls s1) = Some e ->
  run poll (Retry p q r) s = (CtxErr e, tick_late s1).
Proof. exact probe_returns_context_error. Qed.
Print Assumptions C10_probe_returns_context_error.

(* Work after the cancellation became visible: for EVERY document shape, mode and monotone
   context at most stage_bound (= 6) polls see the cancelled context — a bound by the number
   of enclosing stages, independent of the size of the input.  (Until pdfcpu commit 1364969e
   this was refuted for relaxed reads with an xref stream: defect cancel-swallowed-by-xref-repair.) *)
Theorem C10_late_polls_bounded : forall s poll, mono poll ->
  late (snd (read poll s)) <= stage_bound.
Proof. exact late_polls_bounded. Qed.
Print Assumptions C10_late_polls_bounded.

(* Long single scans: the keyword scanner model.DetectKeywordsWithContext polls once per iteration, so
   however many string literals / comments one object contains, at most one poll of a scan sees the
   cancelled context (the harness checks on the code that the polls are really made: at least one
   per skipped literal/comment). *)
Theorem C10_scan_late_le_1 : forall poll iters s o s', mono poll ->
  run poll (scan iters) s = (o, s') -> late s' <= late s + 1.
Proof. exact scan_late_le_1. Qed.
Print Assumptions C10_scan_late_le_1.

(* non-vacuity *)
Example C10_nonvacuous :
  let s := mkshape true false false [STable 3; SStream (mkfo 0 [] 2 0 false)] [FObj (mkfo 0 [] 1 0 false)] 0
                   [mkos (mkfo 0 [] 2 0 false) 4]
                   [EFree; EParse (mkfo 1 [2%nat] 3 1 false); ECached] in
  mono (flip_at (Some 7) 9) /\
  read (flip_at None 9) s = (Done, mkst 30 0) /\
  read (flip_at (Some 6) 9) s = (CtxErr 9, mkst 9 3) /\      (* cancelled in the xref stream: no repair *)
  read (flip_at (Some 20) 9) s = (CtxErr 9, mkst 22 2) /\
  read (flip_at (Some 0) 9) s = (CtxErr 9, mkst 1 1).
Proof. split; [apply flip_at_mono|]. vm_compute. repeat split. Qed.
