package main

// The multi-input matrix: operations with 2-4 inputs, the output spelled as an alias of EACH input position in
// turn (same path, ./x, sub/../x, absolute vs relative, symlink, hard link) plus fresh outputs.
//
//	K  result and directory afterwards = the model's prediction (image mode of grid / n-up / booklet and import
//	   images: reject_alias over the whole input list, then the staged-output skeleton; merges / attachments: the
//	   skeleton, the output name is re-bound);
//	O  refused => every file byte-identical; success => the output is complete, every input other than the entry
//	   the output names is untouched (bytes, mode, inode), nothing else changed; an operation that must refuse an
//	   aliasing output (image inputs) must not succeed on one.

import (
	"bytes"
	"fmt"
	"os"
	"path/filepath"
	"strings"
	"syscall"

	"github.com/pdfcpu/pdfcpu/pkg/api"
)

type multiOp struct {
	name    string
	kind    string   // image | import | api
	refuse  bool     // the operation must refuse an output that aliases one of its inputs
	inputs  []string // the inputs whose positions are aliased in turn
	rd      string   // api kind: the input that is opened as inFile ("" = none)
	appends bool     // the result depends on the previous content of the output
	run     func(ins []string, out string) error
}

func multiOps() []multiOp {
	return []multiOp{
		{name: "GridFile-images", kind: "image", refuse: true, inputs: []string{"a.png", "b.png", "c.png"},
			run: func(ins []string, out string) error {
				nup, err := api.ImageGridConfig(1, 3, "", conf())
				if err != nil {
					return err
				}
				return api.GridFile(ins, out, nil, nup, conf())
			}},
		{name: "ImportImagesFile", kind: "import", refuse: true, inputs: []string{"a.png", "b.png"},
			run: func(ins []string, out string) error { return api.ImportImagesFile(ins, out, nil, conf()) }},
		{name: "MergeCreateFile", kind: "api", inputs: []string{"x.pdf", "y.pdf", "z.pdf"},
			run: func(ins []string, out string) error { return api.MergeCreateFile(ins, out, false, conf()) }},
		// thorough only from here
		{name: "NUpFile-images", kind: "image", refuse: true, inputs: []string{"a.png", "b.png", "c.png", "d.png"},
			run: func(ins []string, out string) error {
				nup, err := api.ImageNUpConfig(4, "", conf())
				if err != nil {
					return err
				}
				return api.NUpFile(ins, out, nil, nup, conf())
			}},
		{name: "BookletFile-images", kind: "image", refuse: true, inputs: []string{"a.png", "b.png", "c.png", "d.png"},
			run: func(ins []string, out string) error {
				nup, err := api.ImageBookletConfig(4, "", conf())
				if err != nil {
					return err
				}
				return api.BookletFile(ins, out, nil, nup, conf())
			}},
		{name: "MergeAppendFile-multi", kind: "api", appends: true, inputs: []string{"x.pdf", "y.pdf"},
			run: func(ins []string, out string) error { return api.MergeAppendFile(ins, out, false, conf()) }},
		{name: "MergeCreateZipFile", kind: "api", inputs: []string{"x.pdf", "y.pdf"},
			run: func(ins []string, out string) error { return api.MergeCreateZipFile(ins[0], ins[1], out, conf()) }},
		{name: "AddAttachmentsFile-multi", kind: "api", rd: "x.pdf", inputs: []string{"x.pdf", "a.png", "b.png"},
			run: func(ins []string, out string) error {
				return api.AddAttachmentsFile(ins[0], out, ins[1:], false, conf())
			}},
	}
}

type multiRel struct {
	name  string
	inSp  int    // spelling of the aliased input
	outSp int    // spelling of the output
	via   string // "" | symlink | hardlink | fresh
}

func multiRels() []multiRel {
	return []multiRel{
		{name: "same-path", inSp: 0, outSp: 0},
		{name: "dot-slash", inSp: 2, outSp: 1},
		{name: "dir-dotdot", inSp: 2, outSp: 3},
		{name: "abs-vs-rel", inSp: 2, outSp: 0},
		{name: "rel-vs-abs", inSp: 0, outSp: 2},
		{name: "symlink", inSp: 2, outSp: 0, via: "symlink"},
		{name: "hardlink", inSp: 2, outSp: 0, via: "hardlink"},
	}
}

func (h *harness) multiDir(o multiOp) string {
	h.n++
	d := filepath.Join(h.base, fmt.Sprintf("m%d", h.n))
	os.RemoveAll(d)
	if err := os.MkdirAll(filepath.Join(d, "sub"), 0o755); err != nil {
		panic(err)
	}
	w := func(n string, b []byte, mode os.FileMode) {
		if err := os.WriteFile(filepath.Join(d, n), b, 0o644); err != nil {
			panic(err)
		}
		os.Chmod(filepath.Join(d, n), mode)
	}
	for _, n := range o.inputs {
		w(n, h.samples[n], 0o640)
	}
	w("other.dat", []byte("other"), 0o600)
	return d
}

// the bytes the operation produces (for an appending operation: onto a destination holding destContent)
func (h *harness) multiRef(o multiOp, destContent []byte) []byte {
	key := "multi\x00" + o.name
	if o.appends {
		key += "\x00" + string(destContent)
	}
	if b, ok := h.refs[key]; ok {
		return b
	}
	d := h.multiDir(o)
	defer os.RemoveAll(d)
	out := filepath.Join(d, "mout.pdf")
	if o.appends && destContent != nil {
		os.WriteFile(out, destContent, 0o644)
	}
	var ins []string
	for _, n := range o.inputs {
		ins = append(ins, filepath.Join(d, n))
	}
	var b []byte
	if err := o.run(ins, out); err == nil {
		b, _ = os.ReadFile(out)
	}
	h.refs[key] = b
	return b
}

func (h *harness) multiCase(o multiOp, pos int, rel multiRel) {
	r := h.r
	dir := h.multiDir(o)
	defer os.RemoveAll(dir)
	os.Chdir(dir)
	defer os.Chdir(h.base)

	destName := "mout.pdf"
	if rel.via != "fresh" {
		target := o.inputs[pos]
		switch rel.via {
		case "symlink":
			destName = "mlink.pdf"
			os.Symlink(target, filepath.Join(dir, destName))
		case "hardlink":
			destName = "mhl.pdf"
			os.Link(filepath.Join(dir, target), filepath.Join(dir, destName))
		default:
			destName = target
		}
	}
	before := snapshot(dir)
	mdir, minos, _ := modelState(before)
	var ins, insArg []string
	for k, n := range o.inputs {
		sp := 2
		if rel.via != "fresh" && k == pos {
			sp = rel.inSp
		}
		ins = append(ins, spell(dir, n, sp))
		insArg = append(insArg, spArg(n, sp))
	}
	out := spell(dir, destName, rel.outSp)
	destBefore, destModeBefore, destExisted := resolveContent(before, destName)
	ref := h.multiRef(o, destBefore)

	var err error
	func() {
		defer func() {
			if p := recover(); p != nil {
				err = fmt.Errorf("panic: %v", p)
				r.OracleFail("operation-panics:"+o.name, map[string]any{"op": o.name, "relation": rel.name, "position": pos}, fmt.Sprint(p))
			}
		}()
		old := syscall.Umask(0o022)
		defer syscall.Umask(old)
		err = o.run(ins, out)
	}()
	after := snapshot(dir)
	res, readsOK := "ok", "reads-ok"
	if err != nil {
		res, readsOK = "err", "-"
	}
	rendered := render(before, after, ref)
	relName := rel.name
	if rel.via != "fresh" {
		relName = fmt.Sprintf("%s-of-input-%d", rel.name, pos+1)
	}
	input := map[string]any{"op": o.name, "relation": relName, "inputs": ins, "out": out}
	r.Count("multi:" + o.name + ":" + res)
	r.Count("multi-relation:" + rel.name)

	// K
	outArg := spArg(destName, rel.outSp)
	switch o.kind {
	case "image", "import":
		r.Case(o.kind, []string{"12", strings.Join(insArg, ","), outArg, mdir, minos}, res+"|"+rendered+"|"+readsOK)
	default:
		rd := "-"
		if o.rd != "" {
			rd = insArg[0]
		}
		r.Case("api", []string{"12", rd, rd, outArg, mdir, minos}, res+"|"+rendered+"|"+readsOK)
	}

	// O
	detail := fmt.Sprintf("err=%v after=%s", err, rendered)
	if err != nil {
		if render(before, before, nil) != render(before, after, nil) {
			r.OracleFail("failed-run-changes-directory:"+o.name+":"+relName, input, detail)
		} else {
			r.OracleOK()
		}
		return
	}
	okAll := true
	fail := func(class string) {
		r.OracleFail(class+":"+o.name+":"+relName, input, detail)
		okAll = false
	}
	if o.refuse && rel.via != "fresh" {
		// an image can never be a legitimate in-place target of a PDF-producing operation
		fail("aliasing-output-not-refused")
	}
	got, gotMode, ok := resolveContent(after, destName)
	switch {
	case !ok:
		fail("destination-missing")
	case !sameOutput(got, ref):
		fail("destination-not-the-complete-output")
	case api.ValidateFile(filepath.Join(dir, destName), nil) != nil:
		fail("destination-does-not-validate")
	}
	if ok {
		want := os.FileMode(0o644)
		if destExisted {
			want = destModeBefore
		}
		if gotMode != want {
			fail("destination-mode-not-kept")
		}
	}
	for _, n := range names(after) {
		if _, known := before[n]; !known && n != destName {
			fail("stray-file-remains")
		}
	}
	for _, n := range names(before) {
		if n == destName {
			continue // the name the output was published under: the legitimately replaced target
		}
		b, a := before[n], after[n]
		if !a.exists || a.link != b.link || a.mode != b.mode || !bytes.Equal(a.data, b.data) || a.ino != b.ino {
			isInput := false
			for _, in := range o.inputs {
				if in == n {
					isInput = true
				}
			}
			if isInput {
				fail("distinct-input-changed")
			} else {
				fail("other-file-changed")
			}
		}
	}
	if okAll {
		r.OracleOK()
	}
}

func (h *harness) multiCases() {
	repo := os.Getenv("VERIF_REPO")
	if repo == "" {
		repo = "/repo"
	}
	res := filepath.Join(repo, "pkg/testdata/resources")
	h.samples = map[string][]byte{"x.pdf": h.multi, "y.pdf": h.small, "z.pdf": h.two}
	for n, f := range map[string]string{"a.png": "qr.png", "b.png": "github.png", "c.png": "logoVerySmall.png", "d.png": "pdfchip3.png"} {
		b, err := os.ReadFile(filepath.Join(res, f))
		if err != nil {
			panic(err)
		}
		h.samples[n] = b
	}
	all := multiOps()
	n := h.r.Pick(3, len(all))
	for _, o := range all[:n] {
		h.multiCase(o, 0, multiRel{name: "fresh", outSp: 0, via: "fresh"})
		h.multiCase(o, 0, multiRel{name: "fresh-relative", outSp: 1, via: "fresh"})
		for pos := range o.inputs {
			for _, rel := range multiRels() {
				h.multiCase(o, pos, rel)
			}
		}
	}
}
