(* C41 — CLI streams and machine-readable output behave like the file interface.
   Hand-written executable model (NO proofs here) of
     pkg/cli/io.go      readSeekerFromStdin, withStdinReadSeeker, createStreamOutput,
                        streamInOutForOperation, streamInOutFinalizer.finalize
     cmd/pdfcpu/common.go  runCommandWithOutput / runCommand
     cmd/pdfcpu/main.go    main (exit status)
   The file system, stdin and the operation are inputs (an environment record and a list of
   actions); the model says in which order the CLI touches them and where bytes end up. *)
From Coq Require Import ZArith NArith List Bool.
Import ListNotations.

(* a file-name argument as io.go looks at it: "" , "-" , anything else *)
Inductive arg := AEmpty | ADash | APath.

(* readSeekerFromStdin: os.CreateTemp fails | io.Copy fails | 0 bytes | Seek fails | ok *)
Inductive stdin_res := SCreateFail | SCopyFail | SEmpty | SRewindFail | SOk.

(* createStreamOutput: O_EXCL create succeeds | file exists -> temp file next to it, to be
   renamed over it | failure (missing directory, "" as a name, Stat/CreateTemp/Chmod failure) *)
Inductive create_res := CNew | CReplace | CFail.

Record env := mkEnv {
  e_stdin : stdin_res;      (* what reading stdin into the temporary file does *)
  e_open_ok : bool;         (* os.Open(inFile) *)
  e_create : create_res;    (* createStreamOutput(outFile) *)
  e_replace_ok : bool       (* fileutil.ReplaceFile(tmp, outFile) *)
}.

Inductive src := SrcNone | SrcStdin | SrcFile.
Inductive snk := SnkStdout | SnkFile | SnkTemp.

(* where an enabled CLI logger writes (this tree: os.Stderr, log.SetDefaultCLILogger;
   the theorems hold for both) *)
Inductive dest := DStdout | DStderr.

Inductive ev :=
| EvTempInCreate | EvTempInRemove      (* temporary copy of stdin *)
| EvOpenIn | EvCloseIn
| EvLogOff                              (* log.SetCLILogger(nil) *)
| EvCreateOut | EvCreateTempOut | EvCloseOut | EvRemoveOut | EvReplaceOut
| EvStdout (b : list N)                 (* bytes written to the process' standard output *)
| EvStderr (b : list N)
| EvOutFile (b : list N).               (* bytes written to the output file / its temp file *)

Inductive err_class :=
| ErrStdinCreate | ErrStdinRead | ErrStdinEmpty | ErrStdinRewind | ErrOpenInput | ErrCreateOutput.

(* result of streamInOutForOperation: error, or (source, sink), plus the effects so far and
   whether the CLI logger is still enabled *)
Inductive prep :=
| PErr (c : err_class) (tr : list ev) (cli_on : bool)
| POk (s : src) (k : snk) (tr : list ev) (cli_on : bool).

(* io.go:179  if inFile == "-" && outFile == "" { outFile = "-" } *)
Definition eff_out (i o : arg) : arg :=
  match i, o with ADash, AEmpty => ADash | _, _ => o end.

(* io.go:183-201 the input side.  inl = error (with the effects of readSeekerFromStdin's own
   clean-up: in.finalize closes and removes the temporary file) *)
Definition open_input (i : arg) (e : env) : (err_class * list ev) + (src * list ev) :=
  match i with
  | AEmpty => inr (SrcNone, [])
  | ADash =>
    match e_stdin e with
    | SCreateFail => inl (ErrStdinCreate, [])
    | SCopyFail => inl (ErrStdinRead, [EvTempInCreate; EvTempInRemove])
    | SEmpty => inl (ErrStdinEmpty, [EvTempInCreate; EvTempInRemove])
    | SRewindFail => inl (ErrStdinRewind, [EvTempInCreate; EvTempInRemove])
    | SOk => inr (SrcStdin, [EvTempInCreate])
    end
  | APath => if e_open_ok e then inr (SrcFile, [EvOpenIn]) else inl (ErrOpenInput, [])
  end.

(* the part of finalize that releases the input (io.go:133-137) *)
Definition release_input (s : src) : list ev :=
  match s with SrcNone => [] | SrcStdin => [EvTempInRemove] | SrcFile => [EvCloseIn] end.

(* os.OpenFile("") always fails *)
Definition create_of (o : arg) (e : env) : create_res :=
  match o with AEmpty => CFail | _ => e_create e end.

(* io.go:178 streamInOutForOperation *)
Definition streamInOut (i o : arg) (e : env) (cli_on : bool) : prep :=
  match open_input i e with
  | inl (c, tr) => PErr c tr cli_on
  | inr (s, tr) =>
    match eff_out i o with
    | ADash => POk s SnkStdout (tr ++ [EvLogOff]) false
    | o' =>
      match create_of o' e with
      | CFail => PErr ErrCreateOutput (tr ++ release_input s) cli_on
      | CNew => POk s SnkFile (tr ++ [EvCreateOut]) cli_on
      | CReplace => POk s SnkTemp (tr ++ [EvCreateTempOut]) cli_on
      end
    end
  end.

(* io.go:127 streamInOutFinalizer.finalize; Close is assumed to succeed.
   Returns the effects and whether the returned error is nil. *)
Definition finalize (s : src) (k : snk) (e : env) (op_ok : bool) : list ev * bool :=
  let close := match k with SnkStdout => [] | _ => [EvCloseOut] end in
  let rel := release_input s in
  if negb op_ok then
    (close ++ rel ++ match k with SnkStdout => [] | _ => [EvRemoveOut] end, false)
  else match k with
       | SnkTemp => if e_replace_ok e then (close ++ rel ++ [EvReplaceOut], true)
                    else (close ++ rel ++ [EvRemoveOut], false)
       | _ => (close ++ rel, true)
       end.

(* what the operation (api.X(rs, w, …)) does, as seen from outside: writes to w and calls
   to log.CLI.Printf/Println, in order *)
Inductive action := AWrite (b : list N) | ALog (m : list N).

Definition emit (d : dest) (cli_on : bool) (k : snk) (a : action) : list ev :=
  match a with
  | AWrite b => match k with SnkStdout => [EvStdout b] | _ => [EvOutFile b] end
  | ALog m => if cli_on then [match d with DStdout => EvStdout m | DStderr => EvStderr m end] else []
  end.

(* the pattern  rs, w, finalize, err := streamInOutForOperation(in, out, op); if err != nil
   { return nil, err }; return nil, finalize(api.X(rs, w, …))   used by every row of the
   generated table with c_stream_direct = true.  Result: effects, success. *)
Definition run_stream (d : dest) (cli_on : bool) (i o : arg) (e : env)
           (acts : list action) (op_ok : bool) : list ev * bool :=
  match streamInOut i o e cli_on with
  | PErr _ tr _ => (tr, false)
  | POk s k tr on' =>
    let body := flat_map (emit d on' k) acts in
    let (fin, ok) := finalize s k e op_ok in
    (tr ++ body ++ fin, ok)
  end.

(* the pattern of MergeCreate / MergeCreateZip / ImportImages / multiFillFormFieldsToStdout:
   [log.SetCLILogger(nil);] api.X(…, os.Stdout, …)  — guarded says whether the switch-off
   dominates the use of os.Stdout (c_stdout_guarded of the generated table) *)
Definition run_direct_stdout (guarded : bool) (d : dest) (cli_on : bool) (acts : list action) : list ev :=
  let on' := if guarded then false else cli_on in
  (if guarded then [EvLogOff] else []) ++ flat_map (emit d on' SnkStdout) acts.

(* cmd/pdfcpu/common.go runCommandWithOutput: the lines the command returns are printed with
   Fprintln unless --quiet *)
Definition nl : N := 10%N.
Definition print_lines (quiet : bool) (lines : list (list N)) : list ev :=
  if quiet then [] else map (fun l => EvStdout (l ++ [nl])) lines.

(* a JSON-printing command: the handler switches the logger off first (handler_logoff) or the
   executing function does after `pre` (log calls made before it gets there); then the
   operation logs/reads (acts contains no AWrite to stdout: sink is not stdout) and returns
   the single line json *)
Definition run_json (handler_logoff : bool) (d : dest) (cli_on : bool)
           (pre post : list (list N)) (json : list N) : list ev :=
  let on0 := if handler_logoff then false else cli_on in
  flat_map (emit d on0 SnkFile) (map ALog pre) ++ [EvLogOff]
  ++ flat_map (emit d false SnkFile) (map ALog post) ++ print_lines false [json].

(* cmd/pdfcpu/main.go: if err := Execute(); err != nil { printError(err); os.Exit(1) } *)
Definition exit_status (ok : bool) : Z := if ok then 0%Z else 1%Z.

(* observations *)
Fixpoint stdout_of (tr : list ev) : list N :=
  match tr with
  | [] => []
  | EvStdout b :: r => b ++ stdout_of r
  | _ :: r => stdout_of r
  end.

Fixpoint outfile_of (tr : list ev) : list N :=
  match tr with
  | [] => []
  | EvOutFile b :: r => b ++ outfile_of r
  | _ :: r => outfile_of r
  end.

Fixpoint writes_of (acts : list action) : list N :=
  match acts with
  | [] => []
  | AWrite b :: r => b ++ writes_of r
  | ALog _ :: r => writes_of r
  end.

(* state of the output path after the effects: 0 absent, 1 old content, 2 the new document;
   tmp: a temporary output file is still lying around; tin: the stdin copy still exists *)
Record fs := mkFs { f_out : N; f_tmp : bool; f_tin : bool }.

Definition step_fs (k : snk) (s : fs) (x : ev) : fs :=
  match x with
  | EvTempInCreate => mkFs (f_out s) (f_tmp s) true
  | EvTempInRemove => mkFs (f_out s) (f_tmp s) false
  | EvCreateOut => mkFs 2 (f_tmp s) (f_tin s)
  | EvCreateTempOut => mkFs (f_out s) true (f_tin s)
  | EvRemoveOut => match k with
                   | SnkTemp => mkFs (f_out s) false (f_tin s)
                   | _ => mkFs 0 (f_tmp s) (f_tin s)
                   end
  | EvReplaceOut => mkFs 2 false (f_tin s)
  | _ => s
  end.

Definition final_fs (k : snk) (init_out : N) (tr : list ev) : fs :=
  fold_left (step_fs k) tr (mkFs init_out false false).

(* ---- wire format for the correspondence harness: everything as small numbers ---- *)
Definition arg_of_N (n : N) : arg := match n with 0%N => AEmpty | 1%N => ADash | _ => APath end.
Definition stdin_of_N (n : N) : stdin_res :=
  match n with 0%N => SCreateFail | 1%N => SCopyFail | 2%N => SEmpty | 3%N => SRewindFail | _ => SOk end.
Definition create_of_N (n : N) : create_res := match n with 0%N => CNew | 1%N => CReplace | _ => CFail end.
Definition N_of_err (c : err_class) : N :=
  match c with ErrStdinCreate => 1 | ErrStdinRead => 2 | ErrStdinEmpty => 3 | ErrStdinRewind => 4
             | ErrOpenInput => 5 | ErrCreateOutput => 6 end%N.
Definition N_of_src (s : src) : N := match s with SrcNone => 0 | SrcStdin => 1 | SrcFile => 2 end%N.
Definition N_of_snk (k : snk) : N := match k with SnkStdout => 0 | SnkFile => 1 | SnkTemp => 2 end%N.
Definition N_of_bool (b : bool) : N := if b then 1%N else 0%N.

(* k_stream i o stdin open create op_ok  with the logger enabled and directed to stdout,
   the operation doing  Log "L"; Write doc; Log "L".
   Reply: [status(0 ok / err class); src; sink; cli_on after prepare; finalize ok;
           out state; temp out left; temp in left; stdout bytes …] *)
Definition k_stream (i o st op cr okN : N) (doc logm : list N) : list N :=
  let e := mkEnv (stdin_of_N st) (negb (N.eqb op 0)) (create_of_N cr) true in
  let ia := arg_of_N i in let oa := arg_of_N o in
  let init_out := match create_of_N cr with CReplace => 1%N | _ => 0%N end in
  match streamInOut ia oa e true with
  | PErr c tr on' =>
    let f := final_fs SnkFile init_out tr in
    [N_of_err c; 9; 9; N_of_bool on'; 0; f_out f; N_of_bool (f_tmp f); N_of_bool (f_tin f)]%N
  | POk s k tr on' =>
    let (tr', ok) := run_stream DStdout true ia oa e [ALog logm; AWrite doc; ALog logm] (negb (N.eqb okN 0)) in
    let f := final_fs k init_out tr' in
    [0%N; N_of_src s; N_of_snk k; N_of_bool on'; N_of_bool ok; f_out f; N_of_bool (f_tmp f); N_of_bool (f_tin f)]
      ++ stdout_of tr'
  end.

(* k_cmd: the whole-binary view of a document command: sink decision + exit status *)
Definition k_sink (i o : N) : N :=
  match eff_out (arg_of_N i) (arg_of_N o) with ADash => 0%N | _ => 1%N end.

(* ---- commands with SEVERAL inputs (info, validate, form list, images list, permissions list):
   pkg/cli/document_exec.go ListInfoFiles / listInfoFilesJSON (no "-" among the inputs) and the
   stdin-aware loop of ListInfo (some input is "-").  What reading one input gives is an input
   of the model: its text lines and its JSON entry, or an error. ---- *)
Inductive in_res := IOk (lines : list (list N)) (entry : list N) | IErr.

Definition in_ok (r : in_res) : bool := match r with IOk _ _ => true | IErr => false end.

(* text mode, both variants (document_exec.go:563-577 and :624-652): a blank line between
   inputs, the lines of every readable input, errors collected (a single input: nil, err) *)
Fixpoint text_fold (first : bool) (ins : list in_res) : list (list N) * bool :=
  match ins with
  | [] => ([], true)
  | r :: rest =>
    let sep := if first then [] else [[]] in
    let (ss, ok) := text_fold false rest in
    match r with
    | IOk ls _ => (sep ++ ls ++ ss, ok)
    | IErr => (sep ++ ss, false)
    end
  end.

Definition list_info_text (ins : list in_res) : list (list N) * bool :=
  match ins with
  | [IErr] => ([], false)
  | _ => text_fold true ins
  end.

(* listInfoFilesJSON: the first error aborts — return nil, err *)
Fixpoint json_entries_strict (ins : list in_res) : option (list (list N)) :=
  match ins with
  | [] => Some []
  | IErr :: _ => None
  | IOk _ e :: rest => match json_entries_strict rest with Some es => Some (e :: es) | None => None end
  end.

(* ListInfo's loop in JSON mode: errors are collected, entries of readable inputs kept *)
Fixpoint json_collect (ins : list in_res) : list (list N) * bool :=
  match ins with
  | [] => ([], true)
  | IErr :: rest => let (es, _) := json_collect rest in (es, false)
  | IOk _ e :: rest => let (es, ok) := json_collect rest in (e :: es, ok)
  end.

(* file variant: ListInfoFiles.  render = jsonInfoOutput (one JSON value from the entries) *)
Definition list_info_files (json : bool) (render : list (list N) -> list N) (ins : list in_res)
  : list (list N) * bool :=
  if json then
    match json_entries_strict ins with
    | Some es => ([render es], true)
    | None => ([], false)
    end
  else list_info_text ins.

(* stream variant: ListInfo with "-" among the inputs (document_exec.go:620-658):
   err := errors.Join(errs...); if err != nil { return ss, err }; if json { return jsonInfoOutput(infos) } *)
Definition list_info_stream (json : bool) (render : list (list N) -> list N) (ins : list in_res)
  : list (list N) * bool :=
  if json then
    let (es, ok) := json_collect ins in
    if ok then ([render es], true) else ([], false)
  else list_info_text ins.

(* the process: lines printed by runCommandWithOutput (also when the command failed), exit status *)
Definition run_multi (quiet : bool) (res : list (list N) * bool) : list ev * Z :=
  (print_lines quiet (fst res), exit_status (snd res)).

(* wire format: inputs as 1 (readable) / 0 (unreadable); render = number of entries.
   Reply: [exit status; number of lines printed; entries in the JSON value] *)
Definition k_multi (stream json : bool) (codes : list N) : list N :=
  let ins := map (fun c => if N.eqb c 0 then IErr else IOk [[c]] [c]) codes in
  let render := fun es : list (list N) => [N.of_nat (List.length es)] in
  let res := if stream then list_info_stream json render ins else list_info_files json render ins in
  [Z.to_N (exit_status (snd res)); N.of_nat (List.length (fst res));
   match fst res with [[n]] => if json then n else 0%N | _ => 0%N end].

(* ---- page selections and the stdout decision of `extract -m page … -`
   (pkg/cli/extract_exec.go extractSelectedPageToStdout).  api.PagesForPageSelection returns
   a types.IntSet = map[int]bool in which negated pages (!N / nN) are PRESENT with value
   false; the selected pages are the keys whose value is true. ---- *)
Definition selmap := list (Z * bool).

Definition selected (m : selmap) : list Z := map fst (filter snd m).

(* pageNr, count := 0, 0; for i, selected := range pages { if selected { pageNr = i; count++ } } *)
Definition count_step (acc : Z * nat) (e : Z * bool) : Z * nat :=
  if snd e then (fst e, S (snd acc)) else acc.
Definition count_loop (m : selmap) : Z * nat := fold_left count_step m (0%Z, O).

(* if count != 1 { return error }; return writeExtractedPageToStdout(ctx, pageNr, w) *)
Definition stdout_page (m : selmap) : option Z :=
  let (nr, c) := count_loop m in if Nat.eqb c 1 then Some nr else None.

(* the tempting simplification: len(pages) == 1 and take the only key *)
Definition naive_stdout_page (m : selmap) : option Z :=
  match m with [(p, _)] => Some p | _ => None end.

(* file mode (api.ExtractPagesFile): one file per selected page; doc p = the single-page document *)
Definition file_mode_outputs (doc : Z -> list N) (m : selmap) : list (list N) := map doc (selected m).

(* stdout mode: bytes on stdout and exit status *)
Definition stdout_mode (doc : Z -> list N) (m : selmap) : list N * Z :=
  match stdout_page m with
  | Some p => (doc p, exit_status true)
  | None => ([], exit_status false)
  end.

(* wire: entries flattened as page, flag(0/1), …  Reply [1; page] or [0] *)
Fixpoint selmap_of (l : list N) : selmap :=
  match l with
  | p :: b :: r => (Z.of_N p, negb (N.eqb b 0)) :: selmap_of r
  | _ => []
  end.
Definition k_seldec (l : list N) : list N :=
  match stdout_page (selmap_of l) with Some p => [1%N; Z.to_N p] | None => [0%N] end.

(* ---- reading stdin: pkg/cli/io.go readSeekerFromStdin
     n, copyErr := io.Copy(f, os.Stdin)
     if copyErr != nil { return nil, in.finalize(op, "read stdin: …") }
     if n == 0        { return nil, in.finalize(op, "read stdin: stdin is empty") }
   stdin is a sequence of read results: data, or a failing read (EIO, ECONNRESET, timeout) ---- *)
Inductive chunk := CData (b : list N) | CErr.

(* io.Copy: the bytes delivered before the first failing read, and whether every read succeeded *)
Fixpoint copy_stdin (cs : list chunk) : list N * bool :=
  match cs with
  | [] => ([], true)
  | CErr :: _ => ([], false)
  | CData b :: r => let (bs, ok) := copy_stdin r in (b ++ bs, ok)
  end.

Definition read_all (cs : list chunk) : option (list N) :=
  let (bs, ok) := copy_stdin cs in if ok then Some bs else None.

Definition stdin_res_of (cs : list chunk) : stdin_res :=
  let (bs, ok) := copy_stdin cs in
  if negb ok then SCopyFail
  else match bs with [] => SEmpty | _ => SOk end.

(* the merged variant: a read error is only looked at when zero bytes arrived *)
Definition stdin_res_merged (cs : list chunk) : stdin_res :=
  let (bs, ok) := copy_stdin cs in
  match bs with
  | [] => if ok then SEmpty else SCopyFail
  | _ => SOk
  end.

(* wire: 0 = failing read, n > 0 = n bytes of data.  Reply [class (0 ok, 2 read error, 3 empty); bytes usable] *)
Definition k_stdincopy (codes : list N) : list N :=
  let cs := map (fun c => if N.eqb c 0 then CErr else CData (repeat 65%N (N.to_nat c))) codes in
  match stdin_res_of cs with
  | SCopyFail => [2%N; 0%N]
  | SEmpty => [3%N; 0%N]
  | _ => [0%N; N.of_nat (List.length (fst (copy_stdin cs)))]
  end.
