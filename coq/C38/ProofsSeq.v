(* C38: several watermark blocks in one stream, and sequences of AddWatermarks calls on one page. *)
From Coq Require Import List NArith Bool Lia.
From PV Require Import C38.Model C38.ProofsIndex C38.ProofsRemove C38.ProofsPage.
Import ListNotations.
Open Scope N_scope.

(* ---- the marker has no border: no proper suffix of it is a prefix of it ---- *)
Fixpoint sufs_ok (s : bytes) : bool :=
  match s with
  | [] => true
  | _ :: t => (match t with [] => true | _ => negb (prefixb t marker) end) && sufs_ok t
  end.

Lemma sufs_ok_spec s : sufs_ok s = true ->
  forall a p1, s = a ++ p1 -> a <> [] -> p1 <> [] -> prefixb p1 marker = false.
Proof.
  induction s as [|x t IH]; intros Hs a p1 Heq Ha Hp.
  - destruct a; [contradiction|discriminate].
  - simpl in Hs. apply andb_true_iff in Hs. destruct Hs as [H1 H2].
    destruct a as [|y a]; [contradiction|]. simpl in Heq. inversion Heq; subst.
    destruct a as [|z a].
    + simpl in *. destruct p1; [contradiction|]. apply negb_true_iff in H1. exact H1.
    + apply (IH H2 (z :: a) p1 eq_refl); [discriminate|exact Hp].
Qed.

Lemma marker_no_border : sufs_ok marker = true.
Proof. vm_compute. reflexivity. Qed.

Lemma prefixb_app_r p s b : prefixb p s = true -> prefixb p (s ++ b) = true.
Proof. intros H. apply prefixb_true in H. destruct H as [c ->]. rewrite <- app_assoc. apply prefixb_app. Qed.

Lemma noocc_prefix p a b : noocc p (a ++ b) -> noocc p a.
Proof.
  intros Hn s1 s2 Hs. destruct (prefixb p s2) eqn:Hp; [|reflexivity].
  pose proof (Hn s1 (s2 ++ b)) as Hf. rewrite Hs, <- app_assoc in Hf. specialize (Hf eq_refl).
  rewrite (prefixb_app_r _ _ b Hp) in Hf. discriminate.
Qed.

(* a marker-free u followed by the marker: the marker cannot start inside u *)
Lemma starts_free_marker_noocc u z : noocc marker u -> starts_free marker u (marker ++ z).
Proof.
  intros Hn u1 u2 Hu Hne.
  destruct (prefixb marker (u2 ++ marker ++ z)) eqn:Hp; [exfalso|reflexivity].
  destruct (prefixb_app_inv _ _ _ Hp) as [[a2 Ha2]|[p1 [Hp1 Hb]]].
  - pose proof (Hn u1 u2 Hu) as Hf. rewrite Ha2, prefixb_app in Hf. discriminate.
  - destruct p1 as [|c p1].
    + rewrite app_nil_r in Hp1. pose proof (Hn u1 u2 Hu) as Hf. rewrite <- Hp1 in Hf.
      pose proof (prefixb_app marker []) as Hpp. rewrite app_nil_r in Hpp. congruence.
    + assert (Hl : (length (c :: p1) <= length marker)%nat).
      { rewrite Hp1. rewrite app_length. lia. }
      rewrite (prefixb_app_long _ _ z Hl) in Hb.
      rewrite (sufs_ok_spec marker marker_no_border u2 (c :: p1) Hp1 Hne) in Hb by discriminate.
      discriminate.
Qed.

(* ---- a stream as segments and watermark blocks ---- *)
Inductive item := Seg (u : bytes) | Blk (mtx x y : bytes).

Definition render_item (i : item) : bytes :=
  match i with
  | Seg u => u
  | Blk m x y => marker ++ wm_body m (id_gs ++ x) (id_fm ++ y) ++ emc
  end.
Fixpoint render (s : list item) : bytes := match s with [] => [] | i :: r => render_item i ++ render r end.
Fixpoint erase (s : list item) : bytes :=
  match s with [] => [] | Seg u :: r => u ++ erase r | Blk _ _ _ :: r => erase r end.
Fixpoint gs_of (s : list item) : list bytes :=
  match s with [] => [] | Seg _ :: r => gs_of r | Blk _ x _ :: r => (id_gs ++ x) :: gs_of r end.
Fixpoint fm_of (s : list item) : list bytes :=
  match s with [] => [] | Seg _ :: r => fm_of r | Blk _ _ y :: r => (id_fm ++ y) :: fm_of r end.
Fixpoint has_blk (s : list item) : bool :=
  match s with [] => false | Seg _ :: r => has_blk r | Blk _ _ _ :: r => true end.
Fixpoint ok_items (s : list item) : bool :=
  match s with [] => true | Seg _ :: r => ok_items r | Blk m x y :: r => wm_ok m x y && ok_items r end.

Lemma render_app a b : render (a ++ b) = render a ++ render b.
Proof. induction a as [|i a IH]; simpl; [reflexivity|]. rewrite IH, app_assoc. reflexivity. Qed.
Lemma erase_app a b : erase (a ++ b) = erase a ++ erase b.
Proof. induction a as [|[u|m x y] a IH]; simpl; [reflexivity| |exact IH]. rewrite IH, app_assoc. reflexivity. Qed.
Lemma has_blk_app a b : has_blk (a ++ b) = has_blk a || has_blk b.
Proof. induction a as [|[u|m x y] a IH]; simpl; [reflexivity|exact IH|reflexivity]. Qed.
Lemma ok_items_app a b : ok_items (a ++ b) = ok_items a && ok_items b.
Proof. induction a as [|[u|m x y] a IH]; simpl; [reflexivity|exact IH|]. rewrite IH, andb_assoc. reflexivity. Qed.
Lemma render_noblk s : has_blk s = false -> render s = erase s.
Proof. induction s as [|[u|m x y] s IH]; simpl; intros H; [reflexivity| |discriminate]. rewrite IH by exact H. reflexivity. Qed.

(* the removal loop on a stream with any number of blocks *)
Lemma remove_loop_items : forall s pre fuel p g f,
  (length (pre ++ render s) <= length fuel)%nat ->
  noocc marker (pre ++ erase s) -> ok_items s = true ->
  remove_loop fuel (pre ++ render s) p g f =
  Some {| rm_found := p || has_blk s; rm_content := pre ++ erase s;
          rm_gs := g ++ gs_of s; rm_fm := f ++ fm_of s |}.
Proof.
  induction s as [|[u|m x y] s IH]; intros pre fuel p g f Hl Hn Hok.
  - simpl in *. rewrite app_nil_r in *. rewrite orb_false_r. repeat rewrite app_nil_r.
    destruct fuel; cbn [remove_loop]; rewrite (remove_step_clean _ Hn); reflexivity.
  - cbn [render render_item erase ok_items] in *.
    rewrite (app_assoc pre u (render s)) in *. rewrite (app_assoc pre u (erase s)) in *. apply IH; assumption.
  - simpl in Hok. apply andb_true_iff in Hok. destruct Hok as [Hw Hok]. simpl in Hn.
    assert (Hs : pre ++ render (Blk m x y :: s)
                 = pre ++ marker ++ wm_body m (id_gs ++ x) (id_fm ++ y) ++ emc ++ render s).
    { simpl. repeat rewrite <- app_assoc. reflexivity. }
    rewrite Hs in *.
    assert (Hstep : remove_step (pre ++ marker ++ wm_body m (id_gs ++ x) (id_fm ++ y) ++ emc ++ render s)
                    = Some (pre ++ render s, [id_gs ++ x], [id_fm ++ y])).
    { apply (remove_step_block m x y Hw). intros z. apply starts_free_marker_noocc.
      apply (noocc_prefix _ _ _ Hn). }
    pose proof (remove_step_shrinks _ _ _ _ Hstep) as Hsh.
    destruct fuel as [|b fuel]; [change (length (@nil N)) with 0%nat in Hl; lia|].
    cbn [remove_loop]. rewrite Hstep.
    change (length (b :: fuel)) with (S (length fuel)) in Hl.
    rewrite IH; [|lia|exact Hn|exact Hok].
    simpl. rewrite orb_true_r. repeat rewrite <- app_assoc. reflexivity.
Qed.

Lemma remove_artifacts_items s : noocc marker (erase s) -> ok_items s = true ->
  remove_artifacts (render s)
  = Some {| rm_found := has_blk s; rm_content := erase s; rm_gs := gs_of s; rm_fm := fm_of s |}.
Proof.
  intros Hn Hok. unfold remove_artifacts.
  apply (remove_loop_items s [] (render s) false [] []); [simpl; lia|exact Hn|exact Hok].
Qed.

(* ---- pages whose streams are item lists ---- *)
Inductive mpage := MNone | MStream (s : list item) | MArray (a : list (list item)).

Definition render_page (m : mpage) : contents :=
  match m with MNone => CNone | MStream s => CStream (render s) | MArray a => CArray (map render a) end.
Definition erase_page (m : mpage) : contents :=
  match m with MNone => CNone | MStream s => CStream (erase s) | MArray a => CArray (map erase a) end.
Definition mstreams (m : mpage) : list (list item) :=
  match m with MNone => [] | MStream s => [s] | MArray a => a end.
Definition of_contents (ct : contents) : mpage :=
  match ct with CNone => MNone | CStream c => MStream [Seg c] | CArray a => MArray (map (fun c => [Seg c]) a) end.

Definition wm_items (m x y : bytes) : list item := [Seg s_sp; Blk m x y; Seg s_sp].

Definition patch_items (onTop isLast : bool) (b s : list item) : list item :=
  if onTop then (if isLast then Seg s_q_open :: s ++ Seg s_q_close :: b else Seg s_q_open :: s)
  else b ++ s.
Definition new_items (onTop : bool) (b : list item) : list item := if onTop then Seg s_q_close :: b else [].

Definition add_m (onTop : bool) (b : list item) (m : mpage) : mpage :=
  match m with
  | MNone => MStream b
  | MStream s => MStream (patch_items onTop true b s)
  | MArray [] => MArray []
  | MArray [s] => MArray [patch_items onTop true b s]
  | MArray (s :: rest) => MArray (patch_items onTop false b s :: rest ++ [new_items onTop b])
  end.

Definition wadd := (bool * (bytes * bytes * bytes))%type.
Definition wadd_bytes (a : wadd) : bool * bytes := let '(t, (m, x, y)) := a in (t, wmbb m x y).
Definition wadd_ok (a : wadd) : bool := let '(_, (m, x, y)) := a in wm_ok m x y.

Fixpoint add_seq_m (adds : list wadd) (mp : mpage) : mpage :=
  match adds with
  | [] => mp
  | (t, (m, x, y)) :: r => add_seq_m r (add_m t (wm_items m x y) mp)
  end.

Lemma render_wm m x y : render (wm_items m x y) = wmbb m x y.
Proof. unfold wm_items, wmbb, wm_content. cbn [render render_item]. rewrite app_nil_r. repeat rewrite <- app_assoc. reflexivity. Qed.

Lemma render_patch onTop isLast m x y s :
  render (patch_items onTop isLast (wm_items m x y) s) = patch_first onTop None (wmbb m x y) (render s) isLast.
Proof.
  unfold patch_items, patch_first, rot_bytes. destruct onTop; [destruct isLast|].
  - cbn [render render_item app]. rewrite render_app. cbn [render render_item]. rewrite render_wm.
    repeat rewrite <- app_assoc. reflexivity.
  - reflexivity.
  - rewrite render_app, render_wm. reflexivity.
Qed.

Lemma render_new onTop m x y : render (new_items onTop (wm_items m x y)) = new_stream onTop None (wmbb m x y).
Proof. unfold new_items, new_stream. destruct onTop; [|reflexivity]. cbn [render render_item]. rewrite render_wm. reflexivity. Qed.

Lemma add_m_render onTop m x y mp :
  add_page onTop None (wmbb m x y) (render_page mp) = render_page (add_m onTop (wm_items m x y) mp).
Proof.
  destruct mp as [|s|a].
  - cbn [render_page add_page add_m]. rewrite render_wm. reflexivity.
  - cbn [render_page add_page add_m]. rewrite render_patch. reflexivity.
  - destruct a as [|s rest]; [reflexivity|]. destruct rest as [|s1 rest].
    + cbn [render_page add_page add_m map]. rewrite render_patch. reflexivity.
    + cbn [render_page add_m map add_page]. rewrite map_app. cbn [map].
      rewrite render_patch, render_new. reflexivity.
Qed.

Lemma add_seq_render adds : forall mp,
  add_seq (map wadd_bytes adds) (render_page mp) = render_page (add_seq_m adds mp).
Proof.
  induction adds as [|[t [[m x] y]] r IH]; intros mp; [reflexivity|].
  cbn [map wadd_bytes add_seq add_seq_m]. rewrite add_m_render. apply IH.
Qed.

Lemma render_of_contents ct : render_page (of_contents ct) = ct.
Proof.
  destruct ct as [|c|a]; simpl; [reflexivity|rewrite app_nil_r; reflexivity|].
  f_equal. rewrite map_map. simpl. induction a as [|c a IH]; simpl; [reflexivity|].
  rewrite app_nil_r, IH. reflexivity.
Qed.

Lemma erase_of_contents ct : erase_page (of_contents ct) = ct.
Proof.
  destruct ct as [|c|a]; simpl; [reflexivity|rewrite app_nil_r; reflexivity|].
  f_equal. rewrite map_map. simpl. induction a as [|c a IH]; simpl; [reflexivity|].
  rewrite app_nil_r, IH. reflexivity.
Qed.

(* ---- invariant 1: every stream's erasure is marker-free and every block is well formed ---- *)
Definition good_stream (s : list item) : Prop := noocc marker (erase s) /\ ok_items s = true.
Definition good (mp : mpage) : Prop := Forall good_stream (mstreams mp).

Lemma good_wm m x y : wm_ok m x y = true -> good_stream (wm_items m x y).
Proof.
  intros Hw. split; [|simpl; rewrite Hw; reflexivity].
  simpl. apply noocc_marker_class. reflexivity.
Qed.

Lemma erase_wm m x y : erase (wm_items m x y) = s_sp2.
Proof. reflexivity. Qed.

Lemma good_patch onTop isLast m x y s : wm_ok m x y = true -> good_stream s ->
  good_stream (patch_items onTop isLast (wm_items m x y) s).
Proof.
  intros Hw [Hn Hok]. unfold patch_items. destruct onTop; [destruct isLast|].
  - split.
    + cbn [erase]. rewrite erase_app. cbn [erase]. rewrite erase_wm.
      apply noocc_wrap; [exact Hn|reflexivity].
    + cbn [ok_items]. rewrite ok_items_app. rewrite Hok. unfold wm_items. simpl. rewrite Hw. reflexivity.
  - split; [cbn [erase]; apply noocc_pre; [reflexivity|exact Hn]|exact Hok].
  - split.
    + rewrite erase_app, erase_wm. apply noocc_pre; [reflexivity|exact Hn].
    + rewrite ok_items_app. simpl. rewrite Hw, Hok. reflexivity.
Qed.

Lemma good_new onTop m x y : wm_ok m x y = true -> good_stream (new_items onTop (wm_items m x y)).
Proof.
  intros Hw. unfold new_items. destruct onTop.
  - split; [cbn [erase]; rewrite erase_wm; apply noocc_marker_class; reflexivity|simpl; rewrite Hw; reflexivity].
  - split; [apply noocc_marker_class; reflexivity|reflexivity].
Qed.

Lemma good_add onTop m x y mp : wm_ok m x y = true -> good mp -> good (add_m onTop (wm_items m x y) mp).
Proof.
  intros Hw Hg. unfold good in *. destruct mp as [|s|a].
  - constructor; [apply good_wm; exact Hw|constructor].
  - inversion Hg; subst. constructor; [apply good_patch; assumption|constructor].
  - destruct a as [|s rest]; [exact Hg|]. cbn [mstreams] in Hg. inversion Hg as [|? ? Hs Hrest]; subst.
    destruct rest as [|s1 rest].
    + constructor; [apply good_patch; assumption|constructor].
    + cbn [add_m mstreams]. constructor; [apply good_patch; assumption|].
      apply Forall_app. split; [exact Hrest|]. constructor; [apply good_new; exact Hw|constructor].
Qed.

Lemma good_seq adds : forall mp, forallb wadd_ok adds = true -> good mp -> good (add_seq_m adds mp).
Proof.
  induction adds as [|[t [[m x] y]] r IH]; intros mp Hok Hg; [exact Hg|].
  simpl in Hok. apply andb_true_iff in Hok. destruct Hok as [Hw Hok].
  cbn [add_seq_m]. apply IH; [exact Hok|]. apply good_add; assumption.
Qed.

Lemma good_of_contents ct : clean_page ct = true -> good (of_contents ct).
Proof.
  intros Hcl. unfold clean_page in Hcl. rewrite forallb_forall in Hcl. unfold good.
  assert (H1 : forall c, In c (streams_of ct) -> good_stream [Seg c]).
  { intros c Hin. split; [|reflexivity]. simpl. rewrite app_nil_r. apply noocc_of_clean. apply Hcl. exact Hin. }
  destruct ct as [|c|a]; simpl in *.
  - constructor.
  - constructor; [apply H1; left; reflexivity|constructor].
  - apply Forall_forall. intros s Hs. apply in_map_iff in Hs. destruct Hs as [c [<- Hc]]. apply H1. exact Hc.
Qed.

(* ---- invariant 2: where the blocks are ---- *)
Definition blockfree (l : list (list item)) : bool := forallb (fun s => negb (has_blk s)) l.
Definition mids (mp : mpage) : list (list item) :=
  match mp with MArray (_ :: rest) => removelast rest | _ => [] end.
Definition tails (mp : mpage) : list (list item) :=
  match mp with MArray (_ :: rest) => rest | _ => [] end.
Definition multi (mp : mpage) : bool := match mp with MArray (_ :: _ :: _) => true | _ => false end.

Lemma blockfree_removelast l : blockfree l = true -> blockfree (removelast l) = true.
Proof.
  unfold blockfree. induction l as [|s l IH]; [reflexivity|]. intros H. simpl in H.
  apply andb_true_iff in H. destruct H as [H1 H2]. destruct l as [|s' l]; [reflexivity|].
  change (removelast (s :: s' :: l)) with (s :: removelast (s' :: l)). simpl. rewrite H1. apply IH. exact H2.
Qed.

(* on a single-stream page the shape never changes *)
Lemma single_add onTop b mp : multi mp = false -> multi (add_m onTop b mp) = false /\ mids (add_m onTop b mp) = [].
Proof. destruct mp as [|s|[|s [|s1 rest]]]; simpl; intros H; try discriminate; split; reflexivity. Qed.

Lemma single_seq adds : forall mp, multi mp = false -> mids (add_seq_m adds mp) = [].
Proof.
  induction adds as [|[t [[m x] y]] r IH]; intros mp Hm.
  - destruct mp as [|s|[|s [|s1 rest]]]; try discriminate; reflexivity.
  - cbn [add_seq_m]. apply IH. apply single_add. exact Hm.
Qed.

(* on a multi-stream page: any add keeps the streams between first and last block-free provided all
   streams after the first were; a background add even keeps all of them block-free *)
Lemma multi_add onTop b mp : multi mp = true -> blockfree (tails mp) = true ->
  multi (add_m onTop b mp) = true /\ blockfree (mids (add_m onTop b mp)) = true
  /\ (onTop = false -> blockfree (tails (add_m onTop b mp)) = true).
Proof.
  destruct mp as [|s|[|s [|s1 rest]]]; intros Hm Hb; try (cbn in Hm; discriminate).
  cbn [add_m mids tails] in *. rewrite removelast_last. split; [reflexivity|]. split; [exact Hb|].
  intros ->. unfold blockfree in *. rewrite forallb_app. rewrite Hb. reflexivity.
Qed.

(* all calls but the last are background watermarks *)
Fixpoint seq_shape (adds : list wadd) : bool :=
  match adds with
  | [] => true
  | a :: r => match r with [] => true | _ => negb (fst a) && seq_shape r end
  end.

Lemma multi_seq adds : forall mp, multi mp = true -> blockfree (tails mp) = true -> seq_shape adds = true ->
  blockfree (mids (add_seq_m adds mp)) = true.
Proof.
  induction adds as [|[t [[m x] y]] r IH]; intros mp Hm Hb Hs.
  - simpl. destruct mp as [|s|[|s rest]]; try reflexivity. apply blockfree_removelast. exact Hb.
  - cbn [add_seq_m]. destruct (multi_add t (wm_items m x y) mp Hm Hb) as [H1 [H2 H3]].
    destruct r as [|a r]; [exact H2|].
    cbn [seq_shape fst] in Hs. apply andb_true_iff in Hs. destruct Hs as [Ht Hs]. apply negb_true_iff in Ht.
    apply IH; [exact H1|apply H3; exact Ht|exact Hs].
Qed.

(* ---- removal on a page given as items ---- *)
Lemma remove_page_arr f r l :
  remove_page (CArray (f :: r ++ [l])) =
  match remove_artifacts f with
  | None => PFuel
  | Some r0 => match remove_artifacts l with
               | None => PFuel
               | Some r1 => POk (rm_found r0 || rm_found r1) (CArray (rm_content r0 :: r ++ [rm_content r1]))
                              (rm_gs r0 ++ rm_gs r1) (rm_fm r0 ++ rm_fm r1)
               end
  end.
Proof.
  destruct r as [|c1 r].
  - cbn [app remove_page]. destruct (remove_artifacts f); reflexivity.
  - cbn [remove_page app]. destruct (remove_artifacts f) as [r0|]; [|reflexivity].
    change (c1 :: r ++ [l]) with ((c1 :: r) ++ [l]). rewrite split_last_snoc. reflexivity.
Qed.

Lemma map_render_blockfree l : blockfree l = true -> map render l = map erase l.
Proof.
  unfold blockfree. induction l as [|s l IH]; [reflexivity|]. simpl. intros H. apply andb_true_iff in H.
  destruct H as [H1 H2]. apply negb_true_iff in H1. rewrite (render_noblk s H1), (IH H2). reflexivity.
Qed.

Lemma remove_marked mp : good mp -> blockfree (mids mp) = true -> mp <> MNone ->
  exists found g f, remove_page (render_page mp) = POk found (erase_page mp) g f.
Proof.
  intros Hg Hb Hne. unfold good in Hg. destruct mp as [|s|a]; [contradiction| |].
  - inversion Hg as [|? ? [Hn Hok] _]; subst. simpl. rewrite (remove_artifacts_items s Hn Hok). eauto.
  - destruct a as [|s rest]; [simpl; eauto|]. cbn [mstreams] in Hg.
    inversion Hg as [|? ? [Hn Hok] Hrest]; subst.
    destruct rest as [|s1 rest].
    + simpl. rewrite (remove_artifacts_items s Hn Hok). eauto.
    + destruct (@exists_last _ (s1 :: rest) ltac:(discriminate)) as [r [l Hrl]].
      cbn [mids] in Hb. rewrite Hrl in *. rewrite removelast_last in Hb.
      apply Forall_app in Hrest. destruct Hrest as [_ Hl]. inversion Hl as [|? ? [Hnl Hokl] _]; subst.
      cbn [render_page erase_page map]. repeat rewrite map_app. cbn [map].
      rewrite remove_page_arr. rewrite (remove_artifacts_items s Hn Hok), (remove_artifacts_items l Hnl Hokl).
      cbn [rm_found rm_content rm_gs rm_fm]. rewrite (map_render_blockfree r Hb). eauto.
Qed.

Lemma clean_erase mp : good mp -> clean_page (erase_page mp) = true.
Proof.
  intros Hg. unfold good in Hg. unfold clean_page. apply forallb_forall. intros c Hc.
  assert (Hin : exists s, In s (mstreams mp) /\ c = erase s).
  { destruct mp as [|s|a]; simpl in Hc.
    - contradiction.
    - destruct Hc as [<-|[]]. exists s. split; [left; reflexivity|reflexivity].
    - apply in_map_iff in Hc. destruct Hc as [s [<- Hs]]. exists s. split; [exact Hs|reflexivity]. }
  destruct Hin as [s [Hs ->]]. rewrite Forall_forall in Hg. destruct (Hg s Hs) as [Hn _].
  apply negb_true_iff. apply containsb_false. exact Hn.
Qed.

(* ---- equivalence up to white space and nested q ... Q pairs ---- *)
Inductive wrap_equivN (orig : bytes) : bytes -> Prop :=
| WE_refl : wrap_equivN orig orig
| WE_ws w1 w2 e : all_ws w1 -> all_ws w2 -> wrap_equivN orig e -> wrap_equivN orig (w1 ++ e ++ w2)
| WE_q w1 w2 w3 w4 e : all_ws w1 -> all_ws w2 -> all_ws w3 -> all_ws w4 -> w3 <> [] -> w4 <> [] ->
    wrap_equivN orig e -> wrap_equivN orig (w1 ++ [113] ++ w3 ++ e ++ w4 ++ [81] ++ w2).

Lemma equiv_patch_last orig onTop m x y s : wrap_equivN orig (erase s) ->
  wrap_equivN orig (erase (patch_items onTop true (wm_items m x y) s)).
Proof.
  intros H. unfold patch_items. destruct onTop.
  - cbn [erase]. rewrite erase_app. cbn [erase]. rewrite erase_wm.
    replace (s_q_open ++ erase s ++ s_q_close ++ s_sp2)
      with ([32] ++ [113] ++ [32] ++ erase s ++ [32] ++ [81] ++ [32; 32; 32]) by reflexivity.
    apply WE_q; try reflexivity; try discriminate. exact H.
  - rewrite erase_app, erase_wm. rewrite <- (app_nil_r (erase s)). apply WE_ws; [reflexivity|reflexivity|exact H].
Qed.

Lemma join_map_erase_cons (u : bytes) s rest :
  join_streams (map erase ((Seg u :: s) :: rest)) = u ++ join_streams (map erase (s :: rest)).
Proof. cbn [map erase]. apply join_cons_app. Qed.

Lemma equiv_add orig onTop m x y mp :
  wrap_equivN orig (page_bytes (erase_page mp)) ->
  wrap_equivN orig (page_bytes (erase_page (add_m onTop (wm_items m x y) mp))).
Proof.
  intros H. destruct mp as [|s|a].
  - simpl in *. exact (WE_ws orig [32; 32] [] [] eq_refl eq_refl H).
  - cbn [add_m erase_page page_bytes] in *. apply equiv_patch_last. exact H.
  - destruct a as [|s rest]; [exact H|]. destruct rest as [|s1 rest].
    + cbn [add_m erase_page page_bytes map join_streams] in *. apply equiv_patch_last. exact H.
    + cbn [add_m erase_page page_bytes] in *. remember (s1 :: rest) as r eqn:Hr.
      assert (Hj : forall u l, join_streams (map erase ((u ++ s) :: r ++ [l]))
                               = erase u ++ join_streams (map erase (s :: r)) ++ 10 :: erase l).
      { intros u l. cbn [map]. rewrite erase_app, map_app. cbn [map]. rewrite join_cons_app.
        change (erase s :: map erase r ++ [erase l]) with ((erase s :: map erase r) ++ [erase l]).
        rewrite join_snoc by discriminate. reflexivity. }
      unfold patch_items, new_items. destruct onTop.
      * change (Seg s_q_open :: s) with ([Seg s_q_open] ++ s). rewrite Hj. cbn [erase]. rewrite erase_wm.
        replace ((s_q_open ++ []) ++ join_streams (map erase (s :: r)) ++ 10 :: s_q_close ++ s_sp2)
          with ([32] ++ [113] ++ [32] ++ join_streams (map erase (s :: r)) ++ [10; 32] ++ [81] ++ [32; 32; 32])
          by reflexivity.
        apply WE_q; try reflexivity; try discriminate. exact H.
      * rewrite Hj. rewrite erase_wm. cbn [erase]. apply WE_ws; [reflexivity|reflexivity|exact H].
Qed.

Lemma equiv_seq orig adds : forall mp,
  wrap_equivN orig (page_bytes (erase_page mp)) ->
  wrap_equivN orig (page_bytes (erase_page (add_seq_m adds mp))).
Proof.
  induction adds as [|[t [[m x] y]] r IH]; intros mp H; [exact H|].
  cbn [add_seq_m]. apply IH. apply equiv_add. exact H.
Qed.

(* ---- the round trip for a sequence of adds ---- *)
Definition single_stream (ct : contents) : bool :=
  match ct with CArray (_ :: _ :: _) => false | _ => true end.

Lemma multi_of_contents ct : multi (of_contents ct) = negb (single_stream ct).
Proof. destruct ct as [|c|[|c [|c1 a]]]; reflexivity. Qed.

Lemma tails_of_contents ct : blockfree (tails (of_contents ct)) = true.
Proof.
  destruct ct as [|c|[|c a]]; try reflexivity. simpl. unfold blockfree.
  apply forallb_forall. intros s Hs. apply in_map_iff in Hs. destruct Hs as [c' [<- _]]. reflexivity.
Qed.

Lemma add_seq_not_none adds : forall mp, (adds <> [] \/ mp <> MNone) -> add_seq_m adds mp <> MNone.
Proof.
  induction adds as [|[t [[m x] y]] r IH]; intros mp H.
  - destruct H as [H|H]; [contradiction|exact H].
  - cbn [add_seq_m]. apply IH. right. destruct mp as [|s|[|s [|s1 rest]]]; discriminate.
Qed.

Lemma page_sequence_roundtrip adds ct :
  forallb wadd_ok adds = true -> clean_page ct = true -> adds <> [] ->
  (single_stream ct || seq_shape adds) = true ->
  exists found ct' g f,
    remove_page (add_seq (map wadd_bytes adds) ct) = POk found ct' g f
    /\ wrap_equivN (page_bytes ct) (page_bytes ct')
    /\ clean_page ct' = true
    /\ detect_page ct' = false.
Proof.
  intros Hok Hcl Hne Hshape.
  pose proof (good_seq adds (of_contents ct) Hok (good_of_contents ct Hcl)) as Hg.
  assert (Hb : blockfree (mids (add_seq_m adds (of_contents ct))) = true).
  { destruct (single_stream ct) eqn:Hs.
    - rewrite single_seq; [reflexivity|]. rewrite multi_of_contents, Hs. reflexivity.
    - simpl in Hshape. apply multi_seq; [rewrite multi_of_contents, Hs; reflexivity|apply tails_of_contents|exact Hshape]. }
  destruct (remove_marked _ Hg Hb (add_seq_not_none adds _ (or_introl Hne))) as [found [g [f Hr]]].
  exists found, (erase_page (add_seq_m adds (of_contents ct))), g, f.
  rewrite <- (render_of_contents ct) at 1. rewrite add_seq_render. split; [exact Hr|].
  split; [|split; [apply clean_erase; exact Hg|apply detect_clean; apply clean_erase; exact Hg]].
  apply equiv_seq. rewrite erase_of_contents. apply WE_refl.
Qed.

(* ---- the defect: a stamp followed by another add on a multi-stream page ---- *)
Definition two_streams : contents := CArray [[110]; [110]].
Definition seq_top_bg : list wadd := [(true, ([49; 32; 48], [49], [49])); (false, ([49; 32; 48], [50], [50]))].
Definition seq_top_top : list wadd := [(true, ([49; 32; 48], [49], [49])); (true, ([49; 32; 48], [50], [50]))].

Lemma stamp_left_behind :
  clean_page two_streams = true /\ forallb wadd_ok seq_top_bg = true /\ forallb wadd_ok seq_top_top = true /\
  (exists ct' g f, remove_page (add_seq (map wadd_bytes seq_top_bg) two_streams) = POk true ct' g f
                   /\ clean_page ct' = false /\ detect_page ct' = false) /\
  (exists ct' g f, remove_page (add_seq (map wadd_bytes seq_top_top) two_streams) = POk true ct' g f
                   /\ clean_page ct' = false /\ detect_page ct' = false).
Proof.
  split; [reflexivity|]. split; [reflexivity|]. split; [reflexivity|]. split.
  - eexists _, _, _. split; [vm_compute; reflexivity|]. split; vm_compute; reflexivity.
  - eexists _, _, _. split; [vm_compute; reflexivity|]. split; vm_compute; reflexivity.
Qed.
