(* C08 — the parser skeleton is total (fuel 2*len+2 is never exhausted) and never calls itself
   deeper than the effective limit + 1, for ALL byte strings and ALL token-level functions that do
   not lengthen the line. *)
From Coq Require Import NArith ZArith List Bool Lia ZifyBool ZifyNat ZifyN.
From PV Require Import C08.Model C08.ParseModel.
Import ListNotations.
Open Scope N_scope.

Section SkelProofs.
Variable trim : bytes -> bytes.
Variable tls : bool -> bytes -> bytes * bool.
Variable pname : bytes -> bool * bytes.
Variable leaf : bytes -> option bytes.

(* what Go's string slicing guarantees: the functions return suffixes, a successful read consumes *)
Hypothesis trim_le : forall l, (length (trim l) <= length l)%nat.
Hypothesis tls_le : forall r l, (length (fst (tls r l)) <= length l)%nat.
Hypothesis pname_ok_lt : forall l r, l <> [] -> pname l = (true, r) -> (length r < length l)%nat.
Hypothesis pname_err_le : forall l r, pname l = (false, r) -> (length r <= length l)%nat.
Hypothesis leaf_lt : forall l r, leaf l = Some r -> (length r < length l)%nat.

Notation pobj := (parse_obj trim tls pname leaf).
Notation parr := (parse_arr trim tls pname leaf).
Notation pdict := (parse_dict trim tls pname leaf).

(* ---------------- totality *)

Definition shrinks (strict : bool) (r : pres) (n : nat) : Prop :=
  match r with
  | POk rest _ => if strict then (length rest < n)%nat else (length rest <= n)%nat
  | _ => True
  end.

Lemma total_all : forall fuel,
  (forall relaxed maxd level l,
     shrinks true (pobj fuel relaxed maxd level l) (length l) /\
     ((2 * length l <= fuel)%nat -> l <> [] -> pobj fuel relaxed maxd level l <> POOF)) /\
  (forall relaxed maxd level l mx,
     shrinks true (parr fuel relaxed maxd level l mx) (length l) /\
     ((2 * length l + 1 <= fuel)%nat -> parr fuel relaxed maxd level l mx <> POOF)) /\
  (forall relaxed maxd level l mx,
     shrinks false (pdict fuel relaxed maxd level l mx) (length l) /\
     ((2 * length l + 1 <= fuel)%nat -> pdict fuel relaxed maxd level l mx <> POOF)).
Proof.
  induction fuel as [|f [IHo [IHa IHd]]].
  - repeat split; simpl; auto; intros; try lia.
    destruct l; [congruence | simpl in *; lia].
  - split; [|split].
    + (* parse_obj *)
      intros relaxed maxd level l. simpl.
      destruct l as [|c0 l0]; [split; [exact I | intros _ H; congruence]|].
      destruct (depth_exceeded maxd level); [split; [exact I | discriminate]|].
      pose proof (trim_le (c0 :: l0)) as Ht1.
      destruct (trim (c0 :: l0)) as [|c t] eqn:Et; [split; [exact I | discriminate]|].
      simpl in Ht1.
      destruct (c =? 91).
      * destruct t as [|c1 t1]; [split; [exact I | discriminate]|].
        pose proof (trim_le (c1 :: t1)) as Ht2.
        destruct (trim (c1 :: t1)) as [|c2 l2] eqn:Et2; [split; [exact I | discriminate]|].
        destruct (IHa relaxed maxd level (c2 :: l2) level) as [Hs Hn].
        split.
        -- destruct (parr f relaxed maxd level (c2 :: l2) level); simpl in *; auto. lia.
        -- intros Hf _. apply Hn. simpl in *. lia.
      * destruct ((c =? 60) && match t with d :: _ => d =? 60 | [] => false end).
        -- destruct t as [|c1 [|c2 [|c3 t3]]]; try (split; [exact I | discriminate]).
           pose proof (trim_le (c2 :: c3 :: t3)) as Ht2.
           destruct (trim (c2 :: c3 :: t3)) as [|c4 l2] eqn:Et2; [split; [exact I | discriminate]|].
           destruct (IHd relaxed maxd level (c4 :: l2) level) as [Hs Hn].
           split.
           ++ destruct (pdict f relaxed maxd level (c4 :: l2) level); simpl in *; auto. lia.
           ++ intros Hf _. apply Hn. simpl in *. lia.
        -- destruct (leaf (c :: t)) as [r|] eqn:El; [|split; [exact I | discriminate]].
           apply leaf_lt in El. split; [simpl in *; lia | discriminate].
    + (* parse_arr *)
      intros relaxed maxd level l mx. simpl.
      destruct l as [|c t]; [split; [exact I | discriminate]|].
      destruct (c =? 93); [split; [simpl; lia | discriminate]|].
      destruct (IHo relaxed maxd (level + 1)%Z (c :: t)) as [Hs Hn].
      destruct (pobj f relaxed maxd (level + 1)%Z (c :: t)) as [l' m|e m|] eqn:Eo.
      * simpl in Hs.
        destruct l' as [|c1 l1]; [split; [exact I | discriminate]|].
        pose proof (trim_le (c1 :: l1)) as Ht.
        destruct (trim (c1 :: l1)) as [|c2 l2] eqn:Et; [split; [exact I | discriminate]|].
        destruct (IHa relaxed maxd level (c2 :: l2) (Z.max mx m)) as [Hs2 Hn2].
        split.
        -- destruct (parr f relaxed maxd level (c2 :: l2) (Z.max mx m)); simpl in *; auto. lia.
        -- intros Hf. apply Hn2. simpl in *. lia.
      * split; [exact I | discriminate].
      * split; [exact I|]. intros Hf. exfalso. apply Hn; [simpl in *; lia | discriminate | reflexivity].
    + (* parse_dict *)
      intros relaxed maxd level l mx. simpl.
      destruct l as [|c t]; [split; [simpl; lia | discriminate]|].
      destruct ((c =? 62) && match t with c' :: _ => c' =? 62 | [] => false end).
      { split; [|discriminate]. simpl. destruct t; simpl; lia. }
      destruct (pname (c :: t)) as [ok l1] eqn:Ep. destruct ok.
      * apply pname_ok_lt in Ep; [|discriminate].
        pose proof (tls_le relaxed l1) as Htl.
        destruct (tls relaxed l1) as [l2 eol] eqn:Etl. simpl in Htl.
        destruct l2 as [|c2 t2]; [split; [exact I | discriminate]|].
        assert (Hcont : forall l3 m, (length l3 <= length (c2 :: t2))%nat ->
                 shrinks false (match l3 with
                                | _ :: _ :: _ => match trim l3 with
                                                 | [] => PErr POther (Z.max mx m)
                                                 | c4 :: l4 => pdict f relaxed maxd level (c4 :: l4) (Z.max mx m)
                                                 end
                                | _ => PErr POther (Z.max mx m) end) (length (c :: t)) /\
                 ((2 * length (c :: t) + 1 <= S f)%nat ->
                  match l3 with
                  | _ :: _ :: _ => match trim l3 with
                                   | [] => PErr POther (Z.max mx m)
                                   | c4 :: l4 => pdict f relaxed maxd level (c4 :: l4) (Z.max mx m)
                                   end
                  | _ => PErr POther (Z.max mx m) end <> POOF)).
        { intros l3 m Hl3. destruct l3 as [|a [|b l3']]; try (split; [exact I | discriminate]).
          pose proof (trim_le (a :: b :: l3')) as Ht.
          destruct (trim (a :: b :: l3')) as [|c4 l4] eqn:Et; [split; [exact I | discriminate]|].
          destruct (IHd relaxed maxd level (c4 :: l4) (Z.max mx m)) as [Hs2 Hn2].
          split.
          - destruct (pdict f relaxed maxd level (c4 :: l4) (Z.max mx m)); simpl in *; auto. lia.
          - intros Hf. apply Hn2. simpl in *. lia. }
        destruct eol.
        -- exact (Hcont (c2 :: t2) mx (le_n _)).
        -- destruct (IHo relaxed maxd (level + 1)%Z (c2 :: t2)) as [Hs Hn].
           destruct (pobj f relaxed maxd (level + 1)%Z (c2 :: t2)) as [l3 m|e m|] eqn:Eo.
           ++ simpl in Hs. apply Hcont. simpl. lia.
           ++ split; [exact I | discriminate].
           ++ split; [exact I|]. intros Hf. exfalso. apply Hn; [simpl in *; lia | discriminate | reflexivity].
      * apply pname_err_le in Ep.
        destruct relaxed; [|split; [exact I | discriminate]].
        pose proof (tls_le true (tl l1)) as Htl.
        destruct (IHd true maxd level (fst (tls true (tl l1))) mx) as [Hs Hn].
        assert (Hlen : (length (tl l1) <= length t)%nat) by (destruct l1; simpl in *; lia).
        split.
        -- destruct (pdict f true maxd level (fst (tls true (tl l1))) mx); simpl in *; auto. lia.
        -- intros Hf. apply Hn. simpl in *. lia.
Qed.

Lemma parse_obj_total : forall relaxed maxd level l,
  l <> [] -> pobj (parse_fuel l) relaxed maxd level l <> POOF.
Proof.
  intros relaxed maxd level l Hl. destruct (total_all (parse_fuel l)) as [Ho _].
  apply Ho; [unfold parse_fuel; lia | exact Hl].
Qed.

Lemma parse_top_total : forall maxd level l, parse_top trim tls pname leaf maxd level l <> POOF.
Proof.
  intros maxd level l. unfold parse_top. destruct l as [|c t]; [discriminate|].
  pose proof (parse_obj_total false maxd level (c :: t) ltac:(discriminate)) as H1.
  pose proof (parse_obj_total true maxd level (c :: t) ltac:(discriminate)) as H2.
  destruct (pobj (parse_fuel (c :: t)) false maxd level (c :: t)) as [r m|e m|]; try discriminate; [|congruence].
  destruct e; [discriminate|].
  destruct (pobj (parse_fuel (c :: t)) true maxd level (c :: t)) as [r' m'|e' m'|]; try discriminate. congruence.
Qed.

End SkelProofs.

(* ---------------- depth bound: needs nothing about the token-level functions *)
Section SkelDepth.
Variable trim : bytes -> bytes.
Variable tls : bool -> bytes -> bytes * bool.
Variable pname : bytes -> bool * bytes.
Variable leaf : bytes -> option bytes.
Notation pobj := (parse_obj trim tls pname leaf).
Notation parr := (parse_arr trim tls pname leaf).
Notation pdict := (parse_dict trim tls pname leaf).

Definition mx_in (r : pres) (lo hi : Z) : Prop :=
  match r with
  | POk _ m | PErr _ m => (lo <= m <= hi)%Z
  | POOF => True
  end.

Lemma depth_all : forall fuel,
  (forall relaxed maxd level l, (level <= eff_depth maxd + 1)%Z ->
     mx_in (pobj fuel relaxed maxd level l) level (eff_depth maxd + 1)) /\
  (forall relaxed maxd level l mx, (level <= eff_depth maxd)%Z -> (level <= mx <= eff_depth maxd + 1)%Z ->
     mx_in (parr fuel relaxed maxd level l mx) mx (eff_depth maxd + 1)) /\
  (forall relaxed maxd level l mx, (level <= eff_depth maxd)%Z -> (level <= mx <= eff_depth maxd + 1)%Z ->
     mx_in (pdict fuel relaxed maxd level l mx) mx (eff_depth maxd + 1)).
Proof.
  induction fuel as [|f [IHo [IHa IHd]]].
  - repeat split; simpl; auto.
  - split; [|split].
    + intros relaxed maxd level l Hl. simpl.
      destruct l as [|c0 l0]; [simpl; lia|].
      unfold depth_exceeded. destruct (Z.ltb_spec (eff_depth maxd) level) as [Hx|Hx]; [simpl; lia|].
      destruct (trim (c0 :: l0)) as [|c t]; [simpl; lia|].
      destruct (c =? 91).
      * destruct t as [|c1 t1]; [simpl; lia|].
        destruct (trim (c1 :: t1)) as [|c2 l2]; [simpl; lia|].
        apply IHa; lia.
      * destruct ((c =? 60) && match t with d :: _ => d =? 60 | [] => false end).
        -- destruct t as [|c1 [|c2 [|c3 t3]]]; try (simpl; lia).
           destruct (trim (c2 :: c3 :: t3)) as [|c4 l2]; [simpl; lia|].
           apply IHd; lia.
        -- destruct (leaf (c :: t)); simpl; lia.
    + intros relaxed maxd level l mx Hl Hmx. simpl.
      destruct l as [|c t]; [simpl; lia|].
      destruct (c =? 93); [simpl; lia|].
      pose proof (IHo relaxed maxd (level + 1)%Z (c :: t) ltac:(lia)) as Ho.
      destruct (pobj f relaxed maxd (level + 1)%Z (c :: t)) as [l' m|e m|]; simpl in Ho; [| simpl; lia | exact I].
      destruct l' as [|c1 l1]; [simpl; lia|].
      destruct (trim (c1 :: l1)) as [|c2 l2]; [simpl; lia|].
      pose proof (IHa relaxed maxd level (c2 :: l2) (Z.max mx m) Hl ltac:(lia)) as Ha.
      destruct (parr f relaxed maxd level (c2 :: l2) (Z.max mx m)); simpl in *; auto; lia.
    + intros relaxed maxd level l mx Hl Hmx. simpl.
      destruct l as [|c t]; [simpl; lia|].
      destruct ((c =? 62) && match t with c' :: _ => c' =? 62 | [] => false end); [simpl; lia|].
      destruct (pname (c :: t)) as [ok l1]. destruct ok.
      * destruct (tls relaxed l1) as [l2 eol].
        destruct l2 as [|c2 t2]; [simpl; lia|].
        assert (Hcont : forall l3 m, (level <= m <= eff_depth maxd + 1)%Z ->
                 mx_in (match l3 with
                        | _ :: _ :: _ => match trim l3 with
                                         | [] => PErr POther (Z.max mx m)
                                         | c4 :: l4 => pdict f relaxed maxd level (c4 :: l4) (Z.max mx m)
                                         end
                        | _ => PErr POther (Z.max mx m) end) mx (eff_depth maxd + 1)).
        { intros l3 m Hm. destruct l3 as [|a [|b l3']]; try (simpl; lia).
          destruct (trim (a :: b :: l3')) as [|c4 l4]; [simpl; lia|].
          pose proof (IHd relaxed maxd level (c4 :: l4) (Z.max mx m) Hl ltac:(lia)) as Hd.
          destruct (pdict f relaxed maxd level (c4 :: l4) (Z.max mx m)); simpl in *; auto; lia. }
        destruct eol.
        -- exact (Hcont (c2 :: t2) mx ltac:(lia)).
        -- pose proof (IHo relaxed maxd (level + 1)%Z (c2 :: t2) ltac:(lia)) as Ho.
           destruct (pobj f relaxed maxd (level + 1)%Z (c2 :: t2)) as [l3 m|e m|]; simpl in Ho; [| simpl; lia | exact I].
           apply Hcont. lia.
      * destruct relaxed; [|simpl; lia]. apply IHd; lia.
Qed.

Lemma parse_top_depth : forall maxd level l, (level <= eff_depth maxd + 1)%Z ->
  mx_in (parse_top trim tls pname leaf maxd level l) level (eff_depth maxd + 1).
Proof.
  intros maxd level l Hl. unfold parse_top. destruct l as [|c t]; [simpl; lia|].
  destruct (depth_all (parse_fuel (c :: t))) as [Ho _].
  pose proof (Ho false maxd level (c :: t) Hl) as H1. pose proof (Ho true maxd level (c :: t) Hl) as H2.
  destruct (pobj (parse_fuel (c :: t)) false maxd level (c :: t)) as [r m|e m|]; simpl in H1; [simpl; lia | | exact I].
  destruct e; [simpl; lia|].
  destruct (pobj (parse_fuel (c :: t)) true maxd level (c :: t)) as [r' m'|e' m'|]; simpl in *; auto; lia.
Qed.

End SkelDepth.
