(* C22 — Encrypting and then decrypting a document changes nothing.
   Property theorems only; each is closed by an exact lemma and followed by Print Assumptions.
   The AES block cipher and MD5 are function arguments; what is assumed of AES is stated as a
   hypothesis of each theorem (dec k (enc k b) = b and |enc k b| = 16 on 16-byte blocks). *)
From Coq Require Import ZArith NArith List Bool.
From PV Require Import Lib.GoInt C22.Model C22.Proofs C22.ProofsPw.
Import ListNotations.

(* RC4 with the same key twice is the identity: all keys, all data (any N, not only bytes). *)
Theorem C22_rc4_involutive : forall key d c, rc4 key d = Ok c -> rc4 key c = Ok d.
Proof. exact rc4_involutive. Qed.
Print Assumptions C22_rc4_involutive.

(* encryptAESBytes / decryptAESBytes: CBC, IV prepended, PKCS#5 padding; every plaintext length
   including 0 and multiples of 16, every key and every 16-byte IV. *)
Theorem C22_aes_cbc_pad_roundtrip : forall (aenc adec : bytes -> bytes -> bytes),
  (forall k b, len16 b -> adec k (aenc k b) = b) ->
  (forall k b, len16 b -> len16 (aenc k b)) ->
  forall key iv b, len16 iv -> decryptAES adec key (encryptAES aenc key iv b) = AOk b.
Proof. exact aes_cbc_pad_roundtrip. Qed.
Print Assumptions C22_aes_cbc_pad_roundtrip.

(* encryptBytes / decryptBytes (strings) and encryptStream / decryptStream, all four algorithms
   (needAES x R), every object/generation number (the per-object key is the same on both sides),
   including the reader's "empty string is not decrypted" shortcut. *)
Theorem C22_string_roundtrip : forall c,
  (forall k b, len16 b -> cp_adec c k (cp_aenc c k b) = b) ->
  (forall k b, len16 b -> len16 (cp_aenc c k b)) ->
  forall iv b ct, len16 iv -> encryptBytes c iv b = Ok ct -> dec_str (decryptBytes c) ct = Ok b.
Proof. exact bytes_roundtrip. Qed.
Print Assumptions C22_string_roundtrip.

Theorem C22_stream_roundtrip : forall c,
  (forall k b, len16 b -> cp_adec c k (cp_aenc c k b) = b) ->
  (forall k b, len16 b -> len16 (cp_aenc c k b)) ->
  forall iv b ct, len16 iv -> encryptStream c iv b = Ok ct -> dec_str (decryptStream c) ct = Ok b.
Proof. exact stream_bytes_roundtrip. Qed.
Print Assumptions C22_stream_roundtrip.

(* encryptDeepObject / decryptDeepObject: every object tree (nested arrays and dictionaries at any
   depth), signature /Contents exemption on both sides. *)
Theorem C22_deep_roundtrip : forall (E D : bytes -> res bytes),
  (forall b c, E b = Ok c -> dec_str D c = Ok b) ->
  forall o o', encryptDeep E o = Ok o' -> decryptDeep D o' = Ok o.
Proof. exact deep_roundtrip. Qed.
Print Assumptions C22_deep_roundtrip.

(* Writer (writeIndirectObject + writeObjectGeneric with a key set: strings, dicts, arrays, streams incl.
   the xref-stream and Crypt-filter exemptions, object-stream members, and members of the input's object
   streams that were never decoded, which are decoded first) followed by the reader (resolveObject,
   decryptStreamContent) gives back the object (decoded io = io except that a lazy member comes back decoded).
   _partial: it excludes exactly /Type /Metadata streams when EncryptMetadata is false
   (see C22_metadata_emd_false_refuted; known finding emd-false-metadata-reencrypted);
   setupEncryption (api.Encrypt) always has EncryptMetadata = true.
   Full statement: the same without the roundtrip_ok hypothesis. *)
Theorem C22_object_roundtrip_partial : forall c,
  (forall k b, len16 b -> cp_adec c k (cp_aenc c k b) = b) ->
  (forall k b, len16 b -> len16 (cp_aenc c k b)) ->
  forall strE stmE, str_cipher_of c strE -> stm_cipher_of c stmE ->
  forall emd to_os io e, roundtrip_ok emd io ->
    write_iobj true strE stmE to_os io = Ok e ->
    read_emitted (decryptBytes c) (decryptStream c) emd (filters_of io) e = Ok (decoded io).
Proof. exact object_roundtrip. Qed.
Print Assumptions C22_object_roundtrip_partial.

(* an undecoded object-stream member round-trips like any other object (no side condition) *)
Theorem C22_lazy_roundtrip : forall c,
  (forall k b, len16 b -> cp_adec c k (cp_aenc c k b) = b) ->
  (forall k b, len16 b -> len16 (cp_aenc c k b)) ->
  forall strE stmE, str_cipher_of c strE -> stm_cipher_of c stmE ->
  forall emd to_os o e,
    write_iobj true strE stmE to_os (ILazy o) = Ok e ->
    read_emitted (decryptBytes c) (decryptStream c) emd [] e = Ok (IObj o).
Proof. exact lazy_roundtrip. Qed.
Print Assumptions C22_lazy_roundtrip.

(* crypt filters: the reader skips decryption of a stream exactly when the writer skipped its encryption
   (/Crypt is the sole filter), for every filter list *)
Theorem C22_crypt_skip_agrees : forall filters,
  read_skips_crypt filters = write_skips_crypt filters /\
  write_skips_crypt filters = skips_crypt filters /\
  (skips_crypt filters = true <-> filters = [nCrypt]).
Proof.
  intro filters. split; [apply crypt_skip_agrees|]. split; [apply write_skips_eq|].
  unfold skips_crypt. destruct filters as [|f [|g t]]; split; intro H; try discriminate; try (inversion H; fail).
  - apply bytes_eqb_eq in H. subst. reflexivity.
  - inversion H; subst. apply bytes_eqb_refl.
Qed.
Print Assumptions C22_crypt_skip_agrees.

Theorem C22_metadata_emd_false_refuted : exists d raw e raw',
  write_iobj true (encryptBytes wit_c []) (encryptStream wit_c []) false (IStream d [] raw) = Ok e /\
  type_is nMetadata d = true /\
  read_emitted (decryptBytes wit_c) (decryptStream wit_c) false [] e = Ok (IStream d [] raw') /\ raw' <> raw.
Proof. exact metadata_emd_false_refuted. Qed.
Print Assumptions C22_metadata_emd_false_refuted.

(* /Perms (R 5/6): what writePermissions stores validates against the same P and EncryptMetadata,
   for every signed 32-bit P; and against nothing else. *)
Theorem C22_perms_roundtrip : forall (aenc adec : bytes -> bytes -> bytes),
  (forall k b, len16 b -> adec k (aenc k b) = b) ->
  forall key p emd,
    ((-2147483648 <= p <= 2147483647)%Z -> exists perms, writePermissions aenc key p emd = Ok perms) /\
    (forall perms, writePermissions aenc key p emd = Ok perms -> validatePermissions adec key perms p emd = Ok true).
Proof.
  intros aenc adec Hinv key p emd. split.
  - apply perms_written_iff.
  - intros perms H. eapply perms_roundtrip; eauto.
Qed.
Print Assumptions C22_perms_roundtrip.

Theorem C22_perms_detects : forall (aenc adec : bytes -> bytes -> bytes),
  (forall k b, len16 b -> adec k (aenc k b) = b) ->
  forall key p emd perms q emd',
    writePermissions aenc key p emd = Ok perms -> (-2147483648 <= q <= 2147483647)%Z ->
    (p <> q \/ emd <> emd') -> validatePermissions adec key perms q emd' = Ok false.
Proof. exact perms_detects. Qed.
Print Assumptions C22_perms_detects.

(* /P: newEncryptDict writes int16(requested), GetPermissions reports int16(P): the reported value
   is the requested one for every int16, and its 16-bit truncation in general; /P is always in range
   for permissionBytes. *)
Theorem C22_perms_reported : forall requested,
  p_reported (p_written requested) = wrapS 16 requested /\
  ((-32768 <= requested <= 32767)%Z -> p_reported (p_written requested) = requested) /\
  (-2147483648 <= p_written requested <= 2147483647)%Z.
Proof.
  intro r. split; [apply p_reported_written|]. split; [apply p_exact | apply p_written_range].
Qed.
Print Assumptions C22_perms_reported.

(* Passwords, R2-R4.  The three sites that pad/truncate a password to 32 bytes — encKey (Alg. 2a), key
   (Alg. 3a) and o (Alg. 3e) — all see only pad32 pw = firstn 32 (pw ++ pad), i.e. the first 32 BYTES
   (never a rune boundary), so they agree on every password. *)
Theorem C22_pad32_prefix : forall md5 pw opw upw o p id r emd l,
  pad32 pw = firstn 32 (pw ++ pad_const) /\ pad32 (firstn 32 pw) = pad32 pw /\ pad32 (pad32 pw) = pad32 pw /\
  encKey md5 (firstn 32 upw) o p id r emd l = encKey md5 upw o p id r emd l /\
  (opw <> [] -> ownerKey md5 (firstn 32 opw) upw r l = ownerKey md5 opw upw r l) /\
  (opw <> [] -> compute_o md5 opw (firstn 32 upw) r l = compute_o md5 opw upw r l).
Proof.
  intros. repeat split.
  - apply pad32_spec.
  - apply pad32_prefix.
  - apply pad32_idempotent.
  - apply encKey_prefix.
  - apply ownerKey_prefix.
  - apply compute_o_user_prefix.
Qed.
Print Assumptions C22_pad32_prefix.

(* Algorithm 7 undoes Algorithm 3: from /O and the owner password the reader recovers exactly the padded
   user password, for every pair of passwords (any length, any bytes). *)
Theorem C22_owner_recovers_user : forall md5 opw upw r l ov, (r = 2 \/ r = 3 \/ r = 4)%Z ->
  compute_o md5 opw upw r l = Ok ov ->
  rc4_chain (recover_chain (ownerKey md5 opw upw r l) r) ov = Ok (pad32 upw).
Proof. exact owner_recovers_user. Qed.
Print Assumptions C22_owner_recovers_user.

(* Whichever credential opens the file, the verdict and the file key are the same: the owner password alone
   (whatever is in ctx.UserPW) gives what the user password gives, and the user password validates against
   its own /U with the key the document was encrypted with. *)
Theorem C22_either_password_opens : forall md5 opw upw any p id r emd l o u key, (r = 2 \/ r = 3 \/ r = 4)%Z ->
  opw <> [] ->
  compute_o md5 opw upw r l = Ok o ->
  compute_u md5 upw o p id r emd l = Ok (u, key) ->
  validateUser md5 upw o u p id r emd l = Ok (true, key) /\
  validateOwner md5 opw any o u p id r emd l = Ok (true, key).
Proof.
  intros md5 opw upw any p id r emd l o u key Hr Hne Ho Hu.
  pose proof (user_password_opens md5 upw o p id r emd l u key Hr Hu) as H1.
  split; [exact H1|]. rewrite (owner_password_opens md5 opw upw any o u p id r emd l Hr Hne Ho). exact H1.
Qed.
Print Assumptions C22_either_password_opens.

(* non-vacuity: the AES hypotheses are satisfiable (identity cipher), RC4 matches the published
   test vector rc4("Key","Plaintext") = BBF316E8D940AF0AD3, padding of 0 / 16 bytes adds a full block,
   the sig exemption fires and is symmetric. *)
Example C22_nonvacuous :
  (forall k b, len16 b -> (fun (_ b : bytes) => b) k ((fun (_ b : bytes) => b) k b) = b) /\
  rc4 [75; 101; 121] [80; 108; 97; 105; 110; 116; 101; 120; 116]
    = Ok [187; 243; 22; 232; 217; 64; 175; 10; 211] /\
  length (pkcs_pad []) = 16%nat /\ length (pkcs_pad (repeatN 1 16)) = 32%nat /\
  length (pkcs_pad (repeatN 1 17)) = 32%nat /\
  encryptDeep (fun b => Ok (0 :: b)%N)
     (ODict [(kType, OName nSig); (kContents, OHex [1]); ([77], OStr [2]); ([65], OArr [OStr []; ODict [(kContents, OStr [3])]])])
   = Ok (ODict [(kType, OName nSig); (kContents, OHex [1]); ([77], OStr [0; 2]); ([65], OArr [OStr [0]; ODict [(kContents, OStr [0; 3])]])])%N /\
  permissionBytes (-1849) = Ok [199; 248; 255; 255]%N.
Proof. vm_compute. repeat split; try reflexivity. Qed.
