// Harness for C18: exact, self-consistent file structure of every written PDF.
//
//	K (correspondence / translation validation)
//	  layout    every output with a classic xref table is scanned sequentially (pdfscan.go, no use of the
//	            xref) into header version + (objNr, gen, body) triples; the extracted Coq `layout` must
//	            reproduce the real file byte for byte (so: every offset, every 20-byte entry, the subsection
//	            split, /Size, startxref). For synthetic contexts the free entries and /Size come from the
//	            pdfcpu context, for documents from the written trailer/xref.
//	  check     the extracted strict checker `check_file` must accept the real bytes (stage 0).
//	  xstream   xref-stream outputs: this harness inflates the stream; the extracted `check_xref_stream` decodes the
//	            rows strictly (exact /W widths, exact /Index counts, nothing left over) and applies `check_rows`;
//	  w2width / xcontent: the writer's /W[1] and row bytes against Model.w2_width / xref_stream_content.
//	  i64buf    write.go int64ToBuf against the model; dec; FreeObject against free_object.
//	O (oracle) pdfscan.go checkFile: an independent strict Go checker of the same facts (plus object
//	  streams, stream /Length, increments) must accept every output.
package main

import (
	"bufio"
	"bytes"
	"fmt"
	"io"
	"os"
	"path/filepath"
	"sort"
	"strconv"
	"strings"
	"time"

	"github.com/pdfcpu/pdfcpu/pkg/api"
	"github.com/pdfcpu/pdfcpu/pkg/pdfcpu"
	"github.com/pdfcpu/pdfcpu/pkg/pdfcpu/color"
	"github.com/pdfcpu/pdfcpu/pkg/pdfcpu/model"
	"github.com/pdfcpu/pdfcpu/pkg/pdfcpu/types"
	"verif/vh"
)

var eols = []string{"\n", "\r", "\r\n"}
var eolNames = []string{"LF", "CR", "CRLF"}

var r *vh.Run
var modelLimit int

func eolIndex(e string) int {
	for i, s := range eols {
		if s == e {
			return i
		}
	}
	return 0
}

// ---------------------------------------------------------------- evaluation of one output

type freeEnt struct{ nr, next, gen int }

func freesArg(fs []freeEnt) string {
	p := make([]string, len(fs))
	for i, f := range fs {
		p[i] = vh.Int(int64(f.nr)) + ":" + vh.Int(int64(f.next)) + ":" + vh.Int(int64(f.gen))
	}
	return strings.Join(p, ";")
}

// objsArg: nr : header generation (from the sequential scan) : table generation (xgen, from the pdfcpu
// context or the written xref; the header generation when there is no entry) : body
func objsArg(objs []scanObj, xgen map[int]int) string {
	var sb strings.Builder
	for i, o := range objs {
		if i > 0 {
			sb.WriteByte(';')
		}
		sb.WriteString(vh.Int(int64(o.nr)))
		sb.WriteByte(':')
		sb.WriteString(vh.Int(int64(o.gen)))
		sb.WriteByte(':')
		xg, ok := xgen[o.nr]
		if !ok {
			xg = o.gen
		}
		sb.WriteString(vh.Int(int64(xg)))
		sb.WriteByte(':')
		sb.WriteString(vh.Hex(o.body))
	}
	return sb.String()
}

type outInfo struct {
	Source string `json:"source"`
	Op     string `json:"op"`
	Eol    string `json:"eol"`
	XRef   string `json:"xref"`
	ObjStm bool   `json:"objstm"`
	Enc    bool   `json:"encrypted"`
	Seed   int64  `json:"seed"`
	Len    int    `json:"len"`
	// generated documents only
	Variant  string   `json:"variant,omitempty"`
	Expect   []string `json:"expect_pages,omitempty"` // decoded page contents the output must still have
	InputHex string   `json:"input_hex,omitempty"`
}

// evaluate runs O on one output and records the K cases. ctxFrees/ctxSize: from the pdfcpu context when
// available (synthetic contexts), otherwise nil/-1 and the written xref is used.
func evaluate(info outInfo, out []byte, eol string, oracle bool, ctxFrees []freeEnt, ctxSize int, ctxGens map[int]int) {
	info.Len = len(out)
	ck := checkFile(out, eol, info.Enc)
	kind := info.XRef // what was asked for; what was found when the section parses
	if kind == "" {
		kind = "table"
	}
	if ck.sec != nil {
		kind = map[bool]string{true: "stream", false: "table"}[ck.sec.stream]
	}
	r.Count("out:" + info.Op)
	r.Count("cfg:" + eolNames[eolIndex(eol)] + "/" + info.XRef + map[bool]string{true: "+objstm", false: ""}[info.ObjStm] + map[bool]string{true: "+enc", false: ""}[info.Enc])
	if oracle {
		if len(ck.findings) == 0 {
			r.OracleOK()
		}
		seen := map[string]bool{}
		for _, f := range ck.findings {
			if seen[f.class] {
				continue
			}
			seen[f.class] = true
			cl := f.class + ":" + kind
			if strings.HasPrefix(f.class, "free-list") {
				cl = f.class + ":" + info.Op // the free list is op-specific, not writer-configuration-specific
			}
			if info.Variant != "" {
				// generated documents: name the root cause, not the writer configuration
				opt := strings.HasSuffix(info.Variant, ":optimize")
				switch {
				case f.class == "inuse-generation" && opt:
					cl = "inuse-generation:optimize-null-object" // optimize.go fixIndirectObject keeps the stale reference's generation
				case f.class == "inuse-generation" && strings.Contains(info.Variant, "-oldgen"):
					cl = "inuse-generation:stale-ref-older-generation" // writeNullObject header generation vs UndeleteObject generation
				case f.class == "size-too-large" && opt && strings.Contains(info.Variant, "gen-stale-"):
					cl = "size-too-large:optimize-null-object-unwritten" // the null object inserted by fixIndirectObject is never written
				case f.class == "size-too-large" && strings.HasPrefix(info.Variant, "damaged-free-list"):
					// inputs in xref-stream form: the source's own xref stream object is neither written nor freed,
					// the root cause already listed as size-too-large:table / :stream
					cl = f.class + ":" + kind
				default:
					cl = f.class + ":" + info.Variant
				}
			}
			if f.class == "xref-stream-width" {
				cl = "xref-stream-width:stream" // one root cause whatever the document
			}
			r.OracleFail(cl, info, f.detail)
		}
	}
	if oracle && info.Expect != nil && ck.sec != nil && ck.scan != nil && !info.Enc {
		got, err := ck.pageContents()
		switch {
		case err != nil:
			r.OracleFail("page-tree-broken:"+info.Variant, info, err.Error())
		case len(got) != len(info.Expect):
			r.OracleFail("page-count-changed:"+info.Variant, info, fmt.Sprintf("%d pages, expected %d", len(got), len(info.Expect)))
		default:
			same := true
			for i := range got {
				if strings.TrimSpace(got[i]) != strings.TrimSpace(info.Expect[i]) {
					same = false
					r.OracleFail("page-content-changed:"+info.Variant, info, fmt.Sprintf("page %d content %q, expected %q", i+1, got[i], info.Expect[i]))
					break
				}
			}
			if same {
				r.OracleOK()
			}
		}
	}
	// what the extracted Coq checker must say about the same bytes (first rejecting stage)
	stage := 0
	rowsOK := true
	for _, f := range ck.findings {
		st := 0
		switch {
		case f.class == "header":
			st = 1
		case f.class == "tail-syntax":
			st = 2
		case f.class == "startxref-target" || f.class == "xref-syntax" || f.class == "xref-stream-width":
			st = 3
		case strings.HasPrefix(f.class, "size") || strings.HasPrefix(f.class, "free-list"):
			st = 4
		case f.class == "inuse-offset" || f.class == "inuse-generation":
			st = 5
		}
		if st >= 3 {
			rowsOK = false
		}
		if st != 0 && (stage == 0 || st < stage) {
			stage = st
		}
	}
	if ck.sec == nil || ck.scan == nil {
		return
	}
	if info.Variant != "" {
		// generated documents: was the once-free object 5 materialised ("5 g obj null") and turned in-use?
		if e, ok := ck.merged[5]; ok && e.typ == 1 && !strings.HasSuffix(info.Variant, ":optimize") && info.XRef == "table" {
			r.Count("gen-revived-free-object:" + info.Variant)
		}
	}
	r.CountN("objects:inuse", ck.nInUse)
	r.CountN("objects:compressed", ck.nComp)
	r.CountN("objects:free", ck.nFree)
	r.CountN("objects:streams", ck.nStreams)
	if len(out) > modelLimit {
		r.Count("model:skipped-large")
		return
	}
	sec := ck.sec
	if sec.prev >= 0 {
		r.Count("model:skipped-increment")
		return
	}
	if !sec.stream {
		frees := ctxFrees
		size := ctxSize
		xgen := ctxGens
		if xgen == nil {
			xgen = map[int]int{}
			for _, e := range sec.ents {
				if e.typ == 1 {
					xgen[e.nr] = e.b
				}
			}
		}
		if frees == nil {
			for _, e := range sec.ents {
				if e.typ == 0 {
					frees = append(frees, freeEnt{e.nr, e.a, e.b})
				}
			}
			size = sec.size
		}
		tpre := sec.tdict
		if i := bytes.LastIndex(tpre, []byte("/Size ")); i >= 2 {
			tpre = tpre[2:i]
		}
		r.Case("layout", []string{vh.Int(int64(ck.scan.vmaj)), vh.Int(int64(ck.scan.vmin)), strconv.Itoa(eolIndex(eol)),
			objsArg(ck.scan.objs, xgen), freesArg(frees), vh.Int(int64(size)), vh.Hex(tpre)}, vh.Hex(out))
		if oracle {
			r.Case("check", []string{vh.Hex(out)}, strconv.Itoa(stage))
		}
	} else if oracle {
		// the extracted checker decodes the inflated rows itself (exact widths, exact count, no rest)
		var ix, rows []string
		for i := 0; i+1 < len(sec.index); i += 2 {
			ix = append(ix, vh.Int(int64(sec.index[i]))+":"+vh.Int(int64(sec.index[i+1])))
		}
		r.Case("xstream", []string{vh.Hex(out), vh.Int(int64(sec.size)), strconv.Itoa(sec.w[0]), strconv.Itoa(sec.w[1]), strconv.Itoa(sec.w[2]),
			strings.Join(ix, ";"), vh.Hex(sec.data)}, vh.Bool(rowsOK))
		// the writer's width choice and row encoding against the model (offset = position of the xref stream)
		r.Case("w2width", []string{vh.Int(int64(sec.size)), vh.Int(int64(sec.off))}, strconv.Itoa(sec.w[1]))
		for _, e := range sec.ents {
			rows = append(rows, vh.Int(int64(e.typ))+":"+vh.Int(int64(e.a))+":"+vh.Int(int64(e.b)))
		}
		r.Case("xcontent", []string{vh.Int(int64(sec.size)), vh.Int(int64(sec.off)), strings.Join(rows, ";")}, vh.Hex(sec.data))
	}
}

// ---------------------------------------------------------------- synthetic contexts through the real writer

var bodyTemplates = []string{
	"null", "true", "42", "-17", "3.14", "/Name", "(a string)", "(par(en)s \\) endobj)", "<48656C6C6F>",
	"[1 2 3]", "[/A (b) <</C 1>>]", "<</Type/Catalog/Pages 2 0 R>>", "<</Kids[4 0 R 5 0 R]/Count 2>>",
	"<</A<</B<</C[1 [2 [3]]]>>>>>>", "(\r\nendobj\r\n)", "<</S(stream)/E(endstream)>>", "[]", "<<>>",
}

func randBody() string {
	switch r.Rand.Intn(6) {
	case 0:
		n := r.Rand.Intn(3000)
		b := make([]byte, n)
		for i := range b {
			b[i] = byte('a' + r.Rand.Intn(26))
		}
		return "(" + string(b) + ")"
	case 1:
		n := r.Rand.Intn(40)
		parts := make([]string, n)
		for i := range parts {
			parts[i] = strconv.Itoa(r.Rand.Intn(100000))
		}
		return "[" + strings.Join(parts, " ") + "]"
	default:
		return bodyTemplates[r.Rand.Intn(len(bodyTemplates))]
	}
}

// synthStream drives writeXRefStream through the verif hooks on a crafted context whose object numbers are
// far larger than any file offset: a high in-use object, high free entries (next-free links in column 2)
// and a high-numbered object stream (type 2 rows carry its number in column 2). The file stays tiny, so
// only max(/Size, offset) gives a sufficient /W[1]. Cheap even for /Size 2^24 (the API path is O(/Size)).
func synthStream(i int, H int, eolIdx int) {
	eol := eols[eolIdx]
	size := H + 1
	xt := &model.XRefTable{Table: map[int]*model.XRefTableEntry{}}
	xt.Size = &size
	xt.Root = types.NewIndirectRef(1, 0)
	conf := model.NewDefaultConfiguration()
	conf.Eol = eol
	conf.WriteXRefStream = true
	conf.WriteObjectStream = false
	wc := model.NewWriteContext(eol)
	var buf bytes.Buffer
	wc.Writer = bufio.NewWriter(&buf)
	ctx := &model.Context{Configuration: conf, XRefTable: xt, Write: wc}
	// roles of the high numbers H, H-1, H-2, H-3
	shape := i % 4 // 0: high in-use object; 1: two high free entries; 2: high object stream; 3: all of them
	low := 2 + r.Rand.Intn(6)
	mkFree := func(nr int, next int64, gen int) {
		xt.Table[nr] = &model.XRefTableEntry{Free: true, Offset: &next, Generation: &gen}
	}
	var panicked any
	func() {
		defer func() { panicked = recover() }()
		must(pdfcpu.VerifC18WriteHeader(wc, model.V17))
		plain := func(nr int) {
			g := 0
			xt.Table[nr] = &model.XRefTableEntry{Generation: &g, Object: types.Integer(1)}
			must(pdfcpu.VerifC18WriteObject(ctx, nr, 0, randBody()))
		}
		for nr := 1; nr <= low; nr++ {
			plain(nr)
		}
		headNext := int64(0)
		if shape == 1 || shape == 3 {
			// 0 -> H-1 -> H-2 -> 0 ; the xref stream recycles H-1, H-2 stays free and is linked from object 0
			mkFree(H-1, int64(H-2), 1)
			mkFree(H-2, 0, 2)
			headNext = int64(H - 1)
		}
		mkFree(0, headNext, 65535)
		if shape == 2 || shape == 3 {
			// object stream H-3 holding object low+1
			member := low + 1
			prolog := fmt.Sprintf("%d 0", member)
			content := prolog + " " + "<</C18 true>>"
			l := int64(len(content))
			d := types.NewDict()
			d.Insert("Type", types.Name("ObjStm"))
			d.Insert("N", types.Integer(1))
			d.Insert("First", types.Integer(len(prolog)+1))
			d.Insert("Length", types.Integer(l))
			sd := types.StreamDict{Dict: d, Raw: []byte(content), StreamLength: &l}
			g := 0
			on, ind := H-3, 0
			xt.Table[on] = &model.XRefTableEntry{Generation: &g, Object: sd}
			must(pdfcpu.VerifC18WriteStreamDictObject(ctx, on, 0, sd))
			g2 := 0
			xt.Table[member] = &model.XRefTableEntry{Generation: &g2, Object: types.Boolean(true), Compressed: true, ObjectStream: &on, ObjectStreamInd: &ind}
			wc.SetWriteOffset(member)
		}
		if shape == 0 || shape == 3 || shape == 2 {
			plain(H) // keeps /Size = highest + 1
		} else {
			// shape 1: the highest number is the free entry H-1 ... make H a dead free entry instead
			mkFree(H, 0, 65535)
		}
		must(pdfcpu.VerifC18WriteXRef(ctx))
		must(pdfcpu.VerifC18WriteTrailer(wc))
		must(wc.Flush())
	}()
	info := outInfo{Source: fmt.Sprintf("synthetic-xrefstream#%d(H=%d,shape=%d)", i, H, shape), Op: "synthetic-xrefstream", Eol: eolNames[eolIdx], XRef: "stream", Seed: r.Seed}
	if panicked != nil {
		r.OracleFail("panic:synthetic-xrefstream", info, fmt.Sprint(panicked))
		return
	}
	r.Count(fmt.Sprintf("synth-xrefstream:shape%d", shape))
	evaluate(info, buf.Bytes(), eol, true, nil, -1, nil)
}

func synthetic(i int) {
	eolIdx := r.Rand.Intn(3)
	eol := eols[eolIdx]
	wf := r.Rand.Intn(8) != 0
	n := 2 + r.Rand.Intn(60)
	if r.Rand.Intn(10) == 0 {
		n = 2 + r.Rand.Intn(400)
	}
	xt := &model.XRefTable{Table: map[int]*model.XRefTableEntry{}}
	xt.Size = &n
	xt.Root = types.NewIndirectRef(1, 0)
	if r.Rand.Intn(2) == 0 {
		xt.Info = types.NewIndirectRef(2, 0)
	}
	if r.Rand.Intn(2) == 0 {
		xt.ID = types.Array{types.HexLiteral("00112233445566778899AABBCCDDEEFF"), types.HexLiteral("FFEEDDCCBBAA99887766554433221100")}
	}
	conf := model.NewDefaultConfiguration()
	conf.Eol = eol
	conf.WriteXRefStream = false
	conf.WriteObjectStream = false
	wc := model.NewWriteContext(eol)
	var buf bytes.Buffer
	wc.Writer = bufio.NewWriter(&buf)
	ctx := &model.Context{Configuration: conf, XRefTable: xt, Write: wc}

	var written, free []int
	for nr := 1; nr < n; nr++ {
		k := r.Rand.Intn(10)
		last := nr == n-1
		switch {
		case k < 7 || (wf && last && k < 9):
			written = append(written, nr)
		case k < 9 || (wf && last):
			free = append(free, nr)
		default: // a gap: neither written nor free
			if r.Rand.Intn(2) == 0 {
				g := 0
				xt.Table[nr] = &model.XRefTableEntry{Generation: &g, Object: types.Integer(1)}
			}
		}
	}
	r.Rand.Shuffle(len(written), func(a, b int) { written[a], written[b] = written[b], written[a] })
	r.Rand.Shuffle(len(free), func(a, b int) { free[a], free[b] = free[b], free[a] })
	// free list: head -> free[0] -> free[1] ... -> 0 ; some dead entries outside the chain
	var chain, dead []int
	for _, f := range free {
		if r.Rand.Intn(6) == 0 {
			dead = append(dead, f)
		} else {
			chain = append(chain, f)
		}
	}
	mkFree := func(nr int, next int64, gen int) {
		xt.Table[nr] = &model.XRefTableEntry{Free: true, Offset: &next, Generation: &gen}
	}
	next := int64(0)
	if len(chain) > 0 {
		next = int64(chain[0])
	}
	mkFree(0, next, 65535)
	for i, f := range chain {
		nx := int64(0)
		if i+1 < len(chain) {
			nx = int64(chain[i+1])
		}
		mkFree(f, nx, 1+r.Rand.Intn(4))
	}
	for _, f := range dead {
		mkFree(f, 0, 65535)
	}
	if !wf && r.Rand.Intn(3) == 0 && len(chain) > 0 {
		// a broken chain: the writer copies what the table says
		bad := int64(n + 5)
		xt.Table[chain[len(chain)-1]].Offset = &bad
	}

	var panicked any
	func() {
		defer func() { panicked = recover() }()
		v := model.V17
		if r.Rand.Intn(4) == 0 {
			v = model.V20
		}
		must(pdfcpu.VerifC18WriteHeader(wc, v))
		for _, nr := range written {
			gen := 0
			if r.Rand.Intn(5) == 0 {
				gen = r.Rand.Intn(65535)
			}
			g := gen
			if r.Rand.Intn(4) == 0 {
				l := int64(r.Rand.Intn(2500))
				raw := make([]byte, l)
				r.Rand.Read(raw)
				d := types.NewDict()
				d.Insert("Length", types.Integer(l))
				if r.Rand.Intn(2) == 0 {
					d.Insert("Filter", types.Name("FlateDecode"))
				}
				sd := types.StreamDict{Dict: d, Raw: raw, StreamLength: &l}
				xt.Table[nr] = &model.XRefTableEntry{Generation: &g, Object: sd}
				must(pdfcpu.VerifC18WriteStreamDictObject(ctx, nr, gen, sd))
				r.Count("synth:stream-object")
			} else {
				xt.Table[nr] = &model.XRefTableEntry{Generation: &g, Object: types.Integer(1)}
				must(pdfcpu.VerifC18WriteObject(ctx, nr, gen, randBody()))
				r.Count("synth:plain-object")
			}
		}
		must(pdfcpu.VerifC18WriteXRefTable(ctx))
		must(pdfcpu.VerifC18WriteTrailer(wc))
		must(wc.Flush())
	}()
	info := outInfo{Source: fmt.Sprintf("synthetic#%d", i), Op: "synthetic", Eol: eolNames[eolIdx], XRef: "table", Seed: r.Seed}
	if panicked != nil {
		r.OracleFail("panic:synthetic", info, fmt.Sprint(panicked))
		return
	}
	var fs []freeEnt
	var nrs []int
	gens := map[int]int{}
	for nr, e := range xt.Table {
		if e.Free {
			nrs = append(nrs, nr)
		} else if e.Generation != nil {
			gens[nr] = *e.Generation
		}
	}
	sort.Ints(nrs)
	for _, nr := range nrs {
		e := xt.Table[nr]
		fs = append(fs, freeEnt{nr, int(*e.Offset), *e.Generation})
	}
	if wf {
		r.Count("synth:well-formed")
	} else {
		r.Count("synth:ill-formed-table")
	}
	evaluate(info, buf.Bytes(), eol, wf, fs, n, gens)
}

func must(err error) {
	if err != nil {
		panic(err)
	}
}

// ---------------------------------------------------------------- documents through the API

type op struct {
	name string
	enc  bool
	run  func(in []byte, w io.Writer, c *model.Configuration) error
}

func ops() []op {
	rd := func(b []byte) io.ReadSeeker { return bytes.NewReader(b) }
	return []op{
		{"optimize", false, func(in []byte, w io.Writer, c *model.Configuration) error { return api.Optimize(rd(in), w, c) }},
		{"rotate", false, func(in []byte, w io.Writer, c *model.Configuration) error { return api.Rotate(rd(in), w, 90, nil, c) }},
		{"watermark", false, func(in []byte, w io.Writer, c *model.Configuration) error {
			wm, err := api.TextWatermark("C18", "scale:0.5", true, false, types.POINTS)
			if err != nil {
				return err
			}
			return api.AddWatermarks(rd(in), w, nil, wm, c)
		}},
		{"collect", false, func(in []byte, w io.Writer, c *model.Configuration) error {
			return api.Collect(rd(in), w, []string{"1"}, c)
		}},
		{"trim", false, func(in []byte, w io.Writer, c *model.Configuration) error {
			return api.Trim(rd(in), w, []string{"1"}, c)
		}},
		{"nup", false, func(in []byte, w io.Writer, c *model.Configuration) error {
			nup, err := api.PDFNUpConfig(2, "", c)
			if err != nil {
				return err
			}
			return api.NUp(rd(in), w, nil, nil, nup, c)
		}},
		{"keywords", false, func(in []byte, w io.Writer, c *model.Configuration) error {
			return api.AddKeywords(rd(in), w, []string{"c18"}, c)
		}},
		{"insertpages", false, func(in []byte, w io.Writer, c *model.Configuration) error {
			return api.InsertPages(rd(in), w, []string{"1"}, true, nil, c)
		}},
		{"annotate", false, func(in []byte, w io.Writer, c *model.Configuration) error {
			return api.AddAnnotations(rd(in), w, nil, textAnn(), c)
		}},
		{"merge", false, func(in []byte, w io.Writer, c *model.Configuration) error {
			return api.MergeRaw([]io.ReadSeeker{rd(in), rd(in)}, w, false, c)
		}},
		{"encrypt-aes256", true, func(in []byte, w io.Writer, c *model.Configuration) error {
			c.UserPW, c.OwnerPW = "upw", "opw"
			c.EncryptUsingAES, c.EncryptKeyLength = true, 256
			return api.Encrypt(rd(in), w, c)
		}},
		{"encrypt-rc4-128", true, func(in []byte, w io.Writer, c *model.Configuration) error {
			c.UserPW, c.OwnerPW = "upw", "opw"
			c.EncryptUsingAES, c.EncryptKeyLength = false, 128
			return api.Encrypt(rd(in), w, c)
		}},
	}
}

func textAnn() model.AnnotationRenderer {
	return model.NewTextAnnotation(*types.NewRectangle(0, 0, 100, 100), 0, "C18 annotation", "C18ID", "", 0, &color.Gray,
		"Title", nil, nil, "", "", 0, 0, 2, false, "Comment")
}

type memRWS struct {
	b []byte
	p int64
}

func (m *memRWS) Read(p []byte) (int, error) {
	if m.p >= int64(len(m.b)) {
		return 0, io.EOF
	}
	n := copy(p, m.b[m.p:])
	m.p += int64(n)
	return n, nil
}
func (m *memRWS) Write(p []byte) (int, error) {
	end := m.p + int64(len(p))
	if end > int64(len(m.b)) {
		m.b = append(m.b, make([]byte, end-int64(len(m.b)))...)
	}
	copy(m.b[m.p:], p)
	m.p = end
	return len(p), nil
}
func (m *memRWS) Seek(off int64, whence int) (int64, error) {
	switch whence {
	case io.SeekStart:
		m.p = off
	case io.SeekCurrent:
		m.p += off
	case io.SeekEnd:
		m.p = int64(len(m.b)) + off
	}
	return m.p, nil
}

func conf(eol string, xrefStream, objStream bool) *model.Configuration {
	c := model.NewDefaultConfiguration()
	c.Eol = eol
	c.WriteXRefStream = xrefStream
	c.WriteObjectStream = objStream
	c.ValidationMode = model.ValidationRelaxed
	return c
}

func runOp(source string, in []byte, o op, eolIdx int, xrefStream, objStream bool) []byte {
	eol := eols[eolIdx]
	c := conf(eol, xrefStream, objStream)
	var out bytes.Buffer
	var err error
	var panicked any
	func() {
		defer func() { panicked = recover() }()
		err = o.run(in, &out, c)
	}()
	info := outInfo{Source: source, Op: o.name, Eol: eolNames[eolIdx], XRef: map[bool]string{true: "stream", false: "table"}[xrefStream],
		ObjStm: objStream, Enc: o.enc, Seed: r.Seed}
	if panicked != nil {
		r.OracleFail("panic:"+o.name, info, fmt.Sprint(panicked))
		return nil
	}
	if err != nil {
		r.Count("op-error:" + o.name)
		return nil
	}
	evaluate(info, out.Bytes(), eol, true, nil, -1, nil)
	return out.Bytes()
}

func increment(source string, base []byte, eolIdx int, xrefStream bool) {
	// base was written by pdfcpu with the same EOL, so the older revision can be checked strictly too
	eol := eols[eolIdx]
	c := conf(eol, xrefStream, false)
	m := &memRWS{b: append([]byte(nil), base...)}
	var err error
	var panicked any
	func() {
		defer func() { panicked = recover() }()
		err = api.AddAnnotationsAsIncrement(m, nil, textAnn(), c)
	}()
	info := outInfo{Source: source, Op: "annotate-increment", Eol: eolNames[eolIdx], XRef: map[bool]string{true: "stream", false: "table"}[xrefStream], Seed: r.Seed}
	if panicked != nil {
		r.OracleFail("panic:annotate-increment", info, fmt.Sprint(panicked))
		return
	}
	if err != nil {
		r.Count("op-error:annotate-increment")
		return
	}
	evaluate(info, m.b, eol, true, nil, -1, nil)
}

// ---------------------------------------------------------------- generated raw documents with free entries

// rawDoc builds a one-page PDF (LF, classic xref table written by hand) whose objects 5 (and 6) are free
// entries of generation g linked from object 0, optionally with a stale indirect reference to object 5.
//
//	stale: "" none | "annots" page /Annots 5 G R | "annots-array" page /Annots[5 G R] | "pagekey" page /C18X 5 G R
//	       | "catalog" catalog /C18X 5 G R | "info" info dict /Title 5 G R | "kids" second entry of /Kids
//
// refGen is the generation used in the stale reference.
func rawDoc(g int, twoFree bool, stale string, refGen int) []byte {
	ref := fmt.Sprintf("5 %d R", refGen)
	page := "<</Type/Page/Parent 2 0 R/MediaBox[0 0 200 200]/Contents 4 0 R"
	switch stale {
	case "annots":
		page += "/Annots " + ref
	case "annots-array":
		page += "/Annots[" + ref + "]"
	case "pagekey":
		page += "/C18X " + ref
	case "procset-array":
		page += "/Resources<</ProcSet[/PDF " + ref + "]>>"
	case "xobject":
		page += "/Resources<</XObject<</X0 " + ref + ">>>>"
	case "group":
		page += "/Group " + ref
	}
	page += ">>"
	cat := "<</Type/Catalog/Pages 2 0 R"
	if stale == "catalog" {
		cat += "/C18X " + ref
	}
	cat += ">>"
	info := "<</Producer(C18)"
	if stale == "info" {
		info += "/Title " + ref
	}
	info += ">>"
	content := "0 0 m 10 10 l S"
	bodies := map[int]string{
		1: cat,
		2: "<</Type/Pages/Count 1/Kids[3 0 R]>>",
		3: page,
		4: fmt.Sprintf("<</Length %d>>\nstream\n%s\nendstream", len(content), content),
		7: info,
	}
	var b bytes.Buffer
	b.WriteString("%PDF-1.7\n%\xe2\xe3\xcf\xd3\n")
	offs := map[int]int{}
	for _, nr := range []int{1, 2, 3, 4, 7} {
		offs[nr] = b.Len()
		fmt.Fprintf(&b, "%d 0 obj\n%s\nendobj\n", nr, bodies[nr])
	}
	x := b.Len()
	b.WriteString("xref\n0 8\n")
	next6 := 0
	if twoFree {
		next6 = 6
	}
	for nr := 0; nr < 8; nr++ {
		switch {
		case nr == 0:
			b.WriteString("0000000005 65535 f \n")
		case nr == 5:
			fmt.Fprintf(&b, "%010d %05d f \n", next6, g)
		case nr == 6 && twoFree:
			fmt.Fprintf(&b, "%010d %05d f \n", 0, g)
		case nr == 6:
			// not free, not used: a dead entry is the only legal way to have it outside the chain
			b.WriteString("0000000000 65535 f \n")
		default:
			fmt.Fprintf(&b, "%010d 00000 n \n", offs[nr])
		}
	}
	fmt.Fprintf(&b, "trailer\n<</Size 8/Root 1 0 R/Info 7 0 R>>\nstartxref\n%d\n%%%%EOF\n", x)
	return b.Bytes()
}

func generated() {
	type path struct {
		name string
		run  func(in []byte, w io.Writer, c *model.Configuration) error
	}
	rd := func(b []byte) io.ReadSeeker { return bytes.NewReader(b) }
	paths := []path{
		{"write-noopt", func(in []byte, w io.Writer, c *model.Configuration) error {
			ctx, err := api.ReadContext(rd(in), c)
			if err != nil {
				return err
			}
			if err := api.ValidateContext(ctx); err != nil {
				return err
			}
			return api.WriteContext(ctx, w)
		}},
		{"rotate-noopt", func(in []byte, w io.Writer, c *model.Configuration) error {
			c.Optimize, c.OptimizeBeforeWriting = false, false
			return api.Rotate(rd(in), w, 90, nil, c)
		}},
		{"optimize", func(in []byte, w io.Writer, c *model.Configuration) error { return api.Optimize(rd(in), w, c) }},
	}
	for _, stale := range []string{"", "annots", "annots-array", "procset-array", "xobject", "group", "pagekey", "catalog", "info"} {
		for g := 1; g <= 3; g++ {
			for _, twoFree := range []bool{false, true} {
				refGens := []int{g - 1}
				if stale != "" && g > 1 {
					refGens = append(refGens, 0) // a reference to an even older generation
				}
				if stale == "" {
					refGens = []int{0}
				}
				for _, rg := range refGens {
					in := rawDoc(g, twoFree, stale, rg)
					// the input itself must be acceptable to the strict oracle (sanity of the generator)
					if ck := checkFile(in, "\n", false); len(ck.findings) > 0 {
						panic("generator produced a bad input: " + ck.findings[0].detail)
					}
					variant := "gen-free"
					if stale != "" {
						variant = "gen-stale-" + stale
						if rg != g-1 {
							variant += "-oldgen"
						}
					}
					for _, p := range paths {
						for eolIdx := 0; eolIdx < 3; eolIdx++ {
							for k := 0; k < 3; k++ {
								eol := eols[eolIdx]
								c := conf(eol, k >= 1, k == 2)
								var out bytes.Buffer
								var err error
								var panicked any
								func() {
									defer func() { panicked = recover() }()
									err = p.run(in, &out, c)
								}()
								info := outInfo{Source: fmt.Sprintf("generated(g=%d,twoFree=%v,stale=%q,refGen=%d)", g, twoFree, stale, rg), Op: p.name,
									Eol: eolNames[eolIdx], XRef: map[bool]string{true: "stream", false: "table"}[k >= 1], ObjStm: k == 2, Seed: r.Seed,
									Variant: variant + ":" + p.name, InputHex: vh.Hex(in)}
								r.Count("gen:" + variant + ":" + p.name)
								pclass := "panic:" + variant + ":" + p.name
								if stale == "info" {
									pclass = "panic:info-ref-free-object" // crypto.go fileID: o.String() on the nil result of Dereference
								}
								if panicked != nil {
									r.OracleFail(pclass, info, fmt.Sprint(panicked))
									continue
								}
								if err != nil {
									if strings.Contains(err.Error(), "panic") || strings.Contains(err.Error(), "runtime error") {
										r.OracleFail(pclass, info, err.Error())
									} else {
										r.Count("gen-op-error:" + variant + ":" + p.name)
									}
									continue
								}
								evaluate(info, out.Bytes(), eol, true, nil, -1, nil)
							}
						}
					}
				}
			}
		}
	}
}

// rawSparse: a one-page PDF whose highest object number is H: either the page's content stream is object H
// (in use) or object H is a free entry linked from object 0. The xref table has two subsections.
func rawSparse(H int, free bool) []byte {
	content := "0 0 m 10 10 l S"
	cnr := H
	if free {
		cnr = 4
	}
	bodies := map[int]string{
		1:   "<</Type/Catalog/Pages 2 0 R>>",
		2:   "<</Type/Pages/Count 1/Kids[3 0 R]>>",
		3:   fmt.Sprintf("<</Type/Page/Parent 2 0 R/MediaBox[0 0 200 200]/Contents %d 0 R>>", cnr),
		cnr: fmt.Sprintf("<</Length %d>>\nstream\n%s\nendstream", len(content), content),
	}
	var b bytes.Buffer
	b.WriteString("%PDF-1.7\n%\xe2\xe3\xcf\xd3\n")
	offs := map[int]int{}
	for _, nr := range []int{1, 2, 3, cnr} {
		offs[nr] = b.Len()
		fmt.Fprintf(&b, "%d 0 obj\n%s\nendobj\n", nr, bodies[nr])
	}
	x := b.Len()
	if free {
		fmt.Fprintf(&b, "xref\n0 5\n%010d 65535 f \n", H)
		for nr := 1; nr <= 4; nr++ {
			fmt.Fprintf(&b, "%010d 00000 n \n", offs[nr])
		}
		fmt.Fprintf(&b, "%d 1\n%010d 00001 f \n", H, 0)
	} else {
		b.WriteString("xref\n0 4\n0000000000 65535 f \n")
		for nr := 1; nr <= 3; nr++ {
			fmt.Fprintf(&b, "%010d 00000 n \n", offs[nr])
		}
		fmt.Fprintf(&b, "%d 1\n%010d 00000 n \n", H, offs[H])
	}
	fmt.Fprintf(&b, "trailer\n<</Size %d/Root 1 0 R>>\nstartxref\n%d\n%%%%EOF\n", H+1, x)
	return b.Bytes()
}

func sparse() {
	rd := func(b []byte) io.ReadSeeker { return bytes.NewReader(b) }
	type path struct {
		name string
		run  func(in []byte, w io.Writer, c *model.Configuration) error
	}
	paths := []path{
		{"write-noopt", func(in []byte, w io.Writer, c *model.Configuration) error {
			ctx, err := api.ReadContext(rd(in), c)
			if err != nil {
				return err
			}
			if err := api.ValidateContext(ctx); err != nil {
				return err
			}
			return api.WriteContext(ctx, w)
		}},
		{"optimize", func(in []byte, w io.Writer, c *model.Configuration) error { return api.Optimize(rd(in), w, c) }},
	}
	// pdfcpu's write is O(/Size) with a large constant (about 1 s for /Size 70001, 85 s for 2^24 on the build
	// machine), so the API-level sparse documents are few; the 2^24 range is covered by synthStream.
	hs := []int{65535, 65536, 70000}
	for _, H := range hs {
		for _, free := range []bool{false, true} {
			in := rawSparse(H, free)
			if ck := checkFile(in, "\n", false); len(ck.findings) > 0 {
				panic("sparse generator produced a bad input: " + ck.findings[0].detail)
			}
			variant := "sparse-inuse"
			if free {
				variant = "sparse-free"
			}
			for pi, p := range paths {
				for eolIdx := 0; eolIdx < 3; eolIdx++ {
					for k := 0; k < 3; k++ {
						if !r.Thorough() {
							// quick: every xref-stream configuration once (alternating the path), one table output
							if k == 0 && (eolIdx != 0 || pi != 0) {
								continue
							}
							if k > 0 && (eolIdx+k+pi)%2 != 0 {
								continue
							}
						}
						eol := eols[eolIdx]
						c := conf(eol, k >= 1, k == 2)
						var out bytes.Buffer
						var err error
						var panicked any
						func() {
							defer func() { panicked = recover() }()
							err = p.run(in, &out, c)
						}()
						info := outInfo{Source: fmt.Sprintf("sparse(H=%d,free=%v)", H, free), Op: p.name, Eol: eolNames[eolIdx],
							XRef: map[bool]string{true: "stream", false: "table"}[k >= 1], ObjStm: k == 2, Seed: r.Seed,
							Variant: variant + ":" + p.name, InputHex: vh.Hex(in)}
						r.Count("gen:" + variant + ":" + p.name)
						if panicked != nil {
							r.OracleFail("panic:"+variant+":"+p.name, info, fmt.Sprint(panicked))
							continue
						}
						if err != nil {
							r.Count("gen-op-error:" + variant + ":" + p.name)
							continue
						}
						evaluate(info, out.Bytes(), eol, true, nil, -1, nil)
					}
				}
			}
		}
	}
}

// ---------------------------------------------------------------- damaged free lists

// rawDamaged: two pages (objects 5/7 and 8/9), catalog 1, page tree 2, info 13; free entries 3, 4, 6, 10, 11
// chained 0 -> 3 -> 4 -> 6 -> 10 -> 11 -> 0 unless `links` overrides an entry's next-free field; object 12 is
// missing (no entry), /Size 14. asStream: the cross-reference is an uncompressed xref stream (object 14).
func rawDamaged(links map[int]int, asStream bool) ([]byte, []string) {
	contents := []string{"BT (page one) Tj ET", "BT (page two) Tj ET"}
	stream := func(s string) string { return fmt.Sprintf("<</Length %d>>\nstream\n%s\nendstream", len(s), s) }
	bodies := map[int]string{
		1:  "<</Type/Catalog/Pages 2 0 R>>",
		2:  "<</Type/Pages/Count 2/Kids[5 0 R 8 0 R]>>",
		5:  "<</Type/Page/Parent 2 0 R/MediaBox[0 0 200 200]/Contents 7 0 R>>",
		7:  stream(contents[0]),
		8:  "<</Type/Page/Parent 2 0 R/MediaBox[0 0 200 200]/Contents 9 0 R>>",
		9:  stream(contents[1]),
		13: "<</Producer(C18)>>",
	}
	next := map[int]int{0: 3, 3: 4, 4: 6, 6: 10, 10: 11, 11: 0}
	for k, v := range links {
		next[k] = v
	}
	var b bytes.Buffer
	b.WriteString("%PDF-1.7\n%\xe2\xe3\xcf\xd3\n")
	offs := map[int]int{}
	for _, nr := range []int{1, 2, 5, 7, 8, 9, 13} {
		offs[nr] = b.Len()
		fmt.Fprintf(&b, "%d 0 obj\n%s\nendobj\n", nr, bodies[nr])
	}
	x := b.Len()
	if !asStream {
		b.WriteString("xref\n0 12\n")
		for nr := 0; nr < 12; nr++ {
			if nx, free := next[nr]; free {
				g := 1
				if nr == 0 {
					g = 65535
				}
				fmt.Fprintf(&b, "%010d %05d f \n", nx, g)
			} else {
				fmt.Fprintf(&b, "%010d 00000 n \n", offs[nr])
			}
		}
		fmt.Fprintf(&b, "13 1\n%010d 00000 n \n", offs[13])
		fmt.Fprintf(&b, "trailer\n<</Size 14/Root 1 0 R/Info 13 0 R>>\nstartxref\n%d\n%%%%EOF\n", x)
		return b.Bytes(), contents
	}
	var rows []byte
	row := func(t, a, g int) { rows = append(rows, byte(t), byte(a>>8), byte(a), byte(g>>8), byte(g)) }
	for nr := 0; nr < 12; nr++ {
		if nx, free := next[nr]; free {
			g := 1
			if nr == 0 {
				g = 65535
			}
			row(0, nx, g)
		} else {
			row(1, offs[nr], 0)
		}
	}
	row(1, offs[13], 0)
	row(1, x, 0)
	fmt.Fprintf(&b, "14 0 obj\n<</Type/XRef/Size 15/Root 1 0 R/Info 13 0 R/W[1 2 2]/Index[0 12 13 2]/Length %d>>\nstream\n", len(rows))
	b.Write(rows)
	fmt.Fprintf(&b, "\nendstream\nendobj\nstartxref\n%d\n%%%%EOF\n", x)
	return b.Bytes(), contents
}

// damaged link targets: an in-use object, the missing object 12, the entry itself, an earlier entry of the
// chain (cycle), beyond /Size
func damageTarget(entry, kind int) int {
	chain := []int{0, 3, 4, 6, 10, 11}
	switch kind {
	case 0:
		return []int{5, 7, 8, 9, 1, 2}[r.Rand.Intn(6)]
	case 1:
		return 12
	case 2:
		if entry == 0 {
			return 5
		}
		return entry
	case 3:
		for i, c := range chain {
			if c == entry && i >= 2 {
				return chain[1+r.Rand.Intn(i-1)]
			}
		}
		return 7
	default:
		return 40 + r.Rand.Intn(100)
	}
}

func damagedFreeLists() {
	rd := func(b []byte) io.ReadSeeker { return bytes.NewReader(b) }
	type path struct {
		name string
		run  func(in []byte, w io.Writer, c *model.Configuration) error
	}
	paths := []path{
		{"write-noopt", func(in []byte, w io.Writer, c *model.Configuration) error {
			ctx, err := api.ReadContext(rd(in), c)
			if err != nil {
				return err
			}
			if err := api.ValidateContext(ctx); err != nil {
				return err
			}
			return api.WriteContext(ctx, w)
		}},
		{"optimize", func(in []byte, w io.Writer, c *model.Configuration) error { return api.Optimize(rd(in), w, c) }},
	}
	entries := []int{0, 3, 4, 6, 10, 11}
	var docs []map[int]int
	docs = append(docs, map[int]int{})                     // intact
	docs = append(docs, map[int]int{3: 5, 4: 7, 6: 8})     // object 0 -> 3; 3, 4, 6 point at in-use objects
	docs = append(docs, map[int]int{0: 5, 3: 7, 4: 8})     // the head itself is damaged
	docs = append(docs, map[int]int{3: 3, 4: 3, 6: 40})    // self, cycle, beyond /Size
	docs = append(docs, map[int]int{3: 12, 6: 12, 10: 12}) // missing object
	for _, e := range entries {                            // every single fault of every kind (quick: a sample)
		for kind := 0; kind < 5; kind++ {
			if r.Thorough() || r.Rand.Intn(3) == 0 {
				docs = append(docs, map[int]int{e: damageTarget(e, kind)})
			}
		}
	}
	for faults := 2; faults <= 3; faults++ {
		for i := 0; i < r.Pick(10, 120); i++ {
			d := map[int]int{}
			for len(d) < faults {
				e := entries[r.Rand.Intn(len(entries))]
				d[e] = damageTarget(e, r.Rand.Intn(5))
			}
			docs = append(docs, d)
		}
	}
	for di, links := range docs {
		asStream := di%2 == 1
		in, expect := rawDamaged(links, asStream)
		variant := fmt.Sprintf("damaged-free-list-%d", len(links))
		for pi, p := range paths {
			for eolIdx := 0; eolIdx < 3; eolIdx++ {
				for k := 0; k < 3; k++ {
					// quick: the first five documents under every configuration, the others under a rotating third
					if !r.Thorough() && di >= 5 && (di+pi+eolIdx+k)%3 != 0 {
						continue
					}
					eol := eols[eolIdx]
					c := conf(eol, k >= 1, k == 2)
					var out bytes.Buffer
					var err error
					var panicked any
					func() {
						defer func() { panicked = recover() }()
						err = p.run(in, &out, c)
					}()
					info := outInfo{Source: fmt.Sprintf("damaged(links=%v,xrefstream=%v)", links, asStream), Op: p.name, Eol: eolNames[eolIdx],
						XRef: map[bool]string{true: "stream", false: "table"}[k >= 1], ObjStm: k == 2, Seed: r.Seed,
						Variant: variant + ":" + p.name, InputHex: vh.Hex(in), Expect: expect}
					r.Count("gen:" + variant + ":" + p.name)
					if panicked != nil {
						r.OracleFail("panic:"+variant+":"+p.name, info, fmt.Sprint(panicked))
						continue
					}
					if err != nil {
						r.Count("gen-op-error:" + variant + ":" + p.name)
						continue
					}
					evaluate(info, out.Bytes(), eol, true, nil, -1, nil)
				}
			}
		}
	}
}

// EnsureValidFreeList against ensure_valid_free_list, exhaustively over small maps: free entries 1..n, an in-use
// object n+1, a missing object n+2, a number beyond /Size; every combination of link values for the head and
// the n entries. Go's map order makes the repair nondeterministic: compared is the well-formedness of the
// result and the set of free entries (the model is proved well-formed for every order).
func freeListUnits() {
	unitFails := 0
	maxN := r.Pick(4, 5)
	run := func(n int, links []int, gens []int) {
		size := n + 3
		xt := &model.XRefTable{Table: map[int]*model.XRefTableEntry{}}
		xt.Size = &size
		hn := int64(links[0])
		hg := 65535
		xt.Table[0] = &model.XRefTableEntry{Free: true, Offset: &hn, Generation: &hg}
		var fs []freeEnt
		for k := 1; k <= n; k++ {
			nx := int64(links[k])
			g := gens[k]
			xt.Table[k] = &model.XRefTableEntry{Free: true, Offset: &nx, Generation: &g}
			fs = append(fs, freeEnt{k, links[k], gens[k]})
		}
		g0 := 0
		xt.Table[n+1] = &model.XRefTableEntry{Generation: &g0, Object: types.Integer(1)}
		res := "panic"
		func() {
			defer func() { recover() }()
			if err := xt.EnsureValidFreeList(); err != nil {
				res = "err"
				return
			}
			var xe []xent
			var nrs []string
			for k := 0; k <= n; k++ {
				e := xt.Table[k]
				if e == nil || !e.Free || e.Offset == nil {
					res = "broken"
					return
				}
				xe = append(xe, xent{nr: k, typ: 0, a: int(*e.Offset), b: *e.Generation})
				if k > 0 {
					nrs = append(nrs, strconv.Itoa(k))
				}
			}
			if e := xt.Table[n+1]; e.Free {
				res = "broken"
				return
			}
			if fl := freeListFindings(xe); len(fl) > 0 {
				res = "broken"
				if unitFails < 25 { // the oracle log is capped: leave room for the document-level findings
					r.OracleFail("free-list-broken:EnsureValidFreeList", map[string]any{"head_link": links[0], "free(nr:next:gen)": freesArg(fs), "inuse": n + 1, "missing": n + 2}, strings.Join(fl, "; "))
				}
				unitFails++
				return
			}
			r.OracleOK()
			res = "ok:" + strings.Join(nrs, ",")
		}()
		r.Case("evfl", []string{vh.Int(int64(links[0])), freesArg(fs)}, res)
	}
	for n := 0; n <= maxN; n++ {
		targets := []int{0}
		for k := 1; k <= n+2; k++ {
			targets = append(targets, k)
		}
		targets = append(targets, 99)
		links := make([]int, n+1)
		gens := make([]int, n+1)
		for k := range gens {
			gens[k] = 1
		}
		var rec func(i int)
		rec = func(i int) {
			if i > n {
				run(n, links, gens)
				if n <= 3 && n > 0 { // generation 65535 entries (dead when left dangling)
					for mask := 1; mask < 1<<n; mask++ {
						g2 := make([]int, n+1)
						for k := 1; k <= n; k++ {
							g2[k] = 1
							if mask&(1<<(k-1)) != 0 {
								g2[k] = 65535
							}
						}
						run(n, links, g2)
					}
				}
				return
			}
			for _, t := range targets {
				links[i] = t
				rec(i + 1)
			}
		}
		rec(0)
	}
}

// ---------------------------------------------------------------- incremental updates

// rawIncrBase: one page stored as "3 G obj" whose /Annots is the indirect array "5 G obj" holding one text
// annotation (6 0 obj); written with the given EOL so that the strict checker can read every revision.
func rawIncrBase(eol string, G int, asStream bool) []byte {
	content := "BT (incr) Tj ET"
	type ob struct {
		nr, gen int
		body    string
	}
	objs := []ob{
		{1, 0, "<</Type/Catalog/Pages 2 0 R>>"},
		{2, 0, fmt.Sprintf("<</Type/Pages/Count 1/Kids[3 %d R]>>", G)},
		{3, G, fmt.Sprintf("<</Type/Page/Parent 2 0 R/MediaBox[0 0 200 200]/Contents 4 0 R/Annots 5 %d R>>", G)},
		{4, 0, fmt.Sprintf("<</Length %d>>%sstream%s%s%sendstream", len(content), eol, streamEol(eol), content, eol)},
		{5, G, "[6 0 R]"},
		{6, 0, fmt.Sprintf("<</Type/Annot/Subtype/Text/Rect[0 0 20 20]/Contents(old)/NM(OLD1)/P 3 %d R>>", G)},
	}
	var b bytes.Buffer
	b.WriteString("%PDF-1.7" + eol + "%\xe2\xe3\xcf\xd3" + eol)
	offs := map[int]int{}
	gens := map[int]int{}
	for _, o := range objs {
		offs[o.nr], gens[o.nr] = b.Len(), o.gen
		fmt.Fprintf(&b, "%d %d obj%s%s%sendobj%s", o.nr, o.gen, eol, o.body, eol, eol)
	}
	x := b.Len()
	e2 := " " + eol
	if len(eol) == 2 {
		e2 = eol
	}
	if !asStream {
		b.WriteString("xref" + eol + "0 7" + eol + "0000000000 65535 f" + e2)
		for nr := 1; nr <= 6; nr++ {
			fmt.Fprintf(&b, "%010d %05d n%s", offs[nr], gens[nr], e2)
		}
		fmt.Fprintf(&b, "trailer%s<</Size 7/Root 1 0 R>>%sstartxref%s%d%s%%%%EOF%s", eol, eol, eol, x, eol, eol)
		return b.Bytes()
	}
	var rows []byte
	row := func(t, a, g int) { rows = append(rows, byte(t), byte(a>>8), byte(a), byte(g>>8), byte(g)) }
	row(0, 0, 65535)
	for nr := 1; nr <= 6; nr++ {
		row(1, offs[nr], gens[nr])
	}
	row(1, x, 0)
	fmt.Fprintf(&b, "7 0 obj%s<</Type/XRef/Size 8/Root 1 0 R/W[1 2 2]/Length %d>>%sstream%s", eol, len(rows), eol, streamEol(eol))
	b.Write(rows)
	fmt.Fprintf(&b, "%sendstream%sendobj%sstartxref%s%d%s%%%%EOF%s", eol, eol, eol, eol, x, eol, eol)
	return b.Bytes()
}

func incrementalDocs() {
	for _, G := range []int{0, 1, 2, 65534} {
		for eolIdx := 0; eolIdx < 3; eolIdx++ {
			for _, asStream := range []bool{false, true} {
				for _, xs := range []bool{false, true} {
					eol := eols[eolIdx]
					base := rawIncrBase(eol, G, asStream)
					if ck := checkFile(base, eol, false); len(ck.findings) > 0 {
						panic("incremental base generator produced a bad input: " + ck.findings[0].detail)
					}
					m := &memRWS{b: append([]byte(nil), base...)}
					step := func(name string, f func(c *model.Configuration) error) bool {
						c := conf(eol, xs, false)
						var err error
						var panicked any
						func() {
							defer func() { panicked = recover() }()
							err = f(c)
						}()
						variant := "incr-gen" + map[bool]string{true: "0", false: ">0"}[G == 0]
						info := outInfo{Source: fmt.Sprintf("incrbase(G=%d,xrefstream=%v)", G, asStream), Op: name, Eol: eolNames[eolIdx],
							XRef: map[bool]string{true: "stream", false: "table"}[xs], Seed: r.Seed, Variant: variant + ":" + name, InputHex: vh.Hex(base)}
						r.Count("gen:" + variant + ":" + name)
						if panicked != nil {
							r.OracleFail("panic:"+variant+":"+name, info, fmt.Sprint(panicked))
							return false
						}
						if err != nil {
							r.Count("gen-op-error:" + variant + ":" + name + ":" + strings.SplitN(err.Error(), ":", 2)[0])
							return false
						}
						evaluate(info, append([]byte(nil), m.b...), eol, true, nil, -1, nil)
						return true
					}
					if !step("add-annot-increment", func(c *model.Configuration) error {
						m.p = 0
						return api.AddAnnotationsAsIncrement(m, nil, textAnn(), c)
					}) {
						continue
					}
					step("remove-annot-increment", func(c *model.Configuration) error {
						m.p = 0
						return api.RemoveAnnotationsAsIncrement(m, nil, []string{"Text"}, nil, c)
					})
				}
			}
		}
	}
}

// synthIncrement: a crafted context is written in full (as in synthetic), then some of its objects, whose
// xref entries have generations 0..65534, are rewritten through pdfcpu.WriteIncrement. The whole file must
// pass the strict checker, and each rewritten object's header is compared with Model.obj_header (nr, gen).
func synthIncrement(i int) {
	eolIdx := i % 3
	eol := eols[eolIdx]
	n := 4 + r.Rand.Intn(20)
	xt := &model.XRefTable{Table: map[int]*model.XRefTableEntry{}}
	xt.Size = &n
	xt.Root = types.NewIndirectRef(1, 0)
	cf := model.NewDefaultConfiguration()
	cf.Eol = eol
	cf.WriteXRefStream = false
	cf.WriteObjectStream = false
	wc := model.NewWriteContext(eol)
	var buf bytes.Buffer
	wc.Writer = bufio.NewWriter(&buf)
	ctx := &model.Context{Configuration: cf, XRefTable: xt, Write: wc}
	hn, hg := int64(0), 65535
	xt.Table[0] = &model.XRefTableEntry{Free: true, Offset: &hn, Generation: &hg}
	gens := map[int]int{}
	var panicked any
	var rewritten []int
	func() {
		defer func() { panicked = recover() }()
		must(pdfcpu.VerifC18WriteHeader(wc, model.V17))
		for nr := 1; nr < n; nr++ {
			g := []int{0, 0, 1, 2, 7, 65534}[r.Rand.Intn(6)]
			gens[nr] = g
			gg := g
			var o types.Object = types.Integer(nr)
			switch r.Rand.Intn(4) {
			case 0:
				d := types.NewDict()
				d.Insert("K", types.Integer(nr))
				o = d
			case 1:
				o = types.Array{types.Integer(1), types.Name("N")}
			case 2:
				o = types.Name("Nm")
			}
			xt.Table[nr] = &model.XRefTableEntry{Generation: &gg, Object: o}
			must(pdfcpu.VerifC18WriteObject(ctx, nr, g, o.PDFString()))
		}
		must(pdfcpu.VerifC18WriteXRefTable(ctx))
		must(pdfcpu.VerifC18WriteTrailer(wc))
		must(wc.Flush())
		prev := wc.Offset
		// the increment
		wc.Increment = true
		wc.Offset = int64(buf.Len())
		wc.OffsetPrevXRef = &prev
		wc.Table = map[int]int64{}
		for nr := 1; nr < n; nr++ {
			if r.Rand.Intn(3) == 0 || nr == 1 {
				rewritten = append(rewritten, nr)
			}
		}
		wc.ObjNrs = rewritten
		must(pdfcpu.WriteIncrement(ctx))
		must(wc.Flush())
	}()
	info := outInfo{Source: fmt.Sprintf("synthetic-increment#%d", i), Op: "synthetic-increment", Eol: eolNames[eolIdx], XRef: "table", Seed: r.Seed,
		Variant: "synthetic-increment"}
	if panicked != nil {
		r.OracleFail("panic:synthetic-increment", info, fmt.Sprint(panicked))
		return
	}
	out := buf.Bytes()
	evaluate(info, out, eol, true, nil, -1, nil)
	// K on (objNr, generation) pairs: the header bytes at the offset the increment's xref records
	ck := checkFile(out, eol, false)
	if ck.sec == nil {
		return
	}
	for _, e := range ck.sec.ents {
		if e.typ != 1 || e.a < 0 || e.a >= len(out) {
			continue
		}
		end := bytes.Index(out[e.a:], []byte(" obj"+eol))
		hdr := ""
		if end >= 0 && end < 40 {
			hdr = vh.Hex(out[e.a : e.a+end+4+len(eol)])
		}
		r.Case("objhdr", []string{strconv.Itoa(eolIdx), vh.Int(int64(e.nr)), vh.Int(int64(gens[e.nr]))}, hdr)
	}
}

func documents() {
	repo := os.Getenv("VERIF_REPO")
	if repo == "" {
		repo = "/repo"
	}
	emptied := map[string]bool{}
	if b, err := os.ReadFile("/root/.vp/EMPTIED_FILES.txt"); err == nil {
		for _, l := range strings.Split(string(b), "\n") {
			emptied[strings.TrimSpace(l)] = true
		}
	}
	var files []string
	for _, dir := range []string{"pkg/testdata", "pkg/samples/basic"} {
		m, _ := filepath.Glob(filepath.Join(repo, dir, "*.pdf"))
		for _, f := range m {
			rel, _ := filepath.Rel(repo, f)
			if emptied[rel] {
				continue
			}
			st, err := os.Stat(f)
			if err != nil || st.Size() == 0 || st.Size() > int64(r.Pick(130_000, 1_500_000)) {
				continue
			}
			files = append(files, f)
		}
	}
	sort.Strings(files)
	all := ops()
	for _, f := range files {
		in, err := os.ReadFile(f)
		if err != nil {
			continue
		}
		src, _ := filepath.Rel(repo, f)
		// optimize under every writer configuration
		for eolIdx := 0; eolIdx < 3; eolIdx++ {
			for _, k := range [][2]bool{{false, false}, {true, false}, {true, true}} {
				if !r.Thorough() && len(in) > 40_000 && r.Rand.Intn(3) != 0 {
					continue
				}
				out := runOp(src, in, all[0], eolIdx, k[0], k[1])
				if out != nil && !k[1] && (r.Thorough() || r.Rand.Intn(3) == 0) {
					increment(src, out, eolIdx, k[0])
				}
			}
		}
		// every other operation under one (thorough: three) random configuration(s)
		for _, o := range all[1:] {
			for rep := 0; rep < r.Pick(1, 3); rep++ {
				k := r.Rand.Intn(3)
				runOp(src, in, o, r.Rand.Intn(3), k >= 1, k == 2)
			}
		}
	}
	r.CountN("documents", len(files))
}

// ---------------------------------------------------------------- small correspondence streams

func units() {
	vals := []int64{0, 1, 9, 10, 99, 100, 255, 256, 257, 65535, 65536, 1<<24 - 1, 1 << 24, 1<<32 - 1, 1 << 32, 9999999999, 10000000000,
		1 << 40, 1<<48 - 1, 1 << 56, 1<<63 - 1}
	for i := 0; i < r.Pick(200, 3000); i++ {
		vals = append(vals, r.Rand.Int63()>>uint(r.Rand.Intn(63)))
	}
	for _, v := range vals {
		r.Case("dec", []string{vh.Int(v)}, vh.Hex([]byte(strconv.FormatInt(v, 10))))
		for _, bc := range []int{0, 1, 2, 3, 4, 8} {
			if bc != 3 && r.Rand.Intn(3) != 0 {
				continue
			}
			r.Case("i64buf", []string{vh.Int(v), strconv.Itoa(bc)}, vh.Hex(pdfcpu.VerifC18Int64ToBuf(v, bc)))
		}
	}
	// FreeObject keeps the chain well-formed and matches free_object
	for i := 0; i < r.Pick(300, 3000); i++ {
		n := 3 + r.Rand.Intn(30)
		xt := &model.XRefTable{Table: map[int]*model.XRefTableEntry{}}
		xt.Size = &n
		var chain, used []int
		for nr := 1; nr < n; nr++ {
			if r.Rand.Intn(3) == 0 {
				chain = append(chain, nr)
			} else {
				used = append(used, nr)
			}
		}
		if len(used) == 0 {
			continue
		}
		r.Rand.Shuffle(len(chain), func(a, b int) { chain[a], chain[b] = chain[b], chain[a] })
		order := append([]int{0}, chain...)
		var before []freeEnt
		for k, nr := range order {
			nx := int64(0)
			if k+1 < len(order) {
				nx = int64(order[k+1])
			}
			g := 1 + r.Rand.Intn(3)
			if nr == 0 {
				g = 65535
			}
			gg := g
			xt.Table[nr] = &model.XRefTableEntry{Free: true, Offset: &nx, Generation: &gg}
			before = append(before, freeEnt{nr, int(nx), g})
		}
		victim := used[r.Rand.Intn(len(used))]
		vg := r.Rand.Intn(5)
		for _, nr := range used {
			g := 0
			if nr == victim {
				g = vg
			}
			gg := g
			xt.Table[nr] = &model.XRefTableEntry{Generation: &gg, Object: types.Integer(1)}
		}
		res := "panic"
		func() {
			defer func() { recover() }()
			if err := xt.FreeObject(victim); err != nil {
				res = "err"
				return
			}
			after := []freeEnt{}
			for _, nr := range append([]int{0, victim}, chain...) {
				e := xt.Table[nr]
				if !e.Free {
					res = "not-free"
					return
				}
				after = append(after, freeEnt{nr, int(*e.Offset), *e.Generation})
			}
			var xe []xent
			for _, f := range after {
				xe = append(xe, xent{nr: f.nr, typ: 0, a: f.next, b: f.gen})
			}
			fl := freeListFindings(xe)
			if len(fl) > 0 {
				r.OracleFail("free-list:FreeObject", map[string]any{"before": before, "free": victim}, strings.Join(fl, "; "))
			} else {
				r.OracleOK()
			}
			res = freesArg(after) + " " + vh.Bool(len(fl) == 0)
		}()
		r.Case("freeobj", []string{freesArg(before), vh.Int(int64(victim)), vh.Int(int64(vg))}, res)
	}
}

// UndeleteObject against undelete_object: unlinking from the chain and the generation decrement
func undeleteUnits() {
	for i := 0; i < r.Pick(400, 4000); i++ {
		n := 3 + r.Rand.Intn(30)
		xt := &model.XRefTable{Table: map[int]*model.XRefTableEntry{}}
		xt.Size = &n
		var chain []int
		for nr := 1; nr < n; nr++ {
			if r.Rand.Intn(3) == 0 {
				chain = append(chain, nr)
			} else {
				g := 0
				xt.Table[nr] = &model.XRefTableEntry{Generation: &g, Object: types.Integer(1)}
			}
		}
		r.Rand.Shuffle(len(chain), func(a, b int) { chain[a], chain[b] = chain[b], chain[a] })
		order := append([]int{0}, chain...)
		var before []freeEnt
		for k, nr := range order {
			nx := int64(0)
			if k+1 < len(order) {
				nx = int64(order[k+1])
			}
			g := r.Rand.Intn(4) // 0 exercises the "only if > 0" guard
			if nr == 0 {
				g = 65535
			}
			gg := g
			xt.Table[nr] = &model.XRefTableEntry{Free: true, Offset: &nx, Generation: &gg}
			before = append(before, freeEnt{nr, int(nx), g})
		}
		target := 1 + r.Rand.Intn(n-1)
		res := "panic"
		func() {
			defer func() { recover() }()
			if err := xt.UndeleteObject(target); err != nil {
				res = "err"
				return
			}
			var after []freeEnt
			for _, f := range before {
				e := xt.Table[f.nr]
				if e.Free {
					after = append(after, freeEnt{f.nr, int(*e.Offset), *e.Generation})
				}
			}
			e := xt.Table[target]
			onChain := false
			for _, c := range chain {
				if c == target {
					onChain = true
				}
			}
			if onChain && !e.Free {
				res = freesArg(after) + " gen=" + vh.Int(int64(*e.Generation))
				var xe []xent
				for _, f := range after {
					xe = append(xe, xent{nr: f.nr, typ: 0, a: f.next, b: f.gen})
				}
				if fl := freeListFindings(xe); len(fl) > 0 {
					r.OracleFail("free-list:UndeleteObject", map[string]any{"before": before, "undelete": target}, strings.Join(fl, "; "))
				} else {
					r.OracleOK()
				}
			} else {
				res = freesArg(after) + " notfound"
			}
		}()
		r.Case("undelete", []string{freesArg(before), vh.Int(int64(target))}, res)
	}
}

func main() {
	r = vh.Start("C18")
	defer r.Finish()
	api.DisableConfigDir()
	modelLimit = r.Pick(70_000, 200_000)
	t0 := time.Now()
	lap := func(what string) {
		fmt.Fprintf(os.Stderr, "c18: %-10s %6.1fs\n", what, time.Since(t0).Seconds())
		t0 = time.Now()
	}
	units()
	undeleteUnits()
	freeListUnits()
	lap("units")
	for i := 0; i < r.Pick(250, 3000); i++ {
		synthetic(i)
	}
	k := 0
	for _, H := range []int{65535, 65536, 70000, 1<<24 - 1, 1 << 24, 1<<24 + 1, 1 << 32} {
		for eolIdx := 0; eolIdx < 3; eolIdx++ {
			for shape := 0; shape < 4; shape++ {
				for rep := 0; rep < r.Pick(1, 5); rep++ {
					synthStream(k*4+shape, H, eolIdx)
					k++
				}
			}
		}
	}
	lap("synthetic")
	generated()
	lap("generated")
	sparse()
	lap("sparse")
	damagedFreeLists()
	lap("damaged")
	incrementalDocs()
	for i := 0; i < r.Pick(60, 600); i++ {
		synthIncrement(i)
	}
	lap("increments")
	documents()
	lap("documents")
}
