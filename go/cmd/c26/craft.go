// Crafting of AES-256 documents pdfcpu itself refuses to write: an EMPTY owner password (what
// `qpdf --encrypt upw "" 256` produces), for revision 5 and revision 6. Independent implementation of
// ISO 32000-2 Algorithms 2.B, 8, 9 (and the deprecated revision 5 variants with plain SHA-256): nothing
// here calls pdfcpu's password code.
package main

import (
	"bytes"
	"crypto/aes"
	"crypto/cipher"
	"crypto/sha256"
	"crypto/sha512"
	"encoding/hex"
	"fmt"
	"math/big"
	"strings"
)

// hash2B is Algorithm 2.B (revision 6 hash).
func hash2B(input, pw, u []byte) []byte {
	k0 := sha256.Sum256(input)
	k := k0[:]
	for round := 0; ; round++ {
		one := append(append(append([]byte{}, pw...), k...), u...)
		k1 := bytes.Repeat(one, 64)
		blk, err := aes.NewCipher(k[:16])
		if err != nil {
			panic(err)
		}
		e := make([]byte, len(k1))
		cipher.NewCBCEncrypter(blk, k[16:32]).CryptBlocks(e, k1)
		switch new(big.Int).Mod(new(big.Int).SetBytes(e[:16]), big.NewInt(3)).Int64() {
		case 0:
			h := sha256.Sum256(e)
			k = h[:]
		case 1:
			h := sha512.Sum384(e)
			k = h[:]
		default:
			h := sha512.Sum512(e)
			k = h[:]
		}
		// `done` rounds have been completed; at least 64, then until the last byte of E <= done - 32
		if done := round + 1; done >= 64 && int(e[len(e)-1]) <= done-32 {
			break
		}
	}
	return k[:32]
}

func pwHash(rev int, input, pw, u []byte) []byte {
	if rev == 5 {
		h := sha256.Sum256(input)
		return h[:]
	}
	return hash2B(input, pw, u)
}

func cbcEncryptNoPad(key, data []byte) []byte {
	blk, err := aes.NewCipher(key)
	if err != nil {
		panic(err)
	}
	out := make([]byte, len(data))
	cipher.NewCBCEncrypter(blk, make([]byte, 16)).CryptBlocks(out, data)
	return out
}

func cat(bs ...[]byte) []byte {
	var o []byte
	for _, b := range bs {
		o = append(o, b...)
	}
	return o
}

// userEntries computes /U (48 bytes) and /UE (32 bytes) for the user password (Algorithm 8).
func userEntries(rev int, upw, fileKey, vsalt, ksalt []byte) (u, ue []byte) {
	u = cat(pwHash(rev, cat(upw, vsalt), upw, nil), vsalt, ksalt)
	ue = cbcEncryptNoPad(pwHash(rev, cat(upw, ksalt), upw, nil), fileKey)
	return
}

// ownerEntries computes /O (48 bytes) and /OE (32 bytes) for the owner password (Algorithm 9); u is the 48 byte /U.
func ownerEntries(rev int, opw, u, fileKey, vsalt, ksalt []byte) (o, oe []byte) {
	o = cat(pwHash(rev, cat(opw, vsalt, u), opw, u), vsalt, ksalt)
	oe = cbcEncryptNoPad(pwHash(rev, cat(opw, ksalt, u), opw, u), fileKey)
	return
}

// replaceHex replaces the single occurrence of the hex string of old (either case) by the hex string of new.
func replaceHex(file, old, new []byte, what string) []byte {
	if len(old) != len(new) {
		panic("craft: length change " + what)
	}
	lo, up := []byte(hex.EncodeToString(old)), []byte(strings.ToUpper(hex.EncodeToString(old)))
	n := bytes.Count(file, lo) + bytes.Count(file, up)
	if n != 1 {
		panic(fmt.Sprintf("craft: %d occurrences of %s in the file", n, what))
	}
	if bytes.Count(file, lo) == 1 {
		return bytes.Replace(file, lo, []byte(hex.EncodeToString(new)), 1)
	}
	return bytes.Replace(file, up, []byte(strings.ToUpper(hex.EncodeToString(new))), 1)
}

// craftAES256 rewrites the password entries of an AES-256 revision 5 file written by pdfcpu (user password
// upw, entries e*, file key fileKey) for revision rev (5 or 6) and the owner password newOwner (may be empty).
// All replaced strings keep their length, so no offset in the file moves.
func craftAES256(file []byte, rev int, upw, newOwner string, eU, eUE, eO, eOE, fileKey []byte) []byte {
	u, ue := eU, eUE
	out := file
	if rev == 6 {
		u, ue = userEntries(6, []byte(upw), fileKey, eU[32:40], eU[40:48])
		out = replaceHex(out, eU, u, "/U")
		out = replaceHex(out, eUE, ue, "/UE")
		if bytes.Count(out, []byte("/R 5")) != 1 {
			panic("craft: /R 5 not found exactly once")
		}
		out = bytes.Replace(out, []byte("/R 5"), []byte("/R 6"), 1)
	}
	o, oe := ownerEntries(rev, []byte(newOwner), u, fileKey, eO[32:40], eO[40:48])
	out = replaceHex(out, eO, o, "/O")
	out = replaceHex(out, eOE, oe, "/OE")
	return out
}
