(* Lemmas about the M-FS model (FS.v): the temp-name supply, fault plans, what each primitive does
   with and without an injected fault, the staging invariant and the operation body. *)
From stdpp Require Import gmap.
From Coq Require Import NArith Lia.
From PV Require Import C01.FS.

(* ---------- the concrete temp-name supply ---------- *)
Lemma pmax_list_ge l p : In p l -> (p <= pmax_list l)%positive.
Proof.
  induction l as [|a l IH]; cbn; [tauto|]. intros [->|Hin]; [apply Pos.le_max_l|].
  specialize (IH Hin). etransitivity; [exact IH|apply Pos.le_max_r].
Qed.

Lemma fresh_path_spec (m : gmap positive file) : m !! fresh_path m = None.
Proof.
  destruct (m !! fresh_path m) as [f|] eqn:E; [|reflexivity]. exfalso.
  apply elem_of_map_to_list in E. apply elem_of_list_In in E.
  apply (in_map fst) in E. cbn in E. apply pmax_list_ge in E. unfold fresh_path in E. lia.
Qed.

Lemma fresh_path_above (m : gmap positive file) p : (fresh_path m <= p)%positive -> m !! p = None.
Proof.
  intros Hle. destruct (m !! p) as [f|] eqn:E; [|reflexivity]. exfalso.
  apply elem_of_map_to_list in E. apply elem_of_list_In in E.
  apply (in_map fst) in E. cbn in E. apply pmax_list_ge in E. unfold fresh_path in Hle. lia.
Qed.

(* ---------- fault plans ---------- *)
(* no fault from call k on *)
Definition quiet (pl : plan) (k : nat) : Prop := forall j, k <= j -> pl j = false.
(* at most one call of the whole run is faulted *)
Definition amo (pl : plan) : Prop := forall i j, pl i = true -> pl j = true -> i = j.

Lemma nofault_quiet k : quiet nofault k.
Proof. intros j _. reflexivity. Qed.
Lemma single_quiet_after n k : n < k -> quiet (single n) k.
Proof. intros Hlt j Hj. unfold single. apply Nat.eqb_neq. lia. Qed.
Lemma quiet_mono pl k k' : quiet pl k -> k <= k' -> quiet pl k'.
Proof. intros Hq Hle j Hj. apply Hq. lia. Qed.
Lemma amo_nofault : amo nofault.
Proof. intros i j Hi. discriminate Hi. Qed.
Lemma amo_single n : amo (single n).
Proof. intros i j Hi Hj. unfold single in *. apply Nat.eqb_eq in Hi, Hj. lia. Qed.
Lemma amo_quiet pl k : amo pl -> pl k = true -> quiet pl (S k).
Proof.
  intros Ha Hk j Hj. destruct (pl j) eqn:E; [|reflexivity].
  specialize (Ha k j Hk E). lia.
Qed.
Lemma amo_quiet_lt pl j k : amo pl -> pl j = true -> j < k -> quiet pl k.
Proof. intros Ha Hj Hlt. eapply quiet_mono; [eapply amo_quiet; eauto|lia]. Qed.
Lemma quiet_here pl k : quiet pl k -> pl k = false.
Proof. intros Hq. apply Hq. lia. Qed.

(* ---------- primitives: counter and filesystem frame ---------- *)
Section Facts.
Variable pl : plan.
Variable fresh : gmap positive file -> positive.
Hypothesis fresh_spec : forall m, m !! fresh m = None.

Lemma call_cnt {A} op p q w (f : gmap positive file -> gmap positive file * (A + errno)) :
  wcnt (world_of (call pl op p q w f)) = S (wcnt w).
Proof. unfold call. destruct (pl (wcnt w)); [reflexivity|]. destruct (f (wfs w)) as [m' [a|e]]; reflexivity. Qed.

Lemma call_fail_fs {A} op p q w (f : gmap positive file -> gmap positive file * (A + errno)) e w' :
  call pl op p q w f = Fail e w' -> wfs w' = wfs w /\ wcnt w' = S (wcnt w).
Proof.
  unfold call. destruct (pl (wcnt w)).
  - intros [= <- <-]. split; reflexivity.
  - destruct (f (wfs w)) as [m' [a|e']]; [discriminate|]. intros [= <- <-]. split; reflexivity.
Qed.

Lemma call_fault {A} op p q w (f : gmap positive file -> gmap positive file * (A + errno)) :
  pl (wcnt w) = true ->
  call pl op p q w f = Fail EIO (W (wfs w) (S (wcnt w)) (Ev op p q (Some EIO) :: wtr w)).
Proof. intros Hp. unfold call. rewrite Hp. reflexivity. Qed.

(* close never changes the filesystem *)
Lemma close_fs p w : wfs (world_of (close pl p w)) = wfs w /\ wcnt (world_of (close pl p w)) = S (wcnt w).
Proof. unfold close, call. destruct (pl (wcnt w)); cbn; split; reflexivity. Qed.
Lemma close_failed_fault p w : failed (close pl p w) = true -> pl (wcnt w) = true.
Proof. unfold close, call. destruct (pl (wcnt w)); cbn; [reflexivity|discriminate]. Qed.
Lemma close_quiet p w : pl (wcnt w) = false -> failed (close pl p w) = false.
Proof. intros Hp. unfold close, call. rewrite Hp. reflexivity. Qed.

Lemma open_rd_fs p w : wfs (world_of (open_rd pl p w)) = wfs w /\ wcnt (world_of (open_rd pl p w)) = S (wcnt w).
Proof.
  unfold open_rd, call. destruct (pl (wcnt w)); cbn; [split; reflexivity|].
  destruct (wfs w !! p); cbn; split; reflexivity.
Qed.

Lemma stat_fs p w : wfs (world_of (stat pl p w)) = wfs w /\ wcnt (world_of (stat pl p w)) = S (wcnt w).
Proof.
  unfold stat, call. destruct (pl (wcnt w)); cbn; [split; reflexivity|].
  destruct (wfs w !! p); cbn; split; reflexivity.
Qed.

Lemma close_all_spec ps : forall w,
  wfs (snd (close_all pl ps w)) = wfs w /\
  wcnt (snd (close_all pl ps w)) = wcnt w + length ps /\
  (fst (close_all pl ps w) = true -> exists j, wcnt w <= j < wcnt w + length ps /\ pl j = true) /\
  (quiet pl (wcnt w) -> fst (close_all pl ps w) = false).
Proof.
  induction ps as [|p ps IH]; intros w; cbn [close_all].
  - cbn. split; [reflexivity|]. split; [lia|]. split; [discriminate|reflexivity].
  - destruct (close_fs p w) as [Hfs Hcnt].
    specialize (IH (world_of (close pl p w))).
    destruct (close_all pl ps (world_of (close pl p w))) as [b w'] eqn:E. cbn [fst snd] in *.
    destruct IH as (I1 & I2 & I3 & I4). rewrite Hfs in I1. rewrite Hcnt in I2, I3, I4.
    repeat split.
    + exact I1.
    + cbn [length]. lia.
    + intros Hb. apply orb_true_iff in Hb. destruct Hb as [Hb|Hb].
      * exists (wcnt w). split; [cbn [length]; lia|]. apply close_failed_fault in Hb. exact Hb.
      * destruct (I3 Hb) as (j & Hj & Hpj). exists j. split; [cbn [length]; lia|exact Hpj].
    + intros Hq. rewrite close_quiet by (apply quiet_here; exact Hq). cbn.
      apply I4. eapply quiet_mono; [exact Hq|lia].
Qed.

(* ---------- the staging invariant ---------- *)
(* the filesystem is the original one plus the staging file t (any contents), t not an original name *)
Definition staged_inv (m0 : gmap positive file) (t : positive) (m : gmap positive file) : Prop :=
  m0 !! t = None /\ delete t m = m0 /\ is_Some (m !! t).

Lemma staged_inv_insert m0 t f : m0 !! t = None -> staged_inv m0 t (<[t := f]> m0).
Proof.
  intros Hn. split; [exact Hn|]. split.
  - rewrite delete_insert; [reflexivity|exact Hn].
  - rewrite lookup_insert. eauto.
Qed.
Lemma staged_inv_update m0 t m f : staged_inv m0 t m -> staged_inv m0 t (<[t := f]> m).
Proof.
  intros (Hn & Hd & Hs). split; [exact Hn|]. split.
  - rewrite delete_insert_delete. exact Hd.
  - rewrite lookup_insert. eauto.
Qed.

(* removing the staging file without a fault restores the original filesystem *)
Lemma remove_restores m0 t w :
  pl (wcnt w) = false -> staged_inv m0 t (wfs w) ->
  wfs (world_of (remove pl t w)) = m0 /\ remove_failed (remove pl t w) = false.
Proof.
  intros Hp (Hn & Hd & [f Hs]). unfold remove, call. rewrite Hp, Hs. cbn. split; [exact Hd|reflexivity].
Qed.
(* a remove never leaves the invariant's world in an unknown state: either restored or untouched *)
Lemma remove_cnt t w : wcnt (world_of (remove pl t w)) = S (wcnt w).
Proof. apply call_cnt. Qed.

(* chmod / write on the staging file keep the invariant, whatever the plan *)
Lemma chmod_inv m0 t md w :
  staged_inv m0 t (wfs w) ->
  staged_inv m0 t (wfs (world_of (chmod pl t md w))) /\ wcnt (world_of (chmod pl t md w)) = S (wcnt w) /\
  (failed (chmod pl t md w) = true -> pl (wcnt w) = true).
Proof.
  intros Hinv. unfold chmod, call. destruct (pl (wcnt w)) eqn:Hp; cbn.
  - split; [exact Hinv|]. split; reflexivity.
  - destruct Hinv as (Hn & Hd & [f Hs]). rewrite Hs. cbn.
    split; [|split; [reflexivity|discriminate]].
    split; [exact Hn|]. split.
    + rewrite delete_insert_delete. exact Hd.
    + rewrite lookup_insert. eauto.
Qed.

(* ---------- case lemmas: what one call can return, and what it leaves ---------- *)
Lemma open_rd_cases p w :
  (exists e w', open_rd pl p w = Fail e w' /\ wfs w' = wfs w /\ wcnt w' = S (wcnt w)) \/
  (exists w', open_rd pl p w = Done tt w' /\ wfs w' = wfs w /\ wcnt w' = S (wcnt w)).
Proof.
  unfold open_rd, call. destruct (pl (wcnt w)); [left; eexists _, _; repeat split|].
  destruct (wfs w !! p); [right; eexists; repeat split|left; eexists _, _; repeat split].
Qed.

Lemma stat_cases p w :
  (exists e w', stat pl p w = Fail e w' /\ wfs w' = wfs w /\ wcnt w' = S (wcnt w)) \/
  (exists fi w', stat pl p w = Done fi w' /\ wfs w' = wfs w /\ wcnt w' = S (wcnt w) /\
                 wfs w !! p = Some fi /\ pl (wcnt w) = false).
Proof.
  unfold stat, call. destruct (pl (wcnt w)); [left; eexists _, _; repeat split|].
  destruct (wfs w !! p) as [fi|]; [right; exists fi; eexists; repeat split|left; eexists _, _; repeat split].
Qed.

Lemma create_temp_cases md w :
  (exists e w', create_temp pl fresh md w = Fail e w' /\ wfs w' = wfs w /\ wcnt w' = S (wcnt w)) \/
  (exists w', create_temp pl fresh md w = Done (fresh (wfs w)) w' /\
              wfs w' = <[fresh (wfs w) := File [] md]> (wfs w) /\ wcnt w' = S (wcnt w) /\
              staged_inv (wfs w) (fresh (wfs w)) (wfs w')).
Proof.
  unfold create_temp, call. destruct (pl (wcnt w)); [left; eexists _, _; repeat split|].
  right. eexists. split; [reflexivity|]. cbn [wfs wcnt]. split; [reflexivity|]. split; [reflexivity|].
  apply staged_inv_insert. apply fresh_spec.
Qed.

Lemma open_excl_cases o w :
  (exists e w', open_excl pl o w = Fail e w' /\ wfs w' = wfs w /\ wcnt w' = S (wcnt w)) \/
  (exists w', open_excl pl o w = Done tt w' /\ wcnt w' = S (wcnt w) /\
              staged_inv (wfs w) o (wfs w')).
Proof.
  unfold open_excl, call. destruct (pl (wcnt w)); [left; eexists _, _; repeat split|].
  destruct (wfs w !! o) as [f|] eqn:Ho; [left; eexists _, _; repeat split|].
  right. eexists. split; [reflexivity|]. cbn [wfs wcnt]. split; [reflexivity|].
  apply staged_inv_insert. exact Ho.
Qed.

(* on the staging file chmod can only fail through an injected fault *)
Lemma chmod_cases m0 t md w :
  staged_inv m0 t (wfs w) ->
  (exists w', chmod pl t md w = Fail EIO w' /\ wfs w' = wfs w /\ wcnt w' = S (wcnt w) /\ pl (wcnt w) = true) \/
  (exists w', chmod pl t md w = Done tt w' /\ staged_inv m0 t (wfs w') /\ wcnt w' = S (wcnt w)).
Proof.
  intros Hinv. unfold chmod, call. destruct (pl (wcnt w)) eqn:Hp.
  - left. eexists. repeat split.
  - right. pose proof Hinv as (Hn & Hd & [f Hs]). rewrite Hs. eexists. split; [reflexivity|].
    cbn [wfs wcnt]. split; [|reflexivity]. apply staged_inv_update. exact Hinv.
Qed.

(* renaming the staging file away can only fail through an injected fault *)
Lemma rename_cases m0 t d w :
  staged_inv m0 t (wfs w) ->
  (exists w', rename pl t d w = Fail EIO w' /\ wfs w' = wfs w /\ wcnt w' = S (wcnt w) /\ pl (wcnt w) = true) \/
  (exists f w', rename pl t d w = Done tt w' /\ wfs w !! t = Some f /\
                wfs w' = <[d := f]> (delete t (wfs w)) /\ wcnt w' = S (wcnt w)).
Proof.
  intros Hinv. unfold rename, call. destruct (pl (wcnt w)) eqn:Hp.
  - left. eexists. repeat split.
  - right. pose proof Hinv as (Hn & Hd & [f Hs]). rewrite Hs. exists f. eexists. repeat split.
Qed.

(* close the output, then remove the staging file, with no fault left: the original filesystem *)
Lemma remove_quiet_restores m0 t w :
  quiet pl (wcnt w) -> staged_inv m0 t (wfs w) -> wfs (world_of (remove pl t w)) = m0.
Proof. intros Hq Hinv. apply (remove_restores m0 t w); [apply quiet_here; exact Hq|exact Hinv]. Qed.

(* ---------- the operation body ---------- *)
Lemma body_spec m0 t chunks fin : forall w,
  staged_inv m0 t (wfs w) ->
  staged_inv m0 t (wfs (snd (body pl t chunks fin w))) /\
  wcnt w <= wcnt (snd (body pl t chunks fin w)) /\
  ( (fst (body pl t chunks fin w) = fin)
    \/ (fst (body pl t chunks fin w) = CErr /\
        exists j, wcnt w <= j < wcnt (snd (body pl t chunks fin w)) /\ pl j = true) ).
Proof.
  induction chunks as [|c cs IH]; intros w Hinv; cbn [body].
  - cbn. split; [exact Hinv|]. split; [lia|left; reflexivity].
  - unfold write, call. destruct (pl (wcnt w)) eqn:Hp.
    + cbn. split; [exact Hinv|]. split; [lia|]. right. split; [reflexivity|].
      exists (wcnt w). split; [lia|exact Hp].
    + pose proof Hinv as (Hn & Hd & [f Hs]). rewrite Hs. cbn [fst snd].
      set (w1 := W (<[t:=File (fdata f ++ c) (fmode f)]> (wfs w)) (S (wcnt w)) (Ev OpWrite t t None :: wtr w)).
      assert (Hinv1 : staged_inv m0 t (wfs w1)) by (apply staged_inv_update; exact Hinv).
      specialize (IH w1 Hinv1). destruct IH as (I1 & I2 & I3). cbn [wcnt w1] in I2, I3.
      split; [exact I1|]. split; [unfold w1 in *; cbn [wcnt] in *; lia|].
      destruct I3 as [I3|(I3 & j & Hj & Hpj)]; [left; exact I3|].
      right. split; [exact I3|]. exists j. split; [unfold w1 in *; cbn [wcnt] in *; lia|exact Hpj].
Qed.

(* what the body wrote when nothing failed: every chunk appended *)
Lemma body_quiet_data t chunks fin : forall w f,
  quiet pl (wcnt w) -> wfs w !! t = Some f ->
  fst (body pl t chunks fin w) = fin /\
  wfs (snd (body pl t chunks fin w)) = <[t := File (fdata f ++ concat chunks) (fmode f)]> (wfs w) /\
  wcnt (snd (body pl t chunks fin w)) = wcnt w + length chunks.
Proof.
  induction chunks as [|c cs IH]; intros w f Hq Hs; cbn [body].
  - cbn. rewrite app_nil_r. split; [reflexivity|]. split; [|lia].
    destruct f as [d md]. cbn. rewrite insert_id; [reflexivity|exact Hs].
  - unfold write, call. rewrite (quiet_here _ _ Hq), Hs. cbn [fst snd].
    set (w1 := W _ _ _).
    specialize (IH w1 (File (fdata f ++ c) (fmode f))).
    destruct IH as (I1 & I2 & I3).
    + unfold w1; cbn [wcnt]. eapply quiet_mono; [exact Hq|lia].
    + unfold w1; cbn [wfs]. apply lookup_insert.
    + split; [exact I1|]. split.
      * rewrite I2. unfold w1; cbn [wfs fdata fmode]. rewrite insert_insert, <- app_assoc. reflexivity.
      * rewrite I3. unfold w1; cbn [wcnt length]. lia.
Qed.
End Facts.
