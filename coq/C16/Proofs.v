(* C16 — lemmas: decode limits are exact, bounded decoding yields prefixes. *)
From Coq Require Import ZArith NArith List Bool Lia ZifyBool ZifyNat ZifyN.
From PV Require Import C16.Model.
Import ListNotations.
Open Scope Z_scope.

(* Go slices are shorter than 2^63 *)
Definition fits (l : list N) : Prop := len l < max_int64.
Definition prefix (a b : list N) : Prop := exists r, b = a ++ r.
Definition too_short (e : derr) : Prop := e = EEOF \/ e = EUnexpEOF.

Lemma len_nonneg : forall l, 0 <= len l.
Proof. intros l. unfold len. lia. Qed.

Lemma len_app : forall a b, len (a ++ b) = len a + len b.
Proof. intros a b. unfold len. rewrite app_length. lia. Qed.

Lemma len_cons : forall x l, len (x :: l) = 1 + len l.
Proof. intros x l. unfold len. simpl length. lia. Qed.

Lemma len_nil : len [] = 0.
Proof. reflexivity. Qed.

Lemma take_all : forall n l, len l <= n -> take n l = l.
Proof. intros n l H. unfold take, len in *. apply firstn_all2. lia. Qed.

Lemma take_0 : forall l, take 0 l = [].
Proof. intros l. reflexivity. Qed.

Lemma take_cons : forall n x l, 1 <= n -> take n (x :: l) = x :: take (n - 1) l.
Proof.
  intros n x l H. unfold take.
  replace (Z.to_nat n) with (S (Z.to_nat (n - 1))) by lia. reflexivity.
Qed.

Lemma take_app : forall n a b, len a <= n -> take n (a ++ b) = a ++ take (n - len a) b.
Proof.
  intros n a b H. unfold take, len in *.
  rewrite firstn_app. rewrite firstn_all2 by lia. f_equal. f_equal. lia.
Qed.

Lemma take_app_short : forall n a b, 0 <= n <= len a -> take n (a ++ b) = take n a.
Proof.
  intros n a b H. unfold take, len in *.
  rewrite firstn_app. replace (Z.to_nat n - length a)%nat with 0%nat by lia.
  simpl. apply app_nil_r.
Qed.

Lemma len_take : forall n l, 0 <= n -> len (take n l) = Z.min n (len l).
Proof. intros n l H. unfold take, len. rewrite firstn_length. lia. Qed.

Lemma take_prefix : forall n l, prefix (take n l) l.
Proof. intros n l. exists (skipn (Z.to_nat n) l). unfold take. symmetry. apply firstn_skipn. Qed.

Lemma prefix_refl : forall l, prefix l l.
Proof. intros l. exists []. symmetry. apply app_nil_r. Qed.

Lemma prefix_len : forall a b, prefix a b -> len a <= len b.
Proof. intros a b [r ->]. rewrite len_app. pose proof (len_nonneg r). lia. Qed.

Lemma prefix_take : forall a b n, prefix a b -> 0 <= n <= len a -> take n a = take n b.
Proof. intros a b n [r ->] H. symmetry. apply take_app_short. exact H. Qed.

Lemma prefix_app : forall p a b, prefix a b -> prefix (p ++ a) (p ++ b).
Proof. intros p a b [r ->]. exists r. apply app_assoc. Qed.

(* ------------------------------------------------------------------ decodeLimit *)

Lemma decode_limit_bounded : forall n mdb, 0 <= n -> decode_limit n mdb = n.
Proof. intros n mdb H. unfold decode_limit. destruct (0 <=? n) eqn:E; lia. Qed.

Lemma decode_limit_unlimited : decode_limit (-1) (-1) = -1.
Proof. reflexivity. Qed.

(* ------------------------------------------------------------------ copyDecoded *)

Lemma copy_unlimited : forall data st, copy_decoded (data, st) (-1) (-1) = (data, st_err st).
Proof. reflexivity. Qed.

Lemma copy_limit_exact : forall data st mdb,
  let L := decode_limit (-1) mdb in
  0 <= L -> fits data ->
  copy_decoded (data, st) (-1) mdb = if len data <=? L then (data, st_err st) else ([], Some ELimit).
Proof.
  intros data st mdb L HL Hfit. unfold fits in Hfit. unfold copy_decoded. fold L.
  change (0 <=? -1) with false. cbv iota.
  destruct (L <? 0) eqn:E1; [lia|].
  destruct (L =? max_int64) eqn:E2; simpl orb; cbv iota.
  - destruct (len data <=? L) eqn:E3; [reflexivity|lia].
  - destruct (L + 1 <=? len data) eqn:E3; destruct (len data <=? L) eqn:E4; try lia; reflexivity.
Qed.

Lemma copy_bounded : forall data st n mdb, 0 <= n ->
  copy_decoded (data, st) n mdb =
  if n <=? len data then (take n data, None)
  else (data, Some (match st with REof => EEOF | RUnexp => EUnexpEOF | RErr => EOther end)).
Proof.
  intros data st n mdb Hn. unfold copy_decoded.
  destruct (0 <=? n) eqn:E; [reflexivity|lia].
Qed.

(* never more than L bytes, whatever the stream *)
Lemma copy_never_more : forall s mdb b,
  let L := decode_limit (-1) mdb in
  0 <= L -> L <> max_int64 ->
  copy_decoded s (-1) mdb = (b, None) -> len b <= L.
Proof.
  intros [data st] mdb b L HL Hne H. unfold copy_decoded in H. fold L in H.
  change (0 <=? -1) with false in H. cbv iota in H.
  destruct (L <? 0) eqn:E1; [lia|].
  destruct (L =? max_int64) eqn:E2; [lia|]. simpl orb in H. cbv iota in H.
  destruct (L + 1 <=? len data) eqn:E3.
  - discriminate H.
  - inversion H; subst. lia.
Qed.

(* ------------------------------------------------------------------ ASCIIHex *)

Lemma hex_decode_length : forall n p d, (length p <= n)%nat -> hex_decode p = Some d -> length d = Nat.div2 (length p).
Proof.
  induction n as [|n IH]; intros p d Hn H.
  - destruct p; [|simpl in Hn; lia]. simpl in H. inversion H. reflexivity.
  - destruct p as [|a [|b r]].
    + simpl in H. inversion H. reflexivity.
    + simpl in H. inversion H. reflexivity.
    + simpl in H. destruct (hexval a); [|discriminate]. destruct (hexval b); [|discriminate].
      destruct (hex_decode r) as [d'|] eqn:E; [|discriminate]. inversion H; subst.
      simpl. f_equal. apply IH; [simpl in Hn; lia|exact E].
Qed.

Lemma hex_decode_firstn : forall n p d, hex_decode p = Some d ->
  hex_decode (firstn (2 * n) p) = Some (firstn n d).
Proof.
  induction n as [|n IH]; intros p d H.
  - reflexivity.
  - replace (2 * S n)%nat with (S (S (2 * n))) by lia.
    destruct p as [|a [|b r]].
    + simpl in H. inversion H. reflexivity.
    + simpl in H. inversion H. reflexivity.
    + simpl in H. destruct (hexval a) eqn:Ea; [|discriminate]. destruct (hexval b) eqn:Eb; [|discriminate].
      destruct (hex_decode r) as [d'|] eqn:E; [|discriminate]. inversion H; subst.
      cbn [firstn]. cbn [hex_decode]. rewrite Ea, Eb. rewrite (IH r d' E). reflexivity.
Qed.

Definition ahx_p (bb : list N) : list N :=
  let p0 := ahx_strip bb in if Z.odd (len p0) then p0 ++ [48%N] else p0.

Lemma ahx_unfold : forall bb maxLen mdb,
  ahx_decode_length bb maxLen mdb =
  let p := ahx_p bb in
  let decodedLen := len p / 2 in
  if maxLen <? 0 then
    let limit := decode_limit (-1) mdb in
    if (0 <=? limit) && (limit <? decodedLen) then DErr ELimit else ahx_finish p decodedLen
  else if decodedLen <? maxLen then DErr EUnexpEOF
  else ahx_finish p maxLen.
Proof. reflexivity. Qed.

Lemma half_len : forall p, len p / 2 = Z.of_nat (Nat.div2 (length p)).
Proof.
  intros p. unfold len. rewrite Nat.div2_div. rewrite Nat2Z.inj_div. reflexivity.
Qed.

Lemma ahx_finish_take : forall p d n, hex_decode p = Some d -> 0 <= n ->
  ahx_finish p n = DOk (take n d).
Proof.
  intros p d n H Hn. unfold ahx_finish, take.
  replace (Z.to_nat (2 * n)) with (2 * Z.to_nat n)%nat by lia.
  rewrite (hex_decode_firstn _ _ _ H). reflexivity.
Qed.

(* the unlimited decoding determines the complete hex decoding of the stripped input *)
Lemma ahx_full_inv : forall bb full, ahx_decode_length bb (-1) (-1) = DOk full ->
  hex_decode (ahx_p bb) = Some full /\ len full = len (ahx_p bb) / 2.
Proof.
  intros bb full H. rewrite ahx_unfold in H. cbv zeta in H.
  change (-1 <? 0) with true in H. cbv iota in H.
  rewrite decode_limit_unlimited in H. change (0 <=? -1) with false in H. simpl andb in H. cbv iota in H.
  unfold ahx_finish in H.
  destruct (hex_decode (take (2 * (len (ahx_p bb) / 2)) (ahx_p bb))) as [d|] eqn:E; [|discriminate].
  inversion H; subst d. clear H.
  destruct (hex_decode (ahx_p bb)) as [d0|] eqn:E0.
  - pose proof (hex_decode_length _ _ _ (le_n _) E0) as Hl.
    unfold take in E. rewrite half_len in E.
    replace (Z.to_nat (2 * Z.of_nat (Nat.div2 (length (ahx_p bb))))) with (2 * Nat.div2 (length (ahx_p bb)))%nat in E by lia.
    rewrite (hex_decode_firstn _ _ _ E0) in E. rewrite <- Hl in E. rewrite firstn_all in E.
    inversion E; subst. split; [reflexivity|]. rewrite half_len. unfold len. lia.
  - exfalso.
    (* hex_decode of the whole fails but of the even prefix succeeds: the prefix is everything but at most one byte *)
    revert E E0. generalize (ahx_p bb). intros p.
    assert (G : forall n p, (length p <= n)%nat -> hex_decode p = None ->
                hex_decode (take (2 * (len p / 2)) p) = None).
    { clear. induction n as [|n IH]; intros p Hn H.
      - destruct p; [discriminate H|simpl in Hn; lia].
      - destruct p as [|a [|b r]]; try discriminate H.
        assert (Hh : take (2 * (len (a :: b :: r) / 2)) (a :: b :: r) = a :: b :: take (2 * (len r / 2)) r).
        { unfold take. rewrite !half_len. simpl length. cbn [Nat.div2].
          replace (Z.to_nat (2 * Z.of_nat (S (Nat.div2 (length r))))) with (S (S (Z.to_nat (2 * Z.of_nat (Nat.div2 (length r)))))) by lia.
          reflexivity. }
        rewrite Hh. simpl in H. cbn [hex_decode].
        destruct (hexval a); [|reflexivity]. destruct (hexval b); [|reflexivity].
        destruct (hex_decode r) eqn:Er; [discriminate H|].
        rewrite (IH r); [reflexivity|simpl in Hn; lia|exact Er]. }
    intros E E0. rewrite (G _ p (le_n _) E0) in E. discriminate E.
Qed.

Lemma ahx_limit_exact : forall bb full mdb,
  ahx_decode_length bb (-1) (-1) = DOk full ->
  let L := decode_limit (-1) mdb in
  0 <= L ->
  ahx_decode_length bb (-1) mdb = if len full <=? L then DOk full else DErr ELimit.
Proof.
  intros bb full mdb H L HL. destruct (ahx_full_inv _ _ H) as [Hd Hl].
  rewrite ahx_unfold. cbv zeta. change (-1 <? 0) with true. cbv iota. fold L. rewrite <- Hl.
  destruct (0 <=? L) eqn:E0; [|lia]. simpl andb.
  destruct (L <? len full) eqn:E1; destruct (len full <=? L) eqn:E2; try lia; try reflexivity.
  rewrite (ahx_finish_take _ _ _ Hd (len_nonneg _)). rewrite take_all by lia. reflexivity.
Qed.

Lemma ahx_unlimited : forall bb full mdb,
  ahx_decode_length bb (-1) (-1) = DOk full ->
  decode_limit (-1) mdb < 0 ->
  ahx_decode_length bb (-1) mdb = DOk full.
Proof.
  intros bb full mdb H HL. destruct (ahx_full_inv _ _ H) as [Hd Hl].
  rewrite ahx_unfold. cbv zeta. change (-1 <? 0) with true. cbv iota. rewrite <- Hl.
  destruct (0 <=? decode_limit (-1) mdb) eqn:E0; [lia|]. simpl andb. cbv iota.
  rewrite (ahx_finish_take _ _ _ Hd (len_nonneg _)). rewrite take_all by lia. reflexivity.
Qed.

Lemma ahx_bounded : forall bb full n mdb,
  ahx_decode_length bb (-1) (-1) = DOk full -> 0 <= n ->
  ahx_decode_length bb n mdb = if n <=? len full then DOk (take n full) else DErr EUnexpEOF.
Proof.
  intros bb full n mdb H Hn. destruct (ahx_full_inv _ _ H) as [Hd Hl].
  rewrite ahx_unfold. cbv zeta. destruct (n <? 0) eqn:E; [lia|]. rewrite <- Hl.
  destruct (len full <? n) eqn:E1; destruct (n <=? len full) eqn:E2; try lia; try reflexivity.
  apply ahx_finish_take; assumption.
Qed.

(* ------------------------------------------------------------------ RunLength *)

Lemma len_repeat : forall x c, len (repeat x c) = Z.of_nat c.
Proof. intros x c. unfold len. rewrite repeat_length. reflexivity. Qed.

Lemma firstn_repeat_le : forall (x : N) c k, (k <= c)%nat -> firstn k (repeat x c) = repeat x k.
Proof.
  intros x c. induction c as [|c IH]; intros k Hk.
  - replace k with 0%nat by lia. reflexivity.
  - destruct k as [|k]; [reflexivity|]. simpl. f_equal. apply IH. lia.
Qed.

Lemma rl_rep_unlimited : forall c x w, rl_rep c x w (-1) (-1) = (repeat x c, GoOn).
Proof.
  induction c as [|c IH]; intros x w.
  - reflexivity.
  - cbn [rl_rep]. change (0 <=? -1) with false. simpl andb. cbv iota. rewrite IH. reflexivity.
Qed.

Lemma rl_rep_limited : forall c x w limit maxLen, 0 <= limit -> w <= limit ->
  rl_rep c x w limit maxLen =
  if Z.of_nat c <=? limit - w then (repeat x c, GoOn)
  else (repeat x (Z.to_nat (limit - w)), if 0 <=? maxLen then StopOk else StopErr).
Proof.
  induction c as [|c IH]; intros x w limit maxLen Hl0 Hw.
  - cbn [rl_rep]. destruct (Z.of_nat 0 <=? limit - w) eqn:E; [reflexivity|lia].
  - cbn [rl_rep]. destruct (0 <=? limit) eqn:E0; [|lia].
    simpl andb.
    destruct (limit =? w) eqn:E1.
    + destruct (Z.of_nat (S c) <=? limit - w) eqn:E2; [lia|].
      replace (limit - w) with 0 by lia. reflexivity.
    + rewrite IH by lia.
      destruct (Z.of_nat c <=? limit - (w + 1)) eqn:E2; destruct (Z.of_nat (S c) <=? limit - w) eqn:E3; try lia.
      * reflexivity.
      * replace (Z.to_nat (limit - w)) with (S (Z.to_nat (limit - (w + 1)))) by lia. reflexivity.
Qed.

Lemma dcons_ok : forall b r full, dcons b r = DOk full -> exists f', full = b :: f' /\ r = DOk f'.
Proof. intros b [l|e] full H; simpl in H; [|discriminate]. inversion H. eauto. Qed.

Lemma dapp_ok : forall p r full, dapp p r = DOk full -> exists f', full = p ++ f' /\ r = DOk f'.
Proof. intros p [l|e] full H; simpl in H; [|discriminate]. inversion H. eauto. Qed.

Definition rl_spec (full : list N) (limit w maxLen : Z) : dres :=
  if len full <=? limit - w then DOk full
  else if 0 <=? maxLen then DOk (take (limit - w) full) else DErr ELimit.

(* The limited / bounded run against the unlimited run, for every loop state. *)
Lemma rl_dec_limited : forall n src k w full limit maxLen,
  (length src <= n)%nat ->
  rl_dec src k w (-1) (-1) = DOk full ->
  0 <= limit -> w <= limit ->
  rl_dec src k w limit maxLen = rl_spec full limit w maxLen.
Proof.
  induction n as [|n IH]; intros src k w full limit maxLen Hn H Hl0 Hw.
  - destruct src; [|simpl in Hn; lia]. simpl in H. inversion H; subst. unfold rl_spec. simpl rl_dec.
    rewrite len_nil. destruct (0 <=? limit - w) eqn:E; [reflexivity|lia].
  - destruct src as [|b rest].
    { simpl in H. inversion H; subst. unfold rl_spec. simpl rl_dec.
      rewrite len_nil. destruct (0 <=? limit - w) eqn:E; [reflexivity|lia]. }
    simpl length in Hn.
    destruct k as [|k'].
    + (* block header *)
      cbn [rl_dec] in H |- *.
      destruct (b =? 128)%N eqn:Eb.
      { inversion H; subst. unfold rl_spec. rewrite len_nil. destruct (0 <=? limit - w) eqn:E; [reflexivity|lia]. }
      destruct (b <? 128)%N eqn:Eb2.
      { destruct (length rest <? S (N.to_nat b))%nat eqn:El; [discriminate H|].
        apply IH; try assumption. lia. }
      destruct rest as [|x rest']; [discriminate H|].
      rewrite rl_rep_unlimited in H. apply dapp_ok in H. destruct H as [f' [-> Hrec]].
      rewrite len_repeat in Hrec.
      rewrite rl_rep_limited by assumption.
      set (c := (257 - N.to_nat b)%nat) in *.
      unfold rl_spec. rewrite len_app, len_repeat.
      pose proof (len_nonneg f') as Hf.
      destruct (Z.of_nat c <=? limit - w) eqn:Ec.
      * rewrite len_repeat.
        rewrite (IH rest' O (w + Z.of_nat c) f' limit maxLen); try assumption; try lia.
        2:{ simpl length in Hn. lia. }
        unfold rl_spec.
        destruct (len f' <=? limit - (w + Z.of_nat c)) eqn:E1;
          destruct (Z.of_nat c + len f' <=? limit - w) eqn:E2; try lia.
        -- reflexivity.
        -- destruct (0 <=? maxLen); [|reflexivity]. simpl dapp. f_equal.
           rewrite take_app by (rewrite len_repeat; lia). rewrite len_repeat. f_equal. f_equal. lia.
      * destruct (Z.of_nat c + len f' <=? limit - w) eqn:E2; [lia|].
        destruct (0 <=? maxLen); [|reflexivity]. f_equal.
        rewrite take_app_short by (rewrite len_repeat; lia).
        unfold take. rewrite firstn_repeat_le by lia. reflexivity.
    + (* inside a literal run *)
      cbn [rl_dec] in H |- *.
      change (0 <=? -1) with false in H. simpl andb in H. cbv iota in H.
      apply dcons_ok in H. destruct H as [f' [-> Hrec]].
      destruct (0 <=? limit) eqn:E0; [|lia]. simpl andb.
      unfold rl_spec. rewrite len_cons. pose proof (len_nonneg f') as Hf.
      destruct (limit =? w) eqn:E1.
      * destruct (1 + len f' <=? limit - w) eqn:E2; [lia|].
        replace (limit - w) with 0 by lia. rewrite take_0. reflexivity.
      * rewrite (IH rest k' (w + 1) f' limit maxLen); try assumption; try lia.
        unfold rl_spec.
        destruct (len f' <=? limit - (w + 1)) eqn:E2; destruct (1 + len f' <=? limit - w) eqn:E3; try lia.
        -- reflexivity.
        -- destruct (0 <=? maxLen); [|reflexivity]. simpl dcons. f_equal.
           rewrite take_cons by lia. f_equal. f_equal. lia.
Qed.

Lemma rl_limit_exact : forall src full mdb,
  rl_decode_length src (-1) (-1) = DOk full ->
  let L := decode_limit (-1) mdb in
  0 <= L ->
  rl_decode_length src (-1) mdb = if len full <=? L then DOk full else DErr ELimit.
Proof.
  intros src full mdb H L HL. unfold rl_decode_length in *. fold L.
  rewrite decode_limit_unlimited in H.
  rewrite (rl_dec_limited _ src O 0 full L (-1) (le_n _) H HL HL).
  unfold rl_spec. rewrite Z.sub_0_r. change (0 <=? -1) with false. reflexivity.
Qed.

Lemma rl_bounded : forall src full n mdb,
  rl_decode_length src (-1) (-1) = DOk full -> 0 <= n ->
  rl_decode_length src n mdb = DOk (take n full).
Proof.
  intros src full n mdb H Hn. unfold rl_decode_length in *.
  rewrite decode_limit_unlimited in H. rewrite decode_limit_bounded by exact Hn.
  rewrite (rl_dec_limited _ src O 0 full n n (le_n _) H Hn Hn).
  unfold rl_spec. rewrite Z.sub_0_r.
  destruct (len full <=? n) eqn:E.
  - rewrite take_all by lia. reflexivity.
  - destruct (0 <=? n) eqn:E2; [reflexivity|lia].
Qed.

(* never more than the limit, for every input (also malformed ones) and every loop state *)
Lemma rl_dec_never_more : forall n src k w limit maxLen out,
  (length src <= n)%nat -> 0 <= limit -> w <= limit ->
  rl_dec src k w limit maxLen = DOk out -> len out <= limit - w.
Proof.
  induction n as [|n IH]; intros src k w limit maxLen out Hn Hl0 Hw H.
  - destruct src; [|simpl in Hn; lia]. simpl in H. inversion H. rewrite len_nil. lia.
  - destruct src as [|b rest].
    { simpl in H. inversion H. rewrite len_nil. lia. }
    simpl length in Hn. destruct k as [|k'].
    + cbn [rl_dec] in H.
      destruct (b =? 128)%N. { inversion H. rewrite len_nil. lia. }
      destruct (b <? 128)%N.
      { destruct (length rest <? S (N.to_nat b))%nat; [discriminate H|].
        eapply IH; try eassumption. lia. }
      destruct rest as [|x rest']; [discriminate H|].
      rewrite rl_rep_limited in H by assumption.
      set (c := (257 - N.to_nat b)%nat) in *.
      destruct (Z.of_nat c <=? limit - w) eqn:Ec.
      * apply dapp_ok in H. destruct H as [f' [-> Hrec]]. rewrite len_repeat in Hrec.
        apply IH in Hrec; try assumption; try lia.
        -- rewrite len_app, len_repeat. lia.
        -- simpl length in Hn. lia.
      * destruct (0 <=? maxLen); [|discriminate H]. inversion H. rewrite len_repeat. lia.
    + cbn [rl_dec] in H.
      destruct (0 <=? limit) eqn:E0; [|lia]. simpl andb in H.
      destruct (limit =? w) eqn:E1.
      * destruct (0 <=? maxLen); [|discriminate H]. inversion H. rewrite len_nil. lia.
      * apply dcons_ok in H. destruct H as [f' [-> Hrec]].
        apply IH in Hrec; try assumption; try lia. rewrite len_cons. lia.
Qed.

Lemma rl_never_more : forall src mdb out,
  let L := decode_limit (-1) mdb in
  0 <= L -> rl_decode_length src (-1) mdb = DOk out -> len out <= L.
Proof.
  intros src mdb out L HL H. unfold rl_decode_length in H. fold L in H.
  apply rl_dec_never_more with (n := length src) in H; try assumption; lia.
Qed.

(* ------------------------------------------------------------------ Flate: row loop *)

Section Rows.
Variable proc : list N -> list N -> option (list N).

(* the fuel S (length raw) suffices when rows are non-empty *)
Lemma flate_rows_fuel : forall fuel raw st pd blen maxLen mdb m,
  (1 <= m)%nat -> (length raw < fuel)%nat ->
  flate_rows proc fuel raw st pd blen maxLen mdb m <> DErr EFuel.
Proof.
  induction fuel as [|fuel IH]; intros raw st pd blen maxLen mdb m Hm Hf.
  - lia.
  - cbn [flate_rows].
    destruct (negb ((maxLen <? 0) || (blen <? maxLen))); [discriminate|].
    destruct (m <=? length raw)%nat eqn:Em.
    + destruct (proc pd (firstn m raw)) as [d|]; [|discriminate].
      destruct ((maxLen <? 0) && (0 <=? decode_limit maxLen mdb) && (decode_limit maxLen mdb <? blen + len d)); [discriminate|].
      specialize (IH (skipn m raw) st d (blen + len d) maxLen mdb m Hm).
      assert (Hs : (length (skipn m raw) < fuel)%nat). { rewrite skipn_length. lia. }
      specialize (IH Hs).
      destruct (flate_rows proc fuel (skipn m raw) st d (blen + len d) maxLen mdb m) as [l|e]; simpl; [discriminate|].
      intros Heq. apply IH. inversion Heq. reflexivity.
    + destruct (length raw =? 0)%nat; destruct st; discriminate.
Qed.

Lemma flate_rows_limited : forall fuel raw st pd blen mdb m full,
  let L := decode_limit (-1) mdb in
  0 <= L -> blen <= L ->
  flate_rows proc fuel raw st pd blen (-1) (-1) m = DOk full ->
  flate_rows proc fuel raw st pd blen (-1) mdb m = if blen + len full <=? L then DOk full else DErr ELimit.
Proof.
  intros fuel raw st pd blen mdb m full L HL. revert raw pd blen full.
  induction fuel as [|fuel IH]; intros raw pd blen full Hb H.
  - discriminate H.
  - cbn [flate_rows] in H |- *. fold L.
    change (-1 <? 0) with true in *. simpl orb in *. simpl negb in *. cbv iota in *.
    destruct (m <=? length raw)%nat eqn:Em.
    + destruct (proc pd (firstn m raw)) as [d|]; [|discriminate H].
      rewrite decode_limit_unlimited in H. change (0 <=? -1) with false in H. simpl andb in H. cbv iota in H.
      apply dapp_ok in H. destruct H as [f' [-> Hrec]].
      rewrite len_app. pose proof (len_nonneg f') as Hf. pose proof (len_nonneg d) as Hd.
      destruct (0 <=? L) eqn:E0; [|lia]. simpl andb.
      destruct (L <? blen + len d) eqn:E1.
      * destruct (blen + (len d + len f') <=? L) eqn:E2; [lia|reflexivity].
      * rewrite (IH _ _ (blen + len d) _ ltac:(lia) Hrec).
        destruct (blen + len d + len f' <=? L) eqn:E2; destruct (blen + (len d + len f') <=? L) eqn:E3; try lia; reflexivity.
    + destruct (length raw =? 0)%nat; destruct st; try discriminate H; inversion H; subst;
        rewrite len_nil; (destruct (blen + 0 <=? L) eqn:E; [reflexivity|lia]).
Qed.

Lemma flate_rows_bounded : forall fuel raw st pd blen n mdb m full,
  0 <= n ->
  flate_rows proc fuel raw st pd blen (-1) (-1) m = DOk full ->
  exists out, flate_rows proc fuel raw st pd blen n mdb m = DOk out /\ prefix out full /\ (n - blen <= len out \/ out = full).
Proof.
  intros fuel raw st pd blen n mdb m full Hn. revert raw pd blen full.
  induction fuel as [|fuel IH]; intros raw pd blen full H.
  - discriminate H.
  - cbn [flate_rows] in H |- *.
    change (-1 <? 0) with true in H. simpl orb in H. simpl negb in H. cbv iota in H.
    destruct (n <? 0) eqn:En; [lia|]. simpl orb. simpl andb.
    destruct (blen <? n) eqn:Eb; simpl negb; cbv iota.
    2:{ exists []. split; [reflexivity|]. split; [exists full; reflexivity|]. left. rewrite len_nil. lia. }
    destruct (m <=? length raw)%nat eqn:Em.
    + destruct (proc pd (firstn m raw)) as [d|]; [|discriminate H].
      rewrite decode_limit_unlimited in H. change (0 <=? -1) with false in H. simpl andb in H. cbv iota in H.
      apply dapp_ok in H. destruct H as [f' [-> Hrec]].
      destruct (IH _ _ (blen + len d) _ Hrec) as [out' [Ho [Hp Hl]]].
      rewrite Ho. simpl dapp. exists (d ++ out'). split; [reflexivity|]. split; [apply prefix_app; exact Hp|].
      rewrite len_app. destruct Hl as [Hl| ->]; [left; lia|right; reflexivity].
    + destruct (length raw =? 0)%nat; destruct st; try discriminate H; inversion H; subst;
        exists []; (split; [reflexivity|]); (split; [apply prefix_refl|right; reflexivity]).
Qed.
End Rows.

(* ------------------------------------------------------------------ Flate: decodePostProcess *)

(* the row length (incl. the PNG filter byte) used for pm; 0 without predictor *)
Definition pm_row_len (pm : parms) : Z :=
  match p_pred pm with
  | None => 0
  | Some p =>
    if p =? 1 then 0
    else match flate_parameters pm with
         | None => 0
         | Some (colors, bpc, columns) =>
           match predictor_row_params p colors bpc columns with
           | Some (_, rowLen, _) => rowLen
           | None => 0
           end
         end
  end.

Lemma pass_thru_full : forall raw st full, pass_thru (raw, st) (-1) (-1) = DOk full -> full = raw /\ st <> RErr.
Proof.
  intros raw st full H. unfold pass_thru in H. rewrite copy_unlimited in H.
  destruct st; simpl in H; inversion H; split; try reflexivity; discriminate.
Qed.

Lemma pass_thru_limit_exact : forall raw st full mdb,
  let L := decode_limit (-1) mdb in
  0 <= L -> fits full ->
  pass_thru (raw, st) (-1) (-1) = DOk full ->
  pass_thru (raw, st) (-1) mdb = if len full <=? L then DOk full else DErr ELimit.
Proof.
  intros raw st full mdb L HL Hfit H. destruct (pass_thru_full _ _ _ H) as [-> Hst].
  unfold pass_thru. rewrite copy_limit_exact by assumption. fold L.
  destruct (len raw <=? L); [|reflexivity].
  destruct st; simpl; try reflexivity. congruence.
Qed.

Lemma pass_thru_bounded : forall raw st full n mdb,
  0 <= n ->
  pass_thru (raw, st) (-1) (-1) = DOk full ->
  (exists out, pass_thru (raw, st) n mdb = DOk out /\ prefix out full /\ (n <= len out \/ out = full))
  \/ (len full < n /\ exists e, pass_thru (raw, st) n mdb = DErr e /\ too_short e).
Proof.
  intros raw st full n mdb Hn H. destruct (pass_thru_full _ _ _ H) as [-> Hst].
  unfold pass_thru. rewrite copy_bounded by exact Hn.
  destruct (n <=? len raw) eqn:E.
  - left. exists (take n raw). split; [reflexivity|]. split; [apply take_prefix|]. left. rewrite len_take by exact Hn. lia.
  - destruct st.
    + right. split; [lia|]. exists EEOF. split; [reflexivity|left; reflexivity].
    + left. exists raw. split; [reflexivity|]. split; [apply prefix_refl|right; reflexivity].
    + congruence.
Qed.

Section Post.
Variable procf : Z -> nat -> nat -> list N -> list N -> option (list N).

Lemma flate_post_limit_exact : forall pm raw st mdb full,
  let L := decode_limit (-1) mdb in
  0 <= L -> pm_row_len pm <= L -> fits full ->
  flate_post_with procf pm (raw, st) (-1) (-1) = DOk full ->
  flate_post_with procf pm (raw, st) (-1) mdb = if len full <=? L then DOk full else DErr ELimit.
Proof.
  intros pm raw st mdb full L HL Hrow Hfit H.
  unfold flate_post_with, pm_row_len in *. cbv zeta in *. fold L.
  destruct (p_pred pm) as [p|]; [|apply pass_thru_limit_exact; assumption].
  destruct (p =? 1); [apply pass_thru_limit_exact; assumption|].
  destruct (negb (valid_predictor p)); [discriminate H|].
  destruct (flate_parameters pm) as [[[colors bpc] columns]|]; [|discriminate H].
  destruct (predictor_row_params p colors bpc columns) as [[[rowSize rowLen] bpp]|]; [|discriminate H].
  rewrite decode_limit_unlimited in H. change (0 <=? -1) with false in H. simpl andb in H. cbv iota in H.
  destruct (0 <=? L) eqn:E0; [|lia]. destruct (L <? rowLen) eqn:E1; [lia|]. simpl andb. cbv iota.
  simpl fst in *. simpl snd in *.
  destruct (flate_rows _ _ raw st _ 0 (-1) (-1) _) as [b|e] eqn:Er; [|discriminate H].
  rewrite (flate_rows_limited _ _ _ _ _ _ _ _ _ HL HL Er). fold L. rewrite Z.add_0_l.
  change (-1 <? 0) with true in *. simpl andb in *.
  destruct (0 <? len b mod rowSize) eqn:Em; [discriminate H|]. inversion H; subst b.
  destruct (len full <=? L); [|reflexivity]. rewrite Em. reflexivity.
Qed.

Lemma flate_post_bounded : forall pm raw st n mdb full,
  0 <= n ->
  decode_limit (-1) mdb < 0 \/ pm_row_len pm <= decode_limit (-1) mdb ->
  flate_post_with procf pm (raw, st) (-1) (-1) = DOk full ->
  (exists out, flate_post_with procf pm (raw, st) n mdb = DOk out /\ prefix out full /\ (n <= len out \/ out = full))
  \/ (len full < n /\ exists e, flate_post_with procf pm (raw, st) n mdb = DErr e /\ too_short e).
Proof.
  intros pm raw st n mdb full Hn Hrow H.
  unfold flate_post_with, pm_row_len in *. cbv zeta in *.
  destruct (p_pred pm) as [p|]; [|apply pass_thru_bounded; assumption].
  destruct (p =? 1); [apply pass_thru_bounded; assumption|].
  destruct (negb (valid_predictor p)); [discriminate H|].
  destruct (flate_parameters pm) as [[[colors bpc] columns]|]; [|discriminate H].
  destruct (predictor_row_params p colors bpc columns) as [[[rowSize rowLen] bpp]|]; [|discriminate H].
  rewrite decode_limit_unlimited in H. change (0 <=? -1) with false in H. simpl andb in H. cbv iota in H.
  assert (Hc : (0 <=? decode_limit (-1) mdb) && (decode_limit (-1) mdb <? rowLen) = false).
  { destruct (0 <=? decode_limit (-1) mdb) eqn:E0; destruct (decode_limit (-1) mdb <? rowLen) eqn:E1; try reflexivity. lia. }
  rewrite Hc. cbv iota. simpl fst in *. simpl snd in *.
  destruct (flate_rows _ _ raw st _ 0 (-1) (-1) _) as [b|e] eqn:Er; [|discriminate H].
  change (-1 <? 0) with true in H. simpl andb in H.
  destruct (0 <? len b mod rowSize); [discriminate H|]. inversion H; subst b.
  destruct (flate_rows_bounded _ _ _ _ _ _ n mdb _ _ Hn Er) as [out [Ho [Hp Hl]]].
  rewrite Ho. destruct (n <? 0) eqn:En; [lia|]. simpl andb. cbv iota.
  left. exists out. split; [reflexivity|]. split; [exact Hp|]. rewrite Z.sub_0_r in Hl. exact Hl.
Qed.
End Post.


(* ------------------------------------------------------------------ the stage law *)

(* d inp maxLen mdb: Filter.DecodeLength of a filter constructed with maxDecodeBytes = mdb
   (maxLen = -1: Filter.Decode).  minL: smallest limit for which the law is claimed (0 except for
   Flate with a predictor, where it is the row length). *)
Record stage_ok (d : list N -> Z -> Z -> dres) (minL : Z) : Prop := {
  so_limit : forall inp full mdb,
    d inp (-1) (-1) = DOk full -> fits full ->
    0 <= decode_limit (-1) mdb -> minL <= decode_limit (-1) mdb ->
    d inp (-1) mdb = if len full <=? decode_limit (-1) mdb then DOk full else DErr ELimit;
  so_bounded : forall inp full n mdb,
    d inp (-1) (-1) = DOk full -> 0 <= n ->
    decode_limit (-1) mdb < 0 \/ minL <= decode_limit (-1) mdb ->
    (exists out, d inp n mdb = DOk out /\ prefix out full /\ (n <= len out \/ out = full))
    \/ (len full < n /\ exists e, d inp n mdb = DErr e /\ too_short e) }.

Lemma stage_ok_mono : forall d a b, a <= b -> stage_ok d a -> stage_ok d b.
Proof.
  intros d a b Hab [Hl Hb]. split.
  - intros inp full mdb H Hf H0 Hm. apply Hl; try assumption. lia.
  - intros inp full n mdb H Hn Hm. apply Hb; try assumption. destruct Hm; [left; assumption|right; lia].
Qed.

Lemma stage_ok_ahx : stage_ok ahx_decode_length 0.
Proof.
  split.
  - intros inp full mdb H _ H0 _. apply ahx_limit_exact; assumption.
  - intros inp full n mdb H Hn _. rewrite (ahx_bounded _ _ _ _ H Hn).
    destruct (n <=? len full) eqn:E.
    + left. exists (take n full). split; [reflexivity|]. split; [apply take_prefix|]. left. rewrite len_take by exact Hn. lia.
    + right. split; [lia|]. exists EUnexpEOF. split; [reflexivity|right; reflexivity].
Qed.

Lemma stage_ok_rl : stage_ok rl_decode_length 0.
Proof.
  split.
  - intros inp full mdb H _ H0 _. apply rl_limit_exact; assumption.
  - intros inp full n mdb H Hn _. rewrite (rl_bounded _ _ _ _ H Hn).
    left. exists (take n full). split; [reflexivity|]. split; [apply take_prefix|].
    destruct (Z.le_gt_cases n (len full)) as [Hle|Hgt].
    + left. rewrite len_take by exact Hn. lia.
    + right. apply take_all. lia.
Qed.

(* filters that copy a decoder stream through copyDecoded *)
Lemma of_copy_full : forall s full, of_copy (copy_decoded s (-1) (-1)) = DOk full -> s = (full, REof).
Proof.
  intros [data st] full H. rewrite copy_unlimited in H. destruct st; simpl in H; try discriminate H.
  inversion H. reflexivity.
Qed.

Lemma of_copy_limit_exact : forall s full mdb,
  of_copy (copy_decoded s (-1) (-1)) = DOk full -> fits full -> 0 <= decode_limit (-1) mdb ->
  of_copy (copy_decoded s (-1) mdb) = if len full <=? decode_limit (-1) mdb then DOk full else DErr ELimit.
Proof.
  intros s full mdb H Hf H0. rewrite (of_copy_full _ _ H). rewrite copy_limit_exact by assumption.
  destruct (len full <=? decode_limit (-1) mdb); reflexivity.
Qed.

Lemma of_copy_bounded : forall s full n mdb,
  of_copy (copy_decoded s (-1) (-1)) = DOk full -> 0 <= n ->
  (exists out, of_copy (copy_decoded s n mdb) = DOk out /\ prefix out full /\ (n <= len out \/ out = full))
  \/ (len full < n /\ exists e, of_copy (copy_decoded s n mdb) = DErr e /\ too_short e).
Proof.
  intros s full n mdb H Hn. rewrite (of_copy_full _ _ H). rewrite copy_bounded by exact Hn.
  destruct (n <=? len full) eqn:E.
  - left. exists (take n full). split; [reflexivity|]. split; [apply take_prefix|]. left. rewrite len_take by exact Hn. lia.
  - right. split; [lia|]. exists EEOF. split; [reflexivity|left; reflexivity].
Qed.

Lemma stage_ok_a85 : forall a85open, stage_ok (a85_decode_length a85open) 0.
Proof.
  intros a85open. split.
  - intros inp full mdb H Hf H0 _. unfold a85_decode_length in *.
    destruct (rev (trim_right_crlf inp)) as [|g [|t r]]; try discriminate H.
    destruct ((g =? 62) && (t =? 126))%N; [|discriminate H].
    apply of_copy_limit_exact; assumption.
  - intros inp full n mdb H Hn _. unfold a85_decode_length in *.
    destruct (rev (trim_right_crlf inp)) as [|g [|t r]]; try discriminate H.
    destruct ((g =? 62) && (t =? 126))%N; [|discriminate H].
    apply of_copy_bounded; assumption.
Qed.

Lemma stage_ok_lzw : forall lzwopen pm, stage_ok (lzw_decode_length lzwopen pm) 0.
Proof.
  intros lzwopen pm. split.
  - intros inp full mdb H Hf H0 _. unfold lzw_decode_length in *.
    destruct (p_pred pm) as [p|].
    + destruct (1 <? p); [discriminate H|]. apply of_copy_limit_exact; assumption.
    + apply of_copy_limit_exact; assumption.
  - intros inp full n mdb H Hn _. unfold lzw_decode_length in *.
    destruct (p_pred pm) as [p|].
    + destruct (1 <? p); [discriminate H|]. apply of_copy_bounded; assumption.
    + apply of_copy_bounded; assumption.
Qed.

Lemma stage_ok_flate : forall zopen pm, stage_ok (flate_decode_length zopen pm) (pm_row_len pm).
Proof.
  intros zopen pm. split.
  - intros inp full mdb H Hf H0 Hm. unfold flate_decode_length in *.
    destruct (zopen inp) as [[raw st]|]; [|discriminate H].
    unfold flate_post in *. apply flate_post_limit_exact; assumption.
  - intros inp full n mdb H Hn Hm. unfold flate_decode_length in *.
    destruct (zopen inp) as [[raw st]|]; [|discriminate H].
    unfold flate_post in *. apply flate_post_bounded; assumption.
Qed.

(* ------------------------------------------------------------------ pipelines *)

(* largest stage output of the unlimited decoding of raw *)
Fixpoint pipe_max (sts : list stage) (b : list N) : Z :=
  match sts with
  | [] => 0
  | s :: rest =>
    match s_dec s b (-1) (-1) with
    | DOk c => Z.max (len c) (pipe_max rest c)
    | DErr _ => 0
    end
  end.

Lemma pipe_max_nonneg : forall sts b, 0 <= pipe_max sts b.
Proof.
  induction sts as [|s rest IH]; intros b; simpl; [lia|].
  destruct (s_dec s b (-1) (-1)); [|lia]. specialize (IH l). lia.
Qed.

Lemma ml_unbounded : forall (rest : list stage),
  match rest with [] => if 0 <=? -1 then -1 else -1 | _ => -1 end = -1.
Proof. intros [|s r]; reflexivity. Qed.

Lemma pipe_stages_limit_exact : forall minL mdb sts raw full,
  (forall s, In s sts -> stage_ok (s_dec s) minL) ->
  0 <= decode_limit (-1) mdb -> minL <= decode_limit (-1) mdb ->
  pipe_max sts raw < max_int64 ->
  pipe_stages sts raw (-1) (-1) = DOk full ->
  pipe_stages sts raw (-1) mdb = if pipe_max sts raw <=? decode_limit (-1) mdb then DOk full else DErr ELimit.
Proof.
  intros minL mdb. set (L := decode_limit (-1) mdb).
  induction sts as [|s rest IH]; intros raw full Hok H0 Hm Hfit H.
  - simpl in *. destruct (0 <=? L) eqn:E; [exact H|lia].
  - cbn [pipe_stages pipe_max] in *. rewrite ml_unbounded in *.
    destruct (s_dec s raw (-1) (-1)) as [c|e] eqn:Ec; [|discriminate H].
    pose proof (pipe_max_nonneg rest c) as Hnn. pose proof (len_nonneg c) as Hc.
    assert (Hs : stage_ok (s_dec s) minL) by (apply Hok; left; reflexivity).
    rewrite (so_limit _ _ Hs raw c mdb Ec); try assumption; [|unfold fits; lia].
    fold L. destruct (len c <=? L) eqn:E1.
    + rewrite (IH c full); try assumption; try lia.
      * destruct (pipe_max rest c <=? L) eqn:E2; destruct (Z.max (len c) (pipe_max rest c) <=? L) eqn:E3; try lia; reflexivity.
      * intros s' Hin. apply Hok. right. exact Hin.
    + destruct (Z.max (len c) (pipe_max rest c) <=? L) eqn:E3; [lia|reflexivity].
Qed.

Lemma pipe_final_le_max : forall sts raw full, sts <> [] ->
  pipe_stages sts raw (-1) (-1) = DOk full -> len full <= pipe_max sts raw.
Proof.
  induction sts as [|s rest IH]; intros raw full Hne H; [congruence|].
  cbn [pipe_stages pipe_max] in *. rewrite ml_unbounded in *.
  destruct (s_dec s raw (-1) (-1)) as [c|e]; [|discriminate H].
  destruct rest as [|s' rest'].
  - simpl in H. inversion H; subst. simpl. lia.
  - specialize (IH c full ltac:(discriminate) H). lia.
Qed.

Lemma pipeline_limit_exact : forall minL mdb sts raw full,
  (forall s, In s sts -> stage_ok (s_dec s) minL) ->
  0 <= decode_limit (-1) mdb -> minL <= decode_limit (-1) mdb ->
  pipe_max sts raw < max_int64 ->
  pipe_decode sts raw (-1) (-1) = DOk full ->
  pipe_decode sts raw (-1) mdb = if pipe_max sts raw <=? decode_limit (-1) mdb then DOk full else DErr ELimit.
Proof.
  intros minL mdb sts raw full Hok H0 Hm Hfit H. unfold pipe_decode in *.
  change (-1 <? 0) with true in *. cbv iota in *.
  destruct (pipe_stages sts raw (-1) (-1)) as [d|e] eqn:E; [|discriminate H]. inversion H; subst d.
  rewrite (pipe_stages_limit_exact minL mdb sts raw full Hok H0 Hm Hfit E).
  destruct (pipe_max sts raw <=? decode_limit (-1) mdb); reflexivity.
Qed.

Lemma pipeline_never_more : forall minL mdb sts raw full out,
  (forall s, In s sts -> stage_ok (s_dec s) minL) -> sts <> [] ->
  0 <= decode_limit (-1) mdb -> minL <= decode_limit (-1) mdb ->
  pipe_max sts raw < max_int64 ->
  pipe_decode sts raw (-1) (-1) = DOk full ->
  pipe_decode sts raw (-1) mdb = DOk out -> out = full /\ len out <= decode_limit (-1) mdb.
Proof.
  intros minL mdb sts raw full out Hok Hne H0 Hm Hfit H Ho.
  rewrite (pipeline_limit_exact minL mdb sts raw full Hok H0 Hm Hfit H) in Ho.
  destruct (pipe_max sts raw <=? decode_limit (-1) mdb) eqn:E; [|discriminate Ho].
  inversion Ho; subst out. split; [reflexivity|].
  unfold pipe_decode in H. change (-1 <? 0) with true in H. cbv iota in H.
  destruct (pipe_stages sts raw (-1) (-1)) as [d|e] eqn:Ed; [|discriminate H]. inversion H; subst d.
  pose proof (pipe_final_le_max sts raw full Hne Ed). lia.
Qed.

Lemma pipe_stages_bounded : forall minL n sts raw full,
  (forall s, In s sts -> stage_ok (s_dec s) minL) -> 0 <= n ->
  pipe_stages sts raw (-1) (-1) = DOk full ->
  (exists out, pipe_stages sts raw n (-1) = DOk out /\ prefix out full /\ (n <= len out \/ out = full))
  \/ (len full < n /\ exists e, pipe_stages sts raw n (-1) = DErr e /\ too_short e).
Proof.
  intros minL n. induction sts as [|s rest IH]; intros raw full Hok Hn H.
  - simpl in *. inversion H; subst. left. exists full. split; [reflexivity|]. split; [apply prefix_refl|right; reflexivity].
  - cbn [pipe_stages] in *. rewrite ml_unbounded in H.
    destruct (s_dec s raw (-1) (-1)) as [c|e] eqn:Ec; [|discriminate H].
    assert (Hs : stage_ok (s_dec s) minL) by (apply Hok; left; reflexivity).
    destruct rest as [|s' rest'].
    + simpl in H. inversion H; subst c.
      destruct (0 <=? n) eqn:E0; [|lia].
      destruct (so_bounded _ _ Hs raw full n (-1) Ec Hn) as [[out [Ho Hp]]|[Hlt [e [He Hts]]]].
      * left. rewrite decode_limit_unlimited. lia.
      * left. exists out. rewrite Ho. simpl. split; [reflexivity|exact Hp].
      * right. split; [exact Hlt|]. exists e. rewrite He. split; [reflexivity|exact Hts].
    + rewrite Ec. apply IH; try assumption. intros s0 Hin. apply Hok. right. exact Hin.
Qed.

Lemma pipeline_bounded : forall minL n sts raw full,
  (forall s, In s sts -> stage_ok (s_dec s) minL) -> 0 <= n ->
  pipe_decode sts raw (-1) (-1) = DOk full ->
  (n <= len full /\ pipe_decode sts raw n (-1) = DOk (take n full))
  \/ (len full < n /\ exists e, pipe_decode sts raw n (-1) = DErr e /\ too_short e).
Proof.
  intros minL n sts raw full Hok Hn H. unfold pipe_decode in *.
  change (-1 <? 0) with true in H. cbv iota in H.
  destruct (pipe_stages sts raw (-1) (-1)) as [d|e] eqn:E; [|discriminate H]. inversion H; subst d.
  destruct (n <? 0) eqn:En; [lia|].
  destruct (pipe_stages_bounded minL n sts raw full Hok Hn E) as [[out [Ho [Hp Hl]]]|[Hlt [e [He Hts]]]].
  - rewrite Ho. pose proof (prefix_len _ _ Hp) as Hpl.
    destruct (Z.le_gt_cases n (len full)) as [Hle|Hgt].
    + left. split; [exact Hle|].
      destruct Hl as [Hl| ->].
      * destruct (len out <? n) eqn:E1; [lia|]. f_equal. apply prefix_take; [exact Hp|lia].
      * destruct (len full <? n) eqn:E1; [lia|]. reflexivity.
    + right. split; [lia|]. exists EUnexpEOF.
      destruct (len out <? n) eqn:E1; [|lia]. split; [reflexivity|right; reflexivity].
  - right. split; [exact Hlt|]. exists e. rewrite He. split; [reflexivity|exact Hts].
Qed.

Lemma stage_ok_filters :
  stage_ok ahx_decode_length 0 /\ stage_ok rl_decode_length 0 /\
  (forall a85open, stage_ok (a85_decode_length a85open) 0) /\
  (forall lzwopen pm, stage_ok (lzw_decode_length lzwopen pm) 0) /\
  (forall zopen pm, stage_ok (flate_decode_length zopen pm) (pm_row_len pm)).
Proof.
  split; [exact stage_ok_ahx|]. split; [exact stage_ok_rl|]. split; [exact stage_ok_a85|].
  split; [exact stage_ok_lzw|exact stage_ok_flate].
Qed.
