(* C29 — Removing signatures removes them all and nothing else.
   Property theorems only.  The model (C29/Model.v) transcribes RemoveAllSignatures / removeSigAnnot /
   removePageAnnotationForSig (pkg/pdfcpu/model/xreftable.go), cacheSig (validate/form.go) and the
   ErrNoSignatures gate of ReadAndValidate (pkg/api/api.go).  Every theorem quantifies over ALL
   documents of the model: any number of pages, annotations and fields, any nesting depth.

   FULL statement of the property over the model (what one would like to prove):
     forall d d', wf_doc d -> remove_signatures d = Some d' -> no_sig_left d d' /\ non_sig_unchanged d d'.
   The transcribed code REFUTES it (four *_refuted witnesses below, all reproduced on the real
   implementation by the harness; a fifth, /Perms surviving because the code deleted the key
   "Perm", was fixed in pdfcpu 31c53709 and its witness removed).  What is proved instead:
     - C29_no_sig_left_partial / C29_non_sig_unchanged_partial: the full conclusion on the decidable
       class `supported` (every top-level field has its own /FT; no signature field nested
       below a non-signature top-level field and no non-signature field below a signature one; no
       signature widget outside the field forest; every page reference to a signature dictionary is
       one of the two probes removeSigAnnot makes);
     - C29_nothing_else_removed: for EVERY document, pages keep their order, a page loses only
       references to a top-level field without own non-Sig /FT or to its only kid, kept top-level
       fields are unchanged subtrees, /Perms (DocMDP, UR3), SigFlags, DSS, Legal and Extensions are cleared;
     - C29_no_sigs_error_writes_nothing: for EVERY document, "no signature dictionary anywhere
       (effective type, any depth)" is equivalent to the ErrNoSignatures outcome with no output. *)
From Coq Require Import NArith List Bool.
From PV Require Import C29.Model C29.Proofs.
Import ListNotations.
Open Scope N_scope.

Theorem C29_no_sig_left_partial : forall d d',
  supported d = true -> remove_signatures d = Some d' -> no_sig_left d d'.
Proof.
  intros d d' Hs Hr. apply sigs_removed in Hr as [Hd _]. subst d'. now apply supported_no_sig_left.
Qed.
Print Assumptions C29_no_sig_left_partial.

Theorem C29_non_sig_unchanged_partial : forall d d',
  supported d = true -> remove_signatures d = Some d' -> non_sig_unchanged d d'.
Proof.
  intros d d' Hs Hr. apply sigs_removed in Hr as [Hd _]. subst d'. now apply supported_non_sig_unchanged.
Qed.
Print Assumptions C29_non_sig_unchanged_partial.

Theorem C29_nothing_else_removed : forall d d',
  wf_doc d -> remove_signatures d = Some d' -> only_sig_probes_removed d d'.
Proof.
  intros d d' Hwf Hr. apply sigs_removed in Hr as [Hd _]. subst d'. now apply only_sig_probes_removed_all.
Qed.
Print Assumptions C29_nothing_else_removed.

Theorem C29_no_sigs_error_writes_nothing : forall d,
  wf_doc d -> (sig_ids d = [] <-> remove_signatures d = None).
Proof. exact no_sigs_error. Qed.
Print Assumptions C29_no_sigs_error_writes_nothing.

(* Certification (/Perms /DocMDP), usage rights (/Perms /UR3), /DSS, /Legal and /Extensions are
   gone after EVERY successful removal: no hypothesis on the document, in particular also when
   there is no usable AcroForm (d_form d = None: catalog without /AcroForm, or one whose /Fields
   is missing or empty, which validation drops) and the signature is only a widget in a page's
   /Annots.  In that layout nothing but the catalog changes. *)
Theorem C29_catalog_cleared_every_layout : forall d d', remove_signatures d = Some d' ->
  (d_perms d' = false /\ d_dss d' = false /\ d_legal d' = false /\ d_ext d' = false) /\
  (d_form d = None ->
     d_pages d' = d_pages d /\ d_others d' = d_others d /\ d_form d' = None /\
     d_acro d' = d_acro d /\ d_perm d' = d_perm d).
Proof.
  intros d d' H. split; [now apply (catalog_cleared d d')|].
  intros Hn. apply sigs_removed in H as [Hd _]. subst d'. now apply no_form_remove_all.
Qed.
Print Assumptions C29_catalog_cleared_every_layout.

(* ---------------- witnesses: the transcribed code violates the full property ---------------- *)
Definition mkdoc (fields : list field) (sf perms : bool) (pages : list page)
                 (others : list (N * option ftype)) : doc :=
  {| d_form := match fields with [] => None | _ => Some {| fm_fields := fields; fm_sigflags := sf |} end;
     d_acro := match fields with [] => false | _ => true end;
     d_perms := perms; d_perm := false; d_dss := false; d_legal := false; d_ext := false;
     d_pages := pages; d_others := others |}.

(* a merged field/widget on page 3 *)
Definition W (i : N) (t : option ftype) (p : option N) : field := Field i t true true p [].

(* certification: catalog /Perms << /DocMDP sigdict >> is cleared (refuted before fix 31c53709) *)
Definition w_perms := mkdoc [W 6 (Some Tx) (Some 3); W 7 (Some Sig) (Some 3)] true true [(3, Some [6; 7])] [].

(* (2) a signature field nested below a /FT /Tx parent survives, with its widget on the page *)
Definition w_nested :=
  mkdoc [Field 5 (Some Tx) false false None [W 6 None (Some 3); W 7 (Some Sig) (Some 3)]]
        true false [(3, Some [6; 7])] [].
Theorem C29_nested_sig_survives_refuted : exists d d',
  wf_doc d /\ remove_signatures d = Some d' /\ In (7, Some Sig) (forest_nodes (visible_fields d')) /\
  ~ no_sig_left d d'.
Proof.
  exists w_nested, (remove_all w_nested). split; [reflexivity|]. split; [reflexivity|]. split.
  - vm_compute. right. right. now left.
  - intros [Hs _]. vm_compute in Hs. discriminate.
Qed.
Print Assumptions C29_nested_sig_survives_refuted.

(* (3) a top-level parent without own /FT is removed together with its text-field kid *)
Definition w_ftless :=
  mkdoc [Field 5 None false false None [W 6 (Some Tx) (Some 3); W 7 (Some Sig) (Some 3)]]
        true false [(3, Some [6; 7])] [].
Theorem C29_non_sig_field_removed_refuted : exists d d',
  wf_doc d /\ remove_signatures d = Some d' /\
  In (6, Some Tx) (nonsig_nodes (visible_fields d)) /\ visible_fields d' = [] /\
  ~ non_sig_unchanged d d'.
Proof.
  exists w_ftless, (remove_all w_ftless). split; [reflexivity|]. split; [reflexivity|]. split.
  - vm_compute. right. now left.
  - split; [reflexivity|]. intros [Hf _]. vm_compute in Hf. discriminate.
Qed.
Print Assumptions C29_non_sig_field_removed_refuted.

(* (4) a top-level signature widget without /P stays in the page's /Annots *)
Definition w_nop := mkdoc [W 5 (Some Sig) None; W 6 (Some Tx) None] true false [(3, Some [5; 6])] [].
Theorem C29_sig_widget_survives_refuted : exists d d',
  wf_doc d /\ remove_signatures d = Some d' /\ d_pages d' = [(3, Some [5; 6])] /\
  mem 5 (sig_ids d) = true /\ ~ no_sig_left d d'.
Proof.
  exists w_nop, (remove_all w_nop). repeat split.
  intros [_ [_ [Hp _]]]. specialize (Hp (3, Some [5; 6]) 5).
  assert (mem 5 (sig_ids w_nop) = true) as Hm by reflexivity.
  rewrite Hp in Hm; [discriminate|now left|now left].
Qed.
Print Assumptions C29_sig_widget_survives_refuted.

(* (5) a document whose only signature is the usage-rights one (/Perms /UR3) is reported as
   unsigned: ErrNoSignatures, nothing is written, the usage-rights entry stays *)
Definition w_ur := mkdoc [W 6 (Some Tx) (Some 3)] false true [(3, Some [6])] [].
Theorem C29_usage_rights_only_refuted : exists d,
  wf_doc d /\ d_perms d = true /\ remove_signatures d = None.
Proof. exists w_ur. repeat split. Qed.
Print Assumptions C29_usage_rights_only_refuted.

(* ---------------- non-vacuity ---------------- *)
(* no AcroForm, signature widget 8 only in page 4's /Annots, catalog with Perms, DSS, Legal, Extensions *)
Definition ex_noform : doc :=
  {| d_form := None; d_acro := false; d_perms := true; d_perm := false; d_dss := true;
     d_legal := true; d_ext := true; d_pages := [(3, Some [9]); (4, Some [8])];
     d_others := [(8, Some Sig); (9, None)] |}.
Example C29_noform_nonvacuous :
  d_form ex_noform = None /\ has_sigs ex_noform = true /\
  exists d', remove_signatures ex_noform = Some d' /\
             d_perms d' = false /\ d_dss d' = false /\ d_pages d' = d_pages ex_noform.
Proof. split; [reflexivity|]. split; [reflexivity|]. eexists. repeat split. Qed.

(* depth-3 forest, two pages, single-kid signature widget, shared non-signature annotation 9 *)
Definition ex_ok :=
  mkdoc [ Field 10 (Some Tx) false false None
            [Field 11 None false false None [W 12 None (Some 3); W 13 (Some Btn) (Some 4)]];
          W 14 (Some Sig) (Some 3);
          Field 15 (Some Sig) false false None [W 16 None (Some 4)];
          W 17 (Some Ch) None ]
        true false
        [(3, Some [12; 14; 9]); (4, Some [16; 13; 9]); (5, None)] [(9, None)].
Example C29_nonvacuous :
  supported ex_ok = true /\ wf_doc ex_ok /\
  (exists d', remove_signatures ex_ok = Some d' /\
     map f_id (visible_fields d') = [10; 17] /\
     d_pages d' = [(3, Some [12; 9]); (4, Some [13; 9]); (5, None)]) /\
  sig_ids ex_ok = [14; 15; 16] /\
  supported w_perms = true /\ d_perms w_perms = true /\
  (exists d', remove_signatures w_perms = Some d' /\ d_perms d' = false) /\ supported w_nested = false /\ supported w_ftless = false /\
  supported w_nop = false /\
  remove_signatures (mkdoc [W 6 (Some Tx) (Some 3)] false false [(3, Some [6])] []) = None.
Proof.
  split; [reflexivity|]. split; [reflexivity|]. split.
  - eexists. split; [reflexivity|]. split; reflexivity.
  - repeat split. eexists. split; reflexivity.
Qed.
