(* C38: facts about prefixb / index_split (strings.HasPrefix / strings.Index) used by the watermark proofs. *)
From Coq Require Import List NArith Bool Lia.
From PV Require Import C38.Model.
Import ListNotations.
Open Scope N_scope.

Lemma prefixb_app p b : prefixb p (p ++ b) = true.
Proof. induction p as [|x p IH]; simpl; [reflexivity|]. rewrite N.eqb_refl, IH. reflexivity. Qed.

Lemma prefixb_true p s : prefixb p s = true -> exists b, s = p ++ b.
Proof.
  revert s. induction p as [|x p IH]; intros s Hp; simpl in *.
  - exists s. reflexivity.
  - destruct s as [|y s]; [discriminate|]. apply andb_true_iff in Hp. destruct Hp as [Hxy Hps].
    apply N.eqb_eq in Hxy. subst y. destruct (IH s Hps) as [b Hb]. exists b. rewrite Hb. reflexivity.
Qed.

Lemma prefixb_app_long p a w : (length p <= length a)%nat -> prefixb p (a ++ w) = prefixb p a.
Proof.
  revert a. induction p as [|x p IH]; intros a Hl; simpl in *; [reflexivity|].
  destruct a as [|y a]; simpl in *; [lia|]. rewrite IH by lia. reflexivity.
Qed.

(* prefix of a concatenation: either p lies within a, or a is a proper part of p *)
Lemma prefixb_app_inv p a b : prefixb p (a ++ b) = true ->
  (exists a2, a = p ++ a2) \/ (exists p1, p = a ++ p1 /\ prefixb p1 b = true).
Proof.
  revert p. induction a as [|x a IH]; intros p Hp.
  - right. exists p. split; [reflexivity|exact Hp].
  - destruct p as [|y p].
    + left. exists (x :: a). reflexivity.
    + simpl in Hp. apply andb_true_iff in Hp. destruct Hp as [Hxy Hps]. apply N.eqb_eq in Hxy. subst y.
      destruct (IH p Hps) as [[a2 Ha2]|[p1 [Hp1 Hb]]].
      * left. exists a2. rewrite Ha2. reflexivity.
      * right. exists p1. split; [rewrite Hp1; reflexivity|exact Hb].
Qed.

Lemma index_split_unfold p s :
  index_split p s =
  if prefixb p s then Some ([], s)
  else match s with
       | [] => None
       | x :: t => match index_split p t with Some (a, b) => Some (x :: a, b) | None => None end
       end.
Proof. destruct s; reflexivity. Qed.

(* p does not occur in s *)
Definition noocc (p s : bytes) : Prop := forall s1 s2, s = s1 ++ s2 -> prefixb p s2 = false.
(* no occurrence of p in u ++ w starts inside u *)
Definition starts_free (p u w : bytes) : Prop :=
  forall u1 u2, u = u1 ++ u2 -> u2 <> [] -> prefixb p (u2 ++ w) = false.

Lemma index_split_sound p s a b : index_split p s = Some (a, b) -> s = a ++ b /\ prefixb p b = true.
Proof.
  revert a b. induction s as [|x t IH]; intros a b Hs; rewrite index_split_unfold in Hs.
  - destruct (prefixb p []) eqn:Hp; [|discriminate]. inversion Hs; subst. split; [reflexivity|exact Hp].
  - destruct (prefixb p (x :: t)) eqn:Hp.
    + inversion Hs; subst. split; [reflexivity|exact Hp].
    + destruct (index_split p t) as [[a' b']|] eqn:Ht; [|discriminate]. inversion Hs; subst.
      destruct (IH a' b eq_refl) as [Ht1 Ht2]. split; [rewrite Ht1; reflexivity|exact Ht2].
Qed.

Lemma index_split_none p s : index_split p s = None <-> noocc p s.
Proof.
  induction s as [|x t IH]; rewrite index_split_unfold.
  - split.
    + intros Hn s1 s2 Hs. destruct s1; destruct s2; simpl in Hs; try discriminate.
      destruct (prefixb p []); [discriminate|reflexivity].
    + intros Hn. rewrite (Hn [] [] eq_refl). reflexivity.
  - split.
    + intros Hn s1 s2 Hs. destruct (prefixb p (x :: t)) eqn:Hp; [discriminate|].
      destruct (index_split p t) as [[a b]|] eqn:Ht; [discriminate|].
      destruct s1 as [|y s1]; simpl in Hs.
      * subst s2. exact Hp.
      * inversion Hs; subst. apply (proj1 IH eq_refl s1 s2 eq_refl).
    + intros Hn. rewrite (Hn [] (x :: t) eq_refl).
      assert (Ht : index_split p t = None).
      { apply IH. intros s1 s2 Hs. apply (Hn (x :: s1) s2). rewrite Hs. reflexivity. }
      rewrite Ht. reflexivity.
Qed.

Lemma index_split_first p u w : starts_free p u w -> prefixb p w = true -> index_split p (u ++ w) = Some (u, w).
Proof.
  induction u as [|x u IH]; intros Hf Hw.
  - simpl. rewrite index_split_unfold, Hw. reflexivity.
  - rewrite index_split_unfold.
    rewrite (Hf [] (x :: u) eq_refl) by discriminate.
    simpl. rewrite IH; [reflexivity| |exact Hw].
    intros u1 u2 Hu Hne. apply (Hf (x :: u1) u2); [rewrite Hu; reflexivity|exact Hne].
Qed.

Lemma app_eq_app_cases {A} (x1 x2 y1 y2 : list A) : x1 ++ x2 = y1 ++ y2 ->
  exists l, (x1 = y1 ++ l /\ y2 = l ++ x2) \/ (y1 = x1 ++ l /\ x2 = l ++ y2).
Proof.
  revert y1. induction x1 as [|a x1 IH]; intros y1 H.
  - exists y1. right. split; [reflexivity|exact H].
  - destruct y1 as [|b y1].
    + exists (a :: x1). left. split; [reflexivity|]. simpl in H. symmetry. exact H.
    + simpl in H. inversion H; subst. destruct (IH y1 H2) as [l [[H3 H4]|[H3 H4]]].
      * exists l. left. split; [rewrite H3; reflexivity|exact H4].
      * exists l. right. split; [rewrite H3; reflexivity|exact H4].
Qed.

Lemma noocc_app p u w : starts_free p u w -> noocc p w -> noocc p (u ++ w).
Proof.
  intros Hf Hn s1 s2 Hs. symmetry in Hs. destruct (app_eq_app_cases _ _ _ _ Hs) as [l [[H1 H2]|[H1 H2]]].
  - apply (Hn l s2 H2).
  - destruct l as [|y l].
    + simpl in H2. subst s2. apply (Hn [] w eq_refl).
    + subst s2. apply (Hf s1 (y :: l) H1). discriminate.
Qed.

Lemma starts_free_nil p w : starts_free p [] w.
Proof. intros u1 u2 Hu Hne. destruct u1; destruct u2; simpl in Hu; try discriminate. contradiction. Qed.

Lemma starts_free_app p u1 u2 w : starts_free p u1 (u2 ++ w) -> starts_free p u2 w -> starts_free p (u1 ++ u2) w.
Proof.
  intros H1 H2 a v Hu Hne. symmetry in Hu. destruct (app_eq_app_cases _ _ _ _ Hu) as [l [[Ha Hb]|[Ha Hb]]].
  - apply (H2 l v Hb Hne).
  - subst v. destruct l as [|y l].
    + simpl. apply (H2 [] u2 eq_refl). simpl in Hne. exact Hne.
    + rewrite <- app_assoc. apply (H1 a (y :: l) Ha). discriminate.
Qed.

Lemma starts_free_cons p x u w : prefixb p (x :: u ++ w) = false -> starts_free p u w -> starts_free p (x :: u) w.
Proof.
  intros Hx Hu u1 u2 Heq Hne. destruct u1 as [|y u1]; simpl in Heq.
  - subst u2. exact Hx.
  - inversion Heq; subst. apply (Hu u1 u2 eq_refl Hne).
Qed.

(* no byte of u equals the first byte of p *)
Lemma starts_free_class (f : N -> bool) h p' u w :
  forallb f u = true -> f h = false -> starts_free (h :: p') u w.
Proof.
  intros Hall Hh u1 u2 Hu Hne. destruct u2 as [|x u2]; [contradiction|].
  subst u. rewrite forallb_app in Hall. apply andb_true_iff in Hall. destruct Hall as [_ Hall].
  simpl in Hall. apply andb_true_iff in Hall. destruct Hall as [Hx _].
  simpl. destruct (N.eqb_spec h x) as [->|Hne']; [congruence|reflexivity].
Qed.

Lemma noocc_class (f : N -> bool) h p' u : forallb f u = true -> f h = false -> noocc (h :: p') u.
Proof.
  intros Hall Hh. rewrite <- (app_nil_r u). apply noocc_app.
  - apply (starts_free_class f); assumption.
  - intros s1 s2 Hs. destruct s1; destruct s2; simpl in Hs; try discriminate. reflexivity.
Qed.

(* decision of starts_free for a concrete u followed by a concrete front that is long enough *)
Fixpoint sfb (p u front : bytes) : bool :=
  match u with
  | [] => true
  | _ :: u' => negb (prefixb p (u ++ front)) && sfb p u' front
  end.

Lemma starts_free_compute p u front w : (length p <= S (length front))%nat ->
  sfb p u front = true -> starts_free p u (front ++ w).
Proof.
  intros Hl. induction u as [|x u IH]; intros Hb.
  - apply starts_free_nil.
  - simpl in Hb. apply andb_true_iff in Hb. destruct Hb as [Hx Hu]. apply starts_free_cons.
    + change (x :: u ++ front ++ w) with ((x :: u) ++ front ++ w). rewrite app_assoc.
      rewrite prefixb_app_long by (rewrite app_length; simpl; lia).
      apply negb_true_iff in Hx. exact Hx.
    + apply IH. exact Hu.
Qed.

(* a clean c followed by x :: y :: _ where y does not occur in p and p does not end in x *)
Lemma starts_free_clean p c x y w :
  noocc p c -> ~ In y p -> (forall p0, p <> p0 ++ [x]) -> starts_free p c (x :: y :: w).
Proof.
  intros Hn Hy Hx c1 c2 Hc Hne.
  destruct (prefixb p (c2 ++ x :: y :: w)) eqn:Hp; [exfalso|reflexivity].
  destruct (prefixb_app_inv _ _ _ Hp) as [[a2 Ha2]|[p1 [Hp1 Hb]]].
  - pose proof (Hn c1 c2 Hc) as Hf. rewrite Ha2, prefixb_app in Hf. discriminate.
  - destruct p1 as [|z p1].
    + rewrite app_nil_r in Hp1. subst c2. pose proof (Hn c1 p Hc) as Hf.
      pose proof (prefixb_app p []) as Hpp. rewrite app_nil_r in Hpp. congruence.
    + simpl in Hb. apply andb_true_iff in Hb. destruct Hb as [Hzx Hb]. apply N.eqb_eq in Hzx. subst z.
      destruct p1 as [|z p1].
      * apply (Hx c2 Hp1).
      * simpl in Hb. apply andb_true_iff in Hb. destruct Hb as [Hzy _]. apply N.eqb_eq in Hzy. subst z.
        apply Hy. rewrite Hp1. apply in_or_app. right. right. left. reflexivity.
Qed.

Lemma containsb_occ p a b : containsb p (a ++ p ++ b) = true.
Proof.
  unfold containsb. destruct (index_split p (a ++ p ++ b)) as [[x y]|] eqn:Hi; [reflexivity|].
  apply index_split_none in Hi. pose proof (Hi a (p ++ b) eq_refl) as Hf. rewrite prefixb_app in Hf. discriminate.
Qed.

Lemma containsb_false p s : containsb p s = false <-> noocc p s.
Proof.
  unfold containsb. rewrite <- index_split_none. destruct (index_split p s) as [[a b]|]; split; congruence.
Qed.
