open Model
open Common
let dispatch fn args = match fn, args with
  | "stream", [i; o; st; op; cr; ok; doc; logm] ->
    string_of_nlist (k_stream (n_of_hex i) (n_of_hex o) (n_of_hex st) (n_of_hex op) (n_of_hex cr) (n_of_hex ok)
                       (bytes_of_hex doc) (bytes_of_hex logm))
  | "sink", [i; o] -> hex_of_n (k_sink (n_of_hex i) (n_of_hex o))
  | "multi", [stream; js; codes] ->
    let l = k_multi (bool_of_str stream) (bool_of_str js) (nlist_of_string codes) in
    if bool_of_str js then string_of_nlist l else string_of_nlist [List.hd l]
  | "seldec", [codes] -> string_of_nlist (k_seldec (nlist_of_string codes))
  | "stdincopy", [codes] -> string_of_nlist (k_stdincopy (nlist_of_string codes))
  | "exit", [ok] -> hex_of_z (exit_status (bool_of_str ok))
  | _ -> failwith ("unknown function " ^ fn)
let () = main dispatch
