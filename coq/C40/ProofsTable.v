(* C40: obligations over the lock-discipline table that genc40 regenerates from the source. *)
From Coq Require Import NArith List Bool String.
From PV Require Import C40.Model C40.Generated C40.Audit.
Import ListNotations.
Open Scope N_scope.

Definition is_cfg (a : access) : bool := N.eqb (a_var a) V_model_ConfigPath.
Definition is_write (a : access) : bool := match a_kind a with AWrite => true | ARead => false end.

(* every access to the font table, the Once, the load error, the certificate-pool cache fields
   and model.UserCertPool happens while the guarding lock is held in a sufficient mode *)
Lemma discipline_checked : forallb (fun a => is_cfg a || guarded a) accesses = true.
Proof. vm_compute. reflexivity. Qed.

Lemma lock_discipline : forall a, In a accesses -> a_var a <> V_model_ConfigPath -> guarded a = true.
Proof.
  intros a Hin Hne. pose proof discipline_checked as H. rewrite forallb_forall in H.
  specialize (H a Hin). apply orb_prop in H as [H|H]; [|exact H].
  unfold is_cfg in H. apply N.eqb_eq in H. contradiction.
Qed.

(* model.ConfigPath: every WRITE under pkg/ holds mutexDisableConfigDir ... *)
Lemma cfg_writes_checked : forallb (fun a => negb (is_cfg a && is_write a) || guarded a) accesses = true.
Proof. vm_compute. reflexivity. Qed.

Lemma configpath_writes_guarded : forall a, In a accesses ->
  a_var a = V_model_ConfigPath -> a_kind a = AWrite -> guarded a = true.
Proof.
  intros a Hin Hv Hk. pose proof cfg_writes_checked as H. rewrite forallb_forall in H.
  specialize (H a Hin). apply orb_prop in H as [H|H]; [|exact H].
  unfold is_cfg, is_write in H. rewrite Hv, Hk, N.eqb_refl in H. discriminate.
Qed.

(* ... but a READ of it (model.NewDefaultConfiguration) holds no lock at all: the discipline
   does not hold for this variable (api.go says so itself: "NOT a guard for model.ConfigPath"). *)
Lemma configpath_read_unguarded :
  exists a, In a accesses /\ a_var a = V_model_ConfigPath /\ a_kind a = ARead /\ a_lock a = LNone /\ guarded a = false.
Proof.
  assert (H : existsb (fun a => is_cfg a && negb (is_write a) && negb (guarded a)
                                && match a_lock a with LNone => true | _ => false end) accesses = true)
    by (vm_compute; reflexivity).
  apply existsb_exists in H as (a & Hin & Ha). exists a.
  apply andb_prop in Ha as [Ha Hl]. apply andb_prop in Ha as [Ha Hg]. apply andb_prop in Ha as [Hc Hw].
  unfold is_cfg in Hc. apply N.eqb_eq in Hc. unfold is_write in Hw.
  repeat split; auto.
  - destruct (a_kind a); [reflexivity|discriminate].
  - destruct (a_lock a); [reflexivity|discriminate|discriminate].
  - destruct (guarded a); [discriminate|reflexivity].
Qed.

(* each accessor function has exactly one critical section per lock on every path: the
   granularity assumed by Model.step (one [sec] per function and lock) *)
Lemma one_section_checked : forallb (fun x => N.eqb (snd x) 1) lock_extents = true.
Proof. vm_compute. reflexivity. Qed.

Lemma one_section_per_function : forall f l n, In (f, l, n) lock_extents -> n = 1.
Proof.
  intros f l n Hin. pose proof one_section_checked as H. rewrite forallb_forall in H.
  specialize (H _ Hin). cbn in H. apply N.eqb_eq in H. exact H.
Qed.

(* every reader of the font table first runs LoadUserFonts and returns on its error: the
   code's lookups are well-formed operations [SLoad; SLookup _] / [SLoad; SNames] *)
Lemma readers_checked : forallb (fun r => snd r) font_readers = true.
Proof. vm_compute. reflexivity. Qed.

Lemma font_readers_load_first : forall f b, In (f, b) font_readers -> b = true.
Proof.
  intros f b Hin. pose proof readers_checked as H. rewrite forallb_forall in H.
  exact (H _ Hin).
Qed.

Lemma readers_nonempty : font_readers <> [] /\ accesses <> [] /\ lock_extents <> [].
Proof. repeat split; discriminate. Qed.

(* ---- inventory of package-level state: every piece of it is audited ---- *)
Definition mem (n : string) (l : list string) : bool := existsb (String.eqb n) l.

Definition audited_ok (x : string * (bool * (bool * bool))) : bool :=
  let '(n, (im, (wr, mc))) := x in
  (im || mem n audited_all) && (negb (wr || (mc && negb im)) || mem n audited_mutable).

Lemma inventory_checked : forallb audited_ok pkg_vars = true.
Proof. vm_compute. reflexivity. Qed.

Lemma mem_In n l : mem n l = true -> In n l.
Proof.
  unfold mem. intros H. apply existsb_exists in H as (m & Hin & Heq).
  apply String.eqb_eq in Heq. subst. exact Hin.
Qed.

Lemma shared_state_audited : forall n im wr mc, In (n, (im, (wr, mc))) pkg_vars ->
  (im = false -> In n audited_all) /\
  (wr = true \/ (mc = true /\ im = false) -> In n audited_mutable).
Proof.
  intros n im wr mc Hin. pose proof inventory_checked as H. rewrite forallb_forall in H.
  specialize (H _ Hin). cbn in H. apply andb_prop in H as [Ha Hm]. split.
  - intros ->. cbn in Ha. apply mem_In. exact Ha.
  - intros Hw. apply mem_In. apply orb_prop in Hm as [Hm|Hm]; [|exact Hm].
    exfalso. destruct Hw as [->|[-> ->]]; cbn in Hm; [discriminate|].
    destruct wr; cbn in Hm; discriminate.
Qed.

Lemma inventory_nonempty : pkg_vars <> [] /\ audited_mutable <> [] /\ audited_all <> [].
Proof. repeat split; discriminate. Qed.

(* ---- address-escaping variables: their addresses, the flows of those addresses and every explicit
   write through a pointer that could reach them are exactly the audited ones ---- *)
Definition eqb_ss (a b : string * string) : bool := String.eqb (fst a) (fst b) && String.eqb (snd a) (snd b).
Definition eqb_ssn (a b : string * (string * N)) : bool :=
  String.eqb (fst a) (fst b) && String.eqb (fst (snd a)) (fst (snd b)) && N.eqb (snd (snd a)) (snd (snd b)).
Definition sub {A} (eqb : A -> A -> bool) (l1 l2 : list A) : bool := forallb (fun x => existsb (eqb x) l2) l1.

Lemma sub_In {A} (eqb : A -> A -> bool) (Heq : forall a b, eqb a b = true -> a = b) l1 l2 :
  sub eqb l1 l2 = true -> forall x, In x l1 -> In x l2.
Proof.
  unfold sub. intros H x Hin. rewrite forallb_forall in H. specialize (H x Hin).
  apply existsb_exists in H as (y & Hy & He). apply Heq in He. subst. exact Hy.
Qed.

Lemma eqb_ss_eq a b : eqb_ss a b = true -> a = b.
Proof.
  destruct a as [a1 a2], b as [b1 b2]. unfold eqb_ss. cbn. intros H. apply andb_prop in H as [H1 H2].
  apply String.eqb_eq in H1. apply String.eqb_eq in H2. subst. reflexivity.
Qed.

Lemma eqb_ssn_eq a b : eqb_ssn a b = true -> a = b.
Proof.
  destruct a as [a1 [a2 a3]], b as [b1 [b2 b3]]. unfold eqb_ssn. cbn. intros H.
  apply andb_prop in H as [H H3]. apply andb_prop in H as [H1 H2].
  apply String.eqb_eq in H1. apply String.eqb_eq in H2. apply N.eqb_eq in H3. subst. reflexivity.
Qed.

Lemma str_eqb_eq (a b : string) : String.eqb a b = true -> a = b.
Proof. apply String.eqb_eq. Qed.

Lemma escaping_checked :
  sub String.eqb addr_escaping audited_escaping && sub String.eqb audited_escaping addr_escaping
  && sub eqb_ss addr_flows audited_addr_flows && sub eqb_ss audited_addr_flows addr_flows
  && sub eqb_ssn deref_writes audited_deref_writes && sub eqb_ssn audited_deref_writes deref_writes = true.
Proof. vm_compute. reflexivity. Qed.

Lemma escaping_pointees_audited :
  (forall v, In v addr_escaping <-> In v audited_escaping) /\
  (forall f, In f addr_flows <-> In f audited_addr_flows) /\
  (forall w, In w deref_writes <-> In w audited_deref_writes).
Proof.
  pose proof escaping_checked as H.
  apply andb_prop in H as [H H6]. apply andb_prop in H as [H H5]. apply andb_prop in H as [H H4].
  apply andb_prop in H as [H H3]. apply andb_prop in H as [H1 H2].
  split; [|split]; intros x; split.
  - apply (sub_In _ str_eqb_eq _ _ H1).
  - apply (sub_In _ str_eqb_eq _ _ H2).
  - apply (sub_In _ eqb_ss_eq _ _ H3).
  - apply (sub_In _ eqb_ss_eq _ _ H4).
  - apply (sub_In _ eqb_ssn_eq _ _ H5).
  - apply (sub_In _ eqb_ssn_eq _ _ H6).
Qed.
