(* C29 glue: parse a document description, run the extracted model, render canonically.
   doc args:  fields  flags  pages  others
     fields : forest in pre-order, node = id:ft:w:r:p(kids)   ft in - T B C S, w/r in 0 1, p = - or hex
     flags  : six chars 0/1 : sigflags perms perm dss legal ext
     pages  : pid:a,b,c|pid:-|pid:        ("-" = no /Annots, "" = empty array)
     others : id:ft,id:ft *)
open Model
open Common

let ft_of_char = function
  | '-' -> None | 'T' -> Some Tx | 'B' -> Some Btn | 'C' -> Some Ch | 'S' -> Some Sig
  | _ -> failwith "bad ft"
let str_of_ft = function None -> "-" | Some Tx -> "T" | Some Btn -> "B" | Some Ch -> "C" | Some Sig -> "S"

let parse_forest (s : string) : field list =
  let n = String.length s in
  let pos = ref 0 in
  let until stops =
    let st = !pos in
    while !pos < n && not (List.mem s.[!pos] stops) do incr pos done;
    String.sub s st (!pos - st) in
  let expect c = if !pos < n && s.[!pos] = c then incr pos else failwith "parse" in
  let rec node () =
    let id = n_of_hex (until [':']) in expect ':';
    let ft = ft_of_char s.[!pos] in incr pos; expect ':';
    let w = s.[!pos] = '1' in incr pos; expect ':';
    let r = s.[!pos] = '1' in incr pos; expect ':';
    let ps = until ['('] in
    let p = if ps = "-" then None else Some (n_of_hex ps) in
    expect '(';
    let ks = nodes () in
    expect ')';
    Field (id, ft, w, r, p, ks)
  and nodes () =
    if !pos < n && s.[!pos] <> ')' then (let x = node () in x :: nodes ()) else [] in
  let l = nodes () in
  if !pos <> n then failwith "trailing"; l

let parse_pages (s : string) : (n * n list option) list =
  if s = "" then [] else
  List.map (fun ps ->
    match String.index_opt ps ':' with
    | None -> failwith "page"
    | Some i ->
      let pid = n_of_hex (String.sub ps 0 i) in
      let rest = String.sub ps (i + 1) (String.length ps - i - 1) in
      (pid, if rest = "-" then None else Some (nlist_of_string rest)))
    (String.split_on_char '|' s)

let parse_others (s : string) : (n * ftype option) list =
  if s = "" then [] else
  List.map (fun os ->
    match String.split_on_char ':' os with
    | [i; f] -> (n_of_hex i, ft_of_char f.[0])
    | _ -> failwith "other") (String.split_on_char ',' s)

let parse_doc fields flags pages others : doc =
  let fl = parse_forest fields in
  let b i = flags.[i] = '1' in
  { d_form = (match fl with [] -> None | _ -> Some { fm_fields = fl; fm_sigflags = b 0 });
    d_acro = (match fl with [] -> false | _ -> true);
    d_perms = b 1; d_perm = b 2; d_dss = b 3; d_legal = b 4; d_ext = b 5;
    d_pages = parse_pages pages; d_others = parse_others others }

let bit b = if b then "1" else "0"
let render (d : doc) : string =
  let pages = String.concat "|" (List.map (fun (pid, a) ->
      hex_of_n pid ^ ":" ^ (match a with None -> "-" | Some l -> string_of_nlist l)) d.d_pages) in
  Printf.sprintf "ok:acro=%s;fields=%s;sf=%s;perms=%s;perm=%s;dss=%s;legal=%s;ext=%s;pages=%s"
    (bit d.d_acro) (string_of_nlist (top_ids d)) (bit (visible_sigflags d))
    (bit d.d_perms) (bit d.d_perm) (bit d.d_dss) (bit d.d_legal) (bit d.d_ext) pages

let render_nodes l = String.concat "," (List.map (fun (i, e) -> hex_of_n i ^ ":" ^ str_of_ft e) l)

let dispatch fn args = match fn, args with
  | ("remove" | "remove_e2e"), [f; fl; p; o] ->
    (match remove_signatures (parse_doc f fl p o) with
     | None -> "err:nosigs"
     | Some d' -> render d')
  | "supported", [f; fl; p; o] -> str_of_bool (supported (parse_doc f fl p o))
  | "sigids", [f; fl; p; o] -> string_of_nlist (sig_ids (parse_doc f fl p o))
  | "nonsig", [f; fl; p; o] -> render_nodes (nonsig_nodes (visible_fields (parse_doc f fl p o)))
  | "forest_after", [f; fl; p; o] ->
    (match remove_signatures (parse_doc f fl p o) with
     | None -> "err:nosigs"
     | Some d' -> "ok:" ^ render_nodes (forest_nodes (visible_fields d')))
  | _ -> failwith ("unknown function " ^ fn)
let () = main dispatch
