// Harness for C38: removing watermarks undoes adding them.
//
//	K  unit level: removeArtifacts / detectArtifacts / wmContent / patchFirstContentStreamForWatermark /
//	   newContentStreamForWatermark (through pkg/pdfcpu/verif_export_c38.go) against the extracted model
//	   on clean, watermarked and malformed content;
//	K  API level: api.AddWatermarks -> api.RemoveWatermarks on generated documents, the decoded streams of
//	   every page after each step against the model's add_page / remove_page, and the document-level
//	   outcome (error class, per-page and whole-document detection) against add_doc / remove_doc / detect_doc;
//	O  the property itself on the implementation: content restored up to white space and one q/Q pair,
//	   no artifact left, detection false/true/false, resources restored, other pages untouched, removal
//	   idempotent, no error / panic.
package main

import (
	"bytes"
	"fmt"
	"image"
	"image/color"
	"image/png"
	"regexp"
	"sort"
	"strings"

	"github.com/pdfcpu/pdfcpu/pkg/api"
	"github.com/pdfcpu/pdfcpu/pkg/pdfcpu"
	"github.com/pdfcpu/pdfcpu/pkg/pdfcpu/model"
	"github.com/pdfcpu/pdfcpu/pkg/pdfcpu/types"
	"verif/vh"
)

func hx(b []byte) string {
	if len(b) == 0 {
		return "-"
	}
	return vh.Hex(b)
}

func encContents(kind int, streams [][]byte) string {
	switch kind {
	case 0:
		return "N"
	case 1:
		return "S:" + hx(streams[0])
	}
	s := make([]string, len(streams))
	for i, c := range streams {
		s[i] = hx(c)
	}
	return "A:" + strings.Join(s, ",")
}

func idsStr(l []string) string {
	s := make([]string, len(l))
	for i, c := range l {
		s[i] = hx([]byte(c))
	}
	return strings.Join(s, ",")
}

func isWS(b byte) bool { return b == 32 || b == 10 || b == 13 || b == 9 || b == 12 || b == 0 }

func trimWS(b []byte) []byte {
	i, j := 0, len(b)
	for i < j && isWS(b[i]) {
		i++
	}
	for j > i && isWS(b[j-1]) {
		j--
	}
	return b[i:j]
}

// equivalent: equal up to leading/trailing white space and one enclosing q ... Q pair.
func equivalent(orig, now []byte) bool {
	o, n := trimWS(orig), trimWS(now)
	if bytes.Equal(o, n) {
		return true
	}
	if len(n) >= 4 && n[0] == 'q' && n[len(n)-1] == 'Q' && isWS(n[1]) && isWS(n[len(n)-2]) {
		return bytes.Equal(o, trimWS(n[1:len(n)-1]))
	}
	if len(n) == 3 && n[0] == 'q' && n[2] == 'Q' && isWS(n[1]) {
		return len(o) == 0
	}
	return false
}

func joinStreams(ss [][]byte) []byte { return bytes.Join(ss, []byte{10}) }

func recoverTo(r *vh.Run, class string, input any) {
	if e := recover(); e != nil {
		r.OracleFail("panic:"+class, input, fmt.Sprint(e))
	}
}

// ---------------------------------------------------------------- unit level

const block = markerStr + " q 1.00000 0.00000 0.00000 1.00000 10.50000 -3.25000 cm /GS3 gs /Fm12 Do Q EMC"

var dirty = []string{
	block, " " + block + " ", markerStr, markerStr + " q 1 0 0 1 0 0 cm /GS0 gs /Fm0 Do Q", // no EMC
	markerStr + "EMC", markerStr + " /GS gs /Fm Do EMC", markerStr + " /GS1 /Fm2 EMC", markerStr + "/GS9 gs/Fm9 Do EMC",
	markerStr + " q /Fm1 Do /GS2 gs Q EMC", markerStr + " /GS1 gs /GS2 gs /Fm1 Do /Fm2 Do EMC",
	"/Artifact <</Subtype /Water" + block + "mark /Type /Pagination >>BDC q /GS5 gs /Fm6 Do Q EMC", // a marker appears after the first removal
	markerStr + markerStr + " EMC EMC", "EMC " + markerStr, markerStr + " (EMC) Tj /GS1 gs EMC",
	markerStr + " /GS1 gs EM", "/GS1 gs " + markerStr + " /Fm1 Do EMC",
}

func genDirty(r *vh.Run) []byte {
	var b bytes.Buffer
	n := 1 + r.Rand.Intn(3)
	for i := 0; i < n; i++ {
		b.Write(genContent(r.Rand, 3))
		b.WriteString(dirty[r.Rand.Intn(len(dirty))])
	}
	b.Write(genContent(r.Rand, 3))
	return b.Bytes()
}

func removeStr(ok bool, gs, fm []string, out []byte) string {
	return fmt.Sprintf("found=%s;c=%s;gs=%s;fm=%s", vh.Bool(ok), hx(out), idsStr(gs), idsStr(fm))
}

func unitRemoveOne(r *vh.Run, c []byte, class string) {
	defer recoverTo(r, "removeArtifacts", map[string]any{"content": string(c)})
	r.Count("unit-remove:" + class)
	ok, gs, fm, out, err := pdfcpu.VerifC38RemoveArtifacts(c)
	if err != nil {
		r.Case("remove", []string{hx(c)}, "err")
		r.OracleFail("remove-artifacts-error", map[string]any{"content": string(c)}, err.Error())
		return
	}
	r.Case("remove", []string{hx(c)}, removeStr(ok, gs, fm, out))
	det, err := pdfcpu.VerifC38DetectArtifacts(c)
	if err != nil {
		r.OracleFail("detect-artifacts-error", map[string]any{"content": string(c)}, err.Error())
		return
	}
	r.Case("detect", []string{hx(c)}, vh.Bool(det))
	// O: removing twice = removing once
	ok2, gs2, fm2, out2, err := pdfcpu.VerifC38RemoveArtifacts(out)
	if err != nil || ok2 || len(gs2) != 0 || len(fm2) != 0 || !bytes.Equal(out2, out) {
		r.OracleFail("remove-not-idempotent", map[string]any{"content": string(c)}, fmt.Sprintf("second removal: found=%v %q", ok2, out2))
	} else {
		r.OracleOK()
	}
	// O: detection agrees with the presence of the marker, and clean content is untouched
	has := bytes.Contains(c, []byte(markerStr))
	if det != has {
		r.OracleFail("detect-artifacts-wrong", map[string]any{"content": string(c)}, fmt.Sprintf("detect=%v marker-present=%v", det, has))
	} else {
		r.OracleOK()
	}
	if !has && (ok || !bytes.Equal(out, c)) {
		r.OracleFail("remove-touches-clean-content", map[string]any{"content": string(c)}, fmt.Sprintf("found=%v %q", ok, out))
	} else {
		r.OracleOK()
	}
}

func unitRemove(r *vh.Run) {
	for _, d := range dirty {
		unitRemoveOne(r, []byte(d), "dirty-fixed")
	}
	for _, v := range vocab {
		unitRemoveOne(r, []byte(v), "vocab")
	}
	unitRemoveOne(r, nil, "empty")
	n := r.Pick(300, 3000)
	for i := 0; i < n; i++ {
		if i%2 == 0 {
			unitRemoveOne(r, genContent(r.Rand, 10), "clean-random")
		} else {
			unitRemoveOne(r, genDirty(r), "dirty-random")
		}
	}
}

var positions = []string{"tl", "tc", "tr", "l", "c", "r", "bl", "bc", "br"}

func genDesc(r *vh.Run, kind string) string {
	var p []string
	if r.Rand.Intn(2) == 0 {
		p = append(p, "pos:"+positions[r.Rand.Intn(len(positions))])
	}
	if r.Rand.Intn(2) == 0 {
		p = append(p, fmt.Sprintf("off:%d %d", r.Rand.Intn(200)-100, r.Rand.Intn(200)-100))
	}
	switch r.Rand.Intn(3) {
	case 0:
		p = append(p, fmt.Sprintf("rot:%.1f", r.Rand.Float64()*360-180))
	case 1:
		p = append(p, fmt.Sprintf("diagonal:%d", 1+r.Rand.Intn(2)))
	}
	if r.Rand.Intn(2) == 0 {
		if r.Rand.Intn(2) == 0 {
			p = append(p, fmt.Sprintf("scale:%.2f rel", 0.1+r.Rand.Float64()*0.9))
		} else {
			p = append(p, fmt.Sprintf("scale:%.2f abs", 0.2+r.Rand.Float64()*2))
		}
	}
	if r.Rand.Intn(2) == 0 {
		p = append(p, fmt.Sprintf("op:%.2f", r.Rand.Float64()))
	}
	if kind == "text" && r.Rand.Intn(3) == 0 {
		p = append(p, fmt.Sprintf("points:%d", 8+r.Rand.Intn(40)))
	}
	return strings.Join(p, ", ")
}

func pngBytes() []byte {
	im := image.NewRGBA(image.Rect(0, 0, 8, 6))
	for x := 0; x < 8; x++ {
		for y := 0; y < 6; y++ {
			im.Set(x, y, color.RGBA{uint8(x * 30), uint8(y * 40), 120, 255})
		}
	}
	var b bytes.Buffer
	png.Encode(&b, im)
	return b.Bytes()
}

var stampPDF = buildPDF(docSpec{Pages: []pageSpec{{Kind: 1, Streams: [][]byte{[]byte("0.9 g 0 0 200 100 re f")}}}})

func newWM(r *vh.Run, kind string, onTop bool, desc string) (*model.Watermark, error) {
	switch kind {
	case "image":
		return api.ImageWatermarkForReader(bytes.NewReader(pngBytes()), desc, onTop, false, types.POINTS)
	case "pdf":
		return api.PDFWatermarkForReadSeeker(bytes.NewReader(stampPDF), 1, desc, onTop, false, types.POINTS)
	}
	texts := []string{"Draft", "CONFIDENTIAL", "EMC", "/GS1 gs", "Line1\nLine2", "(x) EMC Q"}
	return api.TextWatermark(texts[r.Rand.Intn(len(texts))], desc, onTop, false, types.POINTS)
}

var kinds = []string{"text", "image", "pdf"}

func mtxString(wm *model.Watermark) string {
	m := wm.CalcTransformMatrix()
	return fmt.Sprintf("%.5f %.5f %.5f %.5f %.5f %.5f", m[0][0], m[0][1], m[1][0], m[1][1], m[2][0], m[2][1])
}

func unitPatch(r *vh.Run) {
	ctx, err := api.ReadContext(bytes.NewReader(stampPDF), newConf())
	if err != nil {
		panic(err)
	}
	n := r.Pick(150, 1500)
	for i := 0; i < n; i++ {
		func() {
			onTop := r.Rand.Intn(2) == 0
			isLast := r.Rand.Intn(2) == 0
			desc := genDesc(r, "text")
			wm, err := newWM(r, "text", onTop, desc)
			if err != nil {
				panic(fmt.Sprintf("desc %q: %v", desc, err))
			}
			wm.Bb = types.NewRectangle(0, 0, 10+r.Rand.Float64()*300, 5+r.Rand.Float64()*100)
			wm.Vp = types.NewRectangle(0, 0, 612, 792)
			rots := []int{0, 0, 0, 90, 180, 270}
			wm.PageRot = rots[r.Rand.Intn(len(rots))]
			gsID := fmt.Sprintf("GS%d", r.Rand.Intn(120))
			xoID := fmt.Sprintf("Fm%d", r.Rand.Intn(120))
			c := genContent(r.Rand, 8)
			if r.Rand.Intn(6) == 0 {
				c = genDirty(r)
			}
			in := map[string]any{"onTop": onTop, "isLast": isLast, "desc": desc, "rot": wm.PageRot, "gs": gsID, "xo": xoID, "content": string(c)}
			defer recoverTo(r, "patch", in)
			r.Count(fmt.Sprintf("unit-patch:onTop=%v,isLast=%v,rot=%d", onTop, isLast, wm.PageRot))
			wmbb, err := pdfcpu.VerifC38WMContent(wm, gsID, xoID)
			if err != nil {
				r.OracleFail("wmcontent-error", in, err.Error())
				return
			}
			mtx := mtxString(wm)
			r.Case("wmcontent", []string{hx([]byte(mtx)), hx([]byte(gsID)), hx([]byte(xoID))}, hx(wmbb))
			rot := "-"
			if wm.PageRot != 0 {
				rot = "r" + vh.Hex(model.ContentBytesForPageRotation(wm.PageRot, wm.Vp.Width(), wm.Vp.Height()))
			}
			out, err := pdfcpu.VerifC38PatchFirst(c, gsID, xoID, wm, isLast)
			if err != nil {
				r.OracleFail("patch-error", in, err.Error())
				return
			}
			r.Case("patch", []string{vh.Bool(onTop), rot, hx(wmbb), hx(c), vh.Bool(isLast)}, hx(out))
			ns, err := pdfcpu.VerifC38NewStream(ctx, gsID, xoID, wm)
			if err != nil {
				r.OracleFail("newstream-error", in, err.Error())
				return
			}
			r.Case("newstream", []string{vh.Bool(onTop), rot, hx(wmbb)}, hx(ns))
			// O (unrotated, artifact-free content, whole stream): remove undoes patch
			if wm.PageRot != 0 || !isLast || bytes.Contains(c, []byte(markerStr)) {
				return
			}
			det, _ := pdfcpu.VerifC38DetectArtifacts(out)
			ok, gs, fm, back, err := pdfcpu.VerifC38RemoveArtifacts(out)
			det2, _ := pdfcpu.VerifC38DetectArtifacts(back)
			switch {
			case err != nil:
				r.OracleFail("remove-artifacts-error", in, err.Error())
			case !det:
				r.OracleFail("unit-added-not-detected", in, string(out))
			case !ok || det2:
				r.OracleFail("unit-watermark-remains", in, string(back))
			case !equivalent(c, back):
				r.OracleFail("unit-content-not-restored", in, fmt.Sprintf("%q -> %q", c, back))
			case len(gs) != 1 || gs[0] != gsID || len(fm) != 1 || fm[0] != xoID:
				r.OracleFail("unit-resource-ids-wrong", in, fmt.Sprintf("gs=%v fm=%v", gs, fm))
			default:
				r.OracleOK()
			}
		}()
	}
}

// ---------------------------------------------------------------- API level

var wmRe = regexp.MustCompile(`/Artifact <</Subtype /Watermark /Type /Pagination >>BDC q (.*?) cm /(\S+) gs /(\S+) Do Q EMC`)

func selStrings(mask []bool) []string {
	var s []string
	for i, b := range mask {
		if b {
			s = append(s, fmt.Sprint(i+1))
		}
	}
	return s
}

func maskStr(mask []bool) string {
	var b strings.Builder
	for _, m := range mask {
		if m {
			b.WriteByte('1')
		} else {
			b.WriteByte('0')
		}
	}
	return b.String()
}

func errClass(err error) string {
	s := err.Error()
	switch {
	case strings.Contains(s, "no page watermark found"):
		return "nocontents"
	case strings.Contains(s, "no resource dict found"):
		return "noresources"
	case strings.Contains(s, "no watermarks found"):
		if strings.Contains(s, "locate optional content groups") || strings.Contains(s, "identify watermark optional content group") {
			return "noocg"
		}
		return "nowatermark"
	}
	return "other"
}

// pageFlags: findPageWatermarks per page, on a validated context (validation resolves the lazily
// decoded object-stream objects that findPageWatermarks does not dereference, see hasDoc).
func pageFlags(pdf []byte) (string, error) {
	ctx, err := api.ReadAndValidate(bytes.NewReader(pdf), newConf())
	if err != nil {
		return "", err
	}
	var b strings.Builder
	for p := 1; p <= ctx.PageCount; p++ {
		f, err := pdfcpu.VerifC38FindPageWatermarks(ctx, p)
		if err != nil {
			return "", err
		}
		if f {
			b.WriteByte('1')
		} else {
			b.WriteByte('0')
		}
	}
	return b.String(), nil
}

func resFlags(obs []pageObs) string {
	var b strings.Builder
	for _, p := range obs {
		if p.OwnRes {
			b.WriteByte('1')
		} else {
			b.WriteByte('0')
		}
	}
	return b.String()
}

func sortedCopy(l []string) []string {
	c := append([]string{}, l...)
	sort.Strings(c)
	return c
}

func sameSet(a, b []string) bool { return strings.Join(sortedCopy(a), ",") == strings.Join(sortedCopy(b), ",") }

// hasDoc: api.HasWatermarks. When it fails because a page's /Contents refers to an array stored in an
// object stream (contentObjectForIndRef reads entry.Object without resolving types.LazyObjectStreamObject)
// the failure is reported under its own class and DetectWatermarks is re-run on a validated context so
// that the rest of the flow can still be compared with the model.
func hasDoc(r *vh.Run, pdf []byte, in any) (bool, error) {
	ok, err := api.HasWatermarks(bytes.NewReader(pdf), newConf())
	if err == nil || !strings.Contains(err.Error(), "LazyObjectStreamObject") {
		return ok, err
	}
	r.OracleFail("detect-fails-contents-array-in-object-stream", in, err.Error())
	ctx, err := api.ReadAndValidate(bytes.NewReader(pdf), newConf())
	if err != nil {
		return false, err
	}
	if err := pdfcpu.DetectWatermarks(ctx); err != nil {
		return false, err
	}
	return ctx.Watermarked, nil
}

func apiFlow(r *vh.Run, idx int) {
	nPages := 1 + r.Rand.Intn(4)
	spec := genDocSpec(r.Rand, nPages)
	kind := kinds[r.Rand.Intn(len(kinds))]
	onTop := r.Rand.Intn(2) == 0
	desc := genDesc(r, kind)
	sela := make([]bool, nPages)
	all := r.Rand.Intn(2) == 0
	anySel := false
	for i := range sela {
		sela[i] = all || r.Rand.Intn(2) == 0
		anySel = anySel || sela[i]
	}
	if !anySel {
		sela[r.Rand.Intn(nPages)] = true
	}
	in := map[string]any{"doc": spec, "kind": kind, "onTop": onTop, "desc": desc, "add_pages": selStrings(sela)}
	defer recoverTo(r, "api", in)
	r.Count("api:kind=" + kind + fmt.Sprintf(",onTop=%v", onTop))
	pdf := buildPDF(spec)
	orig, err := observe(pdf)
	if err != nil {
		panic(fmt.Sprintf("generated document unreadable: %v", err))
	}
	for _, p := range orig {
		r.Count(fmt.Sprintf("api-page:kind=%d,streams=%d,ownres=%v", p.Kind, len(p.Streams), p.OwnRes))
	}
	has0, err := hasDoc(r, pdf, in)
	if err != nil || has0 {
		r.OracleFail("detect-on-clean-document", in, fmt.Sprintf("has=%v err=%v", has0, err))
	} else {
		r.OracleOK()
	}
	wm, err := newWM(r, kind, onTop, desc)
	if err != nil {
		panic(fmt.Sprintf("desc %q: %v", desc, err))
	}
	var added bytes.Buffer
	if err := api.AddWatermarks(bytes.NewReader(pdf), &added, selStrings(sela), wm, newConf()); err != nil {
		r.OracleFail("add-error", in, err.Error())
		return
	}
	obsA, err := observe(added.Bytes())
	if err != nil || len(obsA) != len(orig) {
		r.OracleFail("add-output-unreadable", in, fmt.Sprint(err))
		return
	}
	has1, err := hasDoc(r, added.Bytes(), in)
	if err != nil || !has1 {
		r.OracleFail("detect-misses-added-watermark", in, fmt.Sprintf("has=%v err=%v", has1, err))
	} else {
		r.OracleOK()
	}
	flags1, err := pageFlags(added.Bytes())
	if err != nil {
		r.OracleFail("detect-page-error", in, err.Error())
		return
	}
	// unselected pages are untouched by add
	for i, p := range orig {
		if !sela[i] {
			if p.Kind != obsA[i].Kind || !bytes.Equal(joinStreams(p.Streams), joinStreams(obsA[i].Streams)) || len(p.Streams) != len(obsA[i].Streams) {
				r.OracleFail("add-touches-unselected-page", in, fmt.Sprintf("page %d", i+1))
			} else {
				r.OracleOK()
			}
		}
	}

	// removal over all pages and over the pages that were watermarked
	removeWith := func(selr []bool, tag string) {
		var sel []string
		if tag == "sel" {
			sel = selStrings(selr)
		}
		var out bytes.Buffer
		err := api.RemoveWatermarks(bytes.NewReader(added.Bytes()), &out, sel, newConf())
		pagesArg := make([]string, len(orig))
		for i, p := range orig {
			res := "0"
			if p.OwnRes {
				res = "1"
			}
			pagesArg[i] = res + "|" + encContents(p.Kind, p.Streams)
		}
		docArgs := []string{vh.Bool(onTop), "false", maskStr(sela), maskStr(selr), strings.Join(pagesArg, ";")}
		head := fmt.Sprintf("det0=%s|det1=%s:%s|rm=", vh.Bool(has0), vh.Bool(has1), flags1)
		in2 := map[string]any{"doc": spec, "kind": kind, "onTop": onTop, "desc": desc, "add_pages": selStrings(sela), "remove_pages": sel}
		if err != nil {
			cl := errClass(err)
			r.Case("doc", docArgs, head+"err:"+cl)
			switch cl {
			case "nocontents":
				r.OracleFail("remove-fails-unwatermarked-page-without-contents", in2, err.Error())
			case "noresources":
				r.OracleFail("remove-fails-unwatermarked-page-without-own-resources", in2, err.Error())
			default:
				r.OracleFail("remove-error", in2, err.Error())
			}
			return
		}
		obsR, err := observe(out.Bytes())
		if err != nil || len(obsR) != len(orig) {
			r.OracleFail("remove-output-unreadable", in2, fmt.Sprint(err))
			return
		}
		has2, err := hasDoc(r, out.Bytes(), in2)
		flags2, err2 := pageFlags(out.Bytes())
		if err != nil || err2 != nil {
			r.OracleFail("detect-error", in2, fmt.Sprint(err, err2))
			return
		}
		r.Case("doc", docArgs, head+fmt.Sprintf("ok:%s:%s:%s", vh.Bool(has2), flags2, resFlags(obsR)))
		if has2 {
			r.OracleFail("watermark-detected-after-removal", in2, flags2)
		} else {
			r.OracleOK()
		}
		for i, p := range orig {
			o, n := joinStreams(p.Streams), joinStreams(obsR[i].Streams)
			if bytes.Contains(n, []byte(markerStr)) {
				r.OracleFail("artifact-remains-after-removal", in2, fmt.Sprintf("page %d: %q", i+1, n))
				continue
			}
			if !equivalent(o, n) {
				r.OracleFail("content-not-restored", in2, fmt.Sprintf("page %d: %q -> %q", i+1, o, n))
				continue
			}
			if !sela[i] && !bytes.Equal(o, n) {
				r.OracleFail("remove-touches-unwatermarked-page", in2, fmt.Sprintf("page %d: %q -> %q", i+1, o, n))
				continue
			}
			if p.OwnRes && (!sameSet(p.GS, obsR[i].GS) || !sameSet(p.XO, obsR[i].XO)) {
				r.OracleFail("resources-not-restored", in2, fmt.Sprintf("page %d: gs %v -> %v, xobjects %v -> %v", i+1, p.GS, obsR[i].GS, p.XO, obsR[i].XO))
				continue
			}
			if obsR[i].Annots != 0 {
				r.OracleFail("link-annotation-remains", in2, fmt.Sprintf("page %d", i+1))
				continue
			}
			r.OracleOK()
		}
		// K per watermarked page: streams after add and after remove against the model
		for i, p := range orig {
			if !sela[i] || !selr[i] {
				continue
			}
			var m [][]byte
			for _, s := range obsA[i].Streams {
				if m = wmRe.FindSubmatch(s); m != nil {
					break
				}
			}
			if m == nil {
				r.OracleFail("no-watermark-block-on-selected-page", in2, fmt.Sprintf("page %d", i+1))
				continue
			}
			r.Case("pageapi", []string{vh.Bool(onTop), hx(m[1]), hx(m[2]), hx(m[3]), encContents(p.Kind, p.Streams)},
				fmt.Sprintf("add=%s|det=%s|rm=%s|det2=%s", encContents(obsA[i].Kind, obsA[i].Streams), vh.Bool(flags1[i] == '1'),
					encContents(obsR[i].Kind, obsR[i].Streams), vh.Bool(flags2[i] == '1')))
		}
	}
	allMask := make([]bool, nPages)
	for i := range allMask {
		allMask[i] = true
	}
	removeWith(allMask, "all")
	removeWith(sela, "sel")
	_ = idx
}

func main() {
	api.DisableConfigDir()
	r := vh.Start("C38")
	defer r.Finish()
	unitRemove(r)
	unitPatch(r)
	n := r.Pick(60, 700)
	for i := 0; i < n; i++ {
		apiFlow(r, i)
	}
	seqFlows(r)
	treeFlows(r)
}

// ---------------------------------------------------------------- sequences of adds on the same pages

// equivalentN: equal up to white space and any number of nested enclosing q ... Q pairs
// (one pair per on-top add).
func equivalentN(orig, now []byte) bool {
	o, n := trimWS(orig), trimWS(now)
	for {
		if bytes.Equal(o, n) {
			return true
		}
		if len(n) >= 3 && n[0] == 'q' && n[len(n)-1] == 'Q' && isWS(n[1]) && isWS(n[len(n)-2]) {
			n = trimWS(n[1 : len(n)-1])
			continue
		}
		return false
	}
}

var wmReAll = regexp.MustCompile(`/Artifact <</Subtype /Watermark /Type /Pagination >>BDC q (.*?) cm /(\S+) gs /(\S+) Do Q EMC`)

// seqFlow: AddWatermarks called len(pattern) times on all pages (pattern[i] = onTop of call i), then
// RemoveWatermarks over all pages, then HasWatermarks.
func seqFlow(r *vh.Run, spec docSpec, pattern []bool, kindsSeq []string) {
	in := map[string]any{"doc": spec, "onTop_sequence": pattern, "kinds": kindsSeq}
	defer recoverTo(r, "seq", in)
	r.Count(fmt.Sprintf("seq:pattern=%v", pattern))
	pdf := buildPDF(spec)
	orig, err := observe(pdf)
	if err != nil {
		panic(fmt.Sprintf("generated document unreadable: %v", err))
	}
	cur := pdf
	type blk struct{ onTop bool; mtx, gs, xo []byte }
	perPage := make([][]blk, len(orig))
	seen := make([]map[string]bool, len(orig))
	for i := range seen {
		seen[i] = map[string]bool{}
	}
	for step, onTop := range pattern {
		wm, err := newWM(r, kindsSeq[step], onTop, genDesc(r, kindsSeq[step]))
		if err != nil {
			panic(err)
		}
		var out bytes.Buffer
		if err := api.AddWatermarks(bytes.NewReader(cur), &out, nil, wm, newConf()); err != nil {
			r.OracleFail("add-error", in, fmt.Sprintf("call %d: %v", step+1, err))
			return
		}
		cur = out.Bytes()
		obs, err := observe(cur)
		if err != nil || len(obs) != len(orig) {
			r.OracleFail("add-output-unreadable", in, fmt.Sprint(err))
			return
		}
		for i, p := range obs {
			found := false
			for _, s := range p.Streams {
				for _, m := range wmReAll.FindAllSubmatch(s, -1) {
					if key := string(m[2]) + "/" + string(m[3]); !seen[i][key] {
						seen[i][key] = true
						perPage[i] = append(perPage[i], blk{onTop, m[1], m[2], m[3]})
						found = true
					}
				}
			}
			if !found {
				r.OracleFail("no-watermark-block-on-selected-page", in, fmt.Sprintf("page %d call %d", i+1, step+1))
				return
			}
		}
	}
	obsA, _ := observe(cur)
	has1, err := hasDoc(r, cur, in)
	if err != nil || !has1 {
		r.OracleFail("detect-misses-added-watermark", in, fmt.Sprintf("has=%v err=%v", has1, err))
	} else {
		r.OracleOK()
	}
	flags1, err := pageFlags(cur)
	if err != nil {
		r.OracleFail("detect-page-error", in, err.Error())
		return
	}
	var out bytes.Buffer
	if err := api.RemoveWatermarks(bytes.NewReader(cur), &out, nil, newConf()); err != nil {
		r.OracleFail("remove-error", in, err.Error())
		return
	}
	obsR, err := observe(out.Bytes())
	if err != nil || len(obsR) != len(orig) {
		r.OracleFail("remove-output-unreadable", in, fmt.Sprint(err))
		return
	}
	has2, err := hasDoc(r, out.Bytes(), in)
	flags2, err2 := pageFlags(out.Bytes())
	if err != nil || err2 != nil {
		r.OracleFail("detect-error", in, fmt.Sprint(err, err2))
		return
	}
	// K per page
	for i, p := range orig {
		var seq []string
		for _, b := range perPage[i] {
			seq = append(seq, vh.Bool(b.onTop)+":"+hx(b.mtx)+":"+hx(b.gs)+":"+hx(b.xo))
		}
		r.Case("pageseq", []string{strings.Join(seq, ";"), encContents(p.Kind, p.Streams)},
			fmt.Sprintf("add=%s|det=%s|rm=%s|det2=%s", encContents(obsA[i].Kind, obsA[i].Streams), vh.Bool(flags1[i] == '1'),
				encContents(obsR[i].Kind, obsR[i].Streams), vh.Bool(flags2[i] == '1')))
	}
	// O
	left := false
	for i, p := range orig {
		in3 := map[string]any{"doc": spec, "onTop_sequence": pattern, "kinds": kindsSeq, "page": i + 1}
		ss := obsR[i].Streams
		bad := -1
		for j, s := range ss {
			if bytes.Contains(s, []byte(markerStr)) {
				bad = j
				break
			}
		}
		if bad >= 0 {
			left = true
			if bad > 0 && bad < len(ss)-1 {
				// the artifact sits in a stream that is neither the first nor the last of the array:
				// an earlier stamp stream pushed inwards by a later AddWatermarks call
				r.OracleFail("stamp-left-behind-after-later-add-on-multistream-page", in3,
					fmt.Sprintf("stream %d of %d still holds %q; HasWatermarks after removal = %v, findPageWatermarks = %v", bad+1, len(ss), ss[bad], has2, flags2[i] == '1'))
			} else {
				r.OracleFail("artifact-remains-after-removal", in3, fmt.Sprintf("stream %d of %d: %q", bad+1, len(ss), ss[bad]))
			}
			continue
		}
		o, n := joinStreams(p.Streams), joinStreams(ss)
		switch {
		case !equivalentN(o, n):
			r.OracleFail("content-not-restored", in3, fmt.Sprintf("%q -> %q", o, n))
		case p.OwnRes && (!sameSet(p.GS, obsR[i].GS) || !sameSet(p.XO, obsR[i].XO)):
			r.OracleFail("resources-not-restored", in3, fmt.Sprintf("gs %v -> %v, xobjects %v -> %v", p.GS, obsR[i].GS, p.XO, obsR[i].XO))
		default:
			r.OracleOK()
		}
	}
	if has2 && !left {
		r.OracleFail("watermark-detected-after-removal", in, flags2)
	} else if !left {
		r.OracleOK()
	}
}

func seqFlows(r *vh.Run) {
	// every on-top/background order of length 2 and 3, on pages with no content, one stream,
	// and arrays of 1, 2 and 3 streams
	var patterns [][]bool
	for n := 2; n <= 3; n++ {
		for m := 0; m < 1<<n; m++ {
			p := make([]bool, n)
			for i := range p {
				p[i] = m>>i&1 == 1
			}
			patterns = append(patterns, p)
		}
	}
	rounds := r.Pick(1, 6)
	for round := 0; round < rounds; round++ {
		for _, pat := range patterns {
			var spec docSpec
			spec.Pages = append(spec.Pages, pageSpec{Kind: 1, Streams: [][]byte{genContent(r.Rand, 6)}, Flate: r.Rand.Intn(2) == 0})
			for n := 1; n <= 3; n++ {
				var ss [][]byte
				for j := 0; j < n; j++ {
					ss = append(ss, genContent(r.Rand, 4))
				}
				spec.Pages = append(spec.Pages, pageSpec{Kind: 2, Streams: ss, Flate: r.Rand.Intn(2) == 0})
			}
			if r.Rand.Intn(2) == 0 {
				spec.Pages = append(spec.Pages, pageSpec{Kind: 0})
			}
			ks := make([]string, len(pat))
			for i := range ks {
				ks[i] = kinds[r.Rand.Intn(len(kinds))]
			}
			seqFlow(r, spec, pat, ks)
		}
	}
}

// ---------------------------------------------------------------- page trees x partial selections

func subsetMask(n, bits int) []bool {
	m := make([]bool, n)
	for i := range m {
		m[i] = bits>>i&1 == 1
	}
	return m
}

func anyTrue(m []bool) bool {
	for _, b := range m {
		if b {
			return true
		}
	}
	return false
}

// treeFlow: one page tree, one add selection, several removal selections.
// Every page has its own /Resources and a /Contents entry (the two known removal defects stay out).
func treeFlow(r *vh.Run, spec docSpec, pdf []byte, orig []pageObs, sela []bool, selrs [][]bool) {
	n := len(orig)
	onTop := r.Rand.Intn(2) == 0
	in := map[string]any{"tree": spec.Tree.shape(), "pages": n, "onTop": onTop, "add_pages": selStrings(sela), "doc": spec}
	defer recoverTo(r, "tree", in)
	r.Count(fmt.Sprintf("tree:pages=%d,depth=%d", n, spec.Tree.depth()))
	wm, err := newWM(r, "text", onTop, genDesc(r, "text"))
	if err != nil {
		panic(err)
	}
	var added bytes.Buffer
	if err := api.AddWatermarks(bytes.NewReader(pdf), &added, selStrings(sela), wm, newConf()); err != nil {
		r.OracleFail("add-error", in, err.Error())
		return
	}
	obsA, err := observe(added.Bytes())
	if err != nil || len(obsA) != n {
		r.OracleFail("add-output-unreadable", in, fmt.Sprint(err))
		return
	}
	has1, err := hasDoc(r, added.Bytes(), in)
	if err != nil {
		r.OracleFail("detect-error", in, err.Error())
		return
	}
	flags1, err := pageFlags(added.Bytes())
	if err != nil {
		r.OracleFail("detect-page-error", in, err.Error())
		return
	}
	pagesEnc := func(obs []pageObs) string {
		a := make([]string, len(obs))
		for i, p := range obs {
			res := "0"
			if p.OwnRes {
				res = "1"
			}
			a[i] = res + "|" + encContents(p.Kind, p.Streams)
		}
		return strings.Join(a, ";")
	}
	// K: the tree walk of the model on the pages as they are after the add, in the tree's shape
	r.Case("treedetect", []string{"true", spec.Tree.shape(), pagesEnc(obsA)},
		fmt.Sprintf("walk=%s|flat=%s|order=%s", vh.Bool(has1), vh.Bool(strings.Contains(flags1, "1")), flags1))
	// O: detection = the selection
	if !has1 {
		r.OracleFail("detect-misses-watermark-in-page-tree", in, "HasWatermarks=false, per-page detection "+flags1)
	} else {
		r.OracleOK()
	}
	if flags1 != maskStr(sela) {
		r.OracleFail("page-detection-differs-from-selection", in, flags1+" vs "+maskStr(sela))
	} else {
		r.OracleOK()
	}
	for _, selr := range selrs {
		in2 := map[string]any{"tree": spec.Tree.shape(), "pages": n, "onTop": onTop, "add_pages": selStrings(sela), "remove_pages": selStrings(selr), "doc": spec}
		docArgs := []string{vh.Bool(onTop), "false", maskStr(sela), maskStr(selr), pagesEnc(orig)}
		head := fmt.Sprintf("det0=false|det1=%s:%s|rm=", vh.Bool(has1), flags1)
		want := make([]bool, n) // still watermarked after the removal
		both := false
		for i := range want {
			want[i] = sela[i] && !selr[i]
			both = both || (sela[i] && selr[i])
		}
		var out bytes.Buffer
		err := api.RemoveWatermarks(bytes.NewReader(added.Bytes()), &out, selStrings(selr), newConf())
		if err != nil {
			cl := errClass(err)
			r.Case("doc", docArgs, head+"err:"+cl)
			if both || cl != "nowatermark" {
				r.OracleFail("remove-error", in2, err.Error())
			} else {
				r.OracleOK()
			}
			continue
		}
		obsR, err := observe(out.Bytes())
		if err != nil || len(obsR) != n {
			r.OracleFail("remove-output-unreadable", in2, fmt.Sprint(err))
			continue
		}
		has2, err := hasDoc(r, out.Bytes(), in2)
		flags2, err2 := pageFlags(out.Bytes())
		if err != nil || err2 != nil {
			r.OracleFail("detect-error", in2, fmt.Sprint(err, err2))
			continue
		}
		r.Case("doc", docArgs, head+fmt.Sprintf("ok:%s:%s:%s", vh.Bool(has2), flags2, resFlags(obsR)))
		r.Case("treedetect", []string{"true", spec.Tree.shape(), pagesEnc(obsR)},
			fmt.Sprintf("walk=%s|flat=%s|order=%s", vh.Bool(has2), vh.Bool(strings.Contains(flags2, "1")), flags2))
		switch {
		case has2 != anyTrue(want):
			r.OracleFail("detect-wrong-after-partial-removal", in2, fmt.Sprintf("HasWatermarks=%v, still watermarked %s", has2, maskStr(want)))
		case flags2 != maskStr(want):
			r.OracleFail("partial-removal-wrong-pages", in2, flags2+" vs "+maskStr(want))
		default:
			r.OracleOK()
		}
		for i, p := range orig {
			o, a, n2 := joinStreams(p.Streams), joinStreams(obsA[i].Streams), joinStreams(obsR[i].Streams)
			switch {
			case want[i] && (!bytes.Equal(a, n2) || len(obsA[i].Streams) != len(obsR[i].Streams)):
				r.OracleFail("removal-touches-unselected-watermarked-page", in2, fmt.Sprintf("page %d", i+1))
			case !want[i] && (bytes.Contains(n2, []byte(markerStr)) || !equivalent(o, n2)):
				r.OracleFail("content-not-restored", in2, fmt.Sprintf("page %d: %q -> %q", i+1, o, n2))
			case !sela[i] && !bytes.Equal(o, n2):
				r.OracleFail("remove-touches-unwatermarked-page", in2, fmt.Sprintf("page %d", i+1))
			case !want[i] && (!sameSet(p.GS, obsR[i].GS) || !sameSet(p.XO, obsR[i].XO)):
				r.OracleFail("resources-not-restored", in2, fmt.Sprintf("page %d", i+1))
			default:
				r.OracleOK()
			}
		}
	}
}

func treeFlows(r *vh.Run) {
	run := func(n int, tree *treeNode, subsets []int) {
		var spec docSpec
		for i := 0; i < n; i++ {
			k := 1 + r.Rand.Intn(3)
			var ss [][]byte
			for j := 0; j < k; j++ {
				ss = append(ss, genContent(r.Rand, 3))
			}
			kind := 2
			if k == 1 && r.Rand.Intn(2) == 0 {
				kind = 1
			}
			spec.Pages = append(spec.Pages, pageSpec{Kind: kind, Streams: ss})
		}
		spec.Tree = tree
		pdf := buildPDF(spec)
		orig, err := observe(pdf)
		if err != nil || len(orig) != n {
			panic(fmt.Sprintf("generated document unreadable: tree %s: %v", tree.shape(), err))
		}
		if h, err := hasDoc(r, pdf, map[string]any{"tree": tree.shape()}); err != nil || h {
			r.OracleFail("detect-on-clean-document", map[string]any{"tree": tree.shape(), "doc": spec}, fmt.Sprint(h, err))
		}
		all := subsetMask(n, 1<<n-1)
		for _, bits := range subsets {
			sela := subsetMask(n, bits)
			selrs := [][]bool{all, subsetMask(n, 1+r.Rand.Intn(1<<n-1))}
			if r.Thorough() {
				selrs = append(selrs, sela, subsetMask(n, 1+r.Rand.Intn(1<<n-1)))
			}
			treeFlow(r, spec, pdf, orig, sela, selrs)
		}
	}
	allSubsets := func(n int) []int {
		var s []int
		for b := 1; b < 1<<n; b++ {
			s = append(s, b)
		}
		return s
	}
	for n := 1; n <= 5; n++ {
		trees := fixedTrees(n)
		extra := r.Pick(1, 4)
		for i := 0; i < extra; i++ {
			trees = append(trees, genTree(r.Rand, 0, n, 2+r.Rand.Intn(3)))
		}
		if !r.Thorough() && n >= 4 {
			// quick tier: every subset on the merge-like trees, a sample on the others
			for i, t := range trees {
				if i == 1 || (i == 2 && n == 4) {
					run(n, t, allSubsets(n))
				} else {
					var s []int
					for j := 0; j < 3; j++ {
						s = append(s, 1+r.Rand.Intn(1<<n-1))
					}
					run(n, t, s)
				}
			}
			continue
		}
		for _, t := range trees {
			run(n, t, allSubsets(n))
		}
	}
	// larger page counts, random subsets
	big := r.Pick(2, 40)
	for i := 0; i < big; i++ {
		n := 6 + r.Rand.Intn(7)
		t := genTree(r.Rand, 0, n, 2+r.Rand.Intn(3))
		var s []int
		for j := 0; j < r.Pick(4, 10); j++ {
			s = append(s, 1+r.Rand.Intn(1<<n-1))
		}
		run(n, t, s)
	}
}
