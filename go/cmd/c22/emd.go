// Re-writing an encrypted document whose encryption dictionary says /EncryptMetadata false.
// Such a file is synthesised from pdfcpu's own RC4-40 output (R 2: the file key does not depend on
// EncryptMetadata): the XMP metadata stream is put back in clear (RC4 keeps lengths) and the
// entry is added to the encryption dictionary; offsets after the insertion are shifted.
package main

import (
	"bytes"
	"fmt"
	"regexp"
	"strconv"
	"strings"

	"github.com/pdfcpu/pdfcpu/pkg/api"
	"github.com/pdfcpu/pdfcpu/pkg/pdfcpu/model"
	"verif/vh"
)

func findMetaStream(b []byte) (int, int) {
	i := bytes.Index(b, []byte("/Type/Metadata"))
	if i < 0 {
		return -1, -1
	}
	s := bytes.Index(b[i:], []byte("stream\n"))
	if s < 0 {
		return -1, -1
	}
	s += i + 7
	e := bytes.Index(b[s:], []byte("\nendstream"))
	if e < 0 {
		return -1, -1
	}
	return s, s + e
}

var xrefEntry = regexp.MustCompile(`(\d{10}) (\d{5}) n`)

func makeEmdFalse(enc, plain []byte) ([]byte, string) {
	ps, pe := findMetaStream(plain)
	es, ee := findMetaStream(enc)
	if ps < 0 || es < 0 || pe-ps != ee-es {
		return nil, "metadata stream not found or length differs"
	}
	out := append([]byte{}, enc...)
	copy(out[es:ee], plain[ps:pe])
	pos := bytes.Index(out, []byte("/Filter/Standard"))
	if pos < 0 {
		return nil, "encrypt dict not found"
	}
	ins := []byte("/EncryptMetadata false")
	xr := bytes.LastIndex(out, []byte("\nxref\n"))
	sx := bytes.LastIndex(out, []byte("startxref\n"))
	if xr < 0 || sx < 0 || xr < pos {
		return nil, "classic xref section expected after the encrypt dict"
	}
	// shift xref entries pointing behind the insertion
	sec := xrefEntry.ReplaceAllFunc(out[xr:sx], func(m []byte) []byte {
		off, _ := strconv.Atoi(string(m[:10]))
		if off > pos {
			off += len(ins)
		}
		return []byte(fmt.Sprintf("%010d%s", off, m[10:]))
	})
	tail := string(out[sx+10:])
	nl := strings.IndexByte(tail, '\n')
	off, err := strconv.Atoi(strings.TrimSpace(tail[:nl]))
	if err != nil {
		return nil, "startxref unparsable"
	}
	var res bytes.Buffer
	res.Write(out[:pos])
	res.Write(ins)
	res.Write(out[pos:xr])
	res.Write(sec)
	fmt.Fprintf(&res, "startxref\n%d%s", off+len(ins), tail[nl:])
	return res.Bytes(), ""
}

func e2eEmdFalse(r *vh.Run) {
	g := buildDoc(r.Rand, "gen-emd-false", docOpts{Pages: 1})
	plain, err := plainRewrite(g.Bytes, false)
	if err != nil {
		r.Count("skip:emd-false-baseline")
		return
	}
	enc, err := encryptBytesDoc(g.Bytes, confFor(algs[0], "user", "owner", model.PermissionsAll, false))
	if err != nil {
		r.Count("skip:emd-false-encrypt")
		return
	}
	p, why := makeEmdFalse(enc, plain)
	if p == nil {
		r.Count("skip:emd-false-synthesis:" + why)
		return
	}
	c1, e1 := readCtx(plain, "", "")
	cp, e2 := readCtx(p, "user", "owner")
	if e1 != nil || e2 != nil {
		r.Count(fmt.Sprintf("skip:emd-false-read:%v/%v", e1, e2))
		return
	}
	if cp.E == nil || cp.E.Emd {
		r.Count("skip:emd-false-not-recognised")
		return
	}
	if diffs, _, _ := compareDocs(c1, cp); len(diffs) > 0 {
		r.Count("skip:emd-false-synthetic-file-inconsistent:" + diffs[0])
		return
	}
	r.Count("emd-false:synthetic-file-opens-equal-to-original")
	// re-write keeping the encryption (optimize with both passwords), then open again
	var q bytes.Buffer
	c := model.NewDefaultConfiguration()
	c.UserPW, c.OwnerPW = "user", "owner"
	c.WriteObjectStream, c.WriteXRefStream = false, false
	if err := guard(func() error { return api.Optimize(bytes.NewReader(p), &q, c) }); err != nil {
		r.OracleFail("emd-false-rewrite-failed", map[string]any{"doc": g.Name}, err.Error())
		return
	}
	if !bytes.Contains(q.Bytes(), []byte("/Encrypt")) {
		r.Count("skip:emd-false-rewrite-dropped-encryption")
		return
	}
	base, _ := optimizeBytes(plain, false)
	cb, e3 := readCtx(base, "", "")
	cq, e4 := readCtx(q.Bytes(), "user", "owner")
	if e3 != nil || e4 != nil {
		r.OracleFail("emd-false-metadata-reencrypted", map[string]any{"doc": g.Name, "how": "encrypt RC4-40, put XMP back in clear, add /EncryptMetadata false, api.Optimize with passwords, open"},
			fmt.Sprintf("re-written file unreadable: %v / %v", e3, e4))
		return
	}
	if diffs, _, _ := compareDocs(cb, cq); len(diffs) > 0 {
		r.OracleFail("emd-false-metadata-reencrypted", map[string]any{"doc": g.Name, "how": "encrypt RC4-40, put XMP back in clear, add /EncryptMetadata false, api.Optimize with passwords, open"},
			strings.Join(diffs, " | "))
	} else {
		r.OracleOK()
	}
}
