(* C11 — lemmas about the lexical layer: decimal digits, Atoi, tokens, white space, names,
   literal strings, hex strings. *)
From Coq Require Import NArith ZArith List Bool Lia ZifyBool ZifyNat ZifyN.
From PV Require Import Lib.GoInt C11.Model.
Import ListNotations.
Open Scope N_scope.
Ltac Zify.zify_post_hook ::= Z.div_mod_to_equations.

(* ------------------------------------------------------------------ decimal digits *)

Lemma dval_app : forall l1 l2 a, dval a (l1 ++ l2) = dval (dval a l1) l2.
Proof. intros l1 l2 a. unfold dval. apply fold_left_app. Qed.

Lemma dval_cons : forall a c t, dval a (c :: t) = dval (a * 10 + (c - 48)) t.
Proof. reflexivity. Qed.
Lemma dval_nil : forall a, dval a [] = a.
Proof. reflexivity. Qed.

Lemma udigits_app : forall f n acc, udigits f n acc = udigits f n [] ++ acc.
Proof.
  induction f as [|f IH]; intros n acc; cbn [udigits]; [reflexivity|].
  destruct (n <? 10); [reflexivity|].
  rewrite IH. rewrite (IH _ [_]). rewrite <- app_assoc. reflexivity.
Qed.

Lemma is_digit_dig : forall n, is_digit (48 + n mod 10) = true.
Proof. intros n. unfold is_digit. lia. Qed.

Lemma udigits_digits : forall f n, Forall (fun c => is_digit c = true) (udigits f n []).
Proof.
  induction f as [|f IH]; intros n; cbn [udigits]; [constructor|].
  destruct (n <? 10).
  - constructor; [apply is_digit_dig|constructor].
  - rewrite udigits_app. apply Forall_app. split; [apply IH|].
    constructor; [apply is_digit_dig|constructor].
Qed.

Lemma udigits_nonempty : forall f n, udigits (S f) n [] <> [].
Proof.
  intros f n. cbn [udigits]. destruct (n <? 10); [discriminate|].
  rewrite udigits_app. intros H. apply app_eq_nil in H. destruct H as [_ H]. discriminate.
Qed.

Lemma pow2_S : forall f, 2 ^ N.of_nat (S f) = 2 * 2 ^ N.of_nat f.
Proof. intros f. rewrite Nnat.Nat2N.inj_succ. apply N.pow_succ_r'. Qed.

Lemma udigits_val : forall f n, n < 2 ^ N.of_nat (S f) -> dval 0 (udigits (S f) n []) = n.
Proof.
  induction f as [|f IH]; intros n Hn.
  - change (2 ^ N.of_nat 1) with 2 in Hn. cbn [udigits]. assert (n <? 10 = true) as -> by lia.
    rewrite dval_cons, dval_nil. lia.
  - rewrite pow2_S in Hn.
    change (udigits (S (S f)) n []) with
      (let acc' := [48 + n mod 10] in if n <? 10 then acc' else udigits (S f) (n / 10) acc').
    cbv zeta. destruct (n <? 10) eqn:E.
    + rewrite dval_cons, dval_nil. lia.
    + rewrite udigits_app, dval_app, IH.
      * rewrite dval_cons, dval_nil. lia.
      * lia.
Qed.

Lemma utoa_val : forall n, dval 0 (utoa n) = n.
Proof.
  intros n. unfold utoa. apply udigits_val.
  rewrite Nnat.Nat2N.inj_succ, Nnat.N2Nat.id.
  destruct (N.eq_dec n 0) as [->|Hn]; [reflexivity|].
  apply N.log2_spec. lia.
Qed.

Lemma utoa_digits : forall n, Forall (fun c => is_digit c = true) (utoa n).
Proof. intros n. apply udigits_digits. Qed.

Lemma utoa_nonempty : forall n, utoa n <> [].
Proof. intros n. apply udigits_nonempty. Qed.

Lemma fixdigits_app : forall k n acc, fixdigits k n acc = fixdigits k n [] ++ acc.
Proof.
  induction k as [|k IH]; intros n acc; cbn [fixdigits]; [reflexivity|].
  rewrite IH, (IH _ [_]), <- app_assoc. reflexivity.
Qed.

Lemma fixdigits_digits : forall k n, Forall (fun c => is_digit c = true) (fixdigits k n []).
Proof.
  induction k as [|k IH]; intros n; cbn [fixdigits]; [constructor|].
  rewrite fixdigits_app. apply Forall_app. split; [apply IH|].
  constructor; [apply is_digit_dig|constructor].
Qed.

Lemma fixdigits_length : forall k n acc, length (fixdigits k n acc) = (k + length acc)%nat.
Proof. induction k as [|k IH]; intros n acc; cbn [fixdigits]; [reflexivity|]. rewrite IH. cbn [length]. lia. Qed.

Lemma fixdigits_val : forall k n a, dval a (fixdigits k n []) = a * 10 ^ N.of_nat k + n mod 10 ^ N.of_nat k.
Proof.
  induction k as [|k IH]; intros n a.
  - cbn [fixdigits]. rewrite dval_nil. change (10 ^ N.of_nat 0) with 1. rewrite N.mod_1_r. lia.
  - cbn [fixdigits]. rewrite fixdigits_app, dval_app, IH.
    rewrite Nnat.Nat2N.inj_succ, N.pow_succ_r'.
    rewrite dval_cons, dval_nil.
    assert (Hp : 10 ^ N.of_nat k <> 0) by (apply N.pow_nonzero; lia).
    assert (Hm : n mod (10 * 10 ^ N.of_nat k) = n mod 10 + 10 * ((n / 10) mod 10 ^ N.of_nat k)).
    { rewrite N.mod_mul_r by lia. lia. }
    rewrite Hm. remember (10 ^ N.of_nat k) as p. remember ((n / 10) mod p) as q.
    assert (48 + n mod 10 - 48 = n mod 10) as -> by lia.
    lia.
Qed.

(* the Z view used by Atoi *)
Lemma atoi_digits_ok : forall l a,
  Forall (fun c => is_digit c = true) l ->
  (Z.of_N (dval a l) <= max_u64)%Z ->
  atoi_digits (Z.of_N a) l = AOk (Z.of_N (dval a l)).
Proof.
  induction l as [|c t IH]; intros a Hd Hle; [reflexivity|].
  inversion Hd as [|? ? Hc Ht]; subst.
  assert (Hmono : forall l b, Forall (fun c => is_digit c = true) l -> b <= dval b l).
  { clear. induction l as [|c t IH]; intros b Hd; [rewrite dval_nil; lia|].
    inversion Hd as [|? ? Hc Ht]; subst. rewrite dval_cons.
    specialize (IH (b * 10 + (c - 48)) Ht). unfold is_digit in Hc. lia. }
  cbn [atoi_digits]. rewrite Hc.
  rewrite dval_cons in *.
  pose proof (Hmono t (a * 10 + (c - 48)) Ht) as Hm.
  unfold max_u64, cutoff_u64 in *. unfold is_digit in Hc.
  assert ((1844674407370955162 <=? Z.of_N a)%Z = false) as -> by lia.
  assert (Heq : (Z.of_N a * 10 + Z.of_N (c - 48))%Z = Z.of_N (a * 10 + (c - 48))) by lia.
  rewrite Heq.
  assert ((18446744073709551615 <? Z.of_N (a * 10 + (c - 48)))%Z = false) as -> by lia.
  apply IH; [assumption|lia].
Qed.

Lemma atoi_itoa : forall z, in_i64 z = true -> atoi (itoa z) = AOk z.
Proof.
  intros z Hz. unfold in_i64 in Hz. unfold itoa.
  pose proof (utoa_val (Z.abs_N z)) as Hv.
  pose proof (utoa_digits (Z.abs_N z)) as Hd.
  pose proof (utoa_nonempty (Z.abs_N z)) as Hne.
  assert (Hok : atoi_digits 0 (utoa (Z.abs_N z)) = AOk (Z.of_N (Z.abs_N z))).
  { change 0%Z with (Z.of_N 0). rewrite atoi_digits_ok; [rewrite Hv; reflexivity|assumption|].
    rewrite Hv. unfold max_u64. lia. }
  destruct (z <? 0)%Z eqn:Hneg.
  - unfold atoi.
    change ((45 =? 43) || (45 =? 45)) with true. change (45 =? 45) with true. cbv iota.
    destruct (utoa (Z.abs_N z)) as [|c t] eqn:E; [congruence|].
    rewrite Hok.
    assert ((9223372036854775808 <? Z.of_N (Z.abs_N z))%Z = false) as -> by lia.
    f_equal. lia.
  - destruct (utoa (Z.abs_N z)) as [|c t] eqn:E; [congruence|].
    inversion Hd as [|? ? Hc Ht]; subst.
    unfold atoi. unfold is_digit in Hc.
    assert (c =? 45 = false) as -> by lia.
    assert ((c =? 43) || false = false) as -> by lia.
    rewrite Hok.
    assert ((9223372036854775807 <? Z.of_N (Z.abs_N z))%Z = false) as -> by lia.
    f_equal. lia.
Qed.

(* a character of a written integer: '-' or a digit, so between '(' and '~', never a sign inside *)
Definition numch (c : N) : bool := is_digit c || (c =? 45) || (c =? 46).

Lemma itoa_shape : forall z, exists c t, itoa z = c :: t /\ (is_digit c = true \/ c = 45)
  /\ Forall (fun c => is_digit c = true) t.
Proof.
  intros z. unfold itoa.
  pose proof (utoa_digits (Z.abs_N z)) as Hd.
  pose proof (utoa_nonempty (Z.abs_N z)) as Hne.
  destruct (z <? 0)%Z.
  - exists 45, (utoa (Z.abs_N z)). auto.
  - destruct (utoa (Z.abs_N z)) as [|c t]; [congruence|].
    inversion Hd; subst. exists c, t. auto.
Qed.

(* Atoi fails on a token with a non-digit behind the first character *)
Lemma atoi_digits_bad : forall l a c t, is_digit c = false ->
  atoi_digits a (l ++ c :: t) = ASyntax \/ atoi_digits a (l ++ c :: t) = ARange.
Proof.
  induction l as [|d l IH]; intros a c t Hc; cbn [atoi_digits app].
  - rewrite Hc. auto.
  - destruct (is_digit d); [|auto].
    destruct (cutoff_u64 <=? a)%Z; [auto|].
    destruct (max_u64 <? a * 10 + Z.of_N (d - 48))%Z; [auto|].
    apply IH. assumption.
Qed.

Lemma atoi_bad : forall c0 l c t, is_digit c = false ->
  atoi (c0 :: l ++ c :: t) = ASyntax \/ atoi (c0 :: l ++ c :: t) = ARange.
Proof.
  intros c0 l c t Hc. unfold atoi.
  destruct ((c0 =? 43) || (c0 =? 45)).
  - destruct (l ++ c :: t) as [|x y] eqn:E; [auto|]. rewrite <- E.
    destruct (atoi_digits_bad l 0%Z c t Hc) as [-> | ->]; auto.
  - change (c0 :: l ++ c :: t) with ((c0 :: l) ++ c :: t).
    destruct (atoi_digits_bad (c0 :: l) 0%Z c t Hc) as [H | H]; rewrite H; auto.
Qed.

Lemma atoi_letter : forall c t, is_digit c = false -> c <> 43 -> c <> 45 ->
  atoi (c :: t) = ASyntax.
Proof.
  intros c t Hc H1 H2. unfold atoi.
  assert ((c =? 43) || (c =? 45) = false) as -> by lia.
  cbn [atoi_digits]. rewrite Hc. destruct (c =? 45); reflexivity.
Qed.

(* ------------------------------------------------------------------ classes, white space *)

Definition plain (c : N) : bool := (40 <=? c) && (c <=? 126).

Lemma cls_plain : forall c, plain c = true -> cls c = BOther.
Proof.
  intros c H. unfold plain in H. unfold cls.
  repeat match goal with |- context [?a =? ?b] => replace (a =? b) with false by lia end.
  reflexivity.
Qed.

Lemma cls_33 : forall c, 33 <= c <= 126 -> cls c = BOther \/ cls c = BPct.
Proof.
  intros c H. unfold cls.
  destruct (c =? 37) eqn:E.
  - right.
    repeat match goal with |- context [?a =? ?b] => replace (a =? b) with false by lia end.
    reflexivity.
  - left.
    repeat match goal with |- context [?a =? ?b] => replace (a =? b) with false by lia end.
    reflexivity.
Qed.

Lemma uspace_len_33 : forall c t, 33 <= c <= 126 -> uspace_len (c :: t) = O.
Proof. intros c t H. unfold uspace_len. destruct (cls_33 c H) as [-> | ->]; reflexivity. Qed.

Lemma tls_plain : forall r ne e c t, plain c = true -> tls r false ne e (c :: t) = (c :: t, e).
Proof. intros r ne e c t H. simpl. rewrite (cls_plain c H). reflexivity. Qed.

Lemma cls_32 : cls 32 = BSp. Proof. reflexivity. Qed.

Lemma tls_sp_plain : forall r ne e c t, plain c = true -> tls r false ne e (32 :: c :: t) = (c :: t, e).
Proof. intros r ne e c t H. simpl. rewrite (cls_plain c H). reflexivity. Qed.

Lemma trim_plain : forall c t, plain c = true -> trim (c :: t) = c :: t.
Proof. intros c t H. unfold trim, trim_left_space. rewrite tls_plain by assumption. reflexivity. Qed.

Lemma trim_sp_plain : forall c t, plain c = true -> trim (32 :: c :: t) = c :: t.
Proof. intros c t H. unfold trim, trim_left_space. rewrite tls_sp_plain by assumption. reflexivity. Qed.

(* ------------------------------------------------------------------ tokens *)

Definition tokch (chars : N -> bool) (c : N) : Prop := 33 <= c <= 126 /\ chars c = false.

Lemma tok_split_app : forall chars p r, Forall (tokch chars) p ->
  tok_split chars (p ++ r) =
  match tok_split chars r with Some (p', s) => Some (p ++ p', s) | None => None end.
Proof.
  induction p as [|c p IH]; intros r Hp.
  - cbn [app]. destruct (tok_split chars r) as [[p' s]|]; reflexivity.
  - inversion Hp as [|? ? [Hc1 Hc2] Hp']; subst.
    cbn [tok_split app]. rewrite uspace_len_33 by assumption. rewrite Hc2.
    assert (c =? 0 = false) as -> by lia. cbn [orb negb Nat.eqb].
    rewrite IH by assumption.
    destruct (tok_split chars r) as [[p' s]|]; reflexivity.
Qed.

(* a byte that ends a token for every terminator set used: blank or one of "/<([]>" *)
Definition endch (c : N) : bool := (c =? 32) || in_set set_num2 c.

Lemma tok_split_end : forall chars c t,
  (forall x, in_set set_num2 x = true -> chars x = true) ->
  endch c = true -> tok_split chars (c :: t) = Some ([], c :: t).
Proof.
  intros chars c t Hsub Hc. unfold endch in Hc.
  destruct (c =? 32) eqn:E.
  - apply N.eqb_eq in E. subst. simpl. rewrite orb_true_r. reflexivity.
  - simpl in Hc. cbn [tok_split]. rewrite (Hsub c Hc). rewrite orb_true_r. reflexivity.
Qed.

Lemma tok_split_tok : forall chars p rest,
  (forall x, in_set set_num2 x = true -> chars x = true) ->
  Forall (tokch chars) p -> tok_end rest = true ->
  tok_split chars (p ++ rest) = match rest with [] => None | _ => Some (p, rest) end.
Proof.
  intros chars p rest Hsub Hp Hend. rewrite tok_split_app by assumption.
  destruct rest as [|c t]; [reflexivity|].
  rewrite tok_split_end; [rewrite app_nil_r; reflexivity|assumption|exact Hend].
Qed.

Lemma sub_name : forall x, in_set set_num2 x = true -> in_set set_name x = true.
Proof. intros x. unfold in_set, set_num2, set_name. simpl. lia. Qed.
Lemma sub_num1 : forall x, in_set set_num2 x = true -> in_set set_num1 x = true.
Proof. intros x. unfold in_set, set_num2, set_num1. simpl. lia. Qed.
Lemma sub_num2 : forall x, in_set set_num2 x = true -> in_set set_num2 x = true.
Proof. auto. Qed.

Lemma numch_tok : forall chars c, numch c = true ->
  (chars = in_set set_name \/ chars = in_set set_num1 \/ chars = in_set set_num2) -> tokch chars c.
Proof.
  intros chars c H Hch. unfold numch, is_digit in H. unfold tokch.
  split; [lia|].
  destruct Hch as [-> | [-> | ->]]; unfold in_set, set_name, set_num1, set_num2; simpl; lia.
Qed.

Lemma digits_numch : forall l, Forall (fun c => is_digit c = true) l -> Forall (fun c => numch c = true) l.
Proof. intros l H. eapply Forall_impl; [|exact H]. intros c Hc. unfold numch. rewrite Hc. reflexivity. Qed.

Lemma itoa_numch : forall z, Forall (fun c => numch c = true) (itoa z).
Proof.
  intros z. destruct (itoa_shape z) as (c & t & -> & Hc & Ht).
  constructor; [|apply digits_numch; assumption].
  unfold numch. destruct Hc as [-> | ->]; [reflexivity|reflexivity].
Qed.

Lemma numch_toks : forall chars l, Forall (fun c => numch c = true) l ->
  (chars = in_set set_name \/ chars = in_set set_num1 \/ chars = in_set set_num2) ->
  Forall (tokch chars) l.
Proof. intros chars l H Hch. eapply Forall_impl; [|exact H]. intros c Hc. apply numch_tok; assumption. Qed.

(* ------------------------------------------------------------------ zero_hack *)

Lemma drop_zeros_digits : forall l, Forall (fun c => is_digit c = true) l ->
  Forall (fun c => is_digit c = true) (drop_zeros l).
Proof.
  induction l as [|c t IH]; intros H; simpl; [constructor|].
  inversion H; subst. destruct (c =? 48); [apply IH; assumption|assumption].
Qed.

Lemma zero_hack_digits : forall c t, Forall (fun c => is_digit c = true) t -> zero_hack (c :: t) = c :: t.
Proof.
  intros c t Ht. unfold zero_hack. destruct t as [|d t']; [reflexivity|].
  inversion Ht as [|? ? Hd Ht']; subst.
  destruct (negb (c =? 48)); [reflexivity|].
  unfold is_digit in Hd. unfold is_sign.
  assert ((d =? 43) || (d =? 45) = false) as -> by lia.
  assert (d =? 46 = false) as -> by lia. reflexivity.
Qed.

Lemma zero_hack_real : forall ip fp, Forall (fun c => is_digit c = true) ip ->
  Forall (fun c => is_digit c = true) fp -> ip <> [] ->
  zero_hack (ip ++ 46 :: fp) = ip ++ 46 :: fp.
Proof.
  intros ip fp Hip Hfp Hne. destruct ip as [|c ip']; [congruence|].
  simpl. inversion Hip as [|? ? Hc Hip']; subst.
  destruct ip' as [|d ip''].
  - simpl. destruct (negb (c =? 48)); [reflexivity|].
    change (is_sign 46) with false. cbv iota. change (46 =? 46) with true. cbv iota.
    pose proof (drop_zeros_digits fp Hfp) as Hz.
    destruct (drop_zeros fp) as [|x y]; [reflexivity|].
    inversion Hz as [|? ? Hx _]; subst. unfold is_sign. unfold is_digit in Hx.
    assert ((x =? 43) || (x =? 45) = false) as -> by lia. reflexivity.
  - simpl. inversion Hip' as [|? ? Hd _]; subst.
    destruct (negb (c =? 48)); [reflexivity|].
    unfold is_sign. unfold is_digit in Hd.
    assert ((d =? 43) || (d =? 45) = false) as -> by lia.
    assert (d =? 46 = false) as -> by lia. reflexivity.
Qed.
