(* Facts about the wrap functions of GoInt. *)
From PV Require Import Lib.GoInt.
From Coq Require Import Lia.
Open Scope Z_scope.

Lemma pow2_pos w : 0 <= w -> 0 < 2 ^ w.
Proof. intros; apply Z.pow_pos_nonneg; lia. Qed.

Lemma pow2_split w : 1 <= w -> 2 ^ w = 2 * 2 ^ (w - 1).
Proof. intros. replace w with (Z.succ (w - 1)) at 1 by lia. rewrite Z.pow_succ_r by lia. reflexivity. Qed.

Lemma wrapS_id w z : 1 <= w -> inS w z -> wrapS w z = z.
Proof.
  unfold inS, wrapS, minS, maxS. intros Hw [H1 H2].
  pose proof (pow2_split w Hw). pose proof (pow2_pos (w - 1) ltac:(lia)).
  rewrite Z.mod_small by lia. lia.
Qed.

Lemma wrapS_range w z : 1 <= w -> inS w (wrapS w z).
Proof.
  unfold inS, wrapS, minS, maxS. intros Hw.
  pose proof (pow2_split w Hw). pose proof (pow2_pos (w - 1) ltac:(lia)).
  pose proof (Z.mod_pos_bound (z + 2 ^ (w - 1)) (2 ^ w) ltac:(lia)). lia.
Qed.

Lemma wrapU_id w z : 0 <= w -> inU w z -> wrapU w z = z.
Proof. unfold inU, wrapU, maxU. intros Hw [H1 H2]. apply Z.mod_small. lia. Qed.

Lemma wrapU_range w z : 0 <= w -> inU w (wrapU w z).
Proof. unfold inU, wrapU, maxU. intros Hw. pose proof (Z.mod_pos_bound z (2 ^ w) (pow2_pos w Hw)). lia. Qed.

(* the wrapped value differs from the exact one whenever the exact one is out of range *)
Lemma wrapS_neq w z : 1 <= w -> ~ inS w z -> wrapS w z <> z.
Proof. intros Hw Hn He. apply Hn. rewrite <- He. apply wrapS_range; exact Hw. Qed.
