// Harness for C25: wrong passwords are rejected and password changes take effect.
//
// Part A (K): the decision function setup_key of the model against the real setupEncryptionKey, driven on real
//   encrypted documents with every combination of owner-slot / user-slot / command / tampered Perms.
// Part B (K + O): random histories of api operations (encrypt, decrypt, change user pw, change owner pw, set
//   permissions; right and wrong credentials; equal, empty, padded-equivalent, long and non-ASCII passwords) on a
//   small generated PDF, for RC4-40, RC4-128, AES-128, AES-256 (R5) and AES-256 on a PDF 2.0 document (R6).
//   After every step every candidate password is tried in the owner slot and in the user slot.
//   K: result classes and the open matrix are compared with the extracted model (coq/C25/Model.v run_report).
//   O: the property itself, evaluated with the harness's own bookkeeping of the current passwords.
// Part C (O): the same operations through the *File api (staged output): an error leaves no output file and the
//   input file untouched.
package main

import (
	"bytes"
	"fmt"
	"os"
	"path/filepath"
	"strings"
	"unicode"
	"unicode/utf8"

	"golang.org/x/text/unicode/norm"

	"github.com/pdfcpu/pdfcpu/pkg/api"
	"github.com/pdfcpu/pdfcpu/pkg/pdfcpu"
	"github.com/pdfcpu/pdfcpu/pkg/pdfcpu/model"
	"github.com/pdfcpu/pdfcpu/pkg/pdfcpu/types"
	"verif/vh"
)

const title = "verif c25 secret title"

func minimalPDF(v20 bool) []byte {
	var b bytes.Buffer
	if v20 {
		b.WriteString("%PDF-2.0\n")
	} else {
		b.WriteString("%PDF-1.7\n")
	}
	offs := []int{}
	obj := func(s string) {
		offs = append(offs, b.Len())
		fmt.Fprintf(&b, "%d 0 obj\n%s\nendobj\n", len(offs), s)
	}
	obj("<< /Type /Catalog /Pages 2 0 R >>")
	obj("<< /Type /Pages /Kids [3 0 R] /Count 1 >>")
	obj("<< /Type /Page /Parent 2 0 R /MediaBox [0 0 200 200] /Contents 4 0 R /Resources << >> >>")
	content := "0 0 m 100 100 l S"
	obj(fmt.Sprintf("<< /Length %d >>\nstream\n%s\nendstream", len(content), content))
	obj("<< /Title (" + title + ") /Producer (x) >>")
	xref := b.Len()
	fmt.Fprintf(&b, "xref\n0 %d\n0000000000 65535 f \n", len(offs)+1)
	for _, o := range offs {
		fmt.Fprintf(&b, "%010d 00000 n \n", o)
	}
	fmt.Fprintf(&b, "trailer\n<< /Size %d /Root 1 0 R /Info 5 0 R /ID [<0123456789abcdef0123456789abcdef> <0123456789abcdef0123456789abcdef>] >>\nstartxref\n%d\n%%%%EOF\n", len(offs)+1, xref)
	return b.Bytes()
}

type alg struct {
	name string
	aes  bool
	klen int
	v20  bool
	rev  int
}

var algs = []alg{
	{"RC4-40", false, 40, false, 2},
	{"RC4-128", false, 128, false, 4},
	{"AES-128", true, 128, false, 4},
	{"AES-256", true, 256, false, 5},
	{"AES-256-PDF2", true, 256, true, 6},
}

func (a alg) aes256() bool { return a.rev >= 5 }

func (a alg) conf(opw, upw string) *model.Configuration {
	var c *model.Configuration
	if a.aes {
		c = model.NewAESConfiguration(upw, opw, a.klen)
	} else {
		c = model.NewRC4Configuration(upw, opw, a.klen)
	}
	return c
}

func guard(f func() error) (err error) {
	defer func() {
		if x := recover(); x != nil {
			err = fmt.Errorf("PANIC: %v", x)
		}
	}()
	return f()
}

// class of an api error, in the vocabulary of the model's outcome type
func cls(err error) string {
	if err == nil {
		return "ok"
	}
	if strings.HasPrefix(err.Error(), "PANIC") {
		return "panic"
	}
	c := pdfcpu.VerifC24ErrClass(err)
	if c == "other" && (strings.Contains(err.Error(), "validate owner password:") || strings.Contains(err.Error(), "validate user password:")) {
		return "validate"
	}
	if c == "other" && strings.Contains(err.Error(), "password entries:") {
		return "prepare" // the writer cannot prepare a new AES-256 password (preparedPasswordAES256)
	}
	return c
}

// codes shared with ocaml/C25_glue.ml (Model.outcome_code)
var code = map[string]string{"ok": "0", "owner-required": "3", "wrong-password": "4", "invalid-perms": "5",
	"permission-denied": "6", "validate": "7", "not-encrypted": "8", "encrypted": "9", "prepare": "a"}

func codeOf(c string) string {
	if x, ok := code[c]; ok {
		return x
	}
	return "X:" + vh.Hex([]byte(c))
}

var pad = []byte{0x28, 0xBF, 0x4E, 0x5E, 0x4E, 0x75, 0x8A, 0x41, 0x64, 0x00, 0x4E, 0x56, 0xFF, 0xFA, 0x01, 0x08,
	0x2E, 0x2E, 0x00, 0xB6, 0xD0, 0x68, 0x3E, 0x80, 0x2F, 0x0C, 0xA9, 0xFE, 0x64, 0x53, 0x69, 0x7A}

func pad32(s string) string {
	b := append([]byte(s), pad...)
	return string(b[:32])
}

// prepared form of a candidate on the reading side (independent restatement of ISO 32000: R<=4 pad/truncate to 32
// bytes; R>=5 the reader's preparation, truncated to 127 bytes). ok=false: preparation error.
func rprep(a alg, x string) (string, bool) {
	if !a.aes256() {
		return pad32(x), true
	}
	p, ok := specPrep(x)
	if !ok {
		return "", false
	}
	if len(p) > 127 {
		p = p[:127]
	}
	return string(p), true
}

// plainText: letters, marks, digits and ASCII printable characters other than the space.  On such passwords the
// specified preparation (SASLprep) is NFKC, and it must not identify letters that differ in case.
func plainText(x string) bool {
	if !utf8.ValidString(x) {
		return false
	}
	for _, r := range x {
		if !(unicode.IsLetter(r) || unicode.IsMark(r) || unicode.IsDigit(r) || (r > 0x20 && r < 0x7f)) {
			return false
		}
	}
	return true
}

// specPrep is the preparation of an AES-256 password by an independent route: golang.org/x/text/unicode/norm NFKC
// directly (no case folding, no width or script mapping beyond NFKC) for plain text; for everything else (spaces,
// mapped characters: the territory of finding aes256-password-prep-not-saslprep) what pdfcpu's processInput says.
func specPrep(x string) (string, bool) {
	if plainText(x) {
		return norm.NFKC.String(x), true
	}
	p, err := pdfcpu.VerifC24ProcessInput(x)
	return string(p), err == nil
}

// prepTable: the preparation handed to the model, and one correspondence case per password comparing the model's
// password bytes (firstn 127 of the independent preparation) with the real processInput + truncation
func prepTable(r *vh.Run, a alg, pool []string) string {
	var tbl []string
	for _, p := range pool {
		pp, ok := specPrep(p)
		entry := vh.Hex([]byte(p)) + ":!"
		if ok {
			entry = vh.Hex([]byte(p)) + ":" + vh.Hex([]byte(pp))
		}
		tbl = append(tbl, entry)
		if a.aes256() && plainText(p) {
			real, err := pdfcpu.VerifC24ProcessInput(p)
			res := "!"
			if err == nil {
				if len(real) > 127 {
					real = real[:127]
				}
				res = vh.Hex(real)
			}
			r.Case("prepared", []string{entry, vh.Hex([]byte(p))}, res)
			want, _ := rprep(a, p)
			if res != vh.Hex([]byte(want)) {
				r.OracleFail("aes256-prep-differs-from-nfkc", map[string]any{"password_hex": vh.Hex([]byte(p))},
					"processInput+truncation gives "+res+", NFKC+truncation gives "+vh.Hex([]byte(want)))
			}
		}
	}
	return strings.Join(tbl, ";")
}

// x is accepted for current password c: same prepared form
func accepts(a alg, c, x string) bool {
	p, ok := rprep(a, x)
	q, okc := rprep(a, c)
	return ok && okc && p == q
}

// defect class for a current password that does not open its own document
func selfRejectClass(a alg, pw string) string {
	if a.aes256() {
		p, err := pdfcpu.VerifC24ProcessInput(pw)
		if err != nil || string(p) != pw {
			return "aes256-password-prep-asymmetric"
		}
		if len(pw) > 127 {
			return "aes256-password-over-127-bytes-not-truncated-on-write"
		}
	}
	return "current-password-rejected"
}

type opener struct {
	cls     string
	ctxNil  bool
	plain   bool
	content bool
}

func open(doc []byte, opw, upw string) opener {
	c := model.NewDefaultConfiguration()
	c.OwnerPW, c.UserPW = opw, upw
	c.Cmd = model.LISTINFO
	var ctx *model.Context
	err := guard(func() error {
		var e error
		ctx, e = api.ReadValidateAndOptimize(bytes.NewReader(doc), c)
		return e
	})
	o := opener{cls: cls(err), ctxNil: ctx == nil}
	if ctx != nil {
		o.plain = ctx.E == nil
		o.content = ctx.PageCount == 1 && ctx.XRefTable.Title == title
	}
	return o
}

// ---------------------------------------------------------------- Part A

func partA(r *vh.Run) {
	vresOf := func(ok bool, err error) string {
		if err != nil {
			return "err"
		}
		if ok {
			return "ok"
		}
		return "no"
	}
	cmds := []model.CommandMode{model.VALIDATE, model.LISTINFO, model.ROTATE, model.DECRYPT, model.CHANGEUPW, model.CHANGEOPW, model.SETPERMISSIONS}
	slots := []string{"own", "usr", "bad", "", "my pass", "ª"}
	for _, a := range algs {
		for _, perm := range []model.PermissionFlags{model.PermissionsNone, model.PermissionsAll} {
			c := a.conf("own", "usr")
			c.Permissions = perm
			var out bytes.Buffer
			if err := guard(func() error { return api.Encrypt(bytes.NewReader(minimalPDF(a.v20)), &out, c) }); err != nil {
				r.OracleFail("encrypt-failed", map[string]any{"alg": a.name}, err.Error())
				continue
			}
			enc := out.Bytes()
			for _, tamper := range []bool{false, true} {
				if tamper && !a.aes256() {
					continue
				}
				for _, cmd := range cmds {
					for _, so := range slots {
						for _, su := range slots {
							if !r.Thorough() && r.Rand.Intn(3) != 0 && !(so == "own" || su == "usr") {
								continue
							}
							// fresh context each time (validation mutates ctx)
							rc := model.NewDefaultConfiguration()
							rc.OwnerPW = "own"
							rc.Cmd = model.LISTINFO
							ctx, err := api.ReadContext(bytes.NewReader(enc), rc)
							if err != nil || ctx.E == nil {
								r.OracleFail("read-failed", map[string]any{"alg": a.name}, fmt.Sprint(err))
								continue
							}
							d, err := ctx.EncryptDict()
							if err != nil {
								panic(err)
							}
							if tamper {
								pb := append([]byte{}, ctx.E.Perms...)
								pb[3] ^= 0x55
								pb[9] ^= 0x01
								d.Update("Perms", types.NewHexLiteral(pb))
								if _, err := pdfcpu.VerifC24SupportedEncryption(ctx, d); err != nil {
									panic(err)
								}
							}
							ctx.Cmd = cmd
							ctx.OwnerPW, ctx.UserPW = so, su
							e2, err := pdfcpu.VerifC24SupportedEncryption(ctx, d)
							if err != nil {
								panic(err)
							}
							e2.ID = ctx.E.ID
							ctx.E = e2
							ow := vresOf(pdfcpu.VerifC24ValidateOwnerPassword(ctx))
							ctx.EncKey = nil
							us := vresOf(pdfcpu.VerifC24ValidateUserPassword(ctx))
							ctx.EncKey = nil
							nb := cmd == model.CHANGEUPW || cmd == model.CHANGEOPW || cmd == model.SETPERMISSIONS
							hp := true
							if cmd == model.ROTATE { // Table 22: modify = bit 4 (R2) / bit 11 (R>=3)
								m := 0x0008
								if a.rev >= 3 {
									m = 0x0400
								}
								hp = int(perm)&m != 0
							}
							be := so == "" && su == ""
							var serr error
							perr := guard(func() error { serr = pdfcpu.VerifC24SetupEncryptionKey(ctx, d); return nil })
							res := cls(serr)
							if perr != nil {
								res = "panic"
							}
							if res == "ok" {
								res = "open"
							}
							r.Case("setup_key", []string{vh.Bool(nb), ow, us, vh.Bool(!tamper), vh.Bool(be), vh.Bool(hp)}, res)
							r.Count("A:" + a.name + ":" + res)
							// O: neither password validates => never opened, and ErrWrongPassword for reading commands
							if ow != "ok" && us != "ok" {
								if res == "open" || (!nb && ow == "no" && us == "no" && res != "wrong-password") {
									r.OracleFail("neither-password-not-rejected", map[string]any{"alg": a.name, "cmd": int(cmd), "opw": so, "upw": su}, res)
								} else {
									r.OracleOK()
								}
							}
							if nb && ow != "ok" {
								if res == "open" {
									r.OracleFail("change-without-owner", map[string]any{"alg": a.name, "cmd": int(cmd), "opw": so, "upw": su}, res)
								} else {
									r.OracleOK()
								}
							}
						}
					}
				}
			}
		}
	}
}

// ---------------------------------------------------------------- Part B

type opKind int

const (
	kEncrypt opKind = iota
	kDecrypt
	kChangeUser
	kChangeOwner
	kSetPerms
)

type op struct {
	kind       opKind
	opw, upw   string // slots (for change ops: the old password goes in its slot)
	newpw      string
	perm       model.PermissionFlags
}

func (o op) wire(a alg) string {
	h := func(s string) string { return vh.Hex([]byte(s)) }
	switch o.kind {
	case kEncrypt:
		return fmt.Sprintf("E:%x:%s:%s:%s", a.rev, h(o.opw), h(o.upw), vh.Int(int64(o.perm)))
	case kDecrypt:
		return "D:" + h(o.opw) + ":" + h(o.upw)
	case kChangeUser:
		return "U:" + h(o.opw) + ":" + h(o.upw) + ":" + h(o.newpw)
	case kChangeOwner:
		return "O:" + h(o.upw) + ":" + h(o.opw) + ":" + h(o.newpw)
	}
	return "P:" + h(o.opw) + ":" + h(o.upw) + ":" + vh.Int(int64(o.perm))
}

func apply(a alg, doc []byte, o op) ([]byte, error) {
	var out bytes.Buffer
	var err error
	switch o.kind {
	case kEncrypt:
		c := a.conf(o.opw, o.upw)
		c.Permissions = o.perm
		err = guard(func() error { return api.Encrypt(bytes.NewReader(doc), &out, c) })
	case kDecrypt:
		c := model.NewDefaultConfiguration()
		c.OwnerPW, c.UserPW = o.opw, o.upw
		err = guard(func() error { return api.Decrypt(bytes.NewReader(doc), &out, c) })
	case kChangeUser:
		c := model.NewDefaultConfiguration()
		c.OwnerPW = o.opw
		err = guard(func() error { return api.ChangeUserPassword(bytes.NewReader(doc), &out, o.upw, o.newpw, c) })
	case kChangeOwner:
		c := model.NewDefaultConfiguration()
		c.UserPW = o.upw
		err = guard(func() error { return api.ChangeOwnerPassword(bytes.NewReader(doc), &out, o.opw, o.newpw, c) })
	case kSetPerms:
		c := model.NewDefaultConfiguration()
		c.OwnerPW, c.UserPW = o.opw, o.upw
		c.Permissions = o.perm
		err = guard(func() error { return api.SetPermissions(bytes.NewReader(doc), &out, c) })
	}
	return out.Bytes(), err
}

// the caller's view of the current passwords (mirrors the statement, not the code)
type ghost struct {
	enc      bool
	own, usr string
}

func (g ghost) after(o op) ghost {
	switch o.kind {
	case kEncrypt:
		return ghost{true, o.opw, o.upw}
	case kDecrypt:
		return ghost{}
	case kChangeUser:
		if o.opw == "" { // R<=4: the owner slot fell back to the user password; the owner password follows
			return ghost{true, o.newpw, o.newpw}
		}
		return ghost{true, g.own, o.newpw}
	case kChangeOwner:
		return ghost{true, o.newpw, g.usr}
	}
	return g
}

var basePW = []string{"", "a", "b", "own", "usr", "é", "pässwörd-ünïcode", "0123456789012345678901234567890123456789", "01234567890123456789012345678901",
	"OpenSesame42", "opensesame42", "Straße", "STRASSE", "a" + string(pad[:31]), string(pad)}

const nTextPW = 13 // the first nTextPW entries of basePW are valid UTF-8 text; the rest are byte strings for R<=4
var defectPW = []string{"my pass", "ª", "ﬁsh", "Á", strings.Repeat("x", 130), "a b", "x y"}

func partB(r *vh.Run) {
	nHist := r.Pick(60, 400)
	for _, a := range algs {
		base := minimalPDF(a.v20)
		for hi := 0; hi < nHist; hi++ {
			// password pool of this history
			pool := []string{""}
			useDefect := a.aes256() && hi%4 == 3
			for len(pool) < 4 {
				var p string
				if useDefect && r.Rand.Intn(2) == 0 {
					p = defectPW[r.Rand.Intn(len(defectPW))]
				} else {
					nb := len(basePW)
					if a.aes256() {
						nb = nTextPW // AES-256 passwords are Unicode text (UTF-8)
					}
					p = basePW[r.Rand.Intn(nb)]
				}
				dup := false
				for _, q := range pool {
					dup = dup || q == p
				}
				if !dup {
					pool = append(pool, p)
				}
			}
			pick := func() string { return pool[r.Rand.Intn(len(pool))] }
			pickNE := func() string {
				for {
					if p := pick(); p != "" {
						return p
					}
				}
			}
			n := 1 + r.Rand.Intn(r.Pick(6, 8))
			doc := base
			g := ghost{}
			var wires, implParts []string
			histDesc := []string{}
			for si := 0; si < n; si++ {
				var o op
				o.perm = []model.PermissionFlags{model.PermissionsNone, model.PermissionsAll, model.PermissionsPrint}[r.Rand.Intn(3)]
				right := r.Rand.Intn(10) < 6
				if !g.enc && r.Rand.Intn(10) < 8 {
					o.kind = kEncrypt
					o.opw, o.upw = pickNE(), pick()
					if r.Rand.Intn(12) == 0 {
						o.opw = ""
					}
					if r.Rand.Intn(4) == 0 {
						o.upw = o.opw
					}
				} else {
					o.kind = []opKind{kChangeUser, kChangeOwner, kSetPerms, kChangeUser, kChangeOwner, kDecrypt, kEncrypt}[r.Rand.Intn(7)]
					if si < n-1 && o.kind == kDecrypt && r.Rand.Intn(2) == 0 {
						o.kind = kSetPerms
					}
					if right {
						o.opw, o.upw = g.own, g.usr
						switch r.Rand.Intn(6) {
						case 0:
							o.opw = "" // owner slot empty (works for R<=4 when owner = user)
						case 1:
							if o.kind == kDecrypt {
								o.upw = ""
							}
						}
					} else {
						o.opw, o.upw = pick(), pick()
					}
					o.newpw = pick()
					if o.kind == kChangeOwner && r.Rand.Intn(8) != 0 && o.newpw == "" {
						o.newpw = pickNE()
					}
				}
				out, err := apply(a, doc, o)
				c := cls(err)
				histDesc = append(histDesc, o.wire(a)+"=>"+c)
				wires = append(wires, o.wire(a))
				r.Count(fmt.Sprintf("B:%s:op%d:%s", a.name, o.kind, c))
				input := map[string]any{"alg": a.name, "history": histDesc, "pool_hex": hexAll(pool)}

				// ---- O: the statement, on the implementation ----
				isChange := o.kind == kChangeUser || o.kind == kChangeOwner || o.kind == kSetPerms
				if isChange && g.enc {
					eff := o.opw
					if eff == "" && !a.aes256() {
						eff = o.upw
					}
					ownerOK := accepts(a, g.own, eff) && !(a.aes256() && o.opw == "")
					if !ownerOK && err == nil {
						r.OracleFail("change-without-owner", input, "operation succeeded although the owner slot does not match the current owner password")
					} else {
						r.OracleOK()
					}
				}
				if err != nil && (c == "wrong-password" || c == "owner-required" || c == "validate") && len(out) != 0 {
					r.OracleFail("error-produced-output", input, fmt.Sprintf("%d bytes written", len(out)))
				}
				if c == "panic" || strings.HasPrefix(codeOf(c), "X:") {
					r.OracleFail("unexpected-error:"+c, input, fmt.Sprint(err))
				}
				if err == nil {
					doc = out
					g = g.after(o)
				}
				// probe matrix
				probes := []string{}
				for _, x := range pool {
					for slot := 0; slot < 2; slot++ {
						var op_ opener
						if slot == 0 {
							op_ = open(doc, x, "")
						} else {
							op_ = open(doc, "", x)
						}
						switch {
						case op_.cls == "ok" && op_.plain:
							probes = append(probes, "p")
						case op_.cls == "ok":
							probes = append(probes, "o")
						default:
							probes = append(probes, codeOf(op_.cls))
						}
						in2 := map[string]any{"alg": a.name, "history": histDesc, "candidate_hex": vh.Hex([]byte(x)), "slot": []string{"owner", "user"}[slot]}
						if op_.cls == "ok" && !op_.content {
							r.OracleFail("opened-without-content", in2, "page count / title differ")
						}
						if !g.enc {
							continue
						}
						isCur := accepts(a, g.own, x) || accepts(a, g.usr, x)
						userEmpty := accepts(a, g.usr, "")
						if !isCur && !(slot == 0 && userEmpty) {
							// neither current password: must be rejected, no content
							if op_.cls == "ok" || !op_.ctxNil {
								r.OracleFail("stale-or-wrong-password-opens", in2, "current owner="+vh.Hex([]byte(g.own))+" user="+vh.Hex([]byte(g.usr)))
							} else if op_.cls != "wrong-password" && op_.cls != "validate" {
								r.OracleFail("wrong-password-other-error", in2, op_.cls)
							} else {
								r.OracleOK()
							}
						}
					}
				}
				// the current passwords open the document
				if g.enc {
					in3 := map[string]any{"alg": a.name, "history": histDesc}
					if g.own != "" || !a.aes256() {
						if o1 := open(doc, g.own, ""); o1.cls != "ok" || !o1.content {
							in3["password_hex"] = vh.Hex([]byte(g.own))
							r.OracleFail(selfRejectClass(a, g.own), in3, "current owner password does not open the document: "+o1.cls)
						} else {
							r.OracleOK()
						}
					}
					if o2 := open(doc, "", g.usr); o2.cls != "ok" || !o2.content {
						in3["password_hex"] = vh.Hex([]byte(g.usr))
						r.OracleFail(selfRejectClass(a, g.usr), in3, "current user password does not open the document: "+o2.cls)
					} else {
						r.OracleOK()
					}
				} else if o3 := open(doc, "", ""); o3.cls != "ok" || !o3.plain || !o3.content {
					r.OracleFail("plain-document-lost", map[string]any{"alg": a.name, "history": histDesc}, o3.cls)
				}
				implParts = append(implParts, codeOf(c)+"="+strings.Join(probes, ","))
			}
			// prep table for the model: the independent preparation of every password of the pool
			tbl := prepTable(r, a, pool)
			r.Case("run", []string{tbl, strings.Join(hexAll(pool), ","), strings.Join(wires, ";")}, strings.Join(implParts, "|"))
		}
	}
}

func hexAll(l []string) []string {
	o := make([]string, len(l))
	for i, s := range l {
		o[i] = vh.Hex([]byte(s))
	}
	return o
}

// ---------------------------------------------------------------- Part C

func partC(r *vh.Run) {
	dir, err := os.MkdirTemp("", "c25-files")
	if err != nil {
		panic(err)
	}
	defer os.RemoveAll(dir)
	for _, a := range algs {
		in := filepath.Join(dir, a.name+".pdf")
		if err := os.WriteFile(in, minimalPDF(a.v20), 0o644); err != nil {
			panic(err)
		}
		c := a.conf("own", "usr")
		if err := guard(func() error { return api.EncryptFile(in, "", c) }); err != nil {
			r.OracleFail("encrypt-failed", map[string]any{"alg": a.name, "api": "EncryptFile"}, err.Error())
			continue
		}
		before, _ := os.ReadFile(in)
		type fop struct {
			name string
			run  func(out string) error
			ok   bool
		}
		nc := func(o, u string) *model.Configuration {
			c := model.NewDefaultConfiguration()
			c.OwnerPW, c.UserPW = o, u
			return c
		}
		fops := []fop{
			{"ChangeUserPasswordFile wrong owner", func(out string) error { return api.ChangeUserPasswordFile(in, out, "usr", "new", nc("bad", "")) }, false},
			{"ChangeUserPasswordFile user as owner", func(out string) error { return api.ChangeUserPasswordFile(in, out, "usr", "new", nc("usr", "")) }, false},
			{"ChangeUserPasswordFile wrong user", func(out string) error { return api.ChangeUserPasswordFile(in, out, "bad", "new", nc("own", "")) }, false},
			{"ChangeOwnerPasswordFile wrong owner", func(out string) error { return api.ChangeOwnerPasswordFile(in, out, "bad", "new", nc("", "usr")) }, false},
			{"ChangeOwnerPasswordFile user only", func(out string) error { return api.ChangeOwnerPasswordFile(in, out, "usr", "new", nc("", "usr")) }, false},
			{"SetPermissionsFile wrong owner", func(out string) error { return api.SetPermissionsFile(in, out, nc("bad", "usr")) }, false},
			{"SetPermissionsFile no owner", func(out string) error { return api.SetPermissionsFile(in, out, nc("", "usr")) }, false},
			{"DecryptFile wrong", func(out string) error { return api.DecryptFile(in, out, nc("bad", "bad")) }, false},
			{"DecryptFile none", func(out string) error { return api.DecryptFile(in, out, nc("", "")) }, false},
			{"ChangeUserPasswordFile right", func(out string) error { return api.ChangeUserPasswordFile(in, out, "usr", "new", nc("own", "")) }, true},
		}
		for _, f := range fops {
			for _, inplace := range []bool{false, true} {
				out := filepath.Join(dir, "out.pdf")
				os.Remove(out)
				arg := out
				if inplace {
					arg = ""
				}
				if f.ok && inplace {
					continue
				}
				err := guard(func() error { return f.run(arg) })
				after, _ := os.ReadFile(in)
				_, statErr := os.Stat(out)
				input := map[string]any{"alg": a.name, "api": f.name, "inplace": inplace}
				switch {
				case f.ok && (err != nil || statErr != nil):
					r.OracleFail("right-credentials-refused", input, fmt.Sprint(err))
				case f.ok:
					if o := open(mustRead(out), "", "new"); o.cls != "ok" {
						r.OracleFail("new-password-rejected", input, o.cls)
					} else if o := open(mustRead(out), "", "usr"); o.cls == "ok" {
						r.OracleFail("stale-or-wrong-password-opens", input, "old user password still opens")
					} else {
						r.OracleOK()
					}
				case err == nil:
					r.OracleFail("change-without-owner", input, "succeeded with wrong credentials")
				case !bytes.Equal(before, after):
					r.OracleFail("error-modified-input", input, cls(err))
				case statErr == nil:
					r.OracleFail("error-produced-output", input, cls(err))
				default:
					r.OracleOK()
				}
				r.Count("C:" + a.name + ":" + cls(err))
				// leftovers (staging files) must not stay behind
				ents, _ := os.ReadDir(dir)
				for _, e := range ents {
					if e.Name() != filepath.Base(in) && e.Name() != "out.pdf" && !strings.HasSuffix(e.Name(), ".pdf") {
						r.OracleFail("staging-file-left-behind", input, e.Name())
						os.Remove(filepath.Join(dir, e.Name()))
					}
				}
			}
		}
	}
}

func mustRead(p string) []byte {
	b, err := os.ReadFile(p)
	if err != nil {
		return nil
	}
	return b
}

func main() {
	api.DisableConfigDir()
	r := vh.Start("C25")
	defer r.Finish()
	partA(r)
	partB(r)
	partC(r)
	partD(r)
}

// ---------------------------------------------------------------- Part D: near misses

type variant struct{ kind, pw string }

func swapCase(r rune) rune {
	if unicode.IsUpper(r) {
		return unicode.ToLower(r)
	}
	if unicode.IsLower(r) {
		return unicode.ToUpper(r)
	}
	return r
}

func nearMisses(s string) []variant {
	var vs []variant
	add := func(kind, v string) {
		if v != s {
			vs = append(vs, variant{kind, v})
		}
	}
	add("case-swapped-all", strings.Map(swapCase, s))
	add("case-lower", strings.ToLower(s))
	add("case-upper", strings.ToUpper(s))
	rs := []rune(s)
	for i, c := range rs {
		if swapCase(c) != c {
			t := append([]rune{}, rs...)
			t[i] = swapCase(c)
			add("case-swapped-one", string(t))
			break
		}
	}
	add("case-special", strings.NewReplacer("ß", "ss", "ẞ", "ß", "ı", "i", "İ", "i", "I", "ı", "ς", "σ", "K", "k").Replace(s))
	add("case-special", strings.NewReplacer("ß", "ẞ", "i", "ı", "σ", "ς").Replace(s))
	for i, c := range rs { // NFKC-equal: a fullwidth form of an ASCII letter, and back
		if c >= 'A' && c <= 'z' && unicode.IsLetter(c) {
			t := append([]rune{}, rs...)
			t[i] = c - 'A' + 0xFF21
			add("nfkc-equal-fullwidth", string(t))
			break
		}
		if c >= 0xFF21 && c <= 0xFF5A {
			t := append([]rune{}, rs...)
			t[i] = c - 0xFF21 + 'A'
			add("nfkc-equal-fullwidth", string(t))
			break
		}
	}
	add("blank-trailing", s+" ")
	add("blank-leading", " "+s)
	if len(rs) > 1 {
		add("char-dropped", string(rs[:len(rs)-1]))
		add("char-dropped", string(rs[1:]))
	}
	add("char-added", s+"x")
	add("homoglyph", strings.NewReplacer("a", "а", "e", "е", "o", "о", "p", "р", "c", "с", "A", "А", "B", "В", "K", "К", "I", "І", "Α", "A", "ο", "o", "е", "e", "р", "p").Replace(s))
	return vs
}

func partD(r *vh.Run) {
	pairs := [][2]string{{"OpenSesame42", "UserPw7"}, {"Straße", "ẞig"}, {"ΑλφαΩμέγα", "Привет"}, {"ＡBCdef", "İstanbulı"}, {"Kelvin", "McIntosh"}, {"own", "Usr"}}
	for _, a := range algs {
		for pi, pr := range pairs {
			if !r.Thorough() && (pi+a.rev)%2 == 1 {
				continue
			}
			own, usr := pr[0], pr[1]
			eq := func(x, y string) bool { return accepts(a, y, x) }
			enc := op{kind: kEncrypt, opw: own, upw: usr, perm: model.PermissionsAll}
			doc, err := apply(a, minimalPDF(a.v20), enc)
			base := map[string]any{"alg": a.name, "owner_hex": vh.Hex([]byte(own)), "user_hex": vh.Hex([]byte(usr))}
			if err != nil {
				r.OracleFail("encrypt-failed", base, err.Error())
				continue
			}
			var vars []variant
			for _, v := range append(nearMisses(own), nearMisses(usr)...) {
				vars = append(vars, v)
			}
			fail := func(kind, opname string, v string, detail string) {
				in := map[string]any{"variant_hex": vh.Hex([]byte(v)), "variant_kind": kind, "operation": opname}
				for k, x := range base {
					in[k] = x
				}
				r.OracleFail("wrong-password-accepted:"+kind+":"+opname, in, detail)
			}
			// ---- opening: K case A = history [E] probed with every variant
			pool := []string{"", own, usr}
			var probes []string
			for _, v := range vars {
				pool = append(pool, v.pw)
			}
			for _, x := range pool {
				for slot := 0; slot < 2; slot++ {
					var o opener
					if slot == 0 {
						o = open(doc, x, "")
					} else {
						o = open(doc, "", x)
					}
					if o.cls == "ok" {
						probes = append(probes, "o")
					} else {
						probes = append(probes, codeOf(o.cls))
					}
				}
			}
			for vi, v := range vars {
				wrong := !eq(v.pw, own) && !eq(v.pw, usr)
				for slot, name := range []string{"open-owner-slot", "open-user-slot"} {
					got := probes[2*(3+vi)+slot]
					switch {
					case wrong && got == "o":
						fail(v.kind, name, v.pw, "opened")
					case !wrong && slot == 1 && eq(v.pw, usr) && got != "o":
						r.OracleFail("equivalent-password-rejected:"+v.kind+":"+name, map[string]any{"alg": a.name, "variant_hex": vh.Hex([]byte(v.pw)), "user_hex": vh.Hex([]byte(usr))}, got)
					default:
						r.OracleOK()
					}
				}
				r.Count("D:" + v.kind + ":wrong=" + vh.Bool(wrong))
			}
			r.Case("run", []string{prepTable(r, a, pool), strings.Join(hexAll(pool), ","), enc.wire(a)}, "0="+strings.Join(probes, ","))

			// ---- operations with a near miss in one slot and the right password in the other: all must fail
			var ops []op
			var labels [][3]string // kind, operation, variant
			for _, v := range vars {
				if eq(v.pw, own) || eq(v.pw, usr) {
					continue
				}
				add := func(name string, o op) {
					ops = append(ops, o)
					labels = append(labels, [3]string{v.kind, name, v.pw})
				}
				add("decrypt-owner-slot", op{kind: kDecrypt, opw: v.pw})
				add("decrypt-user-slot", op{kind: kDecrypt, upw: v.pw})
				add("setpermissions-owner-slot", op{kind: kSetPerms, opw: v.pw, upw: usr, perm: model.PermissionsNone})
				add("setpermissions-user-slot", op{kind: kSetPerms, opw: own, upw: v.pw, perm: model.PermissionsNone})
				add("changeuser-owner-slot", op{kind: kChangeUser, opw: v.pw, upw: usr, newpw: "NewUser1"})
				add("changeuser-old-user", op{kind: kChangeUser, opw: own, upw: v.pw, newpw: "NewUser1"})
				add("changeowner-old-owner", op{kind: kChangeOwner, opw: v.pw, upw: usr, newpw: "NewOwner1"})
				add("changeowner-user-slot", op{kind: kChangeOwner, opw: own, upw: v.pw, newpw: "NewOwner1"})
			}
			// every operation is tried on the document as encrypted above (a wrongly successful one is discarded), which is
			// also what the model predicts: all of them fail and leave the document as it is
			wires := []string{enc.wire(a)}
			impl := []string{"0=" + probes[0] + "," + probes[1]}
			pool2 := []string{"", own, usr, "NewUser1", "NewOwner1"}
			for i, o := range ops {
				_, err := apply(a, doc, o)
				c := cls(err)
				if err == nil {
					fail(labels[i][0], labels[i][1], labels[i][2], "operation succeeded")
				} else {
					r.OracleOK()
				}
				wires = append(wires, o.wire(a))
				impl = append(impl, codeOf(c)+"="+probes[0]+","+probes[1])
				pool2 = append(pool2, labels[i][2])
			}
			r.Case("run", []string{prepTable(r, a, dedup(pool2)), "", strings.Join(wires, ";")}, strings.Join(impl, "|"))

			// ---- after a legitimate change the case variants of the new password are wrong passwords too
			newU := "NewPass9"
			if out, err := apply(a, doc, op{kind: kChangeUser, opw: own, upw: usr, newpw: newU}); err != nil {
				r.OracleFail("right-credentials-refused", base, cls(err))
			} else {
				for _, v := range nearMisses(newU) {
					if eq(v.pw, newU) || eq(v.pw, own) {
						continue
					}
					if o := open(out, "", v.pw); o.cls == "ok" {
						fail(v.kind, "open-after-change", v.pw, "opened")
					} else {
						r.OracleOK()
					}
				}
				if o := open(out, "", newU); o.cls != "ok" {
					r.OracleFail("new-password-rejected", base, o.cls)
				}
			}
		}
	}
}

func dedup(l []string) []string {
	seen := map[string]bool{}
	var o []string
	for _, s := range l {
		if !seen[s] {
			seen[s] = true
			o = append(o, s)
		}
	}
	return o
}
